"""C05 -- condition events fire exactly when their predicate first holds, with exact value.
Model: coq/Kernel/Model.v (call_cond / cond_check / cond_build / populate / remove_checks / step); theorems in
coq/Kernel/Cond.v, CondInv.v, CondProofs.v, statements in coq/Props/C05.v.
Correspondence: script families of props/kernel_common.py (condition-heavy knobs) plus hand-shaped families (operands failing
in the instant the condition triggered, shared / nested / duplicated operands, values read late) on the real kernel vs the model.
Monitor: the property statement recomputed from an independent record of the REAL objects (public properties triggered /
processed / ok / value / defused after every step and every construction), not from the model.
Direct checks (kind "direct"): lazy empty iterables, lazy non-empty iterables, mixed environments, late failures."""
import sys
from fractions import Fraction

from vlib.framework import Prop
from props import kernel_common as kc

KERNEL_MIDLOOP_CODES = {4, 10, 12, 13, 14, 16}      # exceptions that escape from the middle of a callback loop


# ------------------------------------------------------------------------------------------------
# harness: the kernel harness plus an independent record of what the real condition objects do

class CHarness(kc.Harness):
    def __init__(self, case, env_factory=None):
        super().__init__(case, env_factory)
        self.clog = []
        self.last = {}            # evid -> last status logged
        self.point = 0
        self.item_no = 0

    def status(self, obj):
        from onl.sim.events import Condition
        trig = bool(obj.triggered)
        proc = bool(obj.processed)
        ok = bool(obj._ok) if trig else None
        val = None
        if trig:
            try:
                val = self.conv(obj._value)
            except Exception as e:      # pragma: no cover
                val = ["exn", ["Other", "conv:" + type(e).__name__], []]
        cnt = obj._count if isinstance(obj, Condition) else None
        return [trig, proc, ok, bool(obj.defused), val, cnt, type(obj).__name__]

    def snap(self, kind):
        from onl.sim.events import Event
        self.point += 1
        self.clog.append(["pt", self.point, kind, self.nsteps, self.now(), self.item_no])
        for obj in list(self.keep):
            if not isinstance(obj, Event) or id(obj) not in self.evid:
                continue
            ev = self.evid[id(obj)]
            st = self.status(obj)
            if self.last.get(ev) != st:
                self.last[ev] = st
                self.clog.append(["D", self.point, ev, st])

    def mk_cond(self, all_, evs):
        pre = [e.callbacks is None for e in evs]
        try:
            c = super().mk_cond(all_, evs)
        except Exception:
            self.snap("ctor-raised")
            raise
        cid = self.evid[id(c)]
        self.clog.append(["C", cid, bool(all_), [self.evid.get(id(e), -1) for e in evs], pre, self.point + 1])
        h = self

        def wrap(name, real):
            def w(*a, **k):
                caller = sys._getframe(1).f_code.co_name
                if caller not in ("_check", "__init__"):
                    h.clog.append(["X", cid, name, h.point])
                return real(*a, **k)
            return w
        c.succeed = wrap("succeed", c.succeed)
        c.fail = wrap("fail", c.fail)
        self.snap("ctor")
        return c

    def _step(self):
        try:
            return super()._step()
        finally:
            self.snap("step")

    def run_item(self, it):
        self.item_no += 1
        super().run_item(it)
        self.snap("item")
        self.clog.append(["res", self.item_no, self.results[-1][0], self.point])

    def run(self):
        self.snap("init")
        obs = super().run()
        obs["clog"] = self.clog
        return obs


# ------------------------------------------------------------------------------------------------
# hand-shaped families

LATT = ["0", "0", "1", "1", "1/2", "2", "1/4", "3/2"]


def gen_focus(rng):
    """conditions over shared events that several processes trigger / fail in the same instant; conditions shared by several
    waiters; nested trees; the same operand twice; operands already processed at construction; values read late"""
    ng = rng.randint(2, 5)                       # shared plain events G0..
    g = 0
    setup = []
    shared = []
    for _ in range(ng):
        setup.append(["event", ["G", g]])
        if rng.random() < 0.8:
            setup.append(["probe", ["G", g], 100 + g])
        shared.append(g)
        g += 1
    tmo = []
    for _ in range(rng.randint(0, 3)):
        setup.append(["timeout", ["G", g], rng.choice(LATT), ["int", g]])
        setup.append(["probe", ["G", g], 100 + g])
        tmo.append(g)
        g += 1
    # conditions built at module level (shared by several waiters, possibly nested)
    gconds = []
    pool = [["G", x] for x in shared + tmo]
    for _ in range(rng.randint(0, 3)):
        n = rng.choice([0, 1, 2, 2, 2, 3, 3])
        ops = [rng.choice(pool + [["G", x] for x in gconds]) for _ in range(n)]
        if ops and rng.random() < 0.15:
            ops.append(rng.choice(ops))
        setup.append(["cond", ["G", g], rng.random() < 0.5, ops])
        setup.append(["probe", ["G", g], 100 + g])
        gconds.append(g)
        g += 1
    codes = []
    nproc = rng.randint(2, 5)
    lbl = [0]
    probe = [300]

    def newlbl():
        lbl[0] += 1
        return lbl[0]

    def newprobe():
        probe[0] += 1
        return probe[0]

    def waiter():
        out = []
        nl = [1]

        def newl():
            nl[0] += 1
            return nl[0] - 1
        if rng.random() < 0.5:
            d = newl()
            out.append(["timeout", ["L", d], rng.choice(LATT), ["none"]])
            out.append(["yield", newlbl(), ["reg", ["L", d]], ["L", newl()], "catch"])

        def tree(depth):
            n = rng.choice([0, 1, 2, 2, 2, 3, 3, 4]) if depth < 3 else rng.choice([1, 2])
            ops = []
            for _ in range(n):
                r = rng.random()
                if r < 0.22 and depth < 3:
                    ops.append(tree(depth + 1))
                elif r < 0.5:
                    l = newl()
                    out.append(["timeout", ["L", l], rng.choice(LATT), ["int", rng.randint(0, 9)]])
                    if rng.random() < 0.7:
                        out.append(["probe", ["L", l], newprobe()])
                    ops.append(["L", l])
                elif r < 0.62 and gconds:
                    ops.append(["G", rng.choice(gconds)])
                else:
                    ops.append(rng.choice(pool))
            if ops and rng.random() < 0.12:
                ops.append(rng.choice(ops))
            l = newl()
            out.append(["cond", ["L", l], rng.random() < 0.5, ops])
            if rng.random() < 0.9:
                out.append(["probe", ["L", l], newprobe()])
            return ["L", l]
        for _ in range(rng.randint(1, 2)):
            target = tree(1) if (rng.random() < 0.75 or not gconds) else ["G", rng.choice(gconds)]
            dst = newl()
            out.append(["yield", newlbl(), ["reg", target], ["L", dst], rng.choice(["catch", "catch", "catch", "prop"])])
            if rng.random() < 0.5:                  # value read late
                d = newl()
                out.append(["timeout", ["L", d], rng.choice(LATT), ["none"]])
                out.append(["yield", newlbl(), ["reg", ["L", d]], ["L", newl()], "catch"])
                q = newl()
                out.append(["query", ["L", q], rng.choice(["value", "ok", "triggered", "processed"]), target])
                out.append(["log", ["reg", ["L", q]]])
        return out

    def trigger():
        out = []
        nl = [1]
        for _ in range(rng.randint(1, 3)):
            d = nl[0]
            nl[0] += 2
            out.append(["timeout", ["L", d], rng.choice(LATT), ["none"]])
            out.append(["yield", newlbl(), ["reg", ["L", d]], ["L", d + 1], "catch"])
            # a burst in one instant: succeed / fail several shared events without yielding in between
            for _ in range(rng.choice([1, 2, 2, 3])):
                e = rng.choice(shared)
                if rng.random() < 0.45:
                    out.append(["fail", ["G", e], ["user", rng.randint(0, 3), rng.randint(0, 9)]])
                else:
                    out.append(["succeed", ["G", e], ["int", rng.randint(0, 9)]])
        return out
    nwait = max(1, nproc - rng.randint(1, 2))
    for i in range(nproc):
        codes.append(waiter() if i < nwait else trigger())
    order = list(range(nproc))
    rng.shuffle(order)
    for i in order:
        setup.append(["spawn", ["G", g], i, ["none"]])
        g += 1
    plan = [["exec", setup]]
    r = rng.random()
    if r < 0.25:
        plan.append(["run_num", kc.qs(Fraction(rng.choice(["1", "2", "1/2", "3/2", "3"])))])
    elif r < 0.35:
        plan.append(["step", rng.choice([2, 3, 5, 8])])
    if rng.random() < 0.3:
        ins = []
        for _ in range(rng.randint(1, 2)):
            e = rng.choice(shared)
            ins.append(["fail", ["G", e], ["user", 1, 7]] if rng.random() < 0.4 else ["succeed", ["G", e], ["int", 5]])
        plan.append(["exec", ins])
    for _ in range(rng.choice([2, 3, 4])):
        plan.append(["run"])
    return {"t0": rng.choice(["0", "0", "1", "-1"]), "codes": codes, "plan": plan}


DIRECT = ["empty-lazy", "lazy-operands", "mixed-env", "mixed-env-matrix", "late-fail-any", "late-fail-all", "nested-detached"]


def run_direct(name):
    """small scenarios on the real classes that the script language cannot express"""
    from onl.sim import Environment
    res = {"direct": name, "checks": []}

    def chk(label, cond, detail=""):
        res["checks"].append([label, bool(cond), str(detail)[:200]])
    if name == "empty-lazy":
        for mk, what in ((lambda env: env.all_of(x for x in ()), "all_of(genexpr)"),
                         (lambda env: env.any_of(iter([])), "any_of(iter([]))"),
                         (lambda env: env.all_of(iter([])), "all_of(iter([]))"),
                         (lambda env: env.any_of(x for x in ()), "any_of(genexpr)"),
                         (lambda env: env.all_of([]), "all_of([])"), (lambda env: env.any_of(()), "any_of(())")):
            env = Environment()
            c = mk(env)
            chk("empty-triggered-at-construction " + what, c.triggered and c.ok, (c.triggered,))
            chk("empty-value-empty " + what, c.triggered and c.value.todict() == {}, c._value)
            outer = env.all_of([c, env.timeout(1, "t")])
            got = []

            def p(env, outer=outer):
                v = yield outer
                got.append((env.now, len(v.todict())))
            env.process(p(env))
            env.run()
            chk("outer-over-empty-triggers " + what, got == [(1, 1)], got)
            env = Environment()
            c = mk(env)
            o2 = env.any_of([c])
            env.run()
            chk("outer-any-over-empty-triggers " + what, o2.processed and o2.ok, (o2.triggered, o2.processed))
    elif name == "lazy-operands":
        env = Environment()
        ts = [env.timeout(1, "a"), env.timeout(2, "b")]
        c = env.all_of(t for t in ts)
        d = env.any_of(iter(ts))
        got = []

        def p(env):
            v = yield c
            got.append((env.now, list(v.todict().values())))

        def q(env):
            v = yield d
            got.append((env.now, list(v.todict().values())))
        env.process(p(env))
        env.process(q(env))
        env.run()
        chk("lazy-operands-same-as-list", got == [(1, ["a"]), (2, ["a", "b"])], got)
    elif name == "mixed-env":
        e1, e2 = Environment(), Environment()
        for mk, what in ((lambda: e1.all_of([e1.timeout(1), e2.timeout(1)]), "all_of"),
                         (lambda: e1.any_of([e2.event()]), "any_of"), (lambda: e1.event() & e2.event(), "&"),
                         (lambda: e1.event() | e2.event(), "|")):
            try:
                mk()
                chk("mixed-env-refused " + what, False, "no exception")
            except ValueError as x:
                chk("mixed-env-refused " + what, "environments" in str(x), x)
            except Exception as x:
                chk("mixed-env-refused " + what, False, repr(x))
    elif name == "mixed-env-matrix":
        # a foreign operand in every state (pending / triggered / processed ok / processed failed) at every position among own
        # operands that are pending or processed: the construction must raise ValueError and leave nothing behind
        class Boom(Exception):
            pass

        def foreign(e2, state):
            f = e2.event()
            if state == "triggered":
                f.succeed("f")
            elif state == "processed-ok":
                f.succeed("f")
                e2.run()
            elif state == "processed-failed":
                f.fail(Boom("f"))
                try:
                    e2.run()
                except Boom:
                    pass
            return f
        for kind in ("all_of", "any_of", "&", "|", "nested"):
            for state in ("pending", "triggered", "processed-ok", "processed-failed"):
                for pos in ((0, 1, 2) if kind in ("all_of", "any_of", "nested") else (0, 1)):
                    for own_first_processed in (False, True):
                        e1, e2 = Environment(), Environment()
                        op = e1.event()                         # own, pending
                        oq = e1.timeout(0, "q")                 # own, processed
                        e1.run()
                        f = foreign(e2, state)
                        inner = None
                        if kind == "nested":
                            inner = e1.all_of([op, oq])         # an own condition as operand of the outer one
                            own = [inner, oq] if own_first_processed else [op, inner]
                        elif kind in ("&", "|"):
                            own = [oq] if own_first_processed else [op]
                        else:
                            own = [oq, op] if own_first_processed else [op, oq]
                        ops = list(own)
                        ops.insert(min(pos, len(ops)), f)
                        watched = [x for x in (op, oq, f, inner) if x is not None]
                        before = [(None if x.callbacks is None else list(x.callbacks)) for x in watched]
                        q1, q2 = len(e1._queue), len(e2._queue)
                        what = f"{kind} foreign={state} pos={pos} own-processed-first={own_first_processed}"
                        try:
                            if kind == "&":
                                c = ops[0] & ops[1]
                            elif kind == "|":
                                c = ops[0] | ops[1]
                            elif kind == "all_of":
                                c = e1.all_of(ops)
                            elif kind == "any_of":
                                c = e1.any_of(ops)
                            else:
                                c = e1.any_of(ops) if pos % 2 else e1.all_of(ops)
                            chk("mixed-env-accepted " + what, False, f"no exception, triggered={c.triggered}")
                        except ValueError as x:
                            chk("mixed-env-accepted " + what, "environments" in str(x), x)
                        except Exception as x:
                            chk("mixed-env-accepted " + what, False, repr(x))
                        after = [(None if x.callbacks is None else list(x.callbacks)) for x in watched]
                        chk("mixed-env-left-callbacks " + what, after == before,
                            [len(a) - len(b) for a, b in zip(after, before) if a is not None and b is not None])
                        chk("mixed-env-scheduled " + what, (len(e1._queue), len(e2._queue)) == (q1, q2),
                            (len(e1._queue) - q1, len(e2._queue) - q2))
                        if state == "processed-failed":
                            chk("mixed-env-defused-foreign " + what, not f.defused, f.defused)
    elif name in ("late-fail-any", "late-fail-all"):
        class Boom(Exception):
            pass
        env = Environment()
        a, b = env.event(), env.event()
        c = env.any_of([a, b]) if name == "late-fail-any" else env.all_of([a, b])
        got = []

        def w(env):
            try:
                v = yield c
                got.append(("ok", [x if isinstance(x, int) else type(x).__name__ for x in v.todict().values()]))
            except Boom as x:
                got.append(("exc", x.args))

        def t(env):
            yield env.timeout(1)
            if name == "late-fail-any":
                a.succeed(1)
            else:
                a.fail(Boom("a"))
            b.fail(Boom("b"))
        env.process(w(env))
        env.process(t(env))
        raised = None
        try:
            env.run()
        except Boom as x:
            raised = x.args
        chk("late-failure-surfaces", raised == ("b",), raised)
        chk("late-failure-not-defused", not b.defused, b.defused)
        chk("condition-outcome-unchanged", (c.ok is True) if name == "late-fail-any" else (c.ok is False and c.value.args == ("a",)), c._value)
        try:
            env.run()
        except Boom as x:      # the condition's own failure when nobody catches (not here: w catches)
            got.append(("second", x.args))
        chk("waiter-got-outcome", got == ([("ok", [1, "Boom"])] if name == "late-fail-any" else [("exc", ("a",))]), got)
    elif name == "nested-detached":
        env = Environment()
        a, b, x = env.timeout(2, "a"), env.timeout(3, "b"), env.timeout(1, "x")
        c = env.all_of([a, b])
        d = env.any_of([c, x])
        got = []

        def p1(env):
            v = yield d
            got.append(("p1", env.now))

        def p2(env):
            v = yield c
            got.append(("p2", env.now))
        env.process(p1(env))
        env.process(p2(env))
        env.run()
        chk("nested-cond-detached", ("p2", 3) in got and c.triggered, got)
    return res


# ------------------------------------------------------------------------------------------------
# the monitor

class Timeline:
    def __init__(self, clog):
        self.points = {}          # idx -> (kind, stepno, now, item)
        self.hist = {}            # evid -> [(idx, status)]
        self.conds = {}           # cid -> (all, ops, pre, ctor_point)
        self.explicit = {}        # cid -> first point of an explicit succeed/fail
        self.res = []             # (item_no, result, point)
        for k in clog:
            if k[0] == "pt":
                self.points[k[1]] = (k[2], k[3], k[4], k[5])
            elif k[0] == "D":
                self.hist.setdefault(k[2], []).append((k[1], k[3]))
            elif k[0] == "C":
                self.conds[k[1]] = (k[2], k[3], k[4], k[5])
            elif k[0] == "X":
                self.explicit.setdefault(k[1], k[3])
            elif k[0] == "res":
                self.res.append((k[1], k[2], k[3]))
        self.npoints = max(self.points) if self.points else 0

    def at(self, ev, idx):
        """status of ev at (the end of) point idx, None if unknown yet"""
        st = None
        for (i, s) in self.hist.get(ev, []):
            if i <= idx:
                st = s
            else:
                break
        return st

    def first(self, ev, pred):
        for (i, s) in self.hist.get(ev, []):
            if pred(s):
                return i
        return None

    def proc_point(self, ev):
        return self.first(ev, lambda s: s[1])

    def trig_point(self, ev):
        return self.first(ev, lambda s: s[0])


def flatten(tl, cid, before):
    """the leaves of cid's operand tree, left to right, that are processed at point `before`"""
    out = []
    _, ops, _, _ = tl.conds[cid]
    for o in ops:
        if o in tl.conds:
            out.extend(flatten(tl, o, before))
        else:
            st = tl.at(o, before)
            if st is not None and st[1]:
                out.append([o, st[4]])
    return out


def ancestors(tl, cid):
    out = set()
    changed = True
    while changed:
        changed = False
        for d, (_, ops, _, _) in tl.conds.items():
            if d not in out and (cid in ops or any(x in out for x in ops)):
                out.add(d)
                changed = True
    return out


def monitor_script(case, obs):
    msgs = list(kc.basic_monitor(case, obs))
    tl = Timeline(obs.get("clog", []))
    pts = tl.points
    step_end = {p[1]: i for i, p in pts.items() if p[0] == "step"}       # step number -> its closing point

    def stepno(pt):
        return pts[pt][1]

    def in_step(pt):
        """the number of the step during which point pt was taken (None: between steps, i.e. module level)"""
        k = pts[pt][1]
        if pts[pt][0] == "step":
            return k
        if pts[pt][0].startswith("ctor") and k in step_end and step_end[k] > pt:
            return k
        return None
    # steps after which the callback loop of some event was cut short by an exception from its middle
    taint = None
    for (_, r, pt) in tl.res:
        if r[0] == "raise" and isinstance(r[1][0], str) and r[1][0] in ("Runtime", "Attribute", "Value", "Type") and \
                r[1][1] and r[1][1][0][0] == "int" and r[1][1][0][1] in KERNEL_MIDLOOP_CODES:
            k = stepno(pt)
            taint = k if taint is None else min(taint, k)
    proc_step = {}
    processed_in = {}
    for ev in tl.hist:
        p = tl.proc_point(ev)
        if p is None:
            continue
        k = in_step(p)
        if k is None:
            msgs.append(f"processed-outside-step: event {ev} became processed at {pts[p]}")
            continue
        proc_step[ev] = k
        if k in processed_in:
            msgs.append(f"step-ambiguous: two events became processed in step {k} ({processed_in[k]}, {ev})")
        processed_in[k] = ev

    def late(k):
        return taint is not None and k is not None and k >= taint

    def final(ev):
        return tl.at(ev, tl.npoints)

    def describe_when(k):
        if k == "ctor":
            return "at construction"
        return f"in step {k} (t={pts[step_end[k]][2]})" if k in step_end else f"in step {k}"

    for cid, (all_, ops, pre, cpt) in sorted(tl.conds.items()):
        name = f"{'all_of' if all_ else 'any_of'}#{cid}{ops}"
        if any(o < 0 for o in ops):
            continue
        n = len(ops)
        for (i, s) in tl.hist.get(cid, []):
            if s[5] is not None and s[5] > n:
                msgs.append(f"cond-count-exceeds: {name} has _count {s[5]} > {n} operands")
                break
        cstep = stepno(cpt)            # steps started when the constructor ran
        # --- when should it trigger, and how (the property statement) ---
        items = [("ctor", o) for i, o in enumerate(ops) if pre[i]]
        later = sorted((proc_step[o], i) for i, o in enumerate(ops) if not pre[i] and o in proc_step)
        items += [(k, ops[i]) for (k, i) in later]
        spec = None
        cnt = 0
        if n == 0:
            spec = ("ctor", "ok")
        else:
            for (k, o) in items:
                # the operand's outcome WHEN IT WAS PROCESSED (the outcome of a Process event can be overwritten later when
                # program text called succeed()/fail() on the live process: that is outside C05)
                st = tl.at(o, cpt) if k == "ctor" else tl.at(o, step_end.get(k, tl.npoints))
                if st is None or st[2] is None:
                    break
                if st[2] is False:
                    spec = (k, ("fail", st[4], o))
                    break
                cnt += 1
                if (cnt == n) if all_ else (cnt > 0):
                    spec = (k, "ok")
                    break
        tobs = tl.trig_point(cid)
        if tobs is None:
            kobs = None
        elif tobs == cpt:
            kobs = "ctor"
        else:
            kobs = in_step(tobs)
            if kobs is None:
                kobs = ("outside", tobs)
        expl = tl.explicit.get(cid)
        if expl is not None and (tobs is None or expl <= tobs):
            continue                                       # program text triggered the condition itself
        anc = ancestors(tl, cid)
        det = [proc_step[d] for d in anc if d in proc_step]
        det = min(det) if det else None
        if spec is None:
            if tobs is not None:
                msgs.append(f"cond-triggered-early: {name} triggered {describe_when(kobs)} although its predicate never held "
                            f"({cnt} of {n} operands processed, none failed)")
            continue
        sk, how = spec
        if sk != "ctor" and late(sk):
            continue
        if kobs != sk:
            ksk = -1 if sk == "ctor" else sk
            if det is not None and det < ksk and (kobs is None or (kobs != "ctor" and not isinstance(kobs, tuple) and kobs > ksk)):
                msgs.append(f"nested-cond-detached: {name} should trigger {describe_when(sk)} (operand processing completes "
                            f"its predicate) but an enclosing condition was processed before (step {det}) and unsubscribed it; "
                            f"observed trigger: {'never' if kobs is None else describe_when(kobs)}")
            elif kobs is None:
                msgs.append(f"cond-never-triggers: {name} predicate holds {describe_when(sk)} but the condition is still pending at the end")
            else:
                msgs.append(f"cond-trigger-time: {name} triggered {describe_when(kobs)}, its predicate first holds {describe_when(sk)}")
            continue
        st = tl.at(cid, tobs)
        if how == "ok":
            if st[2] is not True:
                msgs.append(f"cond-wrong-outcome: {name} should succeed {describe_when(sk)} but failed with {st[4]}")
                continue
        else:
            _, exn, o = how
            if st[2] is not False or st[4] != exn:
                msgs.append(f"cond-wrong-outcome: {name} should fail with operand {o}'s exception {exn}, outcome is "
                            f"{'ok' if st[2] else st[4]}")
                continue
            endpt = cpt if sk == "ctor" else step_end.get(sk, tobs)
            so = tl.at(o, endpt)
            if so is not None and not so[3]:
                msgs.append(f"cond-operand-not-defused: {name} failed with operand {o}'s exception but the operand is not defused")
        for (i, s) in tl.hist.get(cid, []):
            if i > tobs and (s[2] != st[2] or (s[2] is False and s[4] != st[4])):
                msgs.append(f"cond-outcome-changed: {name} outcome {st[2]}/{st[4]} became {s[2]}/{s[4]} at {pts[i]}")
                break
        # value: built when the condition itself is processed, from the leaves processed by then
        if cid in proc_step and st[2] is True and not late(proc_step[cid]):
            kc_ = proc_step[cid]
            got = final(cid)[4]

            def leaves(c2):
                out = []
                for o in tl.conds[c2][1]:
                    if o in tl.conds:
                        out.extend(leaves(o))
                    elif o in proc_step and proc_step[o] < kc_:
                        out.append([o, final(o)[4]])
                return out
            want = leaves(cid)
            if got[0] != "cond":
                msgs.append(f"cond-value-not-a-condition-value: {name} value is {got}")
            elif [x[0] for x in got[1]] != [x[0] for x in want]:
                msgs.append(f"cond-value-keys: {name} processed in step {kc_} has keys {[x[0] for x in got[1]]}, "
                            f"the leaves processed by then are {[x[0] for x in want]} (operand order)")
            elif got[1] != want:
                msgs.append(f"cond-value-values: {name} value {got[1]} differs from the operands' values {want}")
    # --- failures: defused exactly when somebody handled them; unhandled ones surface from step()/run() ---
    # exceptions thrown into processes, per processed event (log entries tag 1 with [1, exn] after its "step" entry)
    deliv_ev = {}
    cur = None
    for t in obs["trace"]:
        if t[0] == "step":
            cur = t[1]
        elif t[0] == "log" and cur is not None:
            v = t[3][1]
            if v and v[0] == ["int", 1] and len(v) >= 3 and v[2][0] == "list" and v[2][1][0] == ["int", 1]:
                deliv_ev[cur] = deliv_ev.get(cur, 0) + 1
    res_by_point = {pt: r for (_, r, pt) in tl.res}
    for e, k in sorted(proc_step.items(), key=lambda x: x[1]):
        if late(k) or k not in step_end:
            continue
        st = tl.at(e, step_end[k])
        if st is None or st[2] is not False or st[6] == "Interruption":
            continue
        p0 = tl.proc_point(e)
        before = tl.at(e, p0 - 1)
        if before is not None and before[3]:
            continue                                      # defused before it was processed
        takers, unsure = [], False
        for cid, (all_, ops, pre, cpt) in tl.conds.items():
            if e not in ops:
                continue
            if cpt >= p0:
                if in_step(cpt) == k:
                    unsure = True                         # built during this very step, after e was popped
                continue
            tobs = tl.trig_point(cid)
            if tobs is not None and tobs < p0:
                continue                                  # already triggered when e was processed
            if any(d in proc_step and proc_step[d] < k for d in ancestors(tl, cid)):
                continue
            if cid in tl.explicit and tl.explicit[cid] <= step_end[k]:
                unsure = True
                continue
            takers.append(cid)
        if deliv_ev.get(e, 0) or unsure:
            continue                                      # a process received an exception in this step: it may be this one
        want = bool(takers)
        if st[3] != want:
            if st[3]:
                msgs.append(f"late-failure-defused: event {e} failed (processed in step {k}, t={pts[step_end[k]][2]}), no process "
                            f"received its exception and every condition over it had already triggered, yet it is marked "
                            f"defused (its failure is swallowed)")
            else:
                msgs.append(f"cond-operand-not-defused: event {e} failed while conditions {takers} were pending on it "
                            f"but it is not defused")
        if not want and not st[3]:
            r = None
            for q in sorted(pts):
                if q > step_end[k]:
                    if pts[q][0] == "item":
                        r = res_by_point.get(q)
                    break
            if r is None or r[0] != "raise" or ["exn", r[1][0], r[1][1]] != st[4]:
                msgs.append(f"late-failure-lost: event {e} failed in step {k} unhandled and undefused, but step()/run() "
                            f"did not raise its exception (result {r})")
    seen, out = set(), []
    for m in msgs:
        s = m.split(":")[0]
        if s not in seen:
            seen.add(s)
            out.append(m)
    return out


def monitor_direct(case, obs):
    msgs = []
    for label, ok, detail in obs.get("checks", []):
        if not ok:
            sig = label.split(" ")[0]
            msgs.append(f"{sig}: direct scenario {obs.get('direct')}: {label} failed ({detail})")
    if obs.get("crash"):
        msgs.append(f"direct-scenario-crashed: {obs.get('direct')}: {obs['crash']}")
    return msgs


class C05(Prop):
    id = "C05"
    props_file = ["Props/C05.v", "Props/C05_Examples.v", "Props/C05_Bridge.v", "Props/C05_BridgeLoop.v"]
    coq_imports = kc.COQ_IMPORTS
    n_quick = 700
    n_thorough = 16000
    shard = 70
    case_timeout = 30
    nontrivial_rule = ("55% hand-shaped condition families (2-5 shared plain events triggered/failed in bursts inside one instant by "
                       "trigger processes, shared timeouts on the lattice {0,1,1/2,2,1/4,3/2}, conditions built at module level and "
                       "shared by several waiters, trees of depth <= 3 with nested/duplicated/pre-processed operands, values read "
                       "late), 45% random script families of kernel_common with condition-heavy weights; non-trivial = at least one "
                       "condition with >= 2 operands and a same-instant coincidence of >= 3 processed events; distinct by hash")
    trusted_base = ["vlib/translate.py (Python ast, fail closed; tables in props/kernel_tie.py) regenerates before every build the translation of "
                    "Condition.all_events / any_events / _check / _build_value of the tree under test (coq/Gen/Extracted_cond.v); the C05_gen_* theorems (Props/C05_Bridge.v) bridge them to cond_evaluate / cond_check / cond_build of Kernel/Model.v; the loops of Condition.__init__, _populate_value and _remove_check_callbacks are translated as ONE iteration each (coq/Gen/Extracted_condloops.v), run with fuel and bridged by the C05_gen_* theorems of Props/C05_BridgeLoop.v; the mixed-environment check loop is one whitelisted statement",
                    "kernel harness props/kernel_common.py (real generators on the real Environment), extended in this plugin by an "
                    "independent record of the real objects' public state (triggered/processed/ok/value/defused, Condition._count) "
                    "after every step and construction; Condition.succeed/fail wrapped per instance to see explicit triggers",
                    "times are exact: dyadic delays, Python numbers converted with fractions.Fraction",
                    "CPython generator semantics and heapq are modelled, not verified"]
    assumptions = ["process bodies do not call env.run()/step() re-entrantly",
                   "executions are considered up to the first exception that escapes from the middle of a callback loop "
                   "(invalid yield, interrupt of a process whose target was processed): theorems about step boundaries use creach",
                   "program text does not call succeed()/fail() on the condition object itself (theorems carry the list X of "
                   "explicitly triggered events; the monitor skips such conditions)",
                   "one Environment in the model: mixed_env_refused is checked directly on the real code, not proved"]
    partial = ["mixed_env_refused: the model has one environment; the ValueError is checked by direct calls (kind 'direct'), "
               "there is no theorem",
               "nested conditions: theorems hold for conditions that no enclosing, already processed condition has detached "
               "(C05_all_of_refuted_when_detached shows the hypothesis is necessary: finding nested-cond-detached)",
               "exactness of the forwarded exception for Process operands assumes the Process event's outcome is not overwritten "
               "by program text calling succeed()/fail() on a live process (disjunct kproc in C05_cond_step)"]

    knobs = {"w_cond": 7, "w_fail": 3, "w_trigger": 5, "w_wait_shared": 3, "w_timeout": 4, "w_interrupt": 1.0,
             "w_intr_then_spawn": 0.3, "w_interrupt_self": 0.1, "w_fine_pair": 0.3, "w_neg_delay": 0.1, "w_double_trigger": 0.5,
             "n_shared": (2, 4), "n_shared_timeouts": (1, 2), "p_top_exec": 0.45, "procs": (2, 6), "p_probe": 0.9,
             "p_fine": 0.04, "p_catch": 0.7}


    # ---- second tie: kernel leaves translated from the tree under test before the Coq build (fail closed) ----
    def pre_build(self):
        from vlib import framework as fw
        from props import kernel_tie
        kernel_tie.write_extracted_cond(fw.REPO, fw.COQ)
        kernel_tie.write_extracted_condloops(fw.REPO, fw.COQ)

    def gen_case(self, rng, tier):
        r = rng.random()
        if r < 0.02:
            return {"kind": "direct", "name": rng.choice(DIRECT), "_noshrink": True}
        if r < 0.55:
            return gen_focus(rng)
        return kc.gen_case(rng, self.knobs)

    def run_impl(self, case):
        if case.get("kind") == "direct":
            try:
                return run_direct(case["name"])
            except Exception as e:
                return {"direct": case["name"], "checks": [], "crash": repr(e)[:300]}
        return CHarness(case).run()

    def agree_term(self, case, obs):
        if case.get("kind") == "direct":
            return None
        return kc.agree_term(case, obs)

    def model_term(self, case):
        if case.get("kind") == "direct":
            return None
        return kc.model_term(case)

    def monitor(self, case, obs):
        if case.get("kind") == "direct":
            return monitor_direct(case, obs)
        return monitor_script(case, obs)

    def nontrivial(self, case, obs):
        if case.get("kind") == "direct":
            return False
        big = any(k[0] == "C" and len(k[3]) >= 2 for k in obs.get("clog", []))
        return big and kc.coincidences(obs) >= 3

    def shrink(self, case):
        if case.get("kind") == "direct":
            return []
        return kc.shrink(case)

    def describe(self, case, obs):
        if case.get("kind") == "direct":
            return ["direct-" + case["name"]]
        keys = kc.describe(case, obs)
        tl = Timeline(obs.get("clog", []))
        keys.append("conds=%s" % (len(tl.conds) if len(tl.conds) < 6 else "6+"))
        for cid, (all_, ops, pre, cpt) in tl.conds.items():
            if not ops:
                keys.append("cond-empty")
            if any(pre):
                keys.append("cond-operand-preprocessed")
            if len(set(ops)) < len(ops):
                keys.append("cond-duplicate-operand")
            if any(o in tl.conds for o in ops):
                keys.append("cond-nested")
            tp, pp = tl.trig_point(cid), tl.proc_point(cid)
            if tp is not None:
                st = tl.at(cid, tp)
                keys.append("cond-failed" if st[2] is False else "cond-succeeded")
                if tp == cpt:
                    keys.append("cond-triggered-at-construction")
                if pp is not None and st[2]:
                    v0, v1 = flatten(tl, cid, tp), tl.at(cid, pp)[4]
                    if v1[0] == "cond" and len(v1[1]) > len(v0):
                        keys.append("cond-value-grew-in-gap")
            else:
                keys.append("cond-never-triggered")
            if cid in tl.explicit:
                keys.append("cond-explicitly-triggered")
        return sorted(set(keys))

    def extra_checks(self, rng, tier):
        viol = []
        n = 0
        for name in DIRECT:
            case = {"kind": "direct", "name": name, "_noshrink": True}
            obs = self.run_impl(case)
            n += len(obs.get("checks", []))
            for m in self.monitor(case, obs):
                viol.append((case, obs, m))
        return viol, {"direct_checks": n}


PROP = C05()
