"""Second tie for the GENERATOR body DistPacketGenerator.run (C08, part props/part_gensink.py): the body cut at its yields by
vlib/translate_gen.py (fail closed) into coq/Gen/Extracted_distgen_run.v on every run; bridged to the GStart / GInitFire /
GFire steps of Elem/GenSink.v by coq/Elem/GenRunBridge.v; obligations in Props/C08_BridgeGen.v."""
import os

DG_STATE = [("packets_send", "Z")]
DG_READS = [("self.initial_delay", "initial_delay", "Q"),
            # finish defaults to float("inf"), which is no rational: the outcome of the loop test is the observation (the
            # model's before_finish); any other spelling of the test is Unsupported
            ("env.now < self.finish", "before_finish", "bool"), ("self.finish > env.now", "before_finish", "bool"),
            ("self.env.now < self.finish", "before_finish", "bool"),
            ("env.now", "now", "Q"),
            ("self.rec_flow", "rec_flow", "bool"), ("self.debug", "debug", "bool"), ("self.out", "out_set", "optobj")]
DG_DRAWS = [("self.arrival_dist()", "a", "Q", "FxArrivalDist"),      # consumed inside `yield env.timeout(self.arrival_dist())`
            ("self.size_dist()", "sz", "Z", "FxSizeDist")]           # consumed inside Packet(..)
DG_FX = [("packet = Packet(_1, _2, _3, src=self.element_id, flow_id=self.flow_id)", "FxNewPacket", ["Q", "Z", "Z"]),
         ("self.time_rec.append(packet.time)", "FxRecTime", []),
         ("self.size_rec.append(packet.size)", "FxRecSize", []),
         ("self.out.put(packet)", "FxOutPut", [])]
DG_FX_CONS = [("FxArrivalDist", ""), ("FxSizeDist", ""), ("FxNewPacket", "(t : Q) (size : Z) (id : Z)"),
              ("FxRecTime", ""), ("FxRecSize", ""), ("FxOutPut", "")]
DG_REQUESTS = [("env.timeout(_1)", "RqTimeout", ["Q"], None), ("self.env.timeout(_1)", "RqTimeout", ["Q"], None)]
DG_RAISES = [("raise Exception(_1)", "ExOutNone")]


def extracted_distgen_run(repo):
    from vlib import translate_gen as tg
    spec = tg.GenSpec(os.path.join(repo, "onl", "packet", "dist_generator.py"), "DistPacketGenerator", "run", "gen_DistGen_run",
                      reads=DG_READS, draws=DG_DRAWS, effects=DG_FX, requests=DG_REQUESTS, raises=DG_RAISES,
                      objects=["packet"], binds={"FxNewPacket": "packet"})
    return tg.gen_run_module("onl/packet/dist_generator.py: DistPacketGenerator.run", spec, DG_STATE, "dg_run_st", "dg_",
                             "dg_run_fx", DG_FX_CONS, [("RqTimeout", "(d : Q)")], exn_cons=[("ExOutNone", "")], types="dg_run")


def write_extracted_distgen_run(repo, coq_dir):
    from vlib import translate as tr
    return tr.write_if_changed(os.path.join(coq_dir, "Gen", "Extracted_distgen_run.v"), extracted_distgen_run(repo))
