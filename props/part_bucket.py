"""Part "bucket": TokenBucket (kind 'tb') and TwoRateTokenBucket (kind 'trtb').
Serves C11 (conformance, earliest release, peak spacing, colours) and C08 (conservation).
Models: coq/Elem/Bucket.v, coq/Elem/TwoRate.v; theorems: Props/C11.v, Props/C08_Bucket.v."""
from fractions import Fraction as Fr

from vlib import coqfmt as cf
from props import elem_common as ec


def num(x):
    """a rate/size as the caller would write it: int when integral, else an exact float"""
    f = cf.frac(x)
    return int(f) if f.denominator == 1 else ec.T(f)


class ColourTap(ec.Tap):
    """downstream recorder that notes, at the moment of out.put, packet.color and the shaper's public state as a next hop
    reading it inside its put() sees it (`view` = the sampler of the shaper this tap sits behind)"""

    def __init__(self, h, tag, view=None):
        super().__init__(h, tag)
        self.view = view

    def put(self, p):
        uid = getattr(p, "uid", None)
        self.got.append(p)
        self.h._emit(["out", self.tag, uid, ec.pkt_fields(p), id(p) == id(self.h.packets.get(uid)),
                      getattr(p, "color", None), self.view() if self.view else None])


# ---- the statement of C11 as a reference computation (exact rationals, independent of the Coq model) -------

class RefBucket:
    """a bucket filled at `rate` bits/s, capped at `cap` bytes, full at instant t0"""

    def __init__(self, rate, cap, t0):
        self.rate, self.cap, self.level, self.t = Fr(rate), Fr(cap), Fr(cap), Fr(t0)

    def fill_to(self, t):
        self.level = min(self.cap, self.level + self.rate * (t - self.t) / 8)
        self.t = t

    def earliest(self, size):
        """least d >= 0 such that the bucket holds `size` at self.t + d (uncapped growth for the packet at the head
        when it is larger than the bucket)"""
        return Fr(0) if size <= self.level else (size - self.level) * 8 / self.rate

    def take(self, t, size):
        self.level = self.level + self.rate * (t - self.t) / 8 - size
        self.t = t


def ref_tb(case, arrivals):
    """arrivals [(uid, instant, size)] in put order -> [(uid, debit instant, departure instant, tokens left after the debit)]"""
    t0 = Fr(case["t0"])
    rate, B = Fr(case["rate"]), Fr(case["bsize"])
    peak = Fr(case["peak"]) if case["peak"] not in (None, 0, "0/1") else None
    b = RefBucket(rate, B, t0)
    free = t0
    out = []
    for (uid, a, size) in arrivals:
        h = max(a, free)
        b.fill_to(h)
        d = h + b.earliest(size)
        b.take(d, size)
        dep = d + (Fr(8 * size) / peak if peak else 0)
        out.append((uid, d, dep, b.level))
        free = dep
    return out


def ref_trtb(case, arrivals, want_state=False):
    """-> [(uid, departure instant, colour, committed tokens left, peak tokens left or None)]
    (with want_state: also the buckets and the instant the server is free)"""
    t0 = Fr(case["t0"])
    cir, cbs = Fr(case["cir"]), Fr(case["cbs"])
    pir = Fr(case["pir"]) if case["pir"] not in (None, 0, "0/1") else None
    C = RefBucket(cir, cbs, t0)
    P = RefBucket(pir, Fr(case["pbs"]), t0) if pir else None
    free = t0
    out = []
    for (uid, a, size) in arrivals:
        h = max(a, free)
        C.fill_to(h)
        if P:
            P.fill_to(h)
            w = P.earliest(size)
            if w > 0:
                col = "red"
                P.take(h + w, size)
                C.fill_to(h + w)          # the committed bucket keeps filling; a red packet takes nothing from it
            elif size > C.level:
                col = "yellow"
                P.take(h, size)           # only the committed tokens were short: the committed bucket is left alone
            else:
                col = "green"
                P.take(h, size)
                C.take(h, size)
        else:
            w = C.earliest(size)
            col = "yellow" if w > 0 else "green"
            C.take(h + w, size)
        out.append((uid, h + w, col, C.level, P.level if P else None))
        free = h + w
    if want_state:
        return out, (C, P, free)
    return out


def pairs_conform(deps, rate, cap, what):
    """deps [(t, size)] by debit instant: sum(size_i..size_j) <= max(cap, size_i) + rate*(t_j - t_i)/8 for all i <= j"""
    for i in range(len(deps)):
        tot = Fr(0)
        for j in range(i, len(deps)):
            tot += deps[j][1]
            if deps[j][0] < deps[i][0]:
                return f"{what}: debit instants decrease ({deps[i][0]} then {deps[j][0]})"
            bound = max(cap, deps[i][1]) + rate * (deps[j][0] - deps[i][0]) / 8
            if tot > bound:
                return (f"{what}: departures {i}..{j} carry {tot} bytes > max({cap},{deps[i][1]}) + {rate}*({deps[j][0]}-{deps[i][0]})/8"
                        f" = {bound}")
    return None


# ------------------------------------------------------------------------------------------------
# second tie (DESIGN 2.6), the put() bodies only: TokenBucket.put / TwoRateTokenBucket.put translated from the tree under
# test on every run (vlib/translate.py, fail closed) into coq/Gen/Extracted_bucketput.v; bridged to the TPut / RPut steps of
# Elem/Bucket.v / Elem/TwoRate.v by coq/Elem/BucketPutBridge.v; obligations in Props/C11_BridgePut.v.  The refill / debit
# arithmetic sits in the run() generators, which vlib/translate.py does not translate.

BUCKETPUT_CONS = [("FxStorePut", "")]                 # self.store.put(packet)
BUCKETPUT_FX = [("self.store.put(packet)", "FxStorePut", [])]


def extracted_bucketput(repo):
    import os
    from vlib import translate as tr
    nd = os.path.join(repo, "onl", "netdev")
    specs = [tr.FnSpec(os.path.join(nd, "token_bucket.py"), "TokenBucket", "put", "gen_TokenBucket_put", effects=BUCKETPUT_FX),
             tr.FnSpec(os.path.join(nd, "two_level_token_bucket.py"), "TwoRateTokenBucket", "put", "gen_TwoRateTokenBucket_put",
                       effects=BUCKETPUT_FX)]
    return tr.gen_module("onl/netdev/token_bucket.py: TokenBucket.put; two_level_token_bucket.py: TwoRateTokenBucket.put",
                         "bput_st", "b_", [("packets_received", "Z")], "bput_fx", BUCKETPUT_CONS, specs)


# TokenBucket.run, the server process, cut at its yields (vlib/translate_gen.py): Gen/Extracted_bucket_run.v; bridged to the
# TInit / TGet / TTimer steps of Elem/Bucket.v by coq/Elem/BucketRunBridge.v; obligations in Props/C11_BridgeRun.v
TB_RUN_STATE = [("current_bucket", "Q"), ("update_time", "Q"), ("packets_sent", "Z")]
TB_RUN_READS = [("self.bucket_size", "bucket_size", "Q"), ("self.rate", "rate", "Q"),
                ("self.peak", "peak", "optQ"),                       # None | number: `if self.peak:`
                ("env.now", "now", "Q"), ("self.env.now", "now", "Q"),
                ("packet.size", "size", "Z"),
                ("self.out", "out_set", "optobj"), ("self.debug", "debug", "bool")]
TB_RUN_FX = [("self.out.put(packet)", "FxOutPut", [])]
TB_RUN_SEES = {"FxOutPut": ["packets_sent"]}          # what the downstream can see of the bucket during the call
TB_RUN_FX_CONS = [("FxOutPut", "(packets_sent : Z)")]
TB_RUN_REQUESTS = [("self.store.get()", "RqStoreGet", [], "obj"),
                   ("env.timeout(_1)", "RqTimeout", ["Q"], None), ("self.env.timeout(_1)", "RqTimeout", ["Q"], None)]
TB_RUN_REQ_CONS = [("RqStoreGet", ""), ("RqTimeout", "(d : Q)")]
TB_RUN_RAISES = [("raise ValueError(\"token bucket's out is None\")", "ExOutNone")]


def extracted_bucket_run(repo):
    import os
    from vlib import translate_gen as tg
    spec = tg.GenSpec(os.path.join(repo, "onl", "netdev", "token_bucket.py"), "TokenBucket", "run", "gen_TokenBucket_run",
                      reads=TB_RUN_READS, effects=TB_RUN_FX, requests=TB_RUN_REQUESTS, raises=TB_RUN_RAISES,
                      objects=["packet"], sees=TB_RUN_SEES)
    return tg.gen_run_module("onl/netdev/token_bucket.py: TokenBucket.run", spec, TB_RUN_STATE, "tb_run_st", "tb_",
                             "tb_run_fx", TB_RUN_FX_CONS, TB_RUN_REQ_CONS, exn_cons=[("ExOutNone", "")], types="tb_run")


# TwoRateTokenBucket.run likewise: Gen/Extracted_tworate_run.v; bridged to RInit / RGet / RTimer of Elem/TwoRate.v by
# coq/Elem/TwoRateRunBridge.v; obligations in Props/C11_BridgeRunTR.v
TR_RUN_STATE = [("current_bucket_commit", "Q"), ("current_bucket_peak", "Q"), ("update_time", "Q"), ("packets_sent", "Z")]
TR_RUN_READS = [("self.cbs", "cbs", "Q"), ("self.cir", "cir", "Q"),
                ("self.pir", "pir", "optQ"), ("self.pbs", "pbs", "optQ"),                  # None | number
                ("self.current_bucket_peak is not None", "peak_level_set", "bool"),        # the assert under `if self.pir:`
                ("env.now", "now", "Q"), ("self.env.now", "now", "Q"),
                ("packet.size", "size", "Z"),
                ("self.out", "out_set", "optobj"), ("self.debug", "debug", "bool")]
TR_RUN_FX = [("self.out.put(packet)", "FxOutPut", []),
             ('packet.color = "red"', "FxRed", []), ('packet.color = "yellow"', "FxYellow", []),
             ('packet.color = "green"', "FxGreen", [])]
TR_RUN_FX_CONS = [("FxOutPut", "(packets_sent : Z)"), ("FxRed", ""), ("FxYellow", ""), ("FxGreen", "")]


def extracted_tworate_run(repo):
    import os
    from vlib import translate_gen as tg
    spec = tg.GenSpec(os.path.join(repo, "onl", "netdev", "two_level_token_bucket.py"), "TwoRateTokenBucket", "run",
                      "gen_TwoRate_run", reads=TR_RUN_READS, effects=TR_RUN_FX, requests=TB_RUN_REQUESTS, objects=["packet"],
                      sees=TB_RUN_SEES)
    return tg.gen_run_module("onl/netdev/two_level_token_bucket.py: TwoRateTokenBucket.run", spec, TR_RUN_STATE, "tr_run_st",
                             "tw_", "tr_run_fx", TR_RUN_FX_CONS, TB_RUN_REQ_CONS, types="tr_run")


class BucketPart:
    name = "bucket"
    kinds = ["tb", "trtb", "tb2", "trtb2"]
    serves = ["C11", "C08"]
    props_files = {"C11": ["Props/C11.v", "Props/C11_BridgePut.v", "Props/C11_BridgeRun.v", "Props/C11_BridgeRunTR.v"], "C08": ["Props/C08_Bucket.v"]}

    # ---- second tie (put bodies): regenerate before the Coq build (fail closed) ----------------------------
    def pre_build(self, prop_id):
        if prop_id != "C11":
            return
        import os
        from vlib import framework as fw
        from vlib import translate as tr
        tr.write_if_changed(os.path.join(fw.COQ, "Gen", "Extracted_bucketput.v"), extracted_bucketput(fw.REPO))
        tr.write_if_changed(os.path.join(fw.COQ, "Gen", "Extracted_bucket_run.v"), extracted_bucket_run(fw.REPO))
        tr.write_if_changed(os.path.join(fw.COQ, "Gen", "Extracted_tworate_run.v"), extracted_tworate_run(fw.REPO))

    coq_imports = ["From ONL Require Import Base.Cmp Elem.Packet Elem.StoreQ Elem.Bucket Elem.TwoRate."]
    weight = 1
    nontrivial_rule = {
        "C11": ("random bursty workloads from 1-3 driver processes (late knobs, created before or after the element) on a dyadic "
                "time lattice with long idle gaps, extra arrivals placed exactly at computed release instants; rates/peaks powers "
                "of two (every float the code computes is exact), bucket sizes 0 / smaller / larger than the packets, peak "
                "None/0/set, PIR/PBS None/set, initial time 0 / positive / negative; non-trivial = at least 3 packets and at "
                "least one packet that had to wait for tokens (tb) resp. at least two different colours (trtb); kinds tb2 / trtb2 (12%): TWO "
                "bucket instances (different parameters; tb2 also puts a TokenBucket next to a TwoRateTokenBucket) in ONE Environment "
                "with interleaved workloads, each replayed against its own copy of the model, monitors per instance plus "
                "instances-interfere (an action of one instance must not change the other's public state); 17%: late configuration "
                "(built with other values or without optional arguments, public attributes assigned before any traffic); 50%: packet "
                "ids numbered per flow (equal ids inside the shaper together); the recording next hop samples the shaper's public "
                "state inside its put() (hand-off clauses, also replayed against the model); 28%: re-wiring (`out` assigned 2-3 times "
                "before traffic, decoy sinks first, None in between; re-attached mid-run to a second sink at arrival/release "
                "instants; every packet goes once to the sink in force); after 12% of the cases a fixed canary "
                "scenario runs in the same process and is compared with its known observation; distinct by hash"),
        "C08": "same case stream as C11; non-trivial = at least 3 packets, at least one queued behind another",
    }
    trusted_base = {
        "C11": ["float rounding is outside the theorems: generated rates are powers of two and times/sizes dyadic so that every "
                "float the buckets compute is exact; the comparison with the model is exact (Qeq_bool)",
                "packet.color is read by the recording sink at the moment of out.put",
                "vlib/translate.py (Python ast, fail closed) regenerates coq/Gen/Extracted_bucketput.v from TokenBucket.put / "
                "TwoRateTokenBucket.put of the tree under test before every build; C11_gen_*_put (Props/C11_BridgePut.v) bridge them "
                "to the TPut / RPut steps",
                "vlib/translate_gen.py (same subset and tables, plus the cut of a generator body at its yields; tables TB_RUN_* in "
                "props/part_bucket.py) regenerates coq/Gen/Extracted_bucket_run.v from TokenBucket.run before every build; the "
                "C11_gen_tb_run_* theorems (Props/C11_BridgeRun.v, proofs Elem/BucketRunBridge.v) prove the TInit / TGet / TTimer "
                "steps of the TokenBucket automaton -- refill, token wait, debit, peak spacing -- equal to the generated functions; "
                "likewise coq/Gen/Extracted_tworate_run.v from TwoRateTokenBucket.run and the C11_gen_tr_run_* theorems "
                "(Props/C11_BridgeRunTR.v, proofs Elem/TwoRateRunBridge.v) for RInit / RGet / RTimer of the two-rate automaton; that "
                "the kernel resumes the generators exactly at these steps stays with the per-run correspondence"],
        "C08": ["float rounding is outside the theorems (dyadic workloads)"],
    }
    assumptions = {
        "C11": ["rates > 0, bucket sizes >= 0, peak/PIR > 0 when set, with PIR a PBS is given (the code asserts it)",
                "the two-rate marker is read as RFC 2698 colour-blind marking plus shaping on the peak bucket: a yellow packet "
                "takes peak tokens only, a red packet waits for peak tokens and takes no committed tokens, the committed bucket "
                "fills at CIR at all times"],
        "C08": ["the bucket's `out` is set before the first packet is served"],
    }
    partial = {"C11": [], "C08": []}

    # ---- generation -----------------------------------------------------------------------------
    SIZES = (64, 100, 128, 256, 512, 1000, 1500)
    RATES = (256, 512, 1024, 2048, 4096, 8192, 65536)
    BSIZES = (0, 64, 100, 128, 256, 300, 1000, 2048, 4096)
    GAPS = [Fr(0), Fr(1, 4), Fr(1, 2), Fr(1), Fr(3, 2), Fr(2), Fr(3), Fr(5), Fr(64)]

    def gen_case(self, rng, tier, prop_id):
        if rng.random() < 0.12:
            # two instances in one Environment: state kept per class / per module instead of per instance shows up here
            kind2 = rng.choice(["tb2", "trtb2"])
            t0 = rng.choice([Fr(0)] * 6 + [Fr(1, 2), Fr(3), Fr(-2)])
            ka = "tb" if kind2 == "tb2" else "trtb"
            kb = ka if (kind2 == "trtb2" or rng.random() < 0.65) else "trtb"
            a = self._gen_single(rng, ka, t0)
            b = self._gen_single(rng, kb, t0)
            for c in (a, b):
                c["pre"] = False
            off = 100
            wb = b["workload"]
            wb["packets"] = {str(int(u) + off): dict(sp) for u, sp in wb["packets"].items()}     # same ids in both instances
            for d in wb["drivers"]:
                d["bursts"] = [[t, [u + off for u in uids]] for (t, uids) in d["bursts"]]
            case = {"kind": kind2, "t0": cf.qjson(t0), "insts": [a, b]}
        else:
            case = self._gen_single(rng, rng.choice(["tb", "trtb"]))
        # after a fraction of the cases the same worker process runs a tiny fixed scenario whose observation is known:
        # state that survives from one run (instance, class, module) to the next shows up there
        if rng.random() < 0.12:
            case["canary"] = True
        return case

    def _gen_single(self, rng, kind, t0=None):
        # "tight": slow rates, small buckets, bursts, no long idle gap - the buckets rarely saturate, so every token counts
        tight = rng.random() < 0.35
        if tight:
            sizes = rng.choice([(64, 128, 256), (64, 100, 128), (128, 256)])
            if rng.random() < 0.45:
                # one driver, one or two big bursts: the shaping bucket runs dry inside the burst (token waits, red packets)
                packets, bursts, uid, t = {}, [], 0, rng.choice(self.GAPS[:5])
                for _ in range(rng.choice([1, 1, 2])):
                    uids = []
                    for _ in range(rng.randint(3, 6)):
                        packets[str(uid)] = {"id": uid + 1, "flow": rng.choice([0, 1, 2]), "size": rng.choice(list(sizes)),
                                             "time": cf.qjson(t), "src": "src0"}
                        uids.append(uid)
                        uid += 1
                    bursts.append([cf.qjson(t), uids])
                    t = t + rng.choice(self.GAPS[1:6])
                w = {"packets": packets, "drivers": [{"late": rng.choice([0, 0, 1, 2]), "bursts": bursts}]}
            else:
                w = ec.gen_workload(rng, flows=(0, 1, 2), n_max=10, sizes=sizes, gaps=self.GAPS[:6], horizon=8,
                                    burst_p=rng.choice([0.5, 0.8]), ndrivers=rng.choice([1, 1, 2]))
        else:
            sizes = rng.choice([self.SIZES, (64, 128, 256), (128,), (100, 1500), (1, 8, 64)])
            w = ec.gen_workload(rng, flows=(0, 1, 2), n_max=12, sizes=sizes, gaps=self.GAPS, horizon=80,
                                burst_p=rng.choice([0.2, 0.5, 0.8]))
        if t0 is None:
            t0 = rng.choice([Fr(0)] * 6 + [Fr(1, 2), Fr(3), Fr(100), Fr(-2), Fr(-64)])
        if t0 != 0:
            for d in w["drivers"]:
                d["bursts"] = [[cf.qjson(Fr(t) + t0), uids] for (t, uids) in d["bursts"]]
        case = {"kind": kind, "t0": cf.qjson(t0), "workload": w, "pre": rng.random() < 0.3}
        rate = rng.choice(self.RATES[:3] if tight else self.RATES)
        bsizes = (64, 128, 256, 300, 1000) if tight else self.BSIZES
        if kind == "tb":
            case["rate"] = cf.qjson(rate)
            case["bsize"] = rng.choice(bsizes)
            case["peak"] = rng.choice([None, None, 0, cf.qjson(2 * rate), cf.qjson(8 * rate), cf.qjson(rate), cf.qjson(Fr(rate, 2))])
        else:
            case["cir"] = cf.qjson(rate)
            case["cbs"] = rng.choice(bsizes)
            if rng.random() < 0.7:
                case["pir"] = cf.qjson(rng.choice([2, 2, 4, 1] if tight else [2, 2, 4, 16, 1]) * rate)
                case["pbs"] = rng.choice(bsizes)
            else:
                case["pir"] = rng.choice([None, None, None, 0])
                case["pbs"] = rng.choice([None, 512])
        # arrivals exactly at release instants of the workload drawn so far
        if rng.random() < 0.4:
            try:
                arr = self._static_arrivals(case)
                inst = []
                if kind == "tb":
                    for (_, d, dep, _) in ref_tb(case, arr):
                        inst += [d, dep]
                else:
                    inst = [t for (_, t, _, _, _) in ref_trtb(case, arr)]
                inst = sorted({t for t in inst if ec_exact(t)})
                if inst:
                    k = rng.randint(1, min(3, len(inst)))
                    pick = sorted(rng.sample(inst, k))
                    uid = max(int(u) for u in w["packets"]) + 1
                    bursts = []
                    for t in pick:
                        w["packets"][str(uid)] = {"id": uid + 1, "flow": rng.choice([0, 1, 2]), "size": rng.choice(list(sizes)),
                                                  "time": cf.qjson(t), "src": "srcx"}
                        bursts.append([cf.qjson(t), [uid]])
                        uid += 1
                    w["drivers"].append({"late": rng.choice([0, 0, 1, 2, 4]), "bursts": bursts})
            except Exception:
                pass
        # two-rate: a late packet that arrives exactly when the committed (or the peak) bucket, refilled at its rate
        # at all times, reaches the packet's size: green (resp. not red) by equality; any lost token flips the colour
        if kind == "trtb" and rng.random() < (0.9 if tight else 0.4):
            try:
                self._boundary_arrival(case, rng, sizes)
            except Exception:
                pass
        # packet ids: numbered per flow from 1 (as DistPacketGenerator does), so packets with EQUAL ids of different flows
        # are inside the shaper together; the harness uid stays the identity
        if rng.random() < 0.5:
            nxt = {}
            for u in sorted(w["packets"], key=int):
                sp = w["packets"][u]
                nxt[sp["flow"]] = nxt.get(sp["flow"], 0) + 1
                sp["id"] = nxt[sp["flow"]]
            case["ids"] = "per-flow"
        # re-wiring: `out` is assigned two or three times before traffic (decoy sinks first, optionally None in between) and/or
        # the shaper is re-attached mid-run to a second sink (optionally through None within one step); every packet must be
        # handed, once, to the sink in force at the moment it is forwarded
        if rng.random() < 0.28:
            rw = {"pre": rng.choice([0, 1, 1, 2]), "pre_none": rng.random() < 0.3, "mid": []}
            try:
                arr = self._static_arrivals(case)
                inst = [t for (_, t, _) in arr]
                if kind == "tb":
                    for (_, d, dep, _) in ref_tb(case, arr):
                        inst += [d, dep]
                else:
                    inst += [t for (_, t, _, _, _) in ref_trtb(case, arr)]
                inst = sorted({t for t in inst if ec_exact(t) and t >= t0})
                to = "out2"
                for t in sorted(rng.sample(inst, min(len(inst), rng.choice([0, 1, 1, 2])))):
                    rw["mid"].append({"t": cf.qjson(t + rng.choice([0, 0, 0, Fr(1, 8)])), "late": rng.choice([0, 0, 1, 2, 4]),
                                      "to": to, "none": rng.random() < 0.3})
                    to = "out" if to == "out2" else "out2"
            except Exception:
                pass
            if rw["pre"] == 0 and not rw["mid"]:
                rw["pre"] = 1
            case["rewire"] = rw
        # late configuration: build the shaper with other values (or without its optional arguments) and assign the
        # public attributes the code reads at every use before any traffic; the bucket level that __init__ derives
        # from the bucket size is assigned consistently
        r = rng.random()
        if r < 0.10:
            case["late_cfg"] = "all"
        elif r < 0.17:
            case["late_cfg"] = "optional"
            if (kind == "tb" and case["peak"] is None) or (kind == "trtb" and case["pir"] is None and case["pbs"] is None):
                case["late_cfg"] = "bare"            # built without the optional arguments, nothing assigned: the defaults
        return case

    def _boundary_arrival(self, case, rng, sizes):
        w = case["workload"]
        arr = self._static_arrivals(case)
        _, (C, P, free) = ref_trtb(case, arr, want_state=True)
        last = max([free] + [t for (_, t, _) in arr])
        which = C if (P is None or rng.random() < 0.7) else P
        fit = [s for s in sizes if s <= which.cap]
        if not fit:
            return
        which.fill_to(max(last, which.t))
        above = [s for s in fit if s > which.level]
        s3 = rng.choice(above if above else fit)
        t = which.t + which.earliest(s3) + rng.choice([0, 0, 0, Fr(1, 4), 1])
        if not ec_exact(t):
            return
        uid = max(int(u) for u in w["packets"]) + 1
        w["packets"][str(uid)] = {"id": uid + 1, "flow": rng.choice([0, 1, 2]), "size": s3, "time": cf.qjson(t), "src": "srcb"}
        w["drivers"].append({"late": rng.choice([0, 0, 1, 3]), "bursts": [[cf.qjson(t), [uid]]]})

    @staticmethod
    def _static_arrivals(case):
        """arrival order estimated from the case alone (by time, then driver): only used to place coincidences"""
        w = case["workload"]
        arr = []
        for di, d in enumerate(w["drivers"]):
            for (t, uids) in d["bursts"]:
                for u in uids:
                    arr.append((Fr(t), d["late"], di, u))
        arr.sort()
        return [(u, t, w["packets"][str(u)]["size"]) for (t, _, _, u) in arr]

    # ---- implementation -------------------------------------------------------------------------
    def run_impl(self, case):
        if case["kind"] in ("tb2", "trtb2"):
            o = self._run(case["insts"], False, case["t0"])
            obs = {"multi": o[:-1], "interfere": o[-1], "raised": o[0]["raised"]}
        else:
            obs = self._run([case], case.get("pre"), case["t0"])[0]
        if case.get("canary"):
            obs["canary"] = self._canary()
        return obs

    # the fixed scenarios (they are the non-vacuity examples tb_example / trtb_example of the Coq development, and corpus
    # cases) and what the unchanged code is known to do on them
    CANARY = [
        ({"kind": "tb", "t0": "0/1", "rate": "1024/1", "bsize": 256, "peak": "4096/1", "pre": False,
          "workload": {"packets": {"0": {"id": 1, "flow": 0, "size": 256, "time": "0/1", "src": "c"},
                                   "1": {"id": 1, "flow": 1, "size": 128, "time": "0/1", "src": "c"}},
                       "drivers": [{"late": 0, "bursts": [["0/1", [0, 1]]]}]}},
         [[0, "1/2", ""], [1, "5/4", ""]], [2, 2, "0/1", "1/1", 0]),
        ({"kind": "tb", "t0": "0/1", "rate": "1024/1", "bsize": 256, "peak": None, "pre": False, "late_cfg": "bare",
          "workload": {"packets": {"0": {"id": 1, "flow": 0, "size": 256, "time": "0/1", "src": "c"},
                                   "1": {"id": 1, "flow": 1, "size": 128, "time": "0/1", "src": "c"}},
                       "drivers": [{"late": 0, "bursts": [["0/1", [0, 1]]]}]}},
         [[0, "0/1", ""], [1, "1/1", ""]], [2, 2, "0/1", "1/1", 0]),
        ({"kind": "trtb", "t0": "0/1", "cir": "1024/1", "cbs": 256, "pir": None, "pbs": None, "pre": False, "late_cfg": "bare",
          "workload": {"packets": {"0": {"id": 1, "flow": 0, "size": 256, "time": "0/1", "src": "c"},
                                   "1": {"id": 1, "flow": 1, "size": 128, "time": "0/1", "src": "c"}},
                       "drivers": [{"late": 0, "bursts": [["0/1", [0, 1]]]}]}},
         [[0, "0/1", "green"], [1, "1/1", "yellow"]], [2, 2, "0/1", None, "1/1", 0]),
        ({"kind": "trtb", "t0": "0/1", "cir": "1024/1", "cbs": 256, "pir": "2048/1", "pbs": 512, "pre": False,
          "workload": {"packets": {"0": {"id": 1, "flow": 0, "size": 256, "time": "0/1", "src": "c"},
                                   "1": {"id": 2, "flow": 0, "size": 256, "time": "0/1", "src": "c"},
                                   "2": {"id": 1, "flow": 1, "size": 256, "time": "0/1", "src": "c"},
                                   "3": {"id": 3, "flow": 0, "size": 128, "time": "2/1", "src": "c"}},
                       "drivers": [{"late": 0, "bursts": [["0/1", [0, 1, 2]], ["2/1", [3]]]}]}},
         [[0, "0/1", "green"], [1, "0/1", "yellow"], [2, "1/1", "red"], [3, "2/1", "green"]],
         [4, 4, "128/1", "128/1", "2/1", 0]),
    ]

    def _canary(self):
        diffs = []
        for (c, exp_deps, exp_final) in self.CANARY:
            o = self._run([c], False, c["t0"])[0]
            if o["raised"]:
                diffs.append(f"canary-differs: the fixed {c['kind']} scenario raised {o['raised']}")
                continue
            _, _, deps = self._timeline(c, o)
            got = [[d["uid"], cf.qjson(d["t"]), d["colour"]] for d in deps]
            final = o["log"][-1][-1] if o["log"] else None
            if got != exp_deps or final != exp_final:
                diffs.append(f"canary-differs: the fixed {c['kind']} scenario, run after this case in the same process, gave departures "
                             f"{got} final state {final}; known: {exp_deps} {exp_final}")
        return diffs

    def _run(self, cases, pre, t0):
        """run one or two bucket instances in ONE Environment; returns one observation per instance (the global clock
        advances and its own put/step entries, sampled on its own public state) and, for two, the interference notes"""
        from onl.sim import Environment
        env = Environment(initial_time=ec.T(t0))
        h = ec.Harness(env)
        n = len(cases)
        tags = [""] if n == 1 else ["A", "B"]
        owner = {}
        for i, c in enumerate(cases):
            h.add_packets(c["workload"]["packets"])
            for u in c["workload"]["packets"]:
                owner[int(u)] = i
        if pre and n == 1:
            for d in cases[0]["workload"]["drivers"]:
                h.add_driver(d["bursts"], late=d["late"])
        insts, samplers, rewires = [], [], []
        for i, c in enumerate(cases):
            lc = c.get("late_cfg")
            if c["kind"] == "tb":
                from onl.netdev.token_bucket import TokenBucket
                rate, B, peak = num(c["rate"]), c["bsize"], None if c["peak"] is None else num(c["peak"])
                if lc == "all":
                    el = TokenBucket(env, rate=rate * 4, bucket_size=B + 64, peak=None if self._truthy(c["peak"]) else 8192)
                    el.rate, el.bucket_size, el.peak = rate, B, peak
                    el.current_bucket = B
                elif lc == "bare":
                    el = TokenBucket(env, rate, B)
                elif lc == "optional":
                    el = TokenBucket(env, rate, B)
                    el.peak = peak
                else:
                    el = TokenBucket(env, rate=rate, bucket_size=B, peak=peak)
                samplers.append(lambda el=el: [el.packets_received, el.packets_sent, ec.qs(el.current_bucket),
                                               ec.qs(el.update_time), len(el.store.items)])
            else:
                from onl.netdev.two_level_token_bucket import TwoRateTokenBucket
                cir, cbs, pir, pbs = num(c["cir"]), c["cbs"], None if c["pir"] is None else num(c["pir"]), c["pbs"]
                if lc == "all":
                    el = TwoRateTokenBucket(env, cir=cir * 2, cbs=cbs + 100, pir=None if self._truthy(c["pir"]) else cir * 8,
                                            pbs=None if self._truthy(c["pir"]) else 4096)
                    el.cir, el.cbs, el.pir, el.pbs = cir, cbs, pir, pbs
                    el.current_bucket_commit, el.current_bucket_peak = cbs, pbs
                elif lc == "bare":
                    el = TwoRateTokenBucket(env, cir, cbs)
                elif lc == "optional":
                    el = TwoRateTokenBucket(env, cir, cbs)
                    el.pir, el.pbs = pir, pbs
                    el.current_bucket_peak = pbs
                else:
                    el = TwoRateTokenBucket(env, cir=cir, cbs=cbs, pir=pir, pbs=pbs)
                samplers.append(lambda el=el: [el.packets_received, el.packets_sent, ec.qs(el.current_bucket_commit),
                                               None if el.current_bucket_peak is None else ec.qs(el.current_bucket_peak),
                                               ec.qs(el.update_time), len(el.store.items)])
            rw = c.get("rewire") or {"pre": 0, "pre_none": False, "mid": []}
            taps = {nm: ColourTap(h, nm + tags[i], samplers[-1]) for nm in ("out", "out2", "decoy1", "decoy2")}
            for k in range(rw["pre"]):
                el.out = taps["decoy%d" % (k + 1)]
                if rw["pre_none"]:
                    el.out = None
            el.out = taps["out"]
            for m in rw["mid"]:
                rewires.append((i, el, taps, m))
            h.watch_store("store" + tags[i], el.store)
            if tags[i]:
                el.action._generator.__name__ = "run" + tags[i]
            insts.append(el)
        h.attach(insts[0])
        if n == 1:
            h.after_action(samplers[0])
        else:
            h.after_action(lambda: [f() for f in samplers])
        if n > 1 or not pre:
            for i, c in enumerate(cases):
                for d in c["workload"]["drivers"]:
                    h.add_driver(d["bursts"], late=d["late"], target=insts[i])
        for (i, el, taps, m) in rewires:
            def rewirer(i=i, el=el, taps=taps, m=m):
                d = ec.T(m["t"]) - env.now
                if d > 0:
                    yield env.timeout(d)
                for _ in range(m["late"]):
                    yield env.timeout(0)
                if m["none"]:
                    el.out = None                 # no forward can happen before the next line: same kernel step
                el.out = taps[m["to"]]
                h._action(["rewire", i, m["to"]])
            h.driver_procs.add(env.process(rewirer()))
        log = h.run()
        if n == 1:
            for e in log:
                if e[0] == "rewire":
                    del e[1]
            return [{"log": log, "raised": h.raised, "exhausted": h.exhausted, "hand": True}]
        # split the global log per instance; an action of one instance must leave the other's public state alone
        logs = [[] for _ in range(n)]
        interfere = []
        prev = None
        for e in log:
            k, samples = e[0], e[-1]
            who = None
            if k == "adv":
                for i in range(n):
                    logs[i].append(["adv", e[1], samples[i]])
            elif k == "put":
                who = owner[e[1]]
                logs[who].append(["put", e[1], e[2], samples[who]])
            elif k == "rewire":
                who = e[1]
                logs[who].append(["rewire", e[2], samples[who]])
            elif k in ("step", "raise"):
                tgt = e[1][1] if e[1] else ""
                who = next((i for i in range(n) if tgt.endswith(tags[i])), None)
                if who is None:
                    interfere.append(f"instances-interfere: kernel step {e[1]} cannot be attributed to an instance")
                    who = 0
                else:
                    tgt = tgt[:-len(tags[who])]
                for o in e[2]:
                    if not o[1].endswith(tags[who]) or owner.get(o[2]) != who:
                        interfere.append(f"instances-interfere: packet {o[2]} (put into instance {tags[owner.get(o[2], 0)]}) came out of "
                                         f"tap {o[1]} during a step of instance {tags[who]}")
                    else:
                        o[1] = o[1][:-len(tags[who])]
                logs[who].append([k, [e[1][0], tgt] if e[1] else e[1], e[2]] + ([e[3]] if k == "raise" else []) + [samples[who]])
            else:
                interfere.append(f"instances-interfere: {e[:2]}")
            if prev is not None and len(interfere) < 2:
                for i in range(n):
                    if i != who and samples[i] != prev[i]:
                        interfere.append(f"instances-interfere: a {k} action of instance {tags[who] if who is not None else '-'} changed the "
                                         f"public state of instance {tags[i]}: {prev[i]} -> {samples[i]}")
            prev = samples
        out = [{"log": logs[i], "raised": h.raised, "exhausted": h.exhausted, "hand": True} for i in range(n)]
        out.append(interfere[:2])
        return out

    # ---- log -> model actions -------------------------------------------------------------------
    COL = {"green": "Green", "yellow": "Yellow", "red": "Red"}

    def _obs_term(self, case, obs, hand=False):
        """the observed execution as the list tb_agree / tr_agree replay (also used by the pipeline part); with hand=True
        every forwarded packet is paired with the state its next hop sampled inside put(): the list of tb_agree_h / tr_agree_h"""
        specs = case["workload"]["packets"]
        tb = case["kind"] == "tb"
        px = "T" if tb else "R"
        acts = []
        force = "out"
        for e in obs["log"]:
            kind, sample = e[0], e[-1]
            outs = []
            if kind == "rewire":
                force = e[1]              # assigning `out` is not a step of the shaper: its state must not move (monitor)
                continue
            if kind == "adv":
                a = f"{px}Advance {cf.q(e[1])}"
            elif kind == "put":
                a = f"{px}Put {ec.pkt_coq(specs[str(e[1])], e[1])}"
                outs = e[2]
            elif kind == "step":
                (tn, tgt), outs = e[1], e[2]
                a = {("Initialize", "run"): "Init", ("StorePut", "store"): "StoreCb", ("StoreGet", "store"): "Get",
                     ("Timeout", "run"): "Timer"}.get((tn, tgt))
                if a is None:
                    return None, f"unexpected kernel step {e[1]}"
                a = px + a
            else:
                return None, f"unexpected log entry {e[:2]}"
            if hand and any(x[1] != force for x in outs):
                return None, "a packet handed to a sink that is not the `out` in force"
            if hand and any(len(x) < 7 or x[6] is None for x in outs):
                return None, "a forwarded packet without the next hop's sample of the shaper"
            if tb:
                o = cf.lst([f"({ec.pkt_coq(specs[str(x[2])], x[2])}, {self._smp(True, x[6])})" if hand else
                            ec.pkt_coq(specs[str(x[2])], x[2]) for x in outs])
            else:
                for x in outs:
                    if x[5] not in self.COL:
                        return None, f"packet {x[2]} forwarded with colour {x[5]!r}"
                o = cf.lst([f"({ec.pkt_coq(specs[str(x[2])], x[2])}, {self.COL[x[5]]}" +
                            (f", {self._smp(False, x[6])})" if hand else ")") for x in outs])
            acts.append(f"({a}, {o}, {self._smp(tb, sample)})")
        return acts, None

    @staticmethod
    def _smp(tb, sample):
        if tb:
            return f"({cf.z(sample[0])}, {cf.z(sample[1])}, {cf.q(sample[2])}, {cf.q(sample[3])}, {cf.nat(sample[4])})"
        vp = sample[3] if sample[3] is not None else 0
        return (f"({cf.z(sample[0])}, {cf.z(sample[1])}, {cf.q(sample[2])}, {cf.q(vp)}, {cf.q(sample[4])}, "
                f"{cf.nat(sample[5])})")

    @staticmethod
    def _truthy(x):
        return x is not None and cf.frac(x) != 0

    def _cfg_term(self, case):
        if case["kind"] == "tb":
            return (f"{{| rate := {cf.q(case['rate'])}; bsize := {cf.q(case['bsize'])}; "
                    f"peak := {cf.opt(case['peak'], cf.q)} |}}")
        if self._truthy(case["pir"]):
            if case["pbs"] is None:
                return None
            pkc = f"(Some ({cf.q(case['pir'])}, {cf.q(case['pbs'])}))"
        else:
            pkc = "None"
        return f"{{| cir := {cf.q(case['cir'])}; cbs := {cf.q(case['cbs'])}; pk := {pkc} |}}"

    def agree_term(self, case, obs):
        if obs.get("canary"):
            return "false (* the canary scenario run after this case differs from its known observation *)"
        if case["kind"] in ("tb2", "trtb2"):
            if obs["interfere"]:
                return "false (* instances interfere *)"
            ts = [self.agree_term(c, o) for c, o in zip(case["insts"], obs["multi"])]
            if any(t is None for t in ts):
                return None
            return "(" + ") && (".join(ts) + ")"
        cfg = self._cfg_term(case)
        if cfg is None:
            return None                      # PIR without PBS: the code asserts; outside the model
        if obs["raised"]:
            return "false"
        # observations of this part's own harness carry the next hop's samples ("hand"); a stage of a pipeline observed by
        # props/part_gensink.py does not: it is replayed with the plain tb_agree / tr_agree
        hand = bool(obs.get("hand"))
        acts, err = self._obs_term(case, obs, hand=hand)
        if acts is None:
            return f"false (* {err} *)"
        body = cf.lst(acts, sep=";\n    ")
        sfx = "_h" if hand else ""
        if case["kind"] == "tb":
            return f"tb_agree{sfx} {cfg} (tb0 true {cfg} {cf.q(case['t0'])}) {body}"
        return f"tr_agree{sfx} {cfg} (tr0 true {cfg} {cf.q(case['t0'])}) {body}"

    def model_term(self, case):
        return None

    # ---- the property as an oracle over the implementation's behaviour -------------------------------
    @staticmethod
    def _timeline(case, obs):
        specs = case["workload"]["packets"]
        now = Fr(case["t0"])
        msgs, arrivals, deps = [], [], []
        nput = nfwd = 0
        force, last = "out", None
        for e in obs["log"]:
            if e[0] == "rewire":
                if last is not None and e[-1] != last:
                    msgs.append(f"bucket-rewire-changes-state: assigning `out` changed the shaper's public state {last} -> {e[-1]}")
                force = e[1]
                continue
            if e[0] in ("adv", "put", "step"):
                last = e[-1]
            if e[0] == "adv":
                t = Fr(e[1])
                if t < now:
                    msgs.append("bucket-time-decreases: clock went back")
                now = t
            if e[0] == "stray-out":
                msgs.append(f"bucket-stray-output: {e[1][:3]}")
                continue
            outs = e[2] if e[0] in ("put", "step", "raise") else []
            if e[0] == "put":
                arrivals.append((e[1], now, specs[str(e[1])]["size"]))
                nput += 1
            for o in outs:
                if o[1] != force:
                    msgs.append(f"bucket-wrong-sink: packet {o[2]} was handed to sink {o[1]!r} while `out` is {force!r}")
                deps.append({"uid": o[2], "t": now, "fields": o[3], "same": o[4], "colour": o[5] if len(o) > 5 else None, "hand": o[6] if len(o) > 6 else None, "nput": nput,
                             "after": e[-1] if e[0] in ("put", "step") else None})
                nfwd += 1
            if e[0] in ("put", "step"):
                s = e[-1]
                if s[0] != nput or s[1] != nfwd:
                    msgs.append(f"bucket-counters: packets_received/sent = {s[0]}/{s[1]} after {nput} puts and {nfwd} forwards")
        return msgs, arrivals, deps

    def monitor(self, case, obs, prop_id):
        if case["kind"] in ("tb2", "trtb2"):
            msgs = list(obs.get("canary") or []) + list(obs["interfere"])
            for c, o in zip(case["insts"], obs["multi"]):
                msgs += self.monitor(c, o, prop_id)
            return msgs[:3]
        kind = case["kind"]
        if obs["raised"]:
            return [f"{kind}-raises: {obs['raised']}"]
        specs = case["workload"]["packets"]
        msgs, arrivals, deps = self._timeline(case, obs)
        msgs = list(obs.get("canary") or []) + msgs
        msgs += self._handoff(case, arrivals, deps)
        order = [u for (u, _, _) in arrivals]
        got = [d["uid"] for d in deps]
        size = {u: s for (u, _, s) in arrivals}
        if prop_id == "C08":
            # put-in = forwarded + held, nothing dropped or invented, the very packet, fields unchanged, per-flow order
            if len(set(got)) != len(got):
                msgs.append(f"{kind}-duplicates: forwarded uids {got}")
            if any(u not in size for u in got):
                msgs.append(f"{kind}-invented: forwarded uids {got} put in {order}")
            if obs["exhausted"] and sorted(got) != sorted(order):
                msgs.append(f"{kind}-not-drained: put in {order}, forwarded {got} when the simulation ran out of events")
            if obs["exhausted"] and obs["log"] and obs["log"][-1][-1][-1] != 0:
                msgs.append(f"{kind}-not-drained: {obs['log'][-1][-1][-1]} packets left in the store")
            for d in deps:
                sp = specs[str(d["uid"])]
                f = d["fields"]
                if (not d["same"] or f[:2] != [sp["id"], sp["flow"]] or f[2] != sp.get("src", "s") or f[3] != sp["size"]
                        or Fr(f[4]) != Fr(sp["time"]) or f[5] != sp.get("payload")):
                    msgs.append(f"{kind}-packet-altered: packet {d['uid']} forwarded as {f} same-object={d['same']}")
            for fl in {specs[str(u)]["flow"] for u in order}:
                a = [u for u in order if specs[str(u)]["flow"] == fl]
                g = [u for u in got if specs[str(u)]["flow"] == fl]
                if g != a[:len(g)]:
                    msgs.append(f"{kind}-flow-order: flow {fl} entered {a} left {g}")
            return msgs[:3]
        # ---- C11 ----
        if len(set(got)) != len(got):
            msgs.append(f"{kind}-forwarded-twice: released uids {got}")
            return msgs[:3]
        if got != order[:len(got)]:
            msgs.append(f"{kind}-fifo: put in {order}, released {got}")
            return msgs[:3]
        if obs["exhausted"] and len(got) != len(order):
            msgs.append(f"{kind}-lossless: {len(order)} packets put in, {len(got)} released when the simulation ran out of events")
        if kind == "tb":
            rate, B = Fr(case["rate"]), Fr(case["bsize"])
            peak = Fr(case["peak"]) if self._truthy(case["peak"]) else None
            exp = ref_tb(case, arrivals)
            for d, (u, dd, dep, left) in zip(deps, exp):
                if d["t"] != dep:
                    w = "later" if d["t"] > dep else "earlier"
                    msgs.append(f"tb-release-instant: packet {u} (size {size[u]}) released at {d['t']}, {w} than the earliest "
                                f"conforming instant {dep} (tokens available at {dd}; rate {rate}, bucket {B}, peak {peak})")
                    break
            debits = [(d["t"] - (Fr(8 * size[d["uid"]]) / peak if peak else 0), Fr(size[d["uid"]])) for d in deps]
            m = pairs_conform(debits, rate, B, "tb-conformance")
            if m:
                msgs.append(m)
            if peak:
                for k in range(1, len(deps)):
                    gap = deps[k]["t"] - deps[k - 1]["t"]
                    if gap < Fr(8 * size[deps[k]["uid"]]) / peak:
                        msgs.append(f"tb-peak-spacing: departures {k - 1},{k} are {gap} apart < 8*{size[deps[k]['uid']]}/{peak}")
                        break
        else:
            cir, cbs = Fr(case["cir"]), Fr(case["cbs"])
            pir = Fr(case["pir"]) if self._truthy(case["pir"]) else None
            exp = ref_trtb(case, arrivals)
            for d, (u, dep, col, cleft, pleft) in zip(deps, exp):
                if d["t"] != dep:
                    w = "later" if d["t"] > dep else "earlier"
                    msgs.append(f"trtb-release-instant: packet {u} (size {size[u]}) released at {d['t']}, {w} than the earliest "
                                f"conforming instant {dep}")
                    break
                if d["colour"] != col:
                    msgs.append(f"trtb-colour: packet {u} (size {size[u]}) released at {d['t']} coloured {d['colour']}, the buckets "
                                f"(CIR {cir}, CBS {cbs}, PIR {pir}, PBS {case['pbs']}) say {col}")
                    break
            allb = [(d["t"], Fr(size[d["uid"]])) for d in deps]
            m = pairs_conform(allb, pir, Fr(case["pbs"]), "trtb-shaping-peak") if pir else \
                pairs_conform(allb, cir, cbs, "trtb-shaping-commit")
            if m:
                msgs.append(m)
            green = [(d["t"], Fr(size[d["uid"]])) for d in deps if d["colour"] == "green"]
            for (_, s) in green:
                if s > cbs:
                    msgs.append(f"trtb-green-conformance: a green packet of {s} bytes is larger than CBS {cbs}")
                    break
            m = pairs_conform(green, cir, cbs, "trtb-green-conformance")
            if m:
                msgs.append(m)
        return msgs[:3]

    def _handoff(self, case, arrivals, deps):
        """what a next hop reads of the shaper inside its put(): the k-th packet is handed over after its tokens were taken
        and before it is counted as sent; the packets behind it are still in the store"""
        kind = case["kind"]
        tb = kind == "tb"
        msgs = []
        try:
            exp = ref_tb(case, arrivals) if tb else ref_trtb(case, arrivals)
        except Exception:
            exp = []
        pir = (not tb) and self._truthy(case["pir"])
        for k, d in enumerate(deps):
            hs = d["hand"]
            if hs is None:
                msgs.append(f"{kind}-handoff-unobserved: packet {d['uid']} came out of a tap that is not this shaper's")
                break
            if hs[1] != k:
                msgs.append(f"{kind}-handoff-sent: the next hop reads packets_sent = {hs[1]} while it receives departure number {k}")
            if hs[0] != d["nput"]:
                msgs.append(f"{kind}-handoff-received: the next hop reads packets_received = {hs[0]} after {d['nput']} puts")
            if hs[-1] != d["nput"] - (k + 1):
                msgs.append(f"{kind}-handoff-store: the next hop reads len(store.items) = {hs[-1]}; {d['nput']} packets were put in and "
                            f"the server has taken {k + 1}")
            lv, ut = (hs[2:3], hs[3]) if tb else (hs[2:4], hs[4])
            if d["after"] is not None:
                a = d["after"]
                alv, aut = (a[2:3], a[3]) if tb else (a[2:4], a[4])
                if lv != alv or ut != aut:
                    msgs.append(f"{kind}-handoff-level: the next hop reads bucket level(s) {lv} / update_time {ut}; after the step they "
                                f"are {alv} / {aut} (the tokens must be taken before the packet is handed over)")
            if k < len(exp) and d["uid"] == exp[k][0]:
                if tb:
                    want_lv, want_ut = [cf.qjson(exp[k][3])], cf.qjson(exp[k][1])
                else:
                    want_lv = [cf.qjson(exp[k][3])] + ([cf.qjson(exp[k][4])] if pir else lv[1:])
                    want_ut = cf.qjson(exp[k][1])
                if d["t"] == exp[k][2 if tb else 1] and ([x if x is None else cf.qjson(x) for x in lv] != want_lv or cf.qjson(ut) != want_ut):
                    msgs.append(f"{kind}-handoff-level: packet {d['uid']} is handed over with bucket level(s) {lv}, update_time {ut}; "
                                f"the bucket(s) hold {want_lv} since {want_ut}")
            if msgs:
                break
        return msgs[:2]

    def nontrivial(self, case, obs, prop_id):
        if case["kind"] in ("tb2", "trtb2"):
            return (not obs["raised"] and all(len(c["workload"]["packets"]) >= 2 for c in case["insts"])
                    and any(self.nontrivial(c, o, prop_id) for c, o in zip(case["insts"], obs["multi"])))
        if obs["raised"] or len(case["workload"]["packets"]) < 3:
            return False
        _, arrivals, deps = self._timeline(case, obs)
        if prop_id == "C08":
            at = {u: t for (u, t, _) in arrivals}
            return any(deps[k]["t"] > at[deps[k + 1]["uid"]] or deps[k]["t"] == at[deps[k + 1]["uid"]] for k in range(len(deps) - 1))
        if case["kind"] == "tb":
            return any(e[0] == "step" and e[1][0] == "Timeout" for e in obs["log"])
        return len({d["colour"] for d in deps}) >= 2

    def shrink(self, case):
        if case["kind"] in ("tb2", "trtb2"):
            if case.get("canary"):
                yield {k: v for k, v in case.items() if k != "canary"}
            for i in (0, 1):
                for c in self.shrink(case["insts"][i]):
                    if c["t0"] != case["t0"] or not c["workload"]["packets"]:
                        continue
                    ins = list(case["insts"])
                    ins[i] = c
                    yield {**case, "insts": ins}
            return
        for w in ec.shrink_workload(case["workload"]):
            yield {**case, "workload": w}
        if case["t0"] != "0/1":
            t0 = Fr(case["t0"])
            w = case["workload"]
            ds = [{**d, "bursts": [[cf.qjson(Fr(t) - t0), u] for (t, u) in d["bursts"]]} for d in w["drivers"]]
            yield {**case, "t0": "0/1", "workload": {**w, "drivers": ds}}
        if case.get("pre"):
            yield {**case, "pre": False}
        rw = case.get("rewire")
        if rw:
            for j in range(len(rw["mid"])):
                yield {**case, "rewire": {**rw, "mid": rw["mid"][:j] + rw["mid"][j + 1:]}}
            if rw["pre"] > 0 and (rw["pre"] > 1 or rw["mid"]):
                yield {**case, "rewire": {**rw, "pre": rw["pre"] - 1}}
            if rw["pre_none"]:
                yield {**case, "rewire": {**rw, "pre_none": False}}
        for flag in ("canary", "late_cfg", "ids", "rewire"):
            if case.get(flag):
                yield {k: v for k, v in case.items() if k != flag}
        if case["kind"] == "tb" and case["peak"] is not None:
            yield {**case, "peak": None}

    def describe(self, case, obs):
        if case["kind"] in ("tb2", "trtb2"):
            a, b = case["insts"]
            return [case["kind"], f"{case['kind']}:{a['kind']}+{b['kind']}",
                    case["kind"] + ":t0=" + ("0" if case["t0"] == "0/1" else "neg" if case["t0"].startswith("-") else "pos")] + \
                   (["canary-after-case"] if case.get("canary") else []) + \
                   ([case["kind"] + ":late-configuration"] if any(c.get("late_cfg") for c in case["insts"]) else [])
        k = case["kind"]
        keys = [k, f"{k}:packets={min(len(case['workload']['packets']), 15)}", f"{k}:drivers={len(case['workload']['drivers'])}",
                f"{k}:t0={'0' if case['t0'] == '0/1' else ('neg' if case['t0'].startswith('-') else 'pos')}"]
        sizes = [p["size"] for p in case["workload"]["packets"].values()]
        if k == "tb":
            keys.append("tb:peak=" + ("none" if case["peak"] is None else "0" if not self._truthy(case["peak"]) else "set"))
            b = case["bsize"]
            keys.append("tb:bucket=" + ("0" if b == 0 else "<some-packet" if any(s > b for s in sizes) else ">=all-packets"))
        else:
            keys.append("trtb:pir=" + ("set" if self._truthy(case["pir"]) else str(case["pir"])))
            keys.append("trtb:pbs=" + ("none" if case["pbs"] is None else "0" if case["pbs"] == 0 else "set"))
            for d in self._timeline(case, obs)[2] if not obs.get("raised") else []:
                keys.append("trtb:colour=" + str(d["colour"]))
        if case.get("pre"):
            keys.append(f"{k}:driver-created-before-element")
        if case.get("late_cfg"):
            keys.append(f"{k}:late-configuration={case['late_cfg']}")
        if case.get("rewire"):
            rw = case["rewire"]
            keys.append(f"{k}:out-assigned-before-traffic={rw['pre'] + 1}")
            keys.append(f"{k}:out-reattached-mid-run={len(rw['mid'])}")
            if rw["pre_none"] or any(m["none"] for m in rw["mid"]):
                keys.append(f"{k}:out-none-in-between")
        if case.get("ids"):
            keys.append(f"{k}:ids-per-flow")
            ids = [(sp["id"]) for sp in case["workload"]["packets"].values()]
            if len(set(ids)) < len(ids):
                keys.append(f"{k}:equal-ids-across-flows")
        if case.get("canary"):
            keys.append("canary-after-case")
        if obs.get("raised"):
            keys.append(f"{k}:raised")
        return sorted(set(keys))


def ec_exact(t):
    try:
        ec.T(t)
        return abs(t) < 2 ** 30
    except AssertionError:
        return False


PART = BucketPart()
