"""C09 -- a port serialises at its line rate and tail-drops exactly at its limit; REDPort; PortMonitor.
One part: props/part_port.py (models coq/Elem/Port.v, coq/Elem/Red.v)."""
from vlib.composite import Composite

PROP = Composite("C09", ["port"], n_quick=400, n_thorough=10000, shard=50)
