"""C18 -- demuxes, switches, hubs, splitters and fat-tree FIBs deliver to the right place.

kinds: flowdemux, fibdemux, switch, hub, splitter, fattree, fib, e2e
models: coq/Route/Demux.v, Hub.v, FatTree.v, Fib.v      theorems: coq/Props/C18.v
The monitor is the property statement written over what recorders / the networkx graph / per-flow
sinks observed on the real classes; it does not use the Coq model.
"""
import contextlib
import io
import random as _random

from vlib.framework import Prop
from vlib import coqfmt as cf

ACK = 10000
HDR_FIELDS = ["time", "size", "packet_id", "realtime", "src", "dst", "flow_id", "payload", "color", "ack", "current_time"]
SERVERS = ["SP", "WFQ", "DRR", "VirtualClock"]
EXN = {"ValueError": "ValueError", "AssertionError": "AssertionError", "IndexError": "IndexError", "KeyError": "KeyError"}


class Rec:
    """a recording device standing in for an output"""

    def __init__(self, tag, log, raises=None):
        self.tag = tag
        self.log = log
        self.raises = raises
        self.out = None

    def put(self, p):
        self.log.append((self.tag, p))
        if self.raises is not None:
            raise self.raises("raised by the downstream element")


def _exc(e):
    return [type(e).__name__, str(e)[:120]]


def _quiet():
    return contextlib.redirect_stdout(io.StringIO())


# ------------------------------------------------------------------------------------------------
# Coq printers

def zlist(xs):
    return cf.lst([cf.z(x) for x in xs])


def nlist(xs):
    return cf.lst([cf.nat(x) for x in xs])


def nnlist(xss):
    return cf.lst([nlist(xs) for xs in xss])


def blist(xs):
    return cf.lst([cf.b(x) for x in xs])


def out_term(deliv, raised):
    """the single decision observed -> Coq `output`; None when more than one output got the packet"""
    if raised is not None:
        if raised[0] not in EXN:
            return None
        if deliv:
            return None
        return f"(OError {EXN[raised[0]]})"
    if len(deliv) == 0:
        return "ONowhere"
    if len(deliv) > 1:
        return None
    return one_out(deliv[0])


def one_out(d):
    if d[0] == "out":
        return f"(OOut {cf.nat(d[1])})"
    if d[0] == "end":
        return f"(OEnd {cf.nat(d[1])})"
    if d[0] == "default":
        return "ODefault"
    raise ValueError(d)


def table_term(t):
    return "None" if t is None else "(Some " + cf.lst([cf.pair(cf.z(a), cf.z(b)) for a, b in t]) + ")"


def fibcfg_term(case):
    ends = case.get("ends") or []
    outs = "None" if case["outs"] is None else f"(Some {cf.nat(case['outs'])})"
    return ("{| fb_fib := %s; fb_outs := %s; fb_ends := %s; fb_default := %s |}"
            % (table_term(case["fib"]), outs, cf.lst([cf.pair(cf.z(a), cf.nat(b)) for a, b in ends]), cf.b(case["default"])))


def flows_term(flows):
    return cf.lst(["{| fid := %s; fpath := %s |}" % (cf.z(f), nlist(p)) for f, p in flows])


def entries_term(es):
    return cf.lst(["{| e_node := %s; e_class := %s; e_port := %s; e_nh := %s |}" % (cf.nat(n), cf.z(c), cf.nat(p), cf.nat(h))
                   for n, c, p, h in es])


# ------------------------------------------------------------------------------------------------
# small independent graph helpers for the monitor

def bfs_dist(adj, s):
    dist = {s: 0}
    frontier = [s]
    while frontier:
        nxt = []
        for u in frontier:
            for v in adj[u]:
                if v not in dist:
                    dist[v] = dist[u] + 1
                    nxt.append(v)
        frontier = nxt
    return dist


# ------------------------------------------------------------------------------------------------
# second tie (DESIGN 2.6): FlowDemux.put / FIBDemux.put translated from the tree under test on every run
# (vlib/translate.py, fail closed) into coq/Gen/Extracted_demux.v; bridged to flowdemux / fibdemux of
# Route/Demux.v by coq/Route/DemuxBridge.v; obligations in Props/C18_Bridge.v.

DEMUX_CONS = [("FxOut", "(i : Z)"),            # self.outs[i].put(packet)
              ("FxDefault", ""),               # self.default_out.put(packet)
              ("FxRaiseValueError", ""),       # raise ValueError('fib of FIBDemux is None')
              ("FxEnd", ""),                   # self.ends[flow_id].put(packet)
              ("FxLookup", ""),                # the try block: out = outs[self._fib[flow_id]], on KeyError/IndexError/ValueError out = default_out
              ("FxPutOut", "")]                # out.put(packet)   (outside the try)
FIB_TRY = """try:
    outs = self.outs if self.outs is not None else []
    out = outs[self._fib[packet.flow_id]]
except (KeyError, IndexError, ValueError) as exc:
    print("FIB Demux Error: " + str(exc))
    out = self.default_out"""
DEMUX_FX = [("self.outs[_1].put(packet)", "FxOut", ["Z"]),
            ("self.default_out.put(packet)", "FxDefault", []),
            ("raise ValueError('fib of FIBDemux is None')", "FxRaiseValueError", []),
            ("self.ends[flow_id].put(packet)", "FxEnd", []),
            (FIB_TRY, "FxLookup", []),
            ("out.put(packet)", "FxPutOut", [])]
FLOW_READS = [("packet.flow_id", "flow_id", "Z"), ("self.outs", "n_outs", "len"),
              ("self.default_out", "has_default", "optobj")]       # None or a Device (default truthiness)
FIB_READS = [("self._fib", "has_fib", "optref"),                   # None or a dict: only `is None` is translated
             ("flow_id in self.ends", "in_ends", "bool"),
             ("packet.flow_id", "flow_id", "Z"),
             ("out", "out_given", "bool", "needs:FxLookup")]       # truthiness of what the try block chose (a Device or None)


def extracted_demux(repo):
    import os
    from vlib import translate as tr
    path = os.path.join(repo, "onl", "netdev", "demux.py")
    specs = [tr.FnSpec(path, "FlowDemux", "put", "gen_FlowDemux_put", reads=FLOW_READS, effects=DEMUX_FX),
             tr.FnSpec(path, "FIBDemux", "put", "gen_FIBDemux_put", reads=FIB_READS, effects=DEMUX_FX)]
    return tr.gen_module("onl/netdev/demux.py: FlowDemux.put, FIBDemux.put", "demux_st", "d_", [("packets_recevied", "Z")],
                         "demux_fx", DEMUX_CONS, specs)


class C18(Prop):
    id = "C18"
    props_file = ["Props/C18.v", "Props/C18_Bridge.v", "Props/C18_Examples.v"]
    coq_imports = ["From ONL Require Import Base.Cmp Route.Demux Route.Hub Route.FatTree Route.Fib."]
    n_quick = 640
    n_thorough = 6000
    shard = 60
    case_timeout = 60
    nontrivial_rule = (
        "kinds flowdemux/fibdemux/switch: random tables, output lists (incl. empty and None), end maps, default output, "
        "flow ids incl. negative and unknown, outputs that raise; hub: 0-6 endpoints with/without port devices, with/without "
        "a ports list, senders attached or not, as a sequence of add_endpoint / put / element_id reassignment in any order (hubs that "
        "start empty, endpoints attached between packets, earlier senders re-sending after each attachment); demuxes and the fair "
        "switch reconfigured between packets through outs / fib / ends / default_out (assigned or mutated in place), the model "
        "following the configuration as of each packet; splitter: 2-5 outputs some unattached, outputs re-pointed between packets, "
        "header mutation of delivered objects; fattree: FatTree(k) k in {2,4,6,8} (thorough 10,12) compared node by node, neighbour list by neighbour list; "
        "fib: generate_flows/generate_fib on FatTree(k) for many seeds with and without tcp, and generate_fib on random graphs with "
        "hand-made paths (incl. non-simple and non-adjacent ones); e2e: simulated fat tree (real Environment, Port, Wire / "
        "FairPacketSwitch egress ports) with per-class sinks, several flows per class; twotrees: two FatTree objects (same / different k) "
        "alive together, generate_flows / generate_fib interleaved in all six orders, each compared with its own model, A's network "
        "optionally simulated after all calls on B; canary: around 35% of the fattree/fib/e2e cases a fixed FatTree(4) with fixed flows "
        "is built before, re-read after and rebuilt after the case and compared with recorded tables; hub: a second Hub built "
        "without arguments alive next to the first; repeated use of ONE object: fib / e2e / twotrees cases with one or two earlier "
        "flow sets (generate_flows + generate_fib with other seeds, sizes, tcp flag) on the same FatTree before the observed one, the "
        "tables after EVERY call compared with the model of that flow set alone; hub / fair switch / e2e used across several env.run() calls. non-trivial = at least one packet / one flow / "
        "k >= 4; distinct by hash of the case")
    trusted_base = [
        "recorders stand in for outputs, end devices, hub endpoints and hub port devices; in the 'switch' kind and the e2e variant 'fair' the "
        "schedulers inside FairPacketSwitch are replaced by taps (their behaviour belongs to C12-C15); the e2e variant 'fair-real' runs them",
        "object identity is observed with `is` and replaced by creation indices",
        "vlib/translate.py (Python ast, fail closed; observation/effect tables above the plugin class in props/c18.py) regenerates "
        "coq/Gen/Extracted_demux.v from FlowDemux.put / FIBDemux.put of the tree under test before every build; the C18_gen_* theorems "
        "(Props/C18_Bridge.v) bridge them to flowdemux / fibdemux of the hand-written model; FIBDemux's try block (the table and list "
        "lookup with its except clause) is matched as ONE whitelisted statement whose meaning is the model's lookup",
        "networkx (Graph adjacency order, all_shortest_paths) and random.sample are run, not modelled: every generated path is validated "
        "in Coq against the model of the fat tree (walk, simple, length = hostdist)",
    ]
    assumptions = [
        "forwarding-table values (port numbers) are non-negative or out of range; a negative port number in range indexes from the end as Python does (modelled, excluded from the rule theorem)",
        "fib_follows_path / routed_delivery: flow ids pairwise distinct in [0, 10000), paths simple walks of the graph",
        "output devices that raise are only considered for KeyError (the class FIBDemux used to swallow)",
    ]
    partial = [
        "that networkx.all_shortest_paths returns shortest paths is not a theorem about networkx: each generated path is checked per run "
        "(Coq-evaluated path_ok: walk in fattree k, simple, length = hostdist k src dst), and hostdist is proved to be the graph distance of the model",
    ]

    # ---- second tie: regenerate the translated bodies before the Coq build (fail closed) ---------------
    def pre_build(self):
        import os
        from vlib import framework as fw
        from vlib import translate as tr
        tr.write_if_changed(os.path.join(fw.COQ, "Gen", "Extracted_demux.v"), extracted_demux(fw.REPO))

    # ============================================================================================
    # generation
    def gen_case(self, rng, tier):
        r = rng.random()
        if r < 0.13:
            return self.gen_flowdemux(rng)
        if r < 0.18:
            return self.gen_twotrees(rng, tier)
        if r < 0.40:
            return self.gen_fibdemux(rng)
        if r < 0.50:
            return self.gen_switch(rng)
        if r < 0.64:
            return self.gen_hub(rng)
        if r < 0.74:
            return self.gen_splitter(rng)
        if r < 0.80:
            case = self.gen_fattree(rng, tier)
        elif r < 0.94:
            case = self.gen_fib(rng, tier)
        else:
            case = self.gen_e2e(rng, tier)
        # same-process canary: a fixed tree with fixed flows is built and its tables generated BEFORE the case runs, re-read
        # AFTER it, and built once more afterwards; all three must be the recorded tables
        if rng.random() < 0.35:
            case["canary"] = True
        return case

    ORDERS = ["fa ga fb gb", "fb gb fa ga", "fa fb ga gb", "fa fb gb ga", "fb fa ga gb", "fb fa gb ga"]

    def gen_twotrees(self, rng, tier):
        """two FatTree objects alive together, used interleaved: each must behave as if it were alone"""
        ka = rng.choice([2, 4, 4, 6])
        kb = ka if rng.random() < 0.65 else rng.choice([2, 4, 6])
        return {"kind": "twotrees", "ka": ka, "kb": kb, "seeda": rng.randrange(10 ** 6), "seedb": rng.randrange(10 ** 6),
                "nfa": rng.randint(1, 8), "nfb": rng.randint(1, 8), "tcpa": rng.random() < 0.5, "tcpb": rng.random() < 0.5,
                "order": rng.choice(self.ORDERS), "sim": rng.random() < 0.4, "npk": rng.randint(1, 2),
                # a second flow set on A and/or B after the interleaving (other seed, other size, tcp flag flipped)
                "again": rng.choice(["", "", "a", "b", "ab"]), "nf2": rng.randint(1, 6)}

    def _flow_ids(self, rng, n, known):
        out = []
        for _ in range(rng.randint(1, 8)):
            s = rng.random()
            if s < 0.45 and known:
                out.append(rng.choice(known))
            elif s < 0.65:
                out.append(rng.randint(0, max(n, 1) + 2))
            elif s < 0.85:
                out.append(-rng.randint(1, max(n, 1) + 2))
            else:
                out.append(rng.choice([0, n - 1, n, -n, -n - 1, 10000, 10003, -1]))
        return out

    def _reconf(self, rng, kind, flows, n):
        """-> (flows, ops): with some probability the element is reconfigured through its public attributes between
        packets, and the earlier flows are sent again afterwards (so that anything remembered from earlier packets shows)"""
        if rng.random() > 0.4:
            return flows, []
        flows = flows + [rng.choice(flows) for _ in range(rng.randint(1, 4))]
        ops = []
        for _ in range(rng.randint(1, 3)):
            pos = rng.randrange(1, len(flows))
            f = rng.choice(flows) if rng.random() < 0.8 else rng.randint(-3, 12)
            if kind == "flowdemux":
                op = rng.choice([["outs", rng.randint(0, 5)], ["outs_append"], ["default", rng.random() < 0.5]])
            else:
                cands = [["fib", self._table(rng, n)], ["fib_set", f, rng.randint(-1, n + 1)], ["fib_set", f, rng.randrange(n) if n else 0],
                         ["fib_del", f], ["ends_set", f, rng.randint(0, 9)], ["ends_del", f]]
                if kind == "fibdemux":
                    cands += [["outs", rng.choice([None, 0, 1, 2, 3, 4])], ["outs_append"], ["default", rng.random() < 0.5],
                              ["default", rng.random() < 0.5]]
                op = rng.choice(cands)
            ops.append([pos] + op)
        ops.sort(key=lambda o: o[0])
        return flows, ops

    def gen_flowdemux(self, rng):
        n = rng.choice([0, 0, 1, 2, 3, 4, 6])
        flows, ops = self._reconf(rng, "flowdemux", self._flow_ids(rng, n, list(range(n))), n)
        return {"kind": "flowdemux", "nouts": n, "default": rng.random() < 0.5, "flows": flows, "reconf": ops}

    def _table(self, rng, n):
        s = rng.random()
        if s < 0.12:
            return None
        if s < 0.30:
            return []
        keys = rng.sample(range(-3, 12), rng.randint(1, 6))
        t = []
        for k_ in keys:
            u = rng.random()
            if u < 0.75 and n > 0:
                p = rng.randrange(n)
            elif u < 0.88:
                p = n + rng.randint(0, 2)          # out of range
            else:
                p = -rng.randint(1, n + 2)         # negative port number
            t.append([k_, p])
        return t

    def gen_fibdemux(self, rng):
        s = rng.random()
        outs = None if s < 0.1 else (0 if s < 0.25 else rng.randint(1, 5))
        n = outs or 0
        fib = self._table(rng, n)
        s = rng.random()
        if s < 0.25:
            ends = None
        elif s < 0.35:
            ends = []
        else:
            ends = [[f, rng.randint(0, 9)] for f in rng.sample(range(-3, 12), rng.randint(1, 3))]
        known = [a for a, _ in (fib or [])] + [a for a, _ in (ends or [])]
        raising = [i for i in range(n) if rng.random() < 0.12]
        flows, ops = self._reconf(rng, "fibdemux", self._flow_ids(rng, n, known), n)
        return {"kind": "fibdemux", "fib": fib, "outs": outs, "ends": ends, "default": rng.random() < 0.5,
                "raising": raising, "flows": flows, "reconf": ops}

    def gen_switch(self, rng):
        n = rng.randint(1, 6)
        if rng.random() < 0.4:
            return {"kind": "switch", "sw": "simple", "nports": n, "flows": self._flow_ids(rng, n, list(range(n)))}
        fib = self._table(rng, n)
        ends = [[f, rng.randint(0, 9)] for f in rng.sample(range(-3, 12), rng.randint(0, 2))]
        known = [a for a, _ in (fib or [])] + [a for a, _ in ends]
        flows, ops = self._reconf(rng, "switch", self._flow_ids(rng, n, known), n)
        runs = sorted(set(rng.randrange(len(flows)) for _ in range(rng.choice([0, 0, 1, 2]))))   # env.run() before these packets
        return {"kind": "switch", "sw": "fair", "nports": n, "server": rng.choice(SERVERS), "ncls": rng.randint(1, 3),
                "fib": fib, "ends": ends, "flows": flows, "reconf": ops, "runs": runs}

    def gen_hub(self, rng):
        """a hub in use: the constructor population, then attach / send / rename actions in any order"""
        n = rng.choice([0, 0, 1, 2, 3, 4, 6])
        ports_arg = rng.random() < 0.6
        eps = [[rng.randint(0, 4), ports_arg and rng.random() < 0.5] for _ in range(n)]
        delta = 0
        if ports_arg and rng.random() < 0.08:
            delta = rng.choice([-1, 1])
        script, ids, senders, count = [], [e[0] for e in eps], [], n
        for _ in range(rng.randint(1, 10)):
            r = rng.random()
            if r < 0.30 and count < 9:
                e = [rng.randint(0, 6), rng.random() < 0.5]
                script.append(["attach"] + e)
                ids.append(e[0])
                count += 1
                for sd in senders[-2:]:                    # earlier senders send again after every attachment
                    if rng.random() < 0.7:
                        script.append(["send", sd])
            elif r < 0.38 and count > 0:
                script.append(["rename", rng.randrange(count), rng.randint(0, 6)])
            elif r < 0.43:
                script.append(["run"])                     # env.run(until=now+1): the hub is used across Environment runs
            else:
                u = rng.random()
                if u < 0.35 and senders:
                    sd = rng.choice(senders)
                elif u < 0.8 and ids:
                    sd = rng.choice(ids)
                else:
                    sd = rng.randint(0, 9)                 # possibly a station that is attached later, or never
                script.append(["send", sd])
                senders.append(sd)
        return {"kind": "hub", "eps": eps, "ports_arg": ports_arg, "delta": delta, "added": [], "srcs": [], "script": script,
                "twin": rng.random() < 0.3}

    def gen_splitter(self, rng):
        if rng.random() < 0.3:
            cls, n = "Splitter", 2
        else:
            cls, n = "NSplitter", rng.randint(2, 5)
        att = [rng.random() < 0.85 for _ in range(n)]
        hdr = [rng.randint(0, 50) for _ in HDR_FIELDS]
        nd = sum(att)
        mut = [[rng.randrange(nd), rng.randrange(len(HDR_FIELDS)), rng.randint(100, 200)] for _ in range(rng.randint(0, 3))] if nd else []
        # outputs re-pointed between packets: earlier rounds with other attachments, each with its own packet
        pre = [[rng.random() < 0.7 for _ in range(n)] for _ in range(rng.choice([0, 0, 1, 2]))]
        return {"kind": "splitter", "cls": cls, "att": att, "hdr": hdr, "mut": mut, "pre": pre}

    def _ks(self, tier):
        return [2, 4, 6, 8] if tier == "quick" else [2, 4, 6, 8, 10, 12]

    def gen_fattree(self, rng, tier):
        return {"kind": "fattree", "k": rng.choice(self._ks(tier))}

    def gen_fib(self, rng, tier):
        if rng.random() < 0.6:
            k = rng.choice([2, 4, 4, 6, 8] if tier == "quick" else [2, 4, 4, 6, 8, 10])
            case = {"kind": "fib", "graph": "fattree", "k": k, "seed": rng.randrange(10 ** 6),
                    "nflows": rng.randint(1, 12), "tcp": rng.random() < 0.5}
            # repeated use of ONE FatTree object: earlier flow sets (other seeds, more flows, other tcp flag) before this one
            case["earlier"] = [{"seed": rng.randrange(10 ** 6), "nflows": rng.randint(1, 12), "tcp": rng.random() < 0.6}
                               for _ in range(rng.choice([0, 0, 1, 1, 2]))]
            return case
        # a random connected-ish graph and hand-made flows
        n = rng.randint(2, 9)
        edges = []
        for v in range(1, n):
            edges.append([rng.randrange(v), v])
        for _ in range(rng.randint(0, n)):
            a, b = rng.randrange(n), rng.randrange(n)
            if a != b and [a, b] not in edges and [b, a] not in edges:
                edges.append([a, b])
        rng.shuffle(edges)
        adj = {v: [] for v in range(n)}
        for a, b in edges:
            adj[a].append(b)
            adj[b].append(a)
        style = rng.random()
        earlier = [{"flows": self._hand_flows(rng, n, adj, rng.random()), "tcp": rng.random() < 0.6} for _ in range(rng.choice([0, 0, 1, 1, 2]))]
        return {"kind": "fib", "graph": "random", "n": n, "edges": edges, "flows": self._hand_flows(rng, n, adj, style),
                "tcp": rng.random() < 0.5, "earlier": earlier}

    def _hand_flows(self, rng, n, adj, style):
        flows = []
        ids = rng.sample(range(0, 40), rng.randint(1, 6))
        for f in ids:
            if style > 0.85 and rng.random() < 0.3:
                f = rng.choice([f + 10000, -f - 1, 9999])
            path = [rng.randrange(n)]
            for _ in range(rng.randint(1, 5)):
                cand = [v for v in adj[path[-1]] if v not in path]
                if style > 0.7 and rng.random() < 0.15:
                    cand = list(adj[path[-1]])             # may revisit a node: not simple
                if style > 0.9 and rng.random() < 0.1:
                    cand = list(range(n))                  # may not be adjacent: KeyError
                if not cand:
                    break
                path.append(rng.choice(cand))
            if len(path) >= 2:
                flows.append([f, path])
        if style > 0.95 and flows:
            flows.append([flows[0][0], flows[-1][1]])     # duplicate flow id
        return flows

    def gen_e2e(self, rng, tier):
        k = rng.choice([2, 4, 4, 6] if tier == "quick" else [2, 4, 4, 6, 8])
        case = {"kind": "e2e", "k": k, "seed": rng.randrange(10 ** 6), "nflows": rng.randint(1, 8), "tcp": rng.random() < 0.5,
                "npk": rng.randint(1, 3), "variant": rng.choice(["portwire", "fair", "fair-real"]), "server": rng.choice(SERVERS),
                "ncls": rng.randint(1, 3)}
        # the FatTree object has been used before: earlier flow sets / tables on the same object; the simulation runs in two
        # env.run() segments
        case["earlier"] = [{"seed": rng.randrange(10 ** 6), "nflows": rng.randint(1, 10), "tcp": rng.random() < 0.6}
                           for _ in range(rng.choice([0, 0, 1, 2]))]
        case["split_run"] = rng.random() < 0.5
        if case["variant"] == "fair-real" and case["server"] == "SP":
            # the real SP scheduler busy-loops (no yield) as soon as a flow id differs from its class id
            # (observed 2026-09-28; it is C13's element): the real-scheduler variant runs WFQ / DRR / VirtualClock only
            case["server"] = rng.choice(SERVERS[1:])
        return case

    # ============================================================================================
    # implementation
    def run_impl(self, case):
        with _quiet():
            can = self._canary_begin() if case.get("canary") else None
            obs = getattr(self, "run_" + case["kind"])(case)
            if can is not None:
                obs["canary"] = self._canary_end(can)
            return obs

    # a fixed tree and flow set (k = 4; flow 1 between pods through core 0, flow 2 inside pod 0, sharing links; tcp)
    CANARY_FLOWS = [[1, 20, 35, [20, 6, 4, 0, 16, 19, 35]], [2, 21, 22, [21, 6, 4, 7, 22]]]
    CANARY_ENTRIES = [[0, 1, 3, 16], [0, 10001, 0, 4], [4, 1, 2, 0], [4, 2, 1, 7], [4, 10001, 0, 6], [4, 10002, 0, 6],
                      [6, 1, 0, 4], [6, 2, 0, 4], [6, 10001, 2, 20], [6, 10002, 3, 21], [7, 2, 2, 22], [7, 10002, 0, 4],
                      [16, 1, 1, 19], [16, 10001, 2, 0], [19, 1, 3, 35], [19, 10001, 0, 16], [20, 1, 0, 6], [21, 2, 0, 6],
                      [22, 10002, 0, 7], [35, 10001, 0, 19]]

    def _canary_tree(self):
        from onl.topo import FatTree
        from onl.flow import Flow
        ft = FatTree(4)
        flows = {i: Flow(f, s_, d, path=list(p)) for i, (f, s_, d, p) in enumerate(self.CANARY_FLOWS)}
        ft.generate_fib(flows, tcp=True)
        return ft

    def _fib_obs(self, ft, fl, keys_ok=True):
        n, canonical, adj = self._graph_obs(ft.topo)
        entries, consistent = self._tables(ft.topo)
        return {"raised": None, "flows": fl, "n": n, "canonical": canonical, "adj": adj, "entries": entries,
                "consistent": consistent, "keys_ok": keys_ok}

    def _canary_begin(self):
        try:
            ft = self._canary_tree()
            return ft, self._fib_obs(ft, [list(x) for x in self.CANARY_FLOWS])
        except Exception as e:
            return None, {"raised": _exc(e)}

    def _canary_end(self, can):
        ft, before = can
        if ft is None:
            return {"before": before, "after": None, "rebuilt": None}
        try:
            after = self._tables(ft.topo)[0]
            rebuilt = self._tables(self._canary_tree().topo)[0]
        except Exception as e:
            return {"before": before, "after": None, "rebuilt": None, "raised": _exc(e)}
        return {"before": before, "after": after, "rebuilt": rebuilt}

    # ---- reconfiguration between packets (public attributes, as applications use them) ------------
    @staticmethod
    def _dset(lst, key, val):
        for x in lst:
            if x[0] == key:
                x[1] = val
                return
        lst.append([key, val])

    def _apply_state(self, st, op):
        name = op[1]
        if name == "outs":
            st["outs"] = op[2]
        elif name == "outs_append":
            if st["outs"] is not None:
                st["outs"] += 1
        elif name == "default":
            st["default"] = op[2]
        elif name == "fib":
            st["fib"] = None if op[2] is None else [list(x) for x in op[2]]
        elif name == "fib_set":
            if st["fib"] is not None:
                self._dset(st["fib"], op[2], op[3])
        elif name == "fib_del":
            if st["fib"] is not None:
                st["fib"] = [x for x in st["fib"] if x[0] != op[2]]
        elif name == "ends_set":
            self._dset(st["ends"], op[2], op[3])
        elif name == "ends_del":
            st["ends"] = [x for x in st["ends"] if x[0] != op[2]]
        else:
            raise ValueError(op)

    def _states(self, case):
        """the configuration as of each packet (one dict per flow)"""
        kd = case["kind"]
        if kd == "flowdemux":
            st = {"outs": case["nouts"], "default": case["default"]}
        else:
            st = {"fib": None if case["fib"] is None else [list(x) for x in case["fib"]],
                  "outs": case["outs"] if kd == "fibdemux" else case["nports"],
                  "ends": [list(x) for x in (case["ends"] or [])],
                  "default": case["default"] if kd == "fibdemux" else False}
        out = []
        for j in range(len(case["flows"])):
            for op in case.get("reconf", []):
                if op[0] == j:
                    self._apply_state(st, op)
            out.append({k_: ([list(x) for x in v] if isinstance(v, list) else v) for k_, v in st.items()})
        return out

    def _apply_impl(self, d, op, log, raising):
        name = op[1]
        if name == "outs":
            d.outs = None if op[2] is None else [Rec(["out", i], log, KeyError if i in raising else None) for i in range(op[2])]
        elif name == "outs_append":
            if d.outs is not None:
                i = len(d.outs)
                d.outs.append(Rec(["out", i], log, KeyError if i in raising else None))
        elif name == "default":
            d.default_out = Rec(["default"], log) if op[2] else None
        elif name == "fib":
            d.fib = None if op[2] is None else {f: p for f, p in op[2]}
        elif name == "fib_set":
            if d.fib is not None:
                d.fib[op[2]] = op[3]
        elif name == "fib_del":
            if d.fib is not None:
                d.fib.pop(op[2], None)
        elif name == "ends_set":
            d.ends[op[2]] = Rec(["end", op[3]], log)
        elif name == "ends_del":
            d.ends.pop(op[2], None)
        else:
            raise ValueError(op)

    def _demux_run(self, d, put, log, case, env=None):
        from onl.packet import Packet
        res = []
        for j, f in enumerate(case["flows"]):
            if env is not None and j in case.get("runs", []):
                env.run(until=env.now + 1)             # the switch is used across several Environment runs
            for op in case.get("reconf", []):
                if op[0] == j:
                    self._apply_impl(d, op, log, case.get("raising", []))
            del log[:]
            raised = None
            pk = Packet(0, 10, j, flow_id=f)
            try:
                put(pk)
            except Exception as e:
                raised = _exc(e)
            res.append({"deliv": [t for t, _ in log], "same": all(p is pk for _, p in log), "raised": raised})
        return res

    def run_flowdemux(self, case):
        from onl.netdev.demux import FlowDemux
        log = []
        outs = [Rec(["out", i], log) for i in range(case["nouts"])]
        d = FlowDemux(outs, Rec(["default"], log) if case["default"] else None)
        res = self._demux_run(d, d.put, log, case)
        return {"res": res, "received": d.packets_recevied}



    def run_fibdemux(self, case):
        from onl.netdev.demux import FIBDemux
        log = []
        outs = None if case["outs"] is None else [Rec(["out", i], log, KeyError if i in case["raising"] else None)
                                                   for i in range(case["outs"])]
        ends = None if case["ends"] is None else {f: Rec(["end", dv], log) for f, dv in case["ends"]}
        fib = None if case["fib"] is None else {f: p for f, p in case["fib"]}
        d = FIBDemux(outs=outs, ends=ends, fib=fib, default_out=Rec(["default"], log) if case["default"] else None)
        res = self._demux_run(d, d.put, log, case)
        return {"res": res, "received": d.packets_recevied}

    def run_switch(self, case):
        from onl.sim import Environment
        from onl.netdev.switch import SimplePacketSwitch, FairPacketSwitch
        from onl.packet import Packet
        env = Environment()
        log = []
        n = case["nports"]
        if case["sw"] == "simple":
            sw = SimplePacketSwitch(env, n, 1000.0, 100, element_id="s")
            for i, port in enumerate(sw.ports):
                port.put = Rec(["out", i], log).put
            res = []
            for j, f in enumerate(case["flows"]):
                del log[:]
                raised = None
                try:
                    sw.put(Packet(0, 10, j, flow_id=f))
                except Exception as e:
                    raised = _exc(e)
                res.append({"deliv": [t for t, _ in log], "raised": raised})
            return {"res": res, "nports": len(sw.ports)}
        ncls = case["ncls"]
        try:
            sw = FairPacketSwitch(env, n, 1000.0, 100, {c: 1 for c in range(ncls)}, case["server"], element_id="s",
                                  flow2class=lambda fid: fid % ncls)
        except Exception as e:
            return {"construct_raised": _exc(e)}
        wiring = all(sw.egress_ports[i].out is sw.ports[i] for i in range(n)) and len(sw.ports) == n and len(sw.egress_ports) == n
        slog = []
        for i, sch in enumerate(sw.ports):           # schedulers are replaced by recorders (their behaviour is C12-C15)
            sch.put = (lambda p, i=i, sch=sch: slog.append([i, sch.flow2class(p.flow_id), p.packet_id]))
        for i, ep in enumerate(sw.egress_ports):
            orig = ep.put
            ep.put = (lambda p, i=i, orig=orig: (log.append((["out", i], p)), orig(p))[1])
        if case["fib"] is not None:
            sw.demux.fib = {f: p for f, p in case["fib"]}
        for f, dv in case["ends"]:
            sw.demux.ends[f] = Rec(["end", dv], log)
        sim_raised = None
        try:
            res = self._demux_run(sw.demux, sw.put, log, case, env)
        except Exception as e:
            return {"construct_raised": ["env.run between packets"] + _exc(e)}
        try:
            env.run(until=env.now + 5)
        except Exception as e:
            sim_raised = _exc(e)
        return {"res": res, "sched": slog, "wiring": wiring, "sim_raised": sim_raised}

    def _hub_script(self, case):
        if "script" in case:
            return case["script"]
        return [["attach", a, b] for a, b in case["added"]] + [["send", x] for x in case["srcs"]]

    def run_hub(self, case):
        from onl.sim import Environment
        from onl.netdev.hub import Hub
        from onl.packet import Packet
        env = Environment()
        log = []

        class EP(Rec):
            def __init__(self, idx, eid):
                Rec.__init__(self, ["ep", idx], log)
                self.element_id = "e%d" % eid

        class PortFwd(Rec):
            def put(self, p):
                self.log.append((self.tag, p))
                if self.out is not None:
                    self.out.put(p)

        twin = Hub(env) if case.get("twin") else None      # a second hub built without arguments, alive next to the first
        eps = [EP(i, e[0]) for i, e in enumerate(case["eps"])]
        ports = [PortFwd(["port", i], log) if e[1] else None for i, e in enumerate(case["eps"])]
        if case["delta"] == 1:
            ports = ports + [None]
        elif case["delta"] == -1:
            ports = ports[:-1] if ports else [None]
        try:
            hub = Hub(env, eps, ports) if case["ports_arg"] else Hub(env, eps)
        except Exception as e:
            return {"construct_raised": _exc(e)}
        if not case["ports_arg"] or not ports:
            ports = [None] * len(eps)                 # no ports list: every endpoint attached directly
        res, nsend = [], 0
        for act in self._hub_script(case):
            if act[0] == "attach":
                ep = EP(len(eps), act[1])
                pt = PortFwd(["port", len(eps)], log) if act[2] else None
                hub.add_endpoint(ep, pt)
                eps.append(ep)
                ports.append(pt)
            elif act[0] == "rename":
                if act[1] < len(eps):
                    eps[act[1]].element_id = "e%d" % act[2]
            elif act[0] == "run":
                env.run(until=env.now + 1)
            else:
                del log[:]
                raised = None
                pk = Packet(0, 10, nsend, src="e%d" % act[1])
                nsend += 1
                try:
                    hub.put(pk)
                except Exception as e:
                    raised = _exc(e)
                res.append({"events": [t for t, _ in log], "same": all(p is pk for _, p in log), "raised": raised})
        wiring = all(ep.out is hub for ep in eps) and all(pt is None or pt.out is ep for ep, pt in zip(eps, ports))
        obs = {"construct_raised": None, "wiring": wiring, "res": res}
        if twin is not None:
            tep = Rec(["twin", 0], log)
            tep.element_id = "t0"
            del log[:]
            traised = None
            try:
                twin.add_endpoint(tep, None)
                twin.put(Packet(0, 10, 0, src="nobody"))
            except Exception as e:
                traised = _exc(e)
            obs["twin"] = {"events": [t for t, _ in log], "raised": traised, "n_endpoints": len(twin.endpoints),
                           "n_outs": len(twin.outs), "n_ports_attr": len(twin.ports), "main_endpoints": len(hub.endpoints)}
        return obs

    def run_splitter(self, case):
        from onl.netdev.splitter import Splitter, NSplitter
        from onl.packet import Packet
        log = []
        sp = Splitter() if case["cls"] == "Splitter" else NSplitter(len(case["att"]))

        def point(att):                                  # (re-)point the outputs: fresh recorders / None
            if case["cls"] == "Splitter":
                sp.out1 = Rec(0, log) if att[0] else None
                sp.out2 = Rec(1, log) if att[1] else None
            else:
                for i, a in enumerate(att):
                    sp.outs[i] = Rec(i, log) if a else None

        def idx(lst, o):
            for i, x in enumerate(lst):
                if x is o:
                    return i
            lst.append(o)
            return len(lst) - 1

        def one_put(att, pid):
            point(att)
            del log[:]
            pk = Packet(0, 0, pid)
            for name, v in zip(HDR_FIELDS, case["hdr"]):
                setattr(pk, name, v)
            raised = None
            try:
                sp.put(pk)
            except Exception as e:
                raised = _exc(e)
            objs, perhop, prio = [pk], [pk.perhop_time], [pk.priorities]

            def view():
                return [[t, idx(objs, p), [getattr(p, nm) for nm in HDR_FIELDS], idx(perhop, p.perhop_time), idx(prio, p.priorities)]
                        for t, p in log]
            return raised, view

        pre = []
        for r, att in enumerate(case.get("pre", [])):
            raised, view = one_put(att, case["hdr"][2])
            pre.append({"raised": raised, "view": view()})
        raised, view = one_put(case["att"], case["hdr"][2])
        before = view()
        for j, fld, v in case["mut"]:
            if j < len(log):
                setattr(log[j][1], HDR_FIELDS[fld], v)
        after = view()
        return {"raised": raised, "before": before, "after": after, "pre": pre}

    def _graph_obs(self, topo):
        nodes = list(topo.nodes())
        n = len(nodes)
        canonical = sorted(nodes) == list(range(n))
        adj = [list(topo.neighbors(v)) for v in range(n)] if canonical else []
        return n, canonical, adj

    def run_fattree(self, case):
        from onl.topo import FatTree
        try:
            ft = FatTree(case["k"])
        except Exception as e:
            return {"raised": _exc(e)}
        return self._fattree_obs(ft)

    def _fattree_obs(self, ft):
        topo = ft.topo
        n, canonical, adj = self._graph_obs(topo)
        layers = {"core": [], "aggregation": [], "edge": [], "leaf": []}
        types_ok = True
        for v in sorted(topo.nodes()):
            a = topo.nodes[v]
            layers.setdefault(a.get("layer"), []).append([v, a.get("pod", -1)])
            types_ok = types_ok and a.get("type") == ("host" if a.get("layer") == "leaf" else "switch")
        return {"raised": None, "n": n, "canonical": canonical, "adj": adj, "layers": layers, "types_ok": types_ok,
                "hosts": sorted(ft.hosts), "nedges": topo.number_of_edges()}

    def _tables(self, topo):
        entries, consistent = [], True
        for v in sorted(topo.nodes()):
            a = topo.nodes[v]
            ftp, ftn = a["flow_to_port"], a["flow_to_nexthop"]
            consistent = consistent and set(ftp) == set(ftn)
            nb = list(topo.neighbors(v))
            consistent = consistent and [a["port_to_nexthop"].get(i) for i in range(len(nb))] == nb and len(a["port_to_nexthop"]) == len(nb)
            consistent = consistent and all(a["port_to_nexthop"][p] == h for h, p in a["nexthop_to_port"].items())
            for c in sorted(ftp):
                entries.append([v, c, ftp[c], ftn.get(c, -1)])
        return entries, consistent

    def run_fib(self, case):
        import networkx as nx
        from onl.topo import FatTree
        if case["graph"] == "fattree":
            ft = FatTree(case["k"])
        else:
            ft = FatTree(2)
            g = nx.Graph()
            g.add_nodes_from(range(case["n"]))
            g.add_edges_from([tuple(e) for e in case["edges"]])
            ft._topo = g
        earlier = [self._fib_round(ft, case["graph"], spec) for spec in case.get("earlier", [])]
        obs = self._fib_round(ft, case["graph"], case)          # the same object, used again
        obs["earlier"] = earlier
        return obs

    def _fib_round(self, ft, graph, spec):
        """one generate_flows + generate_fib on ft (or generate_fib with hand-made flows), and everything read back"""
        import random
        from onl.flow import Flow
        if graph == "fattree":
            random.seed(spec["seed"])
            try:
                flows = ft.generate_flows(spec["nflows"])
            except Exception as e:
                return {"raised": ["generate_flows"] + _exc(e)}
            fl = [[flows[key].fid, flows[key].src, flows[key].dst, list(flows[key].path)] for key in flows]
            keys_ok = all(key == flows[key].fid for key in flows)
        else:
            flows = {i: Flow(f, p[0], p[-1], path=list(p)) for i, (f, p) in enumerate(spec["flows"])}
            fl = [[f, p[0], p[-1], list(p)] for f, p in spec["flows"]]
            keys_ok = True
        n, canonical, adj = self._graph_obs(ft.topo)
        try:
            ft.generate_fib(flows, tcp=spec["tcp"]) if spec["tcp"] else ft.generate_fib(flows)
        except Exception as e:
            return {"raised": _exc(e), "flows": fl, "n": n, "canonical": canonical, "adj": adj}
        return self._fib_obs(ft, fl, keys_ok)

    @staticmethod
    def _tt_tcp(case, x):
        """the tcp flag of tree x's CURRENT tables"""
        return (not case["tcp" + x]) if x in case.get("again", "") else case["tcp" + x]

    def run_twotrees(self, case):
        import random
        from onl.topo import FatTree
        try:
            trees = {"a": FatTree(case["ka"]), "b": FatTree(case["kb"])}
        except Exception as e:
            return {"setup_raised": _exc(e)}
        flows, fl, snap, raised = {}, {}, {}, None
        try:
            for step in case["order"].split():
                x = step[1]
                if step[0] == "f":
                    random.seed(case["seed" + x])
                    flows[x] = trees[x].generate_flows(case["nf" + x])
                    fl[x] = [[flows[x][key].fid, flows[x][key].src, flows[x][key].dst, list(flows[x][key].path)] for key in flows[x]]
                else:
                    trees[x].generate_fib(flows[x], tcp=case["tcp" + x])
                    snap[x] = self._tables(trees[x].topo)[0]          # as read right after its own generate_fib
            for x in case.get("again", ""):               # the same object used a second time: other flows, tcp flipped
                random.seed(case["seed" + x] + 1)
                flows[x] = trees[x].generate_flows(case["nf2"])
                fl[x] = [[flows[x][key].fid, flows[x][key].src, flows[x][key].dst, list(flows[x][key].path)] for key in flows[x]]
                trees[x].generate_fib(flows[x], tcp=not case["tcp" + x])
                snap[x] = self._tables(trees[x].topo)[0]
        except Exception as e:
            return {"setup_raised": _exc(e)}
        obs = {}
        for x in "ab":
            try:
                o = self._fib_obs(trees[x], fl[x], all(key == flows[x][key].fid for key in flows[x]))
                o["snap_equal"] = o["entries"] == snap[x]
                o["shape"] = self._fattree_obs(trees[x])
            except Exception as e:
                o = {"raised": _exc(e), "flows": fl[x], "canonical": True, "n": 0, "adj": []}
            obs[x] = o
        if case["sim"]:
            sub = {"kind": "e2e", "k": case["ka"], "tcp": self._tt_tcp(case, "a"), "npk": case["npk"], "variant": "portwire", "server": "SP", "ncls": 1}
            try:
                obs["sim"] = self._e2e_sim(trees["a"], flows["a"], sub)
            except Exception as e:
                obs["sim"] = {"setup_raised": _exc(e)}
        return obs

    def run_e2e(self, case):
        import random
        from onl.sim import Environment
        from onl.topo import FatTree
        from onl.netdev import Port, Wire, FairPacketSwitch
        from onl.netdev.demux import FIBDemux
        from onl.packet import Packet
        try:
            ft = FatTree(case["k"])
            for spec in case.get("earlier", []):           # the object has been used before
                random.seed(spec["seed"])
                ft.generate_fib(ft.generate_flows(spec["nflows"]), tcp=spec["tcp"])
            random.seed(case["seed"])
            flows = ft.generate_flows(case["nflows"])
            ft.generate_fib(flows, tcp=case["tcp"])
        except Exception as e:
            return {"setup_raised": _exc(e)}
        return self._e2e_sim(ft, flows, case)

    def _e2e_sim(self, ft, flows, case):
        """build the network of FIB switches from ft's generated tables and simulate it"""
        from onl.sim import Environment
        from onl.netdev import Port, Wire, FairPacketSwitch
        from onl.netdev.demux import FIBDemux
        from onl.packet import Packet
        k = case["k"]
        env = Environment()
        tcp = case["tcp"]
        topo = ft.topo
        fl = [[flows[key].fid, flows[key].src, flows[key].dst, list(flows[key].path)] for key in flows]
        hops, sinks = [], []          # (node, class, pid) in global order ; (sink class, node, class, pid)
        nhops, loops = {}, []
        ncls = case["ncls"]
        dev = {}
        for v in topo.nodes():
            node = topo.nodes[v]
            if case["variant"] in ("fair", "fair-real"):
                sw = FairPacketSwitch(env, k, 1.0e6, 1000, {c: 1 for c in range(ncls)}, case["server"], element_id=str(v),
                                      flow2class=lambda fid: fid % ncls)
                sw.demux.fib = node["flow_to_port"]
                if case["variant"] == "fair":
                    for sch in sw.ports:              # bypass the scheduler: its put hands the packet straight to its out
                        sch.put = (lambda p, sch=sch: sch.out.put(p) if sch.out else None)
                dev[v] = sw
                demux = sw.demux
            else:
                ports = []
                for port_number in sorted(node["port_to_nexthop"]):
                    pt = Port(env, 1.0e6, 1000, False, "%d.%d" % (v, port_number))
                    w = Wire(env, lambda: 0.25)
                    pt.out = w
                    ports.append(pt)
                demux = FIBDemux(outs=ports, fib=node["flow_to_port"], ends=None, default_out=None)
                dev[v] = demux
            orig = demux.put

            def tap(p, v=v, orig=orig):
                key = (p.flow_id, p.packet_id)
                nhops[key] = nhops.get(key, 0) + 1
                if nhops[key] > 24:                   # a forwarding loop: stop the packet, report it
                    if key not in loops:
                        loops.append(key)
                    return None
                hops.append([v, p.flow_id, p.packet_id])
                return orig(p)
            demux.put = tap
            node["c18_demux"] = demux
        for v in topo.nodes():
            node = topo.nodes[v]
            for port_number, nh in node["port_to_nexthop"].items():
                if case["variant"] in ("fair", "fair-real"):
                    dev[v].ports[port_number].out = dev[nh]
                else:
                    dev[v].outs[port_number].out.out = topo.nodes[nh]["c18_demux"]

        class Sink:
            def __init__(self, cls, node):
                self.cls, self.node = cls, node

            def put(self, p):
                sinks.append([self.cls, self.node, p.flow_id, p.packet_id])

        inject = []
        for fid, src, dst, path in fl:
            topo.nodes[dst]["c18_demux"].ends[fid] = Sink(fid, dst)
            inject.append((src, fid))
            if tcp:
                topo.nodes[src]["c18_demux"].ends[fid + ACK] = Sink(fid + ACK, src)
                inject.append((dst, fid + ACK))
        raised = []

        def source(env):
            for j in range(case["npk"]):
                for node, cls in inject:
                    try:
                        topo.nodes[node]["c18_demux"].put(Packet(env.now, 100, j, flow_id=cls, src=str(node)))
                    except Exception as e:
                        raised.append([node, cls, j] + _exc(e))
                yield env.timeout(1)

        env.process(source(env))
        sim_raised = None
        try:
            if case.get("split_run"):
                env.run(until=0.6)                     # two Environment runs: traffic of the second is injected after the first returned
                env.run(until=1.3)
            env.run(until=case["npk"] + 40)
        except Exception as e:
            sim_raised = _exc(e)
        pk = []
        for node, cls in inject:
            for j in range(case["npk"]):
                pk.append({"node": node, "cls": cls, "pid": j,
                           "trace": [h[0] for h in hops if h[1] == cls and h[2] == j],
                           "sinks": [[s[0], s[1]] for s in sinks if s[2] == cls and s[3] == j]})
        return {"flows": fl, "packets": pk, "raised": raised, "sim_raised": sim_raised, "nsink": len(sinks),
                "loops": [list(x) for x in loops]}

    # ============================================================================================
    # model
    CANARY_CASE = {"kind": "fib", "graph": "fattree", "k": 4, "tcp": True}

    def agree_term(self, case, obs):
        t = getattr(self, "agree_" + case["kind"])(case, obs)
        if case.get("canary") and t is not None:
            c = obs.get("canary") or {}
            b = c.get("before") or {}
            if b.get("raised") or c.get("raised") or c.get("after") != b.get("entries") or c.get("rebuilt") != b.get("entries"):
                return "false"
            t = f"({t}) && ({self.agree_fib(self.CANARY_CASE, b)})"
        return t

    def agree_twotrees(self, case, obs):
        if "setup_raised" in obs:
            return "false"
        ts = []
        for x in "ab":
            o = obs[x]
            if o.get("raised") or not o["snap_equal"]:
                return "false"
            sub = {"kind": "fib", "graph": "fattree", "k": case["k" + x], "tcp": self._tt_tcp(case, x)}
            ts.append("(" + self.agree_fib(sub, o) + ")")
            ts.append("(" + self.agree_fattree({"kind": "fattree", "k": case["k" + x]}, o["shape"]) + ")")
        if case["sim"]:
            sub = {"kind": "e2e", "k": case["ka"], "tcp": self._tt_tcp(case, "a"), "variant": "portwire"}
            ts.append("(" + self.agree_e2e(sub, obs["sim"]) + ")")
        return " && ".join(ts)

    def agree_flowdemux(self, case, obs):
        ts = []
        for f, r, st in zip(case["flows"], obs["res"], self._states(case)):
            cfg = "{| fd_nouts := %s; fd_default := %s |}" % (cf.nat(st["outs"]), cf.b(st["default"]))
            o = out_term(r["deliv"], r["raised"])
            if o is None:
                return "false"
            ts.append(f"output_eqb (flowdemux true {cfg} {cf.z(f)}) {o}")
        return " && ".join(ts) if ts else "true"

    def _deliv_term(self, r):
        if r["raised"] is not None and r["raised"][0] not in EXN:
            return None
        ex = "None" if r["raised"] is None else f"(Some {EXN[r['raised'][0]]})"
        return cf.pair(cf.lst([one_out(d) for d in r["deliv"]]), ex)

    def agree_fibdemux(self, case, obs):
        ts = []
        for f, r, st in zip(case["flows"], obs["res"], self._states(case)):
            d = self._deliv_term(r)
            if d is None:
                return "false"
            ts.append(f"deliv_eqb (fib_deliveries true true true {fibcfg_term(st)} {nlist(case['raising'])} {cf.z(f)}) {d}")
        return " && ".join(ts) if ts else "true"

    def agree_switch(self, case, obs):
        if "construct_raised" in obs:
            return "false"
        ts = []
        if case["sw"] == "simple":
            for f, r in zip(case["flows"], obs["res"]):
                o = out_term(r["deliv"], r["raised"])
                if o is None:
                    return "false"
                ts.append(f"output_eqb (simple_switch true {cf.nat(case['nports'])} {cf.z(f)}) {o}")
            return " && ".join(ts) if ts else "true"
        if not obs["wiring"] or obs["sim_raised"]:
            return "false"
        states = self._states(case)
        for j, (f, r) in enumerate(zip(case["flows"], obs["res"])):
            st = states[j]
            cfg = ("{| fs_nports := %s; fs_fib := %s; fs_ends := %s; fs_class := (fun f => f mod %s) |}"
                   % (cf.nat(case["nports"]), table_term(st["fib"]), cf.lst([cf.pair(cf.z(a), cf.nat(b)) for a, b in st["ends"]]),
                      cf.z(case["ncls"])))
            o = out_term(r["deliv"], r["raised"])
            if o is None:
                return "false"
            sch = [s for s in obs["sched"] if s[2] == j]
            if len(sch) > 1:
                return "false"
            st = cf.opt(sch[0] if sch else None, lambda s: cf.pair(cf.nat(s[0]), cf.z(s[1])))
            ts.append(f"output_eqb (fair_switch true true {cfg} {cf.z(f)}) {o} && "
                      f"option_eqb (pair_eqb Nat.eqb Z.eqb) (fair_reaches true true {cfg} {cf.z(f)}) {st}")
        return " && ".join(ts) if ts else "true"

    @staticmethod
    def hub_puts(events):
        """[port i, ep i] -> (i, via port); [ep i] -> (i, direct); anything else -> None"""
        out, i = [], 0
        while i < len(events):
            e = events[i]
            if e[0] == "port":
                if i + 1 < len(events) and events[i + 1] == ["ep", e[1]]:
                    out.append([e[1], True])
                    i += 2
                else:
                    return None
            else:
                out.append([e[1], False])
                i += 1
        return out

    def _hub_ports_arg(self, case):
        if not case["ports_arg"]:
            return []
        ports = [bool(e[1]) for e in case["eps"]]
        if case["delta"] == 1:
            ports = ports + [False]
        elif case["delta"] == -1:
            ports = ports[:-1] if ports else [False]
        return ports

    def _hub_acts_term(self, case):
        ts = []
        for act in self._hub_script(case):
            if act[0] == "attach":
                ts.append("HAttach {| ep_id := %s; ep_port := %s |}" % (cf.z(act[1]), cf.b(act[2])))
            elif act[0] == "rename":
                ts.append(f"HRename {cf.nat(act[1])} {cf.z(act[2])}")
            elif act[0] == "run":
                continue
            else:
                ts.append(f"HSend {cf.z(act[1])}")
        return cf.lst(ts)

    def agree_hub(self, case, obs):
        eids = zlist([e[0] for e in case["eps"]])
        ports = blist(self._hub_ports_arg(case))
        make = f"hub_make true {eids} {ports}"
        if obs.get("construct_raised"):
            t = obs["construct_raised"][0]
            if t not in ("ValueError", "IndexError"):
                return "false"
            return f"match {make} with inr H{t} => true | _ => false end"
        if not obs["wiring"]:
            return "false"
        exp = []
        for r in obs["res"]:
            puts = self.hub_puts(r["events"])
            if puts is None or r["raised"] or not r["same"]:
                return "false"
            exp.append(cf.lst([cf.pair(cf.nat(i), cf.b(v)) for i, v in puts]))
        return (f"match {make} with inl s => list_eqb (list_eqb (pair_eqb Nat.eqb Bool.eqb)) "
                f"(hub_run s {self._hub_acts_term(case)}) {cf.lst(exp)} | inr _ => false end")

    def _view_term(self, v):
        return cf.lst([cf.pair(cf.nat(t), cf.nat(o), zlist(h), cf.nat(ph), cf.nat(pr)) for t, o, h, ph, pr in v])

    def agree_splitter(self, case, obs):
        if obs["raised"] or any(r["raised"] for r in obs.get("pre", [])):
            return "false"
        heap0 = "[{| hdr := mk_hdr %s; perhop_ref := 0%%nat; prio_ref := 0%%nat |}]" % zlist(case["hdr"])
        muts = cf.lst([cf.pair(cf.nat(j), cf.nat(f), cf.z(v)) for j, f, v in case["mut"]])
        ts = [f"split_agree {blist(att)} {heap0} [] {self._view_term(r['view'])} {self._view_term(r['view'])}"
              for att, r in zip(case.get("pre", []), obs.get("pre", []))]
        ts.append(f"split_agree {blist(case['att'])} {heap0} {muts} {self._view_term(obs['before'])} {self._view_term(obs['after'])}")
        return " && ".join(ts)

    def agree_fattree(self, case, obs):
        if obs.get("raised") or not obs["canonical"] or not obs["types_ok"]:
            return "false"
        L = obs["layers"]
        if set(L) != {"core", "aggregation", "edge", "leaf"}:
            return "false"

        def pods(l):
            return cf.lst([cf.pair(cf.nat(a), cf.nat(b)) for a, b in l])
        if any(p != -1 for _, p in L["core"]):
            return "false"
        return (f"ft_agree {cf.nat(case['k'])} {nnlist(obs['adj'])} {nlist([v for v, _ in L['core']])} {pods(L['aggregation'])} "
                f"{pods(L['edge'])} {pods(L['leaf'])} {nlist(obs['hosts'])} {cf.nat(obs['nedges'])}")

    def agree_fib(self, case, obs):
        """every use of the object against the model of THAT flow set alone"""
        ts = []
        for spec, o in zip(case.get("earlier", []), obs.get("earlier", [])):
            ts.append("(" + self._agree_fib1({**case, **spec}, o) + ")")
        if len(obs.get("earlier", [])) != len(case.get("earlier", [])):
            return "false"
        ts.append("(" + self._agree_fib1(case, obs) + ")")
        return " && ".join(ts)

    def _agree_fib1(self, case, obs):
        if not obs.get("canonical", False):
            return "false"
        flows = flows_term([[f, p] for f, _, _, p in obs["flows"]])
        adj = nnlist(obs["adj"])
        pre = "true"
        if case["graph"] == "fattree":
            if obs.get("raised") or not obs["keys_ok"]:
                return "false"
            k = cf.nat(case["k"])
            paths = cf.lst([cf.pair(cf.nat(s), cf.nat(d), nlist(p)) for _, s, d, p in obs["flows"]])
            pre = f"ft_adj_agree {k} {adj} && forallb (fun x => path_ok {k} (fst (fst x)) (snd (fst x)) (snd x)) {paths}"
        gen = f"gen_fib (nbfun_of {adj}) {cf.b(case['tcp'])} {flows}"
        if obs.get("raised"):
            if obs["raised"][0] != "KeyError":
                return "false"
            return f"{pre} && match {gen} with None => true | Some _ => false end"
        if not obs["consistent"]:
            return "false"
        return f"{pre} && match {gen} with Some t => tables_agree t {entries_term(obs['entries'])} | None => false end"

    def agree_e2e(self, case, obs):
        if "setup_raised" in obs:
            return "false"
        if obs["raised"] or obs["sim_raised"] or obs["loops"]:
            return "false"
        k = cf.nat(case["k"])
        flows = flows_term([[f, p] for f, _, _, p in obs["flows"]])
        paths = cf.lst([cf.pair(cf.nat(s), cf.nat(d), nlist(p)) for _, s, d, p in obs["flows"]])
        pk = []
        for p in obs["packets"]:
            if len(p["sinks"]) > 1:
                return "false"
            if p["sinks"]:
                if p["sinks"][0][0] < 0:
                    return "false"
                res = f"(Delivered (Z.to_nat {cf.z(p['sinks'][0][0])}) {nlist(p['trace'])})"
            else:
                res = f"(Lost {nlist(p['trace'])})"
            pk.append(cf.pair(cf.nat(p["node"]), cf.z(p["cls"]), res))
        return (f"forallb (fun x => path_ok {k} (fst (fst x)) (snd (fst x)) (snd x)) {paths} && "
                f"e2e_agree {k} {cf.b(case['variant'] != 'portwire')} {cf.b(case['tcp'])} {flows} {cf.lst(pk)}")

    def model_term(self, case):
        kd = case["kind"]
        if kd == "flowdemux":
            return cf.lst(["flowdemux true {| fd_nouts := %s; fd_default := %s |} %s" % (cf.nat(st["outs"]), cf.b(st["default"]), cf.z(f))
                           for f, st in zip(case["flows"], self._states(case))])
        if kd == "fibdemux":
            return cf.lst([f"fib_deliveries true true true {fibcfg_term(st)} {nlist(case['raising'])} {cf.z(f)}"
                           for f, st in zip(case["flows"], self._states(case))])
        if kd == "switch" and case["sw"] == "simple":
            return f"map (simple_switch true {cf.nat(case['nports'])}) {zlist(case['flows'])}"
        if kd == "hub":
            return (f"match hub_make true {zlist([e[0] for e in case['eps']])} {blist(self._hub_ports_arg(case))} with "
                    f"inl s => inl (hub_run s {self._hub_acts_term(case)}) | inr e => inr e end")
        if kd == "fattree":
            return f"(ft_nnodes {cf.nat(case['k'])}, length (ft_edges {cf.nat(case['k'])}))"
        if kd == "fib" and case["graph"] == "random":
            adj = {v: [] for v in range(case["n"])}
            for a, b in case["edges"]:
                adj[a].append(b)
                adj[b].append(a)
            return f"gen_fib (nbfun_of {nnlist([adj[v] for v in range(case['n'])])}) {cf.b(case['tcp'])} {flows_term(case['flows'])}"
        return None

    # ============================================================================================
    # the property as an oracle over the implementation's behaviour (no Coq model involved)
    def monitor(self, case, obs):
        msgs = getattr(self, "mon_" + case["kind"])(case, obs)[:4]
        if case.get("canary"):
            msgs += self.mon_canary(case, obs.get("canary") or {})
        return msgs

    def mon_canary(self, case, c):
        """the fixed tree of the canary must not be touched by the case that ran in between, nor by anything that ran earlier in
        this process: instances of FatTree are independent"""
        b = c.get("before") or {}
        if b.get("raised") or c.get("raised"):
            return [f"instances-interfere-canary: building the canary tree raised {b.get('raised') or c.get('raised')}"]
        msgs = []
        if b.get("entries") != self.CANARY_ENTRIES:
            m = self.mon_fib(self.CANARY_CASE, b)
            msgs.append("instances-interfere-canary: FatTree(4) with the two fixed flows, built before the case: tables differ from the "
                        f"recorded ones (state surviving from earlier cases in this process?) {m[:1]}")
        if c.get("after") != b.get("entries"):
            gone = [e for e in (b.get("entries") or []) if e not in (c.get("after") or [])]
            msgs.append(f"instances-interfere-canary: the tables of a FatTree(4) built before this {case['kind']} case changed while the case "
                        f"ran (its own FatTree / generate_fib touched another instance): {len(gone)} entries gone, e.g. {gone[:2]}")
        if c.get("rebuilt") != self.CANARY_ENTRIES:
            msgs.append("instances-interfere-canary: FatTree(4) with the two fixed flows rebuilt after the case: tables differ from the recorded ones")
        return msgs[:2]

    def mon_twotrees(self, case, obs):
        if "setup_raised" in obs:
            return [f"instances-interfere-raises: two FatTree objects ({case['ka']}, {case['kb']}), order {case['order']}: {obs['setup_raised']}"]
        msgs = []
        ctx = f"FatTree A(k={case['ka']}) and B(k={case['kb']}) alive together, order '{case['order']}'" + \
            (f", then a second flow set on {case['again'].upper()}" if case.get("again") else "")
        for x in "ab":
            o = obs[x]
            if o.get("raised"):
                msgs.append(f"instances-interfere: {ctx}: reading tree {x.upper()} raised {o['raised']}")
                continue
            sub = {"kind": "fib", "graph": "fattree", "k": case["k" + x], "tcp": self._tt_tcp(case, x)}
            for m in self.mon_fib(sub, o)[:1] + self.mon_fattree({"kind": "fattree", "k": case["k" + x]}, o["shape"])[:1]:
                msgs.append(f"instances-interfere: {ctx}: tree {x.upper()} no longer satisfies its own clauses: {m}")
            if not o["snap_equal"]:
                msgs.append(f"instances-interfere: {ctx}: the tables of tree {x.upper()} changed after its own generate_fib (the other tree's calls touched them)")
        if case["sim"]:
            sub = {"kind": "e2e", "k": case["ka"], "tcp": self._tt_tcp(case, "a"), "variant": "portwire"}
            for m in self.mon_e2e(sub, obs["sim"])[:1]:
                msgs.append(f"instances-interfere: {ctx}: network built from A's tables after all calls on B: {m}")
        return msgs

    def mon_flowdemux(self, case, obs):
        msgs = []
        for f, r, st in zip(case["flows"], obs["res"], self._states(case)):
            n = st["outs"]
            exp = [["out", f]] if 0 <= f < n else ([["default"]] if st["default"] else [])
            tag = "negative-flow" if f < 0 else "flow"
            rc = " (after reconfiguration)" if (st["outs"], st["default"]) != (case["nouts"], case["default"]) else ""
            if r["raised"]:
                msgs.append(f"flowdemux-{tag}-raises: FlowDemux({n} outs, default={st['default']}){rc}.put(flow {f}) raised {r['raised']}; expected {exp}")
            elif r["deliv"] != exp:
                msgs.append(f"flowdemux-{tag}-wrong-output: FlowDemux({n} outs, default={st['default']}){rc}.put(flow {f}) handed the packet to {r['deliv']}; expected {exp}")
            elif not r["same"]:
                msgs.append("flowdemux-not-same-packet: the output got another object than the packet put")
        if obs["received"] != len(case["flows"]):
            msgs.append(f"flowdemux-counter: packets_recevied={obs['received']} after {len(case['flows'])} puts")
        return msgs

    def _fib_expect(self, fib, n, ends, default, f):
        """-> (expected deliveries, in_domain)"""
        ends = dict(ends or [])
        t = dict(fib)
        if f in ends:
            return [["end", ends[f]]], True
        if f in t:
            p = t[f]
            if 0 <= p < n:
                return [["out", p]], True
            if p < 0:
                return None, False          # negative port number: outside the statement (see assumptions)
        return ([["default"]] if default else []), True

    def mon_fibdemux(self, case, obs):
        msgs = []
        nput = 0
        for f, r, st in zip(case["flows"], obs["res"], self._states(case)):
            n = st["outs"] or 0
            rc = " as reconfigured by %s" % [o for o in case["reconf"]] if case.get("reconf") else ""
            desc = f"FIBDemux(fib={st['fib']}, outs={st['outs']}, ends={st['ends']}, default={st['default']}){rc}"
            case = dict(case, fib=st["fib"], ends=st["ends"], default=st["default"])
            if case["fib"] is None:
                if r["deliv"]:
                    msgs.append(f"fibdemux-no-table-delivers: {desc}.put(flow {f}) handed the packet to {r['deliv']} without a table")
                continue
            nput += 1
            exp, dom = self._fib_expect(case["fib"], n, case["ends"], case["default"], f)
            if len(r["deliv"]) > 1:
                msgs.append(f"fibdemux-two-outputs: {desc}.put(flow {f}) handed one packet to {r['deliv']} (the chosen output raised KeyError inside put)")
                continue
            if not dom:
                continue
            raising_hit = exp and exp[0][0] == "out" and exp[0][1] in case["raising"]
            if r["raised"] and not (raising_hit and r["raised"][0] == "KeyError"):
                what = "empty-table" if case["fib"] == [] else ("empty-outs" if n == 0 else "other")
                msgs.append(f"fibdemux-raises-{what}: {desc}.put(flow {f}) raised {r['raised']}; expected {exp}")
            elif r["deliv"] != exp:
                msgs.append(f"fibdemux-wrong-output: {desc}.put(flow {f}) handed the packet to {r['deliv']}; expected {exp}")
            elif raising_hit and not r["raised"]:
                msgs.append(f"fibdemux-swallows-downstream-error: {desc}: KeyError raised by output {exp[0][1]} did not reach the caller")
            elif not r["same"]:
                msgs.append("fibdemux-not-same-packet: the output got another object than the packet put")
        if obs["received"] != nput:
            msgs.append(f"fibdemux-counter: packets_recevied={obs['received']} after {nput} puts with a table")
        return msgs

    def mon_switch(self, case, obs):
        msgs = []
        n = case["nports"]
        if "construct_raised" in obs:
            return [f"switch-construct-raises: {case['sw']} switch: {obs['construct_raised']}"]
        if case["sw"] == "simple":
            if obs["nports"] != n:
                msgs.append(f"switch-port-count: {obs['nports']} ports for nports={n}")
            for f, r in zip(case["flows"], obs["res"]):
                exp = [["out", f]] if 0 <= f < n else []
                if r["raised"]:
                    msgs.append(f"switch-simple-raises: SimplePacketSwitch({n} ports).put(flow {f}) raised {r['raised']}; expected {exp}")
                elif r["deliv"] != exp:
                    msgs.append(f"switch-simple-wrong-port: SimplePacketSwitch({n} ports).put(flow {f}) reached {r['deliv']}; expected {exp}")
            return msgs
        if not obs["wiring"]:
            msgs.append("switch-fair-wiring: egress_ports[i].out is not ports[i]")
        if obs["sim_raised"]:
            msgs.append(f"switch-fair-sim-raises: {obs['sim_raised']}")
        states = self._states(case)
        for j, (f, r) in enumerate(zip(case["flows"], obs["res"])):
            sch = [s[:2] for s in obs["sched"] if s[2] == j]
            case = dict(case, fib=states[j]["fib"], ends=states[j]["ends"])
            if case["fib"] is None:
                if r["deliv"] or sch:
                    msgs.append(f"switch-fair-no-table-delivers: flow {f} reached {r['deliv']} {sch} without a table")
                continue
            exp, dom = self._fib_expect(case["fib"], n, case["ends"], False, f)
            if len(r["deliv"]) > 1 or len(sch) > 1:
                msgs.append(f"switch-fair-two-outputs: flow {f} reached {r['deliv']} / schedulers {sch}")
                continue
            if not dom:
                continue
            esch = [[exp[0][1], f % case["ncls"]]] if exp and exp[0][0] == "out" else []
            if r["raised"]:
                what = "empty-table" if case["fib"] == [] else "other"
                msgs.append(f"switch-fair-raises-{what}: FairPacketSwitch({n} ports, fib={case['fib']}).put(flow {f}) raised {r['raised']}; expected {exp}")
            elif r["deliv"] != exp or sch != esch:
                msgs.append(f"switch-fair-wrong-port: FairPacketSwitch({n} ports, fib={case['fib']}, ends={case['ends']}).put(flow {f}) reached {r['deliv']}, scheduler/class {sch}; expected {exp} {esch}")
        return msgs

    def mon_hub(self, case, obs):
        msgs = []
        eps = [list(e) for e in case["eps"]]
        ports = self._hub_ports_arg(case)
        mismatch = bool(ports) and len(ports) != len(eps)
        if obs.get("construct_raised"):
            if mismatch and obs["construct_raised"][0] == "ValueError":
                return []
            what = "no-ports" if not ports else "other"
            return [f"hub-raises-{what}: Hub(env, {len(eps)} endpoints{', ports' if case['ports_arg'] else ''}) raised {obs['construct_raised']}"]
        if mismatch:
            msgs.append("hub-accepts-mismatch: ports list of another length than endpoints accepted")
        if not obs["wiring"]:
            msgs.append("hub-wiring: endpoint.out is not the hub or port.out is not its endpoint")
        if not ports:
            eps = [[e[0], False] for e in eps]        # an empty ports list means: no port devices
        pop = [list(e) for e in eps]                  # the population attached so far
        res = iter(obs["res"])
        nattach = 0
        for act in self._hub_script(case):
            if act[0] == "attach":
                pop.append([act[1], act[2]])
                nattach += 1
                continue
            if act[0] == "rename":
                if act[1] < len(pop):
                    pop[act[1]][0] = act[2]
                continue
            if act[0] == "run":
                continue
            s, r = act[1], next(res)
            when = f" (after {nattach} add_endpoint calls, {len(pop)} endpoints attached)" if nattach else ""
            if r["raised"]:
                msgs.append(f"hub-put-raises: {r['raised']}")
                continue
            got_ep = [e[1] for e in r["events"] if e[0] == "ep"]
            got_port = [e[1] for e in r["events"] if e[0] == "port"]
            exp_ep = [i for i, e in enumerate(pop) if e[0] != s]
            exp_port = [i for i, e in enumerate(pop) if e[0] != s and e[1]]
            senders = [i for i, e in enumerate(pop) if e[0] == s]
            if any(i in got_ep or i in got_port for i in senders):
                msgs.append(f"hub-sender-gets-packet: src e{s}{when}: endpoints {sorted(got_ep)} got the packet, sender(s) {senders} included")
            elif sorted(got_ep) != exp_ep:
                msgs.append(f"hub-not-exactly-once: src e{s}{when}: endpoints {sorted(got_ep)} got the packet; expected each of {exp_ep} once")
            elif sorted(got_port) != exp_port:
                msgs.append(f"hub-port-device-bypassed: src e{s}{when}: port devices {sorted(got_port)} got the packet; expected {exp_port}")
            elif not r["same"]:
                msgs.append("hub-not-same-packet: an endpoint got another object than the packet put")
        tw = obs.get("twin")
        if tw is not None:
            if tw["raised"] or tw["events"] != [["twin", 0]] or tw["n_endpoints"] != 1 or tw["n_outs"] != 1 or tw["n_ports_attr"] != 0 \
                    or tw["main_endpoints"] != len(pop):
                msgs.append(f"instances-interfere-hub: a second Hub(env) built without arguments next to this hub: {tw} "
                            f"(expected its own single endpoint only; the main hub has {len(pop)} endpoints)")
        return msgs

    def _mon_split_round(self, att, hdr, b, what=""):
        msgs = []
        exp_outs = [i for i, x in enumerate(att) if x]
        if sorted(v[0] for v in b) != exp_outs:
            return [f"splitter-outputs: {what}outputs {[v[0] for v in b]} got a packet; attached are {exp_outs}"]
        for v in b:
            if v[0] == 0 and v[1] != 0:
                msgs.append(f"splitter-first-not-original: {what}the first output did not get the original packet object")
            if v[0] != 0 and v[1] == 0:
                msgs.append(f"splitter-no-copy: {what}output {v[0]} got the original object, not a copy")
            if v[2] != hdr:
                msgs.append(f"splitter-copy-differs: {what}output {v[0]} header {v[2]} != original {hdr}")
        if len(set(v[1] for v in b)) != len(b):
            msgs.append(f"splitter-shared-object: {what}object ids handed out {[v[1] for v in b]} are not pairwise distinct")
        return msgs

    def mon_splitter(self, case, obs):
        msgs = []
        for k_, (att, r) in enumerate(zip(case.get("pre", []), obs.get("pre", []))):
            if r["raised"]:
                return [f"splitter-raises: {r['raised']}"]
            msgs += self._mon_split_round(att, case["hdr"], r["view"], f"round {k_} (outputs re-pointed to {att}): ")
        if obs["raised"]:
            return [f"splitter-raises: {obs['raised']}"]
        b, a = obs["before"], obs["after"]
        what = f"after {len(case['pre'])} earlier rounds with other outputs: " if case.get("pre") else ""
        m = self._mon_split_round(case["att"], case["hdr"], b, what)
        msgs += m
        if m and m[0].startswith("splitter-outputs"):
            return msgs
        # independent mutation: replay the assignments on private copies of the header
        exp = [list(case["hdr"]) for _ in b]
        for j, fld, val in case["mut"]:
            if j < len(b):
                exp[j][fld] = val
        for v, e in zip(a, exp):
            if v[2] != e:
                msgs.append(f"splitter-mutation-leaks: after assignments {case['mut']} output {v[0]} sees header {v[2]}; expected {e}")
                break
        return msgs

    def mon_fattree(self, case, obs):
        k = case["k"]
        if obs.get("raised"):
            return [f"fattree-raises: FatTree({k}) raised {obs['raised']}"]
        msgs = []
        h = k // 2
        L = obs["layers"]
        cnt = {name: len(L.get(name, [])) for name in ("core", "aggregation", "edge", "leaf")}
        exp = {"core": h * h, "aggregation": k * k // 2, "edge": k * k // 2, "leaf": k ** 3 // 4}
        if cnt != exp or obs["n"] != sum(exp.values()) or set(L) != set(exp):
            return [f"fattree-counts: FatTree({k}) layers {cnt} ({obs['n']} nodes); expected {exp}"]
        if not obs["canonical"] or not obs["types_ok"]:
            return ["fattree-node-attrs: node names are not 0..n-1 or type attributes are wrong"]
        adj = obs["adj"]
        layer, pod = {}, {}
        for name in exp:
            for v, p in L[name]:
                layer[v] = name
                pod[v] = p
        if sorted(obs["hosts"]) != sorted(v for v, _ in L["leaf"]):
            msgs.append("fattree-hosts: FatTree.hosts is not the set of leaf nodes")
        if sum(len(a) for a in adj) != 2 * obs["nedges"] or any(len(set(a)) != len(a) or v in a for v, a in enumerate(adj)):
            msgs.append("fattree-multigraph: adjacency lists have duplicates / self loops")
        if any((u in adj[v]) != (v in adj[u]) for v in range(obs["n"]) for u in adj[v]):
            msgs.append("fattree-asymmetric: adjacency is not symmetric")
        for v in range(obs["n"]):
            nb = adj[v]
            by = {}
            for u in nb:
                by.setdefault(layer[u], []).append(u)
            if layer[v] != "leaf" and len(nb) != k:
                msgs.append(f"fattree-degree: FatTree({k}) {layer[v]} switch {v} has degree {len(nb)}")
                break
            if layer[v] == "core":
                if set(by) != {"aggregation"} or sorted(pod[u] for u in nb) != list(range(k)):
                    msgs.append(f"fattree-core-wiring: core {v} is not attached to exactly one aggregation switch per pod: {nb}")
                    break
            elif layer[v] == "aggregation":
                if set(by) != {"core", "edge"} or len(by["core"]) != h or len(by["edge"]) != h or any(pod[u] != pod[v] for u in by["edge"]):
                    msgs.append(f"fattree-aggr-wiring: aggregation {v}: {by}")
                    break
            elif layer[v] == "edge":
                if set(by) != {"aggregation", "leaf"} or len(by["leaf"]) != h or len(by["aggregation"]) != h or any(pod[u] != pod[v] for u in nb):
                    msgs.append(f"fattree-edge-wiring: edge switch {v} has {len(by.get('leaf', []))} hosts / neighbours {by}; expected {h} hosts and {h} aggregation switches of its pod")
                    break
            else:
                if len(nb) != 1 or layer[nb[0]] != "edge" or pod[nb[0]] != pod[v]:
                    msgs.append(f"fattree-host-wiring: host {v}: {nb}")
                    break
        if not msgs:
            # the standard fat tree: aggregation switches of one pod reach disjoint core groups, every core group reaches every pod
            d = bfs_dist(adj, L["leaf"][0][0])
            far = [v for v, _ in L["leaf"] if d.get(v) is None or d[v] > 6]
            if far:
                msgs.append(f"fattree-not-connected: hosts {far[:3]} farther than 6 hops from host {L['leaf'][0][0]}")
            for p in range(k):
                cores = [set(u for u in adj[v] if layer[u] == "core") for v, pp in L["aggregation"] if pp == p]
                if len(set().union(*cores)) != h * h:
                    msgs.append(f"fattree-core-groups: the aggregation switches of pod {p} reach {len(set().union(*cores))} core switches, expected {h * h}")
                    break
        return msgs

    def _flows_in_hyp(self, flows, adj):
        ids = [f for f, _, _, _ in flows]
        if len(set(ids)) != len(ids) or any(not (0 <= f < ACK) for f in ids):
            return False
        for _, _, _, p in flows:
            if len(set(p)) != len(p) or any(b not in adj[a] for a, b in zip(p, p[1:])):
                return False
        return True

    def mon_fib(self, case, obs):
        nr = len(case.get("earlier", [])) + 1
        msgs = []
        for i, (spec, o) in enumerate(list(zip(case.get("earlier", []), obs.get("earlier", []))) + [(case, obs)]):
            for m in self._mon_fib1({**case, **{k_: v for k_, v in spec.items() if k_ != "earlier"}}, o):
                if nr > 1:
                    sig, rest = m.split(":", 1)
                    m = f"{sig}: [generate_fib call {i + 1} of {nr} on the same FatTree object]{rest}"
                msgs.append(m)
        return msgs

    def _mon_fib1(self, case, obs):
        msgs = []
        if not obs.get("canonical", False):
            return ["fib-node-names: graph nodes are not 0..n-1"]
        adj = obs["adj"]
        flows = obs["flows"]
        hyp = self._flows_in_hyp(flows, adj)
        if case["graph"] == "fattree":
            if obs.get("raised"):
                return [f"fib-raises: {obs['raised']}"]
            h = case["k"] // 2
            nsw = h * h + case["k"] ** 2
            for f, s, d, p in flows:
                if s == d or s < nsw or d < nsw:
                    msgs.append(f"fib-flow-endpoints: flow {f} from {s} to {d}: not two distinct hosts")
                elif p[0] != s or p[-1] != d or any(b not in adj[a] for a, b in zip(p, p[1:])):
                    msgs.append(f"fib-flow-path-not-walk: flow {f} path {p} is not a walk from {s} to {d}")
                elif len(p) - 1 != bfs_dist(adj, s)[d]:
                    msgs.append(f"fib-flow-path-not-shortest: flow {f} path {p} has {len(p) - 1} hops, distance is {bfs_dist(adj, s)[d]}")
            if not hyp:
                msgs.append("fib-flow-ids: generated flow ids are not distinct in [0,10000) or a path is not simple")
                return msgs
        if not hyp:
            return msgs
        if obs.get("raised"):
            return [f"fib-raises: generate_fib raised {obs['raised']} on simple walks with distinct ids"]
        if not obs["consistent"]:
            msgs.append("fib-tables-inconsistent: flow_to_port / flow_to_nexthop / port_to_nexthop / nexthop_to_port disagree with each other or with the adjacency order")
        tab = {(n, c): (p, nh) for n, c, p, nh in obs["entries"]}
        for f, s, d, p in flows:
            for cls, path, what in ((f, p, "path"), (f + ACK, p[::-1], "reverse path")):
                if cls != f and not case["tcp"]:
                    continue
                cur, walked = path[0], [path[0]]
                for _ in range(len(path) + 2):
                    if cur == path[-1]:
                        break
                    e = tab.get((cur, cls))
                    if e is None or e[0] >= len(adj[cur]):
                        walked.append(None)
                        break
                    cur = adj[cur][e[0]]
                    walked.append(cur)
                if walked != path:
                    msgs.append(f"fib-does-not-follow-{'path' if cls == f else 'reverse'}: class {cls}: tables lead {walked}, the {what} is {path} (tcp={case['tcp']})")
                    break
        if not case["tcp"] and any(c >= ACK for _, c in tab):
            msgs.append("fib-reverse-entries-without-tcp: classes >= 10000 present although tcp=False")
        extra = [key for key in tab if not any((key[1] == f and key[0] in p[:-1]) or (key[1] == f + ACK and key[0] in p[1:]) for f, _, _, p in flows)]
        if extra:
            msgs.append(f"fib-stray-entries: entries {extra[:3]} belong to no flow's path")
        return msgs

    def mon_e2e(self, case, obs):
        msgs = []
        if "setup_raised" in obs:
            return [f"e2e-setup-raises: FatTree({case['k']}) / generate_flows / generate_fib raised {obs['setup_raised']}"]
        if obs["raised"]:
            return [f"e2e-put-raises: injecting at node {obs['raised'][0][0]} class {obs['raised'][0][1]}: {obs['raised'][0][3:]} (variant {case['variant']})"]
        if obs["sim_raised"]:
            return [f"e2e-sim-raises: {obs['sim_raised']}"]
        if obs["loops"]:
            c, j = obs["loops"][0]
            tr = [p["trace"] for p in obs["packets"] if p["cls"] == c and p["pid"] == j]
            return [f"e2e-forwarding-loop: packet {j} of class {c} was still being forwarded after 24 hops: {tr[0][:10] if tr else ''}... (variant {case['variant']})"]
        paths = {}
        for f, s, d, p in obs["flows"]:
            paths[f] = p
            paths[f + ACK] = p[::-1]
        for pk in obs["packets"]:
            c = pk["cls"]
            if [s[0] for s in pk["sinks"]] != [c]:
                msgs.append(f"e2e-wrong-sink: packet {pk['pid']} of class {c} injected at {pk['node']} arrived at sinks {pk['sinks']}; expected exactly its own sink (trace {pk['trace']}, variant {case['variant']})")
            elif pk["sinks"][0][1] != paths[c][-1]:
                msgs.append(f"e2e-sink-at-wrong-node: class {c} sink reached at node {pk['sinks'][0][1]}")
            elif pk["trace"] != paths[c]:
                msgs.append(f"e2e-off-path: packet {pk['pid']} of class {c} visited {pk['trace']}; its path is {paths[c]}")
        if obs["nsink"] != len(obs["packets"]):
            msgs.append(f"e2e-sink-count: {obs['nsink']} sink arrivals for {len(obs['packets'])} packets")
        return msgs

    # ============================================================================================
    def nontrivial(self, case, obs):
        kd = case["kind"]
        if kd in ("flowdemux", "fibdemux", "switch"):
            return len(case["flows"]) >= 1
        if kd == "hub":
            return len(case["eps"]) + sum(1 for a in self._hub_script(case) if a[0] == "attach") >= 1
        if kd == "splitter":
            return sum(case["att"]) >= 2
        if kd == "fattree":
            return case["k"] >= 4
        if kd == "fib":
            return len(obs.get("flows", [])) >= 1
        if kd == "twotrees":
            return "a" in obs and "b" in obs
        return len(obs.get("packets", [])) >= 1

    def shrink(self, case):
        kd = case["kind"]
        if case.get("twin"):
            yield {**case, "twin": False}

        def drop(key):
            l = case.get(key)
            if isinstance(l, list):
                for i in range(len(l)):
                    yield {**case, key: l[:i] + l[i + 1:]}
        if kd in ("flowdemux", "fibdemux", "switch"):
            yield from drop("reconf")
            if not case.get("reconf"):
                yield from drop("flows")
            for key in ("fib", "ends", "raising"):
                yield from drop(key)
            if kd == "flowdemux" and case["nouts"] > 0:
                yield {**case, "nouts": case["nouts"] - 1}
            if kd == "switch" and case["nports"] > 1:
                yield {**case, "nports": case["nports"] - 1}
            if kd == "fibdemux" and case["outs"]:
                yield {**case, "outs": case["outs"] - 1, "raising": [i for i in case["raising"] if i < case["outs"] - 1]}
            if case.get("default"):
                yield {**case, "default": False}
            for i, f in enumerate(case["flows"]):
                if abs(f) > 1:
                    yield {**case, "flows": case["flows"][:i] + [f // 2 if f > 0 else -((-f) // 2)] + case["flows"][i + 1:]}
        elif kd == "hub":
            yield from drop("script")
            yield from drop("srcs")
            yield from drop("added")
            if case["delta"] == 0:
                yield from drop("eps")
            for i, e in enumerate(case["eps"]):
                if e[1]:
                    yield {**case, "eps": case["eps"][:i] + [[e[0], False]] + case["eps"][i + 1:]}
        elif kd == "splitter":
            yield from drop("pre")
            yield from drop("mut")
            if case["cls"] == "NSplitter" and len(case["att"]) > 2:
                for i in range(len(case["att"])):
                    na = case["att"][:i] + case["att"][i + 1:]
                    yield {**case, "att": na, "mut": [m for m in case["mut"] if m[0] < sum(na)],
                           "pre": [p_[:i] + p_[i + 1:] for p_ in case.get("pre", [])]}
        elif kd == "fattree":
            if case["k"] > 2:
                yield {**case, "k": case["k"] - 2}
        elif kd == "fib":
            e = case.get("earlier", [])
            for i in range(len(e)):
                yield {**case, "earlier": e[:i] + e[i + 1:]}
            if case["graph"] == "fattree":
                if case["nflows"] > 1:
                    yield {**case, "nflows": case["nflows"] - 1}
                    yield {**case, "nflows": 1}
                if case["k"] > 2:
                    yield {**case, "k": case["k"] - 2}
                for s in (0, 1, 2, 3):
                    if case["seed"] > 3:
                        yield {**case, "seed": s}
            else:
                yield from drop("flows")
                for i, (f, p) in enumerate(case["flows"]):
                    if len(p) > 2:
                        yield {**case, "flows": case["flows"][:i] + [[f, p[:-1]]] + case["flows"][i + 1:]}
                        yield {**case, "flows": case["flows"][:i] + [[f, p[1:]]] + case["flows"][i + 1:]}
        elif kd == "twotrees":
            if case.get("again"):
                yield {**case, "again": ""}
                yield {**case, "again": case["again"][:1]}
            if case["sim"]:
                yield {**case, "sim": False}
            for x in "ab":
                if case["nf" + x] > 1:
                    yield {**case, "nf" + x: 1}
                if case["tcp" + x]:
                    yield {**case, "tcp" + x: False}
            if case["ka"] == case["kb"] and case["ka"] > 2:
                yield {**case, "ka": case["ka"] - 2, "kb": case["kb"] - 2}
        elif kd == "e2e":
            e = case.get("earlier", [])
            for i in range(len(e)):
                yield {**case, "earlier": e[:i] + e[i + 1:]}
            if case.get("split_run"):
                yield {**case, "split_run": False}
            if case["nflows"] > 1:
                yield {**case, "nflows": case["nflows"] - 1}
                yield {**case, "nflows": 1}
            if case["npk"] > 1:
                yield {**case, "npk": 1}
            if case["k"] > 2:
                yield {**case, "k": case["k"] - 2}
            if case["tcp"]:
                yield {**case, "tcp": False}

    def describe(self, case, obs):
        kd = case["kind"]
        keys = [kd]
        if kd in ("flowdemux", "fibdemux", "switch"):
            if case.get("reconf"):
                keys.append(kd + ":reconfigured-between-packets")
            if any(f < 0 for f in case["flows"]):
                keys.append(kd + ":negative-flow-id")
            if kd == "flowdemux" and case["nouts"] == 0:
                keys.append(kd + ":empty-outs")
            if kd == "fibdemux":
                if case["fib"] == []:
                    keys.append(kd + ":empty-table")
                if case["fib"] is None:
                    keys.append(kd + ":no-table")
                if not case["outs"]:
                    keys.append(kd + ":empty-or-no-outs")
                if case["raising"]:
                    keys.append(kd + ":raising-output")
                t = dict(case["fib"] or [])
                e = dict(case["ends"] or [])
                if any(f not in t and f not in e for f in case["flows"]):
                    keys.append(kd + ":unknown-flow")
                if any(f in e for f in case["flows"]):
                    keys.append(kd + ":end-device")
            if kd == "switch":
                keys.append(kd + ":" + case["sw"])
        elif kd == "hub":
            script = self._hub_script(case)
            nat = sum(1 for a in script if a[0] == "attach")
            keys.append("hub:n=%d" % (len(case["eps"]) + nat))
            keys.append("hub:ports-list" if case["ports_arg"] else "hub:no-ports-list")
            ids = [e[0] for e in case["eps"]] + [a[1] for a in script if a[0] == "attach"]
            sends = [a[1] for a in script if a[0] == "send"]
            keys.append("hub:sender-attached" if any(x in ids for x in sends) else "hub:sender-not-attached")
            seen, late = set(), False
            for a in script:
                if a[0] == "send":
                    late = late or (a[1] in seen and "attached" in seen)
                    seen.add(a[1])
                elif a[0] == "attach" and seen - {"attached"}:
                    seen.add("attached")
            if late:
                keys.append("hub:resend-after-late-attach")
            if not case["eps"]:
                keys.append("hub:starts-empty")
            if any(a[0] == "rename" for a in script):
                keys.append("hub:element_id-reassigned")
        elif kd == "splitter":
            keys.append("splitter:n=%d" % len(case["att"]))
            if case["mut"]:
                keys.append("splitter:mutation")
            if case.get("pre"):
                keys.append("splitter:outputs-re-pointed")
        elif kd == "twotrees":
            keys.append("twotrees:same-k" if case["ka"] == case["kb"] else "twotrees:different-k")
            keys.append("twotrees:order=" + case["order"].replace(" ", "-"))
            if case["sim"]:
                keys.append("twotrees:simulated")
        elif kd == "fattree":
            keys.append("fattree:k=%d" % case["k"])
        elif kd == "fib":
            keys.append("fib:" + case["graph"] + (":tcp" if case["tcp"] else ""))
            if case["graph"] == "fattree":
                keys.append("fib:k=%d" % case["k"])
        elif kd == "e2e":
            keys.append("e2e:" + case["variant"] + (":tcp" if case["tcp"] else ""))
            fl = obs.get("flows", [])
            if case["variant"] != "portwire" and len(set(f % case["ncls"] for f, _, _, _ in fl)) < len(fl):
                keys.append("e2e:flows-share-class")
        if case.get("earlier"):
            keys.append(kd + ":object-reused(%d earlier flow sets)" % len(case["earlier"]))
        if case.get("again"):
            keys.append("twotrees:second-flow-set")
        if case.get("split_run") or case.get("runs") or any(a[0] == "run" for a in case.get("script", [])):
            keys.append(kd + ":several-env-runs")
        if case.get("canary"):
            keys.append("canary:" + kd)
        if case.get("twin"):
            keys.append("hub:twin-hub-alive")
        return keys


PROP = C18()
