"""Part 'wire' -- Wire and Cable (onl/netdev/wire.py).
Serves C10 (delivery-time law, FIFO, loss only by rate, cable = two independent wires) and the wire's share
of C08 (conservation, identity, per-flow order, drained).  Models: coq/Elem/Wire.v, coq/Elem/Cable.v.

kinds:  'wire'   one Wire, scripted delay_dist and random.uniform, bursty arrivals from 1-3 drivers; optionally stopped early
                 (case["until"]); optionally RECONFIGURED BETWEEN PACKETS (case["reconf"]: loss_rate / delay_dist / out assigned
                 at some instant; the value in force when run() takes / hands over a packet counts); optionally the same Packet
                 objects enter again (a retransmission) at any time, also while an earlier traversal of the object is still
                 waiting in the store (each traversal keeps its own entry instant since fix 965d42d)
        'cable'  a real Cable between two devices, traffic in both directions at once (40%: bursts queued in both directions at
                 the same time); both wires share the same delay_dist callable and the same `random`, so the scripted draws are
                 consumed in global order
        'multi'  several wires in one Environment: shape 'hub' = a real Hub with three wires as ports (ONE Packet object is put
                 into two wires at the same instant and must be delayed by each independently), shape 'hubfwd' = the same with
                 one endpoint forwarding the object into a further wire while it may still wait in another port wire, shape
                 'chain' = two wires in sequence (two traversals of one object); each wire is compared with its own wire automaton on its projection
all kinds: case["config"] = ctor | assign (constructed with OTHER values -- a decoy delay_dist that must never be called, another
           loss rate and id -- then the public attributes assigned before any traffic) | bare (constructed without the optional
           arguments, configured by assignment); every next hop records the wire's public state from inside its put()
           (hand-off view); case["canary"]: a tiny fixed Wire+Cable scenario is run afterwards in the same worker process and
           compared with its known observation.
"""
from fractions import Fraction

from vlib import coqfmt as cf
from props import elem_common as ec

F = Fraction
DELAY_LATTICE = [F(0), F(1, 4), F(1, 2), F(1), F(3, 2), F(2), F(4)]
UNIFORMS = [F(0), F(1, 8), F(1, 4), F(3, 8), F(1, 2), F(3, 4), F(1)]
NODES = ["Dev1", "NW1", "Dev2", "NW2"]
TAPNODE = {"dev1": "Dev1", "dev2": "Dev2"}
LOSSES = [None, None, 0, F(1, 4), F(1, 2), 1]


class Script:
    """scripted random source: delay_dist() and random.uniform(0,1) pop from the case's lists"""

    def __init__(self, vals):
        self.vals = [ec.T(v) for v in vals]
        self.n = 0

    def __call__(self, *a):
        v = self.vals[self.n]          # IndexError = the case did not provide enough draws (harness error)
        self.n += 1
        return v

    def uniform(self, a, b):
        return self()


class Decoy:
    """the delay_dist an object is CONSTRUCTED with in late-configuration cases; it must never be called"""

    def __init__(self):
        self.n = 0

    def __call__(self, *a):
        self.n += 1
        return 64.0


class Via:
    """a device sending through whatever its `out` points to (resolved at send time)"""

    def __init__(self, dev):
        self.dev = dev

    def put(self, p):
        return self.dev.out.put(p)


class HTap(ec.Tap):
    """a next hop that looks at the wire that feeds it from INSIDE its put(): the public state of the wire at the
    hand-off is recorded as a 6th component of the out entry"""

    def __init__(self, h, tag, nxt=None):
        super().__init__(h, tag)
        self.feeder = None
        self.nxt = nxt
        self.out = None
        self.element_id = tag

    def put(self, p):
        uid = getattr(p, "uid", None)
        self.got.append(p)
        w = self.feeder() if callable(self.feeder) else self.feeder
        probe = None
        if w is not None:
            ct = getattr(p, "current_time", None)
            probe = [w.packets_rec, len(w.store.items), sum(1 for x in w.store.items if _entry_pkt(x) is p),
                     None if ct is None else ec.qs(ct), w.out is self]
        self.h._emit(["out", self.tag, uid, ec.pkt_fields(p), id(p) == id(self.h.packets.get(uid)), probe])
        if self.nxt is not None:                      # relay: forward the very same object
            self.nxt.put(p)


def _entry_pkt(x):
    """a Wire's store entry is (entry instant, packet) since fix 965d42d; the bare packet before"""
    return x[1] if isinstance(x, tuple) else x


def _entry_stamp(x):
    return x[0] if isinstance(x, tuple) else getattr(x, "current_time", None)


def _loss_val(x):
    loss = None if x is None else ec.T(x)
    if isinstance(loss, float) and loss == int(loss):
        loss = int(loss)
    return loss


def _loss_arg(case):
    """kept for other parts that build wire stages (props/part_gensink.py)"""
    return _loss_val(case["loss"])


def _offset(w, k):
    """renumber the uids of a workload by +k (second direction of a cable)"""
    pk = {str(int(u) + k): {**s, "id": s["id"] + k} for u, s in w["packets"].items()}
    dr = [{"late": d["late"], "bursts": [[t, [u + k for u in uids]] for (t, uids) in d["bursts"]]} for d in w["drivers"]]
    return {"packets": pk, "drivers": dr}


def _recurrence(arrivals, deq, t0=F(0)):
    """the property's recurrence for one wire.  arrivals [(uid, a)]; deq [(instant, (u, d), loss in force)] already
    attributed to traversals k = 0..len(deq)-1.  -> list of (uid, a, s, lost, T or None)"""
    out = []
    Fk = t0
    for (uid, a), (_, (u, d), loss) in zip(arrivals, deq):
        s = max(a, Fk)
        if loss and u is not None and u < loss:
            out.append((uid, a, s, True, None))
            Fk = s
            continue
        tdel = a + d if s - a < d else s
        out.append((uid, a, s, False, tdel))
        Fk = tdel
    return out


def _build(wmod, env, what, config, delays, loss, decoy):
    """construct a Wire ('wire') or a Cable ('cable') the way the case says:
    ctor    all values as constructor arguments
    assign  constructed with OTHER values (a decoy delay_dist, another loss rate, another id), then the public attributes
            the code reads at every use are assigned before any traffic
    bare    constructed WITHOUT the optional arguments, configured by assignment"""
    cls = wmod.Wire if what == "wire" else wmod.Cable
    if config == "ctor":
        return cls(env, delay_dist=delays, loss_rate=loss)
    if config == "assign":
        obj = cls(env, decoy, 1 if not loss else None, 99)
    else:
        obj = cls(env, delays)
    for k, w in enumerate([obj] if what == "wire" else [obj.wire1, obj.wire2]):
        w.delay_dist = delays
        if config == "assign" or loss is not None:
            w.loss_rate = loss
        if config == "assign":
            w.wire_id = k
    return obj


# ---- canary: a tiny fixed scenario run in the same worker process after some cases; state that leaks across
# instances or runs (class-level containers, module globals, default-argument lists) changes what it observes
CANARY_EXPECT = {"wire": [[1, "2/1"], [2, "2/1"], [4, "4/1"]], "rec": 4, "left": 0,
                 "dev2": [[10, "2/1"]], "dev1": [[11, "1/1"]], "crec": [1, 1]}


def run_canary(wmod):
    from onl.sim import Environment
    from onl.packet import Packet

    class Sink:
        def __init__(self, env):
            self.env, self.got, self.out = env, [], None

        def put(self, p):
            self.got.append([p.packet_id, ec.qs(self.env.now)])
    saved = wmod.random
    try:
        unis = Script(["1/2", "1/2", "0", "1"])

        class R:
            uniform = staticmethod(unis.uniform)
        wmod.random = R
        env = Environment()
        w = wmod.Wire(env, Script(["2", "1/2", "1"]))
        w.loss_rate = 0.25
        w.out = Sink(env)
        ps = [Packet(time=0.0, size=100, packet_id=i + 1, src="c", flow_id=0) for i in range(4)]

        def drv():
            w.put(ps[0])
            yield env.timeout(1)
            w.put(ps[1])
            w.put(ps[2])
            yield env.timeout(2)
            w.put(ps[3])
        env.process(drv())
        env.run()
        env2 = Environment()
        c = wmod.Cable(env2, Script(["2", "1"]))
        d1, d2 = Sink(env2), Sink(env2)
        c.set_endpoints(d1, d2)
        d1.out.put(Packet(time=0.0, size=100, packet_id=10, src="c", flow_id=0))
        d2.out.put(Packet(time=0.0, size=100, packet_id=11, src="c", flow_id=0))
        env2.run()
        return {"wire": w.out.got, "rec": w.packets_rec, "left": len(w.store.items), "dev2": d2.got, "dev1": d1.got,
                "crec": [c.wire1.packets_rec, c.wire2.packets_rec]}
    except Exception as e:  # the canary itself must never raise
        return {"raised": [type(e).__name__, str(e)[:200]]}
    finally:
        wmod.random = saved


# ------------------------------------------------------------------------------------------------
# second tie (DESIGN 2.6): Wire.put translated from the tree under test on every run (vlib/translate.py, fail closed)
# into coq/Gen/Extracted_wire.v; bridged to the WPut step of Elem/Wire.v by coq/Elem/WireBridge.v; obligations in
# Props/C10_Bridge.v.

WIRE_CONS = [("FxStampCurrent", "(t : Q)"),          # packet.current_time = t      (kept for compatibility; run() does not read it)
             ("FxStorePut", "(t : Q)")]              # self.store.put((t, packet))  the entry instant travels with the queued entry
WIRE_FX = [("packet.current_time = _1", "FxStampCurrent", ["Q"]), ("self.store.put((_1, packet))", "FxStorePut", ["Q"])]
WIRE_READS = [("self.debug", "debug", "bool"), ("self.env.now", "now", "Q")]


def extracted_wire(repo):
    import os
    from vlib import translate as tr
    spec = tr.FnSpec(os.path.join(repo, "onl", "netdev", "wire.py"), "Wire", "put", "gen_Wire_put", reads=WIRE_READS,
                     effects=WIRE_FX)
    return tr.gen_module("onl/netdev/wire.py: Wire.put", "wire_st", "w_", [("packets_rec", "Z")], "wire_fx", WIRE_CONS, [spec])


# Wire.run, the server process, cut at its yields (vlib/translate_gen.py): Gen/Extracted_wire_run.v; bridged to the WInit /
# WGet u d / WTimer steps of Elem/Wire.v by coq/Elem/WireRunBridge.v; obligations in Props/C10_BridgeRun.v
WIRE_RUN_READS = [("self.loss_rate", "loss_rate", "optQ"),          # None | number: `not self.loss_rate`
                  ("self.env.now", "now", "Q"), ("env.now", "now", "Q"),
                  ("entry[0]", "entered", "Q"),                     # the store entry is (entry instant, packet)
                  ("self.debug", "debug", "bool"),
                  ("self.out", "out_set", "optobj")]
WIRE_RUN_DRAWS = [("random.uniform(0, 1)", "u", "Q", "FxUniform"),  # consumed only where Python evaluates it
                  ("self.delay_dist()", "dd", "Q", "FxDelayDist")]
WIRE_RUN_FX = [("self.out.put(entry[1])", "FxOutPut", [])]
WIRE_RUN_FX_CONS = [("FxUniform", ""), ("FxDelayDist", ""), ("FxOutPut", "")]
WIRE_RUN_REQUESTS = [("self.store.get()", "RqStoreGet", [], "obj"),  # resumes with the packet
                     ("env.timeout(_1)", "RqTimeout", ["Q"], None),
                     ("self.env.timeout(_1)", "RqTimeout", ["Q"], None)]
WIRE_RUN_REQ_CONS = [("RqStoreGet", ""), ("RqTimeout", "(d : Q)")]


def extracted_wire_run(repo):
    import os
    from vlib import translate_gen as tg
    spec = tg.GenSpec(os.path.join(repo, "onl", "netdev", "wire.py"), "Wire", "run", "gen_Wire_run", reads=WIRE_RUN_READS,
                      draws=WIRE_RUN_DRAWS, effects=WIRE_RUN_FX, requests=WIRE_RUN_REQUESTS, objects=["entry"])
    return tg.gen_run_module("onl/netdev/wire.py: Wire.run", spec, [], None, "", "wire_run_fx", WIRE_RUN_FX_CONS,
                             WIRE_RUN_REQ_CONS, types="wire_run")


class WirePart:
    name = "wire"
    kinds = ["wire", "cable", "multi"]
    serves = ["C10", "C08"]
    coq_imports = ["From ONL Require Import Base.Cmp Elem.Packet Elem.StoreQ Elem.Wire Elem.Cable."]
    props_files = {"C10": ["Props/C10.v", "Props/C10_Bridge.v", "Props/C10_BridgeRun.v", "Props/C10_Examples.v"], "C08": ["Props/C08_Wire.v"]}

    # ---- second tie: regenerate the translated body before the Coq build (fail closed) ----------------
    def pre_build(self, prop_id):
        if prop_id != "C10":
            return
        import os
        from vlib import framework as fw
        from vlib import translate as tr
        tr.write_if_changed(os.path.join(fw.COQ, "Gen", "Extracted_wire.v"), extracted_wire(fw.REPO))
        tr.write_if_changed(os.path.join(fw.COQ, "Gen", "Extracted_wire_run.v"), extracted_wire_run(fw.REPO))

    weight = 1
    nontrivial_rule = {
        "C10": ("kind 'wire' (66%): random bursty workloads from 1-3 driver processes on a dyadic time lattice (arrivals coincide "
                "with deliveries), delay scripts constant / decreasing / zero / random, loss rate None/0/0.25/0.5/1 with scripted "
                "uniform draws (values equal to the rate included), a quarter stopped early, 15% reconfigured between packets "
                "(loss_rate / delay_dist / out), 20% with Packet objects re-entering the wire at any time (also while an earlier "
                "traversal of the same object is still queued); kind 'cable' (22%): a real Cable with "
                "traffic in both directions (40% with bursts queued in both directions at once), shared scripted draws; kind "
                "'multi' (12%): a real Hub putting one object into two wires (half of them with an endpoint forwarding it into a further "
                "wire), or two wires in sequence; 28% of all cases configured "
                "by assignment after construction (16% over decoy constructor values, 12% without optional arguments); 8% followed "
                "by the canary scenario; non-trivial = at least 3 packets and at least one packet dequeued later than it arrived; "
                "distinct by hash of the case"),
        "C08": ("same case stream as C10; non-trivial = at least 3 packets and at least one packet waiting behind another; "
                "early-stopped runs exercise the 'still held' clause, exhausted runs the 'nothing held at quiescence' clause; "
                "conservation is counted per traversal (a Packet object may pass the same wire several times)"),
    }
    trusted_base = {
        "C10": ["random.uniform and delay_dist are replaced by scripted sequences (the wire's own code is untouched)",
                "float rounding is outside the theorems: generated times/delays are dyadic so every float the wire computes is exact",
                "cable: the generator objects of the two run() processes are renamed run1/run2 so that the harness can tell their "
                "Initialize/Timeout events apart",
                "vlib/translate.py (Python ast, fail closed; tables above the part class in props/part_wire.py) regenerates "
                "coq/Gen/Extracted_wire.v from Wire.put of the tree under test before every build; C10_gen_wire_put "
                "(Props/C10_Bridge.v) bridges it to the WPut step of the hand-written model; print() calls are ignored",
                "vlib/translate_gen.py (same subset and tables, plus the cut of a generator body at its yields; tables "
                "WIRE_RUN_* in props/part_wire.py) regenerates coq/Gen/Extracted_wire_run.v from Wire.run before every build; the "
                "C10_gen_wire_run_* theorems (Props/C10_BridgeRun.v, proofs Elem/WireRunBridge.v) prove the automaton's WInit / "
                "WGet / WTimer steps equal to the generated functions, with exactly the draws the code consumes; that the kernel "
                "resumes the generator exactly at these steps stays with the per-run correspondence"],
        "C08": ["packet identity is the Python object identity recorded by the harness taps (uid = creation index)"],
    }
    assumptions = {
        "C10": ["'with probability p' is read as: lost iff the uniform draw is < loss_rate (definition of a uniform draw); "
                "independence of the draws is a property of `random`, not of the wire",
                "admissibility of the observed executions (the kernel runs everything due at an instant before the clock moves) is "
                "checked on every observed execution, proved for the kernel model under C01"],
        "C08": [],
    }
    partial = {"C10": ["the theorems of Props/C10.v quantify over a loss rate fixed for the whole execution; reconfiguration between "
                       "packets (loss_rate / delay_dist / out assigned while packets are inside) is covered by the per-action "
                       "correspondence (wire_agree_cfg: the loss rate in force at each action) and by the monitor, not by a theorem"]}

    # ---- generation ---------------------------------------------------------------------------------
    def _delays(self, rng, n, style=None):
        style = style or rng.choice(["const", "decr", "zero", "rand", "rand"])
        if style == "const":
            delays = [rng.choice(DELAY_LATTICE[1:])] * n
        elif style == "decr":
            delays = sorted((rng.choice(DELAY_LATTICE) for _ in range(n)), reverse=True)
        elif style == "zero":
            delays = [F(0)] * n
        else:
            delays = [rng.choice(DELAY_LATTICE) for _ in range(n)]
        return delays, style

    def _draws(self, rng, n):
        delays, style = self._delays(rng, n)
        loss = rng.choice(LOSSES)
        uniforms = [rng.choice(UNIFORMS) for _ in range(n)]
        return ([cf.qjson(d) for d in delays], None if loss is None else cf.qjson(loss), [cf.qjson(u) for u in uniforms], style)

    @staticmethod
    def _burst_workload(rng, flows, k, src="src0"):
        """k packets put at instant 0 in one burst, then 0-2 single packets later"""
        packets, uid = {}, 0
        bursts = [["0", list(range(k))]]
        t = F(0)
        for i in range(k):
            packets[str(i)] = {"id": i + 1, "flow": rng.choice(list(flows)), "size": rng.choice([64, 512, 1500]), "time": "0", "src": src}
        for j in range(rng.randint(0, 2)):
            t = t + rng.choice(ec.LATTICE[1:])
            packets[str(k + j)] = {"id": k + j + 1, "flow": rng.choice(list(flows)), "size": 256, "time": cf.qjson(t), "src": src}
            bursts.append([cf.qjson(t), [k + j]])
        return {"packets": packets, "drivers": [{"late": rng.choice([0, 0, 1, 2]), "bursts": bursts}]}

    def gen_case(self, rng, tier, prop_id=None):
        r = rng.random()
        config = rng.choices(["ctor", "assign", "bare"], weights=[72, 16, 12])[0]
        canary = rng.random() < 0.08
        if r < 0.22:
            both = rng.random() < 0.4
            if both:
                w1 = self._burst_workload(rng, (0, 1), rng.randint(2, 4))
                w2 = _offset(self._burst_workload(rng, (1, 2), rng.randint(2, 4)), len(w1["packets"]))
            else:
                w1 = ec.gen_workload(rng, flows=(0, 1), n_max=6)
                w2 = _offset(ec.gen_workload(rng, flows=(1, 2), n_max=6), len(w1["packets"]))
            n = len(w1["packets"]) + len(w2["packets"])
            delays, loss, uniforms, style = self._draws(rng, n)
            if both:                                    # the first packet of each direction propagates while the rest queue up
                delays[0] = delays[1] = "4"
                if loss is not None and F(loss) > 0:
                    uniforms[0] = uniforms[1] = "1"
            return {"kind": "cable", "workload": w1, "workload2": w2, "delays": delays, "loss": loss, "uniforms": uniforms,
                    "style": style, "pre": rng.random() < 0.3, "config": config, "canary": canary, "both": both}
        if r < 0.34:
            shape = rng.choice(["hub", "chain", "hubfwd", "hubfwd"])
            nw = {"hub": 3, "chain": 2, "hubfwd": 4}[shape]
            w = ec.gen_workload(rng, flows=(0, 1, 2), n_max=6)
            if shape != "chain":
                for sp in w["packets"].values():
                    sp["src"] = rng.choice(["e0", "e1", "e2"])
            n = len(w["packets"])
            loss = rng.choice(LOSSES)
            dl = []
            for _ in range(nw):
                d, _st = self._delays(rng, n)
                dl.append([cf.qjson(x) for x in d])
            return {"kind": "multi", "shape": shape, "workload": w, "delays": dl, "loss": None if loss is None else cf.qjson(loss),
                    "uniforms": [cf.qjson(rng.choice(UNIFORMS)) for _ in range(3 * n)], "style": "rand",
                    "pre": rng.random() < 0.3, "config": rng.choice(["ctor", "ctor", "assign", "bare"]), "canary": canary}
        w = ec.gen_workload(rng, flows=(0, 1, 2), n_max=10)
        n = len(w["packets"])
        extra = 0
        case = {"kind": "wire", "workload": w, "pre": rng.random() < 0.3, "config": config, "canary": canary}
        if rng.random() < 0.25:
            case["until"] = cf.qjson(rng.choice([F(1, 2), F(1), F(2), F(3), F(5), F(8)]))
        reput = []
        if rng.random() < 0.2:
            uids = sorted(int(u) for u in w["packets"])
            reput = [[rng.choice(uids) for _ in range(rng.randint(1, 2))] for _ in range(rng.randint(1, 2))]
            extra = sum(len(b) for b in reput)
        delays, loss, uniforms, style = self._draws(rng, n + extra)
        case.update({"delays": delays, "loss": loss, "uniforms": uniforms, "style": style})
        if rng.random() < 0.15:
            db, _st = self._delays(rng, n + extra, "rand")
            case["delays_b"] = [cf.qjson(x) for x in db]
            times = rng.sample([F(1, 2), F(1), F(3, 2), F(2), F(3), F(5)], rng.randint(1, 2))
            rc = []
            for t in sorted(times):
                what = rng.choice(["loss", "loss", "delays", "out"])
                if what == "loss":
                    val = rng.choice([x for x in LOSSES if (None if x is None else cf.qjson(x)) != loss])
                    rc.append({"t": cf.qjson(t), "late": rng.choice([0, 1, 2]), "set": {"loss": None if val is None else cf.qjson(val)}})
                elif what == "delays":
                    rc.append({"t": cf.qjson(t), "late": rng.choice([0, 1, 2]), "set": {"delays": "B"}})
                else:
                    rc.append({"t": cf.qjson(t), "late": rng.choice([0, 1, 2]), "set": {"out": "out2"}})
            case["reconf"] = rc
        if reput:
            # the SAME Packet objects enter the wire again (a retransmission): at any time, also while an earlier traversal of
            # the object is still waiting in the store or propagating (each traversal has its own entry instant: fix 965d42d)
            times = sorted(F(t) for d in w["drivers"] for (t, _) in d["bursts"])
            bound = sum(max(F(a), F(b)) for a, b in zip(delays, case.get("delays_b", delays)))
            t, bursts = rng.choice(times), []
            for b in reput:
                t = (times[-1] + bound + 1) if rng.random() < 0.2 else t + rng.choice(ec.LATTICE[1:6])
                bursts.append([cf.qjson(t), b])
            bursts.sort(key=lambda x: F(x[0]))
            w["drivers"].append({"late": rng.choice([0, 1, 2]), "bursts": bursts, "reput": True})
        return case

    # ---- implementation -----------------------------------------------------------------------------
    def run_impl(self, case):
        from onl.sim import Environment
        import onl.netdev.wire as wmod
        env = Environment()
        h = ec.Harness(env)
        if case["kind"] == "multi":
            scripts = {f"w{i + 1}": Script(dl) for i, dl in enumerate(case["delays"])}
        else:
            scripts = {"A": Script(case["delays"]), "B": Script(case.get("delays_b", []))}
        S = {"scripts": scripts, "unis": Script(case["uniforms"]), "decoy": Decoy(), "epoch": 0,
             "loss": _loss_val(case["loss"]), "config": case.get("config", "ctor")}
        unis = S["unis"]

        class FakeRandom:
            uniform = staticmethod(unis.uniform)
        saved = wmod.random
        wmod.random = FakeRandom
        try:
            obs = getattr(self, "_run_" + case["kind"])(case, env, h, wmod, S)
        finally:
            wmod.random = saved
        if case.get("canary"):
            obs["canary"] = run_canary(wmod)
        return obs

    @staticmethod
    def _sampler(h, S, wires):
        def sample():
            nd = {k: s.n for k, s in S["scripts"].items()}
            nd["decoy"] = S["decoy"].n
            return {"w": [[w.packets_rec, len(w.store.items)] for w in wires], "ep": S["epoch"], "nd": nd, "u": S["unis"].n}
        h.after_action(sample)

    @staticmethod
    def _final(wires):
        return {"stores": [[getattr(_entry_pkt(p), "uid", None) for p in w.store.items] for w in wires],
                "packets_rec": [w.packets_rec for w in wires]}

    def _run_wire(self, case, env, h, wmod, S):
        w = case["workload"]
        h.add_packets(w["packets"])

        def drivers():
            for d in w["drivers"]:
                h.add_driver(d["bursts"], late=d["late"])
        if case.get("pre"):
            drivers()
        wire = _build(wmod, env, "wire", S["config"], S["scripts"]["A"], S["loss"], S["decoy"])
        taps = {"out": HTap(h, "out"), "out2": HTap(h, "out2")}
        for t in taps.values():
            t.feeder = wire
        wire.out = taps["out"]
        h.attach(wire)
        h.watch_store("store", wire.store)
        self._sampler(h, S, [wire])

        def apply(st):
            if "loss" in st:
                wire.loss_rate = _loss_val(st["loss"])
            if "delays" in st:
                wire.delay_dist = S["scripts"][st["delays"]]
            if "out" in st:
                wire.out = taps[st["out"]]
            S["epoch"] += 1

        def reconf(t, late, st):
            d = ec.T(t) - env.now
            if d > 0:
                yield env.timeout(d)
            for _ in range(late):
                yield env.timeout(0)
            apply(st)
        for rc in case.get("reconf", []):
            h.driver_procs.add(env.process(reconf(rc["t"], rc["late"], rc["set"])))
        if not case.get("pre"):
            drivers()
        until = ec.T(case["until"]) if case.get("until") is not None else None
        log = h.run(until=until)
        return {"log": log, "raised": h.raised, "exhausted": h.exhausted, "final": self._final([wire])}

    def _run_cable(self, case, env, h, wmod, S):
        w1, w2 = case["workload"], case["workload2"]
        h.add_packets(w1["packets"])
        h.add_packets(w2["packets"])
        dev1, dev2 = HTap(h, "dev1"), HTap(h, "dev2")
        via = {1: Via(dev1), 2: Via(dev2)}

        def drivers():
            for d in w1["drivers"]:
                h.add_driver(d["bursts"], late=d["late"], target=via[1])
            for d in w2["drivers"]:
                h.add_driver(d["bursts"], late=d["late"], target=via[2])
        if case.get("pre"):
            drivers()
        cable = _build(wmod, env, "cable", S["config"], S["scripts"]["A"], S["loss"], S["decoy"])
        cable.set_endpoints(dev1, dev2)
        names = {id(dev1): "Dev1", id(dev2): "Dev2", id(cable.wire1): "NW1", id(cable.wire2): "NW2"}
        wiring = [[n, names.get(id(getattr(o, "out", None)), "none")] for n, o in
                  (("Dev1", dev1), ("NW1", cable.wire1), ("Dev2", dev2), ("NW2", cable.wire2))]
        disjoint = (cable.wire1 is not cable.wire2 and cable.wire1.store is not cable.wire2.store
                    and cable.wire1.action is not cable.wire2.action
                    and cable.wire1.store.items is not cable.wire2.store.items)
        if any(b == "none" for _, b in wiring) or len(names) != 4:
            return {"log": [], "raised": None, "exhausted": False, "wiring": wiring, "disjoint": disjoint, "final": None}
        dev2.feeder, dev1.feeder = cable.wire1, cable.wire2
        cable.wire1.action._generator.__name__ = "run1"
        cable.wire2.action._generator.__name__ = "run2"
        h.attach(cable.wire1)
        h.watch_store("store1", cable.wire1.store)
        h.watch_store("store2", cable.wire2.store)
        self._sampler(h, S, [cable.wire1, cable.wire2])
        if not case.get("pre"):
            drivers()
        log = h.run()
        return {"log": log, "raised": h.raised, "exhausted": h.exhausted, "wiring": wiring, "disjoint": disjoint,
                "final": self._final([cable.wire1, cable.wire2])}

    def _run_multi(self, case, env, h, wmod, S):
        w = case["workload"]
        h.add_packets(w["packets"])
        hub_shape = case["shape"] in ("hub", "hubfwd")
        nw = self._nwires(case)
        target = Via(None)

        def drivers():
            for d in w["drivers"]:
                h.add_driver(d["bursts"], late=d["late"], target=target)
        if case.get("pre"):
            drivers()
        wires = [_build(wmod, env, "wire", S["config"], S["scripts"][f"w{i + 1}"], S["loss"], S["decoy"]) for i in range(nw)]
        if hub_shape:
            from onl.netdev.hub import Hub
            eps = [HTap(h, f"e{i}") for i in range(3)]
            hub = Hub(env, eps, wires[:3])          # one Packet object is put into every wire but the sender's
            for e, wi in zip(eps, wires):
                e.feeder = wi
            entry = hub
            wiring_ok = all(wi.out is e for e, wi in zip(eps, wires)) and all(e.out is hub for e in eps)
            if case["shape"] == "hubfwd":           # endpoint e1 forwards what it receives into a further wire
                far = HTap(h, "far")
                far.feeder = wires[3]
                wires[3].out = far
                eps[1].nxt = wires[3]
        else:
            out = HTap(h, "out")
            mid = HTap(h, "mid", nxt=wires[1])      # wire1 -> (relay) -> wire2 -> out: two traversals in sequence
            mid.feeder, out.feeder = wires[0], wires[1]
            wires[0].out, wires[1].out = mid, out
            entry = wires[0]
            wiring_ok = True

        class Entry:
            out = entry
        target.dev = Entry
        for i, wi in enumerate(wires):
            wi.action._generator.__name__ = f"run{i + 1}"
            h.watch_store(f"store{i + 1}", wi.store)
        h.attach(entry)
        self._sampler(h, S, wires)
        if not case.get("pre"):
            drivers()
        log = h.run()
        return {"log": log, "raised": h.raised, "exhausted": h.exhausted, "wiring_ok": wiring_ok, "final": self._final(wires)}

    # ---- what the case says about topology and configuration ----------------------------------------------
    @staticmethod
    def _specs(case):
        s = dict(case["workload"]["packets"])
        if case["kind"] == "cable":
            s.update(case["workload2"]["packets"])
        return s

    @staticmethod
    def _nwires(case):
        return {"wire": 1, "cable": 2}.get(case["kind"]) or {"hub": 3, "chain": 2, "hubfwd": 4}[case["shape"]]

    @staticmethod
    def _feeds(case):
        """tap tag -> wire the tap forwards the very same object into"""
        if case["kind"] != "multi":
            return {}
        return {"chain": {"mid": 1}, "hubfwd": {"e1": 3}}.get(case["shape"], {})

    @staticmethod
    def _cfgs(case):
        """configuration in force per epoch (epoch = number of reconfigurations applied so far)"""
        cur = {"loss": case["loss"], "delays": "A", "out": "out"}
        out = [dict(cur)]
        for rc in sorted(case.get("reconf", []), key=lambda r: F(r["t"])):
            cur.update(rc["set"])
            out.append(dict(cur))
        return out

    def _receivers(self, case, uid):
        k = case["kind"]
        if k == "wire":
            return [0]
        if k == "cable":
            return [0] if str(uid) in case["workload"]["packets"] else [1]
        if case["shape"] == "chain":
            return [0]
        src = case["workload"]["packets"][str(uid)]["src"]
        return [i for i in range(3) if f"e{i}" != src]

    def _downstream(self, case, i, cfg):
        """tag of the tap that wire i hands its packets to"""
        k = case["kind"]
        if k == "wire":
            return cfg["out"]
        if k == "cable":
            return ["dev2", "dev1"][i]
        if case["shape"] == "chain":
            return ["mid", "out"][i]
        return f"e{i}" if i < 3 else "far"

    def _script_of(self, case, i, cfg):
        return f"w{i + 1}" if case["kind"] == "multi" else cfg["delays"]

    @staticmethod
    def _label_wire(tgt):
        """'store' / 'run' -> 0; 'store2' / 'run2' -> 1 ..."""
        base = tgt.rstrip("0123456789")
        return base, (int(tgt[len(base):]) - 1 if len(tgt) > len(base) else 0)

    # ---- log -> model actions (what the implementation DID: draws as counted by the scripts) ----------------
    STEPS = {("Initialize", "run"): "WInit", ("StorePut", "store"): "WStoreCb", ("StoreGet", "store"): "get", ("Timeout", "run"): "WTimer"}

    def _actions(self, case, obs):
        specs = self._specs(case)
        cable = case["kind"] == "cable"
        nw = self._nwires(case)
        cfgs = self._cfgs(case)
        vals = {"A": case["delays"], "B": case.get("delays_b", [])} if case["kind"] != "multi" else \
               {f"w{i + 1}": dl for i, dl in enumerate(case["delays"])}
        rows = [[] for _ in range(nw)]       # per wire: (loss, action, outs, rec, len)
        crows = []                           # cable: global rows
        prev = {"nd": {k: 0 for k in vals}, "u": 0}
        prev["nd"]["decoy"] = 0

        def pk(uid):
            return ec.pkt_coq(specs[str(uid)], uid)
        for e in obs["log"]:
            kind, smp = e[0], e[-1]
            if smp["ep"] >= len(cfgs):
                return None, "more reconfigurations applied than the case contains"
            cfg = cfgs[smp["ep"]]
            loss = cf.opt(cfg["loss"], cf.q)
            per = {}                          # wire -> (action, outs)
            if kind == "adv":
                for i in range(nw):
                    per[i] = (f"WAdvance {cf.q(e[1])}", [])
                cact = f"CAdvance {cf.q(e[1])}"
                couts = []
            elif kind == "put":
                if e[2]:
                    return None, "a delivery inside put()"
                for i in self._receivers(case, e[1]):
                    per[i] = (f"WPut {pk(e[1])}", [])
                cact, couts = (f"CA D{self._receivers(case, e[1])[0] + 1} (WPut {pk(e[1])})", []) if cable else (None, [])
            elif kind == "step":
                (tn, tgt), outs = e[1], e[2]
                base, i = self._label_wire(tgt)
                wa = self.STEPS.get((tn, base))
                if wa is None or i >= nw:
                    return None, f"unexpected kernel step {e[1]}"
                if wa == "get":
                    du = smp["u"] - prev["u"]
                    dd = {k: smp["nd"][k] - prev["nd"][k] for k in smp["nd"]}
                    used = [k for k, v in dd.items() if v]
                    if du > 1 or sum(dd.values()) > 1 or "decoy" in used:
                        return None, f"draws in one step: uniform {du}, delay {dd}"
                    u = case["uniforms"][prev["u"]] if du else None
                    d = vals[used[0]][prev["nd"][used[0]]] if used else None
                    wa = f"WGet {cf.opt(u, cf.q)} {cf.opt(d, cf.q)}"
                own = [o for o in outs if o[0] == "out" and o[1] == self._downstream(case, i, cfg)]
                if len(own) != len([o for o in outs if o[0] == "out"]):
                    return None, f"a delivery to an unexpected next hop in {e[:2]}"
                per[i] = (wa, own)
                for o in own:
                    j = self._feeds(case).get(o[1])
                    if j is not None:
                        per[j] = (f"WPut {pk(o[2])}", [])
                cact = f"CA D{i + 1} ({wa})"
                couts = own
            else:
                return None, f"unexpected log entry {e[:2]}"
            if kind != "step" or e[1][0] != "StoreGet":
                if smp["u"] != prev["u"] or any(smp["nd"][k] != prev["nd"][k] for k in smp["nd"]):
                    return None, f"draws consumed outside a StoreGet step ({e[:2]})"
            prev = {"nd": dict(smp["nd"]), "u": smp["u"]}
            for i, (a, outs) in per.items():
                o = cf.lst([f"ODeliver {pk(x[2])}" for x in outs])
                rows[i].append(f"({loss}, ({a}, {o}, ({cf.z(smp['w'][i][0])}, {cf.nat(smp['w'][i][1])})))")
            if cable:
                o = cf.lst([f"({TAPNODE.get(x[1], 'NW1')}, ODeliver {pk(x[2])})" for x in couts])
                s1, s2 = smp["w"]
                crows.append(f"({cact}, {o}, (({cf.z(s1[0])}, {cf.nat(s1[1])}), ({cf.z(s2[0])}, {cf.nat(s2[1])})))")
        return (rows, crows), None

    def agree_term(self, case, obs):
        if obs["raised"]:
            return "false"
        if obs.get("final") is None:
            return "false (* set_endpoints left an out pointer unset *)"
        res, err = self._actions(case, obs)
        if res is None:
            return f"false (* {err} *)"
        rows, crows = res
        sep = ";" + chr(10) + "    "
        if case["kind"] == "cable":
            if any(b not in NODES for _, b in obs["wiring"]):
                return "false (* set_endpoints left an out pointer unset *)"
            wiring = cf.lst([f"({a}, {b})" for a, b in obs["wiring"]])
            per = " && ".join(f"wire_agree_cfg (wire0 0) {cf.lst(r, sep=sep)}" for r in rows)
            return (f"wiring_agree {wiring} && {cf.b(bool(obs['disjoint']))} && "
                    f"cable_agree {cf.opt(case['loss'], cf.q)} (cable0 0) {cf.lst(crows, sep=sep)} && {per}")
        if case["kind"] == "multi" and not obs.get("wiring_ok"):
            return "false (* hub wiring *)"
        return " && ".join(f"wire_agree_cfg (wire0 0) {cf.lst(r, sep=sep)}" for r in rows)

    def model_term(self, case):
        return None

    # ---- the property as an oracle over the implementation's behaviour ----------------------------------
    def _walk(self, case, obs):
        """One pass over the implementation log.  Per wire: arrivals [(uid, instant)], dequeues [(instant, (u, d), loss in
        force)], deliveries [(uid, instant, tap, fields, same, probe, expected tap, puts so far, dequeues so far)].
        Draws are attributed by the DOCUMENTED rule in global consumption order: a uniform only when the loss_rate in force is
        truthy, then a delay from the delay_dist in force only when the packet is kept."""
        nw = self._nwires(case)
        cfgs = self._cfgs(case)
        us = [F(x) for x in case["uniforms"]]
        if case["kind"] == "multi":
            vals = {f"w{i + 1}": [F(x) for x in dl] for i, dl in enumerate(case["delays"])}
        else:
            vals = {"A": [F(x) for x in case["delays"]], "B": [F(x) for x in case.get("delays_b", [])]}
        W = [{"arr": [], "deq": [], "del": []} for _ in range(nw)]
        msgs = []
        now = F(0)
        iu = 0
        nd = {k: 0 for k in vals}
        prev_w = [[0, 0] for _ in range(nw)]
        feeds = self._feeds(case)
        last_put = {}                                  # uid -> instant the object last entered ANY wire (packet.current_time)
        for e in obs["log"]:
            smp = e[-1]
            cfg = cfgs[min(smp["ep"], len(cfgs) - 1)]
            if e[0] == "adv":
                t = F(e[1])
                if t <= now:
                    msgs.append("wire-time-decreases: the clock did not move forward")
                now = t
                touched = []
            elif e[0] == "put":
                touched = self._receivers(case, e[1])
                for i in touched:
                    W[i]["arr"].append((e[1], now))
                last_put[e[1]] = now
            elif e[0] == "step":
                base, i = self._label_wire(e[1][1])
                i = min(i, nw - 1)
                touched = [i]
                if e[1][0] == "StoreGet":
                    loss = None if cfg["loss"] is None else F(cfg["loss"])
                    u = dd = None
                    if loss:
                        u = us[iu] if iu < len(us) else None
                        iu += 1
                    if not (loss and u is not None and u < loss):
                        sn = self._script_of(case, i, cfg)
                        dd = vals[sn][nd[sn]] if nd[sn] < len(vals[sn]) else F(0)
                        nd[sn] += 1
                    if len(W[i]["deq"]) >= len(W[i]["arr"]):
                        msgs.append(f"wire-invented: wire {i + 1} dequeues a packet that was never put in")
                    W[i]["deq"].append((now, (u, dd), loss))
                for o in e[2]:
                    if o[0] != "out":
                        continue
                    probe = o[5] if len(o) > 5 else None
                    W[i]["del"].append((o[2], now, o[1], o[3], o[4], probe, self._downstream(case, i, cfg),
                                        len(W[i]["arr"]), len(W[i]["deq"]), last_put.get(o[2])))
                    j = feeds.get(o[1])
                    if j is not None:
                        W[j]["arr"].append((o[2], now))
                        last_put[o[2]] = now
                        touched.append(j)
            else:
                continue
            got = {k: smp["nd"].get(k) for k in nd}
            if smp["u"] != iu or got != nd or smp["nd"].get("decoy"):
                msgs.append(f"wire-draws: after {e[:2]} the wire has consumed {smp['u']} uniform draws and delay draws {smp['nd']}; the "
                            f"documented rule (uniform only when the loss_rate in force is truthy, then one delay from the delay_dist "
                            f"in force only for a kept packet; never from a replaced delay_dist) gives {iu} and {nd}")
                iu = smp["u"]
                nd = {k: smp["nd"].get(k, 0) for k in nd}
            for i in range(nw):
                if i not in touched and smp["w"][i] != prev_w[i]:
                    msgs.append(f"wire-interference: {e[:2]} does not concern wire {i + 1} but changed its (packets_rec, len(store)) "
                                f"from {prev_w[i]} to {smp['w'][i]}")
            prev_w = [list(x) for x in smp["w"]]
        return W, msgs

    def monitor(self, case, obs, prop_id):
        if obs["raised"]:
            return [f"wire-raises: {obs['raised']}"]
        kind = case["kind"]
        msgs = []
        cn = obs.get("canary")
        if cn is not None and cn != CANARY_EXPECT:
            msgs.append(f"wire-canary: after this case the fixed canary scenario (fresh Environment, Wire and Cable) observed {cn}, "
                        f"known observation {CANARY_EXPECT}: state leaks across instances or runs")
        if kind == "cable":
            want = [["Dev1", "NW1"], ["NW1", "Dev2"], ["Dev2", "NW2"], ["NW2", "Dev1"]]
            if obs["wiring"] != want:
                msgs.append(f"cable-wiring: set_endpoints gives out pointers {obs['wiring']}, expected dev1->wire1->dev2, dev2->wire2->dev1")
            if not obs["disjoint"]:
                msgs.append("cable-shared-state: the two wires of the cable share a wire, store, item list or process")
            if obs["final"] is None:
                return msgs[:3]
        W, wmsgs = self._walk(case, obs)
        specs = self._specs(case)
        for i, D in enumerate(W):
            arr, deq = D["arr"], D["deq"]
            rec = _recurrence(arr, deq)
            exp = [(uid, T) for (uid, a, s, lost, T) in rec if not lost]
            nlost = {}
            for (uid, a, s, lost_, T) in rec:
                if lost_:
                    nlost[uid] = nlost.get(uid, 0) + 1
            got = [(x[0], x[1]) for x in D["del"]]
            tag = f"wire {i + 1}: " if len(W) > 1 else ""
            if prop_id == "C10":
                msgs.extend(m for m in wmsgs if m not in msgs)
                # the delivery-time law, FIFO, loss iff u < rate: delivered (uid, instant) = the recurrence's, minus at most
                # the one still propagating when the run stopped
                if obs["exhausted"]:
                    if got != exp:
                        msgs.append(f"wire-delivery: {tag}delivered (uid,time) {[(u, str(t)) for u, t in got][:8]} expected "
                                    f"{[(u, str(t)) for u, t in exp][:8]} (max(a+d, previous delivery), FIFO, lost iff u < loss_rate)")
                elif not (got == exp or (exp and got == exp[:-1] and len(rec) and rec[-1][0] == exp[-1][0])):
                    msgs.append(f"wire-delivery: {tag}delivered {[(u, str(t)) for u, t in got][:8]} is not the expected "
                                f"{[(u, str(t)) for u, t in exp][:8]} minus at most the packet still propagating")
                # dequeue instants: packet k is taken at max(a_k, completion of packet k-1); a lost packet delays nobody
                for (uid, a, s, lost_, T), (tq, _, _) in zip(rec, deq):
                    if tq != s:
                        msgs.append(f"wire-dequeue-instant: {tag}packet {uid} (arrived {a}) dequeued at {tq}, expected {s} "
                                    "= max(arrival, instant the server finished the previous packet)")
                        break
                for x in D["del"]:
                    if x[2] != x[6]:
                        msgs.append(f"{'cable-crossed' if kind == 'cable' else 'wire-wrong-next-hop'}: {tag}packet {x[0]} came out at "
                                    f"{x[2]}, expected {x[6]} (the `out` in force when it is handed over)")
                        break
            # what the next hop sees of the wire from inside its put()
            for x in D["del"]:
                pr = x[5]
                if pr is None:
                    continue
                a_k = x[9]                                 # packet.current_time: one stamp per object = its LAST entry into a wire
                bad = []
                if pr[0] != x[7]:
                    bad.append(f"packets_rec = {pr[0]} after {x[7]} put() calls")
                if pr[1] != x[7] - x[8]:
                    bad.append(f"len(store.items) = {pr[1]} with {x[7]} packets put and {x[8]} dequeued")
                queued = [u for u, _ in arr[x[8]:x[7]]].count(x[0])
                if pr[2] != queued:
                    bad.append(f"the packet handed over occurs {pr[2]} time(s) in store.items, {queued} later traversal(s) of it are queued")
                if a_k is not None and (pr[3] is None or F(pr[3]) != a_k):
                    bad.append(f"packet.current_time = {pr[3]}, the packet object last entered a wire at {a_k}")
                if not pr[4]:
                    bad.append("wire.out is not the object whose put() is being called")
                if bad:
                    msgs.append(f"wire-handoff: {tag}inside the next hop's put() for packet {x[0]} at {x[1]}: " + "; ".join(bad))
                    break
            if prop_id == "C08":
                # every traversal put in: delivered exactly once | lost by the documented rule | still held
                put = [u for u, _ in arr]
                gotu = [u for u, _ in got]
                for u in sorted(set(gotu)):
                    if u not in put:
                        msgs.append(f"wire-invented: {tag}packet {u} delivered but never put in")
                    elif gotu.count(u) + nlost.get(u, 0) > put.count(u):
                        msgs.append(f"wire-duplicated: {tag}packet {u} put in {put.count(u)} time(s), delivered {gotu.count(u)} time(s), "
                                    f"lost by the rule {nlost.get(u, 0)} time(s)")
                store = obs["final"]["stores"][i]
                taken = len(deq)
                kept = [uid for (uid, a, s, lost_, T) in rec if not lost_]
                if obs["exhausted"]:
                    if taken != len(put) or store or gotu != kept:
                        msgs.append(f"wire-not-drained: {tag}simulation ran out of events: {len(put)} packets put in, {taken} dequeued, "
                                    f"delivered {gotu}, to be delivered {kept}, store holds {store}")
                else:
                    inside = put[taken:]                       # not yet dequeued: must be exactly the store, in order
                    if store != inside:
                        msgs.append(f"wire-store-content: {tag}store holds {store}, expected the not yet dequeued packets {inside} in order")
                    if not (gotu == kept or (kept and gotu == kept[:-1] and rec[-1][0] == kept[-1] and not rec[-1][3])):
                        msgs.append(f"wire-vanished: {tag}dequeued and kept {kept}, delivered {gotu}: more than the one in service is missing")
                # per-flow order (positional: the deliveries are the kept traversals in arrival order)
                flows = {}
                for u in put:
                    flows.setdefault(specs[str(u)]["flow"], []).append(u)
                for f, seq in flows.items():
                    outf = [u for u in gotu if specs.get(str(u), {}).get("flow") == f]
                    it = iter(seq)
                    if not all(any(x == u for x in it) for u in outf):
                        msgs.append(f"wire-flow-order: {tag}flow {f} entered as {seq} and left as {outf}")
            # identity and header fields (both properties: 'the very same packet')
            for x in D["del"]:
                uid, fields, same = x[0], x[3], x[4]
                sp = specs.get(str(uid))
                if sp is None:
                    continue
                if (not same or fields[:2] != [sp["id"], sp["flow"]] or fields[2] != str(sp.get("src", "s")) or fields[3] != sp["size"]
                        or F(fields[4]) != F(sp["time"]) or fields[5] != sp.get("payload")):
                    msgs.append(f"wire-packet-altered: {tag}packet {uid} delivered as {fields} same-object={same}")
                    break
            # the public counter
            nrec = obs["final"]["packets_rec"][i]
            if nrec != len(arr):
                msgs.append(f"wire-counter: {tag}packets_rec = {nrec} after {len(arr)} put() calls")
        if kind == "multi" and not obs.get("wiring_ok"):
            msgs.append("hub-wiring: Hub(env, endpoints, ports) did not point every port at its endpoint and every endpoint at the hub")
        return msgs[:4]

    def nontrivial(self, case, obs, prop_id=None):
        n = len(self._specs(case))
        if n < 3 or obs.get("raised") or obs.get("final") is None:
            return False
        W, _ = self._walk(case, obs)
        for D in W:
            for (uid, a), (tq, _, _) in zip(D["arr"], D["deq"]):
                if a < tq:
                    return True
        return False

    def shrink(self, case):
        for w in ec.shrink_workload(case["workload"]):
            if w["packets"] or case["kind"] == "cable":
                yield {**case, "workload": w}
        if case["kind"] == "cable":
            for w in ec.shrink_workload(case["workload2"]):
                yield {**case, "workload2": w}
        if case["loss"] is not None:
            yield {**case, "loss": None}
        for k in ("until", "reconf", "canary"):
            if case.get(k):
                yield {kk: v for kk, v in case.items() if kk != k}
        if len(case.get("reconf", [])) > 1:
            for j in range(len(case["reconf"])):
                yield {**case, "reconf": case["reconf"][:j] + case["reconf"][j + 1:]}
        if case.get("config", "ctor") != "ctor":
            yield {**case, "config": "ctor"}
        if case.get("pre"):
            yield {**case, "pre": False}

    def describe(self, case, obs):
        k = case["kind"]
        n = len(self._specs(case))
        keys = [k, f"{k}:loss={case['loss']}", f"{k}:packets={min(n, 12)}", f"{k}:delays={case.get('style', '?')}",
                f"{k}:config={case.get('config', 'ctor')}"]
        if k == "wire":
            keys.append("wire:drivers=%d" % len(case["workload"]["drivers"]))
            keys.append("wire:stopped-early" if case.get("until") is not None and not obs.get("exhausted") else "wire:ran-to-quiescence")
            for rc in case.get("reconf", []):
                keys.append("wire:reconfigured-between-packets:" + "/".join(sorted(rc["set"])))
            if any(d.get("reput") for d in case["workload"]["drivers"]):
                keys.append("wire:same-packet-object-re-enters")
        if k == "multi":
            keys.append("multi:" + case["shape"])
        if k == "cable" and obs.get("log"):
            if any(e[-1]["w"][0][1] > 0 and e[-1]["w"][1][1] > 0 for e in obs["log"]):
                keys.append("cable:both-directions-queued-at-once")
        if case.get("canary"):
            keys.append("canary-after-case")
        if case.get("pre"):
            keys.append(k + ":drivers-created-before-element")
        return keys


PART = WirePart()
