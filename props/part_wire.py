"""Part 'wire' -- Wire and Cable (onl/netdev/wire.py).
Serves C10 (delivery-time law, FIFO, loss only by rate, cable = two independent wires) and the wire's share
of C08 (conservation, identity, per-flow order, drained).  Models: coq/Elem/Wire.v, coq/Elem/Cable.v.

kinds:  'wire'   one Wire, scripted delay_dist and random.uniform, bursty arrivals from 1-3 drivers; optionally
                 stopped early (case["until"]) so that packets are still held when the run stops
        'cable'  a real Cable between two devices, traffic in both directions at once; both wires share the same
                 delay_dist callable and the same `random`, so the scripted draws are consumed in global order
"""
from fractions import Fraction

from vlib import coqfmt as cf
from props import elem_common as ec

F = Fraction
DELAY_LATTICE = [F(0), F(1, 4), F(1, 2), F(1), F(3, 2), F(2), F(4)]
UNIFORMS = [F(0), F(1, 8), F(1, 4), F(3, 8), F(1, 2), F(3, 4), F(1)]
NODES = ["Dev1", "NW1", "Dev2", "NW2"]
TAPNODE = {"dev1": "Dev1", "dev2": "Dev2"}


class Script:
    """scripted random source: delay_dist() and random.uniform(0,1) pop from the case's lists"""

    def __init__(self, vals):
        self.vals = [ec.T(v) for v in vals]
        self.n = 0

    def __call__(self, *a):
        v = self.vals[self.n]          # IndexError = the case did not provide enough draws (harness error)
        self.n += 1
        return v

    def uniform(self, a, b):
        return self()


class Via:
    """a device sending through whatever its `out` points to (resolved at send time)"""

    def __init__(self, dev):
        self.dev = dev

    def put(self, p):
        return self.dev.out.put(p)


def _loss_arg(case):
    loss = None if case["loss"] is None else ec.T(case["loss"])
    if isinstance(loss, float) and loss == int(loss):
        loss = int(loss)
    return loss


def _offset(w, k):
    """renumber the uids of a workload by +k (second direction of a cable)"""
    pk = {str(int(u) + k): {**s, "id": s["id"] + k} for u, s in w["packets"].items()}
    dr = [{"late": d["late"], "bursts": [[t, [u + k for u in uids]] for (t, uids) in d["bursts"]]} for d in w["drivers"]]
    return {"packets": pk, "drivers": dr}


def _recurrence(arrivals, draws, loss, t0=F(0)):
    """the property's recurrence for one wire.  arrivals [(uid, a)], draws: callable k -> (u or None, d or None) is
    NOT used: draws are supplied by next_u()/next_d() closures so that the caller decides the consumption order.
    Here: draws is a list of (u, d) already attributed to packets k = 0..len(draws)-1.
    -> list of (uid, a, s, lost, T or None)"""
    out = []
    Fk = t0
    for (uid, a), (u, d) in zip(arrivals, draws):
        s = max(a, Fk)
        if loss and u is not None and u < loss:
            out.append((uid, a, s, True, None))
            Fk = s
            continue
        tdel = a + d if s - a < d else s
        out.append((uid, a, s, False, tdel))
        Fk = tdel
    return out


# ------------------------------------------------------------------------------------------------
# second tie (DESIGN 2.6): Wire.put translated from the tree under test on every run (vlib/translate.py, fail closed)
# into coq/Gen/Extracted_wire.v; bridged to the WPut step of Elem/Wire.v by coq/Elem/WireBridge.v; obligations in
# Props/C10_Bridge.v.

WIRE_CONS = [("FxStampCurrent", "(t : Q)"),          # packet.current_time = t
             ("FxStorePut", "")]                     # self.store.put(packet)
WIRE_FX = [("packet.current_time = _1", "FxStampCurrent", ["Q"]), ("self.store.put(packet)", "FxStorePut", [])]
WIRE_READS = [("self.debug", "debug", "bool"), ("self.env.now", "now", "Q")]


def extracted_wire(repo):
    import os
    from vlib import translate as tr
    spec = tr.FnSpec(os.path.join(repo, "onl", "netdev", "wire.py"), "Wire", "put", "gen_Wire_put", reads=WIRE_READS,
                     effects=WIRE_FX)
    return tr.gen_module("onl/netdev/wire.py: Wire.put", "wire_st", "w_", [("packets_rec", "Z")], "wire_fx", WIRE_CONS, [spec])


# Wire.run, the server process, cut at its yields (vlib/translate_gen.py): Gen/Extracted_wire_run.v; bridged to the WInit /
# WGet u d / WTimer steps of Elem/Wire.v by coq/Elem/WireRunBridge.v; obligations in Props/C10_BridgeRun.v
WIRE_RUN_READS = [("self.loss_rate", "loss_rate", "optQ"),          # None | number: `not self.loss_rate`
                  ("self.env.now", "now", "Q"), ("env.now", "now", "Q"),
                  ("packet.current_time", "current_time", "Q"),
                  ("self.debug", "debug", "bool"),
                  ("self.out", "out_set", "optobj")]
WIRE_RUN_DRAWS = [("random.uniform(0, 1)", "u", "Q", "FxUniform"),  # consumed only where Python evaluates it
                  ("self.delay_dist()", "dd", "Q", "FxDelayDist")]
WIRE_RUN_FX = [("self.out.put(packet)", "FxOutPut", [])]
WIRE_RUN_FX_CONS = [("FxUniform", ""), ("FxDelayDist", ""), ("FxOutPut", "")]
WIRE_RUN_REQUESTS = [("self.store.get()", "RqStoreGet", [], "obj"),  # resumes with the packet
                     ("env.timeout(_1)", "RqTimeout", ["Q"], None),
                     ("self.env.timeout(_1)", "RqTimeout", ["Q"], None)]
WIRE_RUN_REQ_CONS = [("RqStoreGet", ""), ("RqTimeout", "(d : Q)")]


def extracted_wire_run(repo):
    import os
    from vlib import translate_gen as tg
    spec = tg.GenSpec(os.path.join(repo, "onl", "netdev", "wire.py"), "Wire", "run", "gen_Wire_run", reads=WIRE_RUN_READS,
                      draws=WIRE_RUN_DRAWS, effects=WIRE_RUN_FX, requests=WIRE_RUN_REQUESTS, objects=["packet"])
    return tg.gen_run_module("onl/netdev/wire.py: Wire.run", spec, [], None, "", "wire_run_fx", WIRE_RUN_FX_CONS,
                             WIRE_RUN_REQ_CONS, types="wire_run")


class WirePart:
    name = "wire"
    kinds = ["wire", "cable"]
    serves = ["C10", "C08"]
    coq_imports = ["From ONL Require Import Base.Cmp Elem.Packet Elem.StoreQ Elem.Wire Elem.Cable."]
    props_files = {"C10": ["Props/C10.v", "Props/C10_Bridge.v", "Props/C10_BridgeRun.v"], "C08": ["Props/C08_Wire.v"]}

    # ---- second tie: regenerate the translated body before the Coq build (fail closed) ----------------
    def pre_build(self, prop_id):
        if prop_id != "C10":
            return
        import os
        from vlib import framework as fw
        from vlib import translate as tr
        tr.write_if_changed(os.path.join(fw.COQ, "Gen", "Extracted_wire.v"), extracted_wire(fw.REPO))
        tr.write_if_changed(os.path.join(fw.COQ, "Gen", "Extracted_wire_run.v"), extracted_wire_run(fw.REPO))

    weight = 1
    nontrivial_rule = {
        "C10": ("kind 'wire' (70%): random bursty workloads from 1-3 driver processes on a dyadic time lattice (arrivals coincide "
                "with deliveries), delay scripts constant / decreasing / zero / random, loss rate None/0/0.25/0.5/1 with scripted "
                "uniform draws (values equal to the rate included), a quarter of the runs stopped early; kind 'cable' (30%): a real "
                "Cable with traffic in both directions, shared scripted draws; non-trivial = at least 3 packets and at least one "
                "packet dequeued later than it arrived (it waited behind an earlier one); distinct by hash of the case"),
        "C08": ("same case stream as C10; non-trivial = at least 3 packets and at least one packet waiting behind another; "
                "early-stopped runs exercise the 'still held' clause, exhausted runs the 'nothing held at quiescence' clause"),
    }
    trusted_base = {
        "C10": ["random.uniform and delay_dist are replaced by scripted sequences (the wire's own code is untouched)",
                "float rounding is outside the theorems: generated times/delays are dyadic so every float the wire computes is exact",
                "cable: the generator objects of the two run() processes are renamed run1/run2 so that the harness can tell their "
                "Initialize/Timeout events apart",
                "vlib/translate.py (Python ast, fail closed; tables above the part class in props/part_wire.py) regenerates "
                "coq/Gen/Extracted_wire.v from Wire.put of the tree under test before every build; C10_gen_wire_put "
                "(Props/C10_Bridge.v) bridges it to the WPut step of the hand-written model; print() calls are ignored",
                "vlib/translate_gen.py (same subset and tables, plus the cut of a generator body at its yields; tables "
                "WIRE_RUN_* in props/part_wire.py) regenerates coq/Gen/Extracted_wire_run.v from Wire.run before every build; the "
                "C10_gen_wire_run_* theorems (Props/C10_BridgeRun.v, proofs Elem/WireRunBridge.v) prove the automaton's WInit / "
                "WGet / WTimer steps equal to the generated functions, with exactly the draws the code consumes; that the kernel "
                "resumes the generator exactly at these steps stays with the per-run correspondence"],
        "C08": ["packet identity is the Python object identity recorded by the harness taps (uid = creation index)"],
    }
    assumptions = {
        "C10": ["'with probability p' is read as: lost iff the uniform draw is < loss_rate (definition of a uniform draw); "
                "independence of the draws is a property of `random`, not of the wire",
                "admissibility of the observed executions (the kernel runs everything due at an instant before the clock moves) is "
                "checked on every observed execution, proved for the kernel model under C01"],
        "C08": ["a packet object is put into a wire at most once while it is inside (Packet.current_time is a field of the packet)"],
    }
    partial = {}

    # ---- generation ---------------------------------------------------------------------------------
    def _draws(self, rng, n):
        style = rng.choice(["const", "decr", "zero", "rand", "rand"])
        if style == "const":
            delays = [rng.choice(DELAY_LATTICE[1:])] * n
        elif style == "decr":
            delays = sorted((rng.choice(DELAY_LATTICE) for _ in range(n)), reverse=True)
        elif style == "zero":
            delays = [F(0)] * n
        else:
            delays = [rng.choice(DELAY_LATTICE) for _ in range(n)]
        loss = rng.choice([None, None, 0, F(1, 4), F(1, 2), 1])
        uniforms = [rng.choice(UNIFORMS) for _ in range(n)]
        return ([cf.qjson(d) for d in delays], None if loss is None else cf.qjson(loss), [cf.qjson(u) for u in uniforms], style)

    def gen_case(self, rng, tier, prop_id=None):
        if rng.random() < 0.3:
            w1 = ec.gen_workload(rng, flows=(0, 1), n_max=6)
            w2 = _offset(ec.gen_workload(rng, flows=(1, 2), n_max=6), len(w1["packets"]))
            n = len(w1["packets"]) + len(w2["packets"])
            delays, loss, uniforms, style = self._draws(rng, n)
            return {"kind": "cable", "workload": w1, "workload2": w2, "delays": delays, "loss": loss, "uniforms": uniforms,
                    "style": style, "pre": rng.random() < 0.3}
        w = ec.gen_workload(rng, flows=(0, 1, 2), n_max=10)
        delays, loss, uniforms, style = self._draws(rng, len(w["packets"]))
        case = {"kind": "wire", "workload": w, "delays": delays, "loss": loss, "uniforms": uniforms, "style": style,
                "pre": rng.random() < 0.3}
        if rng.random() < 0.25:
            case["until"] = cf.qjson(rng.choice([F(1, 2), F(1), F(2), F(3), F(5), F(8)]))
        return case

    # ---- implementation -----------------------------------------------------------------------------
    def run_impl(self, case):
        from onl.sim import Environment
        import onl.netdev.wire as wmod
        env = Environment()
        h = ec.Harness(env)
        delays = Script(case["delays"])
        unis = Script(case["uniforms"])
        loss = _loss_arg(case)

        class FakeRandom:
            uniform = staticmethod(unis.uniform)
        saved = wmod.random
        wmod.random = FakeRandom
        try:
            if case["kind"] == "wire":
                return self._run_wire(case, env, h, wmod, delays, unis, loss)
            return self._run_cable(case, env, h, wmod, delays, unis, loss)
        finally:
            wmod.random = saved

    def _run_wire(self, case, env, h, wmod, delays, unis, loss):
        w = case["workload"]
        h.add_packets(w["packets"])
        if case.get("pre"):
            for d in w["drivers"]:
                h.add_driver(d["bursts"], late=d["late"])
        wire = wmod.Wire(env, delay_dist=delays, loss_rate=loss)
        wire.out = h.tap("out")
        h.attach(wire)
        h.watch_store("store", wire.store)
        h.after_action(lambda: [wire.packets_rec, len(wire.store.items), unis.n, delays.n])
        if not case.get("pre"):
            for d in w["drivers"]:
                h.add_driver(d["bursts"], late=d["late"])
        until = ec.T(case["until"]) if case.get("until") is not None else None
        log = h.run(until=until)
        return {"log": log, "raised": h.raised, "exhausted": h.exhausted,
                "final": {"store": [getattr(p, "uid", None) for p in wire.store.items], "packets_rec": wire.packets_rec}}

    def _run_cable(self, case, env, h, wmod, delays, unis, loss):
        w1, w2 = case["workload"], case["workload2"]
        h.add_packets(w1["packets"])
        h.add_packets(w2["packets"])
        dev1, dev2 = h.tap("dev1"), h.tap("dev2")
        dev1.out = dev2.out = None
        via = {1: Via(dev1), 2: Via(dev2)}

        def drivers():
            for d in w1["drivers"]:
                h.add_driver(d["bursts"], late=d["late"], target=via[1])
            for d in w2["drivers"]:
                h.add_driver(d["bursts"], late=d["late"], target=via[2])
        if case.get("pre"):
            drivers()
        cable = wmod.Cable(env, delay_dist=delays, loss_rate=loss)
        cable.set_endpoints(dev1, dev2)
        names = {id(dev1): "Dev1", id(dev2): "Dev2", id(cable.wire1): "NW1", id(cable.wire2): "NW2"}
        wiring = [[n, names.get(id(getattr(o, "out", None)), "none")] for n, o in
                  (("Dev1", dev1), ("NW1", cable.wire1), ("Dev2", dev2), ("NW2", cable.wire2))]
        disjoint = (cable.wire1 is not cable.wire2 and cable.wire1.store is not cable.wire2.store
                    and cable.wire1.action is not cable.wire2.action)
        if any(b == "none" for _, b in wiring) or len(names) != 4:
            return {"log": [], "raised": None, "exhausted": False, "wiring": wiring, "disjoint": disjoint, "final": None}
        cable.wire1.action._generator.__name__ = "run1"
        cable.wire2.action._generator.__name__ = "run2"
        h.attach(cable.wire1)
        h.watch_store("store1", cable.wire1.store)
        h.watch_store("store2", cable.wire2.store)
        w_1, w_2 = cable.wire1, cable.wire2
        h.after_action(lambda: [w_1.packets_rec, len(w_1.store.items), w_2.packets_rec, len(w_2.store.items), unis.n, delays.n])
        if not case.get("pre"):
            drivers()
        log = h.run()
        return {"log": log, "raised": h.raised, "exhausted": h.exhausted, "wiring": wiring, "disjoint": disjoint,
                "final": {"store1": [getattr(p, "uid", None) for p in w_1.store.items],
                          "store2": [getattr(p, "uid", None) for p in w_2.store.items],
                          "packets_rec": [w_1.packets_rec, w_2.packets_rec]}}

    # ---- log -> model actions -----------------------------------------------------------------------
    @staticmethod
    def _specs(case):
        s = dict(case["workload"]["packets"])
        if case["kind"] == "cable":
            s.update(case["workload2"]["packets"])
        return s

    def _actions(self, case, obs):
        specs = self._specs(case)
        cable = case["kind"] == "cable"
        dir_of = {}
        if cable:
            dir_of = {int(u): "D1" for u in case["workload"]["packets"]}
            dir_of.update({int(u): "D2" for u in case["workload2"]["packets"]})
        steps = {("Initialize", "run"): "WInit", ("StorePut", "store"): "WStoreCb", ("StoreGet", "store"): "get",
                 ("Timeout", "run"): "WTimer"}
        acts = []
        nu = nd = 0
        for e in obs["log"]:
            kind = e[0]
            sample = e[-1]
            su, sd = sample[-2], sample[-1]
            if kind == "adv":
                a = f"CAdvance {cf.q(e[1])}" if cable else f"WAdvance {cf.q(e[1])}"
                outs = []
            elif kind == "put":
                wa = f"WPut {ec.pkt_coq(specs[str(e[1])], e[1])}"
                a = f"CA {dir_of[e[1]]} ({wa})" if cable else wa
                outs = e[2]
            elif kind == "step":
                (tn, tgt), outs = e[1], e[2]
                d = None
                if cable and tgt and tgt[-1] in "12":
                    d, tgt = "D" + tgt[-1], tgt[:-1]
                wa = steps.get((tn, tgt))
                if wa is None or (cable and d is None):
                    return None, f"unexpected kernel step {e[1]}"
                if wa == "get":
                    u = case["uniforms"][nu] if su > nu else None
                    dd = case["delays"][nd] if sd > nd else None
                    if su > nu + 1 or sd > nd + 1:
                        return None, "more than one draw of a kind in one step"
                    wa = f"WGet {cf.opt(u, cf.q)} {cf.opt(dd, cf.q)}"
                a = f"CA {d} ({wa})" if cable else wa
            else:
                return None, f"unexpected log entry {e[:2]}"
            if (su, sd) != (nu, nd) and not (kind == "step" and e[1][0] == "StoreGet"):
                return None, f"draws consumed outside a StoreGet step ({e[:2]})"
            nu, nd = su, sd
            if cable:
                o = cf.lst([f"({TAPNODE.get(x[1], 'NW1')}, ODeliver {ec.pkt_coq(specs[str(x[2])], x[2])})" for x in outs])
                acts.append(f"({a}, {o}, (({cf.z(sample[0])}, {cf.nat(sample[1])}), ({cf.z(sample[2])}, {cf.nat(sample[3])})))")
            else:
                o = cf.lst([f"ODeliver {ec.pkt_coq(specs[str(x[2])], x[2])}" for x in outs])
                acts.append(f"({a}, {o}, ({cf.z(sample[0])}, {cf.nat(sample[1])}))")
        return acts, None

    def agree_term(self, case, obs):
        if obs["raised"]:
            return "false"
        acts, err = self._actions(case, obs)
        if acts is None:
            return f"false (* {err} *)"
        loss = cf.opt(case["loss"], cf.q)
        if case["kind"] == "cable":
            if obs["final"] is None or any(b not in NODES for _, b in obs["wiring"]):
                return "false (* set_endpoints left an out pointer unset *)"
            wiring = cf.lst([f"({a}, {b})" for a, b in obs["wiring"]])
            return (f"wiring_agree {wiring} && {cf.b(bool(obs['disjoint']))} && "
                    f"cable_agree {loss} (cable0 0) {cf.lst(acts, sep=';' + chr(10) + '    ')}")
        return f"wire_agree {loss} (wire0 0) {cf.lst(acts, sep=';' + chr(10) + '    ')}"

    def model_term(self, case):
        return None

    # ---- the property as an oracle over the implementation's behaviour ----------------------------------
    def _walk(self, case, obs):
        """One pass over the implementation log.  Per direction: arrivals [(uid, instant)], deliveries
        [(uid, instant, tap, fields, same)], dequeues [(instant, (u, d))] with the draws attributed in global
        consumption order by the documented rule (u only when loss_rate is truthy, d only when the packet is kept)."""
        cable = case["kind"] == "cable"
        loss = None if case["loss"] is None else F(case["loss"])
        us, ds = [F(x) for x in case["uniforms"]], [F(x) for x in case["delays"]]
        dirs = {1: {"arr": [], "del": [], "deq": []}, 2: {"arr": [], "del": [], "deq": []}}
        dir_of = {int(u): 1 for u in case["workload"]["packets"]}
        if cable:
            dir_of.update({int(u): 2 for u in case["workload2"]["packets"]})
        msgs = []
        now = F(0)
        iu = idd = 0
        last = None
        for e in obs["log"]:
            if e[0] == "adv":
                t = F(e[1])
                if t <= now:
                    msgs.append("wire-time-decreases: the clock did not move forward")
                now = t
                last = e[-1]
                continue
            if e[0] not in ("put", "step"):
                continue
            sample = e[-1]
            if e[0] == "put":
                dirs[dir_of[e[1]]]["arr"].append((e[1], now))
            elif e[1][0] == "StoreGet":
                d = 2 if (cable and e[1][1].endswith("2")) else 1
                k = len(dirs[d]["deq"])
                u = dd = None
                if loss:
                    u = us[iu] if iu < len(us) else None
                    iu += 1
                if not (loss and u is not None and u < loss):
                    dd = ds[idd] if idd < len(ds) else F(0)
                    idd += 1
                dirs[d]["deq"].append((now, (u, dd)))
                if k >= len(dirs[d]["arr"]):
                    msgs.append(f"wire-invented: direction {d} dequeues a packet that was never put in")
            if (sample[-2], sample[-1]) != (iu, idd):
                msgs.append(f"wire-draws: after {e[:2]} the wire has consumed {sample[-2]} uniform / {sample[-1]} delay draws, "
                            f"the documented rule (uniform only when loss_rate is truthy, then delay only for a kept packet) gives {iu}/{idd}")
                iu, idd = sample[-2], sample[-1]
            for o in e[2]:
                if o[0] == "out":
                    uid = o[2]
                    d = dir_of.get(uid, 1)
                    dirs[d]["del"].append((uid, now, o[1], o[3], o[4]))
            last = sample
        return dirs, msgs, last

    def monitor(self, case, obs, prop_id):
        if obs["raised"]:
            return [f"wire-raises: {obs['raised']}"]
        cable = case["kind"] == "cable"
        msgs = []
        if cable:
            want = [["Dev1", "NW1"], ["NW1", "Dev2"], ["Dev2", "NW2"], ["NW2", "Dev1"]]
            if obs["wiring"] != want:
                msgs.append(f"cable-wiring: set_endpoints gives out pointers {obs['wiring']}, expected dev1->wire1->dev2, dev2->wire2->dev1")
            if not obs["disjoint"]:
                msgs.append("cable-shared-state: the two wires of the cable share a wire, store or process")
            if obs["final"] is None:
                return msgs[:3]
        dirs, wmsgs, last = self._walk(case, obs)
        loss = None if case["loss"] is None else F(case["loss"])
        specs = self._specs(case)
        for d in ((1, 2) if cable else (1,)):
            D = dirs[d]
            arr, deq = D["arr"], D["deq"]
            rec = _recurrence(arr, [x[1] for x in deq], loss)
            exp = [(uid, T) for (uid, a, s, lost, T) in rec if not lost]
            lost = [uid for (uid, a, s, lost_, T) in rec if lost_]
            got = [(u, t) for (u, t, _, _, _) in D["del"]]
            tag = f"direction {d}: " if cable else ""
            far = {1: "dev2", 2: "dev1"}[d] if cable else "out"
            if prop_id == "C10":
                msgs.extend(m for m in wmsgs if m not in msgs)
                # the delivery-time law, FIFO, loss iff u < rate: delivered (uid, instant) = the recurrence's, minus at most
                # the one still propagating when the run stopped
                if obs["exhausted"]:
                    if got != exp:
                        msgs.append(f"wire-delivery: {tag}delivered (uid,time) {[(u, str(t)) for u, t in got][:8]} expected "
                                    f"{[(u, str(t)) for u, t in exp][:8]} (max(a+d, previous delivery), FIFO, lost iff u < loss_rate)")
                elif not (got == exp or (exp and got == exp[:-1] and len(rec) and rec[-1][0] == exp[-1][0])):
                    msgs.append(f"wire-delivery: {tag}delivered {[(u, str(t)) for u, t in got][:8]} is not the expected "
                                f"{[(u, str(t)) for u, t in exp][:8]} minus at most the packet still propagating")
                # dequeue instants: packet k is taken at max(a_k, completion of packet k-1); a lost packet delays nobody
                for (uid, a, s, lost_, T), (tq, _) in zip(rec, deq):
                    if tq != s:
                        msgs.append(f"wire-dequeue-instant: {tag}packet {uid} (arrived {a}) dequeued at {tq}, expected {s} "
                                    "= max(arrival, instant the server finished the previous packet)")
                        break
                for (uid, t, tp, fields, same) in D["del"]:
                    if tp != far:
                        msgs.append(f"cable-crossed: {tag}packet {uid} came out at {tp}, expected {far}")
                        break
            if prop_id == "C08":
                # every packet put in: delivered exactly once | lost by the documented rule | still held
                put = [u for u, _ in arr]
                gotu = [u for u, _ in got]
                for u in gotu:
                    if u not in put:
                        msgs.append(f"wire-invented: {tag}packet {u} delivered but never put in")
                    elif gotu.count(u) != 1:
                        msgs.append(f"wire-duplicated: {tag}packet {u} delivered {gotu.count(u)} times")
                    if u in lost:
                        msgs.append(f"wire-lost-delivered: {tag}packet {u} is lost by the rule (u < loss_rate) and yet delivered")
                held = [u for u in put if u not in gotu and u not in lost]
                store = obs["final"]["store" + str(d)] if cable else obs["final"]["store"]
                if obs["exhausted"]:
                    if held or store:
                        msgs.append(f"wire-not-drained: {tag}simulation ran out of events but packets {held} are neither delivered nor lost "
                                    f"(store holds {store})")
                else:
                    taken = len(deq)
                    inside = put[taken:]                       # not yet dequeued: must be exactly the store, in order
                    if store != inside:
                        msgs.append(f"wire-store-content: {tag}store holds {store}, expected the not yet dequeued packets {inside} in order")
                    extra = [u for u in held if u not in inside]
                    if len(extra) > 1 or (extra and extra != [put[taken - 1]]):
                        msgs.append(f"wire-vanished: {tag}packets {extra} are neither delivered, lost, in the store nor the one in service")
                # per-flow order
                flows = {}
                for u in put:
                    flows.setdefault(specs[str(u)]["flow"], []).append(u)
                for f, seq in flows.items():
                    outf = [u for u in gotu if u in seq]
                    it = iter(seq)
                    if not all(any(x == u for x in it) for u in outf):
                        msgs.append(f"wire-flow-order: {tag}flow {f} entered as {seq} and left as {outf}")
            # identity and header fields (both properties: 'the very same packet')
            for (uid, t, tp, fields, same) in D["del"]:
                sp = specs.get(str(uid))
                if sp is None:
                    continue
                if (not same or fields[:2] != [sp["id"], sp["flow"]] or fields[2] != str(sp.get("src", "s")) or fields[3] != sp["size"]
                        or F(fields[4]) != F(sp["time"]) or fields[5] != sp.get("payload")):
                    msgs.append(f"wire-packet-altered: {tag}packet {uid} delivered as {fields} same-object={same}")
                    break
            # the public counter
            nrec = obs["final"]["packets_rec"][d - 1] if cable else obs["final"]["packets_rec"]
            if nrec != len(arr):
                msgs.append(f"wire-counter: {tag}packets_rec = {nrec} after {len(arr)} put() calls")
        return msgs[:4]

    def nontrivial(self, case, obs, prop_id=None):
        n = len(self._specs(case))
        if n < 3 or obs.get("raised") or obs.get("final") is None:
            return False
        dirs, _, _ = self._walk(case, obs)
        for D in dirs.values():
            for (uid, a), (tq, _) in zip(D["arr"], D["deq"]):
                if a < tq:
                    return True
        return False

    def shrink(self, case):
        for w in ec.shrink_workload(case["workload"]):
            if w["packets"] or case["kind"] == "cable":
                yield {**case, "workload": w}
        if case["kind"] == "cable":
            for w in ec.shrink_workload(case["workload2"]):
                yield {**case, "workload2": w}
        if case["loss"] is not None:
            yield {**case, "loss": None}
        if case.get("until") is not None:
            yield {k: v for k, v in case.items() if k != "until"}
        if case.get("pre"):
            yield {**case, "pre": False}

    def describe(self, case, obs):
        k = case["kind"]
        n = len(self._specs(case))
        keys = [k, f"{k}:loss={case['loss']}", f"{k}:packets={min(n, 12)}", f"{k}:delays={case.get('style', '?')}"]
        if k == "wire":
            keys.append("wire:drivers=%d" % len(case["workload"]["drivers"]))
            keys.append("wire:stopped-early" if case.get("until") is not None and not obs.get("exhausted") else "wire:ran-to-quiescence")
        if case.get("pre"):
            keys.append(k + ":drivers-created-before-element")
        return keys


PART = WirePart()
