(* boolean comparisons used by the generated correspondence case files *)
From Coq Require Import ZArith QArith List Bool String.
Import ListNotations.

Fixpoint list_eqb {A : Type} (eqb : A -> A -> bool) (l1 l2 : list A) : bool :=
  match l1, l2 with
  | [], [] => true
  | x :: t1, y :: t2 => eqb x y && list_eqb eqb t1 t2
  | _, _ => false
  end.

Definition pair_eqb {A B : Type} (ea : A -> A -> bool) (eb : B -> B -> bool) (p q : A * B) : bool :=
  ea (fst p) (fst q) && eb (snd p) (snd q).

Definition option_eqb {A : Type} (eqb : A -> A -> bool) (a b : option A) : bool :=
  match a, b with
  | None, None => true
  | Some x, Some y => eqb x y
  | _, _ => false
  end.

Definition listZ_eqb := list_eqb Z.eqb.
Definition listN_eqb := list_eqb Nat.eqb.
Definition listQ_eqb := list_eqb Qeq_bool.
Definition pairZ_eqb := pair_eqb Z.eqb Z.eqb.
Definition listZZ_eqb := list_eqb pairZ_eqb.
