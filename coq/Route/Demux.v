(* Models of onl/netdev/demux.py (FlowDemux.put, FIBDemux.put) and of the demux wiring of
   onl/netdev/switch.py (SimplePacketSwitch, FairPacketSwitch).
   Pure decision functions: (configuration, flow id) -> the output the packet is handed to,
   transcribing the decision order of the code.  Executable; no proofs here.

   Every function takes booleans [fxN]: [true] is the repaired code (the fix: commits in /repo),
   [false] the code as found at the pinned commit:
     fx1  FIBDemux: `if not self._fib` (an empty table {} is treated as "no table")  -> `is None`
     fx2  FIBDemux: `assert self.outs` (AssertionError with outs = [] / None)          -> IndexError path, default output
     fx3  FlowDemux: `flow_id < len(outs)` (negative ids index from the end)           -> `0 <= flow_id < len(outs)`
     fx5  FIBDemux: the chosen output's put() ran inside the try: a KeyError/IndexError/ValueError
          raised by the downstream element was swallowed and the packet handed to the default output too *)
From Coq Require Import ZArith List Bool.
Import ListNotations.
Open Scope Z_scope.

Inductive exn := ValueError | AssertionError | IndexError | KeyError.

Inductive output :=
| OEnd (dev : nat)        (* ends[flow_id].put(packet): the registered end device *)
| OOut (index : nat)      (* outs[index].put(packet) *)
| ODefault                (* default_out.put(packet) *)
| ONowhere                (* dropped silently: no put at all *)
| OError (e : exn).       (* put() raises *)

Definition exn_eqb (a b : exn) : bool :=
  match a, b with
  | ValueError, ValueError | AssertionError, AssertionError | IndexError, IndexError | KeyError, KeyError => true
  | _, _ => false
  end.

Definition output_eqb (a b : output) : bool :=
  match a, b with
  | OEnd x, OEnd y => Nat.eqb x y
  | OOut x, OOut y => Nat.eqb x y
  | ODefault, ODefault => true
  | ONowhere, ONowhere => true
  | OError x, OError y => exn_eqb x y
  | _, _ => false
  end.

(* a Python dict with integer keys as an association list (keys pairwise distinct; first match) *)
Fixpoint lookup {V : Type} (t : list (Z * V)) (f : Z) : option V :=
  match t with
  | [] => None
  | (k, v) :: r => if k =? f then Some v else lookup r f
  end.

(* Python list indexing  l[i]  for a list of length n: negative indices count from the end *)
Definition py_index (n : nat) (i : Z) : option nat :=
  if (0 <=? i) && (i <? Z.of_nat n) then Some (Z.to_nat i)
  else if (i <? 0) && (- Z.of_nat n <=? i) then Some (Z.to_nat (Z.of_nat n + i))
  else None.

Definition dflt (has_default : bool) : output := if has_default then ODefault else ONowhere.

(* ---------------------------------------------------------------------------------------------- *)
(* FlowDemux(outs, default_out) *)
Record flowdemux_cfg := { fd_nouts : nat; fd_default : bool }.

Definition flowdemux (fx3 : bool) (c : flowdemux_cfg) (f : Z) : output :=
  let guard := if fx3 then (0 <=? f) && (f <? Z.of_nat (fd_nouts c)) else f <? Z.of_nat (fd_nouts c) in
  if guard then
    match py_index (fd_nouts c) f with
    | Some i => OOut i
    | None => OError IndexError
    end
  else dflt (fd_default c).

(* ---------------------------------------------------------------------------------------------- *)
(* FIBDemux(outs, ends, fib, default_out) *)
Record fibdemux_cfg := {
  fb_fib : option (list (Z * Z));     (* None = the Python None;  Some [] = the empty table {} *)
  fb_outs : option nat;               (* None = outs is None; Some n = a list of n devices *)
  fb_ends : list (Z * nat);           (* flow id -> end device *)
  fb_default : bool                   (* a default output is given *)
}.

Definition fib_missing (fx1 : bool) (fib : option (list (Z * Z))) : bool :=
  match fib with
  | None => true
  | Some [] => negb fx1               (* `not {}` is True in Python *)
  | Some _ => false
  end.

Definition nouts (c : fibdemux_cfg) : nat := match fb_outs c with Some n => n | None => O end.

Definition fibdemux (fx1 fx2 : bool) (c : fibdemux_cfg) (f : Z) : output :=
  if fib_missing fx1 (fb_fib c) then OError ValueError
  else
    match lookup (fb_ends c) f with
    | Some d => OEnd d
    | None =>
        if negb fx2 && Nat.eqb (nouts c) 0 then OError AssertionError
        else
          match lookup (match fb_fib c with Some t => t | None => [] end) f with
          | None => dflt (fb_default c)                        (* KeyError caught *)
          | Some p =>
              match py_index (nouts c) p with
              | Some i => OOut i
              | None => dflt (fb_default c)                    (* IndexError caught *)
              end
          end
    end.

(* What actually receives the packet, in order, and the exception (if any) that leaves put(),
   when the outputs listed in [raising] raise KeyError from their own put() after having taken the
   packet. *)
Definition deliverable (o : output) : bool :=
  match o with OEnd _ | OOut _ | ODefault => true | _ => false end.

Definition fib_deliveries (fx1 fx2 fx5 : bool) (c : fibdemux_cfg) (raising : list nat) (f : Z)
  : list output * option exn :=
  match fibdemux fx1 fx2 c f with
  | OError e => ([], Some e)
  | ONowhere => ([], None)
  | OOut i =>
      if existsb (Nat.eqb i) raising then
        if fx5 then ([OOut i], Some KeyError)
        else (OOut i :: (if fb_default c then [ODefault] else []), None)
      else ([OOut i], None)
  | o => ([o], None)
  end.

(* ---------------------------------------------------------------------------------------------- *)
(* SimplePacketSwitch(env, nports, ...):  demux = FlowDemux(self.ports, None);  put = demux.put.
   The result OOut i means Port i of the switch. *)
Definition simple_switch (fx3 : bool) (nports : nat) (f : Z) : output :=
  flowdemux fx3 {| fd_nouts := nports; fd_default := false |} f.

(* FairPacketSwitch(env, nports, ..., flow2class):
     demux = FIBDemux(fib=None, outs=egress_ports, default_out=None);   egress_ports[i].out = scheduler i
   and the application sets demux.fib (and demux.ends) afterwards.  OOut i means egress port i, whose
   only successor is scheduler i (= self.ports[i]); the class flow2class(f) is used by the scheduler
   only.  [fair_reaches] = the scheduler the packet is queued at, with the class it is filed under. *)
Record fair_cfg := {
  fs_nports : nat;
  fs_fib : option (list (Z * Z));
  fs_ends : list (Z * nat);
  fs_class : Z -> Z
}.

Definition fair_demux_cfg (c : fair_cfg) : fibdemux_cfg :=
  {| fb_fib := fs_fib c; fb_outs := Some (fs_nports c); fb_ends := fs_ends c; fb_default := false |}.

Definition fair_switch (fx1 fx2 : bool) (c : fair_cfg) (f : Z) : output :=
  fibdemux fx1 fx2 (fair_demux_cfg c) f.

Definition fair_reaches (fx1 fx2 : bool) (c : fair_cfg) (f : Z) : option (nat * Z) :=
  match fair_switch fx1 fx2 c f with
  | OOut i => Some (i, fs_class c f)
  | _ => None
  end.

(* helper for the correspondence *)
Definition deliv_eqb (a b : list output * option exn) : bool :=
  (fix leq (x y : list output) : bool :=
     match x, y with
     | [], [] => true
     | u :: x', v :: y' => output_eqb u v && leq x' y'
     | _, _ => false
     end) (fst a) (fst b)
  && match snd a, snd b with
     | None, None => true
     | Some e, Some e' => exn_eqb e e'
     | _, _ => false
     end.
