(* Models of onl/netdev/hub.py (Hub) and onl/netdev/splitter.py (Splitter, NSplitter), with the part
   of onl/packet/packet.py the splitter statement needs: packets as heap objects with an identity.
   Executable; no proofs here. *)
From Coq Require Import ZArith List Bool Arith.
Import ListNotations.

(* ---------------------------------------------------------------------------------------------- *)
(* Hub *)

Inductive hexn := HValueError | HIndexError.

(* an attached endpoint: its element_id and whether a port device stands in front of it *)
Record hub_ep := { ep_id : Z; ep_port : bool }.

Definition hub_state := list hub_ep.              (* self.endpoints zipped with self.outs *)

(* add_endpoint(endpoint, port):  outs.append(port if port else endpoint); endpoints.append(endpoint) *)
Definition hub_add (s : hub_state) (e : hub_ep) : hub_state := s ++ [e].

(* Hub(env, endpoints, ports): [ports] is the list argument ([] when omitted); an entry [false] is None.
   fx4 = false is the code as found: ports[idx] is read even when no ports list was given. *)
Definition hub_make (fx4 : bool) (eids : list Z) (ports : list bool) : hub_state + hexn :=
  match ports with
  | [] =>
      match eids with
      | [] => inl []
      | _ :: _ => if fx4 then inl (map (fun i => {| ep_id := i; ep_port := false |}) eids)
                  else inr HIndexError
      end
  | _ :: _ =>
      if Nat.eqb (length ports) (length eids)
      then inl (map (fun ip => {| ep_id := fst ip; ep_port := snd ip |}) (combine eids ports))
      else inr HValueError
  end.

(* Hub.put(packet): for idx, endpoint in enumerate(endpoints): skip when endpoint.element_id == packet.src,
   else outs[idx].put(packet).  One event (idx, via_port) per put, in order. *)
Fixpoint hub_put_from (idx : nat) (s : hub_state) (src : Z) : list (nat * bool) :=
  match s with
  | [] => []
  | e :: t => if Z.eqb (ep_id e) src then hub_put_from (S idx) t src
              else (idx, ep_port e) :: hub_put_from (S idx) t src
  end.

Definition hub_put (s : hub_state) (src : Z) : list (nat * bool) := hub_put_from 0 s src.

(* A hub in use: endpoints are attached with add_endpoint() between packets, and an attached
   endpoint's element_id attribute may be reassigned.  Hub.put scans self.endpoints as they are at
   that moment: the events of the k-th send are those of hub_put on the population so far. *)
Inductive hub_act :=
| HAttach (e : hub_ep)                 (* hub.add_endpoint(endpoint, port) *)
| HSend (src : Z)                      (* hub.put(packet) with packet.src = src *)
| HRename (idx : nat) (id : Z).        (* endpoints[idx].element_id = id *)

Fixpoint hub_rename (s : hub_state) (idx : nat) (id : Z) : hub_state :=
  match s, idx with
  | [], _ => []
  | e :: t, O => {| ep_id := id; ep_port := ep_port e |} :: t
  | e :: t, S i => e :: hub_rename t i id
  end.

Definition hub_step (s : hub_state) (a : hub_act) : hub_state :=
  match a with
  | HAttach e => hub_add s e
  | HSend _ => s
  | HRename i id => hub_rename s i id
  end.

(* the population after a sequence of actions *)
Definition hub_after (s : hub_state) (acts : list hub_act) : hub_state := fold_left hub_step acts s.

(* the events of every send, in order *)
Fixpoint hub_run (s : hub_state) (acts : list hub_act) : list (list (nat * bool)) :=
  match acts with
  | [] => []
  | HSend src :: t => hub_put s src :: hub_run s t
  | a :: t => hub_run (hub_step s a) t
  end.

Fixpoint count_sends (acts : list hub_act) : nat :=
  match acts with
  | [] => O
  | HSend _ :: t => S (count_sends t)
  | _ :: t => count_sends t
  end.

(* ---------------------------------------------------------------------------------------------- *)
(* Packets as objects.  Header fields are the scalar attributes of Packet; perhop_time and
   priorities are references to dict objects (copy.copy is shallow: the reference is copied). *)

Inductive field := FTime | FSize | FPid | FRealtime | FSrc | FDst | FFlow | FPayload | FColor | FAck | FCurrent.

Definition all_fields : list field :=
  [FTime; FSize; FPid; FRealtime; FSrc; FDst; FFlow; FPayload; FColor; FAck; FCurrent].

Definition field_eqb (a b : field) : bool :=
  match a, b with
  | FTime, FTime | FSize, FSize | FPid, FPid | FRealtime, FRealtime | FSrc, FSrc | FDst, FDst
  | FFlow, FFlow | FPayload, FPayload | FColor, FColor | FAck, FAck | FCurrent, FCurrent => true
  | _, _ => false
  end.

Definition header := field -> Z.

Record pobj := { hdr : header; perhop_ref : nat; prio_ref : nat }.

(* the heap: object id = position *)
Definition heap := list pobj.

Definition hget (h : heap) (o : nat) : option pobj := nth_error h o.

(* copy.copy(packet): a new object, same attribute values (same dict references) *)
Definition hcopy (h : heap) (o : nat) : option (heap * nat) :=
  match hget h o with
  | Some p => Some (h ++ [p], length h)
  | None => None
  end.

Definition set_hdr (p : pobj) (f : field) (v : Z) : pobj :=
  {| hdr := fun g => if field_eqb g f then v else hdr p g; perhop_ref := perhop_ref p; prio_ref := prio_ref p |}.

Fixpoint hset (h : heap) (o : nat) (f : field) (v : Z) : heap :=
  match h, o with
  | [], _ => []
  | p :: t, O => set_hdr p f v :: t
  | p :: t, S o' => p :: hset t o' f v
  end.

(* NSplitter.put: outs[0] gets the packet itself, every other attached output a copy; [attached]
   says which outs[i] are not None.  Splitter is the case of two outputs (out1, out2).
   [do_copy = false] is the mutant that hands the same object to everybody.
   Result: the heap after the copies and the deliveries (output index, object id) in order. *)
Fixpoint split_rest (do_copy : bool) (idx : nat) (att : list bool) (h : heap) (o : nat) : heap * list (nat * nat) :=
  match att with
  | [] => (h, [])
  | a :: t =>
      if a then
        if do_copy then
          match hcopy h o with
          | Some (h1, o1) => let r := split_rest do_copy (S idx) t h1 o in (fst r, (idx, o1) :: snd r)
          | None => (h, [])          (* dangling reference: excluded by o < length h *)
          end
        else let r := split_rest do_copy (S idx) t h o in (fst r, (idx, o) :: snd r)
      else split_rest do_copy (S idx) t h o
  end.

Definition splitter_put (do_copy : bool) (att : list bool) (h : heap) (o : nat) : heap * list (nat * nat) :=
  match att with
  | [] => (h, [])
  | a :: t =>
      let r := split_rest do_copy 1 t h o in
      (fst r, (if a then [(0, o)] else []) ++ snd r)
  end.

(* helpers for the correspondence *)
Definition hdr_list (p : pobj) : list Z := map (hdr p) all_fields.

Definition mk_hdr (l : list Z) : header :=
  fun f => nth (match f with FTime => 0 | FSize => 1 | FPid => 2 | FRealtime => 3 | FSrc => 4 | FDst => 5
                | FFlow => 6 | FPayload => 7 | FColor => 8 | FAck => 9 | FCurrent => 10 end) l 0%Z.

Definition field_of_nat (n : nat) : field := nth n all_fields FTime.

(* the observable state of the delivered objects: (object id, header values, perhop ref, prio ref) *)
Definition view (h : heap) (ds : list (nat * nat)) : list (nat * nat * list Z * nat * nat) :=
  flat_map (fun d => match hget h (snd d) with
                     | Some p => [(fst d, snd d, hdr_list p, perhop_ref p, prio_ref p)]
                     | None => []
                     end) ds.

Definition view_eqb (a b : list (nat * nat * list Z * nat * nat)) : bool :=
  (fix leq (x y : list (nat * nat * list Z * nat * nat)) : bool :=
     match x, y with
     | [], [] => true
     | (t, o, hd, ph, pr) :: x', (t', o', hd', ph', pr') :: y' =>
         Nat.eqb t t' && Nat.eqb o o' && Nat.eqb ph ph' && Nat.eqb pr pr' &&
         (fix zeq (u v : list Z) : bool :=
            match u, v with
            | [], [] => true
            | p :: u', q :: v' => Z.eqb p q && zeq u' v'
            | _, _ => false
            end) hd hd' && leq x' y'
     | _, _ => false
     end) a b.

(* assignments  setattr(delivered[j], field, value)  in order *)
Definition apply_muts (h : heap) (ds : list (nat * nat)) (muts : list (nat * nat * Z)) : heap :=
  fold_left (fun h m => match nth_error ds (fst (fst m)) with
                        | Some d => hset h (snd d) (field_of_nat (snd (fst m))) (snd m)
                        | None => h
                        end) muts h.

Definition split_agree (att : list bool) (h0 : heap) (muts : list (nat * nat * Z))
           (before after : list (nat * nat * list Z * nat * nat)) : bool :=
  let r := splitter_put true att h0 0 in
  view_eqb (view (fst r) (snd r)) before && view_eqb (view (apply_muts (fst r) (snd r) muts) (snd r)) after.
