(* The generic FIB theorems (FibProofs) instantiated on the fat tree (FatTreeProofs): flows whose
   paths pass the per-run check path_ok are delivered end to end in fattree k, for every even k >= 2. *)
From Coq Require Import ZArith List Bool Arith Lia.
From ONL Require Import Route.Demux Route.FatTree Route.Fib Route.FatTreeProofs Route.FibProofs.
Import ListNotations.
Open Scope nat_scope.

Lemma adjb_nbrs g a z : adjb g a z = true -> In z (nbrs g a) /\ In a (nbrs g z).
Proof.
  unfold adjb, nbrs. intros H. apply existsb_exists in H as (e & He & H).
  apply orb_true_iff in H as [H|H]; apply andb_true_iff in H as [H1 H2]; apply Nat.eqb_eq in H1, H2; split;
    apply in_flat_map; exists e; (split; [exact He|]).
  - rewrite H1, Nat.eqb_refl. left. exact H2.
  - rewrite H1, H2. destruct (a =? z) eqn:E; [apply Nat.eqb_eq in E; left; auto|]. rewrite Nat.eqb_refl. left. reflexivity.
  - rewrite H1, H2. destruct (z =? a) eqn:E; [apply Nat.eqb_eq in E; left; auto|]. rewrite Nat.eqb_refl. left. reflexivity.
  - rewrite H1, Nat.eqb_refl. left. exact H2.
Qed.

Lemma walkb_walk_ok g tcp p : walkb g p = true -> walk_ok (nbrs g) tcp p.
Proof.
  unfold walk_ok. induction p as [|x p IH]; intros Hw a z Hin; [destruct Hin|].
  destruct p as [|y t]; [destruct Hin|]. rewrite segs_cons2 in Hin. cbn [walkb] in Hw.
  apply andb_true_iff in Hw as [Hadj Hw]. destruct Hin as [[= <- <-]|Hin].
  - apply adjb_nbrs in Hadj as [H1 H2]. auto.
  - apply IH; assumption.
Qed.

Lemma nodupb_NoDup l : nodupb l = true -> NoDup l.
Proof.
  induction l as [|x t IH]; intros H; [constructor|]. cbn [nodupb] in H. apply andb_true_iff in H as [H1 H2].
  constructor; [|apply IH; exact H2]. intros Hin. apply negb_true_iff in H1.
  assert (existsb (Nat.eqb x) t = true) by (apply existsb_exists; exists x; split; [exact Hin|apply Nat.eqb_refl]). congruence.
Qed.

Lemma degree_valid h c : 0 < h -> valid (2 * h) c -> degree (ft_edges (2 * h)) (num (2 * h) c) <= 2 * h.
Proof.
  intros Hh Hv. unfold degree. rewrite (ft_nbrs_closed h c Hh Hv), map_length.
  destruct c as [a b|p a|p e|p e i]; unfold valid in Hv.
  - destruct Hv. rewrite cnbrs_core by assumption. rewrite map_length, seq_length. lia.
  - destruct Hv. rewrite cnbrs_aggr by assumption. rewrite app_length, !map_length, !seq_length, half_double. lia.
  - destruct Hv. rewrite cnbrs_edge by assumption. rewrite app_length, !map_length, !seq_length, half_double. lia.
  - destruct Hv as (? & ? & ?). rewrite cnbrs_host by assumption. cbn. lia.
Qed.

(* a node that has a neighbour in fattree k has at most k of them *)
Lemma degree_on_walk h a z : 0 < h -> adjb (ft_edges (2 * h)) a z = true ->
  degree (ft_edges (2 * h)) a <= 2 * h /\ degree (ft_edges (2 * h)) z <= 2 * h.
Proof.
  intros Hh H. rewrite (ft_edges_coord h Hh) in H. apply adjb_coord in H as (u & v & Hin & -> & ->).
  assert (valid (2 * h) u /\ valid (2 * h) v) as [Hu Hv].
  { destruct Hin as [Hin|Hin]; apply valid_cedges in Hin; cbn [fst snd] in Hin; tauto. }
  split; apply degree_valid; assumption.
Qed.

Lemma walk_degrees h : 0 < h -> forall p, walkb (ft_edges (2 * h)) p = true -> 2 <= length p ->
  forall n, In n p -> length (nbrs (ft_edges (2 * h)) n) <= 2 * h.
Proof.
  intros Hh. induction p as [|x p IH]; intros Hw Hlen n Hin; [destruct Hin|].
  destruct p as [|y t]; [cbn in Hlen; lia|]. cbn [walkb] in Hw. apply andb_true_iff in Hw as [Hadj Hw].
  destruct (degree_on_walk h x y Hh Hadj) as [Dx Dy]. destruct Hin as [<-|Hin]; [exact Dx|].
  destruct t as [|w t'].
  - destruct Hin as [<-|[]]. exact Dy.
  - apply IH; auto. cbn [length]. lia.
Qed.

Lemma hostdist_le6 k x y : hostdist k x y <= 6.
Proof.
  unfold hostdist. destruct (decode k x); try lia. destruct (decode k y); try lia.
  destruct (p =? p0); destruct (e =? e0); destruct (i =? i0); cbn [andb]; lia.
Qed.

(* In the fat tree of FIB switches with k ports each (tests/apps/fattree.py), for every even k >= 2:
   any family of flows with pairwise distinct ids in [0, 10000) whose paths pass the per-run check
   path_ok (shortest simple walks between distinct hosts) gets tables from generate_fib, and every
   packet of a flow put in at its source host visits exactly the flow's path and ends in the flow's
   own sink; with tcp the ACK class travels the reverse path to the ACK sink at the source. *)
Theorem fattree_delivery : forall k tcp flows,
  Nat.even k = true -> 2 <= k ->
  NoDup (map fid flows) ->
  (forall fl, In fl flows -> (0 <= fid fl < 10000)%Z /\ exists src dst, path_ok k src dst (fpath fl) = true) ->
  exists t, gen_fib (nbrs (ft_edges k)) tcp flows = Some t /\
    forall fl src dst, In fl flows -> path_ok k src dst (fpath fl) = true ->
      let w := mk_net (nbrs (ft_edges k)) t flows tcp (fun _ => k) in
      route true true 7 w src (fid fl) [] = Delivered (sink_of (fid fl)) (fpath fl) /\
      (tcp = true -> route true true 7 w dst (ack_class (fid fl)) [] = Delivered (sink_of (ack_class (fid fl))) (rev (fpath fl))).
Proof.
  intros k tcp flows He Hk Hnd Hfl. destruct (even_ge2 k He Hk) as (h & Hh & ->).
  assert (Hok : flows_ok (nbrs (ft_edges (2 * h))) tcp flows).
  { split; [exact Hnd|]. intros fl Hin. destruct (Hfl fl Hin) as (Hr & src & dst & Hp).
    destruct (path_ok_shortest _ _ _ _ He Hk Hp) as (rest & _ & _ & Hw & Hn & _).
    split; [exact Hr|]. split; [apply nodupb_NoDup; exact Hn|apply walkb_walk_ok; exact Hw]. }
  destruct (gen_fib_succeeds _ _ _ Hok) as [t Ht]. exists t. split; [exact Ht|].
  intros fl src dst Hin Hp w.
  destruct (path_ok_shortest _ _ _ _ He Hk Hp) as (rest & Hpath & Hlast & Hw & Hn & _).
  assert (Hlen : length (fpath fl) = S (hostdist (2 * h) src dst)).
  { unfold path_ok in Hp. apply andb_true_iff in Hp as [_ Hp]. apply Nat.eqb_eq in Hp. exact Hp. }
  assert (Hne : src <> dst).
  { unfold path_ok in Hp. repeat (apply andb_true_iff in Hp as [Hp ?]).
    match goal with X : negb (src =? dst) = true |- _ => apply negb_true_iff in X; apply Nat.eqb_neq in X; exact X end. }
  assert (Hlen2 : 2 <= length (fpath fl)).
  { destruct rest as [|r rest']; [rewrite Hpath in Hlast; cbn in Hlast; congruence|rewrite Hpath; cbn [length]; lia]. }
  pose proof (hostdist_le6 (2 * h) src dst) as H6.
  destruct (routed_delivery (nbrs (ft_edges (2 * h))) tcp flows t (fun _ => 2 * h) Hok Ht fl src rest 7 Hin Hpath) as [R1 R2].
  - lia.
  - intros n Hn'. apply (walk_degrees h Hh (fpath fl) Hw Hlen2 n Hn').
  - split; [exact R1|]. intros Htcp. apply (R2 Htcp).
    rewrite Hpath in Hlast. unfold last_node. rewrite Hpath. clear - Hlast.
    assert (G : forall (l : list nat) (x d : nat), rev (x :: l) = last (x :: l) d :: tl (rev (x :: l))).
    { induction l as [|y l IH]; intros x d; [reflexivity|].
      change (last (x :: y :: l) d) with (last (y :: l) d). cbn [rev] in *. rewrite (IH y d). cbn [app tl]. reflexivity. }
    rewrite (G rest src src), Hlast. reflexivity.
Qed.

Example fattree_delivery_ex :
  (* k = 4: hosts 20.. ; flow 1 from host 20 to host 35 through core 0, flow 2 inside one pod, sharing links *)
  let flows := [ {| fid := 1%Z; fpath := [20; 6; 4; 0; 16; 19; 35] |}; {| fid := 2%Z; fpath := [21; 6; 4; 7; 22] |} ] in
  forallb (fun fl => path_ok 4 (hd 0 (fpath fl)) (last (fpath fl) 0) (fpath fl)) flows = true /\
  match gen_fib (nbrs (ft_edges 4)) true flows with
  | Some t => route true true 7 (mk_net (nbrs (ft_edges 4)) t flows true (fun _ => 4)) 20 1%Z [] = Delivered 1 [20; 6; 4; 0; 16; 19; 35]
  | None => False
  end.
Proof. vm_compute. split; reflexivity. Qed.
