(* Bridging lemmas (DESIGN 2.6, second tie) for FlowDemux.put / FIBDemux.put: the bodies as translated from the tree
   under test on every run (Gen/Extracted_demux.v: the counter and the effects in program order) are the decision
   functions [flowdemux true] / [fibdemux true true] of the hand-written model (Route/Demux.v) the C18 theorems are
   about.  The effects get their meaning here: which model output a sequence of effects is. *)
From Coq Require Import ZArith List Bool Lia.
From ONL Require Import Route.Demux Gen.Extracted_demux.
Import ListNotations.
Open Scope Z_scope.

Ltac cmp_cases :=
  repeat match goal with
         | |- context [Z.ltb ?a ?b] => destruct (Z.ltb_spec a b)
         | |- context [Z.leb ?a ?b] => destruct (Z.leb_spec a b)
         end.

(* ---- FlowDemux.put ---------------------------------------------------------------------------------------
   self.outs[i].put(packet) is Python list indexing (IndexError when out of range) *)
Definition flow_fx_output (c : flowdemux_cfg) (fx : list demux_fx) : option output :=
  match fx with
  | [FxOut i] => Some (match py_index (fd_nouts c) i with Some k => OOut k | None => OError IndexError end)
  | [FxDefault] => Some ODefault
  | [] => Some ONowhere
  | _ => None                                              (* not an effect sequence of FlowDemux.put *)
  end.

Definition flow_gen_put (c : flowdemux_cfg) (n : Z) (f : Z) :=
  gen_FlowDemux_put {| d_packets_recevied := n |} f (Z.of_nat (fd_nouts c)) (fd_default c).

Lemma bridge_flowdemux_put c n f :
  let g := flow_gen_put c n f in
  flow_fx_output c (snd g) = Some (flowdemux true c f) /\
  snd g = (if (0 <=? f) && (f <? Z.of_nat (fd_nouts c)) then [FxOut f] else if fd_default c then [FxDefault] else []) /\
  d_packets_recevied (fst g) = n + 1.
Proof.
  unfold flow_gen_put, gen_FlowDemux_put, flowdemux, flow_fx_output, dflt.
  cmp_cases; cbn [andb]; try lia; destruct (fd_default c); cbn; repeat split; reflexivity.
Qed.

(* ---- FIBDemux.put ------------------------------------------------------------------------------------------
   the observations, read off the configuration *)
Definition fib_has (c : fibdemux_cfg) : bool := match fb_fib c with Some _ => true | None => false end.
Definition fib_in_ends (c : fibdemux_cfg) (f : Z) : bool := match lookup (fb_ends c) f with Some _ => true | None => false end.

(* the try block: out = outs[self._fib[flow_id]] with Python indexing; KeyError / IndexError -> out = default_out.
   None = `out` is None afterwards *)
Definition fib_lookup (c : fibdemux_cfg) (f : Z) : option output :=
  match lookup (match fb_fib c with Some t => t | None => [] end) f with
  | None => if fb_default c then Some ODefault else None
  | Some p => match py_index (nouts c) p with
              | Some i => Some (OOut i)
              | None => if fb_default c then Some ODefault else None
              end
  end.
Definition fib_out_given (c : fibdemux_cfg) (f : Z) : bool := match fib_lookup c f with Some _ => true | None => false end.

Definition fib_fx_output (c : fibdemux_cfg) (f : Z) (fx : list demux_fx) : option output :=
  match fx with
  | [FxRaiseValueError] => Some (OError ValueError)
  | [FxEnd] => match lookup (fb_ends c) f with Some d => Some (OEnd d) | None => Some (OError KeyError) end
  | [FxLookup; FxPutOut] => fib_lookup c f                  (* out.put(packet) on what the lookup chose *)
  | [FxLookup] => Some ONowhere
  | _ => None                                              (* not an effect sequence of FIBDemux.put *)
  end.

Definition fib_gen_put (c : fibdemux_cfg) (n : Z) (f : Z) :=
  gen_FIBDemux_put {| d_packets_recevied := n |} (fib_has c) (fib_in_ends c f) f (fib_out_given c f).

Lemma bridge_fibdemux_put c n f :
  let g := fib_gen_put c n f in
  fib_fx_output c f (snd g) = Some (fibdemux true true c f) /\
  snd g = (if negb (fib_has c) then [FxRaiseValueError]
           else if fib_in_ends c f then [FxEnd]
           else if fib_out_given c f then [FxLookup; FxPutOut] else [FxLookup]) /\
  d_packets_recevied (fst g) = (if fib_has c then n + 1 else n).
Proof.
  unfold fib_gen_put, gen_FIBDemux_put, fibdemux, fib_fx_output, fib_has, fib_in_ends, fib_out_given, fib_lookup, dflt.
  destruct (fb_fib c) as [t|]; cbn [negb andb]; [|repeat split; reflexivity].
  assert (Hm : fib_missing true (Some t) = false) by (destruct t; reflexivity).
  rewrite Hm.
  destruct (lookup (fb_ends c) f) as [d|]; cbn; [repeat split; reflexivity|].
  destruct (lookup t f) as [p|]; [destruct (py_index (nouts c) p)|]; destruct (fb_default c); cbn;
    repeat split; reflexivity.
Qed.
