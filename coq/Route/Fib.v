(* Model of FatTree.generate_fib (onl/topo/fattree.py) over ANY graph given by its ordered neighbour
   lists, and of a network of FIB switches wired by the generated tables (tests/apps/fattree.py).
   Executable; no proofs here. *)
From Coq Require Import ZArith List Bool Arith.
From ONL Require Import Base.Cmp Route.Demux Route.FatTree.
Import ListNotations.
Open Scope nat_scope.

(* list(nx.neighbors(topo, n)) for every node n *)
Definition nbfun := nat -> list nat.

(* for port, nh in enumerate(neighbors): nexthop_to_port[nh] = port; port_to_nexthop[port] = nh
   (a dict: the last assignment wins) *)
Fixpoint n2p_from (l : list nat) (port : nat) (z : nat) : option nat :=
  match l with
  | [] => None
  | x :: t =>
      match n2p_from t (S port) z with
      | Some q => Some q
      | None => if x =? z then Some port else None
      end
  end.

Definition n2p (nb : list nat) (z : nat) : option nat := n2p_from nb 0 z.
Definition p2n (nb : list nat) (port : nat) : option nat := nth_error nb port.

Record flow := { fid : Z; fpath : list nat }.

(* one assignment  nodes[n]["flow_to_port"][c] = port ; nodes[n]["flow_to_nexthop"][c] = nh *)
Record entry := { e_node : nat; e_class : Z; e_port : nat; e_nh : nat }.

(* the tables: all assignments in chronological order; a later assignment to the same (node, class)
   overrides an earlier one *)
Definition table := list entry.

Fixpoint tget_first (t : list entry) (n : nat) (c : Z) : option (nat * nat) :=
  match t with
  | [] => None
  | e :: r => if (e_node e =? n) && (e_class e =? c)%Z then Some (e_port e, e_nh e) else tget_first r n c
  end.

Definition tget (t : table) (n : nat) (c : Z) : option (nat * nat) := tget_first (rev t) n c.

(* path = list(zip(flow.path, flow.path[1:])) *)
Definition segs (p : list nat) : list (nat * nat) := combine p (tl p).

Definition ack_class (f : Z) : Z := (f + 10000)%Z.

(* the body of `for seg in path`; None = KeyError (z is not a neighbour of a) *)
Definition seg_entries (nb : nbfun) (tcp : bool) (f : Z) (s : nat * nat) : option (list entry) :=
  let (a, z) := s in
  match n2p (nb a) z with
  | None => None
  | Some port =>
      let fwd := {| e_node := a; e_class := f; e_port := port; e_nh := z |} in
      if tcp then
        match n2p (nb z) a with
        | None => None
        | Some rp => Some [fwd; {| e_node := z; e_class := ack_class f; e_port := rp; e_nh := a |}]
        end
      else Some [fwd]
  end.

Fixpoint collect {A B : Type} (f : A -> option (list B)) (l : list A) : option (list B) :=
  match l with
  | [] => Some []
  | x :: t =>
      match f x with
      | None => None
      | Some u => match collect f t with None => None | Some v => Some (u ++ v) end
      end
  end.

Definition flow_entries (nb : nbfun) (tcp : bool) (fl : flow) : option (list entry) :=
  collect (seg_entries nb tcp (fid fl)) (segs (fpath fl)).

(* generate_fib(all_flows, tcp) *)
Definition gen_fib (nb : nbfun) (tcp : bool) (flows : list flow) : option table :=
  collect (flow_entries nb tcp) flows.

(* ---------------------------------------------------------------------------------------------- *)
(* The network of tests/apps/fattree.py: every node n is a FIB switch with
     demux.fib = nodes[n]["flow_to_port"],  ports[i].out = device of port_to_nexthop[i],
     demux.ends[c] = the sink of class c at the node where that class terminates. *)

(* nodes[n]["flow_to_port"] as a dict (newest assignment first => first match = the dict's value) *)
Definition node_fib (t : table) (n : nat) : list (Z * Z) :=
  map (fun e => (e_class e, Z.of_nat (e_port e))) (filter (fun e => e_node e =? n) (rev t)).

Definition last_node (p : list nat) : option nat := match rev p with [] => None | x :: _ => Some x end.

(* the sink of class c is device number Z.to_nat c *)
Definition sink_of (c : Z) : nat := Z.to_nat c.

(* ends of node n: the data sinks of the flows ending at n and (tcp) the ACK sinks of the flows starting at n *)
Definition node_ends (flows : list flow) (tcp : bool) (n : nat) : list (Z * nat) :=
  flat_map (fun fl =>
      (match last_node (fpath fl) with
       | Some d => if d =? n then [(fid fl, sink_of (fid fl))] else []
       | None => [] end) ++
      (if tcp then match fpath fl with
                   | s :: _ => if s =? n then [(ack_class (fid fl), sink_of (ack_class (fid fl)))] else []
                   | [] => [] end
       else [])) flows.

Record net := { n_nb : nbfun; n_tbl : table; n_flows : list flow; n_tcp : bool; n_nports : nat -> nat }.

Definition node_cfg (w : net) (n : nat) : fibdemux_cfg :=
  {| fb_fib := Some (node_fib (n_tbl w) n); fb_outs := Some (n_nports w n);
     fb_ends := node_ends (n_flows w) (n_tcp w) n; fb_default := false |}.

Inductive result :=
| Delivered (sink : nat) (trace : list nat)      (* put into this end device after visiting these nodes *)
| Lost (trace : list nat)                        (* handed nowhere / to an unwired port *)
| Raised (e : exn) (trace : list nat)
| OutOfFuel.

(* a packet of class c enters the switch of node n.  [fx1 fx2] select the repaired / original FIBDemux. *)
Fixpoint route (fx1 fx2 : bool) (fuel : nat) (w : net) (n : nat) (c : Z) (visited : list nat) : result :=
  match fuel with
  | O => OutOfFuel
  | S fu =>
      let tr := visited ++ [n] in
      match fibdemux fx1 fx2 (node_cfg w n) c with
      | OEnd d => Delivered d tr
      | OOut i =>
          match p2n (n_nb w n) i with
          | Some m => route fx1 fx2 fu w m c tr
          | None => Lost tr                      (* a port without a link *)
          end
      | ODefault | ONowhere => Lost tr
      | OError e => Raised e tr
      end
  end.

(* helpers for the correspondence *)
Definition nbfun_of (adj : list (list nat)) : nbfun := fun n => nth n adj [].

Definition entry_eqb (a b : entry) : bool :=
  (e_node a =? e_node b) && (e_class a =? e_class b)%Z && (e_port a =? e_port b) && (e_nh a =? e_nh b).

(* the model's tables equal the observed dicts: every observed (node, class, port, nh) is the model's
   value, and the model has no key the implementation lacks *)
Definition tables_agree (t : table) (obs : list entry) : bool :=
  forallb (fun o => match tget t (e_node o) (e_class o) with
                    | Some (p, nh) => (p =? e_port o) && (nh =? e_nh o)
                    | None => false end) obs
  && forallb (fun e => existsb (fun o => (e_node o =? e_node e) && (e_class o =? e_class e)%Z) obs) t.

Definition result_eqb (a b : result) : bool :=
  match a, b with
  | Delivered s t, Delivered s' t' => (s =? s') && listN_eqb t t'
  | Lost t, Lost t' => listN_eqb t t'
  | Raised e t, Raised e' t' => exn_eqb e e' && listN_eqb t t'
  | OutOfFuel, OutOfFuel => true
  | _, _ => false
  end.

(* the simulated fat tree of the e2e cases: every node a FIB switch (k ports when FairPacketSwitch is used,
   one port per neighbour otherwise); pk = (node where the packet is injected, class, what happened) *)
Definition e2e_agree (k : nat) (fair tcp : bool) (flows : list flow) (pk : list (nat * Z * result)) : bool :=
  let tab := adjtab (ft_edges k) (ft_nnodes k) in
  let nb := nbfun_of tab in
  match gen_fib nb tcp flows with
  | None => false
  | Some t =>
      let w := {| n_nb := nb; n_tbl := t; n_flows := flows; n_tcp := tcp;
                  n_nports := fun v => if fair then k else length (nb v) |} in
      forallb (fun x => result_eqb (route true true 20 w (fst (fst x)) (snd (fst x)) []) (snd x)) pk
  end.
