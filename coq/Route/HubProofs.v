(* Proofs about Route/Hub.v: the hub repeats to everybody but the sender, exactly once, through the
   port device when there is one; the splitter hands out the original and distinct copies whose
   header fields are independent. *)
From Coq Require Import ZArith List Bool Arith Lia.
From ONL Require Import Route.Hub.
Import ListNotations.

(* ---------------------------------------------------------------------------------------------- *)
(* Hub *)

Lemma hub_put_from_spec : forall s idx src i v,
  In (i, v) (hub_put_from idx s src) <->
  (idx <= i /\ exists e, nth_error s (i - idx) = Some e /\ ep_id e <> src /\ v = ep_port e).
Proof.
  induction s as [|e t IH]; intros idx src i v; cbn [hub_put_from].
  - split; [intros []|]. intros (_ & e & He & _). destruct (i - idx); discriminate.
  - destruct (Z.eqb (ep_id e) src) eqn:E.
    + apply Z.eqb_eq in E. rewrite IH. split.
      * intros (Hle & e' & Hn & Hne & Hv). split; [lia|]. exists e'.
        replace (i - idx) with (S (i - S idx)) by lia. cbn [nth_error]. auto.
      * intros (Hle & e' & Hn & Hne & Hv).
        destruct (i - idx) as [|m] eqn:Em; cbn [nth_error] in Hn.
        -- injection Hn as <-. contradiction.
        -- split; [lia|]. exists e'. replace (i - S idx) with m by lia. auto.
    + apply Z.eqb_neq in E. cbn [In]. rewrite IH. split.
      * intros [[= <- <-]|(Hle & e' & Hn & Hne & Hv)].
        -- split; [lia|]. exists e. rewrite Nat.sub_diag. cbn [nth_error]. auto.
        -- split; [lia|]. exists e'. replace (i - idx) with (S (i - S idx)) by lia. cbn [nth_error]. auto.
      * intros (Hle & e' & Hn & Hne & Hv).
        destruct (i - idx) as [|m] eqn:Em; cbn [nth_error] in Hn.
        -- injection Hn as <-. left. f_equal; [lia|auto].
        -- right. split; [lia|]. exists e'. replace (i - S idx) with m by lia. auto.
Qed.

Lemma hub_put_from_nodup : forall s idx src, NoDup (map fst (hub_put_from idx s src)).
Proof.
  induction s as [|e t IH]; intros idx src; cbn [hub_put_from].
  - constructor.
  - destruct (Z.eqb (ep_id e) src); [apply IH|].
    cbn [map fst]. constructor; [|apply IH].
    intros Hin. apply in_map_iff in Hin as ((i, v) & Hi & Hin). cbn [fst] in Hi. subst i.
    apply hub_put_from_spec in Hin as (Hle & _). lia.
Qed.

(* every attached endpoint whose element_id differs from packet.src gets the packet exactly once,
   through its port device exactly when it has one; the sender (every endpoint with that id) never *)
Theorem hub_repeats : forall (s : hub_state) (src : Z),
  NoDup (map fst (hub_put s src)) /\
  (forall i v, In (i, v) (hub_put s src) <-> exists e, nth_error s i = Some e /\ ep_id e <> src /\ v = ep_port e) /\
  (forall i e, nth_error s i = Some e -> ep_id e = src -> ~ In i (map fst (hub_put s src))).
Proof.
  intros s src. unfold hub_put. split; [apply hub_put_from_nodup|]. split.
  - intros i v. rewrite hub_put_from_spec. rewrite Nat.sub_0_r. split.
    + intros (_ & H). exact H.
    + intros H. split; [lia|exact H].
  - intros i e Hn Hid Hin. apply in_map_iff in Hin as ((j, v) & Hj & Hin). cbn [fst] in Hj. subst j.
    apply hub_put_from_spec in Hin as (_ & e' & Hn' & Hne & _). rewrite Nat.sub_0_r in Hn'.
    rewrite Hn in Hn'. injection Hn' as <-. contradiction.
Qed.

Example hub_repeats_ex :
  hub_put [ {| ep_id := 1; ep_port := false |}; {| ep_id := 2; ep_port := true |}; {| ep_id := 1; ep_port := true |};
            {| ep_id := 3; ep_port := false |} ] 1%Z = [(1, true); (3, false)].
Proof. reflexivity. Qed.

(* the constructor: without a ports list every endpoint is attached directly; with one, endpoint i
   gets port i; lists of different lengths are refused *)
Theorem hub_make_spec : forall eids ports,
  (ports = [] -> hub_make true eids ports = inl (map (fun i => {| ep_id := i; ep_port := false |}) eids)) /\
  (ports <> [] -> length ports = length eids ->
     exists s, hub_make true eids ports = inl s /\ length s = length eids /\
       forall i e, nth_error s i = Some e <->
                   exists id p, nth_error eids i = Some id /\ nth_error ports i = Some p /\ e = {| ep_id := id; ep_port := p |}) /\
  (ports <> [] -> length ports <> length eids -> hub_make true eids ports = inr HValueError).
Proof.
  intros eids ports. repeat split.
  - intros ->. destruct eids; reflexivity.
  - intros Hne Hlen. destruct ports as [|p0 pt]; [contradiction|].
    unfold hub_make. rewrite Hlen, Nat.eqb_refl.
    eexists; split; [reflexivity|]. split.
    + rewrite map_length, combine_length. lia.
    + intros i e. remember (p0 :: pt) as ports. clear Heqports Hne.
      revert ports Hlen i. induction eids as [|a t IH]; intros ports Hlen i.
      * destruct ports; [|discriminate]. cbn. split.
        -- destruct i; discriminate.
        -- intros (id & p & H & _). destruct i; discriminate.
      * destruct ports as [|q ports]; [discriminate|]. cbn [combine map]. destruct i as [|i]; cbn [nth_error].
        -- split.
           ++ intros [= <-]. exists a, q. auto.
           ++ intros (id & p & [= <-] & [= <-] & ->). reflexivity.
        -- apply IH. cbn in Hlen. lia.
  - intros Hne Hlen. destruct ports as [|p0 pt]; [contradiction|].
    unfold hub_make. apply Nat.eqb_neq in Hlen. rewrite Hlen. reflexivity.
Qed.

Lemma hub_add_nth : forall s e i,
  nth_error (hub_add s e) i = if i <? length s then nth_error s i else if i =? length s then Some e else None.
Proof.
  intros s e i. unfold hub_add.
  destruct (i <? length s) eqn:E1.
  - apply Nat.ltb_lt in E1. apply nth_error_app1. exact E1.
  - apply Nat.ltb_ge in E1. rewrite nth_error_app2 by exact E1.
    destruct (i =? length s) eqn:E2.
    + apply Nat.eqb_eq in E2. rewrite E2, Nat.sub_diag. reflexivity.
    + apply Nat.eqb_neq in E2. destruct (i - length s) as [|m] eqn:Em; [lia|]. destruct m; reflexivity.
Qed.

(* ---- dynamic attachment ---------------------------------------------------------------------- *)

Lemma hub_run_app : forall pre s post,
  hub_run s (pre ++ post) = hub_run s pre ++ hub_run (hub_after s pre) post.
Proof.
  induction pre as [|a pre IH]; intros s post; [reflexivity|].
  destruct a as [e|src|i id]; cbn [app hub_run hub_after fold_left hub_step].
  - apply IH.
  - rewrite IH. reflexivity.
  - apply IH.
Qed.

Lemma hub_run_length : forall acts s, length (hub_run s acts) = count_sends acts.
Proof.
  induction acts as [|a acts IH]; intros s; [reflexivity|].
  destruct a; cbn [hub_run count_sends length]; rewrite ?IH; reflexivity.
Qed.

Lemma hub_after_attaches : forall es s, hub_after s (map HAttach es) = s ++ es.
Proof.
  induction es as [|e es IH]; intros s; cbn [map hub_after fold_left hub_step].
  - rewrite app_nil_r. reflexivity.
  - change (fold_left hub_step (map HAttach es) (hub_add s e)) with (hub_after (hub_add s e) (map HAttach es)).
    rewrite IH. unfold hub_add. rewrite <- app_assoc. reflexivity.
Qed.

(* Whatever was attached, renamed or sent before: the send that follows the actions [pre] is repeated
   to exactly the endpoints attached SO FAR (the population hub_after s pre) other than the sender,
   each exactly once, through its port device exactly when it has one. *)
Theorem hub_repeats_dynamic : forall (s : hub_state) (pre : list hub_act) (src : Z) (post : list hub_act),
  let cur := hub_after s pre in
  nth_error (hub_run s (pre ++ HSend src :: post)) (count_sends pre) = Some (hub_put cur src) /\
  NoDup (map fst (hub_put cur src)) /\
  (forall i v, In (i, v) (hub_put cur src) <-> exists e, nth_error cur i = Some e /\ ep_id e <> src /\ v = ep_port e) /\
  (forall i e, nth_error cur i = Some e -> ep_id e = src -> ~ In i (map fst (hub_put cur src))).
Proof.
  intros s pre src post cur. split.
  - rewrite hub_run_app. rewrite nth_error_app2 by (rewrite hub_run_length; lia).
    rewrite hub_run_length, Nat.sub_diag. reflexivity.
  - apply hub_repeats.
Qed.

(* in particular with add_endpoint only: constructor population s, then endpoints es attached one by
   one (with any sends in between, which change nothing): the population is s ++ es *)
Theorem hub_attached_so_far : forall (s : hub_state) (es : list hub_ep) (src : Z) (i : nat) (v : bool),
  In (i, v) (hub_put (hub_after s (map HAttach es)) src) <->
  exists e, nth_error (s ++ es) i = Some e /\ ep_id e <> src /\ v = ep_port e.
Proof.
  intros s es src i v. rewrite hub_after_attaches. apply hub_repeats.
Qed.

Lemma hub_after_send : forall s src, hub_after s [HSend src] = s.
Proof. reflexivity. Qed.

Example hub_dynamic_ex :
  hub_run [ {| ep_id := 1; ep_port := false |} ]
          [HSend 1%Z; HAttach {| ep_id := 2; ep_port := true |}; HSend 1%Z; HAttach {| ep_id := 3; ep_port := false |};
           HSend 1%Z; HSend 2%Z; HRename 0 3%Z; HSend 3%Z]
  = [ []; [(1, true)]; [(1, true); (2, false)]; [(0, false); (2, false)]; [(1, true)] ].
Proof. reflexivity. Qed.

(* the code as found cannot build a hub without a ports list *)
Theorem hub_refuted_before_fix : exists eids, eids <> [] /\ hub_make false eids [] = inr HIndexError.
Proof. exists [1%Z; 2%Z]. split; [discriminate|reflexivity]. Qed.

(* ---------------------------------------------------------------------------------------------- *)
(* heap facts *)

Lemma hget_hset : forall h o f v o',
  hget (hset h o f v) o' = if o =? o' then option_map (fun p => set_hdr p f v) (hget h o) else hget h o'.
Proof.
  unfold hget. induction h as [|p t IH]; intros o f v o'; cbn [hset].
  - destruct o, o'; cbn; try reflexivity. destruct (o =? o'); reflexivity.
  - destruct o as [|o]; destruct o' as [|o']; cbn [hset nth_error Nat.eqb option_map]; try reflexivity.
    apply IH.
Qed.

Lemma hset_length : forall h o f v, length (hset h o f v) = length h.
Proof. induction h as [|p t IH]; intros [|o] f v; cbn [hset length]; auto. Qed.

(* ---------------------------------------------------------------------------------------------- *)
(* Splitter *)

(* the indices of the attached outputs, from idx on *)
Fixpoint attached_from (idx : nat) (att : list bool) : list nat :=
  match att with
  | [] => []
  | a :: t => (if a then [idx] else []) ++ attached_from (S idx) t
  end.

Lemma split_rest_spec : forall att idx h o p,
  hget h o = Some p ->
  exists ext,
    fst (split_rest true idx att h o) = h ++ ext /\
    (forall q, In q ext -> q = p) /\
    map snd (snd (split_rest true idx att h o)) = seq (length h) (length ext) /\
    map fst (snd (split_rest true idx att h o)) = attached_from idx att.
Proof.
  induction att as [|a t IH]; intros idx h o p Hp; cbn [split_rest attached_from].
  - exists []. rewrite app_nil_r. cbn. repeat split; auto. intros q [].
  - destruct a.
    + unfold hcopy. rewrite Hp.
      assert (Hp1 : hget (h ++ [p]) o = Some p).
      { unfold hget in *. rewrite nth_error_app1; auto. apply nth_error_Some. congruence. }
      destruct (IH (S idx) (h ++ [p]) o p Hp1) as (ext & Hh & Hall & Hs & Hf).
      exists (p :: ext). cbn [fst snd map]. repeat split.
      * rewrite Hh, <- app_assoc. reflexivity.
      * intros q [<-|Hq]; auto.
      * rewrite Hs, app_length. cbn [length seq]. f_equal. f_equal. lia.
      * rewrite Hf. reflexivity.
    + destruct (IH (S idx) h o p Hp) as (ext & Hh & Hall & Hs & Hf).
      exists ext. repeat split; auto.
Qed.

(* Splitter / NSplitter.  [att] says which outputs are attached; h is any heap with the packet at o.
   1. exactly the attached outputs get something, each once, in order;
   2. output 0 gets the original object;
   3. every other output gets a fresh object (not in the old heap, so distinct from the original)
      whose value -- all header fields, and the references to the two dicts -- equals the original's;
   4. the objects handed out are pairwise distinct;
   5. nothing that existed before is touched;
   6. assigning a header field of one delivered object changes that object's field and leaves every
      other delivered object unchanged. *)
Theorem splitter_copies : forall (att : list bool) (h : heap) (o : nat) (p : pobj),
  hget h o = Some p ->
  let h' := fst (splitter_put true att h o) in
  let ds := snd (splitter_put true att h o) in
  map fst ds = attached_from 0 att /\
  (forall o', In (0, o') ds -> o' = o) /\
  (forall i o', In (i, o') ds -> i <> 0 -> length h <= o' /\ o' <> o /\ hget h' o' = Some p) /\
  NoDup (map snd ds) /\
  (forall x, x < length h -> hget h' x = hget h x) /\
  (forall i1 o1 i2 o2 f v, In (i1, o1) ds -> In (i2, o2) ds -> o1 <> o2 ->
                           hget (hset h' o1 f v) o2 = hget h' o2) /\
  (forall i1 o1 f v, In (i1, o1) ds ->
                     hget (hset h' o1 f v) o1 = Some (set_hdr p f v) /\
                     forall g, hdr (set_hdr p f v) g = if field_eqb g f then v else hdr p g).
Proof.
  intros att h o p Hp h' ds.
  assert (Ho : o < length h) by (apply nth_error_Some; unfold hget in Hp; congruence).
  destruct att as [|a t].
  { subst h' ds. cbn. repeat split; auto; try (intros; contradiction). constructor. }
  destruct (split_rest_spec t 1 h o p Hp) as (ext & Hh & Hall & Hs & Hf).
  assert (Hds : ds = (if a then [(0, o)] else []) ++ snd (split_rest true 1 t h o)) by reflexivity.
  assert (Hh' : h' = h ++ ext) by (subst h'; cbn [splitter_put fst]; exact Hh).
  assert (Hidx : forall i o', In (i, o') (snd (split_rest true 1 t h o)) -> i <> 0 /\ length h <= o' < length h + length ext).
  { intros i o' Hin. split.
    - assert (Hi : In i (attached_from 1 t)) by (rewrite <- Hf; apply in_map_iff; exists (i, o'); auto).
      clear - Hi. assert (forall l k, In i (attached_from k l) -> k <= i) as G.
      { induction l as [|b l IH]; intros k; cbn [attached_from]; [intros []|].
        intros Hin. apply in_app_or in Hin as [Hin|Hin].
        - destruct b; [destruct Hin as [<-|[]]; lia|destruct Hin].
        - apply IH in Hin. lia. }
      apply G in Hi. lia.
    - assert (Hi : In o' (seq (length h) (length ext))) by (rewrite <- Hs; apply in_map_iff; exists (i, o'); auto).
      apply in_seq in Hi. lia. }
  assert (Hget_new : forall o', length h <= o' < length h + length ext -> hget h' o' = Some p).
  { intros o' Hr. rewrite Hh'. unfold hget. rewrite nth_error_app2 by lia.
    destruct (nth_error ext (o' - length h)) as [q|] eqn:Eq.
    - f_equal. apply Hall. eapply nth_error_In; eauto.
    - apply nth_error_None in Eq. lia. }
  assert (Hget_old : forall x, x < length h -> hget h' x = hget h x).
  { intros x Hx. rewrite Hh'. unfold hget. apply nth_error_app1. exact Hx. }
  assert (Hin_ds : forall i o', In (i, o') ds -> (i = 0 /\ o' = o) \/ (i <> 0 /\ length h <= o' < length h + length ext)).
  { intros i o' Hin. rewrite Hds in Hin. apply in_app_or in Hin as [Hin|Hin].
    - destruct a; [destruct Hin as [[= <- <-]|[]]; auto|destruct Hin].
    - right. apply Hidx. exact Hin. }
  assert (Hval : forall i o', In (i, o') ds -> hget h' o' = Some p).
  { intros i o' Hin. apply Hin_ds in Hin as [(_ & ->)|(_ & Hr)]; [rewrite Hget_old; auto|apply Hget_new; auto]. }
  split; [|split; [|split; [|split; [|split; [|split]]]]].
  - rewrite Hds, map_app, Hf. cbn [attached_from]. destruct a; reflexivity.
  - intros o' Hin. apply Hin_ds in Hin as [(_ & ->)|(Hne & _)]; [reflexivity|contradiction].
  - intros i o' Hin Hne. apply Hin_ds in Hin as [(-> & _)|(_ & Hr)]; [contradiction|].
    split; [lia|]. split; [lia|]. apply Hget_new; exact Hr.
  - rewrite Hds, map_app, Hs. destruct a; cbn [map snd app].
    + constructor; [|apply seq_NoDup]. intros Hin. apply in_seq in Hin. lia.
    + apply seq_NoDup.
  - exact Hget_old.
  - intros i1 o1 i2 o2 f v _ _ Hne. rewrite hget_hset. apply Nat.eqb_neq in Hne. rewrite Hne. reflexivity.
  - intros i1 o1 f v Hin. split.
    + rewrite hget_hset, Nat.eqb_refl. rewrite (Hval _ _ Hin). reflexivity.
    + intros g. reflexivity.
Qed.

Example splitter_copies_ex :
  let p := {| hdr := mk_hdr [1; 2; 3; 4; 5; 6; 7; 8; 9; 10; 11]%Z; perhop_ref := 0; prio_ref := 0 |} in
  let r := splitter_put true [true; false; true; true] [p] 0 in
  snd r = [(0, 0); (2, 1); (3, 2)] /\
  map hdr_list (hset (fst r) 1 FFlow 99%Z) =
    [[1; 2; 3; 4; 5; 6; 7; 8; 9; 10; 11]; [1; 2; 3; 4; 5; 6; 99; 8; 9; 10; 11]; [1; 2; 3; 4; 5; 6; 7; 8; 9; 10; 11]]%Z.
Proof. split; reflexivity. Qed.

(* copy.copy is shallow: the dicts perhop_time / priorities of a copy are the original's *)
Lemma splitter_shares_dicts : forall att h o p i o' q,
  hget h o = Some p -> In (i, o') (snd (splitter_put true att h o)) ->
  hget (fst (splitter_put true att h o)) o' = Some q -> perhop_ref q = perhop_ref p /\ prio_ref q = prio_ref p.
Proof.
  intros att h o p i o' q Hp Hin Hq.
  destruct (splitter_copies att h o p Hp) as (_ & H0 & Hn & _ & Hold & _).
  destruct (Nat.eq_dec i 0) as [->|Hne].
  - apply H0 in Hin. subst o'. rewrite Hold in Hq by (apply nth_error_Some; unfold hget in Hp; congruence).
    rewrite Hp in Hq. injection Hq as <-. auto.
  - destruct (Hn _ _ Hin Hne) as (_ & _ & Hv). rewrite Hv in Hq. injection Hq as <-. auto.
Qed.

(* a splitter that does not copy hands out one object: an assignment through one output is seen at another *)
Theorem splitter_without_copy_refuted :
  exists att h o f v o1 o2 i1 i2,
    let r := splitter_put false att h o in
    i1 <> i2 /\ In (i1, o1) (snd r) /\ In (i2, o2) (snd r) /\
    hget (hset (fst r) o1 f v) o2 <> hget (fst r) o2.
Proof.
  exists [true; true], [{| hdr := fun _ => 0%Z; perhop_ref := 0; prio_ref := 0 |}], 0, FFlow, 5%Z, 0, 0, 0, 1.
  cbn. repeat split; auto.
  intros H. injection H as H. apply (f_equal (fun g => g FFlow)) in H. discriminate.
Qed.
