(* Proofs about Route/Fib.v: for ANY graph (ordered neighbour lists), the tables built by the model
   of generate_fib lead hop by hop along every flow's path (and the ACK class back along the reverse
   path); in the network of FIB switches wired by those tables every packet is delivered to its own
   flow's sink and to nothing else. *)
From Coq Require Import ZArith List Bool Arith Lia.
From ONL Require Import Route.Demux Route.DemuxProofs Route.FatTree Route.Fib.
Import ListNotations.
Open Scope nat_scope.

(* ---------------------------------------------------------------------------------------------- *)
(* nexthop_to_port / port_to_nexthop *)

Lemma n2p_from_sound : forall l port z q,
  n2p_from l port z = Some q -> port <= q /\ nth_error l (q - port) = Some z.
Proof.
  induction l as [|x t IH]; intros port z q H; cbn [n2p_from] in H; [discriminate|].
  destruct (n2p_from t (S port) z) as [q'|] eqn:E.
  - injection H as <-. apply IH in E as [H1 H2]. split; [lia|].
    replace (q' - port) with (S (q' - S port)) by lia. exact H2.
  - destruct (x =? z) eqn:Ex; [|discriminate]. injection H as <-. apply Nat.eqb_eq in Ex. subst x.
    split; [lia|]. rewrite Nat.sub_diag. reflexivity.
Qed.

Lemma n2p_from_complete : forall l port z, In z l -> exists q, n2p_from l port z = Some q.
Proof.
  induction l as [|x t IH]; intros port z Hin; [destruct Hin|]. cbn [n2p_from].
  destruct (n2p_from t (S port) z) as [q'|] eqn:E; [eauto|].
  destruct Hin as [->|Hin].
  - rewrite Nat.eqb_refl. eauto.
  - destruct (IH (S port) z Hin) as [q Hq]. congruence.
Qed.

Lemma n2p_sound nb z q : n2p nb z = Some q -> p2n nb q = Some z.
Proof. unfold n2p, p2n. intros H. apply n2p_from_sound in H as [_ H]. rewrite Nat.sub_0_r in H. exact H. Qed.

Lemma n2p_complete nb z : In z nb -> exists q, n2p nb z = Some q.
Proof. apply n2p_from_complete. Qed.

(* ---------------------------------------------------------------------------------------------- *)
(* collect *)

Lemma collect_some {A B : Type} (f : A -> option (list B)) l :
  (forall x, In x l -> exists u, f x = Some u) -> exists r, collect f l = Some r.
Proof.
  induction l as [|x t IH]; intros H; cbn [collect]; [eauto|].
  destruct (H x (or_introl eq_refl)) as [u ->].
  destruct IH as [v ->]; [intros y Hy; apply H; right; exact Hy|]. eauto.
Qed.

Lemma collect_in {A B : Type} (f : A -> option (list B)) l : forall r,
  collect f l = Some r -> forall e, In e r <-> exists x u, In x l /\ f x = Some u /\ In e u.
Proof.
  induction l as [|x t IH]; intros r H e; cbn [collect] in H.
  - injection H as <-. split; [intros []|]. intros (y & u & [] & _).
  - destruct (f x) as [u|] eqn:Ex; [|discriminate]. destruct (collect f t) as [v|] eqn:Et; [|discriminate].
    injection H as <-. rewrite in_app_iff, (IH v eq_refl e). split.
    + intros [Hu|(y & w & Hy & Hf & Hw)].
      * exists x, u. cbn [In]. auto.
      * exists y, w. cbn [In]. auto.
    + intros (y & w & [<-|Hy] & Hf & Hw).
      * left. congruence.
      * right. eauto.
Qed.

Lemma collect_all {A B : Type} (f : A -> option (list B)) l r :
  collect f l = Some r -> forall x, In x l -> exists u, f x = Some u.
Proof.
  revert r. induction l as [|y t IH]; intros r H x Hin; [destruct Hin|]. cbn [collect] in H.
  destruct (f y) as [u|] eqn:Ey; [|discriminate]. destruct (collect f t) as [v|] eqn:Et; [|discriminate].
  destruct Hin as [<-|Hin]; [eauto|]. eapply IH; eauto.
Qed.

(* ---------------------------------------------------------------------------------------------- *)
(* segments of a path *)

Lemma segs_cons2 x y t : segs (x :: y :: t) = (x, y) :: segs (y :: t).
Proof. reflexivity. Qed.

Lemma segs_in : forall p a z, In (a, z) (segs p) -> In a p /\ In z (tl p).
Proof.
  induction p as [|x p IH]; intros a z H; [destruct H|].
  destruct p as [|y t]; [destruct H|]. rewrite segs_cons2 in H. destruct H as [[= <- <-]|H].
  - cbn. auto.
  - apply IH in H as [H1 H2]. split; [right; exact H1|]. cbn [tl] in *. right. exact H2.
Qed.

Lemma segs_fst_unique : forall p, NoDup p -> forall a z1 z2, In (a, z1) (segs p) -> In (a, z2) (segs p) -> z1 = z2.
Proof.
  induction p as [|x p IH]; intros Hnd a z1 z2 H1 H2; [destruct H1|].
  destruct p as [|y t]; [destruct H1|]. rewrite segs_cons2 in H1, H2.
  inversion Hnd as [|? ? Hx Hnd']; subst.
  destruct H1 as [E1|H1]; destruct H2 as [E2|H2].
  - congruence.
  - injection E1 as <- <-. apply segs_in in H2 as [H2 _]. contradiction.
  - injection E2 as <- <-. apply segs_in in H1 as [H1 _]. contradiction.
  - eapply IH; eauto.
Qed.

Lemma segs_snd_unique : forall p, NoDup p -> forall a1 a2 z, In (a1, z) (segs p) -> In (a2, z) (segs p) -> a1 = a2.
Proof.
  induction p as [|x p IH]; intros Hnd a1 a2 z H1 H2; [destruct H1|].
  destruct p as [|y t]; [destruct H1|]. rewrite segs_cons2 in H1, H2.
  inversion Hnd as [|? ? Hx Hnd']; subst. inversion Hnd' as [|? ? Hy _]; subst.
  destruct H1 as [E1|H1]; destruct H2 as [E2|H2].
  - congruence.
  - injection E1 as <- <-. apply segs_in in H2 as [_ H2]. cbn [tl] in H2. contradiction.
  - injection E2 as <- <-. apply segs_in in H1 as [_ H1]. cbn [tl] in H1. contradiction.
  - eapply IH; eauto.
Qed.

Lemma segs_mid : forall pre a z post, In (a, z) (segs (pre ++ a :: z :: post)).
Proof.
  induction pre as [|x pre IH]; intros a z post.
  - cbn [app]. rewrite segs_cons2. left. reflexivity.
  - cbn [app]. destruct pre as [|y pre'].
    + cbn [app]. rewrite segs_cons2. right. apply (IH a z post).
    + cbn [app]. rewrite segs_cons2. right. apply (IH a z post).
Qed.

Lemma segs_nth : forall p i a z, nth_error p i = Some a -> nth_error p (S i) = Some z -> In (a, z) (segs p).
Proof.
  induction p as [|x p IH]; intros i a z Ha Hz; [destruct i; discriminate|].
  destruct p as [|y t]; [destruct i as [|[|i]]; discriminate|]. rewrite segs_cons2.
  destruct i as [|i].
  - cbn in Ha, Hz. injection Ha as <-. injection Hz as <-. left. reflexivity.
  - right. eapply IH; [exact Ha|exact Hz].
Qed.

(* ---------------------------------------------------------------------------------------------- *)
(* the entries generate_fib writes *)

Definition fwd_of (nb : nbfun) (e : entry) (fl : flow) (a z : nat) : Prop :=
  e_node e = a /\ e_class e = fid fl /\ e_nh e = z /\ n2p (nb a) z = Some (e_port e).

Definition rev_of (nb : nbfun) (e : entry) (fl : flow) (a z : nat) : Prop :=
  e_node e = z /\ e_class e = ack_class (fid fl) /\ e_nh e = a /\ n2p (nb z) a = Some (e_port e).

Definition is_entry (nb : nbfun) (tcp : bool) (flows : list flow) (e : entry) : Prop :=
  exists fl a z, In fl flows /\ In (a, z) (segs (fpath fl)) /\ (fwd_of nb e fl a z \/ (tcp = true /\ rev_of nb e fl a z)).

Lemma seg_entries_in nb tcp fl a z u :
  seg_entries nb tcp (fid fl) (a, z) = Some u ->
  (forall e, In e u -> fwd_of nb e fl a z \/ (tcp = true /\ rev_of nb e fl a z)) /\
  (exists e, In e u /\ fwd_of nb e fl a z) /\
  (tcp = true -> exists e, In e u /\ rev_of nb e fl a z).
Proof.
  unfold seg_entries. destruct (n2p (nb a) z) as [port|] eqn:Ep; [|discriminate].
  destruct tcp.
  - destruct (n2p (nb z) a) as [rp|] eqn:Er; [|discriminate]. intros [= <-]. repeat split.
    + intros e [<-|[<-|[]]]; [left|right; split; auto]; repeat split; auto.
    + eexists; split; [left; reflexivity|]. repeat split; auto.
    + intros _. eexists; split; [right; left; reflexivity|]. repeat split; auto.
  - intros [= <-]. repeat split.
    + intros e [<-|[]]. left. repeat split; auto.
    + eexists; split; [left; reflexivity|]. repeat split; auto.
    + discriminate.
Qed.

Lemma gen_fib_entries nb tcp flows t :
  gen_fib nb tcp flows = Some t ->
  (forall e, In e t -> is_entry nb tcp flows e) /\
  (forall fl a z, In fl flows -> In (a, z) (segs (fpath fl)) ->
     (exists e, In e t /\ fwd_of nb e fl a z) /\ (tcp = true -> exists e, In e t /\ rev_of nb e fl a z)).
Proof.
  intros H. unfold gen_fib in H. split.
  - intros e He. apply (collect_in _ _ _ H) in He as (fl & u & Hfl & Hu & He).
    unfold flow_entries in Hu. apply (collect_in _ _ _ Hu) in He as ((a, z) & v & Hs & Hv & He).
    exists fl, a, z. split; [exact Hfl|]. split; [exact Hs|].
    apply (seg_entries_in nb tcp fl a z v Hv). exact He.
  - intros fl a z Hfl Hs.
    destruct (collect_all _ _ _ H fl Hfl) as [u Hu].
    unfold flow_entries in Hu. destruct (collect_all _ _ _ Hu (a, z) Hs) as [v Hv].
    destruct (seg_entries_in nb tcp fl a z v Hv) as (_ & (e & He & Hf) & Hr).
    assert (Hin : forall e, In e v -> In e t).
    { intros e' He'. apply (collect_in _ _ _ H). exists fl, u. split; [exact Hfl|]. split; [exact Hu|].
      apply (collect_in _ _ _ Hu). exists (a, z), v. auto. }
    split.
    + exists e. auto.
    + intros Ht. destruct (Hr Ht) as (e' & He' & Hr'). exists e'. auto.
Qed.

(* ---------------------------------------------------------------------------------------------- *)
(* the hypotheses on a family of flows *)

Definition walk_ok (nb : nbfun) (tcp : bool) (p : list nat) : Prop :=
  forall a z, In (a, z) (segs p) -> In z (nb a) /\ (tcp = true -> In a (nb z)).

Definition flows_ok (nb : nbfun) (tcp : bool) (flows : list flow) : Prop :=
  NoDup (map fid flows) /\
  forall fl, In fl flows -> (0 <= fid fl < 10000)%Z /\ NoDup (fpath fl) /\ walk_ok nb tcp (fpath fl).

Lemma same_fid flows fl1 fl2 : NoDup (map fid flows) -> In fl1 flows -> In fl2 flows -> fid fl1 = fid fl2 -> fl1 = fl2.
Proof.
  induction flows as [|x t IH]; intros Hnd H1 H2 Heq; [destruct H1|].
  cbn [map] in Hnd. inversion Hnd as [|? ? Hx Hnd']; subst.
  destruct H1 as [<-|H1]; destruct H2 as [<-|H2]; auto.
  - exfalso. apply Hx. rewrite Heq. apply in_map. exact H2.
  - exfalso. apply Hx. rewrite <- Heq. apply in_map. exact H1.
Qed.

Lemma gen_fib_succeeds nb tcp flows : flows_ok nb tcp flows -> exists t, gen_fib nb tcp flows = Some t.
Proof.
  intros (_ & Hok). unfold gen_fib. apply collect_some. intros fl Hfl.
  destruct (Hok fl Hfl) as (_ & _ & Hw). unfold flow_entries. apply collect_some. intros (a, z) Hs.
  destruct (Hw a z Hs) as (Hz & Ha). unfold seg_entries.
  destruct (n2p_complete (nb a) z Hz) as [port ->].
  destruct tcp; [|eauto]. destruct (n2p_complete (nb z) a (Ha eq_refl)) as [rp ->]. eauto.
Qed.

(* two assignments to the same (node, class) write the same value *)
Lemma entries_functional nb tcp flows : flows_ok nb tcp flows ->
  forall e1 e2, is_entry nb tcp flows e1 -> is_entry nb tcp flows e2 ->
  e_node e1 = e_node e2 -> e_class e1 = e_class e2 -> e_port e1 = e_port e2 /\ e_nh e1 = e_nh e2.
Proof.
  intros (Hnd & Hok) e1 e2 (f1 & a1 & z1 & Hf1 & Hs1 & K1) (f2 & a2 & z2 & Hf2 & Hs2 & K2) Hn Hc.
  destruct (Hok f1 Hf1) as (Hr1 & Hp1 & _). destruct (Hok f2 Hf2) as (Hr2 & Hp2 & _).
  unfold fwd_of, rev_of, ack_class in *.
  destruct K1 as [(<- & C1 & <- & P1)|(_ & <- & C1 & <- & P1)]; destruct K2 as [(<- & C2 & <- & P2)|(_ & <- & C2 & <- & P2)].
  - assert (f1 = f2) by (apply (same_fid flows); auto; congruence). subst f2.
    rewrite Hn in Hs1, P1.
    assert (E : e_nh e1 = e_nh e2) by (apply (segs_fst_unique (fpath f1) Hp1 _ _ _ Hs1 Hs2)).
    rewrite E in P1. split; congruence.
  - exfalso. rewrite C1, C2 in Hc. lia.
  - exfalso. rewrite C1, C2 in Hc. lia.
  - assert (fid f1 = fid f2) by (rewrite C1, C2 in Hc; lia).
    assert (f1 = f2) by (apply (same_fid flows); auto). subst f2.
    rewrite Hn in Hs1, P1.
    assert (E : e_nh e1 = e_nh e2) by (apply (segs_snd_unique (fpath f1) Hp1 _ _ _ Hs1 Hs2)).
    rewrite E in P1. split; congruence.
Qed.

(* ---------------------------------------------------------------------------------------------- *)
(* table lookup *)

Lemma tget_first_in l :
  (forall e1 e2, In e1 l -> In e2 l -> e_node e1 = e_node e2 -> e_class e1 = e_class e2 ->
                 e_port e1 = e_port e2 /\ e_nh e1 = e_nh e2) ->
  forall e, In e l -> tget_first l (e_node e) (e_class e) = Some (e_port e, e_nh e).
Proof.
  induction l as [|x t IH]; intros Hf e Hin; [destruct Hin|]. cbn [tget_first].
  destruct ((e_node x =? e_node e) && (e_class x =? e_class e)%Z) eqn:E.
  - apply andb_true_iff in E as [E1 E2]. apply Nat.eqb_eq in E1. apply Z.eqb_eq in E2.
    destruct (Hf x e (or_introl eq_refl) Hin E1 E2) as [-> ->]. reflexivity.
  - destruct Hin as [->|Hin].
    + rewrite Nat.eqb_refl, Z.eqb_refl in E. discriminate.
    + apply IH; auto. intros e1 e2 H1 H2. apply Hf; right; auto.
Qed.

Lemma tget_first_some l n c v :
  tget_first l n c = Some v -> exists e, In e l /\ e_node e = n /\ e_class e = c /\ v = (e_port e, e_nh e).
Proof.
  induction l as [|x t IH]; cbn [tget_first]; [discriminate|].
  destruct ((e_node x =? n) && (e_class x =? c)%Z) eqn:E.
  - intros [= <-]. apply andb_true_iff in E as [E1 E2]. apply Nat.eqb_eq in E1. apply Z.eqb_eq in E2.
    exists x. cbn [In]. auto.
  - intros H. destruct (IH H) as (e & He & K). exists e. cbn [In]. auto.
Qed.

Lemma tget_first_none l n c : (forall e, In e l -> ~ (e_node e = n /\ e_class e = c)) -> tget_first l n c = None.
Proof.
  intros H. destruct (tget_first l n c) as [v|] eqn:E; [|reflexivity].
  apply tget_first_some in E as (e & He & Hn & Hc & _). exfalso. apply (H e He). auto.
Qed.

Lemma node_fib_lookup t n c : lookup (node_fib t n) c = option_map (fun v => Z.of_nat (fst v)) (tget t n c).
Proof.
  unfold node_fib, tget. induction (rev t) as [|x l IH]; [reflexivity|].
  cbn [filter tget_first]. destruct (e_node x =? n) eqn:En; cbn [andb map lookup].
  - destruct (e_class x =? c)%Z; [reflexivity|exact IH].
  - exact IH.
Qed.

(* ---------------------------------------------------------------------------------------------- *)
(* fib_follows_path *)

Lemma in_rev1 {A} (l : list A) x : In x l -> In x (rev l).
Proof. apply in_rev. Qed.
Lemma in_rev2 {A} (l : list A) x : In x (rev l) -> In x l.
Proof. apply in_rev. Qed.

(* For any graph and any family of flows with pairwise distinct ids in [0, 10000) and simple paths
   (walks of the graph), generate_fib succeeds and its tables satisfy: at node n_i of a flow's path
   the port recorded for the flow leads to n_{i+1} (flow_to_nexthop says n_{i+1} too); with tcp the
   class f + 10000 at n_{i+1} leads back to n_i; without tcp no class >= 10000 is written. *)
Theorem fib_follows_path : forall (nb : nbfun) (tcp : bool) (flows : list flow),
  flows_ok nb tcp flows ->
  exists t, gen_fib nb tcp flows = Some t /\
    (forall fl i a z, In fl flows -> nth_error (fpath fl) i = Some a -> nth_error (fpath fl) (S i) = Some z ->
       (exists port, tget t a (fid fl) = Some (port, z) /\ p2n (nb a) port = Some z) /\
       (tcp = true -> exists rp, tget t z (ack_class (fid fl)) = Some (rp, a) /\ p2n (nb z) rp = Some a)) /\
    (tcp = false -> forall n c, (10000 <= c)%Z -> tget t n c = None).
Proof.
  intros nb tcp flows Hok. destruct (gen_fib_succeeds nb tcp flows Hok) as [t Ht]. exists t. split; [exact Ht|].
  destruct (gen_fib_entries nb tcp flows t Ht) as (Hall & Hex).
  assert (Hfun : forall e1 e2, In e1 (rev t) -> In e2 (rev t) -> e_node e1 = e_node e2 -> e_class e1 = e_class e2 ->
                               e_port e1 = e_port e2 /\ e_nh e1 = e_nh e2).
  { intros e1 e2 H1 H2. apply (entries_functional nb tcp flows Hok); apply Hall; apply in_rev2; assumption. }
  split.
  - intros fl i a z Hfl Ha Hz. pose proof (segs_nth _ _ _ _ Ha Hz) as Hs.
    destruct (Hex fl a z Hfl Hs) as ((e & He & (N & C & X & P)) & Hr). split.
    + exists (e_port e). unfold tget. rewrite <- N, <- C, <- X at 1.
      split; [apply tget_first_in; auto; apply in_rev1; exact He|].
      apply n2p_sound. exact P.
    + intros Htcp. destruct (Hr Htcp) as (e' & He' & (N' & C' & X' & P')).
      exists (e_port e'). unfold tget. rewrite <- N', <- C', <- X' at 1.
      split; [apply tget_first_in; auto; apply in_rev1; exact He'|].
      apply n2p_sound. exact P'.
  - intros Htcp n c Hc. unfold tget. apply tget_first_none. intros e He [Hn Hcl].
    apply in_rev2 in He. destruct (Hall e He) as (fl & a & z & Hfl & _ & [(_ & C & _)|(Hx & _)]).
    + destruct Hok as (_ & Hok). destruct (Hok fl Hfl) as (Hr & _). lia.
    + congruence.
Qed.

(* ---------------------------------------------------------------------------------------------- *)
(* routed delivery *)

Lemma lookup_some {V : Type} (l : list (Z * V)) c v : lookup l c = Some v -> In (c, v) l.
Proof.
  induction l as [|(k, w) t IH]; cbn [lookup]; [discriminate|].
  destruct (k =? c)%Z eqn:E; [intros [= <-]; apply Z.eqb_eq in E; subst; left; reflexivity|intros H; right; auto].
Qed.

Lemma lookup_none {V : Type} (l : list (Z * V)) c : (forall v, ~ In (c, v) l) -> lookup l c = None.
Proof.
  intros H. destruct (lookup l c) as [v|] eqn:E; [|reflexivity]. apply lookup_some in E. exfalso. eapply H; eauto.
Qed.

Lemma lookup_in_some {V : Type} (l : list (Z * V)) c v : In (c, v) l -> exists w, lookup l c = Some w.
Proof.
  induction l as [|(k, w) t IH]; intros Hin; [destruct Hin|]. cbn [lookup].
  destruct (k =? c)%Z eqn:E; [eauto|]. destruct Hin as [[= -> ->]|Hin]; [rewrite Z.eqb_refl in E; discriminate|auto].
Qed.

Lemma node_ends_in flows tcp n k v :
  In (k, v) (node_ends flows tcp n) <->
  exists fl, In fl flows /\ v = sink_of k /\
    ((last_node (fpath fl) = Some n /\ k = fid fl) \/
     (tcp = true /\ hd_error (fpath fl) = Some n /\ k = ack_class (fid fl))).
Proof.
  unfold node_ends. rewrite in_flat_map. split.
  - intros (fl & Hfl & Hin). exists fl. split; [exact Hfl|]. apply in_app_or in Hin as [Hin|Hin].
    + destruct (last_node (fpath fl)) as [d|] eqn:El; [|destruct Hin].
      destruct (d =? n) eqn:Ed; [|destruct Hin]. apply Nat.eqb_eq in Ed. subst d.
      destruct Hin as [[= <- <-]|[]]. auto.
    + destruct tcp; [|destruct Hin]. destruct (fpath fl) as [|s r] eqn:Ep; [destruct Hin|].
      destruct (s =? n) eqn:Es; [|destruct Hin]. apply Nat.eqb_eq in Es. subst s.
      destruct Hin as [[= <- <-]|[]]. split; [reflexivity|]. right. auto.
  - intros (fl & Hfl & -> & [(Hl & ->)|(-> & Hh & ->)]); exists fl; (split; [exact Hfl|]); apply in_or_app.
    + left. rewrite Hl, Nat.eqb_refl. left. reflexivity.
    + right. destruct (fpath fl) as [|s r]; [discriminate|]. cbn in Hh. injection Hh as ->.
      rewrite Nat.eqb_refl. left. reflexivity.
Qed.

Lemma last_node_app pre a : last_node (pre ++ [a]) = Some a.
Proof. unfold last_node. rewrite rev_app_distr. reflexivity. Qed.

Lemma last_node_in p d : last_node p = Some d -> In d p.
Proof.
  unfold last_node. destruct (rev p) as [|x r] eqn:E; [discriminate|]. intros [= <-].
  apply in_rev. rewrite E. left. reflexivity.
Qed.

Lemma last_node_cons x l : last_node (x :: l) = match l with [] => Some x | _ :: _ => last_node l end.
Proof.
  unfold last_node. cbn [rev]. destruct l as [|y t]; [reflexivity|]. cbn [rev].
  destruct (rev t ++ [y]) as [|q qs] eqn:E; [destruct (rev t); discriminate|]. reflexivity.
Qed.

Lemma seg_not_last : forall l x z, NoDup l -> In (x, z) (segs l) -> last_node l <> Some x.
Proof.
  induction l as [|u l IH]; intros x z Hn H; [destruct H|]. destruct l as [|v r]; [destruct H|].
  rewrite segs_cons2 in H. rewrite last_node_cons. inversion Hn as [|? ? Hu Hn']; subst.
  destruct H as [[= <- <-]|H].
  - intros Hl. apply last_node_in in Hl. contradiction.
  - apply (IH x z Hn' H).
Qed.

(* one hop of the switch at node a *)
Lemma route_step_out fuel w a c visited port z :
  lookup (node_ends (n_flows w) (n_tcp w) a) c = None ->
  tget (n_tbl w) a c = Some (port, z) -> p2n (n_nb w a) port = Some z -> port < n_nports w a ->
  route true true (S fuel) w a c visited = route true true fuel w z c (visited ++ [a]).
Proof.
  intros He Ht Hp Hn. cbn [route].
  destruct (fibdemux_rule (node_cfg w a) (node_fib (n_tbl w) a) c eq_refl) as (_ & H).
  destruct (H He) as (Hout & _ & _).
  rewrite (Hout (Z.of_nat port)).
  - rewrite Nat2Z.id, Hp. reflexivity.
  - rewrite node_fib_lookup, Ht. reflexivity.
  - cbn [node_cfg nouts fb_outs]. lia.
Qed.

Lemma route_step_end fuel w a c visited d :
  lookup (node_ends (n_flows w) (n_tcp w) a) c = Some d ->
  route true true (S fuel) w a c visited = Delivered d (visited ++ [a]).
Proof.
  intros He. cbn [route].
  destruct (fibdemux_rule (node_cfg w a) (node_fib (n_tbl w) a) c eq_refl) as (H & _).
  rewrite (H d He). reflexivity.
Qed.

(* following the tables along a path whose last node holds the end device *)
Lemma route_along w c s : forall post pre a fuel,
  (forall x z, In (x, z) (segs (a :: post)) ->
     lookup (node_ends (n_flows w) (n_tcp w) x) c = None /\
     exists port, tget (n_tbl w) x c = Some (port, z) /\ p2n (n_nb w x) port = Some z /\ port < n_nports w x) ->
  (forall d, last_node (a :: post) = Some d -> lookup (node_ends (n_flows w) (n_tcp w) d) c = Some s) ->
  length post < fuel ->
  route true true fuel w a c pre = Delivered s (pre ++ a :: post).
Proof.
  induction post as [|z post IH]; intros pre a fuel Hseg Hlast Hfuel.
  - destruct fuel as [|fuel]; [cbn in Hfuel; lia|]. apply route_step_end. apply Hlast. reflexivity.
  - destruct fuel as [|fuel]; [cbn in Hfuel; lia|].
    destruct (Hseg a z) as (He & port & Ht & Hp & Hn); [rewrite segs_cons2; left; reflexivity|].
    rewrite (route_step_out fuel w a c pre port z He Ht Hp Hn).
    rewrite (IH (pre ++ [a]) z fuel).
    + rewrite <- app_assoc. reflexivity.
    + intros x y Hin. apply Hseg. rewrite segs_cons2. right. exact Hin.
    + intros d Hd. apply Hlast. rewrite last_node_cons. exact Hd.
    + cbn [length] in Hfuel. lia.
Qed.

Lemma segs_rev : forall p a z, In (a, z) (segs (rev p)) -> In (z, a) (segs p).
Proof.
  intros p a z Hin.
  assert (G : forall l x y, In (x, y) (segs l) -> exists pre post, l = pre ++ x :: y :: post).
  { induction l as [|u l IH]; intros x y H; [destruct H|]. destruct l as [|v t]; [destruct H|].
    rewrite segs_cons2 in H. destruct H as [[= <- <-]|H].
    - exists [], t. reflexivity.
    - destruct (IH x y H) as (pre & post & E). exists (u :: pre), post. rewrite E. reflexivity. }
  destruct (G _ _ _ Hin) as (pre & post & E).
  assert (p = rev post ++ z :: a :: rev pre).
  { rewrite <- (rev_involutive p), E. rewrite rev_app_distr. cbn [rev]. rewrite <- !app_assoc. reflexivity. }
  subst p. apply segs_mid.
Qed.

Definition mk_net (nb : nbfun) (t : table) (flows : list flow) (tcp : bool) (nports : nat -> nat) : net :=
  {| n_nb := nb; n_tbl := t; n_flows := flows; n_tcp := tcp; n_nports := nports |}.

(* In the network of FIB switches wired by the generated tables (switch of node n: fib = flow_to_port[n],
   port i linked to port_to_nexthop[n][i], at least one port per neighbour), with the sink of every flow
   registered at the flow's destination (and with tcp the ACK sink at its source):
   a packet of flow f put into the source's switch visits exactly the nodes of f's path, in order, and
   is handed to f's own sink; an ACK (class f + 10000) put in at the destination travels the reverse
   path to the ACK sink.  route is a function: the packet reaches nothing else. *)
Theorem routed_delivery : forall (nb : nbfun) (tcp : bool) (flows : list flow) (t : table) (nports : nat -> nat),
  flows_ok nb tcp flows -> gen_fib nb tcp flows = Some t ->
  forall fl src rest fuel, In fl flows -> fpath fl = src :: rest -> length (fpath fl) <= fuel ->
    (forall n, In n (fpath fl) -> length (nb n) <= nports n) ->
    route true true fuel (mk_net nb t flows tcp nports) src (fid fl) [] = Delivered (sink_of (fid fl)) (fpath fl) /\
    (tcp = true -> forall dst, last_node (fpath fl) = Some dst ->
       route true true fuel (mk_net nb t flows tcp nports) dst (ack_class (fid fl)) []
       = Delivered (sink_of (ack_class (fid fl))) (rev (fpath fl))).
Proof.
  intros nb tcp flows t nports Hok Ht fl src rest fuel Hfl Hpath Hfuel Hports.
  destruct (fib_follows_path nb tcp flows Hok) as (t' & Ht' & Hfollow & _).
  rewrite Ht in Ht'. injection Ht' as <-.
  destruct Hok as (Hnd & Hok). destruct (Hok fl Hfl) as (Hrange & Hpnd & _).
  set (w := mk_net nb t flows tcp nports).
  assert (Hnth : forall a z, In (a, z) (segs (fpath fl)) -> exists i, nth_error (fpath fl) i = Some a /\ nth_error (fpath fl) (S i) = Some z).
  { generalize (fpath fl). induction l as [|u l IH]; intros a z H; [destruct H|]. destruct l as [|v r]; [destruct H|].
    rewrite segs_cons2 in H. destruct H as [[= <- <-]|H]; [exists 0; auto|].
    destruct (IH a z H) as (i & H1 & H2). exists (S i). auto. }
  assert (Hport : forall a port z, In a (fpath fl) -> p2n (nb a) port = Some z -> port < nports a).
  { intros a port z Ha Hp. unfold p2n in Hp. assert (port < length (nb a)) by (apply nth_error_Some; congruence).
    specialize (Hports a Ha). lia. }
  split.
  - rewrite Hpath.
    apply (route_along w (fid fl) (sink_of (fid fl)) rest [] src fuel).
    + rewrite <- Hpath. intros x z Hin. split.
      * apply lookup_none. intros v Hv. apply node_ends_in in Hv as (fl' & Hfl' & _ & [(Hl & Hk)|(_ & _ & Hk)]).
        -- assert (fl' = fl) by (apply (same_fid flows); auto). subst fl'.
           apply (seg_not_last (fpath fl) x z Hpnd Hin Hl).
        -- destruct (Hok fl' Hfl') as (Hr' & _). unfold ack_class in Hk. lia.
      * destruct (Hnth x z Hin) as (i & H1 & H2).
        destruct (Hfollow fl i x z Hfl H1 H2) as ((port & Hg & Hp) & _).
        exists port. repeat split; auto. apply (Hport x port z); auto. apply segs_in in Hin as [Hin _]. exact Hin.
    + rewrite <- Hpath. intros d Hd.
      destruct (lookup_in_some (node_ends flows tcp d) (fid fl) (sink_of (fid fl))) as [s Hs].
      { apply node_ends_in. exists fl. auto. }
      cbn [w mk_net n_flows n_tcp]. rewrite Hs. f_equal.
      apply lookup_some in Hs. apply node_ends_in in Hs as (_ & _ & -> & _). reflexivity.
    + rewrite Hpath in Hfuel. cbn [length] in Hfuel. lia.
  - intros Htcp dst Hdst.
    assert (Hrev : rev (fpath fl) = dst :: tl (rev (fpath fl))).
    { unfold last_node in Hdst. destruct (rev (fpath fl)) as [|q qs]; [discriminate|]. injection Hdst as ->. reflexivity. }
    rewrite Hrev.
    apply (route_along w (ack_class (fid fl)) (sink_of (ack_class (fid fl))) (tl (rev (fpath fl))) [] dst fuel).
    + rewrite <- Hrev. intros x z Hin. apply segs_rev in Hin. split.
      * apply lookup_none. intros v Hv. apply node_ends_in in Hv as (fl' & Hfl' & _ & [(_ & Hk)|(_ & Hh & Hk)]).
        -- destruct (Hok fl' Hfl') as (Hr' & _). unfold ack_class in Hk. lia.
        -- assert (fid fl' = fid fl) by (unfold ack_class in Hk; lia).
           assert (fl' = fl) by (apply (same_fid flows); auto). subst fl'.
           (* x would be the first node of the path, but it has a predecessor z *)
           rewrite Hpath in Hh, Hin, Hpnd. cbn in Hh. injection Hh as ->.
           apply segs_in in Hin as (_ & Hin). cbn [tl] in Hin. inversion Hpnd; contradiction.
      * destruct (Hnth z x Hin) as (i & H1 & H2).
        destruct (Hfollow fl i z x Hfl H1 H2) as (_ & Hr). destruct (Hr Htcp) as (rp & Hg & Hp).
        exists rp. repeat split; auto. apply (Hport x rp z); auto.
        apply segs_in in Hin as [_ Hin]. destruct (fpath fl) as [|u l]; [destruct Hin|]. right. exact Hin.
    + rewrite <- Hrev. intros d Hd.
      assert (d = src).
      { unfold last_node in Hd. rewrite rev_involutive, Hpath in Hd. congruence. }
      subst d.
      destruct (lookup_in_some (node_ends flows tcp src) (ack_class (fid fl)) (sink_of (ack_class (fid fl)))) as [s Hs].
      { apply node_ends_in. exists fl. split; [exact Hfl|]. split; [reflexivity|]. right. rewrite Hpath. auto. }
      cbn [w mk_net n_flows n_tcp]. rewrite Hs. f_equal.
      apply lookup_some in Hs. apply node_ends_in in Hs as (_ & _ & -> & _). reflexivity.
    + assert (length (rev (fpath fl)) = S (length (tl (rev (fpath fl))))) by (rewrite Hrev at 1; reflexivity).
      rewrite rev_length in H. lia.
Qed.

Example routed_delivery_ex :
  (* a triangle with a tail: 0-1, 1-2, 0-2, 2-3; two flows, the second shares the link 1-2 *)
  let nb := nbfun_of [[1; 2]; [0; 2]; [1; 0; 3]; [2]] in
  let flows := [ {| fid := 5%Z; fpath := [0; 1; 2; 3] |}; {| fid := 6%Z; fpath := [1; 2] |} ] in
  match gen_fib nb true flows with
  | Some t =>
      route true true 9 (mk_net nb t flows true (fun n => length (nb n))) 0 5%Z [] = Delivered 5 [0; 1; 2; 3] /\
      route true true 9 (mk_net nb t flows true (fun n => length (nb n))) 3 10005%Z [] = Delivered (Z.to_nat 10005) [3; 2; 1; 0] /\
      route true true 9 (mk_net nb t flows true (fun n => length (nb n))) 1 6%Z [] = Delivered 6 [1; 2]
  | None => False
  end.
Proof. vm_compute. repeat split. Qed.

(* with the FIBDemux as found (an empty table raises) the destination of a flow that sends nothing
   itself cannot receive: the theorem fails on the smallest network *)
Theorem routed_delivery_refuted_before_fix :
  exists nb flows t fl, flows_ok nb false flows /\ gen_fib nb false flows = Some t /\ In fl flows /\
    route false true 5 (mk_net nb t flows false (fun n => length (nb n))) 0 (fid fl) [] = Raised ValueError [0; 1].
Proof.
  exists (nbfun_of [[1]; [0]]), [ {| fid := 0%Z; fpath := [0; 1] |} ].
  eexists. exists {| fid := 0%Z; fpath := [0; 1] |}.
  split; [|split; [reflexivity|split; [left; reflexivity|reflexivity]]].
  split; [repeat constructor; intros []|].
  intros fl [<-|[]]. cbn [fid fpath]. split; [lia|]. split.
  - repeat constructor; cbn; intuition discriminate.
  - intros a z [[= <- <-]|[]]. split; [left; reflexivity|discriminate].
Qed.
