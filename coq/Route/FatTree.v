(* Model of onl/topo/fattree.py : FatTree.__init__ -- the node numbering and the edges of the k-ary
   fat tree, in the insertion order of the constructor (the order decides the port numbers that
   generate_fib derives from networkx' adjacency order).  Executable; no proofs here.

   Numbering of the constructor, h = k // 2:
     core            c                           0 <= c < h*h
     aggregation     h*h + pod*k + a             pod < k, a < h     (topo.number_of_nodes() = h*h + pod*k at pod start)
     edge            h*h + pod*k + h + e         pod < k, e < h
     host            h*h + k*k + (pod*h + e)*h + i      the i-th host of the (pod*h+e)-th edge switch *)
From Coq Require Import List Bool Arith.
From ONL Require Import Base.Cmp.
Import ListNotations.
Open Scope nat_scope.

(* an undirected graph as networkx builds it: the edges in insertion order *)
Definition graph := list (nat * nat).

(* list(nx.neighbors(g, v)): adjacency in the order the edges touching v were added *)
Definition nbrs (g : graph) (v : nat) : list nat :=
  flat_map (fun e => if fst e =? v then [snd e] else if snd e =? v then [fst e] else []) g.

Definition degree (g : graph) (v : nat) : nat := length (nbrs g v).

Definition ncore (k : nat) : nat := (k / 2) * (k / 2).
Definition aggr (k p a : nat) : nat := ncore k + p * k + a.
Definition edge (k p e : nat) : nat := ncore k + p * k + k / 2 + e.
Definition host (k p e i : nat) : nat := ncore k + k * k + (p * (k / 2) + e) * (k / 2) + i.

(* topo.add_edges_from([(u, v) for u in aggr_nodes for v in edge_nodes]) per pod *)
Definition ft_edges_pod (k : nat) : graph :=
  flat_map (fun p => flat_map (fun a => map (fun e => (aggr k p a, edge k p e)) (seq 0 (k / 2))) (seq 0 (k / 2))) (seq 0 k).

(* for core_node in range(n_core): for pod in range(k): add_edge(core_node, n_core + core_node // (k // 2) + k * pod) *)
Definition ft_edges_core (k : nat) : graph :=
  flat_map (fun c => map (fun p => (c, ncore k + c / (k / 2) + k * p)) (seq 0 k)) (seq 0 (ncore k)).

(* for u in edge switches (in node order): the next k//2 fresh node numbers are its hosts *)
Definition ft_edges_host (k : nat) : graph :=
  flat_map (fun p => flat_map (fun e => map (fun i => (edge k p e, host k p e i)) (seq 0 (k / 2))) (seq 0 (k / 2))) (seq 0 k).

Definition ft_edges (k : nat) : graph := ft_edges_pod k ++ ft_edges_core k ++ ft_edges_host k.

(* node sets, each in increasing order, with the pod attribute where the constructor sets one *)
Definition ft_cores (k : nat) : list nat := seq 0 (ncore k).
Definition ft_aggrs (k : nat) : list nat := flat_map (fun p => map (aggr k p) (seq 0 (k / 2))) (seq 0 k).
Definition ft_edgesw (k : nat) : list nat := flat_map (fun p => map (edge k p) (seq 0 (k / 2))) (seq 0 k).
Definition ft_hosts (k : nat) : list nat :=
  flat_map (fun p => flat_map (fun e => map (host k p e) (seq 0 (k / 2))) (seq 0 (k / 2))) (seq 0 k).
Definition ft_switches (k : nat) : list nat := ft_cores k ++ ft_aggrs k ++ ft_edgesw k.
Definition ft_nnodes (k : nat) : nat := ncore k + k * k + k * (k / 2) * (k / 2).

(* (node, pod) for the nodes that carry a pod attribute *)
Definition ft_aggr_pods (k : nat) : list (nat * nat) := flat_map (fun p => map (fun a => (aggr k p a, p)) (seq 0 (k / 2))) (seq 0 k).
Definition ft_edge_pods (k : nat) : list (nat * nat) := flat_map (fun p => map (fun e => (edge k p e, p)) (seq 0 (k / 2))) (seq 0 k).
Definition ft_host_pods (k : nat) : list (nat * nat) :=
  flat_map (fun p => flat_map (fun e => map (fun i => (host k p e i, p)) (seq 0 (k / 2))) (seq 0 (k / 2))) (seq 0 k).


(* ---------------------------------------------------------------------------------------------- *)
(* Structured names of the nodes, and the distance between hosts *)
Inductive coord :=
| Core (a b : nat)          (* core switch a*h + b: attached to aggregation switch a of every pod *)
| Aggr (p a : nat)
| Edge (p e : nat)
| Host (p e i : nat).

Definition num (k : nat) (c : coord) : nat :=
  match c with
  | Core a b => a * (k / 2) + b
  | Aggr p a => aggr k p a
  | Edge p e => edge k p e
  | Host p e i => host k p e i
  end.

Definition decode (k : nat) (v : nat) : coord :=
  let h := k / 2 in
  if v <? ncore k then Core (v / h) (v mod h)
  else if v <? ncore k + k * k then
    let w := v - ncore k in
    if w mod k <? h then Aggr (w / k) (w mod k) else Edge (w / k) (w mod k - h)
  else
    let w := v - (ncore k + k * k) in
    Host (w / h / h) ((w / h) mod h) (w mod h).

Definition is_host (k v : nat) : bool := (ncore k + k * k <=? v) && (v <? ft_nnodes k).

(* the hosts attached to an edge switch *)
Definition hosts_of (k : nat) (sw : nat) : list nat := filter (is_host k) (nbrs (ft_edges k) sw).

(* hop distance between two hosts: 2 under one edge switch, 4 in one pod, 6 otherwise *)
Definition hostdist (k x y : nat) : nat :=
  match decode k x, decode k y with
  | Host p e i, Host q f j =>
      if (p =? q) && (e =? f) && (i =? j) then 0
      else if (p =? q) && (e =? f) then 2
      else if p =? q then 4 else 6
  | _, _ => 0
  end.

(* ---------------------------------------------------------------------------------------------- *)
(* Checker for a generated path (evaluated per run on the paths networkx returned) *)
Definition adjb (g : graph) (u v : nat) : bool :=
  existsb (fun e => ((fst e =? u) && (snd e =? v)) || ((fst e =? v) && (snd e =? u))) g.

Fixpoint walkb (g : graph) (p : list nat) : bool :=
  match p with
  | a :: ((z :: _) as t) => adjb g a z && walkb g t
  | _ => true
  end.

Fixpoint nodupb (l : list nat) : bool :=
  match l with
  | [] => true
  | x :: t => negb (existsb (Nat.eqb x) t) && nodupb t
  end.

Definition path_ok (k : nat) (src dst : nat) (p : list nat) : bool :=
  is_host k src && is_host k dst && negb (src =? dst) &&
  (hd (S (ft_nnodes k)) p =? src) && (last p (S (ft_nnodes k)) =? dst) &&
  walkb (ft_edges k) p && nodupb p && (length p =? S (hostdist k src dst)).

(* ---------------------------------------------------------------------------------------------- *)
(* helpers for the correspondence: the whole adjacency (ordered neighbour lists) and node attributes *)
Definition adjtab (g : graph) (n : nat) : list (list nat) := map (nbrs g) (seq 0 n).

Definition ft_adj_agree (k : nat) (adj : list (list nat)) : bool :=
  list_eqb listN_eqb (adjtab (ft_edges k) (ft_nnodes k)) adj.

Definition listNN_eqb := list_eqb (pair_eqb Nat.eqb Nat.eqb).

Definition ft_agree (k : nat) (adj : list (list nat)) (cores : list nat) (aggrs edges leafs : list (nat * nat))
           (hosts : list nat) (nedges : nat) : bool :=
  ft_adj_agree k adj && listN_eqb (ft_cores k) cores && listNN_eqb (ft_aggr_pods k) aggrs &&
  listNN_eqb (ft_edge_pods k) edges && listNN_eqb (ft_host_pods k) leafs && listN_eqb (ft_hosts k) hosts &&
  (length (ft_edges k) =? nedges).
