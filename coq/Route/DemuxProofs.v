(* Proofs about Route/Demux.v: the lookup rules of FlowDemux / FIBDemux, exactly one output,
   the switches route by the same rules; refutations of the unrepaired variants. *)
From Coq Require Import ZArith List Bool Lia.
From ONL Require Import Route.Demux.
Import ListNotations.
Open Scope Z_scope.

Lemma py_index_in_range n i : 0 <= i < Z.of_nat n -> py_index n i = Some (Z.to_nat i).
Proof.
  intros H. unfold py_index.
  destruct (0 <=? i) eqn:E1; [|apply Z.leb_gt in E1; lia].
  destruct (i <? Z.of_nat n) eqn:E2; [|apply Z.ltb_ge in E2; lia].
  reflexivity.
Qed.

Lemma py_index_out_of_range n i : i < - Z.of_nat n \/ Z.of_nat n <= i -> py_index n i = None.
Proof.
  intros H. unfold py_index.
  destruct (0 <=? i) eqn:E1; destruct (i <? Z.of_nat n) eqn:E2; cbn [andb];
    destruct (i <? 0) eqn:E3; destruct (- Z.of_nat n <=? i) eqn:E4; cbn [andb]; try reflexivity;
    repeat match goal with
    | H : (_ <=? _) = true |- _ => apply Z.leb_le in H
    | H : (_ <=? _) = false |- _ => apply Z.leb_gt in H
    | H : (_ <? _) = true |- _ => apply Z.ltb_lt in H
    | H : (_ <? _) = false |- _ => apply Z.ltb_ge in H
    end; lia.
Qed.

Lemma py_index_negative n i : - Z.of_nat n <= i < 0 -> py_index n i = Some (Z.to_nat (Z.of_nat n + i)).
Proof.
  intros H. unfold py_index.
  destruct (0 <=? i) eqn:E1; [apply Z.leb_le in E1; lia|]. cbn [andb].
  destruct (i <? 0) eqn:E3; [|apply Z.ltb_ge in E3; lia].
  destruct (- Z.of_nat n <=? i) eqn:E4; [|apply Z.leb_gt in E4; lia].
  reflexivity.
Qed.

Lemma py_index_bound n i j : py_index n i = Some j -> (j < n)%nat.
Proof.
  unfold py_index.
  destruct (0 <=? i) eqn:E1; destruct (i <? Z.of_nat n) eqn:E2; cbn [andb].
  - intros [= <-]. apply Z.leb_le in E1. apply Z.ltb_lt in E2. lia.
  - destruct (i <? 0) eqn:E3; [apply Z.leb_le in E1; apply Z.ltb_lt in E3; lia|]. cbn [andb]. discriminate.
  - destruct (i <? 0) eqn:E3; destruct (- Z.of_nat n <=? i) eqn:E4; cbn [andb]; try discriminate.
    intros [= <-]. apply Z.ltb_lt in E3. apply Z.leb_le in E4. lia.
  - destruct (i <? 0) eqn:E3; destruct (- Z.of_nat n <=? i) eqn:E4; cbn [andb]; try discriminate.
    intros [= <-]. apply Z.ltb_lt in E3. apply Z.leb_le in E4. lia.
Qed.

(* ---------------------------------------------------------------------------------------------- *)
(* FlowDemux: flow f goes to output f, else to the default output, else nowhere; never an error *)
Theorem flowdemux_rule : forall (c : flowdemux_cfg) (f : Z),
  (0 <= f < Z.of_nat (fd_nouts c) -> flowdemux true c f = OOut (Z.to_nat f)) /\
  (~ (0 <= f < Z.of_nat (fd_nouts c)) -> fd_default c = true -> flowdemux true c f = ODefault) /\
  (~ (0 <= f < Z.of_nat (fd_nouts c)) -> fd_default c = false -> flowdemux true c f = ONowhere).
Proof.
  intros c f. unfold flowdemux, dflt. repeat split.
  - intros H. rewrite (py_index_in_range _ _ H).
    destruct (0 <=? f) eqn:E1; [|apply Z.leb_gt in E1; lia].
    destruct (f <? Z.of_nat (fd_nouts c)) eqn:E2; [|apply Z.ltb_ge in E2; lia]. reflexivity.
  - intros H D. rewrite D.
    destruct (0 <=? f) eqn:E1; destruct (f <? Z.of_nat (fd_nouts c)) eqn:E2; cbn [andb]; try reflexivity.
    apply Z.leb_le in E1. apply Z.ltb_lt in E2. lia.
  - intros H D. rewrite D.
    destruct (0 <=? f) eqn:E1; destruct (f <? Z.of_nat (fd_nouts c)) eqn:E2; cbn [andb]; try reflexivity.
    apply Z.leb_le in E1. apply Z.ltb_lt in E2. lia.
Qed.

Example flowdemux_rule_ex :
  map (flowdemux true {| fd_nouts := 3; fd_default := true |}) [0; 2; 3; -1; -3; -4]
  = [OOut 0; OOut 2; ODefault; ODefault; ODefault; ODefault].
Proof. reflexivity. Qed.

(* the code as found: a negative flow id reaches an output (or raises) *)
Theorem flowdemux_refuted_before_fix :
  exists c f, f < 0 /\ flowdemux false c f = OOut 1 /\
  exists c' f', f' < 0 /\ flowdemux false c' f' = OError IndexError.
Proof.
  exists {| fd_nouts := 2; fd_default := true |}, (-1). split; [lia|]. split; [reflexivity|].
  exists {| fd_nouts := 2; fd_default := true |}, (-3). split; [lia|]. reflexivity.
Qed.

(* ---------------------------------------------------------------------------------------------- *)
(* FIBDemux *)
Definition table_of (c : fibdemux_cfg) : list (Z * Z) := match fb_fib c with Some t => t | None => [] end.

(* end device if registered; else outs[fib[f]]; else default; else nowhere.  Any table, the empty
   one included; any output list, the empty one and None included. *)
Theorem fibdemux_rule : forall (c : fibdemux_cfg) (t : list (Z * Z)) (f : Z),
  fb_fib c = Some t ->
  (forall d, lookup (fb_ends c) f = Some d -> fibdemux true true c f = OEnd d) /\
  (lookup (fb_ends c) f = None ->
     (forall p, lookup t f = Some p -> 0 <= p < Z.of_nat (nouts c) -> fibdemux true true c f = OOut (Z.to_nat p)) /\
     (forall p, lookup t f = Some p -> (p < - Z.of_nat (nouts c) \/ Z.of_nat (nouts c) <= p) ->
                fibdemux true true c f = dflt (fb_default c)) /\
     (lookup t f = None -> fibdemux true true c f = dflt (fb_default c))).
Proof.
  intros c t f Ht. unfold fibdemux. rewrite Ht.
  assert (Hm : fib_missing true (Some t) = false) by (destruct t; reflexivity).
  rewrite Hm. split.
  - intros d Hd. rewrite Hd. reflexivity.
  - intros He. rewrite He. cbn [negb andb]. repeat split.
    + intros p Hp Hr. rewrite Hp. rewrite (py_index_in_range _ _ Hr). reflexivity.
    + intros p Hp Hr. rewrite Hp. rewrite (py_index_out_of_range _ _ Hr). reflexivity.
    + intros Hn. rewrite Hn. reflexivity.
Qed.

(* in particular the empty table {} sends every flow without an end device to the default output *)
Corollary fibdemux_empty_table : forall c f,
  fb_fib c = Some [] -> lookup (fb_ends c) f = None -> fibdemux true true c f = dflt (fb_default c).
Proof.
  intros c f Ht He. destruct (fibdemux_rule c [] f Ht) as [_ H]. destruct (H He) as (_ & _ & H3). apply H3. reflexivity.
Qed.

(* a table is required: with fib = None put() raises and nothing is handed out *)
Lemma fibdemux_no_table : forall c f, fb_fib c = None -> fibdemux true true c f = OError ValueError.
Proof. intros c f H. unfold fibdemux. rewrite H. reflexivity. Qed.

(* a negative port number inside the range indexes from the end, as Python does (faithful; outside the rule) *)
Lemma fibdemux_negative_port : forall c t f p,
  fb_fib c = Some t -> lookup (fb_ends c) f = None -> lookup t f = Some p -> - Z.of_nat (nouts c) <= p < 0 ->
  fibdemux true true c f = OOut (Z.to_nat (Z.of_nat (nouts c) + p)).
Proof.
  intros c t f p Ht He Hp Hr. unfold fibdemux. rewrite Ht.
  assert (Hm : fib_missing true (Some t) = false) by (destruct t; reflexivity).
  rewrite Hm, He. cbn [negb andb]. rewrite Hp, (py_index_negative _ _ Hr). reflexivity.
Qed.

(* with a table the repaired FIBDemux never raises, whatever the table, outputs, ends, flow *)
Theorem fibdemux_total : forall c t f, fb_fib c = Some t -> forall e, fibdemux true true c f <> OError e.
Proof.
  intros c t f Ht e. unfold fibdemux. rewrite Ht.
  assert (Hm : fib_missing true (Some t) = false) by (destruct t; reflexivity).
  rewrite Hm. cbn [negb andb].
  destruct (lookup (fb_ends c) f); [discriminate|].
  destruct (lookup t f) as [p|]; [destruct (py_index (nouts c) p)|]; unfold dflt; try destruct (fb_default c); discriminate.
Qed.

Example fibdemux_rule_ex :
  let c := {| fb_fib := Some [(3, 1); (4, 7); (5, -1)]; fb_outs := Some 2%nat; fb_ends := [(9, 4%nat)]; fb_default := true |} in
  map (fibdemux true true c) [9; 3; 4; 6; -1] = [OEnd 4; OOut 1; ODefault; ODefault; ODefault]
  /\ map (fibdemux true true {| fb_fib := Some []; fb_outs := Some 0%nat; fb_ends := []; fb_default := true |}) [0; 1] = [ODefault; ODefault].
Proof. split; reflexivity. Qed.

(* the code as found: the empty table raises; no outputs raises instead of using the default *)
Theorem fibdemux_refuted_before_fix :
  (exists c f, fb_fib c = Some [] /\ fb_default c = true /\ fibdemux false true c f = OError ValueError) /\
  (exists c t f, fb_fib c = Some t /\ nouts c = 0%nat /\ fb_default c = true /\ lookup (fb_ends c) f = None /\
                 fibdemux true false c f = OError AssertionError).
Proof.
  split.
  - exists {| fb_fib := Some []; fb_outs := Some 2%nat; fb_ends := []; fb_default := true |}, 3. repeat split.
  - exists {| fb_fib := Some [(3, 0)]; fb_outs := Some 0%nat; fb_ends := []; fb_default := true |}, [(3, 0)], 3. repeat split.
Qed.

(* ---------------------------------------------------------------------------------------------- *)
(* every packet reaches exactly one output: the list of devices that receive the packet is the
   singleton of the decision whenever the decision is a device, and empty otherwise; also when the
   chosen output raises from its own put() (then the exception reaches the caller). *)
Theorem exactly_one_output : forall c raising f,
  let r := fib_deliveries true true true c raising f in
  (deliverable (fibdemux true true c f) = true -> fst r = [fibdemux true true c f]) /\
  (deliverable (fibdemux true true c f) = false -> fst r = []) /\
  (length (fst r) <= 1)%nat /\
  (forall i, fibdemux true true c f = OOut i -> In i raising -> snd r = Some KeyError).
Proof.
  intros c raising f. unfold fib_deliveries.
  destruct (fibdemux true true c f) as [d|i| | |e] eqn:E; cbn [deliverable].
  - repeat split; intros; try discriminate; cbn; auto.
  - destruct (existsb (Nat.eqb i) raising) eqn:Ex; cbn [fst snd].
    + repeat split; intros; try discriminate; cbn; auto.
    + repeat split; intros; try discriminate; cbn; auto.
      match goal with H : OOut _ = OOut _ |- _ => injection H as <- end.
      assert (existsb (Nat.eqb i) raising = true) as Hx.
      { apply existsb_exists. exists i. split; auto. apply Nat.eqb_refl. }
      congruence.
  - repeat split; intros; try discriminate; cbn; auto.
  - repeat split; intros; try discriminate; cbn; auto.
  - repeat split; intros; try discriminate; cbn; auto.
Qed.

Theorem flowdemux_exactly_one : forall c f,
  exists o, flowdemux true c f = o /\ (o = OOut (Z.to_nat f) \/ o = ODefault \/ o = ONowhere).
Proof.
  intros c f. destruct (flowdemux_rule c f) as (H1 & H2 & H3).
  destruct (Z_le_dec 0 f) as [Ha|Ha]; [destruct (Z_lt_dec f (Z.of_nat (fd_nouts c))) as [Hb|Hb]|].
  - eexists; split; [reflexivity|]. left. apply H1. lia.
  - destruct (fd_default c) eqn:D; eexists; (split; [reflexivity|]); [right; left; apply H2|right; right; apply H3]; auto; lia.
  - destruct (fd_default c) eqn:D; eexists; (split; [reflexivity|]); [right; left; apply H2|right; right; apply H3]; auto; lia.
Qed.

(* the code as found hands one packet to two outputs when the chosen output raises KeyError *)
Theorem exactly_one_refuted_before_fix :
  exists c raising f, length (fst (fib_deliveries true true false c raising f)) = 2%nat.
Proof.
  exists {| fb_fib := Some [(3, 0)]; fb_outs := Some 1%nat; fb_ends := []; fb_default := true |}, [0%nat], 3. reflexivity.
Qed.

(* ---------------------------------------------------------------------------------------------- *)
(* the switches route by exactly these rules *)

(* SimplePacketSwitch: flow f reaches port f when 0 <= f < nports, and nothing otherwise *)
Theorem simple_switch_rule : forall nports f,
  (0 <= f < Z.of_nat nports -> simple_switch true nports f = OOut (Z.to_nat f)) /\
  (~ (0 <= f < Z.of_nat nports) -> simple_switch true nports f = ONowhere).
Proof.
  intros n f. unfold simple_switch.
  destruct (flowdemux_rule {| fd_nouts := n; fd_default := false |} f) as (H1 & _ & H3). cbn [fd_nouts fd_default] in *.
  split; auto.
Qed.

(* FairPacketSwitch: the packet is queued at scheduler i exactly when the FIBDemux rule names egress
   port i, with class flow2class(f); the class has no influence on the port. *)
Theorem fair_switch_rule : forall (c : fair_cfg) (f : Z),
  fair_switch true true c f = fibdemux true true (fair_demux_cfg c) f /\
  (forall i cl, fair_reaches true true c f = Some (i, cl) <-> (fibdemux true true (fair_demux_cfg c) f = OOut i /\ cl = fs_class c f)) /\
  (forall cls', fair_switch true true {| fs_nports := fs_nports c; fs_fib := fs_fib c; fs_ends := fs_ends c; fs_class := cls' |} f
                = fair_switch true true c f).
Proof.
  intros c f. split; [reflexivity|]. split.
  - intros i cl. unfold fair_reaches, fair_switch.
    destruct (fibdemux true true (fair_demux_cfg c) f); split; try (intros [H _]; discriminate); try discriminate.
    + intros [= -> <-]. auto.
    + intros [[= ->] ->]. reflexivity.
  - reflexivity.
Qed.

Example fair_switch_ex :
  let c := {| fs_nports := 4; fs_fib := Some [(7, 2); (8, 2)]; fs_ends := [(5, 1%nat)]; fs_class := fun f => f mod 2 |} in
  map (fair_reaches true true c) [7; 8; 5; 6] = [Some (2%nat, 1); Some (2%nat, 0); None; None].
Proof. reflexivity. Qed.
