(* Proofs about Route/FatTree.v, for EVERY even k >= 2, by arithmetic on the node numbering:
   counts, degrees, hosts per edge switch, and the distance between hosts. *)
From Coq Require Import List Bool Arith Lia.
From ONL Require Import Route.FatTree.
Import ListNotations.
Open Scope nat_scope.

(* ---------------------------------------------------------------------------------------------- *)
(* arithmetic on blocks *)

Lemma lt_block a b n m : a < n -> b < m -> a * m + b < n * m.
Proof. intros Ha Hb. assert (S a * m <= n * m) by (apply Nat.mul_le_mono_r; lia). lia. Qed.

Lemma div_block a b m : b < m -> (a * m + b) / m = a.
Proof. intros Hb. symmetry. apply (Nat.div_unique _ m a b); lia. Qed.

Lemma mod_block a b m : b < m -> (a * m + b) mod m = b.
Proof. intros Hb. symmetry. apply (Nat.mod_unique _ m a b); lia. Qed.

Lemma half_double h : (2 * h) / 2 = h.
Proof. rewrite Nat.mul_comm. apply Nat.div_mul. discriminate. Qed.

Lemma even_half k : Nat.even k = true -> k = 2 * (k / 2).
Proof.
  intros H. apply Nat.even_spec in H as [m ->]. rewrite half_double. reflexivity.
Qed.

(* ---------------------------------------------------------------------------------------------- *)
(* coordinates *)

Definition coord_eqb (c d : coord) : bool :=
  match c, d with
  | Core a b, Core a' b' => (a =? a') && (b =? b')
  | Aggr p a, Aggr p' a' => (p =? p') && (a =? a')
  | Edge p e, Edge p' e' => (p =? p') && (e =? e')
  | Host p e i, Host p' e' i' => (p =? p') && (e =? e') && (i =? i')
  | _, _ => false
  end.

Lemma coord_eqb_spec c d : coord_eqb c d = true <-> c = d.
Proof.
  destruct c, d; cbn [coord_eqb]; split; intros H; try discriminate;
    rewrite ?andb_true_iff, ?Nat.eqb_eq in *.
  all: try (destruct H as [H1 H2]; try destruct H1 as [H0 H1]; subst; reflexivity).
  all: injection H; intros; subst; auto.
Qed.

Lemma coord_eqb_refl c : coord_eqb c c = true.
Proof. apply coord_eqb_spec. reflexivity. Qed.

Definition valid (k : nat) (c : coord) : Prop :=
  let h := k / 2 in
  match c with
  | Core a b => a < h /\ b < h
  | Aggr p a => p < k /\ a < h
  | Edge p e => p < k /\ e < h
  | Host p e i => p < k /\ e < h /\ i < h
  end.

(* the numbering is a bijection between valid coordinates and node numbers *)
Lemma decode_num h c : 0 < h -> valid (2 * h) c -> decode (2 * h) (num (2 * h) c) = c.
Proof.
  intros Hh Hv. unfold valid in Hv. unfold decode, num, aggr, edge, host, ncore.
  rewrite !half_double in *. set (k := 2 * h) in *. assert (Hk : k = 2 * h) by reflexivity. clearbody k.
  destruct c as [a b|p a|p e|p e i].
  - destruct Hv as [Ha Hb]. pose proof (lt_block a b h h Ha Hb) as Hlt.
    destruct (a * h + b <? h * h) eqn:E; [|apply Nat.ltb_ge in E; lia].
    rewrite div_block, mod_block by lia. reflexivity.
  - destruct Hv as [Hp Ha].
    assert (Hlt : p * k + a < k * k) by (apply lt_block; lia).
    destruct (h * h + p * k + a <? h * h) eqn:E1; [apply Nat.ltb_lt in E1; lia|].
    destruct (h * h + p * k + a <? h * h + k * k) eqn:E2; [|apply Nat.ltb_ge in E2; lia].
    replace (h * h + p * k + a - h * h) with (p * k + a) by lia.
    rewrite div_block, mod_block by lia.
    destruct (a <? h) eqn:E3; [reflexivity|apply Nat.ltb_ge in E3; lia].
  - destruct Hv as [Hp He].
    assert (Hlt : p * k + (h + e) < k * k) by (apply lt_block; lia).
    destruct (h * h + p * k + h + e <? h * h) eqn:E1; [apply Nat.ltb_lt in E1; lia|].
    destruct (h * h + p * k + h + e <? h * h + k * k) eqn:E2; [|apply Nat.ltb_ge in E2; lia].
    replace (h * h + p * k + h + e - h * h) with (p * k + (h + e)) by lia.
    rewrite div_block, mod_block by lia.
    destruct (h + e <? h) eqn:E3; [apply Nat.ltb_lt in E3; lia|].
    f_equal. lia.
  - destruct Hv as (Hp & He & Hi).
    remember ((p * h + e) * h) as X eqn:EX. remember (k * k) as KK eqn:EKK. remember (h * h) as HH eqn:EHH.
    destruct (HH + KK + X + i <? HH) eqn:E1; [apply Nat.ltb_lt in E1; lia|].
    destruct (HH + KK + X + i <? HH + KK) eqn:E2; [apply Nat.ltb_lt in E2; lia|].
    replace (HH + KK + X + i - (HH + KK)) with (X + i) by lia. subst X.
    rewrite (div_block (p * h + e) i h), (mod_block (p * h + e) i h) by lia.
    rewrite div_block, mod_block by lia. reflexivity.
Qed.

Lemma num_inj h c d : 0 < h -> valid (2 * h) c -> valid (2 * h) d -> num (2 * h) c = num (2 * h) d -> c = d.
Proof.
  intros Hh Hc Hd E. rewrite <- (decode_num h c Hh Hc), <- (decode_num h d Hh Hd), E. reflexivity.
Qed.

Lemma num_eqb h c d : 0 < h -> valid (2 * h) c -> valid (2 * h) d ->
  (num (2 * h) c =? num (2 * h) d) = coord_eqb c d.
Proof.
  intros Hh Hc Hd. destruct (coord_eqb c d) eqn:E.
  - apply coord_eqb_spec in E. subst. apply Nat.eqb_refl.
  - apply Nat.eqb_neq. intros En. apply (num_inj h c d Hh Hc Hd) in En. subst.
    rewrite coord_eqb_refl in E. discriminate.
Qed.

(* every host number is the number of a valid Host coordinate *)
Lemma host_decode h v : 0 < h -> is_host (2 * h) v = true ->
  exists p e i, decode (2 * h) v = Host p e i /\ valid (2 * h) (Host p e i) /\ num (2 * h) (Host p e i) = v.
Proof.
  intros Hh Hv. unfold is_host, ft_nnodes, ncore in Hv. unfold decode, valid, num, host, ncore.
  rewrite !half_double in *. set (k := 2 * h) in *. assert (Hk : k = 2 * h) by reflexivity. clearbody k.
  apply andb_true_iff in Hv as [H1 H2]. apply Nat.leb_le in H1. apply Nat.ltb_lt in H2.
  destruct (v <? h * h) eqn:E1; [apply Nat.ltb_lt in E1; lia|].
  destruct (v <? h * h + k * k) eqn:E2; [apply Nat.ltb_lt in E2; lia|].
  set (w := v - (h * h + k * k)). assert (Hw : w < k * h * h) by (unfold w; lia).
  assert (Hv' : v = h * h + k * k + w) by (unfold w; lia).
  exists (w / h / h), ((w / h) mod h), (w mod h). split; [reflexivity|].
  pose proof (Nat.div_mod w h ltac:(lia)) as D1.
  pose proof (Nat.div_mod (w / h) h ltac:(lia)) as D2.
  pose proof (Nat.mod_upper_bound w h ltac:(lia)) as M1.
  pose proof (Nat.mod_upper_bound (w / h) h ltac:(lia)) as M2.
  assert (Hq : w / h < k * h) by (apply Nat.div_lt_upper_bound; lia).
  assert (Hp : w / h / h < k) by (apply Nat.div_lt_upper_bound; lia).
  split; [auto|].
  rewrite Hv'.
  remember (w / h) as q eqn:Eq. remember (q / h) as r eqn:Er. remember (q mod h) as s eqn:Es. remember (w mod h) as u eqn:Eu.
  assert (G : (r * h + s) * h + u = w) by (rewrite D1 at 1; rewrite D2; ring).
  clear - G. lia.
Qed.

(* ---------------------------------------------------------------------------------------------- *)
(* list toolkit *)

Lemma flat_map_ext_in {A B : Type} (f g : A -> list B) l :
  (forall x, In x l -> f x = g x) -> flat_map f l = flat_map g l.
Proof.
  induction l as [|x t IH]; intros H; [reflexivity|]. cbn [flat_map].
  rewrite (H x (or_introl eq_refl)), IH; [reflexivity|]. intros y Hy. apply H. right. exact Hy.
Qed.

Lemma flat_map_nil {A B : Type} (f : A -> list B) l : (forall x, In x l -> f x = []) -> flat_map f l = [].
Proof.
  induction l as [|x t IH]; intros H; [reflexivity|]. cbn [flat_map].
  rewrite (H x (or_introl eq_refl)), IH; [reflexivity|]. intros y Hy. apply H. right. exact Hy.
Qed.

Lemma flat_map_single {B : Type} (f : nat -> list B) i0 : forall n s,
  s <= i0 < s + n -> (forall i, s <= i < s + n -> i <> i0 -> f i = []) -> flat_map f (seq s n) = f i0.
Proof.
  induction n as [|n IH]; intros s Hr H; [lia|]. cbn [seq flat_map].
  destruct (Nat.eq_dec s i0) as [->|Hne].
  - rewrite flat_map_nil; [apply app_nil_r|]. intros x Hx. apply in_seq in Hx. apply H; lia.
  - rewrite (H s) by lia. cbn [app]. apply IH; [lia|]. intros i Hi. apply H. lia.
Qed.

Lemma flat_map_singletons {A B : Type} (g : A -> B) l : flat_map (fun x => [g x]) l = map g l.
Proof. induction l as [|x t IH]; [reflexivity|]. cbn [flat_map map app]. rewrite IH. reflexivity. Qed.

Lemma map_flat_map {A B C : Type} (f : B -> C) (g : A -> list B) l :
  map f (flat_map g l) = flat_map (fun x => map f (g x)) l.
Proof. induction l as [|x t IH]; [reflexivity|]. cbn [flat_map]. rewrite map_app, IH. reflexivity. Qed.

Lemma flat_map_flat_map {A B C : Type} (f : B -> list C) (g : A -> list B) l :
  flat_map f (flat_map g l) = flat_map (fun x => flat_map f (g x)) l.
Proof. induction l as [|x t IH]; [reflexivity|]. cbn [flat_map]. rewrite flat_map_app, IH. reflexivity. Qed.

Lemma flat_map_map {A B C : Type} (f : B -> list C) (g : A -> B) l :
  flat_map f (map g l) = flat_map (fun x => f (g x)) l.
Proof. induction l as [|x t IH]; [reflexivity|]. cbn [flat_map map]. rewrite IH. reflexivity. Qed.

Lemma length_flat_map_const {A B : Type} (f : A -> list B) l c :
  (forall x, In x l -> length (f x) = c) -> length (flat_map f l) = length l * c.
Proof.
  induction l as [|x t IH]; intros H; [reflexivity|]. cbn [flat_map length]. rewrite app_length, (H x (or_introl eq_refl)), IH.
  - lia.
  - intros y Hy. apply H. right. exact Hy.
Qed.

Lemma seq_shift_add s m : seq s m = map (fun b => s + b) (seq 0 m).
Proof.
  revert s. induction m as [|m IH]; intros s; [reflexivity|]. cbn [seq map]. rewrite Nat.add_0_r. f_equal.
  rewrite (IH (S s)), (IH 1), map_map. apply map_ext. intros b. lia.
Qed.

(* flat_map over 0 .. n*m-1 in blocks of m *)
Lemma flat_map_blocks {B : Type} (f : nat -> list B) m : forall n,
  flat_map f (seq 0 (n * m)) = flat_map (fun a => flat_map (fun b => f (a * m + b)) (seq 0 m)) (seq 0 n).
Proof.
  induction n as [|n IH]; [reflexivity|].
  replace (S n * m) with (n * m + m) by lia. rewrite seq_app, flat_map_app, IH. cbn [plus].
  rewrite seq_S, flat_map_app. cbn [flat_map]. rewrite app_nil_r. f_equal.
  rewrite (seq_shift_add (n * m) m), flat_map_map. reflexivity.
Qed.

Lemma NoDup_flat_map {A B : Type} (f : A -> list B) l :
  NoDup l -> (forall x, In x l -> NoDup (f x)) ->
  (forall x y b, In x l -> In y l -> In b (f x) -> In b (f y) -> x = y) -> NoDup (flat_map f l).
Proof.
  induction l as [|x t IH]; intros Hl Hf Hd; [constructor|]. cbn [flat_map].
  inversion Hl as [|? ? Hx Hl']; subst.
  assert (G : forall l1 l2 : list B, NoDup l1 -> NoDup l2 -> (forall b, In b l1 -> ~ In b l2) -> NoDup (l1 ++ l2)).
  { induction l1 as [|u l1 IH1]; intros l2 H1 H2 H12; [exact H2|]. cbn [app]. inversion H1; subst. constructor.
    - intros Hin. apply in_app_or in Hin as [Hin|Hin]; [contradiction|]. apply (H12 u); [left; reflexivity|exact Hin].
    - apply IH1; auto. intros b Hb. apply H12. right. exact Hb. }
  apply G.
  - apply Hf. left. reflexivity.
  - apply IH; auto.
    + intros y Hy. apply Hf. right. exact Hy.
    + intros y z b Hy Hz. apply Hd; right; assumption.
  - intros b Hb Hin. apply in_flat_map in Hin as (y & Hy & Hby).
    assert (x = y) by (apply (Hd x y b); auto; [left; reflexivity|right; exact Hy]). subst y. contradiction.
Qed.

Lemma NoDup_map_inj {A B : Type} (f : A -> B) l :
  NoDup l -> (forall x y, In x l -> In y l -> f x = f y -> x = y) -> NoDup (map f l).
Proof.
  induction l as [|x t IH]; intros Hl Hinj; [constructor|]. inversion Hl as [|? ? Hx Hl']; subst. cbn [map]. constructor.
  - intros Hin. apply in_map_iff in Hin as (y & Hy & Hin).
    assert (y = x) by (apply Hinj; auto; [right; exact Hin|left; reflexivity]). subst y. contradiction.
  - apply IH; auto. intros y z Hy Hz. apply Hinj; right; assumption.
Qed.

(* ---------------------------------------------------------------------------------------------- *)
(* the edges in coordinates *)

Definition ce_pod (k : nat) : list (coord * coord) :=
  flat_map (fun p => flat_map (fun a => map (fun e => (Aggr p a, Edge p e)) (seq 0 (k / 2))) (seq 0 (k / 2))) (seq 0 k).
Definition ce_core (k : nat) : list (coord * coord) :=
  flat_map (fun a => flat_map (fun b => map (fun p => (Core a b, Aggr p a)) (seq 0 k)) (seq 0 (k / 2))) (seq 0 (k / 2)).
Definition ce_host (k : nat) : list (coord * coord) :=
  flat_map (fun p => flat_map (fun e => map (fun i => (Edge p e, Host p e i)) (seq 0 (k / 2))) (seq 0 (k / 2))) (seq 0 k).
Definition cedges (k : nat) : list (coord * coord) := ce_pod k ++ ce_core k ++ ce_host k.

Definition numpair (k : nat) (e : coord * coord) : nat * nat := (num k (fst e), num k (snd e)).

Lemma ft_edges_coord h : 0 < h -> ft_edges (2 * h) = map (numpair (2 * h)) (cedges (2 * h)).
Proof.
  intros Hh. unfold ft_edges, cedges. rewrite !map_app. f_equal; [|f_equal].
  - unfold ft_edges_pod, ce_pod. rewrite map_flat_map. apply flat_map_ext. intros p.
    rewrite map_flat_map. apply flat_map_ext. intros a. rewrite map_map. reflexivity.
  - unfold ft_edges_core, ce_core, ncore. rewrite !half_double.
    rewrite flat_map_blocks, map_flat_map. apply flat_map_ext. intros a.
    rewrite map_flat_map. apply flat_map_ext_in. intros b Hb. apply in_seq in Hb.
    rewrite map_map. apply map_ext. intros p. unfold numpair, num, aggr, ncore. cbn [fst snd].
    rewrite !half_double. rewrite div_block by lia. f_equal. lia.
  - unfold ft_edges_host, ce_host. rewrite map_flat_map. apply flat_map_ext. intros p.
    rewrite map_flat_map. apply flat_map_ext. intros e. rewrite map_map. reflexivity.
Qed.

Lemma in_ce_pod k x : In x (ce_pod k) <-> exists p a e, p < k /\ a < k / 2 /\ e < k / 2 /\ x = (Aggr p a, Edge p e).
Proof.
  unfold ce_pod. rewrite in_flat_map. split.
  - intros (p & Hp & H). apply in_flat_map in H as (a & Ha & H). apply in_map_iff in H as (e & <- & He).
    apply in_seq in Hp, Ha, He. exists p, a, e. repeat split; lia.
  - intros (p & a & e & Hp & Ha & He & ->). exists p. split; [apply in_seq; lia|].
    apply in_flat_map. exists a. split; [apply in_seq; lia|]. apply in_map_iff. exists e. split; [reflexivity|apply in_seq; lia].
Qed.

Lemma in_ce_core k x : In x (ce_core k) <-> exists a b p, a < k / 2 /\ b < k / 2 /\ p < k /\ x = (Core a b, Aggr p a).
Proof.
  unfold ce_core. rewrite in_flat_map. split.
  - intros (a & Ha & H). apply in_flat_map in H as (b & Hb & H). apply in_map_iff in H as (p & <- & Hp).
    apply in_seq in Hp, Ha, Hb. exists a, b, p. repeat split; lia.
  - intros (a & b & p & Ha & Hb & Hp & ->). exists a. split; [apply in_seq; lia|].
    apply in_flat_map. exists b. split; [apply in_seq; lia|]. apply in_map_iff. exists p. split; [reflexivity|apply in_seq; lia].
Qed.

Lemma in_ce_host k x : In x (ce_host k) <-> exists p e i, p < k /\ e < k / 2 /\ i < k / 2 /\ x = (Edge p e, Host p e i).
Proof.
  unfold ce_host. rewrite in_flat_map. split.
  - intros (p & Hp & H). apply in_flat_map in H as (e & He & H). apply in_map_iff in H as (i & <- & Hi).
    apply in_seq in Hp, He, Hi. exists p, e, i. repeat split; lia.
  - intros (p & e & i & Hp & He & Hi & ->). exists p. split; [apply in_seq; lia|].
    apply in_flat_map. exists e. split; [apply in_seq; lia|]. apply in_map_iff. exists i. split; [reflexivity|apply in_seq; lia].
Qed.

Lemma valid_cedges k x : In x (cedges k) -> valid k (fst x) /\ valid k (snd x).
Proof.
  unfold cedges. rewrite !in_app_iff. intros [H|[H|H]].
  - apply in_ce_pod in H as (p & a & e & Hp & Ha & He & ->). cbn. auto.
  - apply in_ce_core in H as (a & b & p & Ha & Hb & Hp & ->). cbn. auto.
  - apply in_ce_host in H as (p & e & i & Hp & He & Hi & ->). cbn. auto.
Qed.

(* neighbour lists in coordinates *)
Definition csel (v : coord) (e : coord * coord) : list coord :=
  if coord_eqb (fst e) v then [snd e] else if coord_eqb (snd e) v then [fst e] else [].
Definition cnbrs (ce : list (coord * coord)) (v : coord) : list coord := flat_map (csel v) ce.

Lemma nbrs_coord h ce v : 0 < h ->
  (forall e, In e ce -> valid (2 * h) (fst e) /\ valid (2 * h) (snd e)) -> valid (2 * h) v ->
  nbrs (map (numpair (2 * h)) ce) (num (2 * h) v) = map (num (2 * h)) (cnbrs ce v).
Proof.
  intros Hh Hce Hv. unfold nbrs, cnbrs. induction ce as [|e t IH]; [reflexivity|].
  cbn [map flat_map]. rewrite map_app, IH by (intros x Hx; apply Hce; right; exact Hx).
  f_equal. destruct (Hce e (or_introl eq_refl)) as [H1 H2].
  unfold numpair, csel. cbn [fst snd]. rewrite !(num_eqb h) by assumption.
  destruct (coord_eqb (fst e) v); [reflexivity|]. destruct (coord_eqb (snd e) v); reflexivity.
Qed.

Lemma cnbrs_app ce1 ce2 v : cnbrs (ce1 ++ ce2) v = cnbrs ce1 v ++ cnbrs ce2 v.
Proof. apply flat_map_app. Qed.

Lemma cnbrs_flat_map {A : Type} (G : A -> list (coord * coord)) l v :
  cnbrs (flat_map G l) v = flat_map (fun x => cnbrs (G x) v) l.
Proof. apply flat_map_flat_map. Qed.

Lemma cnbrs_map {A : Type} (G : A -> coord * coord) l v : cnbrs (map G l) v = flat_map (fun x => csel v (G x)) l.
Proof. apply flat_map_map. Qed.

Lemma cnbrs_nil ce v : (forall e, In e ce -> csel v e = []) -> cnbrs ce v = [].
Proof. apply flat_map_nil. Qed.

Ltac neqb H := rewrite (proj2 (Nat.eqb_neq _ _) H).

(* closed forms, in the port order of networkx' adjacency *)
Lemma cnbrs_core k a0 b0 : a0 < k / 2 -> b0 < k / 2 ->
  cnbrs (cedges k) (Core a0 b0) = map (fun p => Aggr p a0) (seq 0 k).
Proof.
  intros Ha Hb. unfold cedges. rewrite !cnbrs_app.
  rewrite (cnbrs_nil (ce_pod k)), (cnbrs_nil (ce_host k)).
  - cbn [app]. rewrite app_nil_r. unfold ce_core. rewrite cnbrs_flat_map.
    rewrite (flat_map_single _ a0 (k / 2) 0) by first [lia |
      intros a _ Hne; rewrite cnbrs_flat_map; apply flat_map_nil; intros b _; rewrite cnbrs_map;
      apply flat_map_nil; intros p _; unfold csel; cbn [fst snd coord_eqb]; neqb Hne; reflexivity].
    rewrite cnbrs_flat_map.
    rewrite (flat_map_single _ b0 (k / 2) 0) by first [lia |
      intros b _ Hne; rewrite cnbrs_map; apply flat_map_nil; intros p _; unfold csel; cbn [fst snd coord_eqb];
      neqb Hne; rewrite andb_false_r; reflexivity].
    rewrite cnbrs_map. rewrite <- flat_map_singletons. apply flat_map_ext. intros p.
    unfold csel. cbn [fst snd coord_eqb]. rewrite !Nat.eqb_refl. reflexivity.
  - intros e He. apply in_ce_host in He as (p & e' & i & _ & _ & _ & ->). reflexivity.
  - intros e He. apply in_ce_pod in He as (p & a & e' & _ & _ & _ & ->). reflexivity.
Qed.

Lemma cnbrs_aggr k p0 a0 : p0 < k -> a0 < k / 2 ->
  cnbrs (cedges k) (Aggr p0 a0) = map (Edge p0) (seq 0 (k / 2)) ++ map (Core a0) (seq 0 (k / 2)).
Proof.
  intros Hp Ha. unfold cedges. rewrite !cnbrs_app. rewrite (cnbrs_nil (ce_host k)).
  - rewrite app_nil_r. f_equal.
    + unfold ce_pod. rewrite cnbrs_flat_map.
      rewrite (flat_map_single _ p0 k 0) by first [lia |
        intros p _ Hne; rewrite cnbrs_flat_map; apply flat_map_nil; intros a _; rewrite cnbrs_map;
        apply flat_map_nil; intros e _; unfold csel; cbn [fst snd coord_eqb]; neqb Hne; reflexivity].
      rewrite cnbrs_flat_map.
      rewrite (flat_map_single _ a0 (k / 2) 0) by first [lia |
        intros a _ Hne; rewrite cnbrs_map; apply flat_map_nil; intros e _; unfold csel; cbn [fst snd coord_eqb];
        neqb Hne; rewrite andb_false_r; reflexivity].
      rewrite cnbrs_map. rewrite <- flat_map_singletons. apply flat_map_ext. intros e.
      unfold csel. cbn [fst snd coord_eqb]. rewrite !Nat.eqb_refl. reflexivity.
    + unfold ce_core. rewrite cnbrs_flat_map.
      rewrite (flat_map_single _ a0 (k / 2) 0) by first [lia |
        intros a _ Hne; rewrite cnbrs_flat_map; apply flat_map_nil; intros b _; rewrite cnbrs_map;
        apply flat_map_nil; intros p _; unfold csel; cbn [fst snd coord_eqb]; neqb Hne; rewrite andb_false_r; reflexivity].
      rewrite cnbrs_flat_map. rewrite <- flat_map_singletons. apply flat_map_ext. intros b.
      rewrite cnbrs_map.
      rewrite (flat_map_single _ p0 k 0) by first [lia |
        intros p _ Hne; unfold csel; cbn [fst snd coord_eqb]; neqb Hne; reflexivity].
      unfold csel. cbn [fst snd coord_eqb]. rewrite !Nat.eqb_refl. reflexivity.
  - intros e He. apply in_ce_host in He as (p & e' & i & _ & _ & _ & ->). reflexivity.
Qed.

Lemma cnbrs_edge k p0 e0 : p0 < k -> e0 < k / 2 ->
  cnbrs (cedges k) (Edge p0 e0) = map (Aggr p0) (seq 0 (k / 2)) ++ map (Host p0 e0) (seq 0 (k / 2)).
Proof.
  intros Hp He0. unfold cedges. rewrite !cnbrs_app. rewrite (cnbrs_nil (ce_core k)).
  - cbn [app]. f_equal.
    + unfold ce_pod. rewrite cnbrs_flat_map.
      rewrite (flat_map_single _ p0 k 0) by first [lia |
        intros p _ Hne; rewrite cnbrs_flat_map; apply flat_map_nil; intros a _; rewrite cnbrs_map;
        apply flat_map_nil; intros e _; unfold csel; cbn [fst snd coord_eqb]; neqb Hne; reflexivity].
      rewrite cnbrs_flat_map. rewrite <- flat_map_singletons. apply flat_map_ext. intros a.
      rewrite cnbrs_map.
      rewrite (flat_map_single _ e0 (k / 2) 0) by first [lia |
        intros e _ Hne; unfold csel; cbn [fst snd coord_eqb]; neqb Hne; rewrite andb_false_r; reflexivity].
      unfold csel. cbn [fst snd coord_eqb]. rewrite !Nat.eqb_refl. reflexivity.
    + unfold ce_host. rewrite cnbrs_flat_map.
      rewrite (flat_map_single _ p0 k 0) by first [lia |
        intros p _ Hne; rewrite cnbrs_flat_map; apply flat_map_nil; intros e _; rewrite cnbrs_map;
        apply flat_map_nil; intros i _; unfold csel; cbn [fst snd coord_eqb]; neqb Hne; reflexivity].
      rewrite cnbrs_flat_map.
      rewrite (flat_map_single _ e0 (k / 2) 0) by first [lia |
        intros e _ Hne; rewrite cnbrs_map; apply flat_map_nil; intros i _; unfold csel; cbn [fst snd coord_eqb];
        neqb Hne; rewrite andb_false_r; reflexivity].
      rewrite cnbrs_map. rewrite <- flat_map_singletons. apply flat_map_ext. intros i.
      unfold csel. cbn [fst snd coord_eqb]. rewrite !Nat.eqb_refl. reflexivity.
  - intros e He. apply in_ce_core in He as (a & b & p & _ & _ & _ & ->). reflexivity.
Qed.

Lemma cnbrs_host k p0 e0 i0 : p0 < k -> e0 < k / 2 -> i0 < k / 2 ->
  cnbrs (cedges k) (Host p0 e0 i0) = [Edge p0 e0].
Proof.
  intros Hp He0 Hi. unfold cedges. rewrite !cnbrs_app. rewrite (cnbrs_nil (ce_pod k)), (cnbrs_nil (ce_core k)).
  - cbn [app]. unfold ce_host. rewrite cnbrs_flat_map.
    rewrite (flat_map_single _ p0 k 0) by first [lia |
      intros p _ Hne; rewrite cnbrs_flat_map; apply flat_map_nil; intros e _; rewrite cnbrs_map;
      apply flat_map_nil; intros i _; unfold csel; cbn [fst snd coord_eqb]; neqb Hne; reflexivity].
    rewrite cnbrs_flat_map.
    rewrite (flat_map_single _ e0 (k / 2) 0) by first [lia |
      intros e _ Hne; rewrite cnbrs_map; apply flat_map_nil; intros i _; unfold csel; cbn [fst snd coord_eqb];
      neqb Hne; rewrite andb_false_r; reflexivity].
    rewrite cnbrs_map.
    rewrite (flat_map_single _ i0 (k / 2) 0) by first [lia |
      intros i _ Hne; unfold csel; cbn [fst snd coord_eqb]; neqb Hne; rewrite andb_false_r; reflexivity].
    unfold csel. cbn [fst snd coord_eqb]. rewrite !Nat.eqb_refl. reflexivity.
  - intros e He. apply in_ce_core in He as (a & b & p & _ & _ & _ & ->). reflexivity.
  - intros e He. apply in_ce_pod in He as (p & a & e' & _ & _ & _ & ->). reflexivity.
Qed.

(* ---------------------------------------------------------------------------------------------- *)
(* node lists in coordinates *)

Definition ccores (k : nat) : list coord := flat_map (fun a => map (Core a) (seq 0 (k / 2))) (seq 0 (k / 2)).
Definition caggrs (k : nat) : list coord := flat_map (fun p => map (Aggr p) (seq 0 (k / 2))) (seq 0 k).
Definition cedgesw (k : nat) : list coord := flat_map (fun p => map (Edge p) (seq 0 (k / 2))) (seq 0 k).
Definition chosts (k : nat) : list coord :=
  flat_map (fun p => flat_map (fun e => map (Host p e) (seq 0 (k / 2))) (seq 0 (k / 2))) (seq 0 k).

Lemma ft_cores_coord h : ft_cores (2 * h) = map (num (2 * h)) (ccores (2 * h)).
Proof.
  unfold ft_cores, ccores, ncore. rewrite !half_double.
  rewrite <- (map_id (seq 0 (h * h))), <- flat_map_singletons, flat_map_blocks, map_flat_map.
  apply flat_map_ext. intros a. rewrite flat_map_singletons, map_map. apply map_ext. intros b.
  cbn [num]. rewrite half_double. reflexivity.
Qed.

Lemma ft_aggrs_coord k : ft_aggrs k = map (num k) (caggrs k).
Proof. unfold ft_aggrs, caggrs. rewrite map_flat_map. apply flat_map_ext. intros p. rewrite map_map. reflexivity. Qed.

Lemma ft_edgesw_coord k : ft_edgesw k = map (num k) (cedgesw k).
Proof. unfold ft_edgesw, cedgesw. rewrite map_flat_map. apply flat_map_ext. intros p. rewrite map_map. reflexivity. Qed.

Lemma ft_hosts_coord k : ft_hosts k = map (num k) (chosts k).
Proof.
  unfold ft_hosts, chosts. rewrite map_flat_map. apply flat_map_ext. intros p.
  rewrite map_flat_map. apply flat_map_ext. intros e. rewrite map_map. reflexivity.
Qed.

Lemma in_ccores k c : In c (ccores k) <-> exists a b, a < k / 2 /\ b < k / 2 /\ c = Core a b.
Proof.
  unfold ccores. rewrite in_flat_map. split.
  - intros (a & Ha & H). apply in_map_iff in H as (b & <- & Hb). apply in_seq in Ha, Hb. exists a, b. repeat split; lia.
  - intros (a & b & Ha & Hb & ->). exists a. split; [apply in_seq; lia|]. apply in_map. apply in_seq. lia.
Qed.

Lemma in_caggrs k c : In c (caggrs k) <-> exists p a, p < k /\ a < k / 2 /\ c = Aggr p a.
Proof.
  unfold caggrs. rewrite in_flat_map. split.
  - intros (p & Hp & H). apply in_map_iff in H as (a & <- & Ha). apply in_seq in Ha, Hp. exists p, a. repeat split; lia.
  - intros (p & a & Hp & Ha & ->). exists p. split; [apply in_seq; lia|]. apply in_map. apply in_seq. lia.
Qed.

Lemma in_cedgesw k c : In c (cedgesw k) <-> exists p e, p < k /\ e < k / 2 /\ c = Edge p e.
Proof.
  unfold cedgesw. rewrite in_flat_map. split.
  - intros (p & Hp & H). apply in_map_iff in H as (a & <- & Ha). apply in_seq in Ha, Hp. exists p, a. repeat split; lia.
  - intros (p & a & Hp & Ha & ->). exists p. split; [apply in_seq; lia|]. apply in_map. apply in_seq. lia.
Qed.

Lemma in_chosts k c : In c (chosts k) <-> exists p e i, p < k /\ e < k / 2 /\ i < k / 2 /\ c = Host p e i.
Proof.
  unfold chosts. rewrite in_flat_map. split.
  - intros (p & Hp & H). apply in_flat_map in H as (e & He & H). apply in_map_iff in H as (i & <- & Hi).
    apply in_seq in Hp, He, Hi. exists p, e, i. repeat split; lia.
  - intros (p & e & i & Hp & He & Hi & ->). exists p. split; [apply in_seq; lia|].
    apply in_flat_map. exists e. split; [apply in_seq; lia|]. apply in_map. apply in_seq. lia.
Qed.

Lemma NoDup_app_intro {A : Type} (l1 l2 : list A) :
  NoDup l1 -> NoDup l2 -> (forall b, In b l1 -> ~ In b l2) -> NoDup (l1 ++ l2).
Proof.
  induction l1 as [|u l1 IH1]; intros H1 H2 H12; [exact H2|]. cbn [app]. inversion H1; subst. constructor.
  - intros Hin. apply in_app_or in Hin as [Hin|Hin]; [contradiction|]. apply (H12 u); [left; reflexivity|exact Hin].
  - apply IH1; auto. intros b Hb. apply H12. right. exact Hb.
Qed.

Lemma NoDup_map2 {A : Type} (f : nat -> A) n : (forall x y, f x = f y -> x = y) -> NoDup (map f (seq 0 n)).
Proof. intros H. apply NoDup_map_inj; [apply seq_NoDup|]. intros x y _ _. apply H. Qed.

Lemma NoDup_all_coords k : NoDup (ccores k ++ caggrs k ++ cedgesw k ++ chosts k).
Proof.
  apply NoDup_app_intro; [| apply NoDup_app_intro; [| apply NoDup_app_intro|] |].
  - unfold ccores. apply NoDup_flat_map; [apply seq_NoDup| |].
    + intros a _. apply NoDup_map2. intros x y [= ->]. reflexivity.
    + intros a a' c _ _ H1 H2. apply in_map_iff in H1 as (b & <- & _). apply in_map_iff in H2 as (b' & [= -> _] & _). reflexivity.
  - unfold caggrs. apply NoDup_flat_map; [apply seq_NoDup| |].
    + intros a _. apply NoDup_map2. intros x y [= ->]. reflexivity.
    + intros a a' c _ _ H1 H2. apply in_map_iff in H1 as (b & <- & _). apply in_map_iff in H2 as (b' & [= -> _] & _). reflexivity.
  - unfold cedgesw. apply NoDup_flat_map; [apply seq_NoDup| |].
    + intros a _. apply NoDup_map2. intros x y [= ->]. reflexivity.
    + intros a a' c _ _ H1 H2. apply in_map_iff in H1 as (b & <- & _). apply in_map_iff in H2 as (b' & [= -> _] & _). reflexivity.
  - unfold chosts. apply NoDup_flat_map; [apply seq_NoDup| |].
    + intros p _. apply NoDup_flat_map; [apply seq_NoDup| |].
      * intros e _. apply NoDup_map2. intros x y [= ->]. reflexivity.
      * intros e e' c _ _ H1 H2. apply in_map_iff in H1 as (b & <- & _). apply in_map_iff in H2 as (b' & [= -> _] & _). reflexivity.
    + intros p p' c _ _ H1 H2. apply in_flat_map in H1 as (e & _ & H1). apply in_flat_map in H2 as (e' & _ & H2).
      apply in_map_iff in H1 as (b & <- & _). apply in_map_iff in H2 as (b' & [= -> _ _] & _). reflexivity.
  - intros c H1 H2. apply in_cedgesw in H1 as (? & ? & _ & _ & ->). apply in_chosts in H2 as (? & ? & ? & _ & _ & _ & [=]).
  - intros c H1 H2. apply in_caggrs in H1 as (? & ? & _ & _ & ->).
    apply in_app_or in H2 as [H2|H2]; [apply in_cedgesw in H2 as (? & ? & _ & _ & [=])|apply in_chosts in H2 as (? & ? & ? & _ & _ & _ & [=])].
  - intros c H1 H2. apply in_ccores in H1 as (? & ? & _ & _ & ->).
    apply in_app_or in H2 as [H2|H2]; [apply in_caggrs in H2 as (? & ? & _ & _ & [=])|].
    apply in_app_or in H2 as [H2|H2]; [apply in_cedgesw in H2 as (? & ? & _ & _ & [=])|apply in_chosts in H2 as (? & ? & ? & _ & _ & _ & [=])].
Qed.

Lemma valid_all_coords k c : In c (ccores k ++ caggrs k ++ cedgesw k ++ chosts k) -> valid k c.
Proof.
  rewrite !in_app_iff. intros [H|[H|[H|H]]].
  - apply in_ccores in H as (a & b & Ha & Hb & ->). cbn. auto.
  - apply in_caggrs in H as (a & b & Ha & Hb & ->). cbn. auto.
  - apply in_cedgesw in H as (a & b & Ha & Hb & ->). cbn. auto.
  - apply in_chosts in H as (p & e & i & Hp & He & Hi & ->). cbn. auto.
Qed.

Lemma filter_all_false {A : Type} (f : A -> bool) l : (forall x, In x l -> f x = false) -> filter f l = [].
Proof.
  induction l as [|x t IH]; intros H; [reflexivity|]. cbn [filter]. rewrite (H x (or_introl eq_refl)). apply IH.
  intros y Hy. apply H. right. exact Hy.
Qed.

Lemma filter_all_true {A : Type} (f : A -> bool) l : (forall x, In x l -> f x = true) -> filter f l = l.
Proof.
  induction l as [|x t IH]; intros H; [reflexivity|]. cbn [filter]. rewrite (H x (or_introl eq_refl)). f_equal. apply IH.
  intros y Hy. apply H. right. exact Hy.
Qed.

Lemma is_host_num h c : 0 < h -> valid (2 * h) c ->
  is_host (2 * h) (num (2 * h) c) = match c with Host _ _ _ => true | _ => false end.
Proof.
  intros Hh Hv. unfold is_host, ft_nnodes, num, aggr, edge, host, ncore. unfold valid in Hv. rewrite !half_double in *.
  set (k := 2 * h) in *. assert (Hk : k = 2 * h) by reflexivity. clearbody k.
  destruct c as [a b|p a|p e|p e i].
  - destruct Hv as [Ha Hb]. pose proof (lt_block a b h h Ha Hb).
    destruct (h * h + k * k <=? a * h + b) eqn:E; [apply Nat.leb_le in E; lia|reflexivity].
  - destruct Hv as [Hp Ha]. assert (p * k + a < k * k) by (apply lt_block; lia).
    destruct (h * h + k * k <=? h * h + p * k + a) eqn:E; [apply Nat.leb_le in E; lia|reflexivity].
  - destruct Hv as [Hp Ha]. assert (p * k + (h + e) < k * k) by (apply lt_block; lia).
    destruct (h * h + k * k <=? h * h + p * k + h + e) eqn:E; [apply Nat.leb_le in E; lia|reflexivity].
  - destruct Hv as (Hp & He & Hi).
    assert (H1 : p * h + e < k * h) by (apply lt_block; lia).
    assert (H2 : (p * h + e) * h + i < k * h * h) by (apply lt_block; lia).
    remember ((p * h + e) * h) as X. remember (k * k) as KK. remember (h * h) as HH. remember (k * h * h) as N.
    destruct (HH + KK <=? HH + KK + X + i) eqn:E1; [|apply Nat.leb_gt in E1; lia].
    destruct (HH + KK + X + i <? HH + KK + N) eqn:E2; [reflexivity|apply Nat.ltb_ge in E2; lia].
Qed.

(* ---------------------------------------------------------------------------------------------- *)
(* counts and degrees, for every even k >= 2 *)

Lemma even_ge2 k : Nat.even k = true -> 2 <= k -> exists h, 0 < h /\ k = 2 * h.
Proof. intros He Hk. exists (k / 2). pose proof (even_half k He). split; lia. Qed.

(* (k/2)^2 core switches, k^2/2 aggregation and k^2/2 edge switches, k^3/4 hosts, all node numbers
   distinct and exactly 0 .. ft_nnodes-1 many, k/2 hosts on every edge switch *)
Theorem ft_counts : forall k, Nat.even k = true -> 2 <= k ->
  length (ft_cores k) = (k / 2) * (k / 2) /\
  2 * length (ft_aggrs k) = k * k /\
  2 * length (ft_edgesw k) = k * k /\
  4 * length (ft_hosts k) = k * k * k /\
  NoDup (ft_cores k ++ ft_aggrs k ++ ft_edgesw k ++ ft_hosts k) /\
  length (ft_cores k ++ ft_aggrs k ++ ft_edgesw k ++ ft_hosts k) = ft_nnodes k /\
  (forall sw, In sw (ft_edgesw k) -> length (hosts_of k sw) = k / 2 /\ forall x, In x (hosts_of k sw) -> In x (ft_hosts k)).
Proof.
  intros k He Hk. destruct (even_ge2 k He Hk) as (h & Hh & ->).
  assert (L1 : length (ft_cores (2 * h)) = h * h) by (unfold ft_cores, ncore; rewrite seq_length, half_double; reflexivity).
  assert (L2 : length (ft_aggrs (2 * h)) = 2 * h * h).
  { unfold ft_aggrs. rewrite (length_flat_map_const _ _ h), seq_length; [reflexivity|].
    intros p _. rewrite map_length, seq_length, half_double. reflexivity. }
  assert (L3 : length (ft_edgesw (2 * h)) = 2 * h * h).
  { unfold ft_edgesw. rewrite (length_flat_map_const _ _ h), seq_length; [reflexivity|].
    intros p _. rewrite map_length, seq_length, half_double. reflexivity. }
  assert (L4 : length (ft_hosts (2 * h)) = 2 * h * (h * h)).
  { unfold ft_hosts. rewrite (length_flat_map_const _ _ (h * h)), seq_length; [reflexivity|].
    intros p _. rewrite (length_flat_map_const _ _ h), seq_length, half_double; [reflexivity|].
    intros e _. rewrite map_length, seq_length. apply half_double. }
  rewrite half_double. split; [exact L1|]. split; [rewrite L2; ring|]. split; [rewrite L3; ring|]. split; [rewrite L4; ring|].
  split; [|split].
  - rewrite ft_cores_coord, ft_aggrs_coord, ft_edgesw_coord, ft_hosts_coord, <- !map_app.
    apply NoDup_map_inj; [apply NoDup_all_coords|].
    intros c d Hc Hd. apply (num_inj h c d Hh); apply valid_all_coords; assumption.
  - rewrite !app_length, L1, L2, L3, L4. unfold ft_nnodes, ncore. rewrite half_double. ring.
  - intros sw Hsw. rewrite ft_edgesw_coord in Hsw. apply in_map_iff in Hsw as (c & <- & Hc).
    apply in_cedgesw in Hc as (p & e & Hp & He' & ->).
    assert (Hv : valid (2 * h) (Edge p e)) by (unfold valid; auto).
    unfold hosts_of. rewrite (ft_edges_coord h Hh), (nbrs_coord h _ _ Hh (valid_cedges (2 * h)) Hv), cnbrs_edge by assumption.
    rewrite map_app, filter_app, filter_all_false, filter_all_true.
    + cbn [app]. rewrite !map_length, seq_length. split; [apply half_double|].
      intros x Hx. rewrite ft_hosts_coord. apply in_map_iff in Hx as (c & <- & Hc). apply in_map.
      apply in_map_iff in Hc as (i & <- & Hi). apply in_seq in Hi. apply in_chosts. exists p, e, i. repeat split; auto; lia.
    + intros x Hx. apply in_map_iff in Hx as (c & <- & Hc). apply in_map_iff in Hc as (i & <- & Hi). apply in_seq in Hi.
      rewrite is_host_num; [reflexivity|exact Hh|]. unfold valid. repeat split; auto; lia.
    + intros x Hx. apply in_map_iff in Hx as (c & <- & Hc). apply in_map_iff in Hc as (a & <- & Ha). apply in_seq in Ha.
      rewrite is_host_num; [reflexivity|exact Hh|]. unfold valid. split; auto; lia.
Qed.

Example ft_counts_ex : (length (ft_cores 4), length (ft_aggrs 4), length (ft_edgesw 4), length (ft_hosts 4), ft_nnodes 4) = (4, 8, 8, 16, 36).
Proof. reflexivity. Qed.

(* the neighbour lists of the four kinds of node, in port order *)
Lemma ft_nbrs_closed h c : 0 < h -> valid (2 * h) c ->
  nbrs (ft_edges (2 * h)) (num (2 * h) c) = map (num (2 * h)) (cnbrs (cedges (2 * h)) c).
Proof. intros Hh Hv. rewrite (ft_edges_coord h Hh). apply nbrs_coord; auto. apply valid_cedges. Qed.

(* every switch has degree k; every host hangs on one link *)
Theorem ft_degrees : forall k, Nat.even k = true -> 2 <= k ->
  (forall v, In v (ft_switches k) -> degree (ft_edges k) v = k) /\
  (forall v, In v (ft_hosts k) -> degree (ft_edges k) v = 1).
Proof.
  intros k He Hk. destruct (even_ge2 k He Hk) as (h & Hh & ->). unfold degree, ft_switches. split.
  - intros v Hv. rewrite ft_cores_coord, ft_aggrs_coord, ft_edgesw_coord, <- !map_app in Hv.
    apply in_map_iff in Hv as (c & <- & Hc).
    assert (Hval : valid (2 * h) c) by (apply valid_all_coords; rewrite !in_app_iff in *; tauto).
    rewrite (ft_nbrs_closed h c Hh Hval), map_length.
    rewrite !in_app_iff in Hc. destruct Hc as [Hc|[Hc|Hc]].
    + apply in_ccores in Hc as (a & b & Ha & Hb & ->). rewrite cnbrs_core by assumption. rewrite map_length, seq_length. reflexivity.
    + apply in_caggrs in Hc as (p & a & Hp & Ha & ->). rewrite cnbrs_aggr by assumption.
      rewrite app_length, !map_length, !seq_length, half_double. lia.
    + apply in_cedgesw in Hc as (p & e & Hp & He' & ->). rewrite cnbrs_edge by assumption.
      rewrite app_length, !map_length, !seq_length, half_double. lia.
  - intros v Hv. rewrite ft_hosts_coord in Hv. apply in_map_iff in Hv as (c & <- & Hc).
    apply in_chosts in Hc as (p & e & i & Hp & He' & Hi & ->).
    rewrite (ft_nbrs_closed h _ Hh) by (unfold valid; auto). rewrite cnbrs_host by assumption. reflexivity.
Qed.

Example ft_degrees_ex : map (degree (ft_edges 6)) [0; 8; 9; 12; 44; 45; 98] = [6; 6; 6; 6; 6; 1; 1].
Proof. vm_compute. reflexivity. Qed.

(* ---------------------------------------------------------------------------------------------- *)
(* distance between hosts, for every even k >= 2 *)

(* distance from the host x0 to any node *)
Definition pot (x0 c : coord) : nat :=
  match x0 with
  | Host p0 e0 i0 =>
      match c with
      | Host p e i => if (p0 =? p) && (e0 =? e) && (i0 =? i) then 0
                      else if (p0 =? p) && (e0 =? e) then 2 else if p0 =? p then 4 else 6
      | Edge p e => if (p0 =? p) && (e0 =? e) then 1 else if p0 =? p then 3 else 5
      | Aggr p a => if p0 =? p then 2 else 4
      | Core _ _ => 3
      end
  | _ => 0
  end.

Lemma pot_lipschitz k x0 u v : In (u, v) (cedges k) -> pot x0 u <= pot x0 v + 1 /\ pot x0 v <= pot x0 u + 1.
Proof.
  destruct x0 as [| | |p0 e0 i0]; try (cbn; lia).
  unfold cedges. rewrite !in_app_iff. intros [H|[H|H]].
  - apply in_ce_pod in H as (p & a & e & _ & _ & _ & [= -> ->]). cbn [pot].
    destruct (p0 =? p); destruct (e0 =? e); cbn [andb]; lia.
  - apply in_ce_core in H as (a & b & p & _ & _ & _ & [= -> ->]). cbn [pot].
    destruct (p0 =? p); lia.
  - apply in_ce_host in H as (p & e & i & _ & _ & _ & [= -> ->]). cbn [pot].
    destruct (p0 =? p); destruct (e0 =? e); destruct (i0 =? i); cbn [andb]; lia.
Qed.

Lemma adjb_coord k ce a z : adjb (map (numpair k) ce) a z = true ->
  exists u v, (In (u, v) ce \/ In (v, u) ce) /\ a = num k u /\ z = num k v.
Proof.
  unfold adjb. intros H. apply existsb_exists in H as (e & He & H). apply in_map_iff in He as ((u, v) & <- & Hin).
  unfold numpair in H. cbn [fst snd] in H. apply orb_true_iff in H as [H|H]; apply andb_true_iff in H as [H1 H2];
    apply Nat.eqb_eq in H1, H2; subst.
  - exists u, v. auto.
  - exists v, u. auto.
Qed.

Lemma adjb_in k ce u v : In (u, v) ce \/ In (v, u) ce -> adjb (map (numpair k) ce) (num k u) (num k v) = true.
Proof.
  intros H. unfold adjb. apply existsb_exists. destruct H as [H|H].
  - exists (numpair k (u, v)). split; [apply in_map; exact H|]. unfold numpair. cbn [fst snd]. rewrite !Nat.eqb_refl. reflexivity.
  - exists (numpair k (v, u)). split; [apply in_map; exact H|]. unfold numpair. cbn [fst snd]. rewrite !Nat.eqb_refl. apply orb_true_r.
Qed.

Lemma last_cons_default {A : Type} (l : list A) x d d' : last (x :: l) d = last (x :: l) d'.
Proof.
  revert x. induction l as [|y l IH]; intros x; [reflexivity|].
  change (last (x :: y :: l) d) with (last (y :: l) d). change (last (x :: y :: l) d') with (last (y :: l) d'). apply IH.
Qed.

(* no walk from x0 reaches a node in fewer steps than its potential *)
Lemma walk_lower h x0 : 0 < h -> forall rest a,
  walkb (ft_edges (2 * h)) (a :: rest) = true ->
  pot x0 (decode (2 * h) (last (a :: rest) a)) <= pot x0 (decode (2 * h) a) + length rest.
Proof.
  intros Hh. rewrite (ft_edges_coord h Hh). induction rest as [|z rest IH]; intros a Hw.
  - cbn [last length]. lia.
  - cbn [walkb] in Hw. apply andb_true_iff in Hw as [Hadj Hw]. specialize (IH z Hw).
    apply adjb_coord in Hadj as (u & v & Hin & -> & ->).
    assert (Hl : pot x0 u <= pot x0 v + 1 /\ pot x0 v <= pot x0 u + 1).
    { destruct Hin as [Hin|Hin]; [apply (pot_lipschitz _ _ _ _ Hin)|]. destruct (pot_lipschitz _ x0 _ _ Hin). lia. }
    assert (Hvu : valid (2 * h) u /\ valid (2 * h) v).
    { destruct Hin as [Hin|Hin]; apply valid_cedges in Hin; cbn [fst snd] in Hin; tauto. }
    rewrite (decode_num h u Hh) by tauto. rewrite (decode_num h v Hh) in IH by tauto.
    replace (last (num (2 * h) u :: num (2 * h) v :: rest) (num (2 * h) u)) with (last (num (2 * h) v :: rest) (num (2 * h) v)).
    + cbn [length]. lia.
    + change (last (num (2 * h) u :: num (2 * h) v :: rest) (num (2 * h) u)) with (last (num (2 * h) v :: rest) (num (2 * h) u)).
      apply last_cons_default.
Qed.

Lemma hostdist_pot h p e i q f j : 0 < h -> valid (2 * h) (Host p e i) -> valid (2 * h) (Host q f j) ->
  hostdist (2 * h) (num (2 * h) (Host p e i)) (num (2 * h) (Host q f j)) = pot (Host p e i) (Host q f j).
Proof.
  intros Hh H1 H2. unfold hostdist. rewrite !(decode_num h) by assumption. reflexivity.
Qed.

(* a shortest walk, explicitly *)
Definition cpath (x y : coord) : list coord :=
  match x, y with
  | Host p e i, Host q f j =>
      if (p =? q) && (e =? f) && (i =? j) then []
      else if (p =? q) && (e =? f) then [Edge p e; y]
      else if p =? q then [Edge p e; Aggr p 0; Edge q f; y]
      else [Edge p e; Aggr p 0; Core 0 0; Aggr q 0; Edge q f; y]
  | _, _ => []
  end.

Lemma in_cedges_pod k p a e : p < k -> a < k / 2 -> e < k / 2 -> In (Aggr p a, Edge p e) (cedges k).
Proof. intros. unfold cedges. apply in_or_app. left. apply in_ce_pod. exists p, a, e. auto. Qed.
Lemma in_cedges_core k a b p : a < k / 2 -> b < k / 2 -> p < k -> In (Core a b, Aggr p a) (cedges k).
Proof. intros. unfold cedges. apply in_or_app. right. apply in_or_app. left. apply in_ce_core. exists a, b, p. auto. Qed.
Lemma in_cedges_host k p e i : p < k -> e < k / 2 -> i < k / 2 -> In (Edge p e, Host p e i) (cedges k).
Proof. intros. unfold cedges. apply in_or_app. right. apply in_or_app. right. apply in_ce_host. exists p, e, i. auto. Qed.

Lemma cpath_walk h x y : 0 < h ->
  match x, y with Host _ _ _, Host _ _ _ => True | _, _ => False end ->
  valid (2 * h) x -> valid (2 * h) y ->
  walkb (ft_edges (2 * h)) (num (2 * h) x :: map (num (2 * h)) (cpath x y)) = true /\
  last (num (2 * h) x :: map (num (2 * h)) (cpath x y)) (num (2 * h) x) = num (2 * h) y /\
  length (cpath x y) = pot x y.
Proof.
  intros Hh Hxy Hx Hy. rewrite (ft_edges_coord h Hh).
  destruct x as [| | |p e i]; try contradiction. destruct y as [| | |q f j]; try contradiction.
  unfold valid in Hx, Hy. rewrite half_double in Hx, Hy. destruct Hx as (Hp & He & Hi). destruct Hy as (Hq & Hf & Hj).
  assert (Hh2 : 2 * h / 2 = h) by apply half_double.
  unfold cpath, pot.
  destruct (p =? q) eqn:Epq; destruct (e =? f) eqn:Eef; destruct (i =? j) eqn:Eij; cbn [andb];
    try apply Nat.eqb_eq in Epq; try apply Nat.eqb_eq in Eef; try apply Nat.eqb_eq in Eij; subst;
    cbn [map walkb last length]; rewrite ?andb_true_r;
    repeat match goal with
    | |- _ /\ _ => split
    | |- _ && _ = true => apply andb_true_iff; split
    | |- adjb _ _ _ = true => apply adjb_in
    | |- _ = _ => reflexivity
    end.
  all: try (right; apply in_cedges_host; rewrite ?Hh2; lia).
  all: try (left; apply in_cedges_host; rewrite ?Hh2; lia).
  all: try (right; apply in_cedges_pod; rewrite ?Hh2; lia).
  all: try (left; apply in_cedges_pod; rewrite ?Hh2; lia).
  all: try (right; apply in_cedges_core; rewrite ?Hh2; lia).
  all: try (left; apply in_cedges_core; rewrite ?Hh2; lia).
Qed.

(* hostdist is the graph distance between hosts in fattree k: no walk is shorter, and a walk of that
   length exists.  For EVERY even k >= 2. *)
Theorem hostdist_is_distance : forall k, Nat.even k = true -> 2 <= k ->
  forall x y, is_host k x = true -> is_host k y = true ->
  (forall rest, walkb (ft_edges k) (x :: rest) = true -> last (x :: rest) x = y -> hostdist k x y <= length rest) /\
  (exists rest, walkb (ft_edges k) (x :: rest) = true /\ last (x :: rest) x = y /\ length rest = hostdist k x y) /\
  (x <> y -> hostdist k x y = 2 \/ hostdist k x y = 4 \/ hostdist k x y = 6).
Proof.
  intros k He Hk x y Hx Hy. destruct (even_ge2 k He Hk) as (h & Hh & ->).
  destruct (host_decode h x Hh Hx) as (p & e & i & Dx & Vx & Nx).
  destruct (host_decode h y Hh Hy) as (q & f & j & Dy & Vy & Ny).
  assert (Hd : hostdist (2 * h) x y = pot (Host p e i) (Host q f j)).
  { rewrite <- Nx, <- Ny. apply hostdist_pot; assumption. }
  split; [|split].
  - intros rest Hw Hl. pose proof (walk_lower h (Host p e i) Hh rest x Hw) as Hlow.
    rewrite Hl, Dx, Dy in Hlow. rewrite Hd.
    assert (pot (Host p e i) (Host p e i) = 0) by (cbn [pot]; rewrite !Nat.eqb_refl; reflexivity). lia.
  - destruct (cpath_walk h (Host p e i) (Host q f j) Hh I Vx Vy) as (Hw & Hl & Hlen).
    exists (map (num (2 * h)) (cpath (Host p e i) (Host q f j))). rewrite <- Nx, <- Ny at 1 2.
    rewrite Nx in *. rewrite Ny in *. split; [exact Hw|]. split; [exact Hl|]. rewrite map_length, Hlen, Hd. reflexivity.
  - intros Hne. rewrite Hd. cbn [pot].
    destruct (p =? q) eqn:Epq; destruct (e =? f) eqn:Eef; destruct (i =? j) eqn:Eij; cbn [andb]; auto.
    apply Nat.eqb_eq in Epq, Eef, Eij. subst. congruence.
Qed.

Example hostdist_ex : map (hostdist 4 20) [20; 21; 22; 24; 35] = [0; 2; 4; 6; 6].
Proof. reflexivity. Qed.

(* what the per-run check of a generated path establishes: a path accepted by path_ok is a simple
   walk between two distinct hosts, and no walk between them in fattree k is shorter *)
Theorem path_ok_shortest : forall k src dst p, Nat.even k = true -> 2 <= k -> path_ok k src dst p = true ->
  exists rest, p = src :: rest /\ last p src = dst /\ walkb (ft_edges k) p = true /\ nodupb p = true /\
    forall rest', walkb (ft_edges k) (src :: rest') = true -> last (src :: rest') src = dst -> length rest <= length rest'.
Proof.
  intros k src dst p He Hk H. unfold path_ok in H.
  repeat (apply andb_true_iff in H as [H ?]).
  match goal with X : (length p =? _) = true |- _ => apply Nat.eqb_eq in X; rename X into Hlen end.
  match goal with X : (hd _ p =? src) = true |- _ => apply Nat.eqb_eq in X; rename X into Hhd end.
  match goal with X : (last p _ =? dst) = true |- _ => apply Nat.eqb_eq in X; rename X into Hlast end.
  destruct p as [|s rest]; [cbn in Hlen; discriminate|]. cbn [hd] in Hhd. subst s.
  exists rest. split; [reflexivity|].
  assert (Hl : last (src :: rest) src = dst).
  { rewrite <- Hlast. apply last_cons_default. }
  split; [exact Hl|]. split; [assumption|]. split; [assumption|].
  intros rest' Hw' Hl'.
  assert (Hs : is_host k src = true) by (unfold is_host; apply andb_true_iff; split; assumption). assert (Hd : is_host k dst = true) by assumption.
  destruct (hostdist_is_distance k He Hk src dst Hs Hd) as (Hlow & _).
  specialize (Hlow rest' Hw' Hl'). cbn [length] in Hlen. lia.
Qed.
