(* Model of onl/sim/rt.py : RealtimeEnvironment.step / sync.  The wall clock is an oracle: the list of
   values successive monotonic() calls return; sleep() is whatever makes the next reading what it is
   (sleeps may return early or late), so the theorems quantify over ALL reading sequences.
   The kernel is abstract here: pacing only looks at peek() and then calls Environment.step(). *)
From Coq Require Import ZArith QArith List Bool.
Import ListNotations.

Record rtcfg := { factor : Q; strict : bool; env_start : Q }.

Inductive rtout :=
| RProceed                (* Environment.step(self) is called now *)
| RTooSlow (delta : Q)    (* RuntimeError('Simulation too slow for real time (delta s).') *)
| REmpty                  (* EmptySchedule *)
| RNoClock.               (* the oracle ran out of readings (not a behaviour of the code) *)

(* the sleep loop:  while True: delta = real_time - monotonic(); if delta <= 0: break; sleep(delta)
   returns the requested sleeps, the readings consumed, and whether it ended *)
Fixpoint sleep_loop (real_time : Q) (clock : list Q) : list Q * list Q * bool :=
  match clock with
  | [] => ([], [], false)
  | r :: rest =>
      let delta := real_time - r in
      if Qle_bool delta 0 then ([], [r], true)
      else match sleep_loop real_time rest with
           | (sl, used, ok) => (delta :: sl, r :: used, ok)
           end
  end.

Definition real_time_of (c : rtcfg) (real_start evt_time : Q) : Q :=
  real_start + (evt_time - env_start c) * factor c.

(* one RealtimeEnvironment.step(): evt = peek() (None = Infinity).
   Result: outcome, sleeps requested, readings consumed (in order). *)
Definition rt_step (c : rtcfg) (real_start : Q) (evt : option Q) (clock : list Q) : rtout * list Q * list Q :=
  match evt with
  | None => (REmpty, [], [])
  | Some t =>
      let rt := real_time_of c real_start t in
      if strict c then
        match clock with
        | [] => (RNoClock, [], [])
        | r1 :: rest =>
            if Qlt_le_dec (factor c) (r1 - rt) then
              (* too slow: a second reading for the message *)
              match rest with
              | [] => (RNoClock, [], [r1])
              | r2 :: _ => (RTooSlow (r2 - rt), [], [r1; r2])
              end
            else
              match sleep_loop rt rest with
              | (sl, used, true) => (RProceed, sl, r1 :: used)
              | (sl, used, false) => (RNoClock, sl, r1 :: used)
              end
        end
      else
        match sleep_loop rt clock with
        | (sl, used, true) => (RProceed, sl, used)
        | (sl, used, false) => (RNoClock, sl, used)
        end
  end.

(* sync(): real_start := monotonic() *)
Definition rt_sync (clock : list Q) : option Q := hd_error clock.

(* ---- comparison with an observed step ------------------------------------------------------------ *)
Fixpoint lq_eqb (a b : list Q) : bool :=
  match a, b with
  | [], [] => true
  | x :: s, y :: t => Qeq_bool x y && lq_eqb s t
  | _, _ => false
  end.

Definition rtout_eqb (a b : rtout) : bool :=
  match a, b with
  | RProceed, RProceed => true
  | RTooSlow x, RTooSlow y => Qeq_bool x y
  | REmpty, REmpty => true
  | _, _ => false
  end.

(* observed: (evt_time, readings the step consumed, outcome, sleeps requested); the model is given
   exactly the consumed readings (plus nothing): it must consume all of them and agree *)
Definition rt_step_agree (c : rtcfg) (real_start : Q) (evt : option Q) (readings : list Q) (o : rtout) (sleeps : list Q) : bool :=
  match rt_step c real_start evt readings with
  | (o', sl, used) => rtout_eqb o' o && lq_eqb sl sleeps && lq_eqb used readings
  end.

(* ---- the real-time environment over an abstract kernel -------------------------------------------
   K is any kernel state, [peek] the time of the next scheduled occurrence, [kstep] Environment.step.
   A run is a list of per-step clock oracles; it stops at the first step that does not proceed. *)
Section OverKernel.
  Variable K : Type.
  Variable R : Type.                       (* what a kernel step reports (event processed, values, ...) *)
  Variable peek : K -> option Q.
  Variable kstep : K -> K * R.

  Fixpoint rt_run (c : rtcfg) (real_start : Q) (k : K) (clocks : list (list Q)) : K * list R * rtout :=
    match clocks with
    | [] => (k, [], RProceed)
    | clock :: more =>
        match rt_step c real_start (peek k) clock with
        | (RProceed, _, _) =>
            let (k', r) := kstep k in
            match rt_run c real_start k' more with
            | (k'', rs, o) => (k'', r :: rs, o)
            end
        | (o, _, _) => (k, [], o)
        end
    end.

  Fixpoint plain_run (k : K) (n : nat) : K * list R :=
    match n with
    | O => (k, [])
    | S m => let (k', r) := kstep k in
             match plain_run k' m with (k'', rs) => (k'', r :: rs) end
    end.
End OverKernel.
