(* Bridging lemmas (DESIGN 2.6, second tie) for RealtimeEnvironment.step / sync: the bodies as translated from the tree
   under test on every run (Gen/Extracted_rt.v) are [rt_step] / [rt_sync] of the hand-written model (Rt/Realtime.v) the
   C20 theorems are about.  The wall clock is the model's oracle: a list of readings; every monotonic() call of the body
   (effect FxMonotonic) consumes the next one, whose value the generated definition receives as the parameters r1, r2.
   The sleep loop is one whitelisted statement whose meaning is the model's [sleep_loop] on the remaining readings. *)
From Coq Require Import ZArith QArith List Bool Lia Lqa.
From ONL Require Import Rt.Realtime Gen.Extracted_rt.
Import ListNotations.

(* the effects run against the clock oracle: (outcome, sleeps requested, readings consumed) *)
Fixpoint rt_fx_run (clock used : list Q) (fx : list rt_fx) {struct fx} : rtout * list Q * list Q :=
  match fx with
  | [] => (RNoClock, [], used)                                   (* a body never just ends *)
  | FxRaiseEmptySchedule :: _ => (REmpty, [], used)
  | FxMonotonic :: t =>
      match clock with
      | [] => (RNoClock, [], used)
      | r :: rest => rt_fx_run rest (used ++ [r]) t
      end
  | FxRaiseTooSlow d :: _ => (RTooSlow d, [], used)
  | FxSleepLoop rt :: t =>
      match sleep_loop rt clock with
      | (sl, u, true) => match t with [FxKernelStep] => (RProceed, sl, used ++ u) | _ => (RNoClock, sl, used ++ u) end
      | (sl, u, false) => (RNoClock, sl, used ++ u)
      end
  | FxKernelStep :: _ => (RProceed, [], used)
  | FxSetRealStart _ :: _ => (RNoClock, [], used)
  end.

Definition rt_gen_step (c : rtcfg) (real_start : Q) (evt : option Q) (clock : list Q) : list rt_fx :=
  gen_Rt_step (match evt with None => true | Some _ => false end) (match evt with Some t => t | None => 0 end)
              real_start (env_start c) (factor c) (strict c) (nth 0 clock 0) (nth 1 clock 0).

Lemma Qle_bool_false x y : Qle_bool x y = false -> y < x.
Proof. intros H. apply Qnot_le_lt. intros L. apply Qle_bool_iff in L. rewrite L in H. discriminate. Qed.

Lemma bridge_rt_step c real_start evt clock :
  rt_fx_run clock [] (rt_gen_step c real_start evt clock) = rt_step c real_start evt clock.
Proof.
  unfold rt_gen_step, gen_Rt_step, rt_step, real_time_of.
  destruct evt as [t|]; [|reflexivity].
  set (rt := real_start + (t - env_start c) * factor c).
  destruct (strict c).
  - destruct clock as [|r1 rest]; cbn [nth].
    + destruct (negb (Qle_bool (0 - rt) (factor c))); reflexivity.
    + destruct (Qlt_le_dec (factor c) (r1 - rt)) as [L|L];
        destruct (Qle_bool (r1 - rt) (factor c)) eqn:E; cbn [negb].
      * apply Qle_bool_iff in E. exfalso. lra.
      * destruct rest as [|r2 rest']; reflexivity.
      * cbn. destruct (sleep_loop rt rest) as [[sl u] [|]]; reflexivity.
      * apply Qle_bool_false in E. exfalso. lra.
  - cbn. destruct (sleep_loop rt clock) as [[sl u] [|]]; reflexivity.
Qed.

(* sync(): real_start := monotonic() *)
Definition rt_sync_fx (clock : list Q) (fx : list rt_fx) : option Q :=
  match fx, clock with
  | [FxMonotonic; FxSetRealStart t], r :: _ => if Qeq_bool t r then Some r else None
  | _, _ => None
  end.

Lemma bridge_rt_sync clock :
  rt_sync_fx clock (gen_Rt_sync (nth 0 clock 0) (nth 1 clock 0)) = rt_sync clock.
Proof.
  unfold gen_Rt_sync, rt_sync_fx, rt_sync. destruct clock as [|r rest]; cbn; [reflexivity|].
  rewrite (proj2 (Qeq_bool_iff r r) (Qeq_refl r)). reflexivity.
Qed.
