From Coq Require Import ZArith QArith List Bool Lia Lqa.
From ONL Require Import Rt.Realtime.
Import ListNotations.

Lemma Qle_bool_true x y : Qle_bool x y = true -> x <= y.
Proof. apply Qle_bool_iff. Qed.

(* the sleep loop ends only on a reading that has reached real_time; every earlier reading was before it,
   and each requested sleep is exactly the missing time at that reading *)
Lemma sleep_loop_spec rt : forall clock sl used,
  sleep_loop rt clock = (sl, used, true) ->
  exists pre r, used = pre ++ [r] /\ rt <= r /\
                Forall (fun x => x < rt) pre /\ sl = map (fun x => rt - x) pre /\
                exists rest, clock = used ++ rest.
Proof.
  induction clock as [|r0 rest IH]; intros sl used H; cbn [sleep_loop] in H; [discriminate|].
  destruct (Qle_bool (rt - r0) 0) eqn:E.
  - injection H as <- <-. exists [], r0. repeat split; auto.
    + apply Qle_bool_true in E. lra.
    + exists rest. reflexivity.
  - destruct (sleep_loop rt rest) as [[sl' used'] ok] eqn:El. injection H as <- <- ->.
    destruct (IH _ _ eq_refl) as (pre & r & -> & Hr & Hpre & Hsl & rest' & Hrest).
    exists (r0 :: pre), r. repeat split; auto.
    + constructor; auto.
      destruct (Qlt_le_dec r0 rt); auto.
      assert (Qle_bool (rt - r0) 0 = true) by (apply Qle_bool_iff; lra). congruence.
    + cbn [map]. rewrite Hsl. reflexivity.
    + exists rest'. cbn [app]. rewrite Hrest. reflexivity.
Qed.

(* never early: Environment.step is entered only after a reading >= real_start + (t - initial)*factor *)
Theorem rt_never_early c rs t clock sl used :
  rt_step c rs (Some t) clock = (RProceed, sl, used) ->
  exists pre r, used = pre ++ [r] /\ real_time_of c rs t <= r.
Proof.
  unfold rt_step. set (rt := real_time_of c rs t). destruct (strict c).
  - destruct clock as [|r1 rest]; [discriminate|].
    destruct (Qlt_le_dec (factor c) (r1 - rt)).
    + destruct rest; discriminate.
    + destruct (sleep_loop rt rest) as [[sl' used'] ok] eqn:El. destruct ok; [|discriminate].
      intros H; injection H as <- <-.
      apply sleep_loop_spec in El as (pre & r & -> & Hr & _).
      exists (r1 :: pre), r. split; auto.
  - destruct (sleep_loop rt clock) as [[sl' used'] ok] eqn:El. destruct ok; [|discriminate].
    intros H; injection H as <- <-.
    apply sleep_loop_spec in El as (pre & r & -> & Hr & _). exists pre, r. split; auto.
Qed.

(* every reading before the last was too early, and the step slept exactly the missing time each time *)
Theorem rt_sleeps_exact c rs t clock sl used :
  strict c = false ->
  rt_step c rs (Some t) clock = (RProceed, sl, used) ->
  exists pre r, used = pre ++ [r] /\ Forall (fun x => x < real_time_of c rs t) pre /\
                sl = map (fun x => real_time_of c rs t - x) pre.
Proof.
  unfold rt_step. intros ->. set (rt := real_time_of c rs t).
  destruct (sleep_loop rt clock) as [[sl' used'] ok] eqn:El. destruct ok; [|discriminate].
  intros H; injection H as <- <-.
  apply sleep_loop_spec in El as (pre & r & -> & _ & Hpre & Hsl & _). exists pre, r. auto.
Qed.

(* strict mode: too slow exactly when the first reading is more than `factor` past the due instant *)
Theorem rt_strict_iff c rs t r1 r2 rest :
  strict c = true ->
  ((exists d, fst (fst (rt_step c rs (Some t) (r1 :: r2 :: rest))) = RTooSlow d)
   <-> factor c < r1 - real_time_of c rs t).
Proof.
  intros Hs. unfold rt_step. rewrite Hs. set (rt := real_time_of c rs t).
  destruct (Qlt_le_dec (factor c) (r1 - rt)) as [Hlt|Hge].
  - split; [auto|]. intros _. exists (r2 - rt). reflexivity.
  - split.
    + intros (d & H). destruct (sleep_loop rt (r2 :: rest)) as [[sl used] ok]; destruct ok; cbn in H; discriminate.
    + intros H. exfalso. unfold rt in *. apply (Qlt_irrefl (factor c)). eapply Qlt_le_trans; eauto.
Qed.

Theorem rt_nonstrict_never_raises c rs evt clock :
  strict c = false -> forall d, fst (fst (rt_step c rs evt clock)) <> RTooSlow d.
Proof.
  intros Hs d. unfold rt_step. rewrite Hs. destruct evt as [t|]; [|cbn; discriminate].
  destruct (sleep_loop _ clock) as [[sl used] ok]; destruct ok; cbn; discriminate.
Qed.

Theorem rt_empty c rs clock : rt_step c rs None clock = (REmpty, [], []).
Proof. reflexivity. Qed.

(* with enough non-decreasing... with any clock that eventually reaches real_time the step proceeds *)
Theorem rt_proceeds_when_reached c rs t clock :
  strict c = false -> Exists (fun r => real_time_of c rs t <= r) clock ->
  exists sl used, rt_step c rs (Some t) clock = (RProceed, sl, used).
Proof.
  intros Hs Hex. unfold rt_step. rewrite Hs. set (rt := real_time_of c rs t).
  assert (K : exists sl used, sleep_loop rt clock = (sl, used, true)).
  { induction Hex as [r rest Hr|r rest Hex IH]; cbn [sleep_loop].
    - assert (E : Qle_bool (rt - r) 0 = true) by (apply Qle_bool_iff; unfold rt; lra). rewrite E. eauto.
    - destruct (Qle_bool (rt - r) 0); [eauto|]. destruct IH as (sl & used & ->). eauto. }
  destruct K as (sl & used & ->). eauto.
Qed.

Example rt_example2 :
  fst (fst (rt_step {| factor := 1#2; strict := true; env_start := 0 |} 10 (Some 4) [11; 23#2; 12; 13])) = RProceed
  /\ fst (fst (rt_step {| factor := 1#2; strict := true; env_start := 0 |} 10 (Some 4) [13; 13])) = RTooSlow (13 - (10 + (4 - 0) * (1#2))).
Proof. split; vm_compute; reflexivity. Qed.

(* the real-time environment performs exactly the plain environment's steps: same events, same results,
   same resulting kernel state, for as many steps as it proceeds *)
Theorem rt_same_events (K R : Type) (peek : K -> option Q) (kstep : K -> K * R) c rs :
  forall clocks k k' results o,
  rt_run K R peek kstep c rs k clocks = (k', results, o) ->
  plain_run K R kstep k (length results) = (k', results).
Proof.
  induction clocks as [|clock more IH]; intros k k' results o H; cbn [rt_run] in H.
  - injection H as <- <- <-. reflexivity.
  - destruct (rt_step c rs (peek k) clock) as [[o1 sl] used].
    destruct o1; try (injection H as <- <- <-; reflexivity).
    destruct (kstep k) as [k1 r] eqn:Ek.
    destruct (rt_run K R peek kstep c rs k1 more) as [[k2 rs'] o2] eqn:Er.
    injection H as <- <- <-. cbn [length plain_run]. rewrite Ek.
    rewrite (IH _ _ _ _ Er). reflexivity.
Qed.
