(* Bridging lemmas (DESIGN 2.6, second tie) for TCPPacketGenerator.resend_packet and for the loop of put() that stops and
   forgets the acknowledged timers, as translated from the tree under test on every run (Gen/Extracted_tcpresend.v: the
   loop as ONE iteration, state record = the position k in the id list computed before the loop).  resend_packet is
   [resend current]; the loop, RUN on the id list with fuel 1 + its length, is [stop_all] (Tcp/Sender.v).  The id list
   itself (`[p for p in self.timers if p + self.mss <= ackno]`) is an observed collection: in the model [acked_ids]. *)
From Coq Require Import ZArith QArith List Bool Lia.
From ONL Require Import Tcp.Sender Gen.Extracted_tcpresend.
Import ListNotations.
Open Scope Z_scope.

Definition resend_fx_out (c : config) (id : Z) (fx : list resend_fx) : option (list out) :=
  match fx with
  | [] => Some []                                                     (* nothing in flight under this number *)
  | [FxRestamp _; FxAssertOut; FxTx] => Some [Tx id (mss c)]          (* the packet leaves again, stamped with now *)
  | _ => None
  end.

Lemma bridge_resend c s id nowq :
  resend_fx_out c id (snd (gen_resend_packet {| a_k := 0 |} (negb (in_sent id (sent s))) nowq)) = resend current c s id.
Proof. unfold gen_resend_packet, resend. destruct (in_sent id (sent s)); reflexivity. Qed.

(* the loop: one id per round; stop(), del timers[id], del sent_packets[id] (KeyError when it is not there) *)
Fixpoint run_stop (fuel : nat) (ids : list Z) (t : list (Z * Q)) (se : list Z) (acc : list out) (r : ack_st)
  : option (option (list (Z * Q) * list Z * list out)) :=            (* None = fuel / bad sequence; Some None = KeyError *)
  match fuel with
  | O => None
  | S fu =>
      let '(r', fx) := gen_stop_acked_iter r (Z.of_nat (length ids)) in
      match fx with
      | [] => Some (Some (t, se, acc))
      | [FxTimerStop; FxDelTimer; FxDelSent; FxLoopAgain]
      | [FxTimerStop; FxDelSent; FxDelTimer; FxLoopAgain] =>        (* the two deletions touch different dicts *)
          match nth_error ids (Z.to_nat (a_k r)) with
          | Some id => if in_sent id se then run_stop fu ids (del_timer id t) (del_sent id se) (acc ++ [TStop id]) r'
                       else Some None
          | None => None
          end
      | _ => None
      end
  end.

Lemma nth_pre {A} (pre rest : list A) x : nth_error (pre ++ x :: rest) (length pre) = Some x.
Proof. rewrite nth_error_app2 by lia. rewrite Nat.sub_diag. reflexivity. Qed.

Lemma run_stop_spec rest : forall pre t se acc,
  run_stop (S (length rest)) (pre ++ rest) t se acc {| a_k := Z.of_nat (length pre) |} = Some (stop_all rest t se acc).
Proof.
  induction rest as [|id tl IH]; intros pre t se acc.
  - cbn [run_stop length a_k stop_all]. unfold gen_stop_acked_iter. cbn [a_k]. rewrite app_nil_r.
    destruct (Z.ltb_spec (Z.of_nat (length pre)) (Z.of_nat (length pre))); [lia|reflexivity].
  - cbn [run_stop a_k stop_all]. unfold gen_stop_acked_iter. cbn [a_k]. rewrite app_length. cbn [length].
    destruct (Z.ltb_spec (Z.of_nat (length pre)) (Z.of_nat (length pre + S (length tl)))); [|lia].
    rewrite Nat2Z.id, nth_pre. destruct (in_sent id se); [|reflexivity].
    replace (Z.of_nat (length pre) + 1) with (Z.of_nat (length (pre ++ [id]))) by (rewrite app_length; cbn; lia).
    replace (pre ++ id :: tl) with ((pre ++ [id]) ++ tl) by (rewrite <- app_assoc; reflexivity).
    apply IH.
Qed.

Lemma bridge_stop_acked ids t se :
  run_stop (S (length ids)) ids t se [] {| a_k := 0 |} = Some (stop_all ids t se []).
Proof. exact (run_stop_spec ids [] t se []). Qed.
