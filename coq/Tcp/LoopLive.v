(* Towards "the loop runs to quiescence" (C16 reliable_delivery, liveness half).
   Part 6: a potential that every agenda step decreases: the number of steps the loop can take is
   bounded by  3 + flow size + 10 * (number of data transmissions).  Everything except transmitting
   (new data is bounded by the flow; retransmissions come from timer expiries and fast retransmit)
   is finite work. *)
From Coq Require Import ZArith QArith Qabs Qround Qminmax List Bool Lia Lqa Arith.
From ONL Require Import Tcp.Sink Tcp.SinkProofs Tcp.Sender Tcp.SenderProofs Tcp.Loop Tcp.LoopProofs.
Import ListNotations.
Open Scope Z_scope.

(* the work an agenda entry still stands for (itself and what it can set off without transmitting) *)
Definition wev (e : aev) : Z :=
  match e with
  | ASenderWake => 1 | ASenderCb => 2 | ATimerInit _ => 2 | ATimerFire _ => 1
  | AWireInit _ => 1 | AWirePutCb _ => 1
  | AWireGetD _ => 8 | AWireOutD _ => 7
  | AWireGetA _ _ _ _ => 5 | AWireOutA _ _ _ _ => 4
  end.

Fixpoint wag (l : list aentry) : Z :=
  match l with [] => 0 | a :: t => wev (ae_ev a) + wag t end.

Definition potN (st : lstate) : Z :=
  wag (l_agenda st) + 8 * Z.of_nat (length (wd_items (l_wd st))) + 5 * Z.of_nat (length (wa_items (l_wa st)))
  - 10 * Z.of_nat (l_n1 st).
Definition potS (c : config) (s : sender) : Z := Z.of_nat (tokens s) + (fsize c - next_seq s).
Definition pot (lc : lcfg) (st : lstate) : Z := potN st + potS (lc_cfg lc) (l_snd st).

Lemma wev_pos e : 1 <= wev e.
Proof. destruct e; cbn; lia. Qed.

Lemma wag_nonneg l : 0 <= wag l.
Proof. induction l as [|a t IH]; cbn [wag]; [lia|]. pose proof (wev_pos (ae_ev a)). lia. Qed.

Lemma wag_insert e l : wag (ainsert e l) = wev (ae_ev e) + wag l.
Proof.
  induction l as [|x t IH]; cbn [ainsert wag]; [lia|].
  destruct (ae_before e x); cbn [wag]; [lia|rewrite IH; lia].
Qed.

Lemma potN_sched st t p e : potN (sched st t p e) = wev e + potN st.
Proof. unfold potN, sched; lproj. rewrite wag_insert. cbn [ae_ev]. lia. Qed.

(* what the outputs of a sender event cost: a transmission pays for itself (and one more) *)
Fixpoint ocost (o : list out) : Z :=
  match o with
  | [] => 0
  | Tx _ _ :: t => -1 + ocost t
  | TStart _ _ :: t => 2 + ocost t
  | TStop _ :: t => ocost t
  | TRestart _ _ :: t => 1 + ocost t
  end.

Lemma tx_data_pot lc st id : potN (tx_data lc st id) <= potN st - 1 /\ l_snd (tx_data lc st id) = l_snd st.
Proof.
  unfold tx_data. destruct (existsb (Nat.eqb (l_n1 st)) (lc_drop_data lc)).
  - split; [|reflexivity]. unfold potN; lproj. lia.
  - split; [|reflexivity]. rewrite potN_sched. unfold potN; lproj. rewrite app_length. cbn [length wev]. lia.
Qed.

Lemma do_outs_pot lc : forall o st, potN (do_outs lc st o) <= potN st + ocost o /\ l_snd (do_outs lc st o) = l_snd st.
Proof.
  induction o as [|x o IH]; intros st; cbn [do_outs ocost]; [split; [lia|reflexivity]|].
  destruct x as [id z|id r|id|id r].
  - destruct (tx_data_pot lc st id) as [A B]. destruct (IH (tx_data lc st id)) as [C D]. split; [lia|congruence].
  - destruct (IH (sched st (l_now st) 0 (ATimerInit id))) as [C D]. rewrite potN_sched in C. cbn [wev] in C. split; [lia|exact D].
  - apply IH.
  - destruct (IH (sched st (l_now st + r)%Q 1 (ATimerFire id))) as [C D]. rewrite potN_sched in C. cbn [wev] in C. split; [lia|exact D].
Qed.

Lemma ocost_segs m id n r : ocost (segs m id n r) = Z.of_nat n.
Proof. revert id. induction n as [|n IH]; intros id; cbn [segs ocost]; [reflexivity|]. rewrite IH. lia. Qed.

Lemma ocost_stops ids : ocost (map TStop ids) = 0.
Proof. induction ids as [|i t IH]; cbn [map ocost]; auto. Qed.

(* one sender event inside the loop *)
Lemma sender_event_pot lc st e st' s' o :
  step (lc_fx lc) (lc_cfg lc) (l_snd st) e = Ok s' o -> sender_event lc st e = inl st' ->
  l_snd st' = norm_sender s' /\
  potN st' <= potN st + ocost o
              + (if (pend (l_snd st) <? pend s')%nat then 2 else 0)
              + (if wake s' && negb (match e with EWake => false | _ => wake (l_snd st) end) then 1 else 0).
Proof.
  intros Hstep H. unfold sender_event in H. rewrite Hstep in H. injection H as <-.
  set (st0 := set_snd st (norm_sender s')).
  destruct (do_outs_pot lc o st0) as [A B]. set (st1 := do_outs lc st0 o) in *.
  change (pend (norm_sender s')) with (pend s'). change (wake (norm_sender s')) with (wake s').
  set (c1 := (pend (l_snd st) <? pend s')%nat). set (c2 := wake s' && negb _).
  assert (E0 : potN st0 = potN st) by reflexivity.
  destruct c1, c2; lproj; unfold potN in *; lproj; rewrite ?wag_insert; cbn [ae_ev wev]; split; try exact B; try lia.
Qed.

(* the sender's share: per event, outputs + new store/wake entries + tokens + unsent bytes *)
Definition extra_cost (s s' : sender) (e : event) : Z :=
  (if (pend s <? pend s')%nat then 2 else 0) +
  (if wake s' && negb (match e with EWake => false | _ => wake s end) then 1 else 0).

Lemma step_potS c s e s' o :
  0 < mss c -> SInv c s -> step repaired c s e = Ok s' o ->
  ocost o + extra_cost s s' e + potS c s' <= potS c s + (match e with EAck _ _ _ _ => 3 | _ => 0 end).
Proof.
  intros Hm I H. unfold extra_cost, potS. destruct e as [ackno pid sample orc|id| |]; cbn [step] in H.
  - apply on_ack_shape in H; [|apply I]. destruct H as (N & _ & Wk & _ & _ & [D|Nw]).
    + destruct D as (_&_&_&_&_&_&_&_&Tk&Pd&O). rewrite N, Wk, Tk, Pd, Nat.ltb_irrefl.
      assert (Hb : wake s && negb (wake s) = false) by (destruct (wake s); reflexivity). rewrite Hb.
      destruct O as [->|(-> & _)]; cbn [ocost]; lia.
    + destruct Nw as (_&_&_&_&_&O&_&_&_&Tk&Pd). rewrite N, Wk, Tk, Pd, O, ocost_stops.
      replace (pend s <? S (pend s))%nat with true by (symmetry; apply Nat.ltb_lt; lia).
      assert (Hb : wake s && negb (wake s) = false) by (destruct (wake s); reflexivity). rewrite Hb. lia.
  - unfold on_timer in H. destruct (has_timer id (timers s)) eqn:Eh; cbn [negb] in H; [|discriminate].
    apply has_timer_In in Eh. rewrite (si_keys _ _ I) in Eh. apply in_sent_In in Eh.
    unfold resend in H. proj. rewrite Eh in H. injection H as <- <-. proj. cbn [app ocost]. rewrite Nat.ltb_irrefl.
    assert (Hb : wake s && negb (wake s) = false) by (destruct (wake s); reflexivity). rewrite Hb. lia.
  - apply on_storecb_shape in H as (-> & p & Hp & [(Wt & Tk & ->)|(_ & ->)]); proj; rewrite Hp; cbn [ocost];
      (replace (S p <? p)%nat with false by (symmetry; apply Nat.ltb_ge; lia)).
    + destruct (negb (wake s)); cbn [andb]; lia.
    + assert (Hb : wake s && negb (wake s) = false) by (destruct (wake s); reflexivity). rewrite Hb. lia.
  - pose proof H as H0. unfold on_wake in H0. destruct (wake s && negb (finished s)); [|discriminate].
    apply send_loop_flags in H0 as (Pd & Fl). proj.
    apply send_guard in H; [|exact Hm]. destruct H as (n & -> & Hns & _). proj. cbn [app].
    rewrite ocost_segs, Hns, Pd, Nat.ltb_irrefl. cbn [negb]. rewrite andb_true_r.
    destruct Fl as [(_ & Hw & _ & Tk)|(_ & [(Hw & _ & Tk)|(Hw & _ & Tk & Tk0)])]; rewrite Hw; nia.
Qed.

(* ---- every agenda step decreases the potential ---- *)
Lemma wd_get_pot st : potN (wd_get st) = potN st.
Proof.
  unfold wd_get. destruct (wd_items (l_wd st)) as [|x rest] eqn:E.
  - unfold potN; lproj. rewrite E. reflexivity.
  - rewrite potN_sched. unfold potN; lproj. rewrite E. cbn [length wev]. lia.
Qed.

Lemma wa_get_pot st : potN (wa_get st) = potN st.
Proof.
  unfold wa_get. destruct (wa_items (l_wa st)) as [|x rest] eqn:E.
  - unfold potN; lproj. rewrite E. reflexivity.
  - rewrite potN_sched. unfold potN; lproj. rewrite E. cbn [length wev]. lia.
Qed.

Lemma deliver_data_pot lc st id st' : deliver_data lc st id = inl st' -> potN st' <= potN st + 6 /\ l_snd st' = l_snd st.
Proof.
  unfold deliver_data. destruct (pkt_get id (l_pkt st)) as [[tm ct]|]; [|discriminate].
  destruct (existsb _ _); intros H; injection H as <-.
  - split; [|reflexivity]. unfold potN; lproj. lia.
  - split; [|reflexivity]. rewrite potN_sched. unfold potN; lproj. rewrite app_length. cbn [length wev]. lia.
Qed.

Lemma deliver_ack_pot lc st ackno pid tm st' :
  lc_ok lc -> SInv (lc_cfg lc) (l_snd st) -> deliver_ack lc st ackno pid tm = inl st' ->
  pot lc st' <= pot lc st + 3.
Proof.
  intros [Hfx Hm _] I H. unfold deliver_ack in H.
  set (st0 := mkls _ _ _ _ _ _ _ _ _ _ (tl (l_oracle st)) _ _ _) in H.
  set (e := EAck ackno pid (nq (l_now st - tm)) (hd 0%Q (l_oracle st))) in H.
  destruct (step (lc_fx lc) (lc_cfg lc) (l_snd st0) e) as [s' o|x] eqn:Hstep;
    [|unfold sender_event in H; rewrite Hstep in H; discriminate].
  destruct (sender_event_pot lc st0 e st' s' o Hstep H) as [Hs Hp].
  rewrite Hfx in Hstep. change (l_snd st0) with (l_snd st) in *.
  pose proof (step_potS _ _ _ _ _ Hm I Hstep) as Hq. unfold extra_cost in Hq. subst e. cbn beta iota in *.
  unfold pot. rewrite Hs. change (potS (lc_cfg lc) (norm_sender s')) with (potS (lc_cfg lc) s').
  change (potN st0) with (potN st) in Hp. lia.
Qed.

Lemma sender_event_pot_total lc st e st' :
  lc_ok lc -> SInv (lc_cfg lc) (l_snd st) -> (forall a p s o, e <> EAck a p s o) ->
  sender_event lc st e = inl st' -> pot lc st' <= pot lc st.
Proof.
  intros [Hfx Hm _] I Hne H.
  destruct (step (lc_fx lc) (lc_cfg lc) (l_snd st) e) as [s' o|x] eqn:Hstep;
    [|unfold sender_event in H; rewrite Hstep in H; discriminate].
  destruct (sender_event_pot lc st e st' s' o Hstep H) as [Hs Hp].
  rewrite Hfx in Hstep. pose proof (step_potS _ _ _ _ _ Hm I Hstep) as Hq. unfold extra_cost in Hq.
  unfold pot. rewrite Hs. change (potS (lc_cfg lc) (norm_sender s')) with (potS (lc_cfg lc) s').
  destruct e; try lia. exfalso. eapply Hne. reflexivity.
Qed.

Lemma handle_pot lc st ev st' :
  lc_ok lc -> SInv (lc_cfg lc) (l_snd st) -> handle lc st ev = inl st' -> pot lc st' <= pot lc st + wev ev - 1.
Proof.
  intros Hok I H.
  { destruct ev as [| |id|id|w|w|id|id|ackno pid tm ct|ackno pid tm ct]; cbn [handle wev] in *.
      - apply sender_event_pot_total in H; auto; [lia|discriminate].
      - apply sender_event_pot_total in H; auto; [lia|discriminate].
      - destruct (find _ _) as [[k r]|]; injection H as <-; unfold pot; [rewrite potN_sched; cbn [wev]|]; lproj; lia.
      - destruct (has_timer _ _); [apply sender_event_pot_total in H; auto; [lia|discriminate]|injection H as <-; lia].
      - destruct w; injection H as <-; unfold pot; rewrite ?wa_get_pot, ?wd_get_pot;
          [rewrite (wa_get_snd st)|rewrite (wd_get_snd st)]; lia.
      - destruct w; [destruct (wa_waiting _)|destruct (wd_waiting _)]; injection H as <-; unfold pot;
          rewrite ?wa_get_pot, ?wd_get_pot, ?wa_get_snd, ?wd_get_snd; lia.
      - destruct (pkt_get id (l_pkt st)) as [[tm ct]|]; [|discriminate].
        destruct (Qltb _ _); [injection H as <-; unfold pot; rewrite potN_sched; cbn [wev]; lproj; lia|].
        destruct (deliver_data lc st id) as [st1|] eqn:D; cbn [bind] in H; [|discriminate]. injection H as <-.
        apply deliver_data_pot in D as [D1 D2]. unfold pot. rewrite wd_get_pot, wd_get_snd, D2. lia.
      - destruct (deliver_data lc st id) as [st1|] eqn:D; cbn [bind] in H; [|discriminate]. injection H as <-.
        apply deliver_data_pot in D as [D1 D2]. unfold pot. rewrite wd_get_pot, wd_get_snd, D2. lia.
      - destruct (Qltb _ _); [injection H as <-; unfold pot; rewrite potN_sched; cbn [wev]; lproj; lia|].
        destruct (deliver_ack lc st ackno pid tm) as [st1|] eqn:D; cbn [bind] in H; [|discriminate]. injection H as <-.
        apply deliver_ack_pot in D; auto. unfold pot in *. rewrite wa_get_pot, wa_get_snd. lia.
      - destruct (deliver_ack lc st ackno pid tm) as [st1|] eqn:D; cbn [bind] in H; [|discriminate]. injection H as <-.
        apply deliver_ack_pot in D; auto. unfold pot in *. rewrite wa_get_pot, wa_get_snd. lia. }
Qed.

Lemma lstep_pot lc st st' :
  lc_ok lc -> LInvA lc st None -> lstep lc st = Some (inl st') -> pot lc st' + 1 <= pot lc st.
Proof.
  intros Hok HA H. unfold lstep in H. destruct (l_agenda st) as [|a rest] eqn:E; [discriminate|].
  injection H as H. fold (popped st a rest) in H.
  apply handle_pot in H; [|exact Hok|apply HA].
  unfold pot, potN, popped in *; lproj. rewrite E. cbn [wag]. lia.
Qed.

(* k agenda steps *)
Inductive lsteps (lc : lcfg) : nat -> lstate -> lstate -> Prop :=
| steps_O st : lsteps lc O st st
| steps_S k st st1 st2 : lsteps lc k st st1 -> lstep lc st1 = Some (inl st2) -> lsteps lc (S k) st st2.

Lemma lsteps_reach lc k st st' : lsteps lc k st st' -> lreach lc st st'.
Proof. induction 1; [constructor|eapply reach_step; eauto]. Qed.

Lemma lsteps_pot lc cw ss rtt0 orc k st :
  lc_ok lc -> (zq (mss (lc_cfg lc)) <= cw)%Q -> (0 < rtt0)%Q ->
  lsteps lc k (linit cw ss rtt0 orc) st -> Z.of_nat k + pot lc st <= pot lc (linit cw ss rtt0 orc).
Proof.
  intros Hok Hc Hr H. remember (linit cw ss rtt0 orc) as s0. induction H as [|k st st1 st2 H IH Hs]; [lia|].
  specialize (IH Heqs0). subst st.
  assert (HA : LInvA lc st1 None) by (eapply reach_A; eauto; eapply lsteps_reach; eauto).
  pose proof (lstep_pot lc st1 st2 Hok HA Hs). lia.
Qed.

(* WORK IS BOUNDED BY TRANSMISSIONS: after k steps, k <= 3 + flow size + 10 * (data packets handed
   to the data path so far) *)
Theorem loop_work_bounded lc cw ss rtt0 orc k st :
  lc_ok2 lc -> (zq (mss (lc_cfg lc)) <= cw)%Q -> (0 < rtt0)%Q -> fsize (lc_cfg lc) <> 0 ->
  lsteps lc k (linit cw ss rtt0 orc) st ->
  Z.of_nat k <= 3 + fsize (lc_cfg lc) + 10 * Z.of_nat (l_n1 st).
Proof.
  intros Hok2 Hc Hr Hfs H. pose proof (ok2_ok _ Hok2) as Hok.
  pose proof (lsteps_pot lc cw ss rtt0 orc k st Hok Hc Hr H) as Hp.
  destruct (reach_C lc cw ss rtt0 orc st Hok2 Hc Hr (lsteps_reach _ _ _ _ H)) as [_ [Cs _]].
  destruct (sc_buf _ _ Cs) as [B1 B2]. specialize (B2 Hfs).
  assert (Hlow : - 10 * Z.of_nat (l_n1 st) <= pot lc st).
  { unfold pot, potN, potS. pose proof (wag_nonneg (l_agenda st)). lia. }
  assert (Hinit : pot lc (linit cw ss rtt0 orc) = 3 + fsize (lc_cfg lc)).
  { unfold pot, potN, potS, linit, init; lproj; proj. cbn [wag ae_ev wev length Z.of_nat]. lia. }
  lia.
Qed.

Lemma lsteps_prepend lc st s1 k s2 : lstep lc st = Some (inl s1) -> lsteps lc k s1 s2 -> lsteps lc (S k) st s2.
Proof.
  intros Es H. induction H as [|k a b c H IH Hs].
  - eapply steps_S; [constructor|exact Es].
  - eapply steps_S; [exact (IH Es)|exact Hs].
Qed.

Lemma lrun_fuel_steps lc : forall fuel st st', lrun fuel lc st = LFuel st' -> lsteps lc fuel st st'.
Proof.
  induction fuel as [|f IH]; intros st st'; cbn [lrun].
  - intros H; injection H as <-. constructor.
  - destruct (l_agenda st) as [|a rest] eqn:E; [discriminate|].
    destruct (Qle_bool (lc_tmax lc) (ae_time a)); [discriminate|].
    destruct (lstep lc st) as [[st1|e]|] eqn:Es; try discriminate.
    intros H. apply IH in H. eapply lsteps_prepend; eauto.
Qed.

(* the executable runner runs out of fuel only if that many packets were transmitted *)
Theorem loop_out_of_fuel_needs_transmissions lc cw ss rtt0 orc fuel st :
  lc_ok2 lc -> (zq (mss (lc_cfg lc)) <= cw)%Q -> (0 < rtt0)%Q -> fsize (lc_cfg lc) <> 0 ->
  lrun fuel lc (linit cw ss rtt0 orc) = LFuel st ->
  Z.of_nat fuel <= 3 + fsize (lc_cfg lc) + 10 * Z.of_nat (l_n1 st).
Proof.
  intros Hok2 Hc Hr Hfs H. apply lrun_fuel_steps in H. eapply loop_work_bounded; eauto.
Qed.
