(* C16 liveness, concluded.  Part 13: the number of timer expiries of any run is bounded, hence the
   number of agenda steps; with enough fuel the executable runner never ends in LFuel: it ends
   quiescent (or stopped by t_max) with everything delivered and acknowledged. *)
From Coq Require Import ZArith QArith Qabs Qround Qminmax List Bool Lia Lqa Arith.
From ONL Require Import Tcp.Sink Tcp.SinkProofs Tcp.Sender Tcp.SenderProofs Tcp.Loop Tcp.LoopProofs Tcp.LoopLive
  Tcp.LoopLossfree Tcp.LoopLive2 Tcp.LoopLive2T Tcp.LoopLive2P Tcp.LoopLive2Q Tcp.LoopLive2U.
Import ListNotations.
Open Scope Z_scope.

Lemma reach_lsteps lc st0 st : lreach lc st0 st -> exists k, lsteps lc k st0 st.
Proof. induction 1 as [|st st' H (k & IH) Hs]; [exists O; constructor|exists (S k); eapply steps_S; eauto]. Qed.

Lemma nexp_step lc st a rest st' : Tr lc st a rest st' -> (nexp st' <= S (nexp st))%nat.
Proof.
  intros [e isack s' o nw kp k nwa Hev Hstep Ho Hnow Hsnd Hsink Hn2 Hslog Hn1 Hwd Hif HA' Hkp Hkeep Hpkt
         | id r Hev Hfind Hk Hwd Hwa HA' | Hev Hk Hwd Hwa Hag | Hev Hk Hwa Hwd HA' | Hev Hk Hwd Hwa HA'
         | id Hev Hq Hk Hwd Hwa HA' | ackno pid tm ct Hev Hq Hk Hwd Hwa HA'
         | id tm ct Hev Hp Hnow Hsnd Hpkt Hn1 Hslog Hsink Hn2 Hwd Hif];
    try (destruct Hk as [k1 k2 k3 k4 k5 k6 k7]; unfold popped in *; lproj; rewrite (nexp_same _ _ k7); lia).
  - rewrite (nexp_cons _ _ _ Hslog). destruct (is_expire _); lia.
  - rewrite (nexp_same _ _ Hslog). lia.
Qed.

(* the data wire's store is bounded through the potential of LoopLive2 *)
Lemma sumD_ge_len lc n l : Forall (fun id => 0 <= id <= fsize (lc_cfg lc)) l -> 8 * Z.of_nat (length l) <= sumD lc n l.
Proof.
  induction 1 as [|x l Hx Hl IH]; cbn [sumD length]; [lia|]. pose proof (wD_nonneg lc n x Hx). lia.
Qed.

Lemma items_bound lc cw ss rtt0 orc st :
  lc_ok2 lc -> (zq (mss (lc_cfg lc)) <= cw)%Q -> (0 < rtt0)%Q -> fsize (lc_cfg lc) <> 0 ->
  lreach lc (linit cw ss rtt0 orc) st ->
  8 * Z.of_nat (length (wd_items (l_wd st))) <= 3 + Gnew lc * fsize (lc_cfg lc) + Cexp lc * Z.of_nat (nexp st).
Proof.
  intros Hok2 Hc Hr Hfs Hreach. pose proof (ok2_ok _ Hok2) as Hok. pose proof (ok_mss _ Hok) as Hm.
  destruct (reach_lsteps _ _ _ Hreach) as (k & Hk).
  pose proof (lsteps_pot2 lc cw ss rtt0 orc k st Hok2 Hc Hr Hfs Hk) as Hp.
  destruct (reach_AB lc cw ss rtt0 orc st Hok Hc Hr Hreach) as [HA HB].
  pose proof (reach_ns_le lc cw ss rtt0 orc st Hok2 Hc Hr Hfs Hreach) as Hns.
  pose proof (LInvB_nse_le lc st None Hm HB) as Hnse.
  assert (Hinit : pot2 lc (linit cw ss rtt0 orc) = 3 + Gnew lc * fsize (lc_cfg lc)).
  { unfold pot2, potN2, potS2, nexp, linit, init; lproj; proj. cbn [wag2 ae_ev wev2 wev sumD sumA filter length Z.of_nat]. lia. }
  assert (HG : 0 <= Gnew lc) by (unfold Gnew; pose proof (lb_ns _ _ _ HB); lia).
  assert (HS : 0 <= potS2 lc (l_snd st)) by (unfold potS2; nia).
  assert (HW : 0 <= wag2 lc (nse (l_sink st)) (l_agenda st)).
  { apply wag2_nonneg. apply Forall_forall. intros b Hb. destruct (ae_ev b) eqn:Eb; auto.
    - destruct (lb_evd _ _ _ HB (ae_ev b) id) as [A B]; [right; eauto|rewrite Eb; reflexivity|lia].
    - destruct (lb_evd _ _ _ HB (ae_ev b) id) as [A B]; [right; eauto|rewrite Eb; reflexivity|lia].
    - destruct (lb_eva _ _ _ HB (ae_ev b) ackno) as [[A B] _]; [right; eauto|rewrite Eb; reflexivity|lia].
    - destruct (lb_eva _ _ _ HB (ae_ev b) ackno) as [[A B] _]; [right; eauto|rewrite Eb; reflexivity|lia]. }
  assert (HA2 : 0 <= sumA lc (wa_items (l_wa st))).
  { pose proof (lb_wa _ _ _ HB) as Hw. induction Hw as [|x l [A B] Hl IH]; cbn [sumA]; [lia|]. unfold wA. lia. }
  assert (HD : 8 * Z.of_nat (length (wd_items (l_wd st))) <= sumD lc (nse (l_sink st)) (wd_items (l_wd st))).
  { apply sumD_ge_len. eapply Forall_impl; [|exact (lb_wd _ _ _ HB)]. intros i [A B]. lia. }
  rewrite Hinit in Hp. unfold pot2, potN2 in Hp. lia.
Qed.

Section Final.
Variable lc : lcfg.
Variables cw ss rtt0 : Q.
Variable orc : list Q.
Variable B : Z.
Hypothesis Hok2 : lc_ok2 lc.
Hypothesis Hcw : (zq (mss (lc_cfg lc)) <= cw)%Q.
Hypothesis Hrtt : (0 < rtt0)%Q.
Hypothesis Hfs : fsize (lc_cfg lc) <> 0.
Local Notation SZ := (fsize (lc_cfg lc)).
Local Notation d := (lc_delay lc).
Local Notation st0 := (linit cw ss rtt0 orc).

(* the lower bound of the RTO, the bound on the data wire's queue, the threshold, the epoch allowance *)
Definition rho : Q := rtt0 * geo (Z.to_nat SZ).
Definition Pmax : Z := 3 + Gnew lc * SZ + Cexp lc * (B + 1).
Definition ThetaB : Q := (inject_Z Pmax + 3) * d.
Definition LGB : Z := lgz ThetaB rho.
Definition nphase : Z := SZ + Z.of_nat (length (lc_drop_data lc)) + Z.of_nat (length (lc_drop_ack lc)) + 1.

Hypothesis HB0 : 0 <= B.
Hypothesis HB : PsiMax lc LGB * nphase <= B.

Let Hok : lc_ok lc := ok2_ok _ Hok2.
Let Hm : 0 < mss (lc_cfg lc) := ok_mss _ Hok.
Let Hd : (0 <= d)%Q := ok_delay _ Hok.

Lemma good_reach st : lreach lc st0 st -> Z.of_nat (nexp st) <= B + 1 -> Good lc ThetaB LGB st.
Proof.
  intros Hreach Hn.
  destruct (reach_AB lc cw ss rtt0 orc st Hok Hcw Hrtt Hreach) as [HA HB1].
  constructor; auto.
  - eapply reach_W; eauto.
  - eapply reach_U; eauto.
  - eapply reach_ns_le; eauto.
  - apply (reach_RtoLow lc cw ss rtt0 orc st Hok Hcw Hrtt Hreach).
  - destruct (loop_rto_lower_bound lc cw ss rtt0 orc st Hok2 Hcw Hrtt Hfs Hreach) as [R1 R2]. apply lgz_mono; assumption.
  - pose proof (items_bound lc cw ss rtt0 orc st Hok2 Hcw Hrtt Hfs Hreach) as Hi.
    assert (HC : 0 <= Cexp lc) by (unfold Cexp; pose proof (lb_ns _ _ _ HB1); pose proof (reach_ns_le lc cw ss rtt0 orc st Hok2 Hcw Hrtt Hfs Hreach); lia).
    assert (Hlen : Z.of_nat (length (wd_items (l_wd st))) <= Pmax) by (unfold Pmax; nia).
    unfold ThetaB, nlen. assert (inject_Z (Z.of_nat (length (wd_items (l_wd st)))) <= inject_Z Pmax)%Q by (rewrite <- Zle_Qle; exact Hlen).
    nra.
Qed.

Lemma dropsAfter_0 l : dropsAfter 0 l = length l.
Proof. unfold dropsAfter. rewrite filter_all_true by reflexivity. reflexivity. Qed.

Lemma Total0_le : Total lc ThetaB LGB st0 <= B.
Proof.
  assert (G0 : Good lc ThetaB LGB st0) by (apply good_reach; [constructor|unfold nexp, linit; cbn; lia]).
  pose proof (Psi_bounds lc ThetaB LGB st0 Hm G0) as [P0 P1].
  assert (E : (SZ - last_ack (l_snd st0)) + dropsRem lc st0 = nphase - 1).
  { unfold dropsRem, linit, init, nphase; lproj; proj. rewrite !dropsAfter_0. lia. }
  unfold Total. rewrite E. assert (0 <= PsiMax lc LGB) by lia. nia.
Qed.

Lemma Total_nonneg st : Good lc ThetaB LGB st -> 0 <= Total lc ThetaB LGB st.
Proof.
  intros G. pose proof (Psi_bounds lc ThetaB LGB st Hm G) as [P0 P1].
  pose proof (g_ns _ _ _ _ G). pose proof (lb_la _ _ _ (g_B _ _ _ _ G)). pose proof (LInvB_nse_le lc st None Hm (g_B _ _ _ _ G)).
  unfold Total, dropsRem. assert (0 <= PsiMax lc LGB) by lia. nia.
Qed.

(* THE NUMBER OF TIMER EXPIRIES IS BOUNDED along every run *)
Lemma expiries_inv st : lreach lc st0 st ->
  Total lc ThetaB LGB st + Z.of_nat (nexp st) <= Total lc ThetaB LGB st0 /\ Z.of_nat (nexp st) <= B.
Proof.
  induction 1 as [|st st' Hreach [IH1 IH2] Hstep].
  - split; [unfold nexp at 1, linit; cbn [l_slog filter length Z.of_nat]; lia|unfold nexp, linit; cbn; lia].
  - assert (Hreach' : lreach lc st0 st') by (eapply reach_step; eauto).
    pose proof Hstep as Hs. unfold lstep in Hs. destruct (l_agenda st) as [|a rest] eqn:E; [discriminate|]. clear Hs.
    pose proof (lstep_Tr lc st a rest st' (ok_fx _ Hok) E Hstep) as HT.
    pose proof (nexp_step lc st a rest st' HT) as Hne.
    assert (G : Good lc ThetaB LGB st) by (apply good_reach; [exact Hreach|lia]).
    assert (G' : Good lc ThetaB LGB st') by (apply good_reach; [exact Hreach'|lia]).
    assert (Hla : last_ack (l_snd st) <= last_ack (l_snd st')).
    { apply (loop_last_ack_monotone lc cw ss rtt0 orc st st' Hok Hcw Hrtt Hreach). eapply reach_step; [constructor|exact Hstep]. }
    pose proof (Total_step lc ThetaB LGB Hd Hm st a rest st' G G' E HT Hla) as Hts.
    pose proof (Total_nonneg st' G'). pose proof Total0_le.
    split; lia.
Qed.

Theorem loop_expiries_bounded st : lreach lc st0 st -> Z.of_nat (nexp st) <= B.
Proof. intros H. apply (expiries_inv st H). Qed.

(* hence the number of agenda steps *)
Theorem loop_steps_bounded k st : lsteps lc k st0 st -> Z.of_nat k <= 3 + Gnew lc * SZ + Cexp lc * B.
Proof.
  intros H. pose proof (loop_work_bounded_by_expiries lc cw ss rtt0 orc k st Hok2 Hcw Hrtt Hfs H) as Hw.
  pose proof (loop_expiries_bounded st (lsteps_reach _ _ _ _ H)) as Hb.
  assert (0 <= Cexp lc).
  { unfold Cexp. pose proof (reach_ns_le lc cw ss rtt0 orc st0 Hok2 Hcw Hrtt Hfs (reach_init _ _)). unfold linit, init in H0; lproj; proj. lia. }
  nia.
Qed.

(* RELIABLE DELIVERY: with more fuel than that the runner ends quiescent (or stopped by t_max) with
   everything delivered and acknowledged *)
Theorem loop_terminates fuel :
  3 + Gnew lc * SZ + Cexp lc * B < Z.of_nat fuel ->
  match lrun fuel lc st0 with
  | LQuiescent st => last_ack (l_snd st) = SZ /\ nse (l_sink st) = SZ /\ sink_prefix (l_sink st) SZ
  | LStopped st => exists a rest, l_agenda st = a :: rest /\ (lc_tmax lc <= ae_time a)%Q
  | LFuel _ | LRaised _ _ => False
  end.
Proof.
  intros Hfuel.
  destruct (lrun fuel lc st0) as [st|st|st|st e] eqn:E.
  - assert (Hr : lreach lc st0 st).
    { pose proof (lrun_reach lc st0 fuel _ (reach_init _ _)) as R. rewrite E in R. exact R. }
    assert (Hq : l_agenda st = []).
    { clear -E. revert E. generalize st0. induction fuel as [|f IH]; intros s0; cbn [lrun]; [discriminate|].
      destruct (l_agenda s0) as [|a rest] eqn:Ea; [intros H; injection H as <-; exact Ea|].
      destruct (Qle_bool _ _); [discriminate|]. destruct (lstep lc s0) as [[s1|e]|] eqn:Es; try discriminate.
      - apply IH.
      - unfold lstep in Es. rewrite Ea in Es. discriminate. }
    exact (loop_quiescent_complete lc cw ss rtt0 orc st Hok2 Hcw Hrtt Hfs Hr Hq).
  - clear -E. revert E. generalize st0. induction fuel as [|f IH]; intros s0; cbn [lrun]; [discriminate|].
    destruct (l_agenda s0) as [|a rest] eqn:Ea; [discriminate|].
    destruct (Qle_bool (lc_tmax lc) (ae_time a)) eqn:Eq.
    + intros H; injection H as <-. exists a, rest. split; [exact Ea|apply Qle_bool_iff; exact Eq].
    + destruct (lstep lc s0) as [[s1|e]|] eqn:Es; try discriminate. apply IH.
  - apply lrun_fuel_steps in E. apply loop_steps_bounded in E. lia.
  - eapply loop_never_raises; eauto.
Qed.
End Final.

(* ================================================================================================ *)
(* an explicit bound *)
Lemma pow2_ge_2l l : 0 <= l -> 2 * l <= 2 ^ l.
Proof.
  intros Hl. pattern l. apply natlike_ind; [cbn; lia| |exact Hl].
  intros x Hx IH. rewrite Z.pow_succ_r by exact Hx.
  destruct (Z.eq_dec x 0) as [->|Hne]; [cbn; lia|].
  assert (2 <= 2 ^ x) by (change 2 with (2 ^ 1) at 1; apply Z.pow_le_mono_r; lia). lia.
Qed.

Section Explicit.
Variable lc : lcfg.
Variable rtt0 : Q.
Local Notation SZ := (fsize (lc_cfg lc)).
Local Notation d := (lc_delay lc).

Definition kappa : Z := Qceiling (d / rho lc rtt0).
Definition c0 : Z := 3 * SZ + 3.
Definition alpha : Z := 6 + Gnew lc * SZ + Cexp lc.
Definition A1 : Z := (alpha + Cexp lc * nphase lc * c0) * kappa.
Definition A2 : Z := Cexp lc * nphase lc * kappa.
Definition Lexp : Z := 2 * Z.log2_up (A1 + A2 + 1).
(* THE BOUND on the number of timer expiries: a function of the flow size, MSS (through the drop
   lists' lengths only), delay, initial RTT estimate and the lengths of the drop lists *)
Definition Bexp : Z := nphase lc * (c0 + Lexp).

Hypothesis Hok2 : lc_ok2 lc.
Hypothesis Hrtt : (0 < rtt0)%Q.
Hypothesis Hfs : SZ <> 0.

Lemma SZ_pos : 0 < SZ.
Proof. destruct (ok2_size _ Hok2) as (k & Hk & Ek). pose proof (ok_mss _ (ok2_ok _ Hok2)). nia. Qed.

Lemma rho_pos : (0 < rho lc rtt0)%Q.
Proof. unfold rho. pose proof (geo_pos (Z.to_nat SZ)). nra. Qed.

Lemma Bexp_ok : 0 <= Bexp /\ PsiMax lc (LGB lc rtt0 Bexp) * nphase lc <= Bexp.
Proof.
  pose proof SZ_pos as Hs. pose proof rho_pos as Hr. pose proof (ok_delay _ (ok2_ok _ Hok2)) as Hd.
  assert (HM : 1 <= nphase lc) by (unfold nphase; lia).
  assert (Hc0 : 0 <= c0) by (unfold c0; lia).
  assert (HG : 0 <= Gnew lc) by (unfold Gnew; lia).
  assert (HC : 0 <= Cexp lc) by (unfold Cexp; lia).
  assert (Ha : 0 <= alpha) by (unfold alpha; nia).
  assert (Hk : 0 <= kappa).
  { unfold kappa. assert (0 <= d / rho lc rtt0)%Q by (apply Qle_shift_div_l; [exact Hr|lra]).
    pose proof (Qle_ceiling (d / rho lc rtt0)) as Hc. assert (inject_Z (-1) < inject_Z (Qceiling (d / rho lc rtt0)))%Q by (apply Qlt_le_trans with 0%Q; [reflexivity|lra]).
    rewrite <- Zlt_Qlt in H0. lia. }
  assert (HA1 : 0 <= A1) by (unfold A1; nia). assert (HA2 : 0 <= A2) by (unfold A2; nia).
  set (l := Z.log2_up (A1 + A2 + 1)). assert (Hl : 0 <= l) by apply Z.log2_up_nonneg.
  assert (HL : 0 <= Lexp) by (unfold Lexp; fold l; lia).
  assert (HBx : 0 <= Bexp) by (unfold Bexp; nia).
  split; [exact HBx|].
  (* (alpha + Cexp * Bexp) * kappa <= 2 ^ Lexp *)
  assert (P1 : A1 + A2 + 1 <= 2 ^ l) by (apply Z.log2_up_le_pow2; [lia|unfold l; lia]).
  assert (P2 : 2 * l <= 2 ^ l) by (apply pow2_ge_2l; exact Hl).
  assert (P3 : 2 ^ Lexp = 2 ^ l * 2 ^ l) by (unfold Lexp; fold l; replace (2 * l) with (l + l) by lia; apply Z.pow_add_r; lia).
  assert (P4 : A1 + A2 * Lexp <= 2 ^ Lexp).
  { rewrite P3. unfold Lexp at 1. fold l. assert (1 <= 2 ^ l) by lia. nia. }
  assert (P5 : (alpha + Cexp lc * Bexp) * kappa = A1 + A2 * Lexp) by (unfold A1, A2, Bexp; ring).
  (* the threshold is below rho * 2 ^ Lexp *)
  assert (Hdk : (d <= rho lc rtt0 * inject_Z kappa)%Q).
  { unfold kappa. pose proof (Qle_ceiling (d / rho lc rtt0)) as Hc.
    assert (Ht : (d == (d / rho lc rtt0) * rho lc rtt0)%Q) by (field; lra). rewrite Ht at 1. nra. }
  assert (HP : (inject_Z (Pmax lc Bexp) + 3 == inject_Z (alpha + Cexp lc * Bexp))%Q).
  { assert (Ez : Pmax lc Bexp + 3 = alpha + Cexp lc * Bexp) by (unfold Pmax, alpha; ring).
    rewrite <- Ez, inject_Z_plus. reflexivity. }
  assert (HLG : LGB lc rtt0 Bexp <= Lexp).
  { unfold LGB. apply lgz_le; [exact Hr|exact HL|]. unfold ThetaB. rewrite HP.
    assert (Hq : (inject_Z (alpha + Cexp lc * Bexp) * inject_Z kappa <= inject_Z (2 ^ Lexp))%Q).
    { rewrite <- inject_Z_mult, <- Zle_Qle. rewrite P5. exact P4. }
    assert (0 <= inject_Z (alpha + Cexp lc * Bexp))%Q by (change 0%Q with (inject_Z 0); rewrite <- Zle_Qle; nia).
    nra. }
  unfold PsiMax. unfold Bexp at 2. rewrite (Z.mul_comm (nphase lc)). apply Z.mul_le_mono_nonneg_r; [lia|]. unfold c0. lia.
Qed.
End Explicit.

(* RELIABLE DELIVERY (C16, liveness): for every flow of whole segments, MSS > 0, one-way delay d >= 0,
   initial RTT estimate > 0, initial window >= MSS, every two FINITE lists of dropped transmission
   indices, Reno or CUBIC (any oracle): a run with more than  3 + Gnew*size + Cexp*Bexp  steps of fuel
   never runs out of fuel and never raises; it ends with an empty agenda, last_ack = size and the sink
   holding exactly [0, size) -- unless t_max stops it first *)
Theorem loop_reliable_delivery lc cw ss rtt0 orc fuel :
  lc_ok2 lc -> (zq (mss (lc_cfg lc)) <= cw)%Q -> (0 < rtt0)%Q -> fsize (lc_cfg lc) <> 0 ->
  3 + Gnew lc * fsize (lc_cfg lc) + Cexp lc * Bexp lc rtt0 < Z.of_nat fuel ->
  match lrun fuel lc (linit cw ss rtt0 orc) with
  | LQuiescent st => last_ack (l_snd st) = fsize (lc_cfg lc) /\ nse (l_sink st) = fsize (lc_cfg lc) /\
                     sink_prefix (l_sink st) (fsize (lc_cfg lc))
  | LStopped st => exists a rest, l_agenda st = a :: rest /\ (lc_tmax lc <= ae_time a)%Q
  | LFuel _ | LRaised _ _ => False
  end.
Proof.
  intros Hok2 Hcw Hrtt Hfs Hfuel. destruct (Bexp_ok lc rtt0 Hok2 Hrtt Hfs) as [B0 B1].
  exact (loop_terminates lc cw ss rtt0 orc (Bexp lc rtt0) Hok2 Hcw Hrtt Hfs B0 B1 fuel Hfuel).
Qed.

(* and in every reachable state: the expiries so far, the agenda steps so far *)
Theorem loop_expiries_bounded_explicit lc cw ss rtt0 orc st :
  lc_ok2 lc -> (zq (mss (lc_cfg lc)) <= cw)%Q -> (0 < rtt0)%Q -> fsize (lc_cfg lc) <> 0 ->
  lreach lc (linit cw ss rtt0 orc) st -> Z.of_nat (nexp st) <= Bexp lc rtt0.
Proof.
  intros Hok2 Hcw Hrtt Hfs Hr. destruct (Bexp_ok lc rtt0 Hok2 Hrtt Hfs) as [B0 B1].
  exact (loop_expiries_bounded lc cw ss rtt0 orc (Bexp lc rtt0) Hok2 Hcw Hrtt Hfs B0 B1 st Hr).
Qed.

(* ---- non-vacuity ---- *)
(* 4 segments of 1 byte, delay 1, data transmissions 0 and 2 and ACK 1 dropped, rtt_estimate 1, window 2:
   the hypotheses hold, the bound is 40047 steps, and the run (3 expiries, 7 transmissions) completes *)
Definition lc_live : lcfg := mklcfg repaired (mkcfg 1 4 Reno) (1 # 1) [0; 2]%nat [1]%nat (1000000 # 1).
Example live_example :
  lc_ok2 lc_live /\ (zq (mss (lc_cfg lc_live)) <= 2 # 1)%Q /\ fsize (lc_cfg lc_live) <> 0 /\
  Bexp lc_live 1 = 360 /\ 3 + Gnew lc_live * 4 + Cexp lc_live * Bexp lc_live 1 = 40047 /\
  exists st, lrun (Z.to_nat 40048) lc_live (linit (2 # 1) (65535 # 1) 1 []) = LQuiescent st /\
             last_ack (l_snd st) = 4 /\ nse (l_sink st) = 4 /\ nexp st = 3%nat /\ l_n1 st = 7%nat.
Proof.
  split; [|split; [|split; [|split; [|split]]]].
  - constructor; [constructor; cbn; [reflexivity|lia|discriminate]|]. exists 4. cbn. lia.
  - cbn. discriminate.
  - cbn. discriminate.
  - vm_compute. reflexivity.
  - vm_compute. reflexivity.
  - eexists. split; [vm_compute; reflexivity|]. repeat split; reflexivity.
Qed.

(* delay 0 (every RTT sample is 0, rtt_estimate decays by 7/8 per new ACK), CUBIC, three data and two ACK drops *)
Definition lc_live0 : lcfg := mklcfg repaired (mkcfg 2 6 Cubic) (0 # 1) [1; 2; 3]%nat [0; 1]%nat (1000000 # 1).
Example live_example_delay0 :
  lc_ok2 lc_live0 /\ Bexp lc_live0 (1 # 4) = 252 /\
  exists st, lrun (Z.to_nat 38710) lc_live0 (linit (4 # 1) (65535 # 1) (1 # 4) []) = LQuiescent st /\
             last_ack (l_snd st) = 6 /\ (0 < rto (l_snd st))%Q.
Proof.
  split; [|split].
  - constructor; [constructor; cbn; [reflexivity|lia|discriminate]|]. exists 3. cbn. lia.
  - vm_compute. reflexivity.
  - eexists. split; [vm_compute; reflexivity|]. split; [reflexivity|]. vm_compute. reflexivity.
Qed.
