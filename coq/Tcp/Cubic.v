(* TCPCubic's epoch state and growth function, exactly over Q (onl/packet/tcp_generator.py:
   TCPCubic.ack_received / cubic_update / cubic_tcp_friendliness / cubic_reset / timer_expired).
   The sender model (Tcp/Sender.v) takes TCPCubic.cnt as an oracle; here the oracle is COMPUTED and
   the two are composed ([stepx]).  C = 0.4 and beta = 0.2 are modelled as 2/5 and 1/5, so
   3*beta/(2-beta) = 1/3;  (t - K) ** 3 is an integer power, exact in Q.
   The branch `if self.cwnd < self.W_last_max: K = (...) ** (1/3)` (libm cube root) is an explicit
   error [CubicRoot]; W_last_max is only ever assigned 0, so it is dead (Tcp/CubicProofs.v). *)
From Coq Require Import ZArith QArith Qabs Qminmax List Bool.
From ONL Require Import Tcp.Sender.
Import ListNotations.
Open Scope Z_scope.

Record cubic := mkcub {
  c_wlast : Q;      (* W_last_max *)
  c_epoch : Q;      (* epoch_start *)
  c_origin : Q;     (* origin_point *)
  c_dmin : Q;       (* d_min *)
  c_wtcp : Q;       (* W_tcp *)
  c_k : Q;          (* K *)
  c_ackcnt : Q      (* ack_cnt (an int in Python; only ever used as ack_cnt / cwnd) *)
}.

Definition cubic0 : cubic := mkcub 0 0 0 0 0 0 0.

(* cubic_reset() *)
Definition cubic_reset (_ : cubic) : cubic := cubic0.

Definition cC : Q := 2 # 5.
Definition cBeta : Q := 1 # 5.

Inductive cres := CubOk (cs : cubic) (cnt : option Q) | CubicRoot.

(* ack_received(rtt, current_time) as far as the CUBIC state and cnt go; [cw] is self.cwnd when it is called.
   Result cnt = None: slow start, cubic_update() not called, self.cnt unchanged *)
Definition cubic_ack (cs : cubic) (cw ss rtt now : Q) : cres :=
  (* if self.d_min > 0: self.d_min = min(self.d_min, rtt) else: self.d_min = rtt *)
  let dmin := if Qltb 0 (c_dmin cs) then (if Qle_bool (c_dmin cs) rtt then c_dmin cs else rtt) else rtt in
  if Qle_bool cw ss then CubOk (mkcub (c_wlast cs) (c_epoch cs) (c_origin cs) dmin (c_wtcp cs) (c_k cs) (c_ackcnt cs)) None
  else
    (* cubic_update(current_time) *)
    let ack1 := (c_ackcnt cs + 1)%Q in
    let start :=   (* (epoch_start, K, origin_point, ack_cnt, W_tcp), or the unmodelled cube root *)
      if Qle_bool (c_epoch cs) 0 then
        if Qltb cw (c_wlast cs) then None
        else Some (now, 0%Q, cw, 1%Q, cw)
      else Some (c_epoch cs, c_k cs, c_origin cs, ack1, c_wtcp cs) in
    match start with
    | None => CubicRoot
    | Some (epoch, k, origin, ack2, wtcp1) =>
        let t := (now + dmin - epoch)%Q in
        let target := (origin + cC * ((t - k) * (t - k) * (t - k)))%Q in
        let cnt1 := if Qltb cw target then (cw / (target - cw))%Q else ((100 # 1) * cw)%Q in
        (* cubic_tcp_friendliness() *)
        let wtcp2 := (wtcp1 + (3 # 1) * cBeta / ((2 # 1) - cBeta) * (ack2 / cw))%Q in
        let cnt2 := if Qltb cw wtcp2 then
                      let max_cnt := (cw / (wtcp2 - cw))%Q in
                      if Qltb max_cnt cnt1 then max_cnt else cnt1
                    else cnt1 in
        CubOk (mkcub (c_wlast cs) epoch origin dmin wtcp2 k 0) (Some cnt2)
    end.

(* the cwnd ack_received() sees, and whether put() reaches ack_received() at all *)
Definition ack_cwnd (fx : fixes) (s : sender) (ackno : Z) : Q :=
  if ackno =? last_ack s then cwnd s
  else if 0 <? dupack s then (if (if fx_deflate3 fx then 3 else 1) <=? dupack s then ssthresh s else cwnd s)
       else cwnd s.
Definition ack_counts (s : sender) (ackno : Z) : bool :=
  if ackno =? last_ack s then dupack s + 1 =? 0
  else if 0 <? dupack s then true else dupack s =? 0.

(* events with the clock instead of the oracle *)
Inductive xevent :=
| XAck (ackno pid : Z) (sample now : Q)
| XExpire (id : Z)
| XStoreCb
| XWake.

Inductive xresult := XOk (s : sender) (cs : cubic) (o : list out) | XRaise (e : err) | XCubicRoot.

Definition stepx (fx : fixes) (c : config) (s : sender) (cs : cubic) (e : xevent) : xresult :=
  match e with
  | XAck ackno pid sample now =>
      if ack_counts s ackno then
        match calg c with
        | Reno => match step fx c s (EAck ackno pid sample 0) with Ok s' o => XOk s' cs o | Raise x => XRaise x end
        | Cubic =>
            match cubic_ack cs (ack_cwnd fx s ackno) (ssthresh s) sample now with
            | CubicRoot => XCubicRoot
            | CubOk cs' cn =>
                let orc := match cn with Some q => q | None => cnt s end in
                match step fx c s (EAck ackno pid sample orc) with Ok s' o => XOk s' cs' o | Raise x => XRaise x end
            end
        end
      else match step fx c s (EAck ackno pid sample 0) with Ok s' o => XOk s' cs o | Raise x => XRaise x end
  | XExpire id =>
      match step fx c s (EExpire id) with
      | Ok s' o => XOk s' (match calg c with Cubic => cubic_reset cs | Reno => cs end) o
      | Raise x => XRaise x
      end
  | XStoreCb => match step fx c s EStoreCb with Ok s' o => XOk s' cs o | Raise x => XRaise x end
  | XWake => match step fx c s EWake with Ok s' o => XOk s' cs o | Raise x => XRaise x end
  end.

Fixpoint runx (fx : fixes) (c : config) (s : sender) (cs : cubic) (evs : list xevent) : xresult :=
  match evs with
  | [] => XOk s cs []
  | e :: t =>
      match stepx fx c s cs e with
      | XOk s' cs' o => match runx fx c s' cs' t with XOk s2 cs2 o2 => XOk s2 cs2 (o ++ o2) | r => r end
      | r => r
      end
  end.

(* ---- correspondence (per transition, from the observed pre-state) ---- *)
Definition tolc : Q := 1 # 1000000000.
Definition Qclose9 (a b : Q) : bool := Qle_bool (Qabs (a - b)%Q) (tolc * Qabs b)%Q.

Definition cubic_close (m o : cubic) : bool :=
  Qeq_bool (c_wlast m) (c_wlast o) && Qeq_bool (c_epoch m) (c_epoch o) && Qclose (c_origin m) (c_origin o) &&
  Qeq_bool (c_dmin m) (c_dmin o) && Qclose9 (c_wtcp m) (c_wtcp o) && Qeq_bool (c_k m) (c_k o) && Qeq_bool (c_ackcnt m) (c_ackcnt o).

(* as state_close, but cnt is compared within a relative 1e-5: C, beta and the cube are exact in the
   model and binary64 in the code, and max_cnt = cwnd / (W_tcp - cwnd) is ill-conditioned in binary64:
   W_tcp - cwnd is about ack_cnt / (3 cwnd) while W_tcp carries an absolute error of ulp(cwnd), so the
   relative error of max_cnt is about 3 cwnd^2 2^-52 (3e-6 at cwnd = 65536).  W_tcp itself is compared
   within 1e-9. *)
Definition tolcnt : Q := 1 # 100000.
Definition Qclose5 (a b : Q) : bool := Qle_bool (Qabs (a - b)%Q) (tolcnt * Qabs b)%Q.
Definition state_closex (m o : sender) : bool :=
  state_close (mkst (next_seq m) (send_buffer m) (last_ack m) (dupack m) (cwnd m) (ssthresh m) (srtt m) (rttvar m) (rto m)
                    (cwnd_cnt m) (cnt o) (timers m) (sent m) (tokens m) (pend m) (waiting m) (wake m) (finished m)) o
  && Qclose5 (cnt m) (cnt o).

Record xentry := mkxentry { x_ev : xevent; x_tx : list (Z * Z); x_post : sender; x_cub : cubic; x_err : option err }.

Fixpoint check_tracex (fx : fixes) (c : config) (pre : sender) (pcs : cubic) (l : list xentry) : bool :=
  match l with
  | [] => true
  | e :: t =>
      match stepx fx c pre pcs (x_ev e), x_err e with
      | XOk s' cs' o, None =>
          state_closex s' (x_post e) && cubic_close cs' (x_cub e) && listZZ_eq (txs o) (x_tx e) &&
          check_tracex fx c (x_post e) (x_cub e) t
      | XRaise x, Some y => err_eqb x y && match t with [] => true | _ => false end
      | _, _ => false
      end
  end.
