(* C16 liveness, continued.  Part 9: an exact description of one agenda step (what is added to the
   agenda and when, what enters and leaves the two wires), with drops; and the timing/control
   invariant LInvW of the two wires and of the retransmission timers:
   - each wire's process is in exactly one place (initialising, holding a packet, waiting), a waiting
     process with a non-empty store has a put callback pending in the current instant;
   - hand-off events are due in the current instant; a held data packet leaves at most d later;
   - a queued ACK created at ct is delivered by ct + d (ACK packets are fresh objects);
   - every armed timer has exactly one kernel event (its Initialize or its Timeout);
   - ACK numbers and last_ack are multiples of MSS (so the segment at last_ack is in flight). *)
From Coq Require Import ZArith QArith Qabs Qround Qminmax List Bool Lia Lqa Arith.
From ONL Require Import Tcp.Sink Tcp.SinkProofs Tcp.Sender Tcp.SenderProofs Tcp.Loop Tcp.LoopProofs Tcp.LoopLive
  Tcp.LoopLossfree Tcp.LoopLive2.
Import ListNotations.
Open Scope Z_scope.

Global Opaque nq.

Section Descr.
Variable lc : lcfg.
Local Notation d := (lc_delay lc).

Definition droppedD (k : nat) : bool := existsb (Nat.eqb k) (lc_drop_data lc).
Definition droppedA (k : nat) : bool := existsb (Nat.eqb k) (lc_drop_ack lc).

(* the effect of the outputs of one sender event: new agenda entries, the segment ids that enter the
   data wire, the number of packets handed to the data path *)
Fixpoint oeff (now : Q) (n1 : nat) (o : list out) : list (Q * aev) * list Z * nat :=
  match o with
  | [] => ([], [], O)
  | Tx id _ :: t =>
      let '(nw, kp, k) := oeff now (S n1) t in
      if droppedD n1 then (nw, kp, S k) else ((nq now, AWirePutCb false) :: nw, id :: kp, S k)
  | TStart id _ :: t => let '(nw, kp, k) := oeff now n1 t in ((nq now, ATimerInit id) :: nw, kp, k)
  | TStop _ :: t => oeff now n1 t
  | TRestart id r :: t => let '(nw, kp, k) := oeff now n1 t in ((nq (now + r), ATimerFire id) :: nw, kp, k)
  end.

Definition pkt_ok (now : Q) (m : list (Z * (Q * Q))) : Prop :=
  forall id t c, pkt_get id m = Some (t, c) -> (t <= now /\ c <= now)%Q.

Lemma AddsT_one ag t p k e : AddsT ag (ainsert (mkae t p k e) ag) [(t, e)].
Proof. apply (addsT_cons _ _ [] t p k e). constructor. Qed.

Lemma AddsT_cons_front a b c x n : AddsT a b [x] -> AddsT b c n -> AddsT a c (x :: n).
Proof. intros H1 H2. change (x :: n) with ([x] ++ n). eapply AddsT_trans; eauto. Qed.

Lemma tx_data_descr st id :
  let st' := tx_data lc st id in
  l_now st' = l_now st /\ l_snd st' = l_snd st /\ l_sink st' = l_sink st /\ l_wa st' = l_wa st /\
  l_n2 st' = l_n2 st /\ l_slog st' = l_slog st /\ l_oracle st' = l_oracle st /\ l_d2 st' = l_d2 st /\
  l_n1 st' = S (l_n1 st) /\
  (if droppedD (l_n1 st) then l_agenda st' = l_agenda st /\ l_wd st' = l_wd st
   else AddsT (l_agenda st) (l_agenda st') [(nq (l_now st), AWirePutCb false)] /\
        l_wd st' = mkwd (wd_items (l_wd st) ++ [id]) (wd_waiting (l_wd st))) /\
  ((0 <= l_now st)%Q -> pkt_ok (l_now st) (l_pkt st) -> pkt_ok (l_now st) (l_pkt st')) /\
  (forall j, pkt_get j (l_pkt st) <> None -> pkt_get j (l_pkt st') <> None) /\ pkt_get id (l_pkt st') <> None.
Proof.
  unfold tx_data, droppedD. set (dr := existsb (Nat.eqb (l_n1 st)) (lc_drop_data lc)).
  assert (P : forall v, ((0 <= l_now st)%Q -> pkt_ok (l_now st) (l_pkt st) ->
                         (snd v <= l_now st)%Q -> fst v = l_now st -> pkt_ok (l_now st) (pkt_set id v (l_pkt st))) /\
                        (forall j, pkt_get j (l_pkt st) <> None -> pkt_get j (pkt_set id v (l_pkt st)) <> None) /\
                        pkt_get id (pkt_set id v (l_pkt st)) <> None).
  { intros v. split; [|split].
    - intros H0 Hp Hv Hf j t c. rewrite pkt_get_set. destruct (j =? id); [|apply Hp].
      intros E. injection E as E. subst v. cbn [fst snd] in *. subst t. split; [apply Qle_refl|exact Hv].
    - intros j Hj. rewrite pkt_get_set. destruct (j =? id); [discriminate|exact Hj].
    - rewrite pkt_get_set, Z.eqb_refl. discriminate. }
  destruct dr; lproj.
  - do 9 (split; [reflexivity|]). split; [split; reflexivity|]. split; [|split; apply P].
    intros Hz Hp. apply P; auto. cbn [snd]. destruct (pkt_get id (l_pkt st)) as [[t c]|] eqn:E; [eapply Hp; eauto|exact Hz].
  - do 9 (split; [reflexivity|]). split; [split; [apply AddsT_one|reflexivity]|]. split; [|split; apply P].
    intros Hz Hp. apply P; auto. cbn [snd]. apply Qle_refl.
Qed.

Record frame (st st' : lstate) : Prop := {
  fr_now : l_now st' = l_now st; fr_snd : l_snd st' = l_snd st; fr_sink : l_sink st' = l_sink st;
  fr_wa : l_wa st' = l_wa st; fr_n2 : l_n2 st' = l_n2 st; fr_slog : l_slog st' = l_slog st;
  fr_oracle : l_oracle st' = l_oracle st; fr_d2 : l_d2 st' = l_d2 st
}.

Lemma frame_refl st : frame st st.
Proof. constructor; reflexivity. Qed.
Lemma frame_trans a b c : frame a b -> frame b c -> frame a c.
Proof. intros [] []. constructor; congruence. Qed.

Lemma do_outs_descr : forall o st nw kp k, oeff (l_now st) (l_n1 st) o = (nw, kp, k) ->
  let st' := do_outs lc st o in
  frame st st' /\ AddsT (l_agenda st) (l_agenda st') nw /\
  l_wd st' = mkwd (wd_items (l_wd st) ++ kp) (wd_waiting (l_wd st)) /\ l_n1 st' = (l_n1 st + k)%nat /\
  ((0 <= l_now st)%Q -> pkt_ok (l_now st) (l_pkt st) -> pkt_ok (l_now st) (l_pkt st')) /\
  (forall j, pkt_get j (l_pkt st) <> None -> pkt_get j (l_pkt st') <> None) /\
  (forall j, In j kp -> pkt_get j (l_pkt st') <> None).
Proof.
  induction o as [|x o IH]; intros st nw kp k; cbn [do_outs oeff].
  - intros E; injection E as <- <- <-. rewrite app_nil_r, Nat.add_0_r.
    split; [apply frame_refl|]. split; [constructor|]. split; [destruct (l_wd st); reflexivity|]. split; [reflexivity|]. split; [auto|]. split; [auto|]. intros j [].
  - destruct x as [id z|id r|id|id r].
    + destruct (oeff (l_now st) (S (l_n1 st)) o) as [[nw1 kp1] k1] eqn:E1.
      destruct (tx_data_descr st id) as (T1&T2&T3&T4&T5&T6&T7&T8&T9&T10&T11&T12&T13).
      set (st1 := tx_data lc st id) in *. rewrite <- T1, <- T9 in E1.
      specialize (IH st1 nw1 kp1 k1 E1). cbv zeta in IH. destruct IH as (F & A & W & N & P & K & KI).
      assert (F1 : frame st st1) by (constructor; assumption). rewrite T1 in *.
      destruct (droppedD (l_n1 st)); intros E; injection E as <- <- <-.
      * destruct T10 as [Ta Tw]. rewrite Ta, Tw in *. split; [eapply frame_trans; eauto|]. split; [exact A|]. split; [exact W|].
        split; [lia|]. split; [auto|]. split; [auto|exact KI].
      * destruct T10 as [Ta Tw]. rewrite Tw in W. cbn [wd_items wd_waiting] in W. rewrite <- app_assoc in W.
        split; [eapply frame_trans; eauto|]. split; [eapply AddsT_cons_front; eauto|]. split; [exact W|].
        split; [lia|]. split; [auto|]. split; [auto|]. intros j [<-|Hj]; [apply K; exact T13|apply KI; exact Hj].
    + destruct (oeff (l_now st) (l_n1 st) o) as [[nw1 kp1] k1] eqn:E1. intros E; injection E as <- <- <-.
      specialize (IH (sched st (l_now st) 0 (ATimerInit id)) nw1 kp1 k1 E1). cbv zeta in IH. destruct IH as ([] & A & W & N & P & K & KI).
      split; [constructor; assumption|]. split; [eapply AddsT_cons_front; [apply AddsT_sched|exact A]|]. auto.
    + intros E. apply (IH st nw kp k E).
    + destruct (oeff (l_now st) (l_n1 st) o) as [[nw1 kp1] k1] eqn:E1. intros E; injection E as <- <- <-.
      specialize (IH (sched st (l_now st + r)%Q 1 (ATimerFire id)) nw1 kp1 k1 E1). cbv zeta in IH. destruct IH as ([] & A & W & N & P & K & KI).
      split; [constructor; assumption|]. split; [eapply AddsT_cons_front; [apply AddsT_sched|exact A]|]. auto.
Qed.

(* one sender event inside the loop, exactly *)
Lemma sender_event_descr st e st' s' o nw kp k :
  step (lc_fx lc) (lc_cfg lc) (l_snd st) e = Ok s' o -> sender_event lc st e = inl st' ->
  oeff (l_now st) (l_n1 st) o = (nw, kp, k) ->
  l_now st' = l_now st /\ l_snd st' = norm_sender s' /\ l_sink st' = l_sink st /\ l_wa st' = l_wa st /\
  l_n2 st' = l_n2 st /\ l_oracle st' = l_oracle st /\ l_d2 st' = l_d2 st /\
  l_slog st' = mkslog (l_now st) e (txs o) (norm_sender s') :: l_slog st /\
  AddsT (l_agenda st) (l_agenda st') (nw ++ extra_news (l_now st) (l_snd st) s' e) /\
  l_wd st' = mkwd (wd_items (l_wd st) ++ kp) (wd_waiting (l_wd st)) /\ l_n1 st' = (l_n1 st + k)%nat /\
  ((0 <= l_now st)%Q -> pkt_ok (l_now st) (l_pkt st) -> pkt_ok (l_now st) (l_pkt st')) /\
  (forall j, pkt_get j (l_pkt st) <> None -> pkt_get j (l_pkt st') <> None) /\
  (forall j, In j kp -> pkt_get j (l_pkt st') <> None).
Proof.
  intros Hstep H Ho. unfold sender_event in H. rewrite Hstep in H. injection H as <-.
  set (st0 := set_snd st (norm_sender s')).
  destruct (do_outs_descr o st0 nw kp k Ho) as ([f1 f2 f3 f4 f5 f6 f7 f8] & A & W & N & P & K & KI).
  set (st1 := do_outs lc st0 o) in *.
  change (l_now st0) with (l_now st) in *. change (l_agenda st0) with (l_agenda st) in *.
  change (l_wd st0) with (l_wd st) in *. change (l_pkt st0) with (l_pkt st) in *.
  change (l_n1 st0) with (l_n1 st) in *. change (l_n2 st0) with (l_n2 st) in *. change (l_d2 st0) with (l_d2 st) in *.
  change (l_snd st0) with (norm_sender s') in *. change (l_sink st0) with (l_sink st) in *. change (l_wa st0) with (l_wa st) in *.
  change (l_slog st0) with (l_slog st) in *. change (l_oracle st0) with (l_oracle st) in *.
  change (pend (norm_sender s')) with (pend s'). change (wake (norm_sender s')) with (wake s').
  unfold extra_news.
  set (c1 := (pend (l_snd st) <? pend s')%nat). set (c2 := wake s' && negb _).
  clearbody st1.
  destruct c1, c2; lproj; rewrite ?f1 in *; rewrite ?f6; do 8 (split; [assumption || reflexivity|]);
    (split; [|split; [exact W|split; [exact N|split; [exact P|split; [exact K|exact KI]]]]]).
  - rewrite app_assoc. constructor. constructor. exact A.
  - rewrite app_nil_r. constructor. exact A.
  - cbn [app]. constructor. exact A.
  - cbn [app]. rewrite app_nil_r. exact A.
Qed.
End Descr.

(* ---- the wires' get() ---- *)
Definition getD_eff (now : Q) (w : wireD) : list (Q * aev) * wireD :=
  match wd_items w with x :: r => ([(nq now, AWireGetD x)], mkwd r false) | [] => ([], mkwd [] true) end.
Definition getA_eff (now : Q) (w : wireA) : list (Q * aev) * wireA :=
  match wa_items w with
  | x :: r => ([(nq now, AWireGetA (a_no x) (a_pid x) (a_time x) (a_ct x))], mkwa r false)
  | [] => ([], mkwa [] true) end.

(* everything but the agenda and the two stores *)
Record keep (st st' : lstate) : Prop := {
  k_now : l_now st' = l_now st; k_snd : l_snd st' = l_snd st; k_sink : l_sink st' = l_sink st;
  k_pkt : l_pkt st' = l_pkt st; k_n1 : l_n1 st' = l_n1 st; k_n2 : l_n2 st' = l_n2 st; k_slog : l_slog st' = l_slog st
}.
Lemma keep_refl st : keep st st.
Proof. constructor; reflexivity. Qed.
Lemma keep_trans a b c : keep a b -> keep b c -> keep a c.
Proof. intros [] []. constructor; congruence. Qed.

Lemma sched_keep st t p e : keep st (sched st t p e).
Proof. constructor; reflexivity. Qed.

Lemma wd_get_descr st :
  keep st (wd_get st) /\ l_wa (wd_get st) = l_wa st /\
  AddsT (l_agenda st) (l_agenda (wd_get st)) (fst (getD_eff (l_now st) (l_wd st))) /\
  l_wd (wd_get st) = snd (getD_eff (l_now st) (l_wd st)).
Proof.
  unfold wd_get, getD_eff. destruct (wd_items (l_wd st)) as [|x r]; cbn [fst snd].
  - split; [constructor; reflexivity|]. split; [reflexivity|]. split; [constructor|reflexivity].
  - split; [constructor; reflexivity|]. split; [reflexivity|]. split; [apply (AddsT_sched (set_wd st (mkwd r false)))|reflexivity].
Qed.

Lemma wa_get_descr st :
  keep st (wa_get st) /\ l_wd (wa_get st) = l_wd st /\
  AddsT (l_agenda st) (l_agenda (wa_get st)) (fst (getA_eff (l_now st) (l_wa st))) /\
  l_wa (wa_get st) = snd (getA_eff (l_now st) (l_wa st)).
Proof.
  unfold wa_get, getA_eff. destruct (wa_items (l_wa st)) as [|x r]; cbn [fst snd].
  - split; [constructor; reflexivity|]. split; [reflexivity|]. split; [constructor|reflexivity].
  - split; [constructor; reflexivity|]. split; [reflexivity|]. split; [apply (AddsT_sched (set_wa st (mkwa r false)))|reflexivity].
Qed.

Section Tr.
Variable lc : lcfg.
Local Notation d := (lc_delay lc).
Local Notation cfg := (lc_cfg lc).

(* which sender event an agenda entry due at tau stands for *)
Inductive ev_sender (st : lstate) (tau : Q) : aev -> event -> bool -> Prop :=
| es_wake : ev_sender st tau ASenderWake EWake false
| es_cb : ev_sender st tau ASenderCb EStoreCb false
| es_fire id : has_timer id (timers (l_snd st)) = true -> ev_sender st tau (ATimerFire id) (EExpire id) false
| es_getA a p tm ct : Qltb (tau - ct) d = false ->
    ev_sender st tau (AWireGetA a p tm ct) (EAck a p (nq (tau - tm)) (hd 0%Q (l_oracle st))) true
| es_outA a p tm ct : ev_sender st tau (AWireOutA a p tm ct) (EAck a p (nq (tau - tm)) (hd 0%Q (l_oracle st))) true.

(* one agenda step, described: [a] is the entry taken off the agenda, [rest] what remains *)
Inductive Tr (st : lstate) (a : aentry) (rest : list aentry) (st' : lstate) : Prop :=
| tr_sender e isack s' o nw kp k nwa :
    ev_sender st (ae_time a) (ae_ev a) e isack ->
    step repaired cfg (l_snd st) e = Ok s' o -> oeff lc (ae_time a) (l_n1 st) o = (nw, kp, k) ->
    l_now st' = ae_time a -> l_snd st' = norm_sender s' -> l_sink st' = l_sink st -> l_n2 st' = l_n2 st ->
    l_slog st' = mkslog (ae_time a) e (txs o) (norm_sender s') :: l_slog st ->
    l_n1 st' = (l_n1 st + k)%nat ->
    l_wd st' = mkwd (wd_items (l_wd st) ++ kp) (wd_waiting (l_wd st)) ->
    (if isack then nwa = fst (getA_eff (ae_time a) (l_wa st)) /\ l_wa st' = snd (getA_eff (ae_time a) (l_wa st))
     else nwa = [] /\ l_wa st' = l_wa st) ->
    AddsT rest (l_agenda st') ((nw ++ extra_news (ae_time a) (l_snd st) s' e) ++ nwa) ->
    (forall j, In j kp -> pkt_get j (l_pkt st') <> None) ->
    (forall j, pkt_get j (l_pkt st) <> None -> pkt_get j (l_pkt st') <> None) ->
    ((0 <= ae_time a)%Q -> pkt_ok (ae_time a) (l_pkt st) -> pkt_ok (ae_time a) (l_pkt st')) ->
    Tr st a rest st'
| tr_init id r :
    ae_ev a = ATimerInit id -> find (fun p => fst p =? id) (timers (l_snd st)) = Some (id, r) ->
    keep (popped st a rest) st' -> l_wd st' = l_wd st -> l_wa st' = l_wa st ->
    AddsT rest (l_agenda st') [(nq (ae_time a + r), ATimerFire id)] -> Tr st a rest st'
| tr_noop :
    (match ae_ev a with
     | ATimerInit id | ATimerFire id => has_timer id (timers (l_snd st)) = false
     | AWirePutCb false => wd_waiting (l_wd st) = false
     | AWirePutCb true => wa_waiting (l_wa st) = false
     | _ => False end) ->
    keep (popped st a rest) st' -> l_wd st' = l_wd st -> l_wa st' = l_wa st -> l_agenda st' = rest -> Tr st a rest st'
| tr_getD :
    (ae_ev a = AWireInit false \/ (ae_ev a = AWirePutCb false /\ wd_waiting (l_wd st) = true)) ->
    keep (popped st a rest) st' -> l_wa st' = l_wa st ->
    l_wd st' = snd (getD_eff (ae_time a) (l_wd st)) ->
    AddsT rest (l_agenda st') (fst (getD_eff (ae_time a) (l_wd st))) -> Tr st a rest st'
| tr_getA :
    (ae_ev a = AWireInit true \/ (ae_ev a = AWirePutCb true /\ wa_waiting (l_wa st) = true)) ->
    keep (popped st a rest) st' -> l_wd st' = l_wd st ->
    l_wa st' = snd (getA_eff (ae_time a) (l_wa st)) ->
    AddsT rest (l_agenda st') (fst (getA_eff (ae_time a) (l_wa st))) -> Tr st a rest st'
| tr_waitD id tm ct :
    ae_ev a = AWireGetD id -> pkt_get id (l_pkt st) = Some (tm, ct) -> Qltb (ae_time a - ct) d = true ->
    keep (popped st a rest) st' -> l_wd st' = l_wd st -> l_wa st' = l_wa st ->
    AddsT rest (l_agenda st') [(nq (ae_time a + (d - (ae_time a - ct))), AWireOutD id)] -> Tr st a rest st'
| tr_waitA ackno pid tm ct :
    ae_ev a = AWireGetA ackno pid tm ct -> Qltb (ae_time a - ct) d = true ->
    keep (popped st a rest) st' -> l_wd st' = l_wd st -> l_wa st' = l_wa st ->
    AddsT rest (l_agenda st') [(nq (ae_time a + (d - (ae_time a - ct))), AWireOutA ackno pid tm ct)] -> Tr st a rest st'
| tr_deliver id tm ct :
    (ae_ev a = AWireOutD id \/ (ae_ev a = AWireGetD id /\ Qltb (ae_time a - ct) d = false)) ->
    pkt_get id (l_pkt st) = Some (tm, ct) ->
    l_now st' = ae_time a -> l_snd st' = l_snd st -> l_pkt st' = l_pkt st -> l_n1 st' = l_n1 st -> l_slog st' = l_slog st ->
    l_sink st' = sink_step true (l_sink st) (id, mss cfg) -> l_n2 st' = S (l_n2 st) ->
    l_wd st' = snd (getD_eff (ae_time a) (l_wd st)) ->
    (if droppedA lc (l_n2 st) then
       l_wa st' = l_wa st /\ AddsT rest (l_agenda st') (fst (getD_eff (ae_time a) (l_wd st)))
     else
       l_wa st' = mkwa (wa_items (l_wa st) ++ [mkack (nse (l_sink st')) id tm (ae_time a)]) (wa_waiting (l_wa st)) /\
       AddsT rest (l_agenda st') ((nq (ae_time a), AWirePutCb true) :: fst (getD_eff (ae_time a) (l_wd st)))) ->
    Tr st a rest st'.

Lemma find_none_has id t : find (fun p : Z * Q => fst p =? id) t = None -> has_timer id t = false.
Proof.
  intros H. destruct (has_timer id t) eqn:E; [|reflexivity]. exfalso.
  apply has_timer_In in E. exact (find_none_keys _ _ H E).
Qed.

Lemma popped_keep st a rest : keep (popped st a rest) (popped st a rest).
Proof. apply keep_refl. Qed.

Lemma deliver_data_descr st id tm ct st1 :
  pkt_get id (l_pkt st) = Some (tm, ct) -> deliver_data lc st id = inl st1 ->
  l_now st1 = l_now st /\ l_snd st1 = l_snd st /\ l_pkt st1 = l_pkt st /\ l_n1 st1 = l_n1 st /\ l_slog st1 = l_slog st /\
  l_wd st1 = l_wd st /\ l_sink st1 = sink_step true (l_sink st) (id, mss cfg) /\ l_n2 st1 = S (l_n2 st) /\
  (if droppedA lc (l_n2 st) then l_wa st1 = l_wa st /\ l_agenda st1 = l_agenda st
   else l_wa st1 = mkwa (wa_items (l_wa st) ++ [mkack (nse (l_sink st1)) id tm (l_now st)]) (wa_waiting (l_wa st)) /\
        AddsT (l_agenda st) (l_agenda st1) [(nq (l_now st), AWirePutCb true)]).
Proof.
  intros Ep D. unfold deliver_data in D. rewrite Ep in D. unfold droppedA. cbv zeta in D.
  remember (sink_step true (l_sink st) (id, mss cfg)) as sk eqn:Esk. clear Esk.
  destruct (existsb (Nat.eqb (l_n2 st)) (lc_drop_ack lc)); injection D as <-; lproj.
  - repeat split; reflexivity.
  - do 8 (split; [reflexivity|]). split; [reflexivity|]. apply AddsT_one.
Qed.

Lemma lstep_Tr st a rest st' :
  lc_fx lc = repaired -> l_agenda st = a :: rest -> lstep lc st = Some (inl st') -> Tr st a rest st'.
Proof.
  intros Hfx E H. unfold lstep in H. rewrite E in H. injection H as H. fold (popped st a rest) in H.
  set (pst := popped st a rest) in *.
  assert (SE : forall e isack stx, ev_sender st (ae_time a) (ae_ev a) e isack ->
             l_now stx = ae_time a -> l_snd stx = l_snd st -> l_n1 stx = l_n1 st -> l_agenda stx = rest ->
             l_sink stx = l_sink st -> l_n2 stx = l_n2 st -> l_slog stx = l_slog st -> l_wd stx = l_wd st ->
             l_wa stx = l_wa st -> l_pkt stx = l_pkt st ->
             forall st1, sender_event lc stx e = inl st1 ->
             st' = (if isack then wa_get st1 else st1) -> Tr st a rest st').
  { intros e isack stx Hev X1 X2 X3 X4 X5 X6 X7 X8 X9 X10 st1 Hse ->.
    destruct (sender_event_snd lc stx e st1 Hse) as (s' & o & Hstep & _).
    destruct (oeff lc (l_now stx) (l_n1 stx) o) as [[nw kp] k] eqn:Eo.
    destruct (sender_event_descr lc stx e st1 s' o nw kp k Hstep Hse Eo) as (D1&D2&D3&D4&D5&D6&D7&D8&D9&D10&D11&D12&D13&D14).
    rewrite X1, X2, X3, X4, X5, X6, X7, X8, X9, X10 in *. rewrite Hfx in Hstep.
    destruct isack.
    - destruct (wa_get_descr st1) as ([g1 g2 g3 g4 g5 g6 g7] & G2 & G3 & G4). rewrite D1, D4 in *.
      eapply (tr_sender st a rest _ e true s' o nw kp k); eauto; try congruence; rewrite ?g4; auto.
      eapply (AddsT_trans _ _ _ G3 _ _ D9).
    - eapply (tr_sender st a rest _ e false s' o nw kp k []); eauto.
      rewrite app_nil_r. exact D9. }
  assert (DL : forall id tm ct st1,
             (ae_ev a = AWireOutD id \/ (ae_ev a = AWireGetD id /\ Qltb (ae_time a - ct) d = false)) ->
             pkt_get id (l_pkt pst) = Some (tm, ct) -> deliver_data lc pst id = inl st1 -> Tr st a rest (wd_get st1)).
  { intros id tm ct st1 Hev Ep D.
    destruct (deliver_data_descr pst id tm ct st1 Ep D) as (D1&D2&D3&D4&D5&D6&D7&D8&D9).
    destruct (wd_get_descr st1) as ([g1 g2 g3 g4 g5 g6 g7] & G2 & G3 & G4).
    rewrite D1, D6 in *. change (l_now pst) with (ae_time a) in *. change (l_wd pst) with (l_wd st) in *.
    change (l_snd pst) with (l_snd st) in *. change (l_pkt pst) with (l_pkt st) in *. change (l_n1 pst) with (l_n1 st) in *.
    change (l_slog pst) with (l_slog st) in *. change (l_sink pst) with (l_sink st) in *. change (l_n2 pst) with (l_n2 st) in *.
    change (l_wa pst) with (l_wa st) in *. change (l_agenda pst) with rest in *.
    eapply (tr_deliver st a rest _ id tm ct); [exact Hev|exact Ep|..]; try congruence.
    destruct (droppedA lc (l_n2 st)).
    - destruct D9 as [Da Db]. split; [congruence|]. rewrite Db in G3. exact G3.
    - destruct D9 as [Da Db]. split; [rewrite G2, g3; exact Da|].
      eapply AddsT_cons_front; [exact Db|exact G3]. }
  destruct (ae_ev a) as [| |id|id|w|w|id|id|ackno pid tm ct|ackno pid tm ct] eqn:Eev; cbn [handle] in H.
  - refine (SE EWake false pst _ eq_refl eq_refl eq_refl eq_refl eq_refl eq_refl eq_refl eq_refl eq_refl eq_refl st' H eq_refl). constructor.
  - refine (SE EStoreCb false pst _ eq_refl eq_refl eq_refl eq_refl eq_refl eq_refl eq_refl eq_refl eq_refl eq_refl st' H eq_refl). constructor.
  - destruct (find (fun p => fst p =? id) (timers (l_snd pst))) as [[k r]|] eqn:Ef; injection H as <-.
    + pose proof (find_some _ _ Ef) as [_ Ek]. cbn [fst] in Ek. apply Z.eqb_eq in Ek. subst k.
      eapply (tr_init st a rest _ id r); eauto; try reflexivity.
      * apply sched_keep.
      * apply (AddsT_sched pst).
    + apply tr_noop; try reflexivity; [|apply keep_refl]. rewrite Eev. apply find_none_has. exact Ef.
  - destruct (has_timer id (timers (l_snd pst))) eqn:Eh.
    + refine (SE (EExpire id) false pst _ eq_refl eq_refl eq_refl eq_refl eq_refl eq_refl eq_refl eq_refl eq_refl eq_refl st' H eq_refl). constructor. exact Eh.
    + injection H as <-. apply tr_noop; try reflexivity; [|apply keep_refl]. rewrite Eev. exact Eh.
  - destruct w; injection H as <-.
    + destruct (wa_get_descr pst) as (G1 & G2 & G3 & G4). apply tr_getA; auto.
    + destruct (wd_get_descr pst) as (G1 & G2 & G3 & G4). apply tr_getD; auto.
  - destruct w.
    + destruct (wa_waiting (l_wa pst)) eqn:Ew; injection H as <-.
      * destruct (wa_get_descr pst) as (G1 & G2 & G3 & G4). apply tr_getA; auto.
      * apply tr_noop; try reflexivity; [|apply keep_refl]. rewrite Eev. exact Ew.
    + destruct (wd_waiting (l_wd pst)) eqn:Ew; injection H as <-.
      * destruct (wd_get_descr pst) as (G1 & G2 & G3 & G4). apply tr_getD; auto.
      * apply tr_noop; try reflexivity; [|apply keep_refl]. rewrite Eev. exact Ew.
  - destruct (pkt_get id (l_pkt pst)) as [[tm ct]|] eqn:Ep; [|discriminate].
    destruct (Qltb (l_now pst - ct) d) eqn:Eq.
    + injection H as <-. eapply (tr_waitD st a rest _ id tm ct); eauto; try reflexivity; [apply sched_keep|apply (AddsT_sched pst)].
    + destruct (deliver_data lc pst id) as [st1|] eqn:D; cbn [bind] in H; [|discriminate]. injection H as <-.
      eapply DL; eauto.
  - destruct (pkt_get id (l_pkt pst)) as [[tm ct]|] eqn:Ep; [|unfold deliver_data in H; rewrite Ep in H; discriminate].
    destruct (deliver_data lc pst id) as [st1|] eqn:D; cbn [bind] in H; [|discriminate]. injection H as <-.
    eapply DL; eauto.
  - destruct (Qltb (l_now pst - ct) d) eqn:Eq.
    + injection H as <-. eapply (tr_waitA st a rest _ ackno pid tm ct); eauto; try reflexivity; [apply sched_keep|apply (AddsT_sched pst)].
    + destruct (deliver_ack lc pst ackno pid tm) as [st1|] eqn:D; cbn [bind] in H; [|discriminate]. injection H as <-.
      unfold deliver_ack in D. change (l_now pst) with (ae_time a) in D. change (l_oracle pst) with (l_oracle st) in D.
      match type of D with sender_event _ ?sx ?e = _ => refine (SE e true sx _ eq_refl eq_refl eq_refl eq_refl eq_refl eq_refl eq_refl eq_refl eq_refl eq_refl st1 D eq_refl) end. constructor. exact Eq.
  - destruct (deliver_ack lc pst ackno pid tm) as [st1|] eqn:D; cbn [bind] in H; [|discriminate]. injection H as <-.
    unfold deliver_ack in D. change (l_now pst) with (ae_time a) in D. change (l_oracle pst) with (l_oracle st) in D.
    match type of D with sender_event _ ?sx ?e = _ => refine (SE e true sx _ eq_refl eq_refl eq_refl eq_refl eq_refl eq_refl eq_refl eq_refl eq_refl eq_refl st1 D eq_refl) end. constructor.
Qed.
End Tr.
