(* C16 liveness, continued.  Part 9: an exact description of one agenda step (what is added to the
   agenda and when, what enters and leaves the two wires), with drops; and the timing/control
   invariant LInvW of the two wires and of the retransmission timers:
   - each wire's process is in exactly one place (initialising, holding a packet, waiting), a waiting
     process with a non-empty store has a put callback pending in the current instant;
   - hand-off events are due in the current instant; a held data packet leaves at most d later;
   - the data wire keeps one entry instant per queued packet, all in the past (the store holds
     (entry instant, packet) pairs since the Wire repair 965d42d; the defaults in wd_get are unreachable);
   - a queued ACK created at ct is delivered by ct + d (ACK packets are fresh objects);
   - every armed timer has exactly one kernel event (its Initialize or its Timeout);
   - ACK numbers and last_ack are multiples of MSS (so the segment at last_ack is in flight). *)
From Coq Require Import ZArith QArith Qabs Qround Qminmax List Bool Lia Lqa Arith.
From ONL Require Import Tcp.Sink Tcp.SinkProofs Tcp.Sender Tcp.SenderProofs Tcp.Loop Tcp.LoopProofs Tcp.LoopLive
  Tcp.LoopLossfree Tcp.LoopLive2.
Import ListNotations.
Open Scope Z_scope.

Global Opaque nq.

Section Descr.
Variable lc : lcfg.
Local Notation d := (lc_delay lc).

Definition droppedD (k : nat) : bool := existsb (Nat.eqb k) (lc_drop_data lc).
Definition droppedA (k : nat) : bool := existsb (Nat.eqb k) (lc_drop_ack lc).

(* the effect of the outputs of one sender event: new agenda entries, the segment ids that enter the
   data wire, the number of packets handed to the data path *)
Fixpoint oeff (now : Q) (n1 : nat) (o : list out) : list (Q * aev) * list Z * nat :=
  match o with
  | [] => ([], [], O)
  | Tx id _ :: t =>
      let '(nw, kp, k) := oeff now (S n1) t in
      if droppedD n1 then (nw, kp, S k) else ((nq now, AWirePutCb false) :: nw, id :: kp, S k)
  | TStart id _ :: t => let '(nw, kp, k) := oeff now n1 t in ((nq now, ATimerInit id) :: nw, kp, k)
  | TStop _ :: t => oeff now n1 t
  | TRestart id r :: t => let '(nw, kp, k) := oeff now n1 t in ((nq (now + r), ATimerFire id) :: nw, kp, k)
  end.

Definition pkt_ok (now : Q) (m : list (Z * (Q * Q))) : Prop :=
  forall id t c, pkt_get id m = Some (t, c) -> (t <= now /\ c <= now)%Q.

Lemma AddsT_one ag t p k e : AddsT ag (ainsert (mkae t p k e) ag) [(t, e)].
Proof. apply (addsT_cons _ _ [] t p k e). constructor. Qed.

Lemma AddsT_cons_front a b c x n : AddsT a b [x] -> AddsT b c n -> AddsT a c (x :: n).
Proof. intros H1 H2. change (x :: n) with ([x] ++ n). eapply AddsT_trans; eauto. Qed.

Lemma tx_data_descr st id :
  let st' := tx_data lc st id in
  l_now st' = l_now st /\ l_snd st' = l_snd st /\ l_sink st' = l_sink st /\ l_wa st' = l_wa st /\
  l_n2 st' = l_n2 st /\ l_slog st' = l_slog st /\ l_oracle st' = l_oracle st /\ l_d2 st' = l_d2 st /\
  l_n1 st' = S (l_n1 st) /\
  (if droppedD (l_n1 st) then l_agenda st' = l_agenda st /\ l_wd st' = l_wd st
   else AddsT (l_agenda st) (l_agenda st') [(nq (l_now st), AWirePutCb false)] /\
        l_wd st' = wd_app (l_wd st) [id] (l_now st)) /\
  ((0 <= l_now st)%Q -> pkt_ok (l_now st) (l_pkt st) -> pkt_ok (l_now st) (l_pkt st')) /\
  (forall j, pkt_get j (l_pkt st) <> None -> pkt_get j (l_pkt st') <> None) /\ pkt_get id (l_pkt st') <> None.
Proof.
  unfold tx_data, droppedD. set (dr := existsb (Nat.eqb (l_n1 st)) (lc_drop_data lc)).
  assert (P : forall v, ((0 <= l_now st)%Q -> pkt_ok (l_now st) (l_pkt st) ->
                         (snd v <= l_now st)%Q -> fst v = l_now st -> pkt_ok (l_now st) (pkt_set id v (l_pkt st))) /\
                        (forall j, pkt_get j (l_pkt st) <> None -> pkt_get j (pkt_set id v (l_pkt st)) <> None) /\
                        pkt_get id (pkt_set id v (l_pkt st)) <> None).
  { intros v. split; [|split].
    - intros H0 Hp Hv Hf j t c. rewrite pkt_get_set. destruct (j =? id); [|apply Hp].
      intros E. injection E as E. subst v. cbn [fst snd] in *. subst t. split; [apply Qle_refl|exact Hv].
    - intros j Hj. rewrite pkt_get_set. destruct (j =? id); [discriminate|exact Hj].
    - rewrite pkt_get_set, Z.eqb_refl. discriminate. }
  destruct dr; lproj.
  - do 9 (split; [reflexivity|]). split; [split; reflexivity|]. split; [|split; apply P].
    intros Hz Hp. apply P; auto. cbn [snd]. destruct (pkt_get id (l_pkt st)) as [[t c]|] eqn:E; [eapply Hp; eauto|exact Hz].
  - do 9 (split; [reflexivity|]). split; [split; [apply AddsT_one|reflexivity]|]. split; [|split; apply P].
    intros Hz Hp. apply P; auto. cbn [snd]. apply Qle_refl.
Qed.

Record frame (st st' : lstate) : Prop := {
  fr_now : l_now st' = l_now st; fr_snd : l_snd st' = l_snd st; fr_sink : l_sink st' = l_sink st;
  fr_wa : l_wa st' = l_wa st; fr_n2 : l_n2 st' = l_n2 st; fr_slog : l_slog st' = l_slog st;
  fr_oracle : l_oracle st' = l_oracle st; fr_d2 : l_d2 st' = l_d2 st
}.

Lemma frame_refl st : frame st st.
Proof. constructor; reflexivity. Qed.
Lemma frame_trans a b c : frame a b -> frame b c -> frame a c.
Proof. intros [] []. constructor; congruence. Qed.

Lemma do_outs_descr : forall o st nw kp k, oeff (l_now st) (l_n1 st) o = (nw, kp, k) ->
  let st' := do_outs lc st o in
  frame st st' /\ AddsT (l_agenda st) (l_agenda st') nw /\
  l_wd st' = wd_app (l_wd st) kp (l_now st) /\ l_n1 st' = (l_n1 st + k)%nat /\
  ((0 <= l_now st)%Q -> pkt_ok (l_now st) (l_pkt st) -> pkt_ok (l_now st) (l_pkt st')) /\
  (forall j, pkt_get j (l_pkt st) <> None -> pkt_get j (l_pkt st') <> None) /\
  (forall j, In j kp -> pkt_get j (l_pkt st') <> None).
Proof.
  induction o as [|x o IH]; intros st nw kp k; cbn [do_outs oeff].
  - intros E; injection E as <- <- <-. unfold wd_app. cbn [map]. rewrite !app_nil_r, Nat.add_0_r.
    split; [apply frame_refl|]. split; [constructor|]. split; [destruct (l_wd st); reflexivity|]. split; [reflexivity|]. split; [auto|]. split; [auto|]. intros j [].
  - destruct x as [id z|id r|id|id r].
    + destruct (oeff (l_now st) (S (l_n1 st)) o) as [[nw1 kp1] k1] eqn:E1.
      destruct (tx_data_descr st id) as (T1&T2&T3&T4&T5&T6&T7&T8&T9&T10&T11&T12&T13).
      set (st1 := tx_data lc st id) in *. rewrite <- T1, <- T9 in E1.
      specialize (IH st1 nw1 kp1 k1 E1). cbv zeta in IH. destruct IH as (F & A & W & N & P & K & KI).
      assert (F1 : frame st st1) by (constructor; assumption). rewrite T1 in *.
      destruct (droppedD (l_n1 st)); intros E; injection E as <- <- <-.
      * destruct T10 as [Ta Tw]. rewrite Ta, Tw in *. split; [eapply frame_trans; eauto|]. split; [exact A|]. split; [exact W|].
        split; [lia|]. split; [auto|]. split; [auto|exact KI].
      * destruct T10 as [Ta Tw]. rewrite Tw in W. unfold wd_app in *. cbn [wd_items wd_stamps wd_entered wd_waiting map] in W. rewrite <- !app_assoc in W. cbn [app map] in W |- *.
        split; [eapply frame_trans; eauto|]. split; [eapply AddsT_cons_front; eauto|]. split; [exact W|].
        split; [lia|]. split; [auto|]. split; [auto|]. intros j [<-|Hj]; [apply K; exact T13|apply KI; exact Hj].
    + destruct (oeff (l_now st) (l_n1 st) o) as [[nw1 kp1] k1] eqn:E1. intros E; injection E as <- <- <-.
      specialize (IH (sched st (l_now st) 0 (ATimerInit id)) nw1 kp1 k1 E1). cbv zeta in IH. destruct IH as ([] & A & W & N & P & K & KI).
      split; [constructor; assumption|]. split; [eapply AddsT_cons_front; [apply AddsT_sched|exact A]|]. auto.
    + intros E. apply (IH st nw kp k E).
    + destruct (oeff (l_now st) (l_n1 st) o) as [[nw1 kp1] k1] eqn:E1. intros E; injection E as <- <- <-.
      specialize (IH (sched st (l_now st + r)%Q 1 (ATimerFire id)) nw1 kp1 k1 E1). cbv zeta in IH. destruct IH as ([] & A & W & N & P & K & KI).
      split; [constructor; assumption|]. split; [eapply AddsT_cons_front; [apply AddsT_sched|exact A]|]. auto.
Qed.

(* one sender event inside the loop, exactly *)
Lemma sender_event_descr st e st' s' o nw kp k :
  step (lc_fx lc) (lc_cfg lc) (l_snd st) e = Ok s' o -> sender_event lc st e = inl st' ->
  oeff (l_now st) (l_n1 st) o = (nw, kp, k) ->
  l_now st' = l_now st /\ l_snd st' = norm_sender s' /\ l_sink st' = l_sink st /\ l_wa st' = l_wa st /\
  l_n2 st' = l_n2 st /\ l_oracle st' = l_oracle st /\ l_d2 st' = l_d2 st /\
  l_slog st' = mkslog (l_now st) e (txs o) (norm_sender s') :: l_slog st /\
  AddsT (l_agenda st) (l_agenda st') (nw ++ extra_news (l_now st) (l_snd st) s' e) /\
  l_wd st' = wd_app (l_wd st) kp (l_now st) /\ l_n1 st' = (l_n1 st + k)%nat /\
  ((0 <= l_now st)%Q -> pkt_ok (l_now st) (l_pkt st) -> pkt_ok (l_now st) (l_pkt st')) /\
  (forall j, pkt_get j (l_pkt st) <> None -> pkt_get j (l_pkt st') <> None) /\
  (forall j, In j kp -> pkt_get j (l_pkt st') <> None).
Proof.
  intros Hstep H Ho. unfold sender_event in H. rewrite Hstep in H. injection H as <-.
  set (st0 := set_snd st (norm_sender s')).
  destruct (do_outs_descr o st0 nw kp k Ho) as ([f1 f2 f3 f4 f5 f6 f7 f8] & A & W & N & P & K & KI).
  set (st1 := do_outs lc st0 o) in *.
  change (l_now st0) with (l_now st) in *. change (l_agenda st0) with (l_agenda st) in *.
  change (l_wd st0) with (l_wd st) in *. change (l_pkt st0) with (l_pkt st) in *.
  change (l_n1 st0) with (l_n1 st) in *. change (l_n2 st0) with (l_n2 st) in *. change (l_d2 st0) with (l_d2 st) in *.
  change (l_snd st0) with (norm_sender s') in *. change (l_sink st0) with (l_sink st) in *. change (l_wa st0) with (l_wa st) in *.
  change (l_slog st0) with (l_slog st) in *. change (l_oracle st0) with (l_oracle st) in *.
  change (pend (norm_sender s')) with (pend s'). change (wake (norm_sender s')) with (wake s').
  unfold extra_news.
  set (c1 := (pend (l_snd st) <? pend s')%nat). set (c2 := wake s' && negb _).
  clearbody st1.
  destruct c1, c2; lproj; rewrite ?f1 in *; rewrite ?f6; do 8 (split; [assumption || reflexivity|]);
    (split; [|split; [exact W|split; [exact N|split; [exact P|split; [exact K|exact KI]]]]]).
  - rewrite app_assoc. constructor. constructor. exact A.
  - rewrite app_nil_r. constructor. exact A.
  - cbn [app]. constructor. exact A.
  - cbn [app]. rewrite app_nil_r. exact A.
Qed.
End Descr.

(* ---- the wires' get() ---- *)
Definition getD_eff (now : Q) (w : wireD) : list (Q * aev) * wireD :=
  match wd_items w with
  | x :: r => ([(nq now, AWireGetD x)], mkwd r (tl (wd_stamps w)) (hd 0%Q (wd_stamps w)) false)
  | [] => ([], mkwd [] (wd_stamps w) (wd_entered w) true) end.
Definition getA_eff (now : Q) (w : wireA) : list (Q * aev) * wireA :=
  match wa_items w with
  | x :: r => ([(nq now, AWireGetA (a_no x) (a_pid x) (a_time x) (a_ct x))], mkwa r false)
  | [] => ([], mkwa [] true) end.

(* everything but the agenda and the two stores *)
Record keep (st st' : lstate) : Prop := {
  k_now : l_now st' = l_now st; k_snd : l_snd st' = l_snd st; k_sink : l_sink st' = l_sink st;
  k_pkt : l_pkt st' = l_pkt st; k_n1 : l_n1 st' = l_n1 st; k_n2 : l_n2 st' = l_n2 st; k_slog : l_slog st' = l_slog st
}.
Lemma keep_refl st : keep st st.
Proof. constructor; reflexivity. Qed.
Lemma keep_trans a b c : keep a b -> keep b c -> keep a c.
Proof. intros [] []. constructor; congruence. Qed.

Lemma sched_keep st t p e : keep st (sched st t p e).
Proof. constructor; reflexivity. Qed.

Lemma wd_get_descr st :
  keep st (wd_get st) /\ l_wa (wd_get st) = l_wa st /\
  AddsT (l_agenda st) (l_agenda (wd_get st)) (fst (getD_eff (l_now st) (l_wd st))) /\
  l_wd (wd_get st) = snd (getD_eff (l_now st) (l_wd st)).
Proof.
  unfold wd_get, getD_eff. destruct (wd_items (l_wd st)) as [|x r]; cbn [fst snd].
  - split; [constructor; reflexivity|]. split; [reflexivity|]. split; [constructor|reflexivity].
  - split; [constructor; reflexivity|]. split; [reflexivity|]. split; [apply (AddsT_sched (set_wd st (mkwd r (tl (wd_stamps (l_wd st))) (hd 0%Q (wd_stamps (l_wd st))) false)))|reflexivity].
Qed.

Lemma wa_get_descr st :
  keep st (wa_get st) /\ l_wd (wa_get st) = l_wd st /\
  AddsT (l_agenda st) (l_agenda (wa_get st)) (fst (getA_eff (l_now st) (l_wa st))) /\
  l_wa (wa_get st) = snd (getA_eff (l_now st) (l_wa st)).
Proof.
  unfold wa_get, getA_eff. destruct (wa_items (l_wa st)) as [|x r]; cbn [fst snd].
  - split; [constructor; reflexivity|]. split; [reflexivity|]. split; [constructor|reflexivity].
  - split; [constructor; reflexivity|]. split; [reflexivity|]. split; [apply (AddsT_sched (set_wa st (mkwa r false)))|reflexivity].
Qed.

Section Tr.
Variable lc : lcfg.
Local Notation d := (lc_delay lc).
Local Notation cfg := (lc_cfg lc).

(* which sender event an agenda entry due at tau stands for *)
Inductive ev_sender (st : lstate) (tau : Q) : aev -> event -> bool -> Prop :=
| es_wake : ev_sender st tau ASenderWake EWake false
| es_cb : ev_sender st tau ASenderCb EStoreCb false
| es_fire id : has_timer id (timers (l_snd st)) = true -> ev_sender st tau (ATimerFire id) (EExpire id) false
| es_getA a p tm ct : Qltb (tau - ct) d = false ->
    ev_sender st tau (AWireGetA a p tm ct) (EAck a p (nq (tau - tm)) (hd 0%Q (l_oracle st))) true
| es_outA a p tm ct : ev_sender st tau (AWireOutA a p tm ct) (EAck a p (nq (tau - tm)) (hd 0%Q (l_oracle st))) true.

(* one agenda step, described: [a] is the entry taken off the agenda, [rest] what remains *)
Inductive Tr (st : lstate) (a : aentry) (rest : list aentry) (st' : lstate) : Prop :=
| tr_sender e isack s' o nw kp k nwa :
    ev_sender st (ae_time a) (ae_ev a) e isack ->
    step repaired cfg (l_snd st) e = Ok s' o -> oeff lc (ae_time a) (l_n1 st) o = (nw, kp, k) ->
    l_now st' = ae_time a -> l_snd st' = norm_sender s' -> l_sink st' = l_sink st -> l_n2 st' = l_n2 st ->
    l_slog st' = mkslog (ae_time a) e (txs o) (norm_sender s') :: l_slog st ->
    l_n1 st' = (l_n1 st + k)%nat ->
    l_wd st' = wd_app (l_wd st) kp (ae_time a) ->
    (if isack then nwa = fst (getA_eff (ae_time a) (l_wa st)) /\ l_wa st' = snd (getA_eff (ae_time a) (l_wa st))
     else nwa = [] /\ l_wa st' = l_wa st) ->
    AddsT rest (l_agenda st') ((nw ++ extra_news (ae_time a) (l_snd st) s' e) ++ nwa) ->
    (forall j, In j kp -> pkt_get j (l_pkt st') <> None) ->
    (forall j, pkt_get j (l_pkt st) <> None -> pkt_get j (l_pkt st') <> None) ->
    ((0 <= ae_time a)%Q -> pkt_ok (ae_time a) (l_pkt st) -> pkt_ok (ae_time a) (l_pkt st')) ->
    Tr st a rest st'
| tr_init id r :
    ae_ev a = ATimerInit id -> find (fun p => fst p =? id) (timers (l_snd st)) = Some (id, r) ->
    keep (popped st a rest) st' -> l_wd st' = l_wd st -> l_wa st' = l_wa st ->
    AddsT rest (l_agenda st') [(nq (ae_time a + r), ATimerFire id)] -> Tr st a rest st'
| tr_noop :
    (match ae_ev a with
     | ATimerInit id | ATimerFire id => has_timer id (timers (l_snd st)) = false
     | AWirePutCb false => wd_waiting (l_wd st) = false
     | AWirePutCb true => wa_waiting (l_wa st) = false
     | _ => False end) ->
    keep (popped st a rest) st' -> l_wd st' = l_wd st -> l_wa st' = l_wa st -> l_agenda st' = rest -> Tr st a rest st'
| tr_getD :
    (ae_ev a = AWireInit false \/ (ae_ev a = AWirePutCb false /\ wd_waiting (l_wd st) = true)) ->
    keep (popped st a rest) st' -> l_wa st' = l_wa st ->
    l_wd st' = snd (getD_eff (ae_time a) (l_wd st)) ->
    AddsT rest (l_agenda st') (fst (getD_eff (ae_time a) (l_wd st))) -> Tr st a rest st'
| tr_getA :
    (ae_ev a = AWireInit true \/ (ae_ev a = AWirePutCb true /\ wa_waiting (l_wa st) = true)) ->
    keep (popped st a rest) st' -> l_wd st' = l_wd st ->
    l_wa st' = snd (getA_eff (ae_time a) (l_wa st)) ->
    AddsT rest (l_agenda st') (fst (getA_eff (ae_time a) (l_wa st))) -> Tr st a rest st'
| tr_waitD id :
    ae_ev a = AWireGetD id -> Qltb (ae_time a - wd_entered (l_wd st)) d = true ->
    keep (popped st a rest) st' -> l_wd st' = l_wd st -> l_wa st' = l_wa st ->
    AddsT rest (l_agenda st') [(nq (ae_time a + (d - (ae_time a - wd_entered (l_wd st)))), AWireOutD id)] -> Tr st a rest st'
| tr_waitA ackno pid tm ct :
    ae_ev a = AWireGetA ackno pid tm ct -> Qltb (ae_time a - ct) d = true ->
    keep (popped st a rest) st' -> l_wd st' = l_wd st -> l_wa st' = l_wa st ->
    AddsT rest (l_agenda st') [(nq (ae_time a + (d - (ae_time a - ct))), AWireOutA ackno pid tm ct)] -> Tr st a rest st'
| tr_deliver id tm ct :
    (ae_ev a = AWireOutD id \/ (ae_ev a = AWireGetD id /\ Qltb (ae_time a - wd_entered (l_wd st)) d = false)) ->
    pkt_get id (l_pkt st) = Some (tm, ct) ->
    l_now st' = ae_time a -> l_snd st' = l_snd st -> l_pkt st' = l_pkt st -> l_n1 st' = l_n1 st -> l_slog st' = l_slog st ->
    l_sink st' = sink_step true (l_sink st) (id, mss cfg) -> l_n2 st' = S (l_n2 st) ->
    l_wd st' = snd (getD_eff (ae_time a) (l_wd st)) ->
    (if droppedA lc (l_n2 st) then
       l_wa st' = l_wa st /\ AddsT rest (l_agenda st') (fst (getD_eff (ae_time a) (l_wd st)))
     else
       l_wa st' = mkwa (wa_items (l_wa st) ++ [mkack (nse (l_sink st')) id tm (ae_time a)]) (wa_waiting (l_wa st)) /\
       AddsT rest (l_agenda st') ((nq (ae_time a), AWirePutCb true) :: fst (getD_eff (ae_time a) (l_wd st)))) ->
    Tr st a rest st'.

Lemma find_none_has id t : find (fun p : Z * Q => fst p =? id) t = None -> has_timer id t = false.
Proof.
  intros H. destruct (has_timer id t) eqn:E; [|reflexivity]. exfalso.
  apply has_timer_In in E. exact (find_none_keys _ _ H E).
Qed.

Lemma popped_keep st a rest : keep (popped st a rest) (popped st a rest).
Proof. apply keep_refl. Qed.

Lemma deliver_data_descr st id tm ct st1 :
  pkt_get id (l_pkt st) = Some (tm, ct) -> deliver_data lc st id = inl st1 ->
  l_now st1 = l_now st /\ l_snd st1 = l_snd st /\ l_pkt st1 = l_pkt st /\ l_n1 st1 = l_n1 st /\ l_slog st1 = l_slog st /\
  l_wd st1 = l_wd st /\ l_sink st1 = sink_step true (l_sink st) (id, mss cfg) /\ l_n2 st1 = S (l_n2 st) /\
  (if droppedA lc (l_n2 st) then l_wa st1 = l_wa st /\ l_agenda st1 = l_agenda st
   else l_wa st1 = mkwa (wa_items (l_wa st) ++ [mkack (nse (l_sink st1)) id tm (l_now st)]) (wa_waiting (l_wa st)) /\
        AddsT (l_agenda st) (l_agenda st1) [(nq (l_now st), AWirePutCb true)]).
Proof.
  intros Ep D. unfold deliver_data in D. rewrite Ep in D. unfold droppedA. cbv zeta in D.
  remember (sink_step true (l_sink st) (id, mss cfg)) as sk eqn:Esk. clear Esk.
  destruct (existsb (Nat.eqb (l_n2 st)) (lc_drop_ack lc)); injection D as <-; lproj.
  - repeat split; reflexivity.
  - do 8 (split; [reflexivity|]). split; [reflexivity|]. apply AddsT_one.
Qed.

Lemma lstep_Tr st a rest st' :
  lc_fx lc = repaired -> l_agenda st = a :: rest -> lstep lc st = Some (inl st') -> Tr st a rest st'.
Proof.
  intros Hfx E H. unfold lstep in H. rewrite E in H. injection H as H. fold (popped st a rest) in H.
  set (pst := popped st a rest) in *.
  assert (SE : forall e isack stx, ev_sender st (ae_time a) (ae_ev a) e isack ->
             l_now stx = ae_time a -> l_snd stx = l_snd st -> l_n1 stx = l_n1 st -> l_agenda stx = rest ->
             l_sink stx = l_sink st -> l_n2 stx = l_n2 st -> l_slog stx = l_slog st -> l_wd stx = l_wd st ->
             l_wa stx = l_wa st -> l_pkt stx = l_pkt st ->
             forall st1, sender_event lc stx e = inl st1 ->
             st' = (if isack then wa_get st1 else st1) -> Tr st a rest st').
  { intros e isack stx Hev X1 X2 X3 X4 X5 X6 X7 X8 X9 X10 st1 Hse ->.
    destruct (sender_event_snd lc stx e st1 Hse) as (s' & o & Hstep & _).
    destruct (oeff lc (l_now stx) (l_n1 stx) o) as [[nw kp] k] eqn:Eo.
    destruct (sender_event_descr lc stx e st1 s' o nw kp k Hstep Hse Eo) as (D1&D2&D3&D4&D5&D6&D7&D8&D9&D10&D11&D12&D13&D14).
    rewrite X1, X2, X3, X4, X5, X6, X7, X8, X9, X10 in *. rewrite Hfx in Hstep.
    destruct isack.
    - destruct (wa_get_descr st1) as ([g1 g2 g3 g4 g5 g6 g7] & G2 & G3 & G4). rewrite D1, D4 in *.
      eapply (tr_sender st a rest _ e true s' o nw kp k); eauto; try congruence; rewrite ?g4; auto.
      eapply (AddsT_trans _ _ _ G3 _ _ D9).
    - eapply (tr_sender st a rest _ e false s' o nw kp k []); eauto.
      rewrite app_nil_r. exact D9. }
  assert (DL : forall id tm ct st1,
             (ae_ev a = AWireOutD id \/ (ae_ev a = AWireGetD id /\ Qltb (ae_time a - wd_entered (l_wd st)) d = false)) ->
             pkt_get id (l_pkt pst) = Some (tm, ct) -> deliver_data lc pst id = inl st1 -> Tr st a rest (wd_get st1)).
  { intros id tm ct st1 Hev Ep D.
    destruct (deliver_data_descr pst id tm ct st1 Ep D) as (D1&D2&D3&D4&D5&D6&D7&D8&D9).
    destruct (wd_get_descr st1) as ([g1 g2 g3 g4 g5 g6 g7] & G2 & G3 & G4).
    rewrite D1, D6 in *. change (l_now pst) with (ae_time a) in *. change (l_wd pst) with (l_wd st) in *.
    change (l_snd pst) with (l_snd st) in *. change (l_pkt pst) with (l_pkt st) in *. change (l_n1 pst) with (l_n1 st) in *.
    change (l_slog pst) with (l_slog st) in *. change (l_sink pst) with (l_sink st) in *. change (l_n2 pst) with (l_n2 st) in *.
    change (l_wa pst) with (l_wa st) in *. change (l_agenda pst) with rest in *.
    eapply (tr_deliver st a rest _ id tm ct); [exact Hev|exact Ep|..]; try congruence.
    destruct (droppedA lc (l_n2 st)).
    - destruct D9 as [Da Db]. split; [congruence|]. rewrite Db in G3. exact G3.
    - destruct D9 as [Da Db]. split; [rewrite G2, g3; exact Da|].
      eapply AddsT_cons_front; [exact Db|exact G3]. }
  destruct (ae_ev a) as [| |id|id|w|w|id|id|ackno pid tm ct|ackno pid tm ct] eqn:Eev; cbn [handle] in H.
  - refine (SE EWake false pst _ eq_refl eq_refl eq_refl eq_refl eq_refl eq_refl eq_refl eq_refl eq_refl eq_refl st' H eq_refl). constructor.
  - refine (SE EStoreCb false pst _ eq_refl eq_refl eq_refl eq_refl eq_refl eq_refl eq_refl eq_refl eq_refl eq_refl st' H eq_refl). constructor.
  - destruct (find (fun p => fst p =? id) (timers (l_snd pst))) as [[k r]|] eqn:Ef; injection H as <-.
    + pose proof (find_some _ _ Ef) as [_ Ek]. cbn [fst] in Ek. apply Z.eqb_eq in Ek. subst k.
      eapply (tr_init st a rest _ id r); eauto; try reflexivity.
      * apply sched_keep.
      * apply (AddsT_sched pst).
    + apply tr_noop; try reflexivity; [|apply keep_refl]. rewrite Eev. apply find_none_has. exact Ef.
  - destruct (has_timer id (timers (l_snd pst))) eqn:Eh.
    + refine (SE (EExpire id) false pst _ eq_refl eq_refl eq_refl eq_refl eq_refl eq_refl eq_refl eq_refl eq_refl eq_refl st' H eq_refl). constructor. exact Eh.
    + injection H as <-. apply tr_noop; try reflexivity; [|apply keep_refl]. rewrite Eev. exact Eh.
  - destruct w; injection H as <-.
    + destruct (wa_get_descr pst) as (G1 & G2 & G3 & G4). apply tr_getA; auto.
    + destruct (wd_get_descr pst) as (G1 & G2 & G3 & G4). apply tr_getD; auto.
  - destruct w.
    + destruct (wa_waiting (l_wa pst)) eqn:Ew; injection H as <-.
      * destruct (wa_get_descr pst) as (G1 & G2 & G3 & G4). apply tr_getA; auto.
      * apply tr_noop; try reflexivity; [|apply keep_refl]. rewrite Eev. exact Ew.
    + destruct (wd_waiting (l_wd pst)) eqn:Ew; injection H as <-.
      * destruct (wd_get_descr pst) as (G1 & G2 & G3 & G4). apply tr_getD; auto.
      * apply tr_noop; try reflexivity; [|apply keep_refl]. rewrite Eev. exact Ew.
  - destruct (pkt_get id (l_pkt pst)) as [[tm ct]|] eqn:Ep; [|discriminate].
    destruct (Qltb (l_now pst - wd_entered (l_wd pst)) d) eqn:Eq.
    + injection H as <-. eapply (tr_waitD st a rest _ id); eauto; try reflexivity; [apply sched_keep|apply (AddsT_sched pst)].
    + destruct (deliver_data lc pst id) as [st1|] eqn:D; cbn [bind] in H; [|discriminate]. injection H as <-.
      eapply DL; eauto.
  - destruct (pkt_get id (l_pkt pst)) as [[tm ct]|] eqn:Ep; [|unfold deliver_data in H; rewrite Ep in H; discriminate].
    destruct (deliver_data lc pst id) as [st1|] eqn:D; cbn [bind] in H; [|discriminate]. injection H as <-.
    eapply DL; eauto.
  - destruct (Qltb (l_now pst - ct) d) eqn:Eq.
    + injection H as <-. eapply (tr_waitA st a rest _ ackno pid tm ct); eauto; try reflexivity; [apply sched_keep|apply (AddsT_sched pst)].
    + destruct (deliver_ack lc pst ackno pid tm) as [st1|] eqn:D; cbn [bind] in H; [|discriminate]. injection H as <-.
      unfold deliver_ack in D. change (l_now pst) with (ae_time a) in D. change (l_oracle pst) with (l_oracle st) in D.
      match type of D with sender_event _ ?sx ?e = _ => refine (SE e true sx _ eq_refl eq_refl eq_refl eq_refl eq_refl eq_refl eq_refl eq_refl eq_refl eq_refl st1 D eq_refl) end. constructor. exact Eq.
  - destruct (deliver_ack lc pst ackno pid tm) as [st1|] eqn:D; cbn [bind] in H; [|discriminate]. injection H as <-.
    unfold deliver_ack in D. change (l_now pst) with (ae_time a) in D. change (l_oracle pst) with (l_oracle st) in D.
    match type of D with sender_event _ ?sx ?e = _ => refine (SE e true sx _ eq_refl eq_refl eq_refl eq_refl eq_refl eq_refl eq_refl eq_refl eq_refl eq_refl st1 D eq_refl) end. constructor.
Qed.
End Tr.

(* ================================================================================================ *)
(* counting agenda entries through AddsT *)
Definition ncount (p : aev -> bool) (news : list (Q * aev)) : nat := length (filter (fun x => p (snd x)) news).

Lemma acount_cons p a l : acount p (a :: l) = (b2n (p (ae_ev a)) + acount p l)%nat.
Proof. unfold acount. cbn [filter]. destruct (p (ae_ev a)); reflexivity. Qed.

Lemma ncount_app p a b : ncount p (a ++ b) = (ncount p a + ncount p b)%nat.
Proof. unfold ncount. rewrite filter_app, app_length. reflexivity. Qed.

Lemma ncount_cons p x l : ncount p (x :: l) = (b2n (p (snd x)) + ncount p l)%nat.
Proof. unfold ncount. cbn [filter]. destruct (p (snd x)); reflexivity. Qed.

Lemma AddsT_acount p ag ag' news : AddsT ag ag' news -> acount p ag' = (ncount p news + acount p ag)%nat.
Proof.
  induction 1 as [|ag ag' news t q k e H IH]; [reflexivity|].
  rewrite ainsert_count, IH, ncount_app. cbn [ae_ev]. unfold ncount at 3. cbn [filter snd].
  destruct (p e); cbn [length]; lia.
Qed.

Lemma AddsT_In_iff ag ag' news : AddsT ag ag' news -> forall a,
  In a ag' -> In a ag \/ In (ae_time a, ae_ev a) news.
Proof.
  induction 1 as [|ag ag' news t q k e H IH]; intros a Ha; [left; exact Ha|].
  apply ainsert_In in Ha as [->|Ha].
  - right. apply in_or_app. right. left. reflexivity.
  - destruct (IH a Ha) as [?|?]; [left; assumption|right; apply in_or_app; left; assumption].
Qed.

Lemma AddsT_In_old ag ag' news a : AddsT ag ag' news -> In a ag -> In a ag'.
Proof. induction 1; [auto|]. intros Ha. apply ainsert_In. right. auto. Qed.

Lemma AddsT_In_new ag ag' news t e : AddsT ag ag' news -> In (t, e) news -> exists a, In a ag' /\ ae_time a = t /\ ae_ev a = e.
Proof.
  induction 1 as [|ag ag' news t0 q k e0 H IH]; [intros []|]. intros Hin. apply in_app_or in Hin as [Hin|[E|[]]].
  - destruct (IH Hin) as (a & Ha & A1 & A2). exists a. split; [apply ainsert_In; right; exact Ha|auto].
  - injection E as <- <-. exists (mkae t0 q k e0). split; [apply ainsert_In; left; reflexivity|auto].
Qed.

Lemma AddsT_sorted ag ag' news : AddsT ag ag' news -> asorted ag -> asorted ag'.
Proof. induction 1; [auto|]. intros Hs. apply ainsert_sorted. auto. Qed.

Lemma asorted_head a rest b : asorted (a :: rest) -> In b rest -> (ae_time a <= ae_time b)%Q.
Proof. cbn [asorted]. intros [H _] Hb. rewrite Forall_forall in H. apply H, Hb. Qed.

(* ================================================================================================ *)
(* the timing / control invariant of the two wires *)
Section W.
Variable lc : lcfg.
Local Notation d := (lc_delay lc).

Definition ackct (e : aev) : option Q :=
  match e with AWireGetA _ _ _ ct | AWireOutA _ _ _ ct => Some ct | _ => None end.

Definition entry_w (now t : Q) (e : aev) : Prop :=
  match e with
  | AWireInit _ | AWirePutCb _ | AWireGetD _ => (t <= now)%Q
  | AWireGetA _ _ _ ct => (t <= now /\ ct <= now /\ now <= ct + d)%Q
  | AWireOutD _ => (t <= now + d)%Q
  | AWireOutA _ _ _ ct => (t <= ct + d /\ ct <= now)%Q
  | _ => True
  end.

Fixpoint sortedQ (l : list Q) : Prop :=
  match l with [] => True | x :: t => Forall (fun y => (x <= y)%Q) t /\ sortedQ t end.

(* the data wire: where its process is; a waiting process with packets in the store is being woken *)
Record WD (ag : list aentry) (w : wireD) : Prop := {
  wd_ctl : (acount is_holdD ag + acount is_initD ag + b2n (wd_waiting w))%nat = 1%nat;
  wd_wait : acount is_holdD ag = O -> wd_items w <> [] -> (0 < acount is_putD ag + acount is_initD ag)%nat
}.
(* the ACK wire: the same, and every ACK (created at ct) is on time for ct + d, in creation order *)
Record WA (now : Q) (ag : list aentry) (w : wireA) : Prop := {
  wa_ctl : (acount is_holdA ag + acount is_initA ag + b2n (wa_waiting w))%nat = 1%nat;
  wa_wait : acount is_holdA ag = O -> wa_items w <> [] -> (0 < acount is_putA ag + acount is_initA ag)%nat;
  wa_acks : Forall (fun r => (a_ct r <= now /\ now <= a_ct r + d)%Q) (wa_items w);
  wa_sorted : sortedQ (map a_ct (wa_items w));
  wa_held_le : forall a c, In a ag -> ackct (ae_ev a) = Some c -> Forall (fun r => (c <= a_ct r)%Q) (wa_items w)
}.
(* the entry instants kept by the data wire (its queue, and the one its process holds) are in the past *)
Definition Wst (now : Q) (w : wireD) : Prop :=
  (wd_entered w <= now)%Q /\ Forall (fun t => (t <= now)%Q) (wd_stamps w).
Record LInvW (st : lstate) : Prop := {
  w_now : (0 <= l_now st)%Q;
  w_pkt : pkt_ok (l_now st) (l_pkt st);
  w_ent : Forall (fun a => entry_w (l_now st) (ae_time a) (ae_ev a)) (l_agenda st);
  w_D : WD (l_agenda st) (l_wd st);
  w_A : WA (l_now st) (l_agenda st) (l_wa st);
  w_st : Wst (l_now st) (l_wd st);
  (* one entry instant per queued packet: the defaults of hd / tl in wd_get are never used *)
  w_len : length (wd_stamps (l_wd st)) = length (wd_items (l_wd st))
}.

Lemma pkt_ok_mono now now' m : (now <= now')%Q -> pkt_ok now m -> pkt_ok now' m.
Proof. intros H P id t c E. destruct (P id t c E). split; lra. Qed.

Lemma entry_w_mono now tau t e : (now <= tau)%Q -> (tau <= t)%Q -> entry_w now t e -> entry_w tau t e.
Proof. intros H1 H2. destruct e; cbn [entry_w]; auto; intros; lra. Qed.

(* what the outputs of a sender event put on the agenda *)
Definition news_kind (tau : Q) (x : Q * aev) : Prop :=
  (x = (nq tau, AWirePutCb false)) \/ (exists id, x = (nq tau, ATimerInit id)) \/ (exists id r, x = (nq (tau + r), ATimerFire id)).

Lemma oeff_kinds tau : forall o n1 nw kp k, oeff lc tau n1 o = (nw, kp, k) ->
  Forall (news_kind tau) nw /\ (kp <> [] -> In (nq tau, AWirePutCb false) nw).
Proof.
  induction o as [|x o IH]; intros n1 nw kp k; cbn [oeff].
  - intros E; injection E as <- <- <-. split; [constructor|intros H; contradiction].
  - destruct x as [id z|id r|id|id r].
    + destruct (oeff lc tau (S n1) o) as [[nw1 kp1] k1] eqn:E1. destruct (IH _ _ _ _ E1) as [A B].
      destruct (droppedD lc n1); intros E; injection E as <- <- <-.
      * split; assumption.
      * split; [constructor; [left; reflexivity|exact A]|intros _; left; reflexivity].
    + destruct (oeff lc tau n1 o) as [[nw1 kp1] k1] eqn:E1. destruct (IH _ _ _ _ E1) as [A B].
      intros E; injection E as <- <- <-. split; [constructor; [right; left; eauto|exact A]|intros H; right; auto].
    + apply IH.
    + destruct (oeff lc tau n1 o) as [[nw1 kp1] k1] eqn:E1. destruct (IH _ _ _ _ E1) as [A B].
      intros E; injection E as <- <- <-. split; [constructor; [right; right; eauto|exact A]|intros H; right; auto].
Qed.

Lemma extra_news_kind tau s s' e x : In x (extra_news tau s s' e) -> x = (nq tau, ASenderCb) \/ x = (nq tau, ASenderWake).
Proof.
  unfold extra_news. intros H. apply in_app_or in H as [H|H].
  - destruct (_ <? _)%nat; [destruct H as [<-|[]]; left; reflexivity|destruct H].
  - destruct (_ && _); [destruct H as [<-|[]]; right; reflexivity|destruct H].
Qed.

(* a predicate that no sender-produced entry satisfies *)
Definition wire_pred (p : aev -> bool) : Prop :=
  p ASenderCb = false /\ p ASenderWake = false /\ (forall id, p (ATimerInit id) = false) /\ (forall id, p (ATimerFire id) = false).

Lemma ncount_sender_news p tau o n1 nw kp k s s' e :
  wire_pred p -> oeff lc tau n1 o = (nw, kp, k) ->
  ncount p (nw ++ extra_news tau s s' e) = (if p (AWirePutCb false) then ncount is_putD nw else O).
Proof.
  intros (P1 & P2 & P3 & P4) Ho. destruct (oeff_kinds tau o n1 nw kp k Ho) as [Hk _].
  rewrite ncount_app.
  assert (E2 : ncount p (extra_news tau s s' e) = O).
  { unfold ncount. apply length_zero_iff_nil. apply filter_none. intros x Hx.
    apply extra_news_kind in Hx as [->| ->]; cbn [snd]; assumption. }
  rewrite E2, Nat.add_0_r. clear Ho. induction Hk as [|x l Hx Hl IH]; [destruct (p (AWirePutCb false)); reflexivity|].
  rewrite !ncount_cons, IH. destruct Hx as [->|[(id & ->)|(id & r & ->)]]; cbn [snd is_putD]; rewrite ?P3, ?P4;
    destruct (p (AWirePutCb false)); cbn [b2n]; lia.
Qed.
End W.

Section Wstep.
Variable lc : lcfg.
Local Notation d := (lc_delay lc).
Hypothesis Hd : (0 <= d)%Q.

Lemma AddsT_ent tau rest ag' news :
  AddsT rest ag' news -> Forall (fun b => entry_w lc tau (ae_time b) (ae_ev b)) rest ->
  Forall (fun x => entry_w lc tau (fst x) (snd x)) news -> Forall (fun b => entry_w lc tau (ae_time b) (ae_ev b)) ag'.
Proof. intros H. apply (AddsT_Forall (entry_w lc tau) _ _ _ H). Qed.

Lemma sum_pos_ex p q l : (0 < acount p l + acount q l)%nat -> exists b, In b l /\ (p (ae_ev b) = true \/ q (ae_ev b) = true).
Proof.
  intros H. destruct (acount p l) as [|k] eqn:E1.
  - destruct (acount_pos q l) as (b & B1 & B2); [lia|]. eauto.
  - destruct (acount_pos p l) as (b & B1 & B2); [lia|]. eauto.
Qed.

Ltac cnts HA := repeat rewrite (AddsT_acount _ _ _ _ HA); repeat rewrite acount_cons; repeat rewrite ncount_app; repeat rewrite ncount_cons.

(* ---- data wire ---- *)
(* the entry taken off is replaced by entries of the same role; the store is untouched *)
Lemma WD_0 a rest ag' news w :
  WD (a :: rest) w -> AddsT rest ag' news ->
  ncount is_holdD news = b2n (is_holdD (ae_ev a)) -> ncount is_initD news = b2n (is_initD (ae_ev a)) ->
  (is_putD (ae_ev a) = true -> wd_waiting w = false) -> WD ag' w.
Proof.
  intros [cD wD] HA C1 C2 Hp. repeat rewrite acount_cons in cD. repeat rewrite acount_cons in wD.
  constructor; repeat rewrite (AddsT_acount _ _ _ _ HA); [lia|].
  intros H0 Hne. assert (Hh : (b2n (is_holdD (ae_ev a)) + acount is_holdD rest)%nat = O) by lia.
  specialize (wD Hh Hne). destruct (is_putD (ae_ev a)) eqn:Ep; [|cbn [b2n] in wD; lia].
  rewrite (Hp eq_refl) in cD. cbn [b2n] in cD. lia.
Qed.

(* a sender event appends segments to the store, with a put callback *)
Lemma WD_1 a rest ag' news w kp t :
  WD (a :: rest) w -> AddsT rest ag' news ->
  is_holdD (ae_ev a) = false -> is_initD (ae_ev a) = false -> is_putD (ae_ev a) = false ->
  ncount is_holdD news = O -> ncount is_initD news = O -> (kp <> [] -> (1 <= ncount is_putD news)%nat) ->
  WD ag' (wd_app w kp t).
Proof.
  intros [cD wD] HA E1 E2 E3 C1 C2 C3. repeat rewrite acount_cons in cD. repeat rewrite acount_cons in wD.
  rewrite E1, E2 in cD. rewrite E1, E2, E3 in wD. cbn [b2n] in *.
  constructor; unfold wd_app; cbn [wd_items wd_waiting]; repeat rewrite (AddsT_acount _ _ _ _ HA); [lia|].
  intros H0 Hne. destruct (wd_items w) as [|x l] eqn:Ei.
  - cbn [app] in Hne. specialize (C3 Hne). lia.
  - assert (Hh : (0 + acount is_holdD rest)%nat = O) by lia. specialize (wD Hh ltac:(discriminate)). lia.
Qed.

(* the wire's process asks its store for the next packet *)
Lemma WD_2 tau a rest ag' n0 w :
  WD (a :: rest) w -> AddsT rest ag' (n0 ++ fst (getD_eff tau w)) ->
  ncount is_holdD n0 = O -> ncount is_initD n0 = O ->
  (is_initD (ae_ev a) = true \/ (is_putD (ae_ev a) = true /\ wd_waiting w = true) \/ is_holdD (ae_ev a) = true) ->
  WD ag' (snd (getD_eff tau w)).
Proof.
  intros [cD wD] HA C1 C2 Hrole. repeat rewrite acount_cons in cD.
  assert (Z0 : acount is_holdD rest = O /\ acount is_initD rest = O).
  { destruct Hrole as [R|[[R1 R2]|R]].
    - rewrite R in cD. cbn [b2n] in cD. lia.
    - rewrite R2 in cD. cbn [b2n] in cD. lia.
    - rewrite R in cD. cbn [b2n] in cD. lia. }
  destruct Z0 as [Z1 Z2]. unfold getD_eff in *. destruct (wd_items w) as [|x l]; cbn [fst snd] in *.
  - constructor; cbn [wd_items wd_waiting]; repeat rewrite (AddsT_acount _ _ _ _ HA); repeat rewrite ncount_app;
      cbn [ncount filter length]; [cbn [b2n]; lia|]. intros _ H. contradiction.
  - constructor; cbn [wd_items wd_waiting]; repeat rewrite (AddsT_acount _ _ _ _ HA); repeat rewrite ncount_app; repeat rewrite ncount_cons;
      cbn [snd is_holdD is_initD dataid_of b2n ncount filter length]; lia.
Qed.

(* ---- ACK wire ---- *)
Lemma ackct_hold e c : ackct e = Some c -> is_holdA e = true.
Proof. destruct e; cbn; try discriminate; reflexivity. Qed.

Lemma sortedQ_app l x : sortedQ l -> Forall (fun y => (y <= x)%Q) l -> sortedQ (l ++ [x]).
Proof.
  induction l as [|y l IH]; cbn [sortedQ app]; [intros _ _; split; [constructor|exact I]|].
  intros [Hy Hl] Hf. inversion Hf as [|? ? Hyx Hf']; subst. split; [|apply IH; assumption].
  apply Forall_app. split; [exact Hy|]. constructor; [exact Hyx|constructor].
Qed.

(* the clock cannot pass the delivery instant ct + d of an ACK in the ACK wire *)
Lemma head_time_acks now tau ag w r :
  WA lc now ag w -> Forall (fun b => entry_w lc now (ae_time b) (ae_ev b)) ag ->
  (forall b, In b ag -> (tau <= ae_time b)%Q) -> In r (wa_items w) -> (tau <= a_ct r + d)%Q.
Proof.
  intros [cA wA aA sA hA] He Hh Hr. rewrite Forall_forall in aA, He. destruct (aA r Hr) as [A1 A2].
  destruct (acount is_holdA ag) as [|n] eqn:Eh.
  - assert (Hne : wa_items w <> []) by (intros E; rewrite E in Hr; destruct Hr).
    destruct (sum_pos_ex _ _ _ (wA eq_refl Hne)) as (b & B1 & B2).
    pose proof (Hh b B1) as T1. pose proof (He b B1) as T2.
    destruct (ae_ev b) as [| | | |[]|[]| | | |]; cbn [is_putA is_initA entry_w] in *; destruct B2; try discriminate; lra.
  - destruct (acount_pos is_holdA ag) as (b & B1 & B2); [lia|].
    pose proof (Hh b B1) as T1. pose proof (He b B1) as T2.
    destruct (ae_ev b) eqn:Eb; try discriminate; cbn [entry_w] in T2.
    + lra.
    + pose proof (hA b ct B1) as Hl. rewrite Eb in Hl. specialize (Hl eq_refl). rewrite Forall_forall in Hl.
      specialize (Hl r Hr). lra.
Qed.

Lemma WA_adv now tau ag w :
  WA lc now ag w -> (now <= tau)%Q -> (forall r, In r (wa_items w) -> (tau <= a_ct r + d)%Q) -> WA lc tau ag w.
Proof.
  intros [cA wA aA sA hA] Hn Hh. constructor; auto.
  apply Forall_forall. intros r Hr. rewrite Forall_forall in aA. destruct (aA r Hr). specialize (Hh r Hr). split; lra.
Qed.

Lemma WA_0 tau a rest ag' news w :
  WA lc tau (a :: rest) w -> AddsT rest ag' news ->
  ncount is_holdA news = b2n (is_holdA (ae_ev a)) -> ncount is_initA news = b2n (is_initA (ae_ev a)) ->
  (is_putA (ae_ev a) = true -> wa_waiting w = false) ->
  (forall x c, In x news -> ackct (snd x) = Some c -> ackct (ae_ev a) = Some c) -> WA lc tau ag' w.
Proof.
  intros [cA wA aA sA hA] HA C1 C2 Hp Hheld. repeat rewrite acount_cons in cA. repeat rewrite acount_cons in wA.
  constructor; auto; repeat rewrite (AddsT_acount _ _ _ _ HA); [lia| |].
  - intros H0 Hne. assert (Hh : (b2n (is_holdA (ae_ev a)) + acount is_holdA rest)%nat = O) by lia.
    specialize (wA Hh Hne). destruct (is_putA (ae_ev a)) eqn:Ep; [|cbn [b2n] in wA; lia].
    rewrite (Hp eq_refl) in cA. cbn [b2n] in cA. lia.
  - intros b c Hb Hc. destruct (AddsT_In_iff _ _ _ HA b Hb) as [Hold|Hnew].
    + apply (hA b c); [right; exact Hold|exact Hc].
    + apply (hA a c); [left; reflexivity|]. apply (Hheld _ _ Hnew). exact Hc.
Qed.

(* the sink appends an ACK created now, with a put callback *)
Lemma WA_1 tau a rest ag' news w r :
  WA lc tau (a :: rest) w -> AddsT rest ag' news -> a_ct r = tau ->
  is_holdA (ae_ev a) = false -> is_initA (ae_ev a) = false -> is_putA (ae_ev a) = false ->
  ncount is_holdA news = O -> ncount is_initA news = O -> (1 <= ncount is_putA news)%nat ->
  (forall x, In x news -> ackct (snd x) = None) ->
  (forall b c, In b rest -> ackct (ae_ev b) = Some c -> (c <= tau)%Q) ->
  WA lc tau ag' (mkwa (wa_items w ++ [r]) (wa_waiting w)).
Proof.
  intros [cA wA aA sA hA] HA Er E1 E2 E3 C1 C2 C3 Hnone Hc. repeat rewrite acount_cons in cA. repeat rewrite acount_cons in wA.
  rewrite E1, E2 in cA. rewrite E1, E2, E3 in wA. cbn [b2n] in *.
  constructor; cbn [wa_items wa_waiting]; repeat rewrite (AddsT_acount _ _ _ _ HA).
  - lia.
  - intros _ _. lia.
  - apply Forall_app. split; [exact aA|]. constructor; [|constructor]. rewrite Er. split; lra.
  - rewrite map_app. cbn [map]. apply sortedQ_app; [exact sA|]. apply Forall_forall. intros y Hy.
    apply in_map_iff in Hy as (x & <- & Hx). rewrite Forall_forall in aA. destruct (aA x Hx). rewrite Er. lra.
  - intros b c Hb Hbc. destruct (AddsT_In_iff _ _ _ HA b Hb) as [Hold|Hnew].
    + apply Forall_app. split; [apply (hA b c); [right; exact Hold|exact Hbc]|]. constructor; [|constructor].
      rewrite Er. eapply Hc; eauto.
    + pose proof (Hnone _ Hnew) as Hx. cbn [snd] in Hx. congruence.
Qed.

Lemma sortedQ_map_head x l : sortedQ (map a_ct (x :: l)) -> Forall (fun r => (a_ct x <= a_ct r)%Q) l /\ sortedQ (map a_ct l).
Proof.
  cbn [map sortedQ]. intros [H1 H2]. split; [|exact H2]. apply Forall_forall. intros r Hr. rewrite Forall_forall in H1. apply H1. apply in_map. exact Hr.
Qed.

(* the ACK wire's process asks its store for the next packet *)
Lemma WA_2 tau a rest ag' n0 w :
  WA lc tau (a :: rest) w -> AddsT rest ag' (n0 ++ fst (getA_eff tau w)) ->
  ncount is_holdA n0 = O -> ncount is_initA n0 = O -> (forall x, In x n0 -> ackct (snd x) = None) ->
  (is_initA (ae_ev a) = true \/ (is_putA (ae_ev a) = true /\ wa_waiting w = true) \/ is_holdA (ae_ev a) = true) ->
  WA lc tau ag' (snd (getA_eff tau w)).
Proof.
  intros [cA wA aA sA hA] HA C1 C2 Hnone Hrole. repeat rewrite acount_cons in cA.
  assert (Z0 : acount is_holdA rest = O /\ acount is_initA rest = O).
  { destruct Hrole as [R|[[R1 R2]|R]].
    - rewrite R in cA. cbn [b2n] in cA. lia.
    - rewrite R2 in cA. cbn [b2n] in cA. lia.
    - rewrite R in cA. cbn [b2n] in cA. lia. }
  destruct Z0 as [Z1 Z2].
  assert (NoOld : forall b c, In b rest -> ackct (ae_ev b) = Some c -> False).
  { intros b c Hb Hc. apply ackct_hold in Hc. pose proof (acount_zero _ _ Z1 b Hb). congruence. }
  unfold getA_eff in *. destruct (wa_items w) as [|x l] eqn:Ei; cbn [fst snd] in *.
  - constructor; cbn [wa_items wa_waiting map sortedQ]; repeat rewrite (AddsT_acount _ _ _ _ HA); repeat rewrite ncount_app;
      cbn [ncount filter length]; auto.
    + cbn [b2n]. lia.
    + intros _ H. contradiction.
  - apply sortedQ_map_head in sA as [S1 S2]. inversion aA as [|? ? Ax Al]; subst.
    constructor; cbn [wa_items wa_waiting]; repeat rewrite (AddsT_acount _ _ _ _ HA); repeat rewrite ncount_app; repeat rewrite ncount_cons;
      cbn [snd is_holdA is_initA ackno_of b2n ncount filter length]; auto; try lia.
    intros b c Hb Hc. destruct (AddsT_In_iff _ _ _ HA b Hb) as [Hold|Hnew]; [exfalso; eapply NoOld; eauto|].
    apply in_app_or in Hnew as [Hnew|[Hnew|[]]]; [pose proof (Hnone _ Hnew) as Hx; cbn [snd] in Hx; congruence|].
    injection Hnew as Ht Hev. rewrite <- Hev in Hc. cbn [ackct] in Hc. injection Hc as <-. exact S1.
Qed.

(* ---- entries ---- *)
Lemma ent_adv now tau a rest :
  Forall (fun b => entry_w lc now (ae_time b) (ae_ev b)) (a :: rest) -> (now <= tau)%Q ->
  (forall b, In b rest -> (tau <= ae_time b)%Q) -> Forall (fun b => entry_w lc tau (ae_time b) (ae_ev b)) rest.
Proof.
  intros He Hn Hr. inversion He as [|? ? _ Hrest]; subst. apply Forall_forall. intros b Hb.
  rewrite Forall_forall in Hrest. apply (entry_w_mono lc now); auto.
Qed.

Lemma nq_le tau : (nq tau <= tau)%Q.
Proof. rewrite nq_eq. apply Qle_refl. Qed.

Lemma sender_news_ent tau o n1 nw kp k s s' e :
  oeff lc tau n1 o = (nw, kp, k) -> Forall (fun x => entry_w lc tau (fst x) (snd x)) (nw ++ extra_news tau s s' e).
Proof.
  intros Ho. destruct (oeff_kinds lc tau o n1 nw kp k Ho) as [Hk _]. apply Forall_app. split.
  - eapply Forall_impl; [|exact Hk]. intros x [->|[(id & ->)|(id & r & ->)]]; cbn [fst snd entry_w]; auto. apply nq_le.
  - apply Forall_forall. intros x Hx. apply extra_news_kind in Hx as [->| ->]; exact I.
Qed.

Lemma sender_news_noack tau o n1 nw kp k s s' e x :
  oeff lc tau n1 o = (nw, kp, k) -> In x (nw ++ extra_news tau s s' e) -> ackct (snd x) = None.
Proof.
  intros Ho Hx. destruct (oeff_kinds lc tau o n1 nw kp k Ho) as [Hk _]. apply in_app_or in Hx as [Hx|Hx].
  - rewrite Forall_forall in Hk. destruct (Hk x Hx) as [->|[(id & ->)|(id & r & ->)]]; reflexivity.
  - apply extra_news_kind in Hx as [->| ->]; reflexivity.
Qed.

Lemma getA_news_ent tau ag w : WA lc tau ag w -> Forall (fun x => entry_w lc tau (fst x) (snd x)) (fst (getA_eff tau w)).
Proof.
  intros W. unfold getA_eff. destruct (wa_items w) as [|x l] eqn:E; cbn [fst]; constructor; [|constructor].
  cbn [fst snd entry_w]. pose proof (wa_acks _ _ _ _ W) as Ha. rewrite E in Ha. inversion Ha as [|? ? [A1 A2] _]; subst.
  split; [apply nq_le|]. split; assumption.
Qed.

Lemma getD_news_ent tau w : Forall (fun x => entry_w lc tau (fst x) (snd x)) (fst (getD_eff tau w)).
Proof. unfold getD_eff. destruct (wd_items w); cbn [fst]; constructor; [|constructor]. cbn [fst snd entry_w]. apply nq_le. Qed.

Lemma getD_news_counts tau w p : p = is_holdA \/ p = is_initA \/ p = is_putA -> ncount p (fst (getD_eff tau w)) = O.
Proof. unfold getD_eff. destruct (wd_items w); cbn [fst]; [reflexivity|]. intros [->|[->| ->]]; reflexivity. Qed.

Lemma getA_news_counts tau w p : p = is_holdD \/ p = is_initD \/ p = is_putD -> ncount p (fst (getA_eff tau w)) = O.
Proof. unfold getA_eff. destruct (wa_items w); cbn [fst]; [reflexivity|]. intros [->|[->| ->]]; reflexivity. Qed.

Lemma ncount_ge1 p news x : In x news -> p (snd x) = true -> (1 <= ncount p news)%nat.
Proof.
  intros Hx Hp. unfold ncount. apply in_split in Hx as (l1 & l2 & ->). rewrite filter_app, app_length. cbn [filter]. rewrite Hp. cbn [length]. lia.
Qed.

Lemma wire_pred_holdD : wire_pred is_holdD. Proof. repeat split. Qed.
Lemma wire_pred_initD : wire_pred is_initD. Proof. repeat split. Qed.
Lemma wire_pred_holdA : wire_pred is_holdA. Proof. repeat split. Qed.
Lemma wire_pred_initA : wire_pred is_initA. Proof. repeat split. Qed.
Lemma wire_pred_putA : wire_pred is_putA. Proof. repeat split. Qed.

Lemma ev_sender_roles st tau ev e isack : ev_sender lc st tau ev e isack ->
  is_holdD ev = false /\ is_initD ev = false /\ is_putD ev = false /\ is_initA ev = false /\ is_putA ev = false /\
  is_holdA ev = isack.
Proof. destruct 1; repeat split. Qed.

Lemma Wst_mono now tau w : (now <= tau)%Q -> Wst now w -> Wst tau w.
Proof. intros H [A B]. split; [lra|]. eapply Forall_impl; [|exact B]. intros t Ht. cbn beta in Ht. lra. Qed.

Lemma Wst_app tau w kp : Wst tau w -> Wst tau (wd_app w kp tau).
Proof.
  intros [A B]. split; [exact A|]. unfold wd_app. cbn [wd_stamps]. apply Forall_app. split; [exact B|].
  apply Forall_forall. intros t Ht. apply in_map_iff in Ht as (j & <- & _). apply Qle_refl.
Qed.

Lemma Wst_get tau w : (0 <= tau)%Q -> Wst tau w -> Wst tau (snd (getD_eff tau w)).
Proof.
  intros H0 [A B]. unfold getD_eff. destruct (wd_items w); cbn [snd]; [split; assumption|].
  destruct (wd_stamps w) as [|t0 l0]; cbn [hd tl wd_entered wd_stamps]; [split; [exact H0|constructor]|].
  inversion B; subst. split; assumption.
Qed.

Lemma wlen_app w kp t : length (wd_stamps w) = length (wd_items w) -> length (wd_stamps (wd_app w kp t)) = length (wd_items (wd_app w kp t)).
Proof. intros H. unfold wd_app. cbn [wd_stamps wd_items]. rewrite !app_length, map_length, H. reflexivity. Qed.

Lemma wlen_get tau w : length (wd_stamps w) = length (wd_items w) ->
  length (wd_stamps (snd (getD_eff tau w))) = length (wd_items (snd (getD_eff tau w))) /\
  (wd_items w <> [] -> wd_stamps w <> []).
Proof.
  intros H. unfold getD_eff. destruct (wd_items w) as [|x r]; cbn [snd wd_stamps wd_items]; [split; [exact H|intros C; contradiction]|].
  destruct (wd_stamps w) as [|t0 l0]; cbn [length tl] in *; [discriminate|]. split; [lia|discriminate].
Qed.

(* THE TIMING / CONTROL INVARIANT IS PRESERVED by every agenda step *)
Lemma LInvW_step st a rest st' :
  LInvA lc st None -> LInvW lc st -> l_agenda st = a :: rest -> Tr lc st a rest st' -> LInvW lc st'.
Proof.
  intros HA W E HT. destruct (la_T _ _ _ HA) as [Ts Tf _ _ _ _ _]. rewrite E in Ts, Tf.
  assert (Hn : (l_now st <= ae_time a)%Q) by (inversion Tf; assumption).
  assert (Hrest : forall b, In b rest -> (ae_time a <= ae_time b)%Q) by (intros b Hb; eapply asorted_head; eauto).
  assert (Hall : forall b, In b (a :: rest) -> (ae_time a <= ae_time b)%Q) by (intros b [<-|Hb]; [apply Qle_refl|auto]).
  destruct W as [W0 Wp We WDs WAs Wst0 Wlen0]. rewrite E in We, WDs, WAs.
  assert (H0 : (0 <= ae_time a)%Q) by lra.
  assert (WstT : Wst (ae_time a) (l_wd st)) by exact (Wst_mono _ _ _ Hn Wst0).
  assert (Pk : pkt_ok (ae_time a) (l_pkt st)) by exact (pkt_ok_mono _ _ _ Hn Wp).
  assert (EntR : Forall (fun b => entry_w lc (ae_time a) (ae_time b) (ae_ev b)) rest) by exact (ent_adv _ _ _ _ We Hn Hrest).
  assert (WAt : WA lc (ae_time a) (a :: rest) (l_wa st)).
  { eapply WA_adv; [exact WAs|exact Hn|]. intros r Hr. eapply head_time_acks; eauto. }
  assert (HeldLe : forall b c, In b rest -> ackct (ae_ev b) = Some c -> (c <= ae_time a)%Q).
  { intros b c Hb Hc. rewrite Forall_forall in We. specialize (We b (or_intror Hb)).
    destruct (ae_ev b); cbn [ackct] in Hc; try discriminate; injection Hc as <-; cbn [entry_w] in We; lra. }
  destruct HT as [e isack s' o nw kp k nwa Hev Hstep Ho Hnow Hsnd Hsink Hn2 Hslog Hn1 Hwd Hif HA' Hkp Hkeep Hpkt
                 | id r Hev Hfind Hk Hwd Hwa HA' | Hev Hk Hwd Hwa Hag | Hev Hk Hwa Hwd HA' | Hev Hk Hwd Hwa HA'
                 | id Hev Hq Hk Hwd Hwa HA' | ackno pid tm ct Hev Hq Hk Hwd Hwa HA'
                 | id tm ct Hev Hp Hnow Hsnd Hpkt Hn1 Hslog Hsink Hn2 Hwd Hif].
  - (* a sender event *)
    destruct (ev_sender_roles _ _ _ _ _ Hev) as (R1 & R2 & R3 & R4 & R5 & R6).
    pose proof (sender_news_ent (ae_time a) o (l_n1 st) nw kp k (l_snd st) s' e Ho) as Ent1.
    assert (Cn : forall p, wire_pred p -> p (AWirePutCb false) = false -> ncount p (nw ++ extra_news (ae_time a) (l_snd st) s' e) = O).
    { intros p Hp Hf. rewrite (ncount_sender_news lc p _ _ _ _ _ _ _ _ _ Hp Ho), Hf. reflexivity. }
    assert (CnA : forall p, p = is_holdD \/ p = is_initD \/ p = is_putD -> ncount p nwa = O).
    { intros p Hp. destruct isack; destruct Hif as [-> _]; [apply getA_news_counts; exact Hp|reflexivity]. }
    assert (EntA : Forall (fun x => entry_w lc (ae_time a) (fst x) (snd x)) nwa).
    { destruct isack; destruct Hif as [-> _]; [eapply getA_news_ent; eauto|constructor]. }
    constructor; rewrite ?Hnow.
    + exact H0.
    + apply Hpkt; assumption.
    + eapply AddsT_ent; [exact HA'|exact EntR|]. apply Forall_app. split; assumption.
    + rewrite Hwd. eapply WD_1; [exact WDs|exact HA'|exact R1|exact R2|exact R3| | |].
      * rewrite ncount_app, (Cn _ wire_pred_holdD eq_refl), (CnA _ (or_introl eq_refl)). reflexivity.
      * rewrite ncount_app, (Cn _ wire_pred_initD eq_refl), (CnA _ (or_intror (or_introl eq_refl))). reflexivity.
      * intros Hne. destruct (oeff_kinds lc _ _ _ _ _ _ Ho) as [_ Hin]. specialize (Hin Hne).
        eapply ncount_ge1; [apply in_or_app; left; apply in_or_app; left; exact Hin|reflexivity].
    + destruct isack; destruct Hif as [-> ->].
      * eapply WA_2; [exact WAt|exact HA'| | | |right; right; exact R6].
        -- apply (Cn _ wire_pred_holdA eq_refl).
        -- apply (Cn _ wire_pred_initA eq_refl).
        -- intros x Hx. eapply sender_news_noack; eauto.
      * eapply WA_0; [exact WAt|exact HA'| | | |].
        -- rewrite app_nil_r, (Cn _ wire_pred_holdA eq_refl), R6. reflexivity.
        -- rewrite app_nil_r, (Cn _ wire_pred_initA eq_refl), R4. reflexivity.
        -- rewrite R5. discriminate.
        -- intros x c Hx Hc. rewrite app_nil_r in Hx. rewrite (sender_news_noack _ _ _ _ _ _ _ _ _ x Ho Hx) in Hc. discriminate.
    + rewrite Hwd. apply Wst_app. exact WstT.
    + rewrite Hwd. apply wlen_app. exact Wlen0.
  - (* Timer Initialize of an armed timer *)
    destruct Hk as [k1 k2 k3 k4 k5 k6 k7]. unfold popped in *; lproj.
    constructor; rewrite ?k1, ?k4, ?Hwd, ?Hwa; auto.
    + eapply AddsT_ent; [exact HA'|exact EntR|]. constructor; [exact I|constructor].
    + eapply WD_0; [exact WDs|exact HA'| | |]; rewrite Hev; cbn; try reflexivity. discriminate.
    + eapply WA_0; [exact WAt|exact HA'| | | |]; rewrite Hev; cbn; try reflexivity; try discriminate.
      intros x c [<-|[]]; discriminate.
  - (* nothing to do *)
    destruct Hk as [k1 k2 k3 k4 k5 k6 k7]. unfold popped in *; lproj.
    assert (HA' : AddsT rest (l_agenda st') []) by (rewrite Hag; constructor).
    constructor; rewrite ?k1, ?k4, ?Hwd, ?Hwa; auto.
    + rewrite Hag. exact EntR.
    + eapply WD_0; [exact WDs|exact HA'| | |]; destruct (ae_ev a) as [| | | | |[]| | | |]; cbn in *; try reflexivity; try discriminate; try contradiction; auto.
    + eapply WA_0; [exact WAt|exact HA'| | | |]; try (intros x c []);
        destruct (ae_ev a) as [| | | | |[]| | | |]; cbn in *; try reflexivity; try discriminate; try contradiction; auto.
  - (* the data wire asks its store *)
    destruct Hk as [k1 k2 k3 k4 k5 k6 k7]. unfold popped in *; lproj.
    constructor; rewrite ?k1, ?k4, ?Hwd, ?Hwa; auto.
    + eapply AddsT_ent; [exact HA'|exact EntR|apply getD_news_ent].
    + eapply (WD_2 (ae_time a) a rest _ []); [exact WDs|exact HA'|reflexivity|reflexivity|].
      destruct Hev as [->|[-> Hw]]; [left; reflexivity|right; left; split; [reflexivity|exact Hw]].
    + eapply WA_0; [exact WAt|exact HA'| | | |].
      * rewrite getD_news_counts by auto. destruct Hev as [->|[-> _]]; reflexivity.
      * rewrite getD_news_counts by auto. destruct Hev as [->|[-> _]]; reflexivity.
      * destruct Hev as [->|[-> _]]; discriminate.
      * intros x c Hx Hc. exfalso. unfold getD_eff in Hx. destruct (wd_items (l_wd st)); cbn [fst] in Hx; [destruct Hx|].
        destruct Hx as [<-|[]]. discriminate.
    + apply Wst_get; assumption.
    + apply wlen_get. exact Wlen0.
  - (* the ACK wire asks its store *)
    destruct Hk as [k1 k2 k3 k4 k5 k6 k7]. unfold popped in *; lproj.
    constructor; rewrite ?k1, ?k4, ?Hwd, ?Hwa; auto.
    + eapply AddsT_ent; [exact HA'|exact EntR|eapply getA_news_ent; eauto].
    + eapply WD_0; [exact WDs|exact HA'| | |].
      * rewrite getA_news_counts by auto. destruct Hev as [->|[-> _]]; reflexivity.
      * rewrite getA_news_counts by auto. destruct Hev as [->|[-> _]]; reflexivity.
      * destruct Hev as [->|[-> _]]; discriminate.
    + eapply (WA_2 (ae_time a) a rest _ []); [exact WAt|exact HA'|reflexivity|reflexivity|intros x []|].
      destruct Hev as [->|[-> Hw]]; [left; reflexivity|right; left; split; [reflexivity|exact Hw]].
  - (* a data packet starts its propagation delay *)
    destruct Hk as [k1 k2 k3 k4 k5 k6 k7]. unfold popped in *; lproj.
    constructor; rewrite ?k1, ?k4, ?Hwd, ?Hwa; auto.
    + eapply AddsT_ent; [exact HA'|exact EntR|]. constructor; [|constructor]. cbn [fst snd entry_w].
      rewrite nq_eq. destruct WstT as [Hc _]. lra.
    + eapply WD_0; [exact WDs|exact HA'| | |]; rewrite Hev; cbn; try reflexivity. discriminate.
    + eapply WA_0; [exact WAt|exact HA'| | | |]; rewrite Hev; cbn; try reflexivity; try discriminate.
      intros x c [<-|[]]; discriminate.
  - (* an ACK starts its propagation delay *)
    destruct Hk as [k1 k2 k3 k4 k5 k6 k7]. unfold popped in *; lproj.
    assert (Ea : entry_w lc (l_now st) (ae_time a) (ae_ev a)) by (inversion We; assumption). rewrite Hev in Ea. cbn [entry_w] in Ea.
    constructor; rewrite ?k1, ?k4, ?Hwd, ?Hwa; auto.
    + eapply AddsT_ent; [exact HA'|exact EntR|]. constructor; [|constructor]. cbn [fst snd entry_w].
      rewrite nq_eq. split; lra.
    + eapply WD_0; [exact WDs|exact HA'| | |]; rewrite Hev; cbn; try reflexivity. discriminate.
    + eapply WA_0; [exact WAt|exact HA'| | | |]; rewrite Hev; cbn; try reflexivity; try discriminate.
      intros x c [<-|[]] Hc; exact Hc.
  - (* a data packet reaches the sink *)
    assert (Ra : is_holdD (ae_ev a) = true /\ is_holdA (ae_ev a) = false /\ is_initA (ae_ev a) = false /\ is_putA (ae_ev a) = false).
    { destruct Hev as [->|[-> _]]; repeat split. }
    destruct Ra as (R1 & R2 & R3 & R4).
    constructor; rewrite ?Hnow, ?Hpkt; auto.
    + destruct (droppedA lc (l_n2 st)); destruct Hif as [_ HA'].
      * eapply AddsT_ent; [exact HA'|exact EntR|apply getD_news_ent].
      * eapply AddsT_ent; [exact HA'|exact EntR|]. constructor; [cbn [fst snd entry_w]; apply nq_le|apply getD_news_ent].
    + rewrite Hwd. destruct (droppedA lc (l_n2 st)); destruct Hif as [_ HA'].
      * eapply (WD_2 (ae_time a) a rest _ []); [exact WDs|exact HA'|reflexivity|reflexivity|right; right; exact R1].
      * eapply (WD_2 (ae_time a) a rest _ [(nq (ae_time a), AWirePutCb true)]); [exact WDs|exact HA'|reflexivity|reflexivity|right; right; exact R1].
    + destruct (droppedA lc (l_n2 st)); destruct Hif as [Hwa HA']; rewrite Hwa.
      * eapply WA_0; [exact WAt|exact HA'| | | |].
        -- rewrite getD_news_counts by auto. rewrite R2. reflexivity.
        -- rewrite getD_news_counts by auto. rewrite R3. reflexivity.
        -- rewrite R4. discriminate.
        -- intros x c Hx Hc. exfalso. unfold getD_eff in Hx. destruct (wd_items (l_wd st)); cbn [fst] in Hx; [destruct Hx|].
           destruct Hx as [<-|[]]. discriminate.
      * eapply WA_1; [exact WAt|exact HA'|reflexivity|exact R2|exact R3|exact R4| | | | |exact HeldLe].
        -- rewrite ncount_cons, getD_news_counts by auto. reflexivity.
        -- rewrite ncount_cons, getD_news_counts by auto. reflexivity.
        -- rewrite ncount_cons. cbn [snd is_putA b2n]. lia.
        -- intros x [<-|Hx]; [reflexivity|]. unfold getD_eff in Hx. destruct (wd_items (l_wd st)); cbn [fst] in Hx; [destruct Hx|].
           destruct Hx as [<-|[]]. reflexivity.
    + rewrite Hwd. apply Wst_get; assumption.
    + rewrite Hwd. apply wlen_get. exact Wlen0.
Qed.
End Wstep.

Lemma linit_W lc cw ss rtt0 orc : LInvW lc (linit cw ss rtt0 orc).
Proof.
  unfold linit. constructor; lproj.
  - apply Qle_refl.
  - intros id t c H. discriminate.
  - repeat constructor; cbn; apply Qle_refl.
  - constructor; cbn; [reflexivity|]. intros _ H. contradiction.
  - constructor; cbn; auto; try (intros _ H; contradiction);
      try (intros a c [<-|[<-|[<-|[]]]]; discriminate).
  - split; [apply Qle_refl|constructor].
  - reflexivity.
Qed.

Lemma reach_W lc cw ss rtt0 orc st :
  lc_ok lc -> (zq (mss (lc_cfg lc)) <= cw)%Q -> (0 < rtt0)%Q ->
  lreach lc (linit cw ss rtt0 orc) st -> LInvW lc st.
Proof.
  intros Hok Hc Hr. induction 1 as [|st st' Hreach IH Hstep]; [apply linit_W|].
  pose proof (reach_A lc cw ss rtt0 orc st Hok Hc Hr Hreach) as HA.
  pose proof Hstep as Hs. unfold lstep in Hs. destruct (l_agenda st) as [|a rest] eqn:E; [discriminate|]. clear Hs.
  eapply LInvW_step; eauto; [apply Hok|]. eapply lstep_Tr; eauto. apply Hok.
Qed.
