(* Proofs about Tcp/AppSender.v: the send guard, the numbering and the window law hold for the sender
   with the Flow's application process (arrival_dist / size_dist / size / start_time / finish_time). *)
From Coq Require Import ZArith QArith Qabs Qminmax List Bool Lia Lqa.
From ONL Require Import Tcp.Sender Tcp.SenderProofs Tcp.AppSender.
Import ListNotations.
Open Scope Z_scope.

(* what one resumption of run() does, whatever it fetches from the application in between:
   n >= 0 MSS-sized, consecutively numbered segments, each inside the window in force NOW;
   nothing of the congestion state moves *)
Definition arun_spec (c : config) (s s' : sender) (acc outs : list out) : Prop :=
  exists n : nat,
    outs = acc ++ segs (mss c) (next_seq s) n (rto s) /\
    next_seq s' = next_seq s + Z.of_nat n * mss c /\
    timers s' = timers s ++ map (fun i => (i, rto s)) (seg_ids (mss c) (next_seq s) n) /\
    sent s' = sent s ++ seg_ids (mss c) (next_seq s) n /\
    (forall k : nat, (k < n)%nat -> (zq (next_seq s + Z.of_nat k * mss c + mss c) <= zq (last_ack s) + cwnd s)%Q) /\
    last_ack s' = last_ack s /\ dupack s' = dupack s /\ cwnd s' = cwnd s /\ ssthresh s' = ssthresh s /\
    srtt s' = srtt s /\ rttvar s' = rttvar s /\ rto s' = rto s /\ cwnd_cnt s' = cwnd_cnt s /\ cnt s' = cnt s /\
    pend s' = pend s.

Lemma arun_spec_refl c s acc : arun_spec c s s acc acc.
Proof.
  exists O. cbn [segs seg_ids map Z.of_nat]. rewrite !app_nil_r. repeat split; try reflexivity; try lia.
Qed.

Lemma arun_sound ac (Hm : 0 < mss (ac_cfg ac)) : forall fuel now m s a acc s' a' outs,
  arun fuel ac now m s a acc = AOk s' a' outs -> arun_spec (ac_cfg ac) s s' acc outs.
Proof.
  set (c := ac_cfg ac) in *.
  induction fuel as [|f IH]; intros now m s a acc s' a' outs; cbn [arun]; [discriminate|]. fold c.
  destruct m.
  - (* MOuter *)
    destruct (match ac_finish ac with Some ft => Qle_bool ft now | None => false end).
    { intros H; injection H as <- _ <-. exists O. cbn [segs seg_ids map Z.of_nat]. rewrite !app_nil_r. unfold finish_run; proj.
      repeat split; try reflexivity; try lia. }
    destruct (negb (fsize c =? 0) && (fsize c <=? next_seq s)).
    { intros H; injection H as <- _ <-. exists O. cbn [segs seg_ids map Z.of_nat]. rewrite !app_nil_r. unfold finish_run; proj.
      repeat split; try reflexivity; try lia. }
    apply IH.
  - (* MInner *)
    destruct (send_buffer s <=? next_seq s).
    + destruct (ac_arr ac) as [[l dflt]|]; [|apply IH].
      destruct (Qltb 0 _); [|apply IH].
      intros H; injection H as <- _ <-. apply arun_spec_refl.
    + destruct (guard c s (send_buffer s)) eqn:Eg.
      * destruct (Qle_bool (rto s) 0); [discriminate|]. intros H. apply IH in H.
        destruct H as (n & Ho & Hns & Ht & Hse & Hall & Hrest). proj.
        exists (S n). split; [|split; [|split; [|split; [|split]]]].
        -- rewrite Ho. cbn [segs]. rewrite <- app_assoc. reflexivity.
        -- rewrite Hns. lia.
        -- rewrite Ht. cbn [seg_ids map]. rewrite <- app_assoc. reflexivity.
        -- rewrite Hse. cbn [seg_ids]. rewrite <- app_assoc. reflexivity.
        -- intros k Hk. destruct k as [|k].
           ++ cbn [Z.of_nat]. replace (next_seq s + 0 * mss c + mss c) with (next_seq s + mss c) by lia.
              unfold guard in Eg. apply Qle_bool_true in Eg. eapply Qle_trans; [exact Eg|apply Q.le_min_r].
           ++ specialize (Hall k ltac:(lia)).
              replace (next_seq s + Z.of_nat (S k) * mss c + mss c) with (next_seq s + mss c + Z.of_nat k * mss c + mss c) by lia.
              exact Hall.
        -- exact Hrest.
      * intros H. destruct (tokens s); injection H as <- _ <-;
          (exists O; cbn [segs seg_ids map Z.of_nat]; rewrite !app_nil_r; proj; repeat split; try reflexivity; try lia).
  - (* MAfterArrival: only send_buffer moves *)
    destruct (ac_siz ac) as [[l dflt]|]; intros H; apply IH in H;
      destruct H as (n & Ho & Hns & Ht & Hse & Hall & Hrest); unfold set_buffer in *; proj; exists n; auto 10.
Qed.

(* the sleeping / blocked / finished flags do not matter for the spec: entry points of astep *)
Theorem app_send_guard fx fuel ac s a e s' a' outs :
  0 < mss (ac_cfg ac) -> (exists now, e = AWake now \/ e = AAppWake now) ->
  astep fx fuel ac s a e = AOk s' a' outs ->
  arun_spec (ac_cfg ac) (set_store s (tokens s) (pend s) false false) s' [] outs.
Proof.
  intros Hm (now & [-> | ->]); cbn [astep].
  - destruct (wake s && negb (finished s) && _); [|discriminate].
    destruct (ap_started a); [apply arun_sound; exact Hm|].
    destruct (Qeq_bool (ac_start ac) 0); [apply arun_sound; exact Hm|].
    intros H; injection H as <- _ <-. apply arun_spec_refl.
  - destruct (ap_sleep a) as [[isapp due]|]; [|discriminate].
    destruct (Qeq_bool due now && negb (finished s)); [|discriminate].
    destruct isapp; intros H; apply arun_sound in H; auto;
      destruct H as (n & H); exists n; proj; exact H.
Qed.

(* hence: whenever a resumption emits, the new data in flight fits the window in force at that instant *)
Theorem app_window_respected fx fuel ac s a e s' a' outs :
  0 < mss (ac_cfg ac) -> (exists now, e = AWake now \/ e = AAppWake now) ->
  astep fx fuel ac s a e = AOk s' a' outs -> next_seq s < next_seq s' ->
  (zq (next_seq s' - last_ack s) <= cwnd s)%Q /\ last_ack s' = last_ack s /\ cwnd s' = cwnd s.
Proof.
  intros Hm He H Hlt. apply app_send_guard in H; auto.
  destruct H as (n & _ & Hns & _ & _ & Hall & Hla & _ & Hcw & _). proj.
  split; [|auto]. destruct n as [|n]; [lia|]. specialize (Hall n ltac:(lia)).
  rewrite Hns. replace (next_seq s + Z.of_nat (S n) * mss (ac_cfg ac) - last_ack s)
    with (next_seq s + Z.of_nat n * mss (ac_cfg ac) + mss (ac_cfg ac) - last_ack s) by lia.
  unfold Z.sub. rewrite zq_add. unfold zq at 2. rewrite inject_Z_opp. fold (zq (last_ack s)). lra.
Qed.

(* ACKs, expiries and store callbacks are those of Tcp/Sender.v: every theorem about [step] applies *)
Theorem app_other_events fx fuel ac s a e :
  e <> EWake ->
  astep fx fuel ac s a (AEv e) = match step fx (ac_cfg ac) s e with Ok s' o => AOk s' a o | Raise x => ARaise x end.
Proof. intros H. destruct e; try reflexivity. contradiction. Qed.

(* ---- buffered data: writes are non-negative, so send_buffer only grows and every emitted segment
   lies inside the data buffered by the end of the resumption (a fortiori at its own moment:
   the guard next_seq + MSS <= send_buffer held then) ---- *)
Definition fetch_ok (ac : acfg) (s : sender) : Prop :=
  match ac_siz ac with
  | Some (l, d) => Forall (fun z => 0 <= z) l /\ 0 <= d
  | None => fsize (ac_cfg ac) = 0 \/ (send_buffer s <= fsize (ac_cfg ac) /\ next_seq s <= fsize (ac_cfg ac))
  end.

Lemma nth_nonneg (l : list Z) d i : Forall (fun z => 0 <= z) l -> 0 <= d -> 0 <= nth i l d.
Proof.
  intros F Hd. destruct (nth_in_or_default i l d) as [H|H]; [|rewrite H; exact Hd].
  rewrite Forall_forall in F. apply F, H.
Qed.

Lemma arun_buffer ac (Hm : 0 < mss (ac_cfg ac)) : forall fuel now m s a acc s' a' outs,
  fetch_ok ac s -> (m = MAfterArrival -> send_buffer s <= next_seq s) ->
  arun fuel ac now m s a acc = AOk s' a' outs ->
  send_buffer s <= send_buffer s' /\ fetch_ok ac s' /\
  (forall i z, In (Tx i z) outs -> In (Tx i z) acc \/ i + mss (ac_cfg ac) <= send_buffer s').
Proof.
  induction fuel as [|f IH]; intros now m s a acc s' a' outs Hf Hmode; cbn [arun]; [discriminate|].
  destruct m.
  - destruct (match ac_finish ac with Some ft => Qle_bool ft now | None => false end).
    { intros H; injection H as <- _ <-. unfold finish_run, fetch_ok in *; proj. split; [lia|]. split; [exact Hf|auto]. }
    destruct (negb (fsize (ac_cfg ac) =? 0) && (fsize (ac_cfg ac) <=? next_seq s)).
    { intros H; injection H as <- _ <-. unfold finish_run, fetch_ok in *; proj. split; [lia|]. split; [exact Hf|auto]. }
    apply IH; [exact Hf|discriminate].
  - destruct (send_buffer s <=? next_seq s) eqn:Eb.
    + apply Z.leb_le in Eb.
      destruct (ac_arr ac) as [[l dflt]|]; [|apply IH; auto].
      destruct (Qltb 0 _); [|apply IH; auto].
      intros H; injection H as <- _ <-. split; [lia|]. split; [exact Hf|auto].
    + apply Z.leb_gt in Eb. destruct (guard (ac_cfg ac) s (send_buffer s)) eqn:Eg.
      * destruct (Qle_bool (rto s) 0); [discriminate|]. intros H.
        unfold guard in Eg. apply Qle_bool_true in Eg.
        assert (H1 : (zq (next_seq s + mss (ac_cfg ac)) <= zq (send_buffer s))%Q) by (eapply Qle_trans; [exact Eg|apply Q.le_min_l]).
        unfold zq in H1. rewrite <- Zle_Qle in H1.
        apply IH in H; [|unfold fetch_ok in *; proj; destruct (ac_siz ac) as [[l d]|]; [exact Hf|destruct Hf as [Hf|[A B]]; [left; exact Hf|right; lia]]|discriminate].
        proj. destruct H as (A & B & C). split; [exact A|]. split; [exact B|].
        intros i z Hin. destruct (C i z Hin) as [Hacc|Hle]; [|right; exact Hle].
        apply in_app_or in Hacc as [Hacc|[E|[E|[]]]]; [left; exact Hacc| |discriminate].
        injection E as <- _. right. lia.
      * intros H. destruct (tokens s); injection H as <- _ <-; unfold fetch_ok in *; proj; (split; [lia|]); (split; [exact Hf|auto]).
  - specialize (Hmode eq_refl). unfold fetch_ok in Hf.
    destruct (ac_siz ac) as [[l dflt]|] eqn:Es.
    + destruct Hf as [Fl Fd]. pose proof (nth_nonneg l dflt (ap_si a) Fl Fd) as Hn. intros H.
      apply IH in H; [|unfold fetch_ok, set_buffer; proj; rewrite Es; auto|discriminate].
      unfold set_buffer in H; proj. destruct H as (A & B & C). split; [lia|]. split; [exact B|exact C].
    + intros H.
      assert (Hp : 0 <= psize (ac_cfg ac) (next_seq s) /\ (fsize (ac_cfg ac) = 0 \/ send_buffer s + psize (ac_cfg ac) (next_seq s) <= fsize (ac_cfg ac))).
      { unfold psize. destruct Hf as [Hf|[A B]]; [rewrite Hf; cbn [Z.eqb]; split; [lia|left; reflexivity]|].
        destruct (fsize (ac_cfg ac) =? 0) eqn:E0; [apply Z.eqb_eq in E0; split; [lia|left; exact E0]|]. split; [lia|right; lia]. }
      destruct Hp as [Hp0 Hp1].
      apply IH in H; [|unfold fetch_ok, set_buffer; proj; rewrite Es; destruct Hf as [Hf|[_ B]]; [left; exact Hf|destruct Hp1 as [Z0|Hle]; [left; exact Z0|right; split; [exact Hle|exact B]]]|discriminate].
      unfold set_buffer in H; proj. destruct H as (A & B & C). split; [lia|]. split; [exact B|exact C].
Qed.

Theorem app_buffer_respected fx fuel ac s a e s' a' outs :
  0 < mss (ac_cfg ac) -> (exists now, e = AWake now \/ e = AAppWake now) ->
  fetch_ok ac s -> (forall d, ap_sleep a = Some (true, d) -> send_buffer s <= next_seq s) ->
  astep fx fuel ac s a e = AOk s' a' outs ->
  send_buffer s <= send_buffer s' /\ fetch_ok ac s' /\
  (forall i z, In (Tx i z) outs -> i + mss (ac_cfg ac) <= send_buffer s').
Proof.
  intros Hm (now & [-> | ->]) Hf Hs; cbn [astep].
  - destruct (wake s && negb (finished s) && _); [|discriminate].
    assert (G : forall a0 s'0 a'0 o0, arun fuel ac now MOuter (set_store s (tokens s) (pend s) false false) a0 [] = AOk s'0 a'0 o0 ->
                send_buffer s <= send_buffer s'0 /\ fetch_ok ac s'0 /\ (forall i z, In (Tx i z) o0 -> i + mss (ac_cfg ac) <= send_buffer s'0)).
    { intros a0 s0 a1 o0 H. apply arun_buffer in H; auto; [|discriminate]. proj. destruct H as (A & B & C).
      split; [exact A|]. split; [exact B|]. intros i z Hin. destruct (C i z Hin) as [[]|H]; exact H. }
    destruct (ap_started a); [apply G|]. destruct (Qeq_bool (ac_start ac) 0); [apply G|].
    intros H; injection H as <- _ <-. proj. split; [lia|]. split; [exact Hf|intros i z []].
  - destruct (ap_sleep a) as [[isapp due]|] eqn:Esl; [|discriminate].
    destruct (Qeq_bool due now && negb (finished s)); [|discriminate].
    destruct isapp; intros H; apply arun_buffer in H; auto; try discriminate.
    + destruct H as (A & B & C). split; [exact A|]. split; [exact B|]. intros i z Hin. destruct (C i z Hin) as [[]|H]; exact H.
    + intros _. eapply Hs; eauto.
    + destruct H as (A & B & C). split; [exact A|]. split; [exact B|]. intros i z Hin. destruct (C i z Hin) as [[]|H]; exact H.
Qed.

(* a trailing partial segment: with less than one MSS buffered beyond next_seq nothing is sent; run()
   waits on its store (and is not finished: a flow whose size is not a multiple of the MSS never
   completes, the tail is never transmitted) *)
Theorem app_partial_tail_waits ac fuel now s a acc :
  match ac_finish ac with Some ft => (now < ft)%Q | None => True end ->
  fsize (ac_cfg ac) = 0 \/ next_seq s < fsize (ac_cfg ac) ->
  next_seq s < send_buffer s < next_seq s + mss (ac_cfg ac) ->
  arun (S (S fuel)) ac now MOuter s a acc =
  AOk (match tokens s with S tk => set_store s tk (pend s) false true | O => set_store s O (pend s) true false end) a acc.
Proof.
  intros Hfin Hsz [H1 H2]. cbn [arun].
  assert (E1 : match ac_finish ac with Some ft => Qle_bool ft now | None => false end = false).
  { destruct (ac_finish ac) as [ft|]; [|reflexivity]. apply Qle_bool_false. exact Hfin. }
  rewrite E1.
  assert (E2 : negb (fsize (ac_cfg ac) =? 0) && (fsize (ac_cfg ac) <=? next_seq s) = false).
  { destruct Hsz as [Z0|Hlt]; [rewrite Z0; reflexivity|]. apply andb_false_iff. right. apply Z.leb_gt. exact Hlt. }
  rewrite E2.
  replace (send_buffer s <=? next_seq s) with false by (symmetry; apply Z.leb_gt; lia).
  assert (E3 : guard (ac_cfg ac) s (send_buffer s) = false).
  { unfold guard. apply Qle_bool_false. eapply Qle_lt_trans; [apply Q.le_min_l|]. apply zq_lt. lia. }
  rewrite E3. destruct (tokens s); reflexivity.
Qed.

(* ... and it stays so: in such a state a resumption by the store changes neither next_seq nor
   send_buffer and emits nothing, and no other event moves them (only_wake_sends_new_data): a write that
   leaves 0 < send_buffer - next_seq < MSS stalls the flow for good *)
Theorem app_partial_buffer_is_permanent fx fuel ac s a now :
  match ac_finish ac with Some ft => (now < ft)%Q | None => True end ->
  fsize (ac_cfg ac) = 0 \/ next_seq s < fsize (ac_cfg ac) ->
  next_seq s < send_buffer s < next_seq s + mss (ac_cfg ac) ->
  wake s = true -> finished s = false -> ap_sleep a = None -> ap_started a = true ->
  exists s', astep fx (S (S fuel)) ac s a (AWake now) = AOk s' a [] /\
             next_seq s' = next_seq s /\ send_buffer s' = send_buffer s /\ finished s' = false.
Proof.
  intros Hfin Hsz Hb Hw Hf Hsl Hst. cbn [astep]. rewrite Hw, Hf, Hsl, Hst. cbn [andb negb].
  rewrite (app_partial_tail_waits ac fuel now (set_store s (tokens s) (pend s) false false) a []); auto.
  proj. destruct (tokens s); eexists; (split; [reflexivity|]); proj; auto.
Qed.

(* ------------------------------------------------------------------------------------------------ *)
(* No application configured: run() of the application layer IS on_wake of Tcp/Sender.v.

   plain ac: no arrival_dist, no size_dist, no finish_time, start_time 0 (flow.size is ac_cfg's fsize, as in
   Sender.v: 0 = unbounded, else psize caps the last write at size - next_seq).  Then, from any sender
   state s (no reachability hypothesis is needed) and any started application state without a pending
   sleep, a resumption of run() by the store computes exactly what Sender.on_wake computes — same successor
   state, same emissions, same error, and the application state is untouched — for every fuel above a
   bound.  The only structural difference between the two definitions is the fetch: send_loop takes
   `fill` (the whole `while next_seq >= send_buffer` as one function), arun takes one MInner/MAfterArrival
   round trip per write; arun_fill is that correspondence. *)

Definition plain (ac : acfg) : Prop :=
  ac_arr ac = None /\ ac_siz ac = None /\ ac_finish ac = None /\ Qeq_bool (ac_start ac) 0 = true.

Definition conv (a : app) (r : result) : aresult :=
  match r with Ok s o => AOk s a o | Raise x => ARaise x end.

Lemma set_buffer_idem s x y : set_buffer (set_buffer s x) y = set_buffer s y.
Proof. reflexivity. Qed.

Lemma set_buffer_same s : set_buffer s (send_buffer s) = s.
Proof. destruct s; reflexivity. Qed.

Lemma arun_fill ac now a acc : ac_arr ac = None -> ac_siz ac = None ->
  forall k s sb', fill k (next_seq s) (send_buffer s) (psize (ac_cfg ac) (next_seq s)) = Some sb' ->
  next_seq s < sb' /\
  exists j, forall f, arun (2 * j + f) ac now MInner s a acc = arun f ac now MInner (set_buffer s sb') a acc.
Proof.
  intros Ha Hs. induction k as [|k IH]; intros s sb' Hf; [discriminate|].
  cbn [fill] in Hf. destruct (send_buffer s <=? next_seq s) eqn:E.
  - specialize (IH (set_buffer s (send_buffer s + psize (ac_cfg ac) (next_seq s))) sb').
    cbn [next_seq send_buffer set_buffer] in IH. destruct (IH Hf) as [Hlt [j Hj]]. split; [exact Hlt|].
    exists (S j). intros f. replace (2 * S j + f)%nat with (S (S (2 * j + f))) by lia.
    cbn [arun]. rewrite E, Ha, Hs. rewrite Hj. rewrite set_buffer_idem. reflexivity.
  - injection Hf as <-. apply Z.leb_gt in E. split; [exact E|]. exists O. intros f.
    rewrite set_buffer_same. reflexivity.
Qed.

Lemma arun_plain_send_loop ac now a : ac_arr ac = None -> ac_siz ac = None -> ac_finish ac = None ->
  forall fw s acc, send_loop fw (ac_cfg ac) s acc <> Raise OutOfFuel ->
  exists fa, forall extra, arun (fa + extra) ac now MOuter s a acc = conv a (send_loop fw (ac_cfg ac) s acc).
Proof.
  intros Ha Hs Hfin. induction fw as [|fw IH]; intros s acc Hne; [exfalso; apply Hne; reflexivity|].
  cbn [send_loop] in *.
  destruct (negb (fsize (ac_cfg ac) =? 0) && (fsize (ac_cfg ac) <=? next_seq s)) eqn:Efin.
  - exists 1%nat. intros extra. cbn [Nat.add arun]. rewrite Hfin, Efin. reflexivity.
  - destruct (fill (S (S (Z.to_nat (next_seq s - send_buffer s)))) (next_seq s) (send_buffer s)
                (psize (ac_cfg ac) (next_seq s))) as [sb'|] eqn:Efill; [|exfalso; apply Hne; reflexivity].
    destruct (arun_fill ac now a acc Ha Hs _ s sb' Efill) as [Hlt [j Hj]].
    assert (Eg : guard (ac_cfg ac) (set_buffer s sb') (send_buffer (set_buffer s sb')) = guard (ac_cfg ac) s sb')
      by reflexivity.
    assert (Eb : (send_buffer (set_buffer s sb') <=? next_seq (set_buffer s sb')) = false)
      by (cbn [send_buffer next_seq set_buffer]; apply Z.leb_gt; exact Hlt).
    destruct (guard (ac_cfg ac) s sb') eqn:G.
    + destruct (Qle_bool (rto s) 0) eqn:Er.
      * exists (S (2 * j + 1))%nat. intros extra.
        replace (S (2 * j + 1) + extra)%nat with (S (2 * j + S extra)) by lia.
        cbn [arun]. rewrite Hfin, Efin, Hj. cbn [arun]. rewrite Eb, Eg.
        cbn [rto set_buffer]. rewrite Er. reflexivity.
      * destruct (IH _ _ Hne) as [fa Hfa].
        exists (S (2 * j + S fa))%nat. intros extra.
        replace (S (2 * j + S fa) + extra)%nat with (S (2 * j + S (fa + extra))) by lia.
        cbn [arun]. rewrite Hfin, Efin, Hj. cbn [arun]. rewrite Eb, Eg.
        cbn [rto set_buffer]. rewrite Er. exact (Hfa extra).
    + exists (S (2 * j + 1))%nat. intros extra.
      replace (S (2 * j + 1) + extra)%nat with (S (2 * j + S extra)) by lia.
      cbn [arun]. rewrite Hfin, Efin, Hj. cbn [arun]. rewrite Eb, Eg.
      destruct (tokens s) eqn:Et; cbn [tokens set_buffer]; rewrite Et; reflexivity.
Qed.

(* the application state after the start: unchanged but for the started flag *)
Definition started (a : app) : app := mkapp (ap_last a) None true (ap_ai a) (ap_si a).

Theorem app_plain_is_on_wake fx ac s a now :
  plain ac -> 0 < mss (ac_cfg ac) -> ap_sleep a = None ->
  exists fuel0, forall fuel, (fuel0 <= fuel)%nat ->
    astep fx fuel ac s a (AWake now) = conv (if ap_started a then a else started a) (on_wake (ac_cfg ac) s).
Proof.
  intros (Ha & Hs & Hfin & Hst) Hm Hsl.
  pose proof (wake_never_out_of_fuel (ac_cfg ac) s Hm) as Hne. unfold on_wake in *.
  cbn [astep]. rewrite Hsl, Hst, andb_true_r.
  destruct (wake s && negb (finished s)) eqn:E.
  - destruct (ap_started a).
    + destruct (arun_plain_send_loop ac now a Ha Hs Hfin _ _ _ Hne) as [fa Hfa].
      exists fa. intros fuel Hle. replace fuel with (fa + (fuel - fa))%nat by lia. apply Hfa.
    + destruct (arun_plain_send_loop ac now (started a) Ha Hs Hfin _ _ _ Hne) as [fa Hfa].
      exists fa. intros fuel Hle. replace fuel with (fa + (fuel - fa))%nat by lia. apply Hfa.
  - exists O. intros. destruct (ap_started a); reflexivity.
Qed.

(* the same with everything unfolded (the form stated in Props/C17.v) *)
Corollary app_plain_is_on_wake_explicit fx ac s a now :
  ac_arr ac = None -> ac_siz ac = None -> ac_finish ac = None -> Qeq_bool (ac_start ac) 0 = true ->
  0 < mss (ac_cfg ac) -> ap_sleep a = None ->
  exists fuel0, forall fuel, (fuel0 <= fuel)%nat ->
    astep fx fuel ac s a (AWake now) =
    match on_wake (ac_cfg ac) s with
    | Ok s' o => AOk s' (mkapp (ap_last a) None true (ap_ai a) (ap_si a)) o
    | Raise x => ARaise x
    end.
Proof.
  intros Ha Hs Hf Hst Hm Hsl.
  destruct (app_plain_is_on_wake fx ac s a now (conj Ha (conj Hs (conj Hf Hst))) Hm Hsl) as [f0 H].
  exists f0. intros fuel Hle. rewrite (H fuel Hle). unfold conv, started.
  destruct a as [l sl st ai si]; cbn in *. subst sl. destruct st; reflexivity.
Qed.
