(* Proofs about the repaired sender inside the closed loop of Tcp/Loop.v (C16, sender clauses).
   Part 1: the sender alone never raises (every dictionary lookup hits), for all event histories.
   Part 2: agenda lemmas.   Part 3: the loop never raises.
   Part 4: last_ack <= contiguous prefix at the sink <= next_seq; last_ack monotone.
   Part 5: an unfinished transfer always has pending work. *)
From Coq Require Import ZArith QArith Qabs Qround Qminmax List Bool Lia Lqa Arith.
From ONL Require Import Tcp.Sink Tcp.SinkProofs Tcp.Sender Tcp.SenderProofs Tcp.Loop.
Import ListNotations.
Open Scope Z_scope.

Definition repaired : fixes := mkfx true true true.

(* ================================================================================================ *)
(* Part 1: the sender alone *)

Definition keys (t : list (Z * Q)) : list Z := map fst t.

Record SInv (c : config) (s : sender) : Prop := {
  si_win : win_inv c s;
  si_keys : keys (timers s) = sent s;
  si_nodup : NoDup (sent s);
  si_below : Forall (fun i => i < next_seq s) (sent s);
  si_rto : (0 < rto s)%Q;
  si_srtt : (0 < srtt s)%Q;
  si_rttvar : (0 <= rttvar s)%Q;
  si_armed : Forall (fun p => (0 < snd p)%Q) (timers s);
  si_wake : wake s = true -> finished s = false /\ waiting s = false;
  si_waiting : waiting s = true -> finished s = false
}.

Lemma in_sent_In id l : in_sent id l = true <-> In id l.
Proof.
  unfold in_sent. rewrite existsb_exists. split.
  - intros (x & Hx & E). apply Z.eqb_eq in E. subst. exact Hx.
  - intros H. exists id. split; [exact H|apply Z.eqb_refl].
Qed.

Lemma has_timer_In id t : has_timer id t = true <-> In id (keys t).
Proof.
  induction t as [|[k r] t IH]; cbn [has_timer keys map In fst].
  - split; [discriminate|tauto].
  - rewrite orb_true_iff, IH, Z.eqb_eq. tauto.
Qed.

Definition mem (k : Z) (l : list Z) : bool := existsb (Z.eqb k) l.

Lemma filter_all_true {A : Type} (f : A -> bool) (l : list A) : (forall x, f x = true) -> filter f l = l.
Proof. intros H. induction l as [|x l IH]; cbn [filter]; [reflexivity|]. rewrite H, IH. reflexivity. Qed.

Lemma filter_twice {A : Type} (f g : A -> bool) (l : list A) : filter f (filter g l) = filter (fun x => g x && f x) l.
Proof.
  induction l as [|x l IH]; cbn [filter]; [reflexivity|].
  destruct (g x); cbn [filter andb]; [destruct (f x)|]; rewrite IH; reflexivity.
Qed.

Lemma mem_In k l : mem k l = true <-> In k l.
Proof. apply in_sent_In. Qed.

Lemma stop_all_filter ids : forall t se acc t' se' o,
  stop_all ids t se acc = Some (t', se', o) ->
  t' = filter (fun p => negb (mem (fst p) ids)) t /\ se' = filter (fun k => negb (mem k ids)) se /\
  o = acc ++ map TStop ids.
Proof.
  induction ids as [|id r IH]; intros t se acc t' se' o; cbn [stop_all].
  - intros H; injection H as <- <- <-. cbn [mem existsb negb map]. rewrite !filter_all_true, app_nil_r by reflexivity. auto.
  - destruct (in_sent id se); [|discriminate]. intros H. apply IH in H as (A & B & C).
    split; [|split].
    + rewrite A. unfold del_timer. rewrite filter_twice. apply filter_ext. intros p. cbn [mem existsb].
      rewrite negb_orb. rewrite (Z.eqb_sym (fst p) id). reflexivity.
    + rewrite B. unfold del_sent. rewrite filter_twice. apply filter_ext. intros k. cbn [mem existsb].
      rewrite negb_orb. rewrite (Z.eqb_sym k id). reflexivity.
    + rewrite C. rewrite <- app_assoc. reflexivity.
Qed.

Lemma stop_all_succeeds ids : forall t se acc,
  NoDup ids -> (forall id, In id ids -> In id se) -> exists r, stop_all ids t se acc = Some r.
Proof.
  induction ids as [|id r IH]; intros t se acc Hnd Hin; cbn [stop_all]; [eauto|].
  assert (E : in_sent id se = true) by (apply in_sent_In, Hin; left; reflexivity). rewrite E.
  inversion Hnd as [|? ? Hni Hnd']; subst. apply IH; [exact Hnd'|].
  intros k Hk. unfold del_sent. apply filter_In. split; [apply Hin; right; exact Hk|].
  apply negb_true_iff, Z.eqb_neq. intros ->. contradiction.
Qed.

Lemma keys_filter (f : Z -> bool) t : keys (filter (fun p => f (fst p)) t) = filter f (keys t).
Proof.
  unfold keys. induction t as [|[k r] t IH]; cbn [filter map fst]; [reflexivity|].
  destruct (f k); cbn [map fst]; rewrite IH; reflexivity.
Qed.

Lemma NoDup_filter' {A : Type} (f : A -> bool) l : NoDup l -> NoDup (filter f l).
Proof.
  induction 1 as [|x l Hx Hl IH]; cbn [filter]; [constructor|].
  destruct (f x); [constructor; [|exact IH]|exact IH]. intros H. apply filter_In in H as [H _]. contradiction.
Qed.

Lemma keys_rearm id r t : keys (rearm id r t) = keys t.
Proof.
  unfold keys. induction t as [|[k x] t IH]; cbn [rearm map fst]; [reflexivity|].
  destruct (k =? id); cbn [map fst]; [reflexivity|rewrite IH; reflexivity].
Qed.

Lemma rearm_armed id r t : (0 < r)%Q -> Forall (fun p => (0 < snd p)%Q) t -> Forall (fun p => (0 < snd p)%Q) (rearm id r t).
Proof.
  intros Hr. induction 1 as [|[k x] t Hx Ht IH]; cbn [rearm]; [constructor|].
  destruct (k =? id); constructor; auto.
Qed.

(* ---- the shape of each sender transition ---- *)

Definition new_ack_post (fx : fixes) (c : config) (s s' : sender) (ackno pid : Z) (sample : Q) (outs : list out) : Prop :=
  let ids := acked_ids fx c s ackno pid in
  ackno <> last_ack s /\ last_ack s' = ackno /\ dupack s' = 0 /\
  timers s' = filter (fun p => negb (mem (fst p) ids)) (timers s) /\
  sent s' = filter (fun k => negb (mem k ids)) (sent s) /\
  outs = map TStop ids /\
  srtt s' = (srtt s + (1 # 8) * (sample - srtt s))%Q /\
  rttvar s' = (rttvar s + (1 # 4) * (Qabs (sample - srtt s) - rttvar s))%Q /\
  rto s' = (srtt s' + (4 # 1) * rttvar s')%Q /\
  tokens s' = S (tokens s) /\ pend s' = S (pend s).

Definition dup_ack_post (c : config) (s s' : sender) (ackno : Z) (outs : list out) : Prop :=
  ackno = last_ack s /\ last_ack s' = last_ack s /\ dupack s' = dupack s + 1 /\
  timers s' = timers s /\ sent s' = sent s /\ srtt s' = srtt s /\ rttvar s' = rttvar s /\ rto s' = rto s /\
  tokens s' = tokens s /\ pend s' = pend s /\
  (outs = [] \/ (outs = [Tx ackno (mss c)] /\ In ackno (sent s) /\ 3 <= dupack s')).

Lemma on_ack_shape fx c s ackno pid sample o s' outs :
  0 <= dupack s ->
  on_ack fx c s ackno pid sample o = Ok s' outs ->
  next_seq s' = next_seq s /\ send_buffer s' = send_buffer s /\ wake s' = wake s /\ waiting s' = waiting s /\
  finished s' = finished s /\
  (dup_ack_post c s s' ackno outs \/ new_ack_post fx c s s' ackno pid sample outs).
Proof.
  intros Hd. unfold on_ack. destruct (ackno =? last_ack s) eqn:Ea.
  - apply Z.eqb_eq in Ea. proj.
    assert (R : forall s2 o2, resend fx c s2 ackno = Some o2 -> sent s2 = sent s -> o2 = [] \/ (o2 = [Tx ackno (mss c)] /\ In ackno (sent s))).
    { intros s2 o2 H Hs. unfold resend in H. rewrite Hs in H. destruct (in_sent ackno (sent s)) eqn:E.
      - injection H as <-. right. split; [reflexivity|apply in_sent_In; exact E].
      - destruct (fx_guard_resend fx); [injection H as <-; left; reflexivity|discriminate]. }
    destruct (dupack s + 1 =? 3) eqn:E3.
    + apply Z.eqb_eq in E3. destruct (resend _ _ _ _) as [o2|] eqn:Er; [|discriminate].
      intros H; injection H as <- <-. proj. repeat split; try reflexivity. left. unfold dup_ack_post; proj.
      repeat split; try reflexivity; try exact Ea.
      apply R in Er; [|reflexivity]. destruct Er as [->|[-> Hi]]; [left; reflexivity|right; repeat split; auto; lia].
    + destruct (3 <? dupack s + 1) eqn:E4.
      * apply Z.ltb_lt in E4. destruct (Qle_bool _ _).
        -- destruct (resend _ _ _ _) as [o2|] eqn:Er; [|discriminate].
           intros H; injection H as <- <-. proj. repeat split; try reflexivity. left. unfold dup_ack_post; proj.
           repeat split; try reflexivity; try exact Ea.
           apply R in Er; [|reflexivity]. destruct Er as [->|[-> Hi]]; [left; reflexivity|right; repeat split; auto; lia].
        -- intros H; injection H as <- <-. proj. repeat split; try reflexivity. left. unfold dup_ack_post; proj.
           repeat split; try reflexivity; try exact Ea. left; reflexivity.
      * destruct (dupack s + 1 =? 0) eqn:E0; [apply Z.eqb_eq in E0; lia|].
        intros H; injection H as <- <-. proj. repeat split; try reflexivity. left. unfold dup_ack_post; proj.
        repeat split; try reflexivity; try exact Ea. left; reflexivity.
  - apply Z.eqb_neq in Ea. set (s1 := if 0 <? dupack s then _ else s).
    assert (H1 : dupack s1 = 0 /\ next_seq s1 = next_seq s /\ send_buffer s1 = send_buffer s /\ wake s1 = wake s /\
                 waiting s1 = waiting s /\ finished s1 = finished s /\ timers s1 = timers s /\ sent s1 = sent s /\
                 srtt s1 = srtt s /\ rttvar s1 = rttvar s /\ tokens s1 = tokens s /\ pend s1 = pend s).
    { subst s1. destruct (0 <? dupack s) eqn:E0; proj; [repeat split; reflexivity|].
      apply Z.ltb_ge in E0. repeat split; try reflexivity. lia. }
    destruct H1 as (D1 & N1 & B1 & W1 & T1 & F1 & TM1 & SE1 & SR1 & RV1 & TK1 & PD1).
    rewrite D1. cbn [Z.eqb Z.ltb Z.compare].
    destruct (cc_ack c (cwnd s1) (ssthresh s1) (cwnd_cnt s1) (cnt s1) o) as [[[cw ccnt] cn]|]; [|discriminate].
    destruct (stop_all _ _ _ _) as [[[t se] oo]|] eqn:Est; [|discriminate].
    intros H; injection H as <- <-. proj. rewrite N1, B1, W1, T1, F1.
    repeat split; try reflexivity. right. unfold new_ack_post; proj.
    apply stop_all_filter in Est as (A & B & C).
    assert (Eids : acked_ids fx c s1 ackno pid = acked_ids fx c s ackno pid) by (unfold acked_ids; rewrite TM1; reflexivity).
    rewrite Eids in *. rewrite TM1 in A. rewrite SE1 in B. rewrite SR1, RV1, TK1, PD1.
    repeat split; try reflexivity; try assumption.
Qed.

Lemma on_timer_shape fx c s id s' outs :
  on_timer fx c s id = Ok s' outs ->
  In id (keys (timers s)) /\
  s' = mkst (next_seq s) (send_buffer s) (last_ack s) (dupack s) (zq (mss c)) (ssthresh s)
            (srtt s) (rttvar s) (rto s * (2 # 1))%Q (cwnd_cnt s) (cnt s)
            (rearm id (rto s * (2 # 1))%Q (timers s)) (sent s)
            (tokens s) (pend s) (waiting s) (wake s) (finished s) /\
  (outs = [TRestart id (rto s * (2 # 1))%Q] \/
   (outs = [Tx id (mss c); TRestart id (rto s * (2 # 1))%Q] /\ In id (sent s))).
Proof.
  unfold on_timer. destruct (has_timer id (timers s)) eqn:Eh; cbn [negb]; [|discriminate].
  apply has_timer_In in Eh. unfold resend. proj.
  destruct (in_sent id (sent s)) eqn:Es.
  - intros H; injection H as <- <-. split; [exact Eh|]. split; [reflexivity|]. right. split; [reflexivity|apply in_sent_In; exact Es].
  - destruct (fx_guard_resend fx); [|discriminate]. intros H; injection H as <- <-. split; [exact Eh|]. split; [reflexivity|]. left. reflexivity.
Qed.

Lemma on_storecb_shape s s' outs :
  on_storecb s = Ok s' outs ->
  outs = [] /\ exists p, pend s = S p /\
  ((waiting s = true /\ (0 < tokens s)%nat /\ s' = set_store s (Nat.pred (tokens s)) p false true) \/
   ((waiting s = false \/ tokens s = O) /\ s' = set_store s (tokens s) p (waiting s) (wake s))).
Proof.
  unfold on_storecb. destruct (pend s) as [|p]; [discriminate|].
  destruct (waiting s) eqn:Ew; [destruct (tokens s) as [|tk] eqn:Et|]; intros H; injection H as <- <-; split; try reflexivity; exists p; split; try reflexivity.
  - right. split; [right; reflexivity|reflexivity].
  - left. split; [reflexivity|]. split; [lia|reflexivity].
  - right. split; [left; reflexivity|reflexivity].
Qed.

(* ---- the flags of the sender process after one resumption ---- *)
Lemma send_loop_flags c : forall fuel s acc s' outs,
  send_loop fuel c s acc = Ok s' outs ->
  pend s' = pend s /\
  ((finished s' = true /\ wake s' = false /\ waiting s' = false /\ tokens s' = tokens s) \/
   (finished s' = finished s /\
    ((wake s' = true /\ waiting s' = false /\ S (tokens s') = tokens s) \/
     (wake s' = false /\ waiting s' = true /\ tokens s' = O /\ tokens s = O)))).
Proof.
  induction fuel as [|f IH]; intros s acc s' outs; cbn [send_loop]; [discriminate|].
  destruct (negb (fsize c =? 0) && (fsize c <=? next_seq s)).
  - intros H; injection H as <- _. proj. split; [reflexivity|]. left. repeat split; reflexivity.
  - destruct (fill _ _ _ _) as [sb|]; [|discriminate]. destruct (guard c s sb).
    + destruct (Qle_bool (rto s) 0); [discriminate|]. intros H. apply IH in H. proj. exact H.
    + destruct (tokens s) as [|tk] eqn:Et; intros H; injection H as <- _; proj; (split; [reflexivity|]); right; (split; [reflexivity|]).
      * right. repeat split; reflexivity.
      * left. repeat split; reflexivity.
Qed.

Lemma send_loop_raises c : forall fuel s acc x,
  send_loop fuel c s acc = Raise x -> x = OutOfFuel \/ (x = TimerValue /\ (rto s <= 0)%Q).
Proof.
  induction fuel as [|f IH]; intros s acc x; cbn [send_loop]; [intros H; injection H as <-; left; reflexivity|].
  destruct (negb (fsize c =? 0) && (fsize c <=? next_seq s)); [discriminate|].
  destruct (fill _ _ _ _) as [sb|]; [|intros H; injection H as <-; left; reflexivity].
  destruct (guard c s sb).
  - destruct (Qle_bool (rto s) 0) eqn:Er.
    + intros H; injection H as <-. right. split; [reflexivity|apply Qle_bool_true; exact Er].
    + intros H. apply IH in H. proj. exact H.
  - destruct (tokens s); discriminate.
Qed.

Lemma seg_ids_In m id n i : In i (seg_ids m id n) -> exists k : nat, (k < n)%nat /\ i = id + Z.of_nat k * m.
Proof.
  revert id. induction n as [|n IH]; intros id; cbn [seg_ids In]; [tauto|].
  intros [<-|H].
  - exists O. split; [lia|]. cbn. lia.
  - apply IH in H as (k & Hk & ->). exists (S k). split; [lia|]. lia.
Qed.

Lemma seg_ids_NoDup m id n : 0 < m -> NoDup (seg_ids m id n).
Proof.
  intros Hm. revert id. induction n as [|n IH]; intros id; cbn [seg_ids]; constructor; [|apply IH].
  intros H. apply seg_ids_In in H as (k & _ & E). nia.
Qed.

Lemma NoDup_app_intro {A : Type} (a b : list A) :
  NoDup a -> NoDup b -> (forall x, In x a -> In x b -> False) -> NoDup (a ++ b).
Proof.
  induction a as [|x a IH]; intros Ha Hb Hd; cbn [app]; [exact Hb|].
  inversion Ha as [|? ? Hx Ha']; subst. constructor.
  - intros H. apply in_app_or in H as [H|H]; [contradiction|]. apply (Hd x); [left; reflexivity|exact H].
  - apply IH; auto. intros y Hy Hy'. apply (Hd y); [right; exact Hy|exact Hy'].
Qed.

Lemma keys_app a b : keys (a ++ b) = keys a ++ keys b.
Proof. unfold keys. apply map_app. Qed.

Lemma keys_map_pair (r : Q) l : keys (map (fun i => (i, r)) l) = l.
Proof. unfold keys. rewrite map_map. cbn [fst]. apply map_id. Qed.

(* ---- the invariant is preserved; nothing but NotEnabled can be raised ---- *)
Definition sample_ok (e : event) : Prop :=
  match e with EAck _ _ sample _ => (0 <= sample)%Q | _ => True end.

Lemma init_sinv c cw0 ss0 rtt0 : (zq (mss c) <= cw0)%Q -> (0 < rtt0)%Q -> SInv c (init cw0 ss0 rtt0).
Proof.
  intros Hc Hr. constructor; unfold init; proj.
  - apply init_win_inv. exact Hc.
  - reflexivity.
  - constructor.
  - constructor.
  - lra.
  - exact Hr.
  - lra.
  - constructor.
  - intros _. split; reflexivity.
  - discriminate.
Qed.

Lemma step_sinv c s e s' outs :
  0 < mss c -> SInv c s -> sample_ok e -> step repaired c s e = Ok s' outs -> SInv c s'.
Proof.
  intros Hm I Hs H.
  assert (W : win_inv c s') by (eapply step_win_inv; eauto; [reflexivity|apply I]).
  destruct I as [Iw Ik Ind Ib Ir Isr Irv Ia Iwk Iwt].
  destruct e as [ackno pid sample o|id| |]; cbn [step] in H.
  - (* ACK *)
    apply on_ack_shape in H; [|apply Iw]. destruct H as (N & B & Wk & Wt & F & [D|Nw]).
    + destruct D as (_ & _ & _ & T & S & SR & RV & R & _).
      constructor; rewrite ?T, ?S, ?SR, ?RV, ?R, ?N, ?Wk, ?Wt, ?F; auto.
    + destruct Nw as (_ & _ & _ & T & S & _ & SR & RV & R & _). cbn [sample_ok] in Hs.
      constructor; rewrite ?N, ?Wk, ?Wt, ?F; auto.
      * rewrite T, S. rewrite (keys_filter (fun k => negb (mem k (acked_ids repaired c s ackno pid)))). rewrite Ik. reflexivity.
      * rewrite S. apply NoDup_filter'. exact Ind.
      * rewrite S. apply Forall_forall. intros i Hi. apply filter_In in Hi as [Hi _]. rewrite Forall_forall in Ib. auto.
      * rewrite R, SR, RV. pose proof (Qabs_nonneg (sample - srtt s)). lra.
      * rewrite SR. lra.
      * rewrite RV. pose proof (Qabs_nonneg (sample - srtt s)). lra.
      * rewrite T. apply Forall_forall. intros p Hp. apply filter_In in Hp as [Hp _]. rewrite Forall_forall in Ia. auto.
  - (* expiry *)
    apply on_timer_shape in H as (_ & -> & _). constructor; proj; auto.
    + rewrite keys_rearm. exact Ik.
    + lra.
    + apply rearm_armed; [lra|exact Ia].
  - (* store callback *)
    apply on_storecb_shape in H as (_ & p & _ & [(Wt & _ & ->)|(_ & ->)]); constructor; proj; auto; try discriminate.
  - (* resumption *)
    pose proof H as H0. unfold on_wake in H0. destruct (wake s && negb (finished s)) eqn:Ew; [|discriminate].
    apply andb_true_iff in Ew as [Ew Ef]. apply negb_true_iff in Ef.
    apply send_loop_flags in H0 as (_ & Fl). proj.
    apply send_guard in H; [|exact Hm]. destruct H as (n & _ & Hns & Ht & Hse & _ & _ & _ & _ & _ & Hsr & Hrv & Hr & _). proj.
    constructor; auto.
    + rewrite Ht, Hse, keys_app, keys_map_pair, Ik. reflexivity.
    + rewrite Hse. apply NoDup_app_intro; [exact Ind|apply seg_ids_NoDup; exact Hm|].
      intros i Hi Hj. rewrite Forall_forall in Ib. specialize (Ib i Hi). apply seg_ids_In in Hj as (k & _ & ->). nia.
    + rewrite Hse, Hns. apply Forall_forall. intros i Hi. apply in_app_or in Hi as [Hi|Hi].
      * rewrite Forall_forall in Ib. specialize (Ib i Hi). nia.
      * apply seg_ids_In in Hi as (k & Hk & ->). nia.
    + rewrite Hr. exact Ir.
    + rewrite Hsr. exact Isr.
    + rewrite Hrv. exact Irv.
    + rewrite Ht. apply Forall_app. split; [exact Ia|]. apply Forall_forall. intros q Hq. apply in_map_iff in Hq as (i & <- & _). exact Ir.
    + intros Hw. destruct Fl as [(_ & Hw' & _)|(Hf & [(_ & Hwt & _)|(Hw' & _)])]; try congruence. split; [congruence|exact Hwt].
    + intros Hw. destruct Fl as [(_ & _ & Hw' & _)|(Hf & _)]; congruence.
Qed.

Lemma acked_ids_props c s ackno pid :
  keys (timers s) = sent s -> NoDup (sent s) ->
  NoDup (acked_ids repaired c s ackno pid) /\ (forall id, In id (acked_ids repaired c s ackno pid) -> In id (sent s)).
Proof.
  intros Hk Hn. unfold acked_ids, repaired; proj.
  change (map fst (filter (fun p => fst p + mss c <=? ackno) (timers s)))
    with (keys (filter (fun p => (fun k => k + mss c <=? ackno) (fst p)) (timers s))).
  rewrite keys_filter, Hk. split; [apply NoDup_filter'; exact Hn|].
  intros id H. apply filter_In in H as [H _]. exact H.
Qed.

Lemma step_no_raise c s e x :
  0 < mss c -> SInv c s -> step repaired c s e = Raise x -> x = NotEnabled.
Proof.
  intros Hm I. destruct I as [Iw Ik Ind Ib Ir Isr Irv Ia Iwk Iwt]. destruct Iw as (Hcw & Hd & Hss).
  assert (Hp : (0 < zq (mss c))%Q) by (apply (zq_lt 0); exact Hm).
  destruct e as [ackno pid sample o|id| |]; cbn [step].
  - unfold on_ack. cbn [fx_deflate3 repaired].
    set (s1 := if ackno =? last_ack s then _ else _).
    assert (H1 : timers s1 = timers s /\ sent s1 = sent s /\ (dupack s1 = 0 -> (zq (mss c) <= cwnd s1)%Q)).
    { subst s1. destruct (ackno =? last_ack s); [proj; auto|].
      destruct (0 <? dupack s) eqn:E0; [|auto]. proj. split; [reflexivity|]. split; [reflexivity|]. intros _.
      destruct (3 <=? dupack s) eqn:E3; [|exact Hcw]. apply Z.leb_le in E3. specialize (Hss E3).
      assert (zq (mss c) <= zq (2 * mss c))%Q by (apply zq_2m_ge; exact Hm). lra. }
    destruct H1 as (T1 & S1 & C1).
    assert (R : forall s2, resend repaired c s2 ackno <> None).
    { intros s2. unfold resend, repaired; proj. destruct (in_sent ackno (sent s2)); discriminate. }
    destruct (dupack s1 =? 3).
    { destruct (resend _ _ _ _) eqn:Er; [discriminate|]. exfalso. eapply R; eauto. }
    destruct (3 <? dupack s1).
    { destruct (Qle_bool _ _); [|discriminate]. destruct (resend _ _ _ _) eqn:Er; [discriminate|]. exfalso. eapply R; eauto. }
    destruct (dupack s1 =? 0) eqn:E0; [|discriminate]. apply Z.eqb_eq in E0. specialize (C1 E0).
    destruct (cc_ack c (cwnd s1) (ssthresh s1) (cwnd_cnt s1) (cnt s1) o) as [[[cw ccnt] cn]|] eqn:Ecc.
    + destruct (acked_ids_props c s ackno pid Ik Ind) as [An Ai].
      assert (Eids : acked_ids repaired c s1 ackno pid = acked_ids repaired c s ackno pid) by (unfold acked_ids; rewrite T1; reflexivity).
      rewrite Eids, S1.
      destruct (stop_all_succeeds _ (timers s1) (sent s) [] An Ai) as [[[t se] oo] Est]. rewrite Est. discriminate.
    + exfalso. unfold cc_ack in Ecc. destruct (Qle_bool (cwnd s1) (ssthresh s1)); [discriminate|].
      destruct (calg c); [|destruct (Qltb o (zq (cwnd_cnt s1))); discriminate].
      destruct (Qeq_bool (cwnd s1) 0) eqn:Ez; [apply Qeq_bool_iff in Ez; lra|discriminate].
  - unfold on_timer. destruct (negb _); [intros H; injection H as <-; reflexivity|].
    unfold resend, repaired; proj. destruct (in_sent id (sent s)); discriminate.
  - unfold on_storecb. destruct (pend s); [intros H; injection H as <-; reflexivity|].
    destruct (waiting s); [destruct (tokens s)|]; discriminate.
  - intros H. pose proof (wake_never_out_of_fuel c s Hm) as NF.
    unfold on_wake in *. destruct (wake s && negb (finished s)); [|injection H as <-; reflexivity].
    pose proof H as H2. apply send_loop_raises in H2 as [->|[-> Hr]]; [exfalso; exact (NF H)|]. proj. lra.
Qed.

(* all histories with non-negative RTT samples: the repaired sender never raises; what remains is the
   model-level NotEnabled for an event that cannot occur in the state *)
Theorem sender_never_raises c cw0 ss0 rtt0 : 0 < mss c -> (zq (mss c) <= cw0)%Q -> (0 < rtt0)%Q ->
  forall evs x, Forall sample_ok evs -> run repaired c (init cw0 ss0 rtt0) evs = Raise x -> x = NotEnabled.
Proof.
  intros Hm Hc Hr evs. generalize (init_sinv c cw0 ss0 rtt0 Hc Hr). generalize (init cw0 ss0 rtt0) as s.
  induction evs as [|e evs IH]; intros s I x Hs; cbn [run]; [discriminate|].
  inversion Hs as [|? ? He Hs']; subst.
  destruct (step repaired c s e) as [s1 o1|y] eqn:E1.
  - destruct (run repaired c s1 evs) as [s2 o2|y] eqn:E2; [discriminate|].
    intros H; injection H as <-. eapply IH; [|exact Hs'|exact E2]. eapply step_sinv; eauto.
  - intros H; injection H as <-. eapply step_no_raise; eauto.
Qed.

(* before the repairs: the third duplicate of the final ACK raises KeyError (nothing in flight at next_seq) *)
Theorem sender_raises_before_fix :
  exists c evs, Forall sample_ok evs /\
    run (mkfx true false false) c (init (1024 # 1) (65535 # 1) (1 # 16)) evs = Raise (KeyErr 512).
Proof.
  exists (mkcfg 512 512 Reno),
    [EWake; EExpire 0; EExpire 0; EExpire 0; EAck 512 0 (5 # 8) 0; EStoreCb;
     EAck 512 0 (1 # 2) 0; EAck 512 0 1 0; EAck 512 0 1 0].
  split; [repeat constructor; cbn; unfold Qle; cbn; lia|vm_compute; reflexivity].
Qed.

(* ================================================================================================ *)
(* Part 2: the agenda *)

Definition acount (p : aev -> bool) (l : list aentry) : nat := length (filter (fun a => p (ae_ev a)) l).
Definition afuture (now : Q) (l : list aentry) : Prop := Forall (fun a => (now <= ae_time a)%Q) l.
Fixpoint asorted (l : list aentry) : Prop :=
  match l with [] => True | a :: t => Forall (fun b => (ae_time a <= ae_time b)%Q) t /\ asorted t end.

Lemma ainsert_In a e l : In a (ainsert e l) <-> a = e \/ In a l.
Proof.
  induction l as [|x t IH]; cbn [ainsert In].
  - split; [intros [H|[]]; auto|intros [H|[]]; auto].
  - destruct (ae_before e x); cbn [In]; [|rewrite IH]; intuition.
Qed.

Lemma ainsert_count p e l : acount p (ainsert e l) = ((if p (ae_ev e) then 1 else 0) + acount p l)%nat.
Proof.
  unfold acount. induction l as [|x t IH]; cbn [ainsert filter length].
  - destruct (p (ae_ev e)); reflexivity.
  - destruct (ae_before e x); cbn [filter].
    + destruct (p (ae_ev e)); destruct (p (ae_ev x)); cbn [length]; lia.
    + destruct (p (ae_ev x)); cbn [length]; rewrite IH; lia.
Qed.

Lemma ae_before_true a b : ae_before a b = true -> (ae_time a <= ae_time b)%Q.
Proof.
  unfold ae_before. intros H. apply orb_true_iff in H as [H|H].
  - apply Qltb_true in H. apply Qlt_le_weak, H.
  - apply andb_true_iff in H as [H _]. apply Qeq_bool_iff in H. rewrite H. apply Qle_refl.
Qed.

Lemma ae_before_false a b : ae_before a b = false -> (ae_time b <= ae_time a)%Q.
Proof.
  unfold ae_before. intros H. apply orb_false_iff in H as [H _]. apply Qltb_false in H. exact H.
Qed.

Lemma ainsert_sorted e l : asorted l -> asorted (ainsert e l).
Proof.
  induction l as [|x t IH]; cbn [ainsert asorted].
  - intros _. split; [constructor|exact I].
  - intros [Hx Ht]. destruct (ae_before e x) eqn:E; cbn [asorted].
    + apply ae_before_true in E. split; [|split; assumption].
      constructor; [exact E|]. eapply Forall_impl; [|exact Hx]. intros b Hb. cbn beta in *. eapply Qle_trans; eauto.
    + apply ae_before_false in E. split; [|apply IH; exact Ht].
      apply Forall_forall. intros b Hb. apply ainsert_In in Hb as [->|Hb]; [exact E|].
      rewrite Forall_forall in Hx. apply Hx, Hb.
Qed.

Lemma ainsert_future now e l : (now <= ae_time e)%Q -> afuture now l -> afuture now (ainsert e l).
Proof.
  intros He Hl. apply Forall_forall. intros a Ha. apply ainsert_In in Ha as [->|Ha]; [exact He|].
  unfold afuture in Hl. rewrite Forall_forall in Hl. auto.
Qed.

(* [Adds now ag ag' evs]: ag' is ag plus one entry for each event of evs, none due before now *)
Inductive Adds (now : Q) : list aentry -> list aentry -> list aev -> Prop :=
| adds_nil ag : Adds now ag ag []
| adds_cons ag ag' evs e t p k : Adds now ag ag' evs -> (now <= t)%Q -> Adds now ag (ainsert (mkae t p k e) ag') (evs ++ [e]).

Lemma Adds_trans now a b c e1 e2 : Adds now a b e1 -> Adds now b c e2 -> Adds now a c (e1 ++ e2).
Proof.
  intros H1 H2. induction H2 as [|ag ag' evs e t p k H IH Ht].
  - rewrite app_nil_r. exact H1.
  - rewrite app_assoc. constructor; auto.
Qed.

Lemma Adds_one now ag e t p k : (now <= t)%Q -> Adds now ag (ainsert (mkae t p k e) ag) [e].
Proof. intros H. apply (adds_cons now ag ag [] e t p k); [constructor|exact H]. Qed.

Definition ecount (p : aev -> bool) (l : list aev) : nat := length (filter p l).

Lemma ecount_app p a b : ecount p (a ++ b) = (ecount p a + ecount p b)%nat.
Proof. unfold ecount. rewrite filter_app, app_length. reflexivity. Qed.

Lemma Adds_count now ag ag' evs p : Adds now ag ag' evs -> acount p ag' = (ecount p evs + acount p ag)%nat.
Proof.
  induction 1 as [|ag ag' evs e t q k H IH Ht]; [reflexivity|].
  rewrite ainsert_count, IH, ecount_app. cbn [ae_ev].
  assert (E : ecount p [e] = if p e then 1%nat else 0%nat) by (unfold ecount; cbn [filter]; destruct (p e); reflexivity).
  rewrite E. destruct (p e); lia.
Qed.

Lemma Adds_In_old now ag ag' evs a : Adds now ag ag' evs -> In a ag -> In a ag'.
Proof. induction 1; [auto|]. intros Ha. apply ainsert_In. right. auto. Qed.

Lemma Adds_In_new now ag ag' evs a : Adds now ag ag' evs -> In a ag' -> In a ag \/ (In (ae_ev a) evs /\ (now <= ae_time a)%Q).
Proof.
  induction 1 as [|ag ag' evs e t q k H IH Ht]; [auto|]. intros Ha. apply ainsert_In in Ha as [->|Ha].
  - right. cbn [ae_ev ae_time]. split; [apply in_or_app; right; left; reflexivity|exact Ht].
  - destruct (IH Ha) as [?|[? ?]]; [left; assumption|right; split; [apply in_or_app; left; assumption|assumption]].
Qed.

Lemma Adds_has now ag ag' evs e : Adds now ag ag' evs -> In e evs -> exists a, In a ag' /\ ae_ev a = e.
Proof.
  induction 1 as [|ag ag' evs e' t q k H IH Ht]; [intros []|]. intros He. apply in_app_or in He as [He|[<-|[]]].
  - destruct (IH He) as (a & Ha & Ea). exists a. split; [apply ainsert_In; right; exact Ha|exact Ea].
  - exists (mkae t q k e'). split; [apply ainsert_In; left; reflexivity|reflexivity].
Qed.

Lemma Adds_sorted now ag ag' evs : Adds now ag ag' evs -> asorted ag -> asorted ag'.
Proof. induction 1; [auto|]. intros Hs. apply ainsert_sorted. auto. Qed.

Lemma Adds_future now ag ag' evs : Adds now ag ag' evs -> afuture now ag -> afuture now ag'.
Proof. induction 1; [auto|]. intros Hs. apply ainsert_future; auto. Qed.

Lemma nq_eq q : (nq q == q)%Q.
Proof. unfold nq. apply Qred_correct. Qed.

Lemma sched_Adds st t p e : (l_now st <= t)%Q -> Adds (l_now st) (l_agenda st) (l_agenda (sched st t p e)) [e].
Proof. intros H. unfold sched; cbn [l_agenda]. apply Adds_one. rewrite nq_eq. exact H. Qed.

(* ================================================================================================ *)
(* Part 3: what each piece of the loop changes *)

Ltac lproj :=
  cbn [l_now l_seq l_agenda l_snd l_sink l_pkt l_wd l_wa l_n1 l_n2 l_oracle l_slog l_d1 l_d2
       set_snd set_pkt set_wd set_wa sched wd_items wd_waiting wa_items wa_waiting] in *.

Lemma pkt_get_set id v m j : pkt_get j (pkt_set id v m) = if j =? id then Some v else pkt_get j m.
Proof.
  induction m as [|[k x] m IH]; cbn [pkt_set pkt_get].
  - rewrite (Z.eqb_sym id j). reflexivity.
  - destruct (k =? id) eqn:E; cbn [pkt_get].
    + apply Z.eqb_eq in E. subst k. rewrite (Z.eqb_sym id j). destruct (j =? id); reflexivity.
    + rewrite IH. destruct (k =? j) eqn:E2; [|reflexivity].
      apply Z.eqb_eq in E2. subst k. rewrite E. reflexivity.
Qed.

(* the components a piece of the loop leaves alone *)
Definition same_ends (st st' : lstate) : Prop :=
  l_now st' = l_now st /\ l_snd st' = l_snd st /\ l_sink st' = l_sink st /\ l_wa st' = l_wa st /\ l_oracle st' = l_oracle st.

Lemma same_ends_refl st : same_ends st st.
Proof. repeat split. Qed.

Lemma same_ends_trans a b c : same_ends a b -> same_ends b c -> same_ends a c.
Proof. intros (A1&A2&A3&A4&A5) (B1&B2&B3&B4&B5). repeat split; congruence. Qed.

Definition pkt_mono (now : Q) (o : list out) (m m' : list (Z * (Q * Q))) : Prop :=
  (forall j, pkt_get j m' = pkt_get j m \/ exists c z, In (Tx j z) o /\ pkt_get j m' = Some (now, c)) /\
  (forall j z, In (Tx j z) o -> exists c, pkt_get j m' = Some (now, c)).

Definition out_ev (o : list out) (e : aev) : Prop :=
  e = AWirePutCb false \/ (exists id r, e = ATimerInit id /\ In (TStart id r) o) \/
  (exists id r, e = ATimerFire id /\ In (TRestart id r) o).

Lemma tx_data_spec lc st id :
  let st' := tx_data lc st id in
  same_ends st st' /\
  (exists evs, Adds (l_now st) (l_agenda st) (l_agenda st') evs /\ (evs = [] \/ evs = [AWirePutCb false])) /\
  (exists l, wd_items (l_wd st') = wd_items (l_wd st) ++ l /\ (l = [] \/ l = [id])) /\
  wd_waiting (l_wd st') = wd_waiting (l_wd st) /\
  (exists c, pkt_get id (l_pkt st') = Some (l_now st, c)) /\
  (forall j, j <> id -> pkt_get j (l_pkt st') = pkt_get j (l_pkt st)).
Proof.
  unfold tx_data. destruct (existsb (Nat.eqb (l_n1 st)) (lc_drop_data lc)); lproj.
  - split; [repeat split|]. split; [exists []; split; [constructor|left; reflexivity]|].
    split; [exists []; rewrite app_nil_r; auto|]. split; [reflexivity|].
    split; [eexists; rewrite pkt_get_set, Z.eqb_refl; reflexivity|].
    intros j Hj. rewrite pkt_get_set. apply Z.eqb_neq in Hj. rewrite Hj. reflexivity.
  - split; [repeat split|]. split; [exists [AWirePutCb false]; split; [|right; reflexivity]|].
    { apply Adds_one. rewrite nq_eq. apply Qle_refl. }
    split; [exists [id]; auto|]. split; [reflexivity|].
    split; [eexists; rewrite pkt_get_set, Z.eqb_refl; reflexivity|].
    intros j Hj. rewrite pkt_get_set. apply Z.eqb_neq in Hj. rewrite Hj. reflexivity.
Qed.

Definition restart_ok (o : list out) : Prop := forall id r, In (TRestart id r) o -> (0 <= r)%Q.

Lemma do_outs_spec lc : forall o st, restart_ok o ->
  let st' := do_outs lc st o in
  same_ends st st' /\
  (exists evs, Adds (l_now st) (l_agenda st) (l_agenda st') evs /\ Forall (out_ev o) evs /\
               (forall id r, In (TStart id r) o -> In (ATimerInit id) evs) /\
               (forall id r, In (TRestart id r) o -> In (ATimerFire id) evs)) /\
  (exists l, wd_items (l_wd st') = wd_items (l_wd st) ++ l /\ forall id, In id l -> exists z, In (Tx id z) o) /\
  wd_waiting (l_wd st') = wd_waiting (l_wd st) /\
  pkt_mono (l_now st) o (l_pkt st) (l_pkt st').
Proof.
  induction o as [|x o IH]; intros st Hr; cbn [do_outs].
  - split; [apply same_ends_refl|]. split; [exists []; repeat split; try constructor; intros ? ? []|].
    split; [exists []; rewrite app_nil_r; split; [reflexivity|intros ? []]|]. split; [reflexivity|].
    split; [intros j; left; reflexivity|intros ? ? []].
  - assert (Hr' : restart_ok o) by (intros id r H; apply (Hr id r); right; exact H).
    assert (Wk : forall e, out_ev o e -> out_ev (x :: o) e).
    { intros e [H|[(id & r & H1 & H2)|(id & r & H1 & H2)]]; [left; exact H|right; left|right; right]; exists id, r; split; auto; right; exact H2. }
    destruct x as [id z|id r|id|id r].
    + (* Tx *)
      destruct (tx_data_spec lc st id) as (S1 & (ev1 & A1 & E1) & (l1 & L1 & L1') & W1 & (c1 & P1) & P1').
      set (st1 := tx_data lc st id) in *.
      destruct (IH st1 Hr') as (S2 & (ev2 & A2 & F2 & I2 & R2) & (l2 & L2 & L2') & W2 & (M2 & M2')).
      assert (Hn : l_now st1 = l_now st) by apply S1. rewrite Hn in *.
      split; [eapply same_ends_trans; eauto|].
      split.
      { exists (ev1 ++ ev2). split; [eapply Adds_trans; eauto|]. split; [|split].
        - apply Forall_app. split; [|eapply Forall_impl; [|exact F2]; auto].
          destruct E1 as [->| ->]; [constructor|constructor; [left; reflexivity|constructor]].
        - intros i r [H|H]; [discriminate|]. apply in_or_app. right. eapply I2; eauto.
        - intros i r [H|H]; [discriminate|]. apply in_or_app. right. eapply R2; eauto. }
      split.
      { exists (l1 ++ l2). rewrite L2, L1, app_assoc. split; [reflexivity|].
        intros i Hi. apply in_app_or in Hi as [Hi|Hi].
        - destruct L1' as [->| ->]; [destruct Hi|]. destruct Hi as [<-|[]]. exists z. left. reflexivity.
        - destruct (L2' i Hi) as (z' & Hz). exists z'. right. exact Hz. }
      split; [congruence|]. split.
      * intros j. destruct (M2 j) as [E|(c & z' & Hin & E)].
        -- destruct (Z.eq_dec j id) as [->|Hne].
           ++ right. exists c1, z. split; [left; reflexivity|]. rewrite E. exact P1.
           ++ left. rewrite E. apply P1'. exact Hne.
        -- right. exists c, z'. split; [right; exact Hin|exact E].
      * intros j z' [H|H].
        -- injection H as <- <-. destruct (M2 id) as [E|(c & z' & _ & E)]; [exists c1; rewrite E; exact P1|exists c; exact E].
        -- eapply M2'; eauto.
    + (* TStart *)
      set (st1 := sched st (l_now st) 0 (ATimerInit id)).
      destruct (IH st1 Hr') as (S2 & (ev2 & A2 & F2 & I2 & R2) & (l2 & L2 & L2') & W2 & (M2 & M2')).
      assert (A1 : Adds (l_now st) (l_agenda st) (l_agenda st1) [ATimerInit id]) by (apply sched_Adds, Qle_refl).
      change (l_now st1) with (l_now st) in *.
      split; [exact S2|]. split.
      { exists ([ATimerInit id] ++ ev2). split; [eapply Adds_trans; eauto|]. split; [|split].
        - apply Forall_app. split; [constructor; [|constructor]|eapply Forall_impl; [|exact F2]; auto].
          right; left. exists id, r. split; [reflexivity|left; reflexivity].
        - intros i r' [H|H]; [injection H as <- _; left; reflexivity|]. right. eapply I2; eauto.
        - intros i r' [H|H]; [discriminate|]. right. eapply R2; eauto. }
      split; [exists l2; split; [exact L2|]; intros i Hi; destruct (L2' i Hi) as (z & Hz); exists z; right; exact Hz|].
      split; [exact W2|]. split.
      * intros j. destruct (M2 j) as [E|(c & z & Hin & E)]; [left; exact E|right; exists c, z; split; [right; exact Hin|exact E]].
      * intros j z [H|H]; [discriminate|]. eapply M2'; eauto.
    + (* TStop *)
      destruct (IH st Hr') as (S2 & (ev2 & A2 & F2 & I2 & R2) & (l2 & L2 & L2') & W2 & (M2 & M2')).
      split; [exact S2|]. split.
      { exists ev2. split; [exact A2|]. split; [eapply Forall_impl; [|exact F2]; auto|]. split.
        - intros i r' [H|H]; [discriminate|]. eapply I2; eauto.
        - intros i r' [H|H]; [discriminate|]. eapply R2; eauto. }
      split; [exists l2; split; [exact L2|]; intros i Hi; destruct (L2' i Hi) as (z & Hz); exists z; right; exact Hz|].
      split; [exact W2|]. split.
      * intros j. destruct (M2 j) as [E|(c & z & Hin & E)]; [left; exact E|right; exists c, z; split; [right; exact Hin|exact E]].
      * intros j z [H|H]; [discriminate|]. eapply M2'; eauto.
    + (* TRestart *)
      set (st1 := sched st (l_now st + r)%Q 1 (ATimerFire id)).
      destruct (IH st1 Hr') as (S2 & (ev2 & A2 & F2 & I2 & R2) & (l2 & L2 & L2') & W2 & (M2 & M2')).
      assert (A1 : Adds (l_now st) (l_agenda st) (l_agenda st1) [ATimerFire id]).
      { apply sched_Adds. assert (0 <= r)%Q by (apply (Hr id r); left; reflexivity). lra. }
      change (l_now st1) with (l_now st) in *.
      split; [exact S2|]. split.
      { exists ([ATimerFire id] ++ ev2). split; [eapply Adds_trans; eauto|]. split; [|split].
        - apply Forall_app. split; [constructor; [|constructor]|eapply Forall_impl; [|exact F2]; auto].
          right; right. exists id, r. split; [reflexivity|left; reflexivity].
        - intros i r' [H|H]; [discriminate|]. right. eapply I2; eauto.
        - intros i r' [H|H]; [injection H as <- _; left; reflexivity|]. right. eapply R2; eauto. }
      split; [exists l2; split; [exact L2|]; intros i Hi; destruct (L2' i Hi) as (z & Hz); exists z; right; exact Hz|].
      split; [exact W2|]. split.
      * intros j. destruct (M2 j) as [E|(c & z & Hin & E)]; [left; exact E|right; exists c, z; split; [right; exact Hin|exact E]].
      * intros j z [H|H]; [discriminate|]. eapply M2'; eauto.
Qed.

(* ---- normalising the rationals does not disturb the sender's invariant ---- *)
Lemma keys_norm t : keys (map (fun p : Z * Q => (fst p, nq (snd p))) t) = keys t.
Proof. unfold keys. rewrite map_map. cbn [fst]. reflexivity. Qed.

Lemma norm_sinv c s : SInv c s -> SInv c (norm_sender s).
Proof.
  intros [Iw Ik Ind Ib Ir Isr Irv Ia Iwk Iwt]. constructor; unfold norm_sender; proj; auto.
  - destruct Iw as (A & B & C). unfold win_inv; proj. rewrite !nq_eq. auto.
  - rewrite keys_norm. exact Ik.
  - rewrite nq_eq. exact Ir.
  - rewrite nq_eq. exact Isr.
  - rewrite nq_eq. exact Irv.
  - apply Forall_forall. intros p Hp. apply in_map_iff in Hp as (q & <- & Hq). cbn [snd]. rewrite nq_eq.
    rewrite Forall_forall in Ia. apply Ia, Hq.
Qed.

Definition is_wake (e : aev) : bool := match e with ASenderWake => true | _ => false end.
Definition is_cb (e : aev) : bool := match e with ASenderCb => true | _ => false end.
Definition b2n (b : bool) : nat := if b then 1%nat else 0%nat.

Definition pkt_le (now : Q) (m : list (Z * (Q * Q))) : Prop :=
  forall id t c, pkt_get id m = Some (t, c) -> (t <= now)%Q.
Definition ev_time_ok (now : Q) (e : aev) : Prop :=
  match e with AWireGetA _ _ tm _ | AWireOutA _ _ tm _ => (tm <= now)%Q | _ => True end.
Definition ev_pkt_ok (m : list (Z * (Q * Q))) (e : aev) : Prop :=
  match e with AWireGetD id | AWireOutD id => pkt_get id m <> None | _ => True end.

Record LInvT (st : lstate) : Prop := {
  lt_sorted : asorted (l_agenda st);
  lt_future : afuture (l_now st) (l_agenda st);
  lt_pkt_le : pkt_le (l_now st) (l_pkt st);
  lt_wa_le : Forall (fun r => (a_time r <= l_now st)%Q) (wa_items (l_wa st));
  lt_ev_time : Forall (fun a => ev_time_ok (l_now st) (ae_ev a)) (l_agenda st);
  lt_wd_pkt : Forall (fun id => pkt_get id (l_pkt st) <> None) (wd_items (l_wd st));
  lt_ev_pkt : Forall (fun a => ev_pkt_ok (l_pkt st) (ae_ev a)) (l_agenda st)
}.

(* [ev]: the agenda entry being processed (already removed from the agenda), if any *)
Record LInvA (lc : lcfg) (st : lstate) (ev : option aev) : Prop := {
  la_sinv : SInv (lc_cfg lc) (l_snd st);
  la_wake : (acount is_wake (l_agenda st) + match ev with Some e => b2n (is_wake e) | None => 0 end)%nat = b2n (wake (l_snd st));
  la_cb : (acount is_cb (l_agenda st) + match ev with Some e => b2n (is_cb e) | None => 0 end)%nat = pend (l_snd st);
  la_T : LInvT st
}.

Definition enabled (s : sender) (e : event) : Prop :=
  match e with
  | EWake => wake s = true
  | EStoreCb => (0 < pend s)%nat
  | EExpire id => has_timer id (timers s) = true
  | EAck _ _ _ _ => True
  end.

Lemma step_enabled_ok c s e :
  0 < mss c -> SInv c s -> enabled s e -> exists s' o, step repaired c s e = Ok s' o.
Proof.
  intros Hm I He. destruct (step repaired c s e) as [s' o|x] eqn:E; [eauto|]. exfalso.
  pose proof (step_no_raise c s e x Hm I E) as ->.
  destruct e as [ackno pid sample o|id| |]; cbn [step enabled] in *.
  - unfold on_ack in E. set (s1 := if ackno =? last_ack s then _ else _) in E.
    destruct (dupack s1 =? 3); [destruct (resend _ _ _ _); discriminate|].
    destruct (3 <? dupack s1); [destruct (Qle_bool _ _); [destruct (resend _ _ _ _)|]; discriminate|].
    destruct (dupack s1 =? 0); [|discriminate].
    destruct (cc_ack _ _ _ _ _ _) as [[[? ?] ?]|]; [|discriminate]. destruct (stop_all _ _ _ _) as [[[? ?] ?]|]; discriminate.
  - unfold on_timer in E. rewrite He in E. cbn [negb] in E. destruct (resend _ _ _ _); discriminate.
  - unfold on_storecb in E. destruct (pend s); [lia|]. destruct (waiting s); [destruct (tokens s)|]; discriminate.
  - unfold on_wake in E. rewrite He in E. destruct (si_wake _ _ I He) as [Hf _]. rewrite Hf in E. cbn [negb andb] in E.
    apply send_loop_raises in E as [E|[E _]]; discriminate.
Qed.

(* the outputs of a sender transition re-arm with a positive timeout *)
Lemma step_restart_ok c s e s' o : 0 < mss c -> SInv c s -> step repaired c s e = Ok s' o -> restart_ok o.
Proof.
  intros Hm I H id r Hin. destruct e as [ackno pid sample orc|id'| |]; cbn [step] in H.
  - apply on_ack_shape in H; [|apply I]. destruct H as (_&_&_&_&_&[D|N]).
    + destruct D as (_&_&_&_&_&_&_&_&_&_&[->|[-> _]]); [destruct Hin|destruct Hin as [?|[]]; discriminate].
    + destruct N as (_&_&_&_&_&->&_). apply in_map_iff in Hin as (? & ? & _). discriminate.
  - apply on_timer_shape in H as (_ & _ & [->|[-> _]]).
    + destruct Hin as [H|[]]. injection H as _ <-. pose proof (si_rto _ _ I). lra.
    + destruct Hin as [H|[H|[]]]; [discriminate|]. injection H as _ <-. pose proof (si_rto _ _ I). lra.
  - apply on_storecb_shape in H as (-> & _). destruct Hin.
  - apply send_guard in H; [|exact Hm]. destruct H as (n & -> & _). exfalso. clear -Hin.
    revert Hin. generalize (next_seq (set_store s (tokens s) (pend s) false false)) as i.
    induction n as [|n IH]; intros i; cbn [segs app In]; [tauto|]. intros [H|[H|H]]; [discriminate|discriminate|eauto].
Qed.

Definition sev_extra (s s' : sender) (e : event) : list aev :=
  (if (pend s <? pend s')%nat then [ASenderCb] else []) ++
  (if wake s' && negb (match e with EWake => false | _ => wake s end) then [ASenderWake] else []).

Lemma sender_event_spec lc st e :
  lc_fx lc = repaired -> 0 < mss (lc_cfg lc) -> SInv (lc_cfg lc) (l_snd st) -> enabled (l_snd st) e ->
  exists st' s' o,
    sender_event lc st e = inl st' /\ step repaired (lc_cfg lc) (l_snd st) e = Ok s' o /\
    l_snd st' = norm_sender s' /\ l_now st' = l_now st /\ l_sink st' = l_sink st /\ l_wa st' = l_wa st /\
    l_oracle st' = l_oracle st /\
    (exists evs, Adds (l_now st) (l_agenda st) (l_agenda st') (evs ++ sev_extra (l_snd st) (norm_sender s') e) /\
                 Forall (out_ev o) evs /\
                 (forall id r, In (TStart id r) o -> In (ATimerInit id) evs) /\
                 (forall id r, In (TRestart id r) o -> In (ATimerFire id) evs)) /\
    (exists l, wd_items (l_wd st') = wd_items (l_wd st) ++ l /\ forall id, In id l -> exists z, In (Tx id z) o) /\
    wd_waiting (l_wd st') = wd_waiting (l_wd st) /\
    pkt_mono (l_now st) o (l_pkt st) (l_pkt st').
Proof.
  intros Hfx Hm I He. destruct (step_enabled_ok _ _ _ Hm I He) as (s' & o & Hstep).
  pose proof (step_restart_ok _ _ _ _ _ Hm I Hstep) as Hr.
  unfold sender_event. rewrite Hfx, Hstep.
  set (st0 := set_snd st (norm_sender s')).
  destruct (do_outs_spec lc o st0 Hr) as (S1 & (ev1 & A1 & F1 & I1 & R1) & (l1 & L1 & L1') & W1 & M1).
  set (st1 := do_outs lc st0 o) in *.
  destruct S1 as (N1 & SN1 & SK1 & WA1 & OR1).
  change (l_now st0) with (l_now st) in *. change (l_agenda st0) with (l_agenda st) in *.
  change (l_wd st0) with (l_wd st) in *. change (l_pkt st0) with (l_pkt st) in *.
  change (l_snd st0) with (norm_sender s') in *. change (l_sink st0) with (l_sink st) in *.
  change (l_wa st0) with (l_wa st) in *. change (l_oracle st0) with (l_oracle st) in *.
  set (st2 := if (pend (l_snd st) <? pend (norm_sender s'))%nat then sched st1 (l_now st) 1 ASenderCb else st1).
  assert (A2 : Adds (l_now st) (l_agenda st1) (l_agenda st2)
                    (if (pend (l_snd st) <? pend (norm_sender s'))%nat then [ASenderCb] else [])).
  { subst st2. destruct (pend (l_snd st) <? pend (norm_sender s'))%nat; [|constructor].
    rewrite <- N1. apply sched_Adds. rewrite N1. apply Qle_refl. }
  assert (S2 : l_now st2 = l_now st /\ l_snd st2 = norm_sender s' /\ l_sink st2 = l_sink st /\ l_wa st2 = l_wa st /\
               l_oracle st2 = l_oracle st /\ l_wd st2 = l_wd st1 /\ l_pkt st2 = l_pkt st1).
  { subst st2. destruct (pend (l_snd st) <? pend (norm_sender s'))%nat; lproj; repeat split; auto. }
  destruct S2 as (N2 & SN2 & SK2 & WA2 & OR2 & WD2 & PK2).
  set (b := wake (norm_sender s') && negb (match e with EWake => false | _ => wake (l_snd st) end)).
  set (st3 := if b then sched st2 (l_now st) 1 ASenderWake else st2).
  assert (A3 : Adds (l_now st) (l_agenda st2) (l_agenda st3) (if b then [ASenderWake] else [])).
  { subst st3. destruct b; [|constructor]. rewrite <- N2. apply sched_Adds. rewrite N2. apply Qle_refl. }
  assert (S3 : l_now st3 = l_now st /\ l_snd st3 = norm_sender s' /\ l_sink st3 = l_sink st /\ l_wa st3 = l_wa st /\
               l_oracle st3 = l_oracle st /\ l_wd st3 = l_wd st1 /\ l_pkt st3 = l_pkt st1).
  { subst st3. destruct b; lproj; repeat split; auto. }
  destruct S3 as (N3 & SN3 & SK3 & WA3 & OR3 & WD3 & PK3).
  eexists. exists s', o. split; [reflexivity|]. lproj. split; [reflexivity|].
  split; [exact SN3|]. split; [exact N3|]. split; [exact SK3|]. split; [exact WA3|]. split; [exact OR3|].
  split.
  { exists ev1. split; [|auto]. unfold sev_extra. fold b.
    eapply Adds_trans; [exact A1|]. eapply Adds_trans; [exact A2|exact A3]. }
  rewrite WD3, PK3. split; [exists l1; auto|]. split; [exact W1|exact M1].
Qed.
