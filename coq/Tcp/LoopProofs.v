(* Proofs about the repaired sender inside the closed loop of Tcp/Loop.v (C16, sender clauses).
   Part 1: the sender alone never raises (every dictionary lookup hits), for all event histories.
   Part 2: agenda lemmas.   Part 3: the loop never raises.
   Part 4: last_ack <= contiguous prefix at the sink <= next_seq; last_ack monotone.
   Part 5: an unfinished transfer always has pending work. *)
From Coq Require Import ZArith QArith Qabs Qround Qminmax List Bool Lia Lqa Arith.
From ONL Require Import Tcp.Sink Tcp.SinkProofs Tcp.Sender Tcp.SenderProofs Tcp.Loop.
Import ListNotations.
Open Scope Z_scope.

Definition repaired : fixes := mkfx true true true.

(* ================================================================================================ *)
(* Part 1: the sender alone *)

Definition keys (t : list (Z * Q)) : list Z := map fst t.

Record SInv (c : config) (s : sender) : Prop := {
  si_win : win_inv c s;
  si_keys : keys (timers s) = sent s;
  si_nodup : NoDup (sent s);
  si_below : Forall (fun i => i < next_seq s) (sent s);
  si_rto : (0 < rto s)%Q;
  si_srtt : (0 < srtt s)%Q;
  si_rttvar : (0 <= rttvar s)%Q;
  si_armed : Forall (fun p => (0 < snd p)%Q) (timers s);
  si_wake : wake s = true -> finished s = false /\ waiting s = false;
  si_waiting : waiting s = true -> finished s = false
}.

Lemma in_sent_In id l : in_sent id l = true <-> In id l.
Proof.
  unfold in_sent. rewrite existsb_exists. split.
  - intros (x & Hx & E). apply Z.eqb_eq in E. subst. exact Hx.
  - intros H. exists id. split; [exact H|apply Z.eqb_refl].
Qed.

Lemma has_timer_In id t : has_timer id t = true <-> In id (keys t).
Proof.
  induction t as [|[k r] t IH]; cbn [has_timer keys map In fst].
  - split; [discriminate|tauto].
  - rewrite orb_true_iff, IH, Z.eqb_eq. tauto.
Qed.

Definition mem (k : Z) (l : list Z) : bool := existsb (Z.eqb k) l.

Lemma filter_all_true {A : Type} (f : A -> bool) (l : list A) : (forall x, f x = true) -> filter f l = l.
Proof. intros H. induction l as [|x l IH]; cbn [filter]; [reflexivity|]. rewrite H, IH. reflexivity. Qed.

Lemma filter_twice {A : Type} (f g : A -> bool) (l : list A) : filter f (filter g l) = filter (fun x => g x && f x) l.
Proof.
  induction l as [|x l IH]; cbn [filter]; [reflexivity|].
  destruct (g x); cbn [filter andb]; [destruct (f x)|]; rewrite IH; reflexivity.
Qed.

Lemma mem_In k l : mem k l = true <-> In k l.
Proof. apply in_sent_In. Qed.

Lemma stop_all_filter ids : forall t se acc t' se' o,
  stop_all ids t se acc = Some (t', se', o) ->
  t' = filter (fun p => negb (mem (fst p) ids)) t /\ se' = filter (fun k => negb (mem k ids)) se /\
  o = acc ++ map TStop ids.
Proof.
  induction ids as [|id r IH]; intros t se acc t' se' o; cbn [stop_all].
  - intros H; injection H as <- <- <-. cbn [mem existsb negb map]. rewrite !filter_all_true, app_nil_r by reflexivity. auto.
  - destruct (in_sent id se); [|discriminate]. intros H. apply IH in H as (A & B & C).
    split; [|split].
    + rewrite A. unfold del_timer. rewrite filter_twice. apply filter_ext. intros p. cbn [mem existsb].
      rewrite negb_orb. rewrite (Z.eqb_sym (fst p) id). reflexivity.
    + rewrite B. unfold del_sent. rewrite filter_twice. apply filter_ext. intros k. cbn [mem existsb].
      rewrite negb_orb. rewrite (Z.eqb_sym k id). reflexivity.
    + rewrite C. rewrite <- app_assoc. reflexivity.
Qed.

Lemma stop_all_succeeds ids : forall t se acc,
  NoDup ids -> (forall id, In id ids -> In id se) -> exists r, stop_all ids t se acc = Some r.
Proof.
  induction ids as [|id r IH]; intros t se acc Hnd Hin; cbn [stop_all]; [eauto|].
  assert (E : in_sent id se = true) by (apply in_sent_In, Hin; left; reflexivity). rewrite E.
  inversion Hnd as [|? ? Hni Hnd']; subst. apply IH; [exact Hnd'|].
  intros k Hk. unfold del_sent. apply filter_In. split; [apply Hin; right; exact Hk|].
  apply negb_true_iff, Z.eqb_neq. intros ->. contradiction.
Qed.

Lemma keys_filter (f : Z -> bool) t : keys (filter (fun p => f (fst p)) t) = filter f (keys t).
Proof.
  unfold keys. induction t as [|[k r] t IH]; cbn [filter map fst]; [reflexivity|].
  destruct (f k); cbn [map fst]; rewrite IH; reflexivity.
Qed.

Lemma NoDup_filter' {A : Type} (f : A -> bool) l : NoDup l -> NoDup (filter f l).
Proof.
  induction 1 as [|x l Hx Hl IH]; cbn [filter]; [constructor|].
  destruct (f x); [constructor; [|exact IH]|exact IH]. intros H. apply filter_In in H as [H _]. contradiction.
Qed.

Lemma keys_rearm id r t : keys (rearm id r t) = keys t.
Proof.
  unfold keys. induction t as [|[k x] t IH]; cbn [rearm map fst]; [reflexivity|].
  destruct (k =? id); cbn [map fst]; [reflexivity|rewrite IH; reflexivity].
Qed.

Lemma rearm_armed id r t : (0 < r)%Q -> Forall (fun p => (0 < snd p)%Q) t -> Forall (fun p => (0 < snd p)%Q) (rearm id r t).
Proof.
  intros Hr. induction 1 as [|[k x] t Hx Ht IH]; cbn [rearm]; [constructor|].
  destruct (k =? id); constructor; auto.
Qed.

(* ---- the shape of each sender transition ---- *)

Definition new_ack_post (fx : fixes) (c : config) (s s' : sender) (ackno pid : Z) (sample : Q) (outs : list out) : Prop :=
  let ids := acked_ids fx c s ackno pid in
  ackno <> last_ack s /\ last_ack s' = ackno /\ dupack s' = 0 /\
  timers s' = filter (fun p => negb (mem (fst p) ids)) (timers s) /\
  sent s' = filter (fun k => negb (mem k ids)) (sent s) /\
  outs = map TStop ids /\
  srtt s' = (srtt s + (1 # 8) * (sample - srtt s))%Q /\
  rttvar s' = (rttvar s + (1 # 4) * (Qabs (sample - srtt s) - rttvar s))%Q /\
  rto s' = (srtt s' + (4 # 1) * rttvar s')%Q /\
  tokens s' = S (tokens s) /\ pend s' = S (pend s).

Definition dup_ack_post (c : config) (s s' : sender) (ackno : Z) (outs : list out) : Prop :=
  ackno = last_ack s /\ last_ack s' = last_ack s /\ dupack s' = dupack s + 1 /\
  timers s' = timers s /\ sent s' = sent s /\ srtt s' = srtt s /\ rttvar s' = rttvar s /\ rto s' = rto s /\
  tokens s' = tokens s /\ pend s' = pend s /\
  (outs = [] \/ (outs = [Tx ackno (mss c)] /\ In ackno (sent s) /\ 3 <= dupack s')).

Lemma on_ack_shape fx c s ackno pid sample o s' outs :
  0 <= dupack s ->
  on_ack fx c s ackno pid sample o = Ok s' outs ->
  next_seq s' = next_seq s /\ send_buffer s' = send_buffer s /\ wake s' = wake s /\ waiting s' = waiting s /\
  finished s' = finished s /\
  (dup_ack_post c s s' ackno outs \/ new_ack_post fx c s s' ackno pid sample outs).
Proof.
  intros Hd. unfold on_ack. destruct (ackno =? last_ack s) eqn:Ea.
  - apply Z.eqb_eq in Ea. proj.
    assert (R : forall s2 o2, resend fx c s2 ackno = Some o2 -> sent s2 = sent s -> o2 = [] \/ (o2 = [Tx ackno (mss c)] /\ In ackno (sent s))).
    { intros s2 o2 H Hs. unfold resend in H. rewrite Hs in H. destruct (in_sent ackno (sent s)) eqn:E.
      - injection H as <-. right. split; [reflexivity|apply in_sent_In; exact E].
      - destruct (fx_guard_resend fx); [injection H as <-; left; reflexivity|discriminate]. }
    destruct (dupack s + 1 =? 3) eqn:E3.
    + apply Z.eqb_eq in E3. destruct (resend _ _ _ _) as [o2|] eqn:Er; [|discriminate].
      intros H; injection H as <- <-. proj. repeat split; try reflexivity. left. unfold dup_ack_post; proj.
      repeat split; try reflexivity; try exact Ea.
      apply R in Er; [|reflexivity]. destruct Er as [->|[-> Hi]]; [left; reflexivity|right; repeat split; auto; lia].
    + destruct (3 <? dupack s + 1) eqn:E4.
      * apply Z.ltb_lt in E4. destruct (Qle_bool _ _).
        -- destruct (resend _ _ _ _) as [o2|] eqn:Er; [|discriminate].
           intros H; injection H as <- <-. proj. repeat split; try reflexivity. left. unfold dup_ack_post; proj.
           repeat split; try reflexivity; try exact Ea.
           apply R in Er; [|reflexivity]. destruct Er as [->|[-> Hi]]; [left; reflexivity|right; repeat split; auto; lia].
        -- intros H; injection H as <- <-. proj. repeat split; try reflexivity. left. unfold dup_ack_post; proj.
           repeat split; try reflexivity; try exact Ea. left; reflexivity.
      * destruct (dupack s + 1 =? 0) eqn:E0; [apply Z.eqb_eq in E0; lia|].
        intros H; injection H as <- <-. proj. repeat split; try reflexivity. left. unfold dup_ack_post; proj.
        repeat split; try reflexivity; try exact Ea. left; reflexivity.
  - apply Z.eqb_neq in Ea. set (s1 := if 0 <? dupack s then _ else s).
    assert (H1 : dupack s1 = 0 /\ next_seq s1 = next_seq s /\ send_buffer s1 = send_buffer s /\ wake s1 = wake s /\
                 waiting s1 = waiting s /\ finished s1 = finished s /\ timers s1 = timers s /\ sent s1 = sent s /\
                 srtt s1 = srtt s /\ rttvar s1 = rttvar s /\ tokens s1 = tokens s /\ pend s1 = pend s).
    { subst s1. destruct (0 <? dupack s) eqn:E0; proj; [repeat split; reflexivity|].
      apply Z.ltb_ge in E0. repeat split; try reflexivity. lia. }
    destruct H1 as (D1 & N1 & B1 & W1 & T1 & F1 & TM1 & SE1 & SR1 & RV1 & TK1 & PD1).
    rewrite D1. cbn [Z.eqb Z.ltb Z.compare].
    destruct (cc_ack c (cwnd s1) (ssthresh s1) (cwnd_cnt s1) (cnt s1) o) as [[[cw ccnt] cn]|]; [|discriminate].
    destruct (stop_all _ _ _ _) as [[[t se] oo]|] eqn:Est; [|discriminate].
    intros H; injection H as <- <-. proj. rewrite N1, B1, W1, T1, F1.
    repeat split; try reflexivity. right. unfold new_ack_post; proj.
    apply stop_all_filter in Est as (A & B & C).
    assert (Eids : acked_ids fx c s1 ackno pid = acked_ids fx c s ackno pid) by (unfold acked_ids; rewrite TM1; reflexivity).
    rewrite Eids in *. rewrite TM1 in A. rewrite SE1 in B. rewrite SR1, RV1, TK1, PD1.
    repeat split; try reflexivity; try assumption.
Qed.

Lemma on_timer_shape fx c s id s' outs :
  on_timer fx c s id = Ok s' outs ->
  In id (keys (timers s)) /\
  s' = mkst (next_seq s) (send_buffer s) (last_ack s) (dupack s) (zq (mss c)) (ssthresh s)
            (srtt s) (rttvar s) (rto s * (2 # 1))%Q (cwnd_cnt s) (cnt s)
            (rearm id (rto s * (2 # 1))%Q (timers s)) (sent s)
            (tokens s) (pend s) (waiting s) (wake s) (finished s) /\
  (outs = [TRestart id (rto s * (2 # 1))%Q] \/
   (outs = [Tx id (mss c); TRestart id (rto s * (2 # 1))%Q] /\ In id (sent s))).
Proof.
  unfold on_timer. destruct (has_timer id (timers s)) eqn:Eh; cbn [negb]; [|discriminate].
  apply has_timer_In in Eh. unfold resend. proj.
  destruct (in_sent id (sent s)) eqn:Es.
  - intros H; injection H as <- <-. split; [exact Eh|]. split; [reflexivity|]. right. split; [reflexivity|apply in_sent_In; exact Es].
  - destruct (fx_guard_resend fx); [|discriminate]. intros H; injection H as <- <-. split; [exact Eh|]. split; [reflexivity|]. left. reflexivity.
Qed.

Lemma on_storecb_shape s s' outs :
  on_storecb s = Ok s' outs ->
  outs = [] /\ exists p, pend s = S p /\
  ((waiting s = true /\ (0 < tokens s)%nat /\ s' = set_store s (Nat.pred (tokens s)) p false true) \/
   ((waiting s = false \/ tokens s = O) /\ s' = set_store s (tokens s) p (waiting s) (wake s))).
Proof.
  unfold on_storecb. destruct (pend s) as [|p]; [discriminate|].
  destruct (waiting s) eqn:Ew; [destruct (tokens s) as [|tk] eqn:Et|]; intros H; injection H as <- <-; split; try reflexivity; exists p; split; try reflexivity.
  - right. split; [right; reflexivity|reflexivity].
  - left. split; [reflexivity|]. split; [lia|reflexivity].
  - right. split; [left; reflexivity|reflexivity].
Qed.

(* ---- the flags of the sender process after one resumption ---- *)
Lemma send_loop_flags c : forall fuel s acc s' outs,
  send_loop fuel c s acc = Ok s' outs ->
  pend s' = pend s /\
  ((finished s' = true /\ wake s' = false /\ waiting s' = false /\ tokens s' = tokens s) \/
   (finished s' = finished s /\
    ((wake s' = true /\ waiting s' = false /\ S (tokens s') = tokens s) \/
     (wake s' = false /\ waiting s' = true /\ tokens s' = O /\ tokens s = O)))).
Proof.
  induction fuel as [|f IH]; intros s acc s' outs; cbn [send_loop]; [discriminate|].
  destruct (negb (fsize c =? 0) && (fsize c <=? next_seq s)).
  - intros H; injection H as <- _. proj. split; [reflexivity|]. left. repeat split; reflexivity.
  - destruct (fill _ _ _ _) as [sb|]; [|discriminate]. destruct (guard c s sb).
    + destruct (Qle_bool (rto s) 0); [discriminate|]. intros H. apply IH in H. proj. exact H.
    + destruct (tokens s) as [|tk] eqn:Et; intros H; injection H as <- _; proj; (split; [reflexivity|]); right; (split; [reflexivity|]).
      * right. repeat split; reflexivity.
      * left. repeat split; reflexivity.
Qed.

Lemma send_loop_raises c : forall fuel s acc x,
  send_loop fuel c s acc = Raise x -> x = OutOfFuel \/ (x = TimerValue /\ (rto s <= 0)%Q).
Proof.
  induction fuel as [|f IH]; intros s acc x; cbn [send_loop]; [intros H; injection H as <-; left; reflexivity|].
  destruct (negb (fsize c =? 0) && (fsize c <=? next_seq s)); [discriminate|].
  destruct (fill _ _ _ _) as [sb|]; [|intros H; injection H as <-; left; reflexivity].
  destruct (guard c s sb).
  - destruct (Qle_bool (rto s) 0) eqn:Er.
    + intros H; injection H as <-. right. split; [reflexivity|apply Qle_bool_true; exact Er].
    + intros H. apply IH in H. proj. exact H.
  - destruct (tokens s); discriminate.
Qed.

Lemma seg_ids_In m id n i : In i (seg_ids m id n) -> exists k : nat, (k < n)%nat /\ i = id + Z.of_nat k * m.
Proof.
  revert id. induction n as [|n IH]; intros id; cbn [seg_ids In]; [tauto|].
  intros [<-|H].
  - exists O. split; [lia|]. cbn. lia.
  - apply IH in H as (k & Hk & ->). exists (S k). split; [lia|]. lia.
Qed.

Lemma seg_ids_NoDup m id n : 0 < m -> NoDup (seg_ids m id n).
Proof.
  intros Hm. revert id. induction n as [|n IH]; intros id; cbn [seg_ids]; constructor; [|apply IH].
  intros H. apply seg_ids_In in H as (k & _ & E). nia.
Qed.

Lemma NoDup_app_intro {A : Type} (a b : list A) :
  NoDup a -> NoDup b -> (forall x, In x a -> In x b -> False) -> NoDup (a ++ b).
Proof.
  induction a as [|x a IH]; intros Ha Hb Hd; cbn [app]; [exact Hb|].
  inversion Ha as [|? ? Hx Ha']; subst. constructor.
  - intros H. apply in_app_or in H as [H|H]; [contradiction|]. apply (Hd x); [left; reflexivity|exact H].
  - apply IH; auto. intros y Hy Hy'. apply (Hd y); [right; exact Hy|exact Hy'].
Qed.

Lemma keys_app a b : keys (a ++ b) = keys a ++ keys b.
Proof. unfold keys. apply map_app. Qed.

Lemma keys_map_pair (r : Q) l : keys (map (fun i => (i, r)) l) = l.
Proof. unfold keys. rewrite map_map. cbn [fst]. apply map_id. Qed.

(* ---- the invariant is preserved; nothing but NotEnabled can be raised ---- *)
Definition sample_ok (e : event) : Prop :=
  match e with EAck _ _ sample _ => (0 <= sample)%Q | _ => True end.

Lemma init_sinv c cw0 ss0 rtt0 : (zq (mss c) <= cw0)%Q -> (0 < rtt0)%Q -> SInv c (init cw0 ss0 rtt0).
Proof.
  intros Hc Hr. constructor; unfold init; proj.
  - apply init_win_inv. exact Hc.
  - reflexivity.
  - constructor.
  - constructor.
  - lra.
  - exact Hr.
  - lra.
  - constructor.
  - intros _. split; reflexivity.
  - discriminate.
Qed.

Lemma step_sinv c s e s' outs :
  0 < mss c -> SInv c s -> sample_ok e -> step repaired c s e = Ok s' outs -> SInv c s'.
Proof.
  intros Hm I Hs H.
  assert (W : win_inv c s') by (eapply step_win_inv; eauto; [reflexivity|apply I]).
  destruct I as [Iw Ik Ind Ib Ir Isr Irv Ia Iwk Iwt].
  destruct e as [ackno pid sample o|id| |]; cbn [step] in H.
  - (* ACK *)
    apply on_ack_shape in H; [|apply Iw]. destruct H as (N & B & Wk & Wt & F & [D|Nw]).
    + destruct D as (_ & _ & _ & T & S & SR & RV & R & _).
      constructor; rewrite ?T, ?S, ?SR, ?RV, ?R, ?N, ?Wk, ?Wt, ?F; auto.
    + destruct Nw as (_ & _ & _ & T & S & _ & SR & RV & R & _). cbn [sample_ok] in Hs.
      constructor; rewrite ?N, ?Wk, ?Wt, ?F; auto.
      * rewrite T, S. rewrite (keys_filter (fun k => negb (mem k (acked_ids repaired c s ackno pid)))). rewrite Ik. reflexivity.
      * rewrite S. apply NoDup_filter'. exact Ind.
      * rewrite S. apply Forall_forall. intros i Hi. apply filter_In in Hi as [Hi _]. rewrite Forall_forall in Ib. auto.
      * rewrite R, SR, RV. pose proof (Qabs_nonneg (sample - srtt s)). lra.
      * rewrite SR. lra.
      * rewrite RV. pose proof (Qabs_nonneg (sample - srtt s)). lra.
      * rewrite T. apply Forall_forall. intros p Hp. apply filter_In in Hp as [Hp _]. rewrite Forall_forall in Ia. auto.
  - (* expiry *)
    apply on_timer_shape in H as (_ & -> & _). constructor; proj; auto.
    + rewrite keys_rearm. exact Ik.
    + lra.
    + apply rearm_armed; [lra|exact Ia].
  - (* store callback *)
    apply on_storecb_shape in H as (_ & p & _ & [(Wt & _ & ->)|(_ & ->)]); constructor; proj; auto; try discriminate.
  - (* resumption *)
    pose proof H as H0. unfold on_wake in H0. destruct (wake s && negb (finished s)) eqn:Ew; [|discriminate].
    apply andb_true_iff in Ew as [Ew Ef]. apply negb_true_iff in Ef.
    apply send_loop_flags in H0 as (_ & Fl). proj.
    apply send_guard in H; [|exact Hm]. destruct H as (n & _ & Hns & Ht & Hse & _ & _ & _ & _ & _ & Hsr & Hrv & Hr & _). proj.
    constructor; auto.
    + rewrite Ht, Hse, keys_app, keys_map_pair, Ik. reflexivity.
    + rewrite Hse. apply NoDup_app_intro; [exact Ind|apply seg_ids_NoDup; exact Hm|].
      intros i Hi Hj. rewrite Forall_forall in Ib. specialize (Ib i Hi). apply seg_ids_In in Hj as (k & _ & ->). nia.
    + rewrite Hse, Hns. apply Forall_forall. intros i Hi. apply in_app_or in Hi as [Hi|Hi].
      * rewrite Forall_forall in Ib. specialize (Ib i Hi). nia.
      * apply seg_ids_In in Hi as (k & Hk & ->). nia.
    + rewrite Hr. exact Ir.
    + rewrite Hsr. exact Isr.
    + rewrite Hrv. exact Irv.
    + rewrite Ht. apply Forall_app. split; [exact Ia|]. apply Forall_forall. intros q Hq. apply in_map_iff in Hq as (i & <- & _). exact Ir.
    + intros Hw. destruct Fl as [(_ & Hw' & _)|(Hf & [(_ & Hwt & _)|(Hw' & _)])]; try congruence. split; [congruence|exact Hwt].
    + intros Hw. destruct Fl as [(_ & _ & Hw' & _)|(Hf & _)]; congruence.
Qed.

Lemma acked_ids_props c s ackno pid :
  keys (timers s) = sent s -> NoDup (sent s) ->
  NoDup (acked_ids repaired c s ackno pid) /\ (forall id, In id (acked_ids repaired c s ackno pid) -> In id (sent s)).
Proof.
  intros Hk Hn. unfold acked_ids, repaired; proj.
  change (map fst (filter (fun p => fst p + mss c <=? ackno) (timers s)))
    with (keys (filter (fun p => (fun k => k + mss c <=? ackno) (fst p)) (timers s))).
  rewrite keys_filter, Hk. split; [apply NoDup_filter'; exact Hn|].
  intros id H. apply filter_In in H as [H _]. exact H.
Qed.

Lemma step_no_raise c s e x :
  0 < mss c -> SInv c s -> step repaired c s e = Raise x -> x = NotEnabled.
Proof.
  intros Hm I. destruct I as [Iw Ik Ind Ib Ir Isr Irv Ia Iwk Iwt]. destruct Iw as (Hcw & Hd & Hss).
  assert (Hp : (0 < zq (mss c))%Q) by (apply (zq_lt 0); exact Hm).
  destruct e as [ackno pid sample o|id| |]; cbn [step].
  - unfold on_ack. cbn [fx_deflate3 repaired].
    set (s1 := if ackno =? last_ack s then _ else _).
    assert (H1 : timers s1 = timers s /\ sent s1 = sent s /\ (dupack s1 = 0 -> (zq (mss c) <= cwnd s1)%Q)).
    { subst s1. destruct (ackno =? last_ack s); [proj; auto|].
      destruct (0 <? dupack s) eqn:E0; [|auto]. proj. split; [reflexivity|]. split; [reflexivity|]. intros _.
      destruct (3 <=? dupack s) eqn:E3; [|exact Hcw]. apply Z.leb_le in E3. specialize (Hss E3).
      assert (zq (mss c) <= zq (2 * mss c))%Q by (apply zq_2m_ge; exact Hm). lra. }
    destruct H1 as (T1 & S1 & C1).
    assert (R : forall s2, resend repaired c s2 ackno <> None).
    { intros s2. unfold resend, repaired; proj. destruct (in_sent ackno (sent s2)); discriminate. }
    destruct (dupack s1 =? 3).
    { destruct (resend _ _ _ _) eqn:Er; [discriminate|]. exfalso. eapply R; eauto. }
    destruct (3 <? dupack s1).
    { destruct (Qle_bool _ _); [|discriminate]. destruct (resend _ _ _ _) eqn:Er; [discriminate|]. exfalso. eapply R; eauto. }
    destruct (dupack s1 =? 0) eqn:E0; [|discriminate]. apply Z.eqb_eq in E0. specialize (C1 E0).
    destruct (cc_ack c (cwnd s1) (ssthresh s1) (cwnd_cnt s1) (cnt s1) o) as [[[cw ccnt] cn]|] eqn:Ecc.
    + destruct (acked_ids_props c s ackno pid Ik Ind) as [An Ai].
      assert (Eids : acked_ids repaired c s1 ackno pid = acked_ids repaired c s ackno pid) by (unfold acked_ids; rewrite T1; reflexivity).
      rewrite Eids, S1.
      destruct (stop_all_succeeds _ (timers s1) (sent s) [] An Ai) as [[[t se] oo] Est]. rewrite Est. discriminate.
    + exfalso. unfold cc_ack in Ecc. destruct (Qle_bool (cwnd s1) (ssthresh s1)); [discriminate|].
      destruct (calg c); [|destruct (Qltb o (zq (cwnd_cnt s1))); discriminate].
      destruct (Qeq_bool (cwnd s1) 0) eqn:Ez; [apply Qeq_bool_iff in Ez; lra|discriminate].
  - unfold on_timer. destruct (negb _); [intros H; injection H as <-; reflexivity|].
    unfold resend, repaired; proj. destruct (in_sent id (sent s)); discriminate.
  - unfold on_storecb. destruct (pend s); [intros H; injection H as <-; reflexivity|].
    destruct (waiting s); [destruct (tokens s)|]; discriminate.
  - intros H. pose proof (wake_never_out_of_fuel c s Hm) as NF.
    unfold on_wake in *. destruct (wake s && negb (finished s)); [|injection H as <-; reflexivity].
    pose proof H as H2. apply send_loop_raises in H2 as [->|[-> Hr]]; [exfalso; exact (NF H)|]. proj. lra.
Qed.

(* all histories with non-negative RTT samples: the repaired sender never raises; what remains is the
   model-level NotEnabled for an event that cannot occur in the state *)
Theorem sender_never_raises c cw0 ss0 rtt0 : 0 < mss c -> (zq (mss c) <= cw0)%Q -> (0 < rtt0)%Q ->
  forall evs x, Forall sample_ok evs -> run repaired c (init cw0 ss0 rtt0) evs = Raise x -> x = NotEnabled.
Proof.
  intros Hm Hc Hr evs. generalize (init_sinv c cw0 ss0 rtt0 Hc Hr). generalize (init cw0 ss0 rtt0) as s.
  induction evs as [|e evs IH]; intros s I x Hs; cbn [run]; [discriminate|].
  inversion Hs as [|? ? He Hs']; subst.
  destruct (step repaired c s e) as [s1 o1|y] eqn:E1.
  - destruct (run repaired c s1 evs) as [s2 o2|y] eqn:E2; [discriminate|].
    intros H; injection H as <-. eapply IH; [|exact Hs'|exact E2]. eapply step_sinv; eauto.
  - intros H; injection H as <-. eapply step_no_raise; eauto.
Qed.

(* before the repairs: the third duplicate of the final ACK raises KeyError (nothing in flight at next_seq) *)
Theorem sender_raises_before_fix :
  exists c evs, Forall sample_ok evs /\
    run (mkfx true false false) c (init (1024 # 1) (65535 # 1) (1 # 16)) evs = Raise (KeyErr 512).
Proof.
  exists (mkcfg 512 512 Reno),
    [EWake; EExpire 0; EExpire 0; EExpire 0; EAck 512 0 (5 # 8) 0; EStoreCb;
     EAck 512 0 (1 # 2) 0; EAck 512 0 1 0; EAck 512 0 1 0].
  split; [repeat constructor; cbn; unfold Qle; cbn; lia|vm_compute; reflexivity].
Qed.

(* ================================================================================================ *)
(* Part 2: the agenda *)

Definition acount (p : aev -> bool) (l : list aentry) : nat := length (filter (fun a => p (ae_ev a)) l).
Definition afuture (now : Q) (l : list aentry) : Prop := Forall (fun a => (now <= ae_time a)%Q) l.
Fixpoint asorted (l : list aentry) : Prop :=
  match l with [] => True | a :: t => Forall (fun b => (ae_time a <= ae_time b)%Q) t /\ asorted t end.

Lemma ainsert_In a e l : In a (ainsert e l) <-> a = e \/ In a l.
Proof.
  induction l as [|x t IH]; cbn [ainsert In].
  - split; [intros [H|[]]; auto|intros [H|[]]; auto].
  - destruct (ae_before e x); cbn [In]; [|rewrite IH]; intuition.
Qed.

Lemma ainsert_count p e l : acount p (ainsert e l) = ((if p (ae_ev e) then 1 else 0) + acount p l)%nat.
Proof.
  unfold acount. induction l as [|x t IH]; cbn [ainsert filter length].
  - destruct (p (ae_ev e)); reflexivity.
  - destruct (ae_before e x); cbn [filter].
    + destruct (p (ae_ev e)); destruct (p (ae_ev x)); cbn [length]; lia.
    + destruct (p (ae_ev x)); cbn [length]; rewrite IH; lia.
Qed.

Lemma ae_before_true a b : ae_before a b = true -> (ae_time a <= ae_time b)%Q.
Proof.
  unfold ae_before. intros H. apply orb_true_iff in H as [H|H].
  - apply Qltb_true in H. apply Qlt_le_weak, H.
  - apply andb_true_iff in H as [H _]. apply Qeq_bool_iff in H. rewrite H. apply Qle_refl.
Qed.

Lemma ae_before_false a b : ae_before a b = false -> (ae_time b <= ae_time a)%Q.
Proof.
  unfold ae_before. intros H. apply orb_false_iff in H as [H _]. apply Qltb_false in H. exact H.
Qed.

Lemma ainsert_sorted e l : asorted l -> asorted (ainsert e l).
Proof.
  induction l as [|x t IH]; cbn [ainsert asorted].
  - intros _. split; [constructor|exact I].
  - intros [Hx Ht]. destruct (ae_before e x) eqn:E; cbn [asorted].
    + apply ae_before_true in E. split; [|split; assumption].
      constructor; [exact E|]. eapply Forall_impl; [|exact Hx]. intros b Hb. cbn beta in *. eapply Qle_trans; eauto.
    + apply ae_before_false in E. split; [|apply IH; exact Ht].
      apply Forall_forall. intros b Hb. apply ainsert_In in Hb as [->|Hb]; [exact E|].
      rewrite Forall_forall in Hx. apply Hx, Hb.
Qed.

Lemma ainsert_future now e l : (now <= ae_time e)%Q -> afuture now l -> afuture now (ainsert e l).
Proof.
  intros He Hl. apply Forall_forall. intros a Ha. apply ainsert_In in Ha as [->|Ha]; [exact He|].
  unfold afuture in Hl. rewrite Forall_forall in Hl. auto.
Qed.

(* [Adds now ag ag' evs]: ag' is ag plus one entry for each event of evs, none due before now *)
Inductive Adds (now : Q) : list aentry -> list aentry -> list aev -> Prop :=
| adds_nil ag : Adds now ag ag []
| adds_cons ag ag' evs e t p k : Adds now ag ag' evs -> (now <= t)%Q -> Adds now ag (ainsert (mkae t p k e) ag') (evs ++ [e]).

Lemma Adds_trans now a b c e1 e2 : Adds now a b e1 -> Adds now b c e2 -> Adds now a c (e1 ++ e2).
Proof.
  intros H1 H2. induction H2 as [|ag ag' evs e t p k H IH Ht].
  - rewrite app_nil_r. exact H1.
  - rewrite app_assoc. constructor; auto.
Qed.

Lemma Adds_one now ag e t p k : (now <= t)%Q -> Adds now ag (ainsert (mkae t p k e) ag) [e].
Proof. intros H. apply (adds_cons now ag ag [] e t p k); [constructor|exact H]. Qed.

Definition ecount (p : aev -> bool) (l : list aev) : nat := length (filter p l).

Lemma ecount_app p a b : ecount p (a ++ b) = (ecount p a + ecount p b)%nat.
Proof. unfold ecount. rewrite filter_app, app_length. reflexivity. Qed.

Lemma Adds_count now ag ag' evs p : Adds now ag ag' evs -> acount p ag' = (ecount p evs + acount p ag)%nat.
Proof.
  induction 1 as [|ag ag' evs e t q k H IH Ht]; [reflexivity|].
  rewrite ainsert_count, IH, ecount_app. cbn [ae_ev].
  assert (E : ecount p [e] = if p e then 1%nat else 0%nat) by (unfold ecount; cbn [filter]; destruct (p e); reflexivity).
  rewrite E. destruct (p e); lia.
Qed.

Lemma Adds_In_old now ag ag' evs a : Adds now ag ag' evs -> In a ag -> In a ag'.
Proof. induction 1; [auto|]. intros Ha. apply ainsert_In. right. auto. Qed.

Lemma Adds_In_new now ag ag' evs a : Adds now ag ag' evs -> In a ag' -> In a ag \/ (In (ae_ev a) evs /\ (now <= ae_time a)%Q).
Proof.
  induction 1 as [|ag ag' evs e t q k H IH Ht]; [auto|]. intros Ha. apply ainsert_In in Ha as [->|Ha].
  - right. cbn [ae_ev ae_time]. split; [apply in_or_app; right; left; reflexivity|exact Ht].
  - destruct (IH Ha) as [?|[? ?]]; [left; assumption|right; split; [apply in_or_app; left; assumption|assumption]].
Qed.

Lemma Adds_has now ag ag' evs e : Adds now ag ag' evs -> In e evs -> exists a, In a ag' /\ ae_ev a = e.
Proof.
  induction 1 as [|ag ag' evs e' t q k H IH Ht]; [intros []|]. intros He. apply in_app_or in He as [He|[<-|[]]].
  - destruct (IH He) as (a & Ha & Ea). exists a. split; [apply ainsert_In; right; exact Ha|exact Ea].
  - exists (mkae t q k e'). split; [apply ainsert_In; left; reflexivity|reflexivity].
Qed.

Lemma Adds_sorted now ag ag' evs : Adds now ag ag' evs -> asorted ag -> asorted ag'.
Proof. induction 1; [auto|]. intros Hs. apply ainsert_sorted. auto. Qed.

Lemma Adds_future now ag ag' evs : Adds now ag ag' evs -> afuture now ag -> afuture now ag'.
Proof. induction 1; [auto|]. intros Hs. apply ainsert_future; auto. Qed.

Lemma nq_eq q : (nq q == q)%Q.
Proof. unfold nq. apply Qred_correct. Qed.

Lemma sched_Adds st t p e : (l_now st <= t)%Q -> Adds (l_now st) (l_agenda st) (l_agenda (sched st t p e)) [e].
Proof. intros H. unfold sched; cbn [l_agenda]. apply Adds_one. rewrite nq_eq. exact H. Qed.

(* ================================================================================================ *)
(* Part 3: what each piece of the loop changes *)

Ltac lproj :=
  cbn [l_now l_seq l_agenda l_snd l_sink l_pkt l_wd l_wa l_n1 l_n2 l_oracle l_slog l_d1 l_d2
       set_snd set_pkt set_wd set_wa sched wd_items wd_waiting wa_items wa_waiting] in *.

Lemma pkt_get_set id v m j : pkt_get j (pkt_set id v m) = if j =? id then Some v else pkt_get j m.
Proof.
  induction m as [|[k x] m IH]; cbn [pkt_set pkt_get].
  - rewrite (Z.eqb_sym id j). reflexivity.
  - destruct (k =? id) eqn:E; cbn [pkt_get].
    + apply Z.eqb_eq in E. subst k. rewrite (Z.eqb_sym id j). destruct (j =? id); reflexivity.
    + rewrite IH. destruct (k =? j) eqn:E2; [|reflexivity].
      apply Z.eqb_eq in E2. subst k. rewrite E. reflexivity.
Qed.

(* the components a piece of the loop leaves alone *)
Definition same_ends (st st' : lstate) : Prop :=
  l_now st' = l_now st /\ l_snd st' = l_snd st /\ l_sink st' = l_sink st /\ l_wa st' = l_wa st /\ l_oracle st' = l_oracle st.

Lemma same_ends_refl st : same_ends st st.
Proof. repeat split. Qed.

Lemma same_ends_trans a b c : same_ends a b -> same_ends b c -> same_ends a c.
Proof. intros (A1&A2&A3&A4&A5) (B1&B2&B3&B4&B5). repeat split; congruence. Qed.

Definition pkt_mono (now : Q) (o : list out) (m m' : list (Z * (Q * Q))) : Prop :=
  (forall j, pkt_get j m' = pkt_get j m \/ exists c z, In (Tx j z) o /\ pkt_get j m' = Some (now, c)) /\
  (forall j z, In (Tx j z) o -> exists c, pkt_get j m' = Some (now, c)).

Definition out_ev (o : list out) (e : aev) : Prop :=
  e = AWirePutCb false \/ (exists id r, e = ATimerInit id /\ In (TStart id r) o) \/
  (exists id r, e = ATimerFire id /\ In (TRestart id r) o).

Lemma tx_data_spec lc st id :
  let st' := tx_data lc st id in
  same_ends st st' /\
  (exists evs, Adds (l_now st) (l_agenda st) (l_agenda st') evs /\ (evs = [] \/ evs = [AWirePutCb false])) /\
  (exists l, wd_items (l_wd st') = wd_items (l_wd st) ++ l /\ (l = [] \/ l = [id])) /\
  wd_waiting (l_wd st') = wd_waiting (l_wd st) /\
  (exists c, pkt_get id (l_pkt st') = Some (l_now st, c)) /\
  (forall j, j <> id -> pkt_get j (l_pkt st') = pkt_get j (l_pkt st)).
Proof.
  unfold tx_data. destruct (existsb (Nat.eqb (l_n1 st)) (lc_drop_data lc)); lproj.
  - split; [repeat split|]. split; [exists []; split; [constructor|left; reflexivity]|].
    split; [exists []; rewrite app_nil_r; auto|]. split; [reflexivity|].
    split; [eexists; rewrite pkt_get_set, Z.eqb_refl; reflexivity|].
    intros j Hj. rewrite pkt_get_set. apply Z.eqb_neq in Hj. rewrite Hj. reflexivity.
  - split; [repeat split|]. split; [exists [AWirePutCb false]; split; [|right; reflexivity]|].
    { apply Adds_one. rewrite nq_eq. apply Qle_refl. }
    split; [exists [id]; auto|]. split; [reflexivity|].
    split; [eexists; rewrite pkt_get_set, Z.eqb_refl; reflexivity|].
    intros j Hj. rewrite pkt_get_set. apply Z.eqb_neq in Hj. rewrite Hj. reflexivity.
Qed.

Definition restart_ok (o : list out) : Prop := forall id r, In (TRestart id r) o -> (0 <= r)%Q.

Lemma do_outs_spec lc : forall o st, restart_ok o ->
  let st' := do_outs lc st o in
  same_ends st st' /\
  (exists evs, Adds (l_now st) (l_agenda st) (l_agenda st') evs /\ Forall (out_ev o) evs /\
               (forall id r, In (TStart id r) o -> In (ATimerInit id) evs) /\
               (forall id r, In (TRestart id r) o -> In (ATimerFire id) evs)) /\
  (exists l, wd_items (l_wd st') = wd_items (l_wd st) ++ l /\ forall id, In id l -> exists z, In (Tx id z) o) /\
  wd_waiting (l_wd st') = wd_waiting (l_wd st) /\
  pkt_mono (l_now st) o (l_pkt st) (l_pkt st').
Proof.
  induction o as [|x o IH]; intros st Hr; cbn [do_outs].
  - split; [apply same_ends_refl|]. split; [exists []; repeat split; try constructor; intros ? ? []|].
    split; [exists []; rewrite app_nil_r; split; [reflexivity|intros ? []]|]. split; [reflexivity|].
    split; [intros j; left; reflexivity|intros ? ? []].
  - assert (Hr' : restart_ok o) by (intros id r H; apply (Hr id r); right; exact H).
    assert (Wk : forall e, out_ev o e -> out_ev (x :: o) e).
    { intros e [H|[(id & r & H1 & H2)|(id & r & H1 & H2)]]; [left; exact H|right; left|right; right]; exists id, r; split; auto; right; exact H2. }
    destruct x as [id z|id r|id|id r].
    + (* Tx *)
      destruct (tx_data_spec lc st id) as (S1 & (ev1 & A1 & E1) & (l1 & L1 & L1') & W1 & (c1 & P1) & P1').
      set (st1 := tx_data lc st id) in *.
      destruct (IH st1 Hr') as (S2 & (ev2 & A2 & F2 & I2 & R2) & (l2 & L2 & L2') & W2 & (M2 & M2')).
      assert (Hn : l_now st1 = l_now st) by apply S1. rewrite Hn in *.
      split; [eapply same_ends_trans; eauto|].
      split.
      { exists (ev1 ++ ev2). split; [eapply Adds_trans; eauto|]. split; [|split].
        - apply Forall_app. split; [|eapply Forall_impl; [|exact F2]; auto].
          destruct E1 as [->| ->]; [constructor|constructor; [left; reflexivity|constructor]].
        - intros i r [H|H]; [discriminate|]. apply in_or_app. right. eapply I2; eauto.
        - intros i r [H|H]; [discriminate|]. apply in_or_app. right. eapply R2; eauto. }
      split.
      { exists (l1 ++ l2). rewrite L2, L1, app_assoc. split; [reflexivity|].
        intros i Hi. apply in_app_or in Hi as [Hi|Hi].
        - destruct L1' as [->| ->]; [destruct Hi|]. destruct Hi as [<-|[]]. exists z. left. reflexivity.
        - destruct (L2' i Hi) as (z' & Hz). exists z'. right. exact Hz. }
      split; [congruence|]. split.
      * intros j. destruct (M2 j) as [E|(c & z' & Hin & E)].
        -- destruct (Z.eq_dec j id) as [->|Hne].
           ++ right. exists c1, z. split; [left; reflexivity|]. rewrite E. exact P1.
           ++ left. rewrite E. apply P1'. exact Hne.
        -- right. exists c, z'. split; [right; exact Hin|exact E].
      * intros j z' [H|H].
        -- injection H as <- <-. destruct (M2 id) as [E|(c & z' & _ & E)]; [exists c1; rewrite E; exact P1|exists c; exact E].
        -- eapply M2'; eauto.
    + (* TStart *)
      set (st1 := sched st (l_now st) 0 (ATimerInit id)).
      destruct (IH st1 Hr') as (S2 & (ev2 & A2 & F2 & I2 & R2) & (l2 & L2 & L2') & W2 & (M2 & M2')).
      assert (A1 : Adds (l_now st) (l_agenda st) (l_agenda st1) [ATimerInit id]) by (apply sched_Adds, Qle_refl).
      change (l_now st1) with (l_now st) in *.
      split; [exact S2|]. split.
      { exists ([ATimerInit id] ++ ev2). split; [eapply Adds_trans; eauto|]. split; [|split].
        - apply Forall_app. split; [constructor; [|constructor]|eapply Forall_impl; [|exact F2]; auto].
          right; left. exists id, r. split; [reflexivity|left; reflexivity].
        - intros i r' [H|H]; [injection H as <- _; left; reflexivity|]. right. eapply I2; eauto.
        - intros i r' [H|H]; [discriminate|]. right. eapply R2; eauto. }
      split; [exists l2; split; [exact L2|]; intros i Hi; destruct (L2' i Hi) as (z & Hz); exists z; right; exact Hz|].
      split; [exact W2|]. split.
      * intros j. destruct (M2 j) as [E|(c & z & Hin & E)]; [left; exact E|right; exists c, z; split; [right; exact Hin|exact E]].
      * intros j z [H|H]; [discriminate|]. eapply M2'; eauto.
    + (* TStop *)
      destruct (IH st Hr') as (S2 & (ev2 & A2 & F2 & I2 & R2) & (l2 & L2 & L2') & W2 & (M2 & M2')).
      split; [exact S2|]. split.
      { exists ev2. split; [exact A2|]. split; [eapply Forall_impl; [|exact F2]; auto|]. split.
        - intros i r' [H|H]; [discriminate|]. eapply I2; eauto.
        - intros i r' [H|H]; [discriminate|]. eapply R2; eauto. }
      split; [exists l2; split; [exact L2|]; intros i Hi; destruct (L2' i Hi) as (z & Hz); exists z; right; exact Hz|].
      split; [exact W2|]. split.
      * intros j. destruct (M2 j) as [E|(c & z & Hin & E)]; [left; exact E|right; exists c, z; split; [right; exact Hin|exact E]].
      * intros j z [H|H]; [discriminate|]. eapply M2'; eauto.
    + (* TRestart *)
      set (st1 := sched st (l_now st + r)%Q 1 (ATimerFire id)).
      destruct (IH st1 Hr') as (S2 & (ev2 & A2 & F2 & I2 & R2) & (l2 & L2 & L2') & W2 & (M2 & M2')).
      assert (A1 : Adds (l_now st) (l_agenda st) (l_agenda st1) [ATimerFire id]).
      { apply sched_Adds. assert (0 <= r)%Q by (apply (Hr id r); left; reflexivity). lra. }
      change (l_now st1) with (l_now st) in *.
      split; [exact S2|]. split.
      { exists ([ATimerFire id] ++ ev2). split; [eapply Adds_trans; eauto|]. split; [|split].
        - apply Forall_app. split; [constructor; [|constructor]|eapply Forall_impl; [|exact F2]; auto].
          right; right. exists id, r. split; [reflexivity|left; reflexivity].
        - intros i r' [H|H]; [discriminate|]. right. eapply I2; eauto.
        - intros i r' [H|H]; [injection H as <- _; left; reflexivity|]. right. eapply R2; eauto. }
      split; [exists l2; split; [exact L2|]; intros i Hi; destruct (L2' i Hi) as (z & Hz); exists z; right; exact Hz|].
      split; [exact W2|]. split.
      * intros j. destruct (M2 j) as [E|(c & z & Hin & E)]; [left; exact E|right; exists c, z; split; [right; exact Hin|exact E]].
      * intros j z [H|H]; [discriminate|]. eapply M2'; eauto.
Qed.

(* ---- normalising the rationals does not disturb the sender's invariant ---- *)
Lemma keys_norm t : keys (map (fun p : Z * Q => (fst p, nq (snd p))) t) = keys t.
Proof. unfold keys. rewrite map_map. cbn [fst]. reflexivity. Qed.

Lemma norm_sinv c s : SInv c s -> SInv c (norm_sender s).
Proof.
  intros [Iw Ik Ind Ib Ir Isr Irv Ia Iwk Iwt]. constructor; unfold norm_sender; proj; auto.
  - destruct Iw as (A & B & C). unfold win_inv; proj. rewrite !nq_eq. auto.
  - rewrite keys_norm. exact Ik.
  - rewrite nq_eq. exact Ir.
  - rewrite nq_eq. exact Isr.
  - rewrite nq_eq. exact Irv.
  - apply Forall_forall. intros p Hp. apply in_map_iff in Hp as (q & <- & Hq). cbn [snd]. rewrite nq_eq.
    rewrite Forall_forall in Ia. apply Ia, Hq.
Qed.

Definition is_wake (e : aev) : bool := match e with ASenderWake => true | _ => false end.
Definition is_cb (e : aev) : bool := match e with ASenderCb => true | _ => false end.
Definition b2n (b : bool) : nat := if b then 1%nat else 0%nat.

Definition pkt_le (now : Q) (m : list (Z * (Q * Q))) : Prop :=
  forall id t c, pkt_get id m = Some (t, c) -> (t <= now)%Q.
Definition ev_time_ok (now : Q) (e : aev) : Prop :=
  match e with AWireGetA _ _ tm _ | AWireOutA _ _ tm _ => (tm <= now)%Q | _ => True end.
Definition ev_pkt_ok (m : list (Z * (Q * Q))) (e : aev) : Prop :=
  match e with AWireGetD id | AWireOutD id => pkt_get id m <> None | _ => True end.

Record LInvT (st : lstate) : Prop := {
  lt_sorted : asorted (l_agenda st);
  lt_future : afuture (l_now st) (l_agenda st);
  lt_pkt_le : pkt_le (l_now st) (l_pkt st);
  lt_wa_le : Forall (fun r => (a_time r <= l_now st)%Q) (wa_items (l_wa st));
  lt_ev_time : Forall (fun a => ev_time_ok (l_now st) (ae_ev a)) (l_agenda st);
  lt_wd_pkt : Forall (fun id => pkt_get id (l_pkt st) <> None) (wd_items (l_wd st));
  lt_ev_pkt : Forall (fun a => ev_pkt_ok (l_pkt st) (ae_ev a)) (l_agenda st)
}.

(* [ev]: the agenda entry being processed (already removed from the agenda), if any *)
Record LInvA (lc : lcfg) (st : lstate) (ev : option aev) : Prop := {
  la_sinv : SInv (lc_cfg lc) (l_snd st);
  la_wake : (acount is_wake (l_agenda st) + match ev with Some e => b2n (is_wake e) | None => 0 end)%nat = b2n (wake (l_snd st));
  la_cb : (acount is_cb (l_agenda st) + match ev with Some e => b2n (is_cb e) | None => 0 end)%nat = pend (l_snd st);
  la_T : LInvT st
}.

Definition enabled (s : sender) (e : event) : Prop :=
  match e with
  | EWake => wake s = true
  | EStoreCb => (0 < pend s)%nat
  | EExpire id => has_timer id (timers s) = true
  | EAck _ _ _ _ => True
  end.

Lemma step_enabled_ok c s e :
  0 < mss c -> SInv c s -> enabled s e -> exists s' o, step repaired c s e = Ok s' o.
Proof.
  intros Hm I He. destruct (step repaired c s e) as [s' o|x] eqn:E; [eauto|]. exfalso.
  pose proof (step_no_raise c s e x Hm I E) as ->.
  destruct e as [ackno pid sample o|id| |]; cbn [step enabled] in *.
  - unfold on_ack in E. set (s1 := if ackno =? last_ack s then _ else _) in E.
    destruct (dupack s1 =? 3); [destruct (resend _ _ _ _); discriminate|].
    destruct (3 <? dupack s1); [destruct (Qle_bool _ _); [destruct (resend _ _ _ _)|]; discriminate|].
    destruct (dupack s1 =? 0); [|discriminate].
    destruct (cc_ack _ _ _ _ _ _) as [[[? ?] ?]|]; [|discriminate]. destruct (stop_all _ _ _ _) as [[[? ?] ?]|]; discriminate.
  - unfold on_timer in E. rewrite He in E. cbn [negb] in E. destruct (resend _ _ _ _); discriminate.
  - unfold on_storecb in E. destruct (pend s); [lia|]. destruct (waiting s); [destruct (tokens s)|]; discriminate.
  - unfold on_wake in E. rewrite He in E. destruct (si_wake _ _ I He) as [Hf _]. rewrite Hf in E. cbn [negb andb] in E.
    apply send_loop_raises in E as [E|[E _]]; discriminate.
Qed.

(* the outputs of a sender transition re-arm with a positive timeout *)
Lemma step_restart_ok c s e s' o : 0 < mss c -> SInv c s -> step repaired c s e = Ok s' o -> restart_ok o.
Proof.
  intros Hm I H id r Hin. destruct e as [ackno pid sample orc|id'| |]; cbn [step] in H.
  - apply on_ack_shape in H; [|apply I]. destruct H as (_&_&_&_&_&[D|N]).
    + destruct D as (_&_&_&_&_&_&_&_&_&_&[->|[-> _]]); [destruct Hin|destruct Hin as [?|[]]; discriminate].
    + destruct N as (_&_&_&_&_&->&_). apply in_map_iff in Hin as (? & ? & _). discriminate.
  - apply on_timer_shape in H as (_ & _ & [->|[-> _]]).
    + destruct Hin as [H|[]]. injection H as _ <-. pose proof (si_rto _ _ I). lra.
    + destruct Hin as [H|[H|[]]]; [discriminate|]. injection H as _ <-. pose proof (si_rto _ _ I). lra.
  - apply on_storecb_shape in H as (-> & _). destruct Hin.
  - apply send_guard in H; [|exact Hm]. destruct H as (n & -> & _). exfalso. clear -Hin.
    revert Hin. generalize (next_seq (set_store s (tokens s) (pend s) false false)) as i.
    induction n as [|n IH]; intros i; cbn [segs app In]; [tauto|]. intros [H|[H|H]]; [discriminate|discriminate|eauto].
Qed.

Definition sev_extra (s s' : sender) (e : event) : list aev :=
  (if (pend s <? pend s')%nat then [ASenderCb] else []) ++
  (if wake s' && negb (match e with EWake => false | _ => wake s end) then [ASenderWake] else []).

Lemma sender_event_spec lc st e :
  lc_fx lc = repaired -> 0 < mss (lc_cfg lc) -> SInv (lc_cfg lc) (l_snd st) -> enabled (l_snd st) e ->
  exists st' s' o,
    sender_event lc st e = inl st' /\ step repaired (lc_cfg lc) (l_snd st) e = Ok s' o /\
    l_snd st' = norm_sender s' /\ l_now st' = l_now st /\ l_sink st' = l_sink st /\ l_wa st' = l_wa st /\
    l_oracle st' = l_oracle st /\
    (exists evs, Adds (l_now st) (l_agenda st) (l_agenda st') (evs ++ sev_extra (l_snd st) (norm_sender s') e) /\
                 Forall (out_ev o) evs /\
                 (forall id r, In (TStart id r) o -> In (ATimerInit id) evs) /\
                 (forall id r, In (TRestart id r) o -> In (ATimerFire id) evs)) /\
    (exists l, wd_items (l_wd st') = wd_items (l_wd st) ++ l /\ forall id, In id l -> exists z, In (Tx id z) o) /\
    wd_waiting (l_wd st') = wd_waiting (l_wd st) /\
    pkt_mono (l_now st) o (l_pkt st) (l_pkt st').
Proof.
  intros Hfx Hm I He. destruct (step_enabled_ok _ _ _ Hm I He) as (s' & o & Hstep).
  pose proof (step_restart_ok _ _ _ _ _ Hm I Hstep) as Hr.
  unfold sender_event. rewrite Hfx, Hstep.
  set (st0 := set_snd st (norm_sender s')).
  destruct (do_outs_spec lc o st0 Hr) as (S1 & (ev1 & A1 & F1 & I1 & R1) & (l1 & L1 & L1') & W1 & M1).
  set (st1 := do_outs lc st0 o) in *.
  destruct S1 as (N1 & SN1 & SK1 & WA1 & OR1).
  change (l_now st0) with (l_now st) in *. change (l_agenda st0) with (l_agenda st) in *.
  change (l_wd st0) with (l_wd st) in *. change (l_pkt st0) with (l_pkt st) in *.
  change (l_snd st0) with (norm_sender s') in *. change (l_sink st0) with (l_sink st) in *.
  change (l_wa st0) with (l_wa st) in *. change (l_oracle st0) with (l_oracle st) in *.
  set (st2 := if (pend (l_snd st) <? pend (norm_sender s'))%nat then sched st1 (l_now st) 1 ASenderCb else st1).
  assert (A2 : Adds (l_now st) (l_agenda st1) (l_agenda st2)
                    (if (pend (l_snd st) <? pend (norm_sender s'))%nat then [ASenderCb] else [])).
  { subst st2. destruct (pend (l_snd st) <? pend (norm_sender s'))%nat; [|constructor].
    rewrite <- N1. apply sched_Adds. rewrite N1. apply Qle_refl. }
  assert (S2 : l_now st2 = l_now st /\ l_snd st2 = norm_sender s' /\ l_sink st2 = l_sink st /\ l_wa st2 = l_wa st /\
               l_oracle st2 = l_oracle st /\ l_wd st2 = l_wd st1 /\ l_pkt st2 = l_pkt st1).
  { subst st2. destruct (pend (l_snd st) <? pend (norm_sender s'))%nat; lproj; repeat split; auto. }
  destruct S2 as (N2 & SN2 & SK2 & WA2 & OR2 & WD2 & PK2).
  set (b := wake (norm_sender s') && negb (match e with EWake => false | _ => wake (l_snd st) end)).
  set (st3 := if b then sched st2 (l_now st) 1 ASenderWake else st2).
  assert (A3 : Adds (l_now st) (l_agenda st2) (l_agenda st3) (if b then [ASenderWake] else [])).
  { subst st3. destruct b; [|constructor]. rewrite <- N2. apply sched_Adds. rewrite N2. apply Qle_refl. }
  assert (S3 : l_now st3 = l_now st /\ l_snd st3 = norm_sender s' /\ l_sink st3 = l_sink st /\ l_wa st3 = l_wa st /\
               l_oracle st3 = l_oracle st /\ l_wd st3 = l_wd st1 /\ l_pkt st3 = l_pkt st1).
  { subst st3. destruct b; lproj; repeat split; auto. }
  destruct S3 as (N3 & SN3 & SK3 & WA3 & OR3 & WD3 & PK3).
  eexists. exists s', o. split; [reflexivity|]. lproj. split; [reflexivity|].
  split; [exact SN3|]. split; [exact N3|]. split; [exact SK3|]. split; [exact WA3|]. split; [exact OR3|].
  split.
  { exists ev1. split; [|auto]. unfold sev_extra. fold b.
    eapply Adds_trans; [exact A1|]. eapply Adds_trans; [exact A2|exact A3]. }
  rewrite WD3, PK3. split; [exists l1; auto|]. split; [exact W1|exact M1].
Qed.

Definition benign (e : aev) : Prop :=
  match e with AWireGetA _ _ _ _ | AWireOutA _ _ _ _ | AWireGetD _ | AWireOutD _ => False | _ => True end.

Lemma out_ev_plain o e : out_ev o e -> is_wake e = false /\ is_cb e = false /\ benign e.
Proof. intros [->|[(id & r & -> & _)|(id & r & -> & _)]]; repeat split. Qed.

Lemma ecount_zero p l : Forall (fun e => p e = false) l -> ecount p l = O.
Proof. unfold ecount. induction 1 as [|x l Hx Hl IH]; cbn [filter]; [reflexivity|]. rewrite Hx. exact IH. Qed.

Lemma pkt_mono_keeps now o m m' j : pkt_mono now o m m' -> pkt_get j m <> None -> pkt_get j m' <> None.
Proof. intros [M _] H. destruct (M j) as [E|(c & z & _ & E)]; rewrite E; [exact H|discriminate]. Qed.

(* the time/packet part of the invariant survives anything that only adds benign agenda entries,
   appends transmitted segments to the data wire and stamps their packets with the current time *)
Lemma T_after_outs st st' o evs :
  l_now st' = l_now st -> l_wa st' = l_wa st ->
  Adds (l_now st) (l_agenda st) (l_agenda st') evs -> Forall benign evs ->
  (exists l, wd_items (l_wd st') = wd_items (l_wd st) ++ l /\ forall id, In id l -> exists z, In (Tx id z) o) ->
  pkt_mono (l_now st) o (l_pkt st) (l_pkt st') ->
  LInvT st -> LInvT st'.
Proof.
  intros Hn Hwa Ha Hb (l & Hl & Hl') Hm [Ts Tf Tp Tw Te Td Tk]. constructor; rewrite ?Hn, ?Hwa; auto.
  - eapply Adds_sorted; eauto.
  - eapply Adds_future; eauto.
  - intros id t c H. destruct Hm as [M _]. destruct (M id) as [E|(c' & z & _ & E)]; rewrite E in H.
    + eapply Tp; eauto.
    + injection H as <- _. apply Qle_refl.
  - apply Forall_forall. intros a Hin. destruct (Adds_In_new _ _ _ _ _ Ha Hin) as [Hold|[Hnew _]].
    + rewrite Forall_forall in Te. apply Te, Hold.
    + rewrite Forall_forall in Hb. specialize (Hb _ Hnew). destruct (ae_ev a); cbn in *; auto; contradiction.
  - rewrite Hl. apply Forall_app. split.
    + eapply Forall_impl; [|exact Td]. intros id. apply pkt_mono_keeps with (1 := Hm).
    + apply Forall_forall. intros id Hid. destruct (Hl' id Hid) as (z & Hz). destruct Hm as [_ M2].
      destruct (M2 id z Hz) as (c & E). rewrite E. discriminate.
  - apply Forall_forall. intros a Hin. destruct (Adds_In_new _ _ _ _ _ Ha Hin) as [Hold|[Hnew _]].
    + rewrite Forall_forall in Tk. specialize (Tk _ Hold). destruct (ae_ev a); cbn in *; auto; eapply pkt_mono_keeps; eauto.
    + rewrite Forall_forall in Hb. specialize (Hb _ Hnew). destruct (ae_ev a); cbn in *; auto; contradiction.
Qed.

Lemma sev_extra_benign s s' e : Forall benign (sev_extra s s' e).
Proof.
  unfold sev_extra. apply Forall_app. split.
  - destruct (pend s <? pend s')%nat; repeat constructor.
  - destruct (wake s' && _); repeat constructor.
Qed.

(* one sender event inside the loop: it is defined, and the whole invariant is re-established *)
Lemma sender_event_inv lc st e ev :
  lc_fx lc = repaired -> 0 < mss (lc_cfg lc) -> LInvA lc st (Some ev) -> sample_ok e ->
  (match e with
   | EWake => ev = ASenderWake
   | EStoreCb => ev = ASenderCb
   | EExpire id => ev = ATimerFire id /\ has_timer id (timers (l_snd st)) = true
   | EAck _ _ _ _ => is_wake ev = false /\ is_cb ev = false
   end) ->
  exists st', sender_event lc st e = inl st' /\ LInvA lc st' None /\
              l_now st' = l_now st /\ l_sink st' = l_sink st /\ l_wa st' = l_wa st.
Proof.
  intros Hfx Hm [Is Iw Ic It] Hs Hev.
  assert (He : enabled (l_snd st) e).
  { destruct e as [ackno pid sample o|id| |]; cbn [enabled]; auto.
    - apply Hev.
    - subst ev. cbn [is_cb b2n] in Ic. lia.
    - subst ev. cbn [is_wake b2n] in Iw. destruct (wake (l_snd st)); [reflexivity|cbn [b2n] in Iw; lia]. }
  destruct (sender_event_spec lc st e Hfx Hm Is He) as
      (st' & s' & o & Hse & Hstep & Hsn & Hn & Hsk & Hwa & Hor & (evs & Ha & Hf & _ & _) & Hl & Hw & Hpm).
  exists st'. split; [exact Hse|]. split; [|auto].
  assert (Is' : SInv (lc_cfg lc) (norm_sender s')) by (apply norm_sinv; eapply step_sinv; eauto).
  assert (Pl : Forall (fun x => is_wake x = false) evs /\ Forall (fun x => is_cb x = false) evs /\ Forall benign evs).
  { repeat split; eapply Forall_impl; try exact Hf; intros x Hx; apply (out_ev_plain o x Hx). }
  destruct Pl as (Pw & Pc & Pb).
  constructor.
  - rewrite Hsn. exact Is'.
  - (* wake count *)
    rewrite (Adds_count _ _ _ _ is_wake Ha), ecount_app, (ecount_zero _ _ Pw). rewrite Hsn. unfold sev_extra.
    rewrite ecount_app.
    assert (E1 : ecount is_wake (if (pend (l_snd st) <? pend (norm_sender s'))%nat then [ASenderCb] else []) = O)
      by (destruct (_ <? _)%nat; reflexivity).
    rewrite E1. change (wake (norm_sender s')) with (wake s').
    destruct e as [ackno pid sample orc|id| |]; cbn [step] in Hstep.
    + destruct Hev as [Ew _]. rewrite Ew in Iw. cbn [b2n] in Iw.
      apply on_ack_shape in Hstep; [|apply Is]. destruct Hstep as (_ & _ & Wk & _). rewrite Wk.
      destruct (wake (l_snd st)); cbn [andb negb ecount filter length is_wake b2n] in *; lia.
    + destruct Hev as [-> _]. cbn [is_wake b2n] in Iw.
      apply on_timer_shape in Hstep as (_ & -> & _). proj.
      destruct (wake (l_snd st)); cbn [andb negb ecount filter length is_wake b2n] in *; lia.
    + subst ev. cbn [is_wake b2n] in Iw.
      apply on_storecb_shape in Hstep as (_ & p & _ & [(Wt & _ & ->)|(_ & ->)]); proj.
      * assert (Hwk : wake (l_snd st) = false).
        { destruct (wake (l_snd st)) eqn:E; [|reflexivity]. destruct (si_wake _ _ Is E) as [_ Hx]. congruence. }
        rewrite Hwk in *. cbn [andb negb ecount filter length is_wake b2n] in *. lia.
      * destruct (wake (l_snd st)); cbn [andb negb ecount filter length is_wake b2n] in *; lia.
    + subst ev. cbn [is_wake b2n] in Iw. cbn [negb]. rewrite andb_true_r.
      assert (Z0 : acount is_wake (l_agenda st) = O) by (destruct (wake (l_snd st)); cbn [b2n] in Iw; lia).
      destruct (wake s'); cbn [ecount filter length is_wake b2n]; lia.
  - (* store callback count *)
    rewrite (Adds_count _ _ _ _ is_cb Ha), ecount_app, (ecount_zero _ _ Pc). rewrite Hsn. unfold sev_extra.
    rewrite ecount_app.
    assert (E1 : ecount is_cb (if wake (norm_sender s') && negb match e with EWake => false | _ => wake (l_snd st) end then [ASenderWake] else []) = O)
      by (destruct (_ && _); reflexivity).
    rewrite E1. change (pend (norm_sender s')) with (pend s').
    destruct e as [ackno pid sample orc|id| |]; cbn [step] in Hstep.
    + destruct Hev as [_ Ec]. rewrite Ec in Ic. cbn [b2n] in Ic.
      apply on_ack_shape in Hstep; [|apply Is]. destruct Hstep as (_ & _ & _ & _ & _ & [D|N]).
      * destruct D as (_&_&_&_&_&_&_&_&_&Pd&_). rewrite Pd. rewrite Nat.ltb_irrefl. cbn [ecount filter length]. lia.
      * destruct N as (_&_&_&_&_&_&_&_&_&_&Pd). rewrite Pd.
        replace (pend (l_snd st) <? S (pend (l_snd st)))%nat with true by (symmetry; apply Nat.ltb_lt; lia).
        cbn [ecount filter length is_cb]. lia.
    + destruct Hev as [-> _]. cbn [is_cb b2n] in Ic.
      apply on_timer_shape in Hstep as (_ & -> & _). proj. rewrite Nat.ltb_irrefl. cbn [ecount filter length]. lia.
    + subst ev. cbn [is_cb b2n] in Ic.
      apply on_storecb_shape in Hstep as (_ & p & Hp & [(_ & _ & ->)|(_ & ->)]); proj; rewrite Hp in *;
        (replace (S p <? p)%nat with false by (symmetry; apply Nat.ltb_ge; lia)); cbn [ecount filter length]; lia.
    + subst ev. cbn [is_cb b2n] in Ic.
      pose proof Hstep as H0. unfold on_wake in H0. destruct (wake (l_snd st) && negb (finished (l_snd st))); [|discriminate].
      apply send_loop_flags in H0 as (Pd & _). proj. rewrite Pd. rewrite Nat.ltb_irrefl. cbn [ecount filter length]. lia.
  - eapply (T_after_outs st st' o); eauto.
    apply Forall_app. split; [exact Pb|apply sev_extra_benign].
Qed.

(* ---- scheduling one more agenda entry ---- *)
Lemma sched_T st t p e :
  (l_now st <= t)%Q -> ev_time_ok (l_now st) e -> ev_pkt_ok (l_pkt st) e -> LInvT st -> LInvT (sched st t p e).
Proof.
  intros Ht He Hp [Ts Tf Tpk Tw Te Td Tk].
  pose proof (sched_Adds st t p e Ht) as Ha.
  constructor; lproj; auto.
  - eapply Adds_sorted; eauto.
  - eapply Adds_future; eauto.
  - apply Forall_forall. intros a Hin. apply ainsert_In in Hin as [->|Hin]; [exact He|]. rewrite Forall_forall in Te. auto.
  - apply Forall_forall. intros a Hin. apply ainsert_In in Hin as [->|Hin]; [exact Hp|]. rewrite Forall_forall in Tk. auto.
Qed.

Lemma sched_A lc st t p e ev0 :
  (l_now st <= t)%Q -> is_wake e = false -> is_cb e = false ->
  ev_time_ok (l_now st) e -> ev_pkt_ok (l_pkt st) e -> LInvA lc st ev0 -> LInvA lc (sched st t p e) ev0.
Proof.
  intros Ht Hw Hc He Hp [Is Iw Ic It]. constructor.
  - exact Is.
  - change (l_snd (sched st t p e)) with (l_snd st). rewrite <- Iw. unfold sched; lproj. rewrite ainsert_count. cbn [ae_ev]. rewrite Hw. reflexivity.
  - change (l_snd (sched st t p e)) with (l_snd st). rewrite <- Ic. unfold sched; lproj. rewrite ainsert_count. cbn [ae_ev]. rewrite Hc. reflexivity.
  - apply sched_T; auto.
Qed.

Lemma LInvA_done lc st e : is_wake e = false -> is_cb e = false -> LInvA lc st (Some e) -> LInvA lc st None.
Proof. intros Hw Hc [Is Iw Ic It]. rewrite Hw in Iw. rewrite Hc in Ic. cbn [b2n] in *. constructor; auto. Qed.

(* ---- the wires ---- *)
Lemma wd_get_A lc st : LInvA lc st None -> LInvA lc (wd_get st) None.
Proof.
  intros I. unfold wd_get. destruct (wd_items (l_wd st)) as [|x rest] eqn:E.
  - destruct I as [Is Iw Ic [Ts Tf Tpk Tw Te Td Tk]]. constructor; lproj; auto. constructor; lproj; auto.
  - assert (Hx : pkt_get x (l_pkt st) <> None /\ Forall (fun id => pkt_get id (l_pkt st) <> None) rest).
    { destruct I as [_ _ _ [_ _ _ _ _ Td _]]. rewrite E in Td. inversion Td; auto. }
    destruct Hx as [Hx Hrest].
    apply sched_A; lproj; try reflexivity; try exact Logic.I; try exact Hx; try apply Qle_refl.
    destruct I as [Is Iw Ic [Ts Tf Tpk Tw Te Td Tk]]. constructor; lproj; auto. constructor; lproj; auto.
Qed.

Lemma wa_get_A lc st : LInvA lc st None -> LInvA lc (wa_get st) None.
Proof.
  intros I. unfold wa_get. destruct (wa_items (l_wa st)) as [|x rest] eqn:E.
  - destruct I as [Is Iw Ic [Ts Tf Tpk Tw Te Td Tk]]. constructor; lproj; auto. constructor; lproj; auto.
  - assert (Hx : (a_time x <= l_now st)%Q /\ Forall (fun r => (a_time r <= l_now st)%Q) rest).
    { destruct I as [_ _ _ [_ _ _ Tw _ _ _]]. rewrite E in Tw. inversion Tw; auto. }
    destruct Hx as [Hx Hrest].
    apply sched_A; lproj; try reflexivity; try exact Logic.I; try exact Hx; try apply Qle_refl.
    destruct I as [Is Iw Ic [Ts Tf Tpk Tw Te Td Tk]]. constructor; lproj; auto. constructor; lproj; auto.
Qed.

Lemma deliver_data_A lc st id :
  pkt_get id (l_pkt st) <> None -> LInvA lc st None ->
  exists st', deliver_data lc st id = inl st' /\ LInvA lc st' None /\ l_now st' = l_now st /\ l_snd st' = l_snd st.
Proof.
  intros Hp I. unfold deliver_data. destruct (pkt_get id (l_pkt st)) as [[tm ct]|] eqn:E; [|contradiction].
  assert (Htm : (tm <= l_now st)%Q) by (destruct I as [_ _ _ [_ _ Tpk _ _ _ _]]; eapply Tpk; eauto).
  destruct (existsb (Nat.eqb (l_n2 st)) (lc_drop_ack lc)).
  - eexists. split; [reflexivity|]. split; [|split; reflexivity].
    destruct I as [Is Iw Ic [Ts Tf Tpk Tw Te Td Tk]]. constructor; lproj; auto. constructor; lproj; auto.
  - eexists. split; [reflexivity|]. split; [|split; reflexivity].
    apply sched_A; lproj; try reflexivity; try exact Logic.I; try apply Qle_refl.
    destruct I as [Is Iw Ic [Ts Tf Tpk Tw Te Td Tk]]. constructor; lproj; auto. constructor; lproj; auto.
    apply Forall_app. split; [exact Tw|]. constructor; [exact Htm|constructor].
Qed.

Lemma nq_nonneg a b : (b <= a)%Q -> (0 <= nq (a - b))%Q.
Proof. intros H. rewrite nq_eq. lra. Qed.

Lemma deliver_ack_A lc st ackno pid tm ev :
  lc_fx lc = repaired -> 0 < mss (lc_cfg lc) -> is_wake ev = false -> is_cb ev = false ->
  (tm <= l_now st)%Q -> LInvA lc st (Some ev) ->
  exists st', deliver_ack lc st ackno pid tm = inl st' /\ LInvA lc st' None /\ l_now st' = l_now st.
Proof.
  intros Hfx Hm Hw Hc Htm I. unfold deliver_ack.
  set (st1 := mkls _ _ _ _ _ _ _ _ _ _ (tl (l_oracle st)) _ _ _).
  assert (I1 : LInvA lc st1 (Some ev)).
  { destruct I as [Is Iw Ic [Ts Tf Tpk Tw Te Td Tk]]. constructor; subst st1; lproj; auto. constructor; lproj; auto. }
  destruct (sender_event_inv lc st1 (EAck ackno pid (nq (l_now st - tm)) (hd 0%Q (l_oracle st))) ev Hfx Hm I1) as (st' & H1 & H2 & H3 & _).
  - cbn [sample_ok]. apply nq_nonneg. exact Htm.
  - split; assumption.
  - exists st'. split; [exact H1|]. split; [exact H2|exact H3].
Qed.

(* ---- one agenda entry ---- *)
Record lc_ok (lc : lcfg) : Prop := {
  ok_fx : lc_fx lc = repaired;
  ok_mss : 0 < mss (lc_cfg lc);
  ok_delay : (0 <= lc_delay lc)%Q
}.

Lemma handle_A lc st ev :
  lc_ok lc -> LInvA lc st (Some ev) -> ev_time_ok (l_now st) ev -> ev_pkt_ok (l_pkt st) ev ->
  exists st', handle lc st ev = inl st' /\ LInvA lc st' None /\ l_now st' = l_now st.
Proof.
  intros [Hfx Hm Hd] HI Het Hep. destruct ev as [| |id|id|w|w|id|id|ackno pid tm ct|ackno pid tm ct]; cbn [handle].
  - destruct (sender_event_inv lc st EWake ASenderWake Hfx Hm HI Logic.I eq_refl) as (st' & A & B & C & _). eauto.
  - destruct (sender_event_inv lc st EStoreCb ASenderCb Hfx Hm HI Logic.I eq_refl) as (st' & A & B & C & _). eauto.
  - (* Timer Initialize *)
    destruct (find (fun p => fst p =? id) (timers (l_snd st))) as [[k r]|] eqn:Ef.
    + apply find_some in Ef as [Hin _].
      assert (Hr : (0 < r)%Q).
      { destruct HI as [Is _ _ _]. pose proof (si_armed _ _ Is) as Ha. rewrite Forall_forall in Ha. apply (Ha _ Hin). }
      eexists. split; [reflexivity|]. split; [|reflexivity].
      apply sched_A; try reflexivity; try exact Logic.I; [lra|]. eapply LInvA_done; eauto; reflexivity.
    + eexists. split; [reflexivity|]. split; [|reflexivity]. eapply LInvA_done; eauto; reflexivity.
  - (* Timer Timeout *)
    destruct (has_timer id (timers (l_snd st))) eqn:Eh.
    + destruct (sender_event_inv lc st (EExpire id) (ATimerFire id) Hfx Hm HI Logic.I (conj eq_refl Eh)) as (st' & A & B & C & _). eauto.
    + eexists. split; [reflexivity|]. split; [|reflexivity]. eapply LInvA_done; eauto; reflexivity.
  - destruct w; eexists; (split; [reflexivity|]); (split; [|unfold wa_get, wd_get; repeat match goal with |- context [match ?x with _ => _ end] => destruct x end; reflexivity]).
    + apply wa_get_A. eapply LInvA_done; eauto; reflexivity.
    + apply wd_get_A. eapply LInvA_done; eauto; reflexivity.
  - assert (I0 : LInvA lc st None) by (eapply LInvA_done; eauto; destruct w; reflexivity).
    destruct w.
    + destruct (wa_waiting (l_wa st)); eexists; (split; [reflexivity|]); (split; [|unfold wa_get; repeat match goal with |- context [match ?x with _ => _ end] => destruct x end; reflexivity]); [apply wa_get_A|]; exact I0.
    + destruct (wd_waiting (l_wd st)); eexists; (split; [reflexivity|]); (split; [|unfold wd_get; repeat match goal with |- context [match ?x with _ => _ end] => destruct x end; reflexivity]); [apply wd_get_A|]; exact I0.
  - (* data wire: packet granted *)
    assert (I0 : LInvA lc st None) by (eapply LInvA_done; eauto; reflexivity).
    cbn [ev_pkt_ok] in Hep. destruct (pkt_get id (l_pkt st)) as [[tm ct]|] eqn:Ep; [|contradiction].
    destruct (Qltb (l_now st - wd_entered (l_wd st)) (lc_delay lc)) eqn:Eq.
    + apply Qltb_true in Eq. eexists. split; [reflexivity|]. split; [|reflexivity].
      apply sched_A; try reflexivity; try exact Logic.I; [lra| |exact I0]. cbn [ev_pkt_ok]. rewrite Ep. discriminate.
    + destruct (deliver_data_A lc st id) as (st1 & D1 & D2 & D3 & _); [rewrite Ep; discriminate|exact I0|].
      rewrite D1. cbn [bind]. eexists. split; [reflexivity|]. split; [apply wd_get_A; exact D2|].
      unfold wd_get. destruct (wd_items (l_wd st1)); lproj; exact D3.
  - assert (I0 : LInvA lc st None) by (eapply LInvA_done; eauto; reflexivity).
    destruct (deliver_data_A lc st id) as (st1 & D1 & D2 & D3 & _); [exact Hep|exact I0|].
    rewrite D1. cbn [bind]. eexists. split; [reflexivity|]. split; [apply wd_get_A; exact D2|].
    unfold wd_get. destruct (wd_items (l_wd st1)); lproj; exact D3.
  - (* ACK wire: packet granted *)
    cbn [ev_time_ok] in Het.
    destruct (Qltb (l_now st - ct) (lc_delay lc)) eqn:Eq.
    + apply Qltb_true in Eq. eexists. split; [reflexivity|]. split; [|reflexivity].
      apply sched_A; try reflexivity; try exact Logic.I; [lra|exact Het|]. eapply LInvA_done; eauto; reflexivity.
    + destruct (deliver_ack_A lc st ackno pid tm (AWireGetA ackno pid tm ct) Hfx Hm eq_refl eq_refl Het HI) as (st1 & D1 & D2 & D3).
      rewrite D1. cbn [bind]. eexists. split; [reflexivity|]. split; [apply wa_get_A; exact D2|].
      unfold wa_get. destruct (wa_items (l_wa st1)); lproj; exact D3.
  - cbn [ev_time_ok] in Het.
    destruct (deliver_ack_A lc st ackno pid tm (AWireOutA ackno pid tm ct) Hfx Hm eq_refl eq_refl Het HI) as (st1 & D1 & D2 & D3).
    rewrite D1. cbn [bind]. eexists. split; [reflexivity|]. split; [apply wa_get_A; exact D2|].
    unfold wa_get. destruct (wa_items (l_wa st1)); lproj; exact D3.
Qed.

(* ---- taking the next entry off the agenda ---- *)
Definition popped (st : lstate) (a : aentry) (rest : list aentry) : lstate :=
  mkls (ae_time a) (l_seq st) rest (l_snd st) (l_sink st) (l_pkt st) (l_wd st) (l_wa st)
       (l_n1 st) (l_n2 st) (l_oracle st) (l_slog st) (l_d1 st) (l_d2 st).

Lemma pop_A lc st a rest :
  LInvA lc st None -> l_agenda st = a :: rest ->
  LInvA lc (popped st a rest) (Some (ae_ev a)) /\ ev_time_ok (ae_time a) (ae_ev a) /\ ev_pkt_ok (l_pkt st) (ae_ev a) /\
  (l_now st <= ae_time a)%Q.
Proof.
  intros [Is Iw Ic [Ts Tf Tpk Tw Te Td Tk]] E. rewrite E in *.
  assert (Hna : (l_now st <= ae_time a)%Q) by (inversion Tf; assumption).
  assert (Mono : forall e, ev_time_ok (l_now st) e -> ev_time_ok (ae_time a) e).
  { intros e. destruct e; cbn [ev_time_ok]; auto; intros; lra. }
  split; [|split; [|split]].
  - constructor; unfold popped; lproj; auto.
    + rewrite <- Iw. unfold acount. cbn [filter]. destruct (is_wake (ae_ev a)); cbn [length b2n]; lia.
    + rewrite <- Ic. unfold acount. cbn [filter]. destruct (is_cb (ae_ev a)); cbn [length b2n]; lia.
    + constructor; lproj.
      * cbn [asorted] in Ts. apply Ts.
      * cbn [asorted] in Ts. apply Ts.
      * intros id t c H. specialize (Tpk id t c H). lra.
      * eapply Forall_impl; [|exact Tw]. intros r Hr. cbn beta in *. lra.
      * inversion Te; subst. eapply Forall_impl; [|eassumption]. intros b. apply Mono.
      * exact Td.
      * inversion Tk; assumption.
  - inversion Te; subst. apply Mono. assumption.
  - inversion Tk; assumption.
  - exact Hna.
Qed.

Lemma lstep_A lc st r :
  lc_ok lc -> LInvA lc st None -> lstep lc st = Some r ->
  exists st', r = inl st' /\ LInvA lc st' None /\ (l_now st <= l_now st')%Q.
Proof.
  intros Hok HI. unfold lstep. destruct (l_agenda st) as [|a rest] eqn:E; [discriminate|].
  intros H; injection H as <-. destruct (pop_A lc st a rest HI E) as (P1 & P2 & P3 & P4).
  destruct (handle_A lc (popped st a rest) (ae_ev a) Hok P1 P2 P3) as (st' & H1 & H2 & H3).
  exists st'. split; [exact H1|]. split; [exact H2|]. rewrite H3. exact P4.
Qed.

(* the states the loop can be in *)
Inductive lreach (lc : lcfg) (st0 : lstate) : lstate -> Prop :=
| reach_init : lreach lc st0 st0
| reach_step st st' : lreach lc st0 st -> lstep lc st = Some (inl st') -> lreach lc st0 st'.

Lemma linit_A lc cw ss rtt0 orc :
  (zq (mss (lc_cfg lc)) <= cw)%Q -> (0 < rtt0)%Q -> LInvA lc (linit cw ss rtt0 orc) None.
Proof.
  intros Hc Hr. constructor; unfold linit; lproj.
  - apply init_sinv; assumption.
  - reflexivity.
  - reflexivity.
  - constructor; lproj.
    + cbn [asorted ae_time]. repeat split; repeat constructor; apply Qle_refl.
    + repeat constructor; apply Qle_refl.
    + intros id t c H. discriminate.
    + constructor.
    + repeat constructor.
    + constructor.
    + repeat constructor.
Qed.

Lemma reach_A lc cw ss rtt0 orc st :
  lc_ok lc -> (zq (mss (lc_cfg lc)) <= cw)%Q -> (0 < rtt0)%Q ->
  lreach lc (linit cw ss rtt0 orc) st -> LInvA lc st None.
Proof.
  intros Hok Hc Hr. induction 1 as [|st st' Hreach IH Hstep]; [apply linit_A; assumption|].
  destruct (lstep_A lc st _ Hok IH Hstep) as (st2 & E & H2 & _). injection E as <-. exact H2.
Qed.

Lemma lrun_reach lc st0 : forall fuel st, lreach lc st0 st -> lreach lc st0 (lfinal (lrun fuel lc st)).
Proof.
  induction fuel as [|f IH]; intros st Hr; cbn [lrun lfinal]; [exact Hr|].
  destruct (l_agenda st) as [|a rest] eqn:E; [exact Hr|].
  destruct (Qle_bool (lc_tmax lc) (ae_time a)); [exact Hr|].
  destruct (lstep lc st) as [[st'|e]|] eqn:Es; cbn [lfinal]; try exact Hr.
  apply IH. eapply reach_step; eauto.
Qed.

(* THE LOOP NEVER RAISES: every dictionary lookup of the repaired sender hits, no division by zero,
   no Timer with a non-positive timeout, no event that cannot occur -- for every flow, delay, drop
   pattern, CUBIC oracle and however long the loop runs *)
Theorem loop_never_raises lc cw ss rtt0 orc :
  lc_ok lc -> (zq (mss (lc_cfg lc)) <= cw)%Q -> (0 < rtt0)%Q ->
  forall fuel st e, lrun fuel lc (linit cw ss rtt0 orc) <> LRaised st e.
Proof.
  intros Hok Hc Hr fuel.
  assert (G : forall fuel st, LInvA lc st None -> forall st' e, lrun fuel lc st <> LRaised st' e).
  { clear fuel. induction fuel as [|f IH]; intros st HI st' e; cbn [lrun]; [discriminate|].
    destruct (l_agenda st) as [|a rest] eqn:E; [discriminate|].
    destruct (Qle_bool (lc_tmax lc) (ae_time a)); [discriminate|].
    destruct (lstep lc st) as [r|] eqn:Es; [|discriminate].
    destruct (lstep_A lc st r Hok HI Es) as (st2 & -> & H2 & _). apply IH. exact H2. }
  intros st e. apply G. apply linit_A; assumption.
Qed.

(* and the unrepaired sender does raise in the loop: one segment, RTO below the round-trip time *)
Definition lc_found : lcfg := mklcfg (mkfx true false false) (mkcfg 1000 1000 Reno) (5 # 2) [] [] (1048576 # 1).
Theorem loop_raises_before_fix :
  exists st, lrun 200 lc_found (linit (1000 # 1) (65535 # 1) (1 # 4) []) = LRaised st (LSender (KeyErr 1000)).
Proof. eexists. vm_compute. reflexivity. Qed.

(* ================================================================================================ *)
(* Part 4: last_ack <= contiguous prefix at the sink <= next_seq;  last_ack never decreases *)

Definition has_ev (st : lstate) (ev : option aev) (e : aev) : Prop :=
  ev = Some e \/ exists a, In a (l_agenda st) /\ ae_ev a = e.

Definition ackno_of (e : aev) : option Z :=
  match e with AWireGetA a _ _ _ | AWireOutA a _ _ _ => Some a | _ => None end.
Definition dataid_of (e : aev) : option Z :=
  match e with AWireGetD id | AWireOutD id => Some id | _ => None end.
Definition is_holdA (e : aev) : bool := match ackno_of e with Some _ => true | None => false end.
Definition is_initA (e : aev) : bool := match e with AWireInit true => true | _ => false end.

Definition seg_ok (c : config) (s : sender) (id : Z) : Prop := 0 <= id /\ id + mss c <= next_seq s.

Fixpoint sortedZ (l : list Z) : Prop :=
  match l with [] => True | x :: t => Forall (fun y => x <= y) t /\ sortedZ t end.

Definition opt_count (p : aev -> bool) (ev : option aev) : nat :=
  match ev with Some e => b2n (p e) | None => O end.

Record LInvB (lc : lcfg) (st : lstate) (ev : option aev) : Prop := {
  lb_ns : 0 <= next_seq (l_snd st);
  lb_sent : Forall (seg_ok (lc_cfg lc) (l_snd st)) (sent (l_snd st));
  lb_sink : exists hist, Inv hist (l_sink st) /\ prefix_len hist (nse (l_sink st)) /\
                         Forall (fun g => snd g = mss (lc_cfg lc) /\ seg_ok (lc_cfg lc) (l_snd st) (fst g)) hist;
  lb_wd : Forall (seg_ok (lc_cfg lc) (l_snd st)) (wd_items (l_wd st));
  lb_evd : forall e id, has_ev st ev e -> dataid_of e = Some id -> seg_ok (lc_cfg lc) (l_snd st) id;
  lb_eva : forall e a, has_ev st ev e -> ackno_of e = Some a ->
                       last_ack (l_snd st) <= a <= nse (l_sink st) /\ Forall (fun r => a <= a_no r) (wa_items (l_wa st));
  lb_wa : Forall (fun r => last_ack (l_snd st) <= a_no r <= nse (l_sink st)) (wa_items (l_wa st));
  lb_wa_sorted : sortedZ (map a_no (wa_items (l_wa st)));
  lb_ctl : (acount is_holdA (l_agenda st) + opt_count is_holdA ev + acount is_initA (l_agenda st) + opt_count is_initA ev
            + b2n (wa_waiting (l_wa st)))%nat = 1%nat;
  lb_la : last_ack (l_snd st) <= nse (l_sink st)
}.

(* the prefix of arrivals that all end at or below N is at most N *)
Lemma prefix_le_bound hist n N :
  prefix_len hist n -> 0 <= N -> (forall g, In g hist -> fst g + snd g <= N) -> n <= N.
Proof.
  intros (H0 & Hcov & _) HN Hb. destruct (Z_le_gt_dec n N) as [|Hgt]; [assumption|]. exfalso.
  assert (Hc : covered hist (n - 1)) by (apply Hcov; lia).
  destruct Hc as (g & Hg & Hr). specialize (Hb g Hg). lia.
Qed.

Lemma LInvB_nse_le lc st ev : 0 < mss (lc_cfg lc) -> LInvB lc st ev -> nse (l_sink st) <= next_seq (l_snd st).
Proof.
  intros Hm B. destruct (lb_sink _ _ _ B) as (hist & _ & Hp & Hf).
  eapply prefix_le_bound; [exact Hp|apply B|]. intros g Hg. rewrite Forall_forall in Hf.
  destruct (Hf g Hg) as (Hs & _ & Hle). rewrite Hs. exact Hle.
Qed.

Lemma seg_ok_mono c s s' id : next_seq s <= next_seq s' -> seg_ok c s id -> seg_ok c s' id.
Proof. unfold seg_ok. lia. Qed.

Lemma segs_tx_in m id n r i z : In (Tx i z) (segs m id n r) -> In i (seg_ids m id n).
Proof.
  revert id. induction n as [|n IH]; intros id; cbn [segs seg_ids In]; [tauto|].
  intros [H|[H|H]]; [injection H as <- _; left; reflexivity|discriminate|right; eauto].
Qed.

(* what a sender transition does to next_seq, to the ids in flight, to last_ack; what it transmits *)
Lemma step_seg c s e s' o :
  0 < mss c -> 0 <= dupack s -> 0 <= next_seq s -> Forall (seg_ok c s) (sent s) ->
  step repaired c s e = Ok s' o ->
  next_seq s <= next_seq s' /\ Forall (seg_ok c s') (sent s') /\
  (forall id z, In (Tx id z) o -> seg_ok c s' id) /\
  (last_ack s' = last_ack s \/ exists ackno pid sample orc, e = EAck ackno pid sample orc /\ last_ack s' = ackno).
Proof.
  intros Hm Hd H0 Hs H. destruct e as [ackno pid sample orc|id| |]; cbn [step] in H.
  - apply on_ack_shape in H; [|exact Hd]. destruct H as (N & _ & _ & _ & _ & [D|Nw]).
    + destruct D as (_ & L & _ & _ & S & _ & _ & _ & _ & _ & O).
      split; [lia|]. split; [rewrite S; eapply Forall_impl; [|exact Hs]; intros i; apply seg_ok_mono; lia|].
      split; [|left; exact L].
      intros i z Hin. destruct O as [->|(-> & Hi & _)]; [destruct Hin|].
      destruct Hin as [E|[]]. injection E as <- _. rewrite Forall_forall in Hs. eapply seg_ok_mono; [|apply Hs, Hi]. lia.
    + destruct Nw as (_ & L & _ & _ & S & O & _).
      split; [lia|]. split.
      * rewrite S. apply Forall_forall. intros i Hi. apply filter_In in Hi as [Hi _]. rewrite Forall_forall in Hs.
        eapply seg_ok_mono; [|apply Hs, Hi]. lia.
      * split; [|right; exists ackno, pid, sample, orc; auto].
        intros i z Hin. rewrite O in Hin. apply in_map_iff in Hin as (? & ? & _). discriminate.
  - apply on_timer_shape in H as (_ & -> & O). proj. split; [lia|]. split; [exact Hs|]. split; [|left; reflexivity].
    intros i z Hin. destruct O as [->|(-> & Hi)].
    + destruct Hin as [E|[]]; discriminate.
    + destruct Hin as [E|[E|[]]]; [|discriminate]. injection E as <- _. rewrite Forall_forall in Hs. apply Hs, Hi.
  - apply on_storecb_shape in H as (-> & p & _ & [(_ & _ & ->)|(_ & ->)]); proj; (split; [lia|]); (split; [exact Hs|]); (split; [intros ? ? []|left; reflexivity]).
  - apply send_guard in H; [|exact Hm]. destruct H as (n & -> & Hns & _ & Hse & _ & Hla & _). proj.
    assert (Hle : next_seq s <= next_seq s') by nia.
    assert (Hnew : forall i, In i (seg_ids (mss c) (next_seq s) n) -> seg_ok c s' i).
    { intros i Hi. apply seg_ids_In in Hi as (k & Hk & ->). unfold seg_ok. rewrite Hns. nia. }
    split; [exact Hle|]. split; [|split; [|left; exact Hla]].
    + rewrite Hse. apply Forall_app. split.
      * eapply Forall_impl; [|exact Hs]. intros i. apply seg_ok_mono. exact Hle.
      * apply Forall_forall. exact Hnew.
    + intros i z Hin. cbn [app] in Hin. apply Hnew. eapply segs_tx_in; eauto.
Qed.

Lemma acount_zero p l : acount p l = O -> forall a, In a l -> p (ae_ev a) = false.
Proof.
  unfold acount. induction l as [|x l IH]; cbn [filter]; intros H a Ha; [destruct Ha|].
  destruct (p (ae_ev x)) eqn:E; [cbn [length] in H; lia|]. destruct Ha as [<-|Ha]; [exact E|apply IH; assumption].
Qed.

Lemma sortedZ_app_max l x : sortedZ l -> Forall (fun y => y <= x) l -> sortedZ (l ++ [x]).
Proof.
  induction l as [|y l IH]; cbn [sortedZ app]; [intros _ _; split; [constructor|exact Logic.I]|].
  intros [Hy Hl] Hf. inversion Hf as [|? ? Hyx Hf']; subst. split; [|apply IH; assumption].
  apply Forall_app. split; [exact Hy|]. constructor; [exact Hyx|constructor].
Qed.

Definition plain_ev (e : aev) : Prop := ackno_of e = None /\ dataid_of e = None /\ is_initA e = false.

Lemma out_ev_plain2 o e : out_ev o e -> plain_ev e.
Proof. intros [->|[(id & r & -> & _)|(id & r & -> & _)]]; repeat split. Qed.

Lemma sev_extra_plain s s' e x : In x (sev_extra s s' e) -> plain_ev x.
Proof.
  unfold sev_extra. intros H. apply in_app_or in H as [H|H].
  - destruct (pend s <? pend s')%nat; [destruct H as [<-|[]]; repeat split|destruct H].
  - destruct (wake s' && _); [destruct H as [<-|[]]; repeat split|destruct H].
Qed.

Lemma plain_counts l : Forall plain_ev l -> ecount is_holdA l = O /\ ecount is_initA l = O.
Proof.
  intros H. split; apply ecount_zero; eapply Forall_impl; try exact H; intros e (A & _ & C); [|exact C].
  unfold is_holdA. rewrite A. reflexivity.
Qed.

Lemma sender_event_B lc st e ev st' :
  lc_ok lc -> LInvA lc st (Some ev) -> LInvB lc st (Some ev) -> enabled (l_snd st) e ->
  (match e with
   | EAck ackno _ _ _ => ackno_of ev = Some ackno
   | _ => plain_ev ev
   end) ->
  sender_event lc st e = inl st' -> LInvB lc st' (if is_holdA ev then Some (AWireInit true) else None).
Proof.
  intros [Hfx Hm Hdl] HA HB He Hev Hse.
  destruct (sender_event_spec lc st e Hfx Hm (la_sinv _ _ _ HA) He) as
      (st2 & s' & o & Hse2 & Hstep & Hsn & Hn & Hsk & Hwa & Hor & (evs & Ha & Hf & _ & _) & (l & Hl & Hl') & Hw & Hpm).
  rewrite Hse in Hse2. injection Hse2 as <-.
  destruct HB as [Bns Bsent (hist & Bi & Bp & Bh) Bwd Bevd Beva Bwa Bsort Bctl Bla].
  destruct (step_seg _ _ _ _ _ Hm (proj1 (proj2 (si_win _ _ (la_sinv _ _ _ HA)))) Bns Bsent Hstep) as (Sns & Ssent & Stx & Sla).
  assert (NS : next_seq (l_snd st') = next_seq s') by (rewrite Hsn; reflexivity).
  assert (SE : sent (l_snd st') = sent s') by (rewrite Hsn; reflexivity).
  assert (LA : last_ack (l_snd st') = last_ack s') by (rewrite Hsn; reflexivity).
  assert (Mono : forall id, seg_ok (lc_cfg lc) (l_snd st) id -> seg_ok (lc_cfg lc) (l_snd st') id).
  { intros id. unfold seg_ok. rewrite NS. lia. }
  assert (OK' : forall id, seg_ok (lc_cfg lc) s' id -> seg_ok (lc_cfg lc) (l_snd st') id).
  { intros id. unfold seg_ok. rewrite NS. auto. }
  assert (Pl : Forall plain_ev (evs ++ sev_extra (l_snd st) (norm_sender s') e)).
  { apply Forall_app. split; [eapply Forall_impl; [|exact Hf]; apply out_ev_plain2|].
    apply Forall_forall. intros x. apply sev_extra_plain. }
  (* events of st' are old agenda events or plain new ones *)
  assert (Old : forall x, has_ev st' (if is_holdA ev then Some (AWireInit true) else None) x ->
                          (exists a, In a (l_agenda st) /\ ae_ev a = x) \/ (ackno_of x = None /\ dataid_of x = None)).
  { intros x [H|(a & Hin & <-)]; [destruct (is_holdA ev); [injection H as <-; right; split; reflexivity|discriminate]|].
    destruct (Adds_In_new _ _ _ _ _ Ha Hin) as [H|[H _]]; [left; eauto|right].
    rewrite Forall_forall in Pl. destruct (Pl _ H) as (P1 & P2 & _). split; assumption. }
  (* the new last_ack is bounded by the sink's prefix and by everything still in the ACK pipeline *)
  assert (LAok : last_ack s' <= nse (l_sink st) /\ Forall (fun r => last_ack s' <= a_no r) (wa_items (l_wa st)) /\
                 last_ack (l_snd st) <= last_ack s').
  { destruct Sla as [E|(ackno & pid & sample & orc & -> & E)].
    - rewrite E. split; [exact Bla|]. split; [|lia]. eapply Forall_impl; [|exact Bwa]. intros r; cbn beta; lia.
    - rewrite E. destruct (Beva ev ackno (or_introl eq_refl) Hev) as [[A1 A2] A3]. auto. }
  destruct LAok as (LA1 & LA2 & LA3).
  assert (NoHold : forall a0, In a0 (l_agenda st) -> ackno_of (ae_ev a0) = None \/ (exists k, ackno_of (ae_ev a0) = Some k /\ ackno_of ev = None)).
  { intros a0 Hin. destruct (ackno_of (ae_ev a0)) as [k|] eqn:E; [|left; reflexivity]. right. exists k. split; [reflexivity|].
    destruct (ackno_of ev) as [k'|] eqn:E'; [|reflexivity]. exfalso.
    assert (H1 : is_holdA ev = true) by (unfold is_holdA; rewrite E'; reflexivity).
    assert (H2 : is_holdA (ae_ev a0) = true) by (unfold is_holdA; rewrite E; reflexivity).
    assert (H3 : (1 <= acount is_holdA (l_agenda st))%nat).
    { unfold acount. apply in_split in Hin as (l1 & l2 & ->). rewrite filter_app, app_length. cbn [filter]. rewrite H2. cbn [length]. lia. }
    cbn [opt_count] in Bctl. rewrite H1 in Bctl. cbn [b2n] in Bctl. lia. }
  constructor.
  - rewrite NS. lia.
  - rewrite SE. eapply Forall_impl; [|exact Ssent]. exact OK'.
  - rewrite Hsk. exists hist. split; [exact Bi|]. split; [exact Bp|].
    eapply Forall_impl; [|exact Bh]. intros g [G1 G2]. split; [exact G1|apply Mono, G2].
  - rewrite Hl. apply Forall_app. split; [eapply Forall_impl; [|exact Bwd]; exact Mono|].
    apply Forall_forall. intros id Hid. destruct (Hl' id Hid) as (z & Hz). apply OK'. eapply Stx; eauto.
  - intros x id Hx Hd. destruct (Old x Hx) as [(a & Hin & <-)|(_ & P)]; [|congruence].
    apply Mono. eapply Bevd; [right; eauto|exact Hd].
  - intros x a Hx Hk. destruct (Old x Hx) as [(a0 & Hin & <-)|(P & _)]; [|congruence].
    rewrite Hsk, Hwa, LA.
    destruct (NoHold a0 Hin) as [E|(k & E & Enone)]; [congruence|].
    (* the processed entry was not an ACK in the pipeline: last_ack unchanged *)
    assert (Esame : last_ack s' = last_ack (l_snd st)).
    { destruct Sla as [E1|(ackno & pid & sample & orc & -> & E1)]; [exact E1|]. cbn beta iota in Hev. congruence. }
    rewrite Esame. eapply Beva; [right; eauto|exact Hk].
  - rewrite Hwa, Hsk, LA. apply Forall_forall. intros r Hr. rewrite Forall_forall in Bwa, LA2.
    specialize (Bwa r Hr). specialize (LA2 r Hr). cbn beta in *. lia.
  - rewrite Hwa. exact Bsort.
  - rewrite Hwa. rewrite (Adds_count _ _ _ _ is_holdA Ha), (Adds_count _ _ _ _ is_initA Ha).
    destruct (plain_counts _ Pl) as [-> ->]. cbn [opt_count] in *.
    assert (Z1 : is_initA ev = false /\ (is_holdA ev = false \/ exists k, ackno_of ev = Some k)).
    { destruct e; cbn beta iota in Hev.
      - split; [destruct ev; try discriminate; reflexivity|right; eauto].
      - destruct Hev as (A & _ & C). split; [exact C|left; unfold is_holdA; rewrite A; reflexivity].
      - destruct Hev as (A & _ & C). split; [exact C|left; unfold is_holdA; rewrite A; reflexivity].
      - destruct Hev as (A & _ & C). split; [exact C|left; unfold is_holdA; rewrite A; reflexivity]. }
    destruct Z1 as [Zi [Zh|(k & Zk)]].
    + rewrite Zh in *. rewrite Zi in Bctl. cbn [b2n opt_count] in *. lia.
    + assert (Zh : is_holdA ev = true) by (unfold is_holdA; rewrite Zk; reflexivity).
      rewrite Zh in *. rewrite Zi in Bctl. cbn [b2n opt_count is_holdA is_initA ackno_of] in *. lia.
  - rewrite Hsk, LA. exact LA1.
Qed.

Lemma has_ev_sched st t p e evo x :
  has_ev (sched st t p e) evo x -> x = e \/ has_ev st evo x.
Proof.
  intros [H|(a & Hin & <-)]; [right; left; exact H|]. unfold sched in Hin; lproj.
  apply ainsert_In in Hin as [->|Hin]; [left; reflexivity|right; right; eauto].
Qed.

(* adding an entry that carries no packet *)
Lemma sched_B_plain lc st t p e evo : plain_ev e -> LInvB lc st evo -> LInvB lc (sched st t p e) evo.
Proof.
  intros (P1 & P2 & P3) [Bns Bsent Bsk Bwd Bevd Beva Bwa Bsort Bctl Bla]. constructor; lproj; auto.
  - intros x id Hx Hd. apply has_ev_sched in Hx as [->|Hx]; [congruence|eauto].
  - intros x a Hx Hk. apply has_ev_sched in Hx as [->|Hx]; [congruence|eauto].
  - assert (Hh : is_holdA e = false) by (unfold is_holdA; rewrite P1; reflexivity).
    rewrite !ainsert_count. cbn [ae_ev]. rewrite P3, Hh. exact Bctl.
Qed.

(* the processed entry carried nothing: forget it *)
Lemma B_done lc st ev : plain_ev ev -> LInvB lc st (Some ev) -> LInvB lc st None.
Proof.
  intros (P1 & P2 & P3) [Bns Bsent Bsk Bwd Bevd Beva Bwa Bsort Bctl Bla]. constructor; auto.
  - intros x id [H|H] Hd; [discriminate|]. eapply Bevd; [right; exact H|exact Hd].
  - intros x a [H|H] Hk; [discriminate|]. eapply Beva; [right; exact H|exact Hk].
  - assert (Hh : is_holdA ev = false) by (unfold is_holdA; rewrite P1; reflexivity).
    cbn [opt_count] in *. rewrite P3, Hh in Bctl. cbn [b2n] in Bctl. lia.
Qed.

(* the packet of the processed entry moves to a new entry (end of the propagation delay) *)
Lemma sched_B_move lc st t p ev e :
  ackno_of e = ackno_of ev -> dataid_of e = dataid_of ev -> is_initA e = false -> is_initA ev = false ->
  LInvB lc st (Some ev) -> LInvB lc (sched st t p e) None.
Proof.
  intros E1 E2 E3 E4 [Bns Bsent Bsk Bwd Bevd Beva Bwa Bsort Bctl Bla]. constructor; lproj; auto.
  - intros x id Hx Hd. apply has_ev_sched in Hx as [->|[H|H]]; [|discriminate|].
    + eapply Bevd; [left; reflexivity|congruence].
    + eapply Bevd; [right; exact H|exact Hd].
  - intros x a Hx Hk. apply has_ev_sched in Hx as [->|[H|H]]; [|discriminate|].
    + eapply Beva; [left; reflexivity|congruence].
    + eapply Beva; [right; exact H|exact Hk].
  - assert (Hh : is_holdA e = is_holdA ev) by (unfold is_holdA; rewrite E1; reflexivity).
    rewrite !ainsert_count. cbn [ae_ev opt_count] in *. rewrite E3, Hh. rewrite E4 in Bctl. destruct (is_holdA ev); cbn [b2n] in *; lia.
Qed.

Lemma wd_get_B lc st : LInvB lc st None -> LInvB lc (wd_get st) None.
Proof.
  intros HB. unfold wd_get. destruct (wd_items (l_wd st)) as [|x rest] eqn:E.
  - destruct HB as [Bns Bsent Bsk Bwd Bevd Beva Bwa Bsort Bctl Bla]. constructor; lproj; auto.
  - destruct HB as [Bns Bsent Bsk Bwd Bevd Beva Bwa Bsort Bctl Bla]. rewrite E in Bwd.
    inversion Bwd as [|? ? Hx Hrest]; subst. constructor; lproj; auto.
    + intros y id Hy Hd. apply has_ev_sched in Hy as [->|[H|H]]; [|discriminate|].
      * cbn [dataid_of] in Hd. injection Hd as <-. exact Hx.
      * eapply Bevd; [right; exact H|exact Hd].
    + intros y a Hy Hk. apply has_ev_sched in Hy as [->|[H|H]]; [discriminate|discriminate|].
      eapply Beva; [right; exact H|exact Hk].
    + rewrite !ainsert_count. cbn [ae_ev is_holdA is_initA ackno_of b2n]. exact Bctl.
Qed.

Lemma sortedZ_head_le x l : sortedZ (x :: l) -> Forall (fun y => x <= y) l /\ sortedZ l.
Proof. cbn [sortedZ]. tauto. Qed.

(* the ACK wire's process asks its store for the next packet; it has the control token (it was just
   initialised / just delivered a packet) or it was waiting and a put callback serves it *)
Lemma wa_get_B lc st evo :
  (evo = Some (AWireInit true) \/ (wa_waiting (l_wa st) = true /\ evo = Some (AWirePutCb true))) ->
  LInvB lc st evo -> LInvB lc (wa_get st) None.
Proof.
  intros Hctl [Bns Bsent Bsk Bwd Bevd Beva Bwa Bsort Bctl Bla].
  assert (Hcnt : (acount is_holdA (l_agenda st) + acount is_initA (l_agenda st))%nat = O).
  { destruct Hctl as [->|[Hw ->]]; cbn [opt_count is_holdA is_initA ackno_of b2n] in Bctl; [|rewrite Hw in Bctl; cbn [b2n] in Bctl]; lia. }
  assert (Hold : forall y, has_ev st evo y -> ackno_of y = None \/ exists a0, In a0 (l_agenda st) /\ ae_ev a0 = y).
  { intros y [H|H]; [|right; exact H]. left. destruct Hctl as [->|[_ ->]]; injection H as <-; reflexivity. }
  assert (Hevd : forall y id, has_ev st None y -> dataid_of y = Some id -> seg_ok (lc_cfg lc) (l_snd st) id).
  { intros y id [H|H] Hd; [discriminate|]. eapply Bevd; [right; exact H|exact Hd]. }
  unfold wa_get. destruct (wa_items (l_wa st)) as [|x rest] eqn:E.
  - constructor; lproj; auto.
    + intros y a [H|H] Hk; [discriminate|]. destruct (Beva y a (or_intror H) Hk) as [A _]. split; [exact A|constructor].
    + cbn [opt_count b2n]. lia.
  - inversion Bwa as [|? ? Hx Hrest]; subst. cbn [map] in Bsort. apply sortedZ_head_le in Bsort as [Hle Hs].
    constructor; lproj; auto.
    + intros y id Hy Hd. apply has_ev_sched in Hy as [->|Hy]; [discriminate|eauto].
    + intros y a Hy Hk. apply has_ev_sched in Hy as [->|[H|(a0 & Hin & <-)]]; [|discriminate|].
      * cbn [ackno_of] in Hk. injection Hk as <-. split; [exact Hx|].
        apply Forall_forall. intros r Hr. rewrite Forall_forall in Hle. apply Hle. apply in_map. exact Hr.
      * exfalso. assert (Hz : acount is_holdA (l_agenda st) = O) by lia.
        pose proof (acount_zero _ _ Hz a0 Hin) as Hf. unfold is_holdA in Hf. rewrite Hk in Hf. discriminate.
    + rewrite !ainsert_count. cbn [ae_ev is_holdA is_initA ackno_of b2n opt_count]. lia.
Qed.

Lemma deliver_data_B lc st ev id st' :
  0 < mss (lc_cfg lc) -> dataid_of ev = Some id -> LInvB lc st (Some ev) ->
  deliver_data lc st id = inl st' -> LInvB lc st' None.
Proof.
  intros Hm Hid [Bns Bsent (hist & Bi & Bp & Bh) Bwd Bevd Beva Bwa Bsort Bctl Bla] H.
  assert (Hseg : seg_ok (lc_cfg lc) (l_snd st) id) by (eapply Bevd; [left; reflexivity|exact Hid]).
  assert (Hev : ackno_of ev = None /\ is_initA ev = false /\ is_holdA ev = false).
  { destruct ev; try discriminate; repeat split. }
  destruct Hev as (Ev1 & Ev2 & Ev3).
  unfold deliver_data in H. destruct (pkt_get id (l_pkt st)) as [[tm ct]|]; [|discriminate].
  set (sk := sink_step true (l_sink st) (id, mss (lc_cfg lc))) in *.
  assert (Bi' : Inv (hist ++ [(id, mss (lc_cfg lc))]) sk).
  { apply Inv_step; cbn [fst snd]; [apply Hseg|lia|exact Bi]. }
  assert (Bp' : prefix_len (hist ++ [(id, mss (lc_cfg lc))]) (nse sk)).
  { apply (ack_prefix _ sk id (mss (lc_cfg lc))) in Bi'. exact Bi'. }
  assert (Hmono : nse (l_sink st) <= nse sk).
  { eapply prefix_len_mono; [|exact Bp|exact Bp']. intros x Hx. apply covered_app. left. exact Hx. }
  assert (Bh' : Forall (fun g => snd g = mss (lc_cfg lc) /\ seg_ok (lc_cfg lc) (l_snd st) (fst g)) (hist ++ [(id, mss (lc_cfg lc))])).
  { apply Forall_app. split; [exact Bh|]. constructor; [split; [reflexivity|exact Hseg]|constructor]. }
  assert (Hevd : forall y i, (exists a0, In a0 (l_agenda st) /\ ae_ev a0 = y) -> dataid_of y = Some i -> seg_ok (lc_cfg lc) (l_snd st) i).
  { intros y i Hy Hd. eapply Bevd; [right; exact Hy|exact Hd]. }
  assert (Heva : forall y a, (exists a0, In a0 (l_agenda st) /\ ae_ev a0 = y) -> ackno_of y = Some a ->
                             last_ack (l_snd st) <= a <= nse sk /\ Forall (fun r => a <= a_no r) (wa_items (l_wa st)) /\ a <= nse sk).
  { intros y a Hy Hk. destruct (Beva y a (or_intror Hy) Hk) as [[A1 A2] A3]. repeat split; try assumption; lia. }
  assert (Bwa' : Forall (fun r => last_ack (l_snd st) <= a_no r <= nse sk) (wa_items (l_wa st))).
  { eapply Forall_impl; [|exact Bwa]. intros r; cbn beta; lia. }
  assert (Bctl' : (acount is_holdA (l_agenda st) + acount is_initA (l_agenda st) + b2n (wa_waiting (l_wa st)))%nat = 1%nat).
  { cbn [opt_count] in Bctl. rewrite Ev2, Ev3 in Bctl. cbn [b2n] in Bctl. lia. }
  clearbody sk.
  destruct (existsb (Nat.eqb (l_n2 st)) (lc_drop_ack lc)); injection H as <-.
  - constructor; lproj; auto.
    + exists (hist ++ [(id, mss (lc_cfg lc))]). auto.
    + intros y i [Hy|Hy] Hd; [discriminate|]. eapply Hevd; eauto.
    + intros y a [Hy|Hy] Hk; [discriminate|]. destruct (Heva y a Hy Hk) as (A & B & _). split; assumption.
    + cbn [opt_count]. lia.
    + lia.
  - constructor; lproj; auto.
    + exists (hist ++ [(id, mss (lc_cfg lc))]). auto.
    + intros y i Hy Hd. apply has_ev_sched in Hy as [->|[Hy|Hy]]; [discriminate|discriminate|]. eapply Hevd; eauto.
    + intros y a Hy Hk. apply has_ev_sched in Hy as [->|[Hy|Hy]]; [discriminate|discriminate|].
      destruct (Heva y a Hy Hk) as (A & B & C). split; [exact A|].
      apply Forall_app. split; [exact B|]. constructor; [exact C|constructor].
    + apply Forall_app. split; [exact Bwa'|]. constructor; [cbn [a_no]; lia|constructor].
    + rewrite map_app. cbn [map a_no]. apply sortedZ_app_max; [exact Bsort|].
      apply Forall_forall. intros y Hy. apply in_map_iff in Hy as (r & <- & Hr). rewrite Forall_forall in Bwa'. apply Bwa', Hr.
    + rewrite !ainsert_count. cbn [ae_ev is_holdA is_initA ackno_of b2n opt_count]. lia.
    + lia.
Qed.

Lemma pop_B lc st a rest :
  LInvB lc st None -> l_agenda st = a :: rest -> LInvB lc (popped st a rest) (Some (ae_ev a)).
Proof.
  intros [Bns Bsent Bsk Bwd Bevd Beva Bwa Bsort Bctl Bla] E.
  assert (Hev : forall x, has_ev (popped st a rest) (Some (ae_ev a)) x -> has_ev st None x).
  { intros x [H|(a0 & Hin & <-)]; right; rewrite E.
    - injection H as <-. exists a. split; [left; reflexivity|reflexivity].
    - exists a0. split; [right; exact Hin|reflexivity]. }
  constructor; unfold popped; lproj; auto.
  - intros x id Hx. apply Bevd. apply Hev. exact Hx.
  - intros x k Hx. apply Beva. apply Hev. exact Hx.
  - rewrite E in Bctl. unfold acount in *. cbn [filter opt_count] in *.
    destruct (is_holdA (ae_ev a)); destruct (is_initA (ae_ev a)); cbn [length b2n] in *; lia.
Qed.

Lemma handle_B lc st ev st' :
  lc_ok lc -> LInvA lc st (Some ev) -> LInvB lc st (Some ev) ->
  handle lc st ev = inl st' -> LInvB lc st' None.
Proof.
  intros Hok HA HB H. pose proof Hok as [Hfx Hm Hd].
  destruct ev as [| |id|id|w|w|id|id|ackno pid tm ct|ackno pid tm ct]; cbn [handle] in H.
  - apply (sender_event_B lc st EWake ASenderWake st' Hok HA HB) in H; [exact H| |repeat split].
    cbn [enabled]. pose proof (la_wake _ _ _ HA) as Hw. cbn [is_wake b2n] in Hw. destruct (wake (l_snd st)); [reflexivity|cbn [b2n] in Hw; lia].
  - apply (sender_event_B lc st EStoreCb ASenderCb st' Hok HA HB) in H; [exact H| |repeat split].
    cbn [enabled]. pose proof (la_cb _ _ _ HA) as Hc. cbn [is_cb b2n] in Hc. lia.
  - assert (B0 : LInvB lc st None) by (eapply B_done; [|exact HB]; repeat split).
    destruct (find (fun p => fst p =? id) (timers (l_snd st))) as [[k r]|]; injection H as <-; [|exact B0].
    apply sched_B_plain; [repeat split|exact B0].
  - destruct (has_timer id (timers (l_snd st))) eqn:Eh.
    + apply (sender_event_B lc st (EExpire id) (ATimerFire id) st' Hok HA HB) in H; [exact H|exact Eh|repeat split].
    + injection H as <-. eapply B_done; [|exact HB]. repeat split.
  - destruct w; injection H as <-.
    + apply (wa_get_B lc st (Some (AWireInit true))); [left; reflexivity|exact HB].
    + apply wd_get_B. eapply B_done; [|exact HB]. repeat split.
  - destruct w.
    + destruct (wa_waiting (l_wa st)) eqn:Ew; injection H as <-.
      * apply (wa_get_B lc st (Some (AWirePutCb true))); [right; split; [exact Ew|reflexivity]|exact HB].
      * eapply B_done; [|exact HB]. repeat split.
    + assert (B0 : LInvB lc st None) by (eapply B_done; [|exact HB]; repeat split).
      destruct (wd_waiting (l_wd st)); injection H as <-; [apply wd_get_B|]; exact B0.
  - destruct (pkt_get id (l_pkt st)) as [[tm ct]|]; [|discriminate].
    destruct (Qltb (l_now st - wd_entered (l_wd st)) (lc_delay lc)).
    + injection H as <-. eapply sched_B_move; [| | | |exact HB]; reflexivity.
    + destruct (deliver_data lc st id) as [st1|] eqn:D; cbn [bind] in H; [|discriminate]. injection H as <-.
      apply wd_get_B. eapply deliver_data_B; eauto. reflexivity.
  - destruct (deliver_data lc st id) as [st1|] eqn:D; cbn [bind] in H; [|discriminate]. injection H as <-.
    apply wd_get_B. eapply deliver_data_B; eauto. reflexivity.
  - destruct (Qltb (l_now st - ct) (lc_delay lc)).
    + injection H as <-. eapply sched_B_move; [| | | |exact HB]; reflexivity.
    + destruct (deliver_ack lc st ackno pid tm) as [st1|] eqn:D; cbn [bind] in H; [|discriminate]. injection H as <-.
      unfold deliver_ack in D. set (st0 := mkls _ _ _ _ _ _ _ _ _ _ (tl (l_oracle st)) _ _ _) in D.
      assert (A0 : LInvA lc st0 (Some (AWireGetA ackno pid tm ct))).
      { destruct HA as [Is Iw Ic [Ts Tf Tpk Tw Te Td Tk]]. constructor; subst st0; lproj; auto. constructor; lproj; auto. }
      assert (B0 : LInvB lc st0 (Some (AWireGetA ackno pid tm ct))).
      { destruct HB as [Bns Bsent Bsk Bwd Bevd Beva Bwa Bsort Bctl Bla]. constructor; subst st0; lproj; auto. }
      apply (sender_event_B lc st0 _ (AWireGetA ackno pid tm ct) st1 Hok A0 B0) in D; [|exact Logic.I|reflexivity].
      apply (wa_get_B lc st1 (Some (AWireInit true))); [left; reflexivity|exact D].
  - destruct (deliver_ack lc st ackno pid tm) as [st1|] eqn:D; cbn [bind] in H; [|discriminate]. injection H as <-.
    unfold deliver_ack in D. set (st0 := mkls _ _ _ _ _ _ _ _ _ _ (tl (l_oracle st)) _ _ _) in D.
    assert (A0 : LInvA lc st0 (Some (AWireOutA ackno pid tm ct))).
    { destruct HA as [Is Iw Ic [Ts Tf Tpk Tw Te Td Tk]]. constructor; subst st0; lproj; auto. constructor; lproj; auto. }
    assert (B0 : LInvB lc st0 (Some (AWireOutA ackno pid tm ct))).
    { destruct HB as [Bns Bsent Bsk Bwd Bevd Beva Bwa Bsort Bctl Bla]. constructor; subst st0; lproj; auto. }
    apply (sender_event_B lc st0 _ (AWireOutA ackno pid tm ct) st1 Hok A0 B0) in D; [|exact Logic.I|reflexivity].
    apply (wa_get_B lc st1 (Some (AWireInit true))); [left; reflexivity|exact D].
Qed.

Lemma linit_B lc cw ss rtt0 orc : LInvB lc (linit cw ss rtt0 orc) None.
Proof.
  constructor; unfold linit, init; lproj; proj.
  - lia.
  - constructor.
  - exists []. split; [apply Inv_init|]. split; [|constructor].
    unfold prefix_len, sink0; cbn [nse]. split; [lia|]. split; [intros b Hb; lia|]. intros (g & [] & _).
  - constructor.
  - intros e id [H|(a & Hin & <-)] Hd; [discriminate|].
    cbn [In] in Hin. destruct Hin as [<-|[<-|[<-|[]]]]; discriminate.
  - intros e k [H|(a & Hin & <-)] Hd; [discriminate|].
    cbn [In] in Hin. destruct Hin as [<-|[<-|[<-|[]]]]; discriminate.
  - constructor.
  - exact Logic.I.
  - reflexivity.
  - unfold sink0; cbn [nse]. lia.
Qed.

Record LInvAB (lc : lcfg) (st : lstate) : Prop := { ab_A : LInvA lc st None; ab_B : LInvB lc st None }.

Lemma lstep_AB lc st st' : lc_ok lc -> LInvAB lc st -> lstep lc st = Some (inl st') -> LInvAB lc st'.
Proof.
  intros Hok [HA HB] H. pose proof H as H0. unfold lstep in H0. destruct (l_agenda st) as [|a rest] eqn:E; [discriminate|].
  injection H0 as H0. fold (popped st a rest) in H0.
  destruct (pop_A lc st a rest HA E) as (P1 & P2 & P3 & P4).
  destruct (handle_A lc (popped st a rest) (ae_ev a) Hok P1 P2 P3) as (st2 & H1 & H2 & H3).
  rewrite H1 in H0. injection H0 as <-. constructor; [exact H2|].
  eapply handle_B; eauto. apply pop_B; assumption.
Qed.

Lemma reach_AB lc cw ss rtt0 orc st :
  lc_ok lc -> (zq (mss (lc_cfg lc)) <= cw)%Q -> (0 < rtt0)%Q ->
  lreach lc (linit cw ss rtt0 orc) st -> LInvAB lc st.
Proof.
  intros Hok Hc Hr. induction 1 as [|st st' Hreach IH Hstep].
  - constructor; [apply linit_A; assumption|apply linit_B].
  - eapply lstep_AB; eauto.
Qed.

(* the contiguous prefix held by the sink, read off its receive buffer *)
Definition sink_prefix (sk : sink) (n : Z) : Prop :=
  0 <= n /\ (forall b, 0 <= b < n -> cov (buf sk) b) /\ ~ cov (buf sk) n.

Theorem loop_last_ack_le_prefix_le_next_seq lc cw ss rtt0 orc st :
  lc_ok lc -> (zq (mss (lc_cfg lc)) <= cw)%Q -> (0 < rtt0)%Q ->
  lreach lc (linit cw ss rtt0 orc) st ->
  last_ack (l_snd st) <= nse (l_sink st) <= next_seq (l_snd st) /\ sink_prefix (l_sink st) (nse (l_sink st)).
Proof.
  intros Hok Hc Hr H. destruct (reach_AB lc cw ss rtt0 orc st Hok Hc Hr H) as [_ HB].
  split; [split; [apply HB|eapply LInvB_nse_le; [apply Hok|exact HB]]|].
  destruct (lb_sink _ _ _ HB) as (hist & (_ & _ & Hcov) & (P0 & P1 & P2) & _).
  split; [exact P0|]. split.
  - intros b Hb. apply Hcov. apply P1. exact Hb.
  - intros Hn. apply P2. apply Hcov. exact Hn.
Qed.

(* ---- last_ack never decreases ---- *)
Lemma sender_event_la lc st e ev st' :
  lc_ok lc -> LInvA lc st (Some ev) -> LInvB lc st (Some ev) -> enabled (l_snd st) e ->
  (match e with EAck ackno _ _ _ => ackno_of ev = Some ackno | _ => True end) ->
  sender_event lc st e = inl st' -> last_ack (l_snd st) <= last_ack (l_snd st').
Proof.
  intros [Hfx Hm Hdl] HA HB He Hev Hse.
  destruct (sender_event_spec lc st e Hfx Hm (la_sinv _ _ _ HA) He) as (st2 & s' & o & Hse2 & Hstep & Hsn & _).
  rewrite Hse in Hse2. injection Hse2 as <-. rewrite Hsn. change (last_ack (norm_sender s')) with (last_ack s').
  destruct (step_seg _ _ _ _ _ Hm (proj1 (proj2 (si_win _ _ (la_sinv _ _ _ HA)))) (lb_ns _ _ _ HB) (lb_sent _ _ _ HB) Hstep) as (_ & _ & _ & Sla).
  destruct Sla as [E|(ackno & pid & sample & orc & -> & E)]; [lia|]. rewrite E.
  destruct (lb_eva _ _ _ HB ev ackno (or_introl eq_refl) Hev) as [[A _] _]. exact A.
Qed.

Lemma wd_get_snd st : l_snd (wd_get st) = l_snd st.
Proof. unfold wd_get. destruct (wd_items (l_wd st)); reflexivity. Qed.
Lemma wa_get_snd st : l_snd (wa_get st) = l_snd st.
Proof. unfold wa_get. destruct (wa_items (l_wa st)); reflexivity. Qed.
Lemma deliver_data_snd lc st id st' : deliver_data lc st id = inl st' -> l_snd st' = l_snd st.
Proof.
  unfold deliver_data. destruct (pkt_get id (l_pkt st)) as [[tm ct]|]; [|discriminate].
  destruct (existsb _ _); intros H; injection H as <-; reflexivity.
Qed.

Lemma handle_la_mono lc st ev st' :
  lc_ok lc -> LInvA lc st (Some ev) -> LInvB lc st (Some ev) ->
  handle lc st ev = inl st' -> last_ack (l_snd st) <= last_ack (l_snd st').
Proof.
  intros Hok HA HB H.
  destruct ev as [| |id|id|w|w|id|id|ackno pid tm ct|ackno pid tm ct]; cbn [handle] in H.
  - eapply (sender_event_la lc st EWake); eauto; try exact Logic.I.
    cbn [enabled]. pose proof (la_wake _ _ _ HA) as Hw. cbn [is_wake b2n] in Hw. destruct (wake (l_snd st)); [reflexivity|cbn [b2n] in Hw; lia].
  - eapply (sender_event_la lc st EStoreCb); eauto; try exact Logic.I.
    cbn [enabled]. pose proof (la_cb _ _ _ HA) as Hc. cbn [is_cb b2n] in Hc. lia.
  - destruct (find _ _) as [[k r]|]; injection H as <-; lproj; lia.
  - destruct (has_timer id (timers (l_snd st))) eqn:Eh; [|injection H as <-; lia].
    eapply (sender_event_la lc st (EExpire id)); eauto; try exact Logic.I.
  - destruct w; injection H as <-; rewrite ?wa_get_snd, ?wd_get_snd; lia.
  - destruct w; [destruct (wa_waiting _)|destruct (wd_waiting _)]; injection H as <-; rewrite ?wa_get_snd, ?wd_get_snd; lia.
  - destruct (pkt_get id (l_pkt st)) as [[tm ct]|]; [|discriminate].
    destruct (Qltb _ _); [injection H as <-; lproj; lia|].
    destruct (deliver_data lc st id) as [st1|] eqn:D; cbn [bind] in H; [|discriminate]. injection H as <-.
    rewrite wd_get_snd, (deliver_data_snd _ _ _ _ D). lia.
  - destruct (deliver_data lc st id) as [st1|] eqn:D; cbn [bind] in H; [|discriminate]. injection H as <-.
    rewrite wd_get_snd, (deliver_data_snd _ _ _ _ D). lia.
  - destruct (Qltb _ _); [injection H as <-; lproj; lia|].
    destruct (deliver_ack lc st ackno pid tm) as [st1|] eqn:D; cbn [bind] in H; [|discriminate]. injection H as <-.
    rewrite wa_get_snd. unfold deliver_ack in D. set (st0 := mkls _ _ _ _ _ _ _ _ _ _ (tl (l_oracle st)) _ _ _) in D.
    assert (A0 : LInvA lc st0 (Some (AWireGetA ackno pid tm ct))).
    { destruct HA as [Is Iw Ic [Ts Tf Tpk Tw Te Td Tk]]. constructor; subst st0; lproj; auto. constructor; lproj; auto. }
    assert (B0 : LInvB lc st0 (Some (AWireGetA ackno pid tm ct))).
    { destruct HB as [Bns Bsent Bsk Bwd Bevd Beva Bwa Bsort Bctl Bla]. constructor; subst st0; lproj; auto. }
    apply (sender_event_la lc st0 _ (AWireGetA ackno pid tm ct) st1 Hok A0 B0) in D; [exact D|exact Logic.I|reflexivity].
  - destruct (deliver_ack lc st ackno pid tm) as [st1|] eqn:D; cbn [bind] in H; [|discriminate]. injection H as <-.
    rewrite wa_get_snd. unfold deliver_ack in D. set (st0 := mkls _ _ _ _ _ _ _ _ _ _ (tl (l_oracle st)) _ _ _) in D.
    assert (A0 : LInvA lc st0 (Some (AWireOutA ackno pid tm ct))).
    { destruct HA as [Is Iw Ic [Ts Tf Tpk Tw Te Td Tk]]. constructor; subst st0; lproj; auto. constructor; lproj; auto. }
    assert (B0 : LInvB lc st0 (Some (AWireOutA ackno pid tm ct))).
    { destruct HB as [Bns Bsent Bsk Bwd Bevd Beva Bwa Bsort Bctl Bla]. constructor; subst st0; lproj; auto. }
    apply (sender_event_la lc st0 _ (AWireOutA ackno pid tm ct) st1 Hok A0 B0) in D; [exact D|exact Logic.I|reflexivity].
Qed.

Theorem loop_last_ack_monotone lc cw ss rtt0 orc st st' :
  lc_ok lc -> (zq (mss (lc_cfg lc)) <= cw)%Q -> (0 < rtt0)%Q ->
  lreach lc (linit cw ss rtt0 orc) st -> lreach lc st st' ->
  last_ack (l_snd st) <= last_ack (l_snd st').
Proof.
  intros Hok Hc Hr H0 H. induction H as [|s1 s2 Hreach IH Hstep]; [lia|].
  assert (R1 : lreach lc (linit cw ss rtt0 orc) s1).
  { clear IH Hstep. induction Hreach as [|a b Hab IHab Hs]; [exact H0|eapply reach_step; eauto]. }
  destruct (reach_AB lc cw ss rtt0 orc s1 Hok Hc Hr R1) as [HA HB].
  pose proof Hstep as H1. unfold lstep in H1. destruct (l_agenda s1) as [|a rest] eqn:E; [discriminate|].
  injection H1 as H1. fold (popped s1 a rest) in H1.
  destruct (pop_A lc s1 a rest HA E) as (P1 & _).
  pose proof (pop_B lc s1 a rest HB E) as P2.
  pose proof (handle_la_mono lc _ _ _ Hok P1 P2 H1) as Hm. unfold popped in Hm; lproj. lia.
Qed.

(* ================================================================================================ *)
(* Part 5: an unfinished transfer always has pending work *)

Definition mult (m x : Z) : Prop := exists k, 0 <= k /\ x = k * m.

Lemma fill_steps fuel ns sb p sb' : fill fuel ns sb p = Some sb' -> exists j : nat, sb' = sb + Z.of_nat j * p.
Proof.
  revert sb. induction fuel as [|f IH]; intros sb; cbn [fill]; [discriminate|].
  destruct (sb <=? ns).
  - intros H. apply IH in H as (j & ->). exists (S j). lia.
  - intros H; injection H as <-. exists O. lia.
Qed.

Record SInvC (c : config) (s : sender) : Prop := {
  sc_mult_ns : mult (mss c) (next_seq s);
  sc_mult_sb : mult (mss c) (send_buffer s);
  sc_buf : buffered_ok c s;
  sc_timers : forall k, 0 <= k -> k * mss c < next_seq s -> last_ack s < k * mss c + mss c -> In (k * mss c) (keys (timers s));
  sc_wait0 : waiting s = true -> tokens s = O -> last_ack s < next_seq s;
  sc_wait1 : waiting s = true -> (0 < tokens s)%nat -> (0 < pend s)%nat;
  sc_ctl : finished s = true \/ waiting s = true \/ wake s = true;
  sc_fin : finished s = true -> fsize c <> 0 /\ fsize c <= next_seq s
}.

Lemma mult_gap m a b : 0 < m -> mult m a -> mult m b -> a < b -> a + m <= b.
Proof. intros Hm (k & Hk & ->) (j & Hj & ->) H. assert (k < j) by nia. nia. Qed.

Lemma send_loop_C c (Hm : 0 < mss c) (Hf : mult (mss c) (fsize c)) : forall fuel s acc s' outs,
  mult (mss c) (next_seq s) -> mult (mss c) (send_buffer s) -> (zq (mss c) <= cwnd s)%Q ->
  send_loop fuel c s acc = Ok s' outs ->
  mult (mss c) (next_seq s') /\ mult (mss c) (send_buffer s') /\
  (waiting s' = true -> waiting s = false -> last_ack s' < next_seq s') /\
  (finished s' = true -> finished s = false -> fsize c <> 0 /\ fsize c <= next_seq s').
Proof.
  induction fuel as [|f IH]; intros s acc s' outs Mn Mb Hc; cbn [send_loop]; [discriminate|].
  destruct (negb (fsize c =? 0) && (fsize c <=? next_seq s)) eqn:Efin.
  - intros H; injection H as <- _. proj. apply andb_true_iff in Efin as [E1 E2]. apply negb_true_iff, Z.eqb_neq in E1. apply Z.leb_le in E2.
    split; [exact Mn|]. split; [exact Mb|]. split; [discriminate|]. auto.
  - destruct (fill _ _ _ _) as [sb|] eqn:Efill; [|discriminate].
    assert (Hp : psize c (next_seq s) = mss c).
    { unfold psize. destruct (fsize c =? 0) eqn:E0; [reflexivity|]. apply Z.eqb_neq in E0.
      apply andb_false_iff in Efin as [E|E]; [discriminate|]. apply Z.leb_gt in E.
      pose proof (mult_gap _ _ _ Hm Mn Hf E). lia. }
    rewrite Hp in Efill. pose proof (fill_ge _ _ _ _ _ Efill) as Hge.
    destruct (fill_steps _ _ _ _ _ Efill) as (j & Hj).
    assert (Msb : mult (mss c) sb).
    { destruct Mb as (k & Hk & Ek). exists (k + Z.of_nat j). split; [lia|]. rewrite Hj, Ek. ring. }
    destruct (guard c s sb) eqn:Eg.
    + destruct (Qle_bool (rto s) 0); [discriminate|]. intros H. apply IH in H; proj; auto.
      destruct Mn as (k & Hk & Ek). exists (k + 1). split; [lia|]. rewrite Ek. ring.
    + intros H.
      assert (Hla : last_ack s < next_seq s).
      { pose proof (mult_gap _ _ _ Hm Mn Msb Hge) as Hgap.
        unfold guard in Eg. apply Qle_bool_false in Eg.
        destruct (Q.min_spec (zq sb) (zq (last_ack s) + cwnd s)%Q) as [[_ Emin]|[_ Emin]]; rewrite Emin in Eg.
        - apply (zq_le _ _) in Hgap. lra.
        - assert (Hq : (zq (last_ack s) + zq (mss c) < zq (next_seq s + mss c))%Q) by lra.
          rewrite <- zq_add in Hq. unfold zq in Hq. rewrite <- Zlt_Qlt in Hq. lia. }
      destruct (tokens s); injection H as <- _; proj; (split; [exact Mn|]); (split; [exact Msb|]); (split; [|intros A B; congruence]); auto.
Qed.

Lemma seg_ids_has m id n (j : nat) : (j < n)%nat -> In (id + Z.of_nat j * m) (seg_ids m id n).
Proof.
  revert id j. induction n as [|n IH]; intros id j Hj; [lia|]. cbn [seg_ids]. destruct j as [|j].
  - left. cbn. lia.
  - right. replace (id + Z.of_nat (S j) * m) with (id + m + Z.of_nat j * m) by lia. apply IH. lia.
Qed.

Lemma In_keys_filter (f : Z -> bool) t x : In x (keys (filter (fun p => f (fst p)) t)) <-> In x (keys t) /\ f x = true.
Proof. rewrite keys_filter. apply filter_In. Qed.

Definition ack_fwd (s : sender) (e : event) : Prop :=
  match e with EAck ackno _ _ _ => last_ack s <= ackno | _ => True end.

Lemma step_C c s e s' o :
  0 < mss c -> mult (mss c) (fsize c) -> SInv c s -> SInvC c s -> ack_fwd s e ->
  step repaired c s e = Ok s' o -> SInvC c s'.
Proof.
  intros Hm Hf I [Mn Mb Bf Tm W0 W1 Ct Fn] Hfw H.
  destruct e as [ackno pid sample orc|id| |]; cbn [step] in H.
  - apply on_ack_shape in H; [|apply I]. destruct H as (N & B & Wk & Wt & F & [D|Nw]).
    + destruct D as (_ & L & _ & T & _ & _ & _ & _ & Tk & Pd & _).
      constructor; unfold buffered_ok in *; rewrite ?N, ?B, ?Wk, ?Wt, ?F, ?L, ?T, ?Tk, ?Pd; auto.
    + destruct Nw as (_ & L & _ & T & _ & _ & _ & _ & _ & Tk & Pd). cbn [ack_fwd] in Hfw.
      constructor; unfold buffered_ok in *; rewrite ?N, ?B, ?Wk, ?Wt, ?F, ?L, ?Tk, ?Pd; auto; try lia.
      intros k Hk Hlt Hla. rewrite T.
      apply (In_keys_filter (fun x => negb (mem x (acked_ids repaired c s ackno pid)))). split; [apply Tm; auto; lia|].
      apply negb_true_iff. destruct (mem (k * mss c) (acked_ids repaired c s ackno pid)) eqn:E; [|reflexivity]. exfalso.
      apply mem_In in E. unfold acked_ids, repaired in E; proj.
      change (map fst (filter (fun p => fst p + mss c <=? ackno) (timers s)))
        with (keys (filter (fun p => (fun x => x + mss c <=? ackno) (fst p)) (timers s))) in E.
      apply In_keys_filter in E as [_ E]. apply Z.leb_le in E. lia.
  - apply on_timer_shape in H as (_ & -> & _). constructor; unfold buffered_ok in *; proj; auto.
    intros k Hk Hlt Hla. rewrite keys_rearm. auto.
  - apply on_storecb_shape in H as (_ & p & Hp & [(Wt & Tk & ->)|(Hor & ->)]); constructor; unfold buffered_ok in *; proj; auto; try discriminate.
    intros Hw Ht. destruct Hor as [Hor|Hor]; [congruence|lia].
  - pose proof H as H0. unfold on_wake in H0. destruct (wake s && negb (finished s)) eqn:Ew; [|discriminate].
    apply andb_true_iff in Ew as [Ew Ef]. apply negb_true_iff in Ef.
    pose proof (send_loop_flags _ _ _ _ _ _ H0) as (Pd & Fl).
    pose proof (send_loop_buffered c Hm _ (set_store s (tokens s) (pend s) false false) _ _ _ Bf H0) as Bf'.
    pose proof (send_loop_C c Hm Hf _ (set_store s (tokens s) (pend s) false false) _ _ _ Mn Mb (proj1 (si_win _ _ I)) H0) as (Mn' & Mb' & Wz & Fz). proj.
    apply send_guard in H; [|exact Hm]. destruct H as (n & _ & Hns & Ht & _ & _ & Hla & _). proj.
    constructor; auto.
    + intros k Hk Hlt Hlak. rewrite Ht, keys_app, keys_map_pair. apply in_or_app.
      destruct (Z_lt_ge_dec (k * mss c) (next_seq s)) as [Hold|Hnew].
      * left. apply Tm; auto. lia.
      * right. destruct Mn as (a & Ha & Ea).
        assert (Hka : a <= k) by nia.
        replace (k * mss c) with (next_seq s + Z.of_nat (Z.to_nat (k - a)) * mss c) by (rewrite Z2Nat.id by lia; rewrite Ea; ring).
        apply seg_ids_has. rewrite Hns, Ea in Hlt. assert (k - a < Z.of_nat n) by nia. lia.
    + intros Hw Ht0. destruct Fl as [(_ & _ & Hx & _)|(_ & [(_ & Hx & _)|(_ & _ & Hx & _)])]; [congruence|congruence|lia].
    + destruct Fl as [(Hx & _)|(_ & [(Hx & _)|(_ & Hx & _)])]; auto.
Qed.

Lemma init_C c cw ss rtt0 : 0 < mss c -> mult (mss c) (fsize c) -> SInvC c (init cw ss rtt0).
Proof.
  intros Hm (n & Hn & En). constructor; unfold init, buffered_ok; proj.
  - exists 0. lia.
  - exists 0. lia.
  - split; [lia|intros _; nia].
  - intros k Hk Hlt. nia.
  - discriminate.
  - discriminate.
  - right; right; reflexivity.
  - discriminate.
Qed.

Lemma norm_C c s : SInvC c s -> SInvC c (norm_sender s).
Proof.
  intros [Mn Mb Bf Tm W0 W1 Ct Fn]. constructor; unfold norm_sender, buffered_ok in *; proj; auto.
  intros k Hk Hlt Hla. rewrite keys_norm. auto.
Qed.

Lemma segs_start_in m id n r i : In i (seg_ids m id n) -> In (TStart i r) (segs m id n r).
Proof.
  revert id. induction n as [|n IH]; intros id; cbn [segs seg_ids In]; [tauto|].
  intros [<-|H]; [right; left; reflexivity|right; right; eauto].
Qed.

(* where the keys of the timer table come from, and that an expiry re-arms *)
Lemma step_keys c s e s' o :
  0 < mss c -> 0 <= dupack s -> step repaired c s e = Ok s' o ->
  (forall id, In id (keys (timers s')) -> In id (keys (timers s)) \/ exists r, In (TStart id r) o) /\
  (forall id, e = EExpire id -> exists r, In (TRestart id r) o).
Proof.
  intros Hm Hd H. destruct e as [ackno pid sample orc|id0| |]; cbn [step] in H.
  - apply on_ack_shape in H; [|exact Hd]. destruct H as (_ & _ & _ & _ & _ & [D|Nw]).
    + destruct D as (_ & _ & _ & T & _). split; [intros id Hi; left; rewrite <- T; exact Hi|discriminate].
    + destruct Nw as (_ & _ & _ & T & _). split; [|discriminate]. intros id Hi. left. rewrite T in Hi.
      apply (In_keys_filter (fun x => negb (mem x (acked_ids repaired c s ackno pid)))) in Hi. apply Hi.
  - apply on_timer_shape in H as (_ & -> & O). proj. split.
    + intros id Hi. left. rewrite keys_rearm in Hi. exact Hi.
    + intros id E. injection E as <-. destruct O as [->|[-> _]]; eexists; [left; reflexivity|right; left; reflexivity].
  - apply on_storecb_shape in H as (_ & p & _ & [(_ & _ & ->)|(_ & ->)]); proj; (split; [auto|discriminate]).
  - apply send_guard in H; [|exact Hm]. destruct H as (n & -> & _ & Ht & _). proj. split; [|discriminate].
    intros id Hi. rewrite Ht, keys_app, keys_map_pair in Hi. apply in_app_or in Hi as [Hi|Hi]; [left; exact Hi|right].
    eexists. cbn [app]. apply segs_start_in. exact Hi.
Qed.

Definition timer_ev (e : aev) : Prop := exists id, e = ATimerInit id \/ e = ATimerFire id.

Definition pending (st : lstate) (ev : option aev) : Prop :=
  forall id, In id (keys (timers (l_snd st))) -> has_ev st ev (ATimerInit id) \/ has_ev st ev (ATimerFire id).

Record LInvC (lc : lcfg) (st : lstate) (ev : option aev) : Prop := {
  lcc_s : SInvC (lc_cfg lc) (l_snd st);
  lcc_p : pending st ev
}.

Lemma find_none_keys id t : find (fun p : Z * Q => fst p =? id) t = None -> ~ In id (keys t).
Proof.
  intros H Hin. unfold keys in Hin. apply in_map_iff in Hin as (p & <- & Hp).
  apply (find_none _ _ H) in Hp. cbn beta in Hp. rewrite Z.eqb_refl in Hp. discriminate.
Qed.

Lemma sender_event_C lc st e ev st' :
  lc_ok lc -> mult (mss (lc_cfg lc)) (fsize (lc_cfg lc)) ->
  LInvA lc st (Some ev) -> LInvB lc st (Some ev) -> LInvC lc st (Some ev) -> enabled (l_snd st) e ->
  (match e with
   | EAck ackno _ _ _ => ackno_of ev = Some ackno
   | EExpire id => ev = ATimerFire id
   | _ => ~ timer_ev ev
   end) ->
  sender_event lc st e = inl st' -> LInvC lc st' None.
Proof.
  intros [Hfx Hm Hdl] Hf HA HB [Cs Cp] He Hev Hse.
  destruct (sender_event_spec lc st e Hfx Hm (la_sinv _ _ _ HA) He) as
      (st2 & s' & o & Hse2 & Hstep & Hsn & Hn & Hsk & Hwa & Hor & (evs & Ha & Hfo & Hts & Htr) & _).
  rewrite Hse in Hse2. injection Hse2 as <-.
  assert (Hd : 0 <= dupack (l_snd st)) by apply (si_win _ _ (la_sinv _ _ _ HA)).
  destruct (step_keys _ _ _ _ _ Hm Hd Hstep) as (K1 & K2).
  constructor.
  - rewrite Hsn. apply norm_C. eapply step_C; eauto; [apply HA|].
    destruct e; cbn [ack_fwd]; auto. destruct (lb_eva _ _ _ HB ev ackno (or_introl eq_refl) Hev) as [[A _] _]. exact A.
  - intros id Hi. rewrite Hsn in Hi. change (timers (norm_sender s')) with (map (fun p : Z * Q => (fst p, nq (snd p))) (timers s')) in Hi.
    rewrite keys_norm in Hi.
    assert (New : forall x, In x evs -> has_ev st' None x).
    { intros x Hx. right. eapply Adds_has; [exact Ha|]. apply in_or_app. left. exact Hx. }
    assert (Keep : forall x, (exists a, In a (l_agenda st) /\ ae_ev a = x) -> has_ev st' None x).
    { intros x (a & Hin & E). right. exists a. split; [eapply Adds_In_old; eauto|exact E]. }
    destruct (K1 id Hi) as [Hold|(r & Hr)]; [|left; apply New; eapply Hts; eauto].
    destruct (Cp id Hold) as [[H|H]|[H|H]].
    + (* the processed entry is this timer's Initialize: not a sender event *)
      injection H as ->. exfalso. destruct e; cbn beta iota in Hev; try discriminate.
      * apply Hev. exists id. left. reflexivity.
      * apply Hev. exists id. left. reflexivity.
    + left. apply Keep. exact H.
    + injection H as ->. destruct e as [ackno pid sample orc|id0| |]; cbn beta iota in Hev; try discriminate.
      * injection Hev as <-. destruct (K2 id eq_refl) as (r & Hr). right. apply New. eapply Htr; eauto.
      * exfalso. apply Hev. exists id. right. reflexivity.
      * exfalso. apply Hev. exists id. right. reflexivity.
    + right. apply Keep. exact H.
Qed.

(* pieces of the loop that leave the sender alone and only add agenda entries *)
Definition amono (st st' : lstate) : Prop :=
  l_snd st' = l_snd st /\ forall a, In a (l_agenda st) -> In a (l_agenda st').

Lemma amono_refl st : amono st st.
Proof. split; auto. Qed.
Lemma amono_trans a b c : amono a b -> amono b c -> amono a c.
Proof. intros [A1 A2] [B1 B2]. split; [congruence|auto]. Qed.
Lemma sched_amono st t p e : amono st (sched st t p e).
Proof. split; [reflexivity|]. intros a Ha. unfold sched; lproj. apply ainsert_In. right. exact Ha. Qed.
Lemma wd_get_amono st : amono st (wd_get st).
Proof. unfold wd_get. destruct (wd_items (l_wd st)); [split; auto|]. eapply amono_trans; [|apply sched_amono]. split; auto. Qed.
Lemma wa_get_amono st : amono st (wa_get st).
Proof. unfold wa_get. destruct (wa_items (l_wa st)); [split; auto|]. eapply amono_trans; [|apply sched_amono]. split; auto. Qed.
Lemma deliver_data_amono lc st id st' : deliver_data lc st id = inl st' -> amono st st'.
Proof.
  unfold deliver_data. destruct (pkt_get id (l_pkt st)) as [[tm ct]|]; [|discriminate].
  destruct (existsb _ _); intros H; injection H as <-; [split; auto|].
  eapply amono_trans; [|apply sched_amono]. split; auto.
Qed.

Lemma C_amono lc st st' ev : amono st st' -> ~ timer_ev ev -> LInvC lc st (Some ev) -> LInvC lc st' None.
Proof.
  intros [S A] Hnt [Cs Cp]. constructor; [rewrite S; exact Cs|].
  intros id Hi. rewrite S in Hi.
  assert (K : forall x, has_ev st (Some ev) x -> timer_ev x -> has_ev st' None x).
  { intros x [H|(a & Hin & E)] Ht; [injection H as <-; contradiction|]. right. exists a. split; [apply A, Hin|exact E]. }
  destruct (Cp id Hi) as [H|H]; [left|right]; apply K; auto; exists id; auto.
Qed.

Lemma C_amono' lc st st' ev : LInvC lc st (Some ev) -> ~ timer_ev ev -> amono st st' -> LInvC lc st' None.
Proof. intros; eapply C_amono; eauto. Qed.

Lemma C_oracle lc st ev o : LInvC lc st ev ->
  LInvC lc (mkls (l_now st) (l_seq st) (l_agenda st) (l_snd st) (l_sink st) (l_pkt st) (l_wd st) (l_wa st)
                 (l_n1 st) (l_n2 st) o (l_slog st) (l_d1 st) (l_d2 st)) ev.
Proof. intros [Cs Cp]. constructor; lproj; auto. Qed.

Lemma pop_C lc st a rest : LInvC lc st None -> l_agenda st = a :: rest -> LInvC lc (popped st a rest) (Some (ae_ev a)).
Proof.
  intros [Cs Cp] E. constructor; [exact Cs|]. intros id Hi.
  assert (K : forall x, has_ev st None x -> has_ev (popped st a rest) (Some (ae_ev a)) x).
  { intros x [H|(a0 & Hin & Ex)]; [discriminate|]. rewrite E in Hin. destruct Hin as [<-|Hin]; [left; congruence|right; eauto]. }
  destruct (Cp id Hi) as [H|H]; [left|right]; apply K; exact H.
Qed.

Lemma handle_C lc st ev st' :
  lc_ok lc -> mult (mss (lc_cfg lc)) (fsize (lc_cfg lc)) ->
  LInvA lc st (Some ev) -> LInvB lc st (Some ev) -> LInvC lc st (Some ev) ->
  handle lc st ev = inl st' -> LInvC lc st' None.
Proof.
  intros Hok Hf HA HB HC H.
  assert (NT : forall x, (forall id, x <> ATimerInit id) -> (forall id, x <> ATimerFire id) -> ~ timer_ev x).
  { intros x A B (id & [E|E]); [apply (A id E)|apply (B id E)]. }
  destruct ev as [| |id|id|w|w|id|id|ackno pid tm ct|ackno pid tm ct]; cbn [handle] in H.
  - eapply (sender_event_C lc st EWake); eauto; [|apply NT; intros ? ?; discriminate].
    cbn [enabled]. pose proof (la_wake _ _ _ HA) as Hw. cbn [is_wake b2n] in Hw. destruct (wake (l_snd st)); [reflexivity|cbn [b2n] in Hw; lia].
  - eapply (sender_event_C lc st EStoreCb); eauto; [|apply NT; intros ? ?; discriminate].
    cbn [enabled]. pose proof (la_cb _ _ _ HA) as Hc. cbn [is_cb b2n] in Hc. lia.
  - (* Timer Initialize *)
    destruct HC as [Cs Cp].
    destruct (find (fun p => fst p =? id) (timers (l_snd st))) as [[k r]|] eqn:Ef; injection H as <-.
    + constructor; [exact Cs|]. intros i Hi. lproj.
      destruct (Z.eq_dec i id) as [->|Hne].
      * right. right. eexists. split; [apply ainsert_In; left; reflexivity|reflexivity].
      * destruct (Cp i Hi) as [[E|(a & Hin & E)]|[E|(a & Hin & E)]]; try (injection E as E; congruence).
        -- left. right. exists a. split; [apply ainsert_In; right; exact Hin|exact E].
        -- right. right. exists a. split; [apply ainsert_In; right; exact Hin|exact E].
    + apply find_none_keys in Ef. constructor; [exact Cs|]. intros i Hi.
      destruct (Cp i Hi) as [[E|K]|[E|K]]; try discriminate.
      * injection E as ->. contradiction.
      * left. right. exact K.
      * right. right. exact K.
  - destruct (has_timer id (timers (l_snd st))) eqn:Eh.
    + eapply (sender_event_C lc st (EExpire id)); eauto.
    + injection H as <-. destruct HC as [Cs Cp]. constructor; [exact Cs|]. intros i Hi.
      destruct (Cp i Hi) as [[E|K]|[E|K]]; try discriminate.
      * left. right. exact K.
      * injection E as ->. apply has_timer_In in Hi. congruence.
      * right. right. exact K.
  - destruct w; injection H as <-; (eapply (C_amono' _ _ _ _ HC); [apply NT; intros ? ?; discriminate|]); [apply wa_get_amono|apply wd_get_amono].
  - destruct w; [destruct (wa_waiting _)|destruct (wd_waiting _)]; injection H as <-;
      (eapply (C_amono' _ _ _ _ HC); [apply NT; intros ? ?; discriminate|]); try apply amono_refl; [apply wa_get_amono|apply wd_get_amono].
  - destruct (pkt_get id (l_pkt st)) as [[tm ct]|]; [|discriminate].
    destruct (Qltb _ _); [injection H as <-; eapply (C_amono' _ _ _ _ HC); [apply NT; intros ? ?; discriminate|apply sched_amono]|].
    destruct (deliver_data lc st id) as [st1|] eqn:D; cbn [bind] in H; [|discriminate]. injection H as <-.
    eapply (C_amono' _ _ _ _ HC); [apply NT; intros ? ?; discriminate|]. eapply amono_trans; [eapply deliver_data_amono; eauto|apply wd_get_amono].
  - destruct (deliver_data lc st id) as [st1|] eqn:D; cbn [bind] in H; [|discriminate]. injection H as <-.
    eapply (C_amono' _ _ _ _ HC); [apply NT; intros ? ?; discriminate|]. eapply amono_trans; [eapply deliver_data_amono; eauto|apply wd_get_amono].
  - destruct (Qltb _ _); [injection H as <-; eapply (C_amono' _ _ _ _ HC); [apply NT; intros ? ?; discriminate|apply sched_amono]|].
    destruct (deliver_ack lc st ackno pid tm) as [st1|] eqn:D; cbn [bind] in H; [|discriminate]. injection H as <-.
    unfold deliver_ack in D. set (st0 := mkls _ _ _ _ _ _ _ _ _ _ (tl (l_oracle st)) _ _ _) in D.
    assert (A0 : LInvA lc st0 (Some (AWireGetA ackno pid tm ct))).
    { destruct HA as [Is Iw Ic [Ts Tf Tpk Tw Te Td Tk]]. constructor; subst st0; lproj; auto. constructor; lproj; auto. }
    assert (B0 : LInvB lc st0 (Some (AWireGetA ackno pid tm ct))).
    { destruct HB as [Bns Bsent Bsk Bwd Bevd Beva Bwa Bsort Bctl Bla]. constructor; subst st0; lproj; auto. }
    assert (C0 : LInvC lc st0 (Some (AWireGetA ackno pid tm ct))) by (apply C_oracle; exact HC).
    apply (sender_event_C lc st0 _ (AWireGetA ackno pid tm ct) st1 Hok Hf A0 B0 C0) in D; [|exact Logic.I|reflexivity].
    destruct D as [Ds Dp]. pose proof (wa_get_amono st1) as [S A]. constructor; [rewrite S; exact Ds|].
    intros i Hi. rewrite S in Hi. destruct (Dp i Hi) as [[E|(a & Hin & E)]|[E|(a & Hin & E)]]; try discriminate; [left|right]; right; exists a; split; auto.
  - destruct (deliver_ack lc st ackno pid tm) as [st1|] eqn:D; cbn [bind] in H; [|discriminate]. injection H as <-.
    unfold deliver_ack in D. set (st0 := mkls _ _ _ _ _ _ _ _ _ _ (tl (l_oracle st)) _ _ _) in D.
    assert (A0 : LInvA lc st0 (Some (AWireOutA ackno pid tm ct))).
    { destruct HA as [Is Iw Ic [Ts Tf Tpk Tw Te Td Tk]]. constructor; subst st0; lproj; auto. constructor; lproj; auto. }
    assert (B0 : LInvB lc st0 (Some (AWireOutA ackno pid tm ct))).
    { destruct HB as [Bns Bsent Bsk Bwd Bevd Beva Bwa Bsort Bctl Bla]. constructor; subst st0; lproj; auto. }
    assert (C0 : LInvC lc st0 (Some (AWireOutA ackno pid tm ct))) by (apply C_oracle; exact HC).
    apply (sender_event_C lc st0 _ (AWireOutA ackno pid tm ct) st1 Hok Hf A0 B0 C0) in D; [|exact Logic.I|reflexivity].
    destruct D as [Ds Dp]. pose proof (wa_get_amono st1) as [S A]. constructor; [rewrite S; exact Ds|].
    intros i Hi. rewrite S in Hi. destruct (Dp i Hi) as [[E|(a & Hin & E)]|[E|(a & Hin & E)]]; try discriminate; [left|right]; right; exists a; split; auto.
Qed.

Record lc_ok2 (lc : lcfg) : Prop := {
  ok2_ok : lc_ok lc;
  ok2_size : mult (mss (lc_cfg lc)) (fsize (lc_cfg lc))
}.

Lemma linit_C lc cw ss rtt0 orc : lc_ok2 lc -> LInvC lc (linit cw ss rtt0 orc) None.
Proof.
  intros [[_ Hm _] Hf]. constructor; unfold linit; lproj.
  - apply init_C; assumption.
  - intros id Hi. unfold init in Hi; proj. destruct Hi.
Qed.

Lemma reach_C lc cw ss rtt0 orc st :
  lc_ok2 lc -> (zq (mss (lc_cfg lc)) <= cw)%Q -> (0 < rtt0)%Q ->
  lreach lc (linit cw ss rtt0 orc) st -> LInvAB lc st /\ LInvC lc st None.
Proof.
  intros Hok2 Hc Hr. pose proof Hok2 as [Hok Hf]. induction 1 as [|st st' Hreach IH Hstep].
  - split; [constructor; [apply linit_A; assumption|apply linit_B]|apply linit_C; exact Hok2].
  - destruct IH as [[HA HB] HC]. split; [eapply lstep_AB; eauto; constructor; assumption|].
    pose proof Hstep as H0. unfold lstep in H0. destruct (l_agenda st) as [|a rest] eqn:E; [discriminate|].
    injection H0 as H0. fold (popped st a rest) in H0.
    destruct (pop_A lc st a rest HA E) as (P1 & _).
    eapply handle_C; eauto; [apply pop_B; assumption|apply pop_C; assumption].
Qed.

Lemma acount_pos p l : (0 < acount p l)%nat -> exists a, In a l /\ p (ae_ev a) = true.
Proof.
  unfold acount. induction l as [|x l IH]; cbn [filter length]; [lia|].
  destruct (p (ae_ev x)) eqn:E; [intros _; exists x; split; [left; reflexivity|exact E]|].
  intros H. destruct (IH H) as (a & Ha & Ea). exists a. split; [right; exact Ha|exact Ea].
Qed.

(* what is pending when the transfer is not finished: the retransmission timer of the first
   unacknowledged segment has its kernel event on the agenda, or the sender process is about to run *)
Definition pending_work (lc : lcfg) (st : lstate) : Prop :=
  (exists id a, In id (keys (timers (l_snd st))) /\ id <= last_ack (l_snd st) < id + mss (lc_cfg lc) /\
                In a (l_agenda st) /\ (ae_ev a = ATimerInit id \/ ae_ev a = ATimerFire id)) \/
  (exists a, In a (l_agenda st) /\ (ae_ev a = ASenderWake \/ ae_ev a = ASenderCb)).

(* UNFINISHED => PENDING: in every reachable state, if last_ack has not reached the end of the flow
   (equivalently: the sink does not hold [0,size) contiguously, see the corollary), the agenda holds
   a timer event of the first unacknowledged segment or an event that resumes the sender: the
   simulation cannot become quiescent before the transfer is complete *)
Theorem loop_unfinished_has_pending lc cw ss rtt0 orc st :
  lc_ok2 lc -> (zq (mss (lc_cfg lc)) <= cw)%Q -> (0 < rtt0)%Q -> fsize (lc_cfg lc) <> 0 ->
  lreach lc (linit cw ss rtt0 orc) st ->
  last_ack (l_snd st) < fsize (lc_cfg lc) -> pending_work lc st.
Proof.
  intros Hok2 Hc Hr Hfs Hreach Hla. pose proof Hok2 as [Hok Hf]. pose proof Hok as [Hfx Hm Hd].
  destruct (reach_C lc cw ss rtt0 orc st Hok2 Hc Hr Hreach) as [[HA HB] [Cs Cp]].
  pose proof (LInvB_nse_le lc st None Hm HB) as Hnse. pose proof (lb_la _ _ _ HB) as Hlb.
  set (s := l_snd st) in *. set (m := mss (lc_cfg lc)) in *.
  assert (H0la : 0 <= last_ack s).
  { pose proof (loop_last_ack_monotone lc cw ss rtt0 orc _ st Hok Hc Hr (reach_init _ _) Hreach) as H. exact H. }
  destruct (Z_lt_ge_dec (last_ack s) (next_seq s)) as [Hlt|Hge].
  - (* some sent data is not acknowledged: its timer is armed and has its kernel event *)
    left. set (k := last_ack s / m).
    assert (Hk : 0 <= k /\ k * m <= last_ack s < k * m + m).
    { unfold k. pose proof (Z.div_mod (last_ack s) m ltac:(lia)) as E. pose proof (Z.mod_pos_bound (last_ack s) m Hm) as Bm.
      split; [apply Z.div_pos; lia|]. nia. }
    destruct Hk as (Hk0 & Hk1 & Hk2).
    assert (Hin : In (k * m) (keys (timers s))) by (apply (sc_timers _ _ Cs); [exact Hk0|lia|lia]).
    destruct (Cp _ Hin) as [[E|(a & Ha & Ea)]|[E|(a & Ha & Ea)]]; try discriminate.
    + exists (k * m), a. repeat split; auto; lia.
    + exists (k * m), a. repeat split; auto; lia.
  - (* everything sent is acknowledged, more is to be sent: the sender process is runnable *)
    right. assert (Hns : next_seq s < fsize (lc_cfg lc)) by lia.
    destruct (sc_ctl _ _ Cs) as [Hfin|[Hwt|Hwk]].
    + destruct (sc_fin _ _ Cs Hfin) as [_ Hx]. lia.
    + destruct (tokens s) as [|tk] eqn:Et.
      * pose proof (sc_wait0 _ _ Cs Hwt Et). lia.
      * assert (Hp : (0 < pend s)%nat) by (apply (sc_wait1 _ _ Cs Hwt); lia).
        pose proof (la_cb _ _ _ HA) as Hc'. cbn [opt_count] in Hc'. rewrite Nat.add_0_r in Hc'.
        destruct (acount_pos is_cb (l_agenda st)) as (a & Ha & Ea); [fold s in Hc'; lia|].
        exists a. split; [exact Ha|]. right. destruct (ae_ev a); try discriminate; reflexivity.
    + pose proof (la_wake _ _ _ HA) as Hw. rewrite Nat.add_0_r in Hw. fold s in Hw. rewrite Hwk in Hw. cbn [b2n] in Hw.
      destruct (acount_pos is_wake (l_agenda st)) as (a & Ha & Ea); [lia|].
      exists a. split; [exact Ha|]. left. destruct (ae_ev a); try discriminate; reflexivity.
Qed.

(* corollaries in the words of the property *)
Theorem loop_not_quiescent_while_unfinished lc cw ss rtt0 orc st :
  lc_ok2 lc -> (zq (mss (lc_cfg lc)) <= cw)%Q -> (0 < rtt0)%Q -> fsize (lc_cfg lc) <> 0 ->
  lreach lc (linit cw ss rtt0 orc) st ->
  (last_ack (l_snd st) < fsize (lc_cfg lc) \/ nse (l_sink st) < fsize (lc_cfg lc)) -> l_agenda st <> [].
Proof.
  intros Hok2 Hc Hr Hfs Hreach Hun.
  assert (Hla : last_ack (l_snd st) < fsize (lc_cfg lc)).
  { destruct Hun as [H|H]; [exact H|].
    destruct (loop_last_ack_le_prefix_le_next_seq lc cw ss rtt0 orc st (ok2_ok _ Hok2) Hc Hr Hreach) as [[A _] _]. lia. }
  destruct (loop_unfinished_has_pending lc cw ss rtt0 orc st Hok2 Hc Hr Hfs Hreach Hla) as [(id & a & _ & _ & Ha & _)|(a & Ha & _)];
    intros E; rewrite E in Ha; destruct Ha.
Qed.

(* a quiescent loop has delivered everything: the sink holds exactly [0, size) and last_ack = size *)
Theorem loop_quiescent_complete lc cw ss rtt0 orc st :
  lc_ok2 lc -> (zq (mss (lc_cfg lc)) <= cw)%Q -> (0 < rtt0)%Q -> fsize (lc_cfg lc) <> 0 ->
  lreach lc (linit cw ss rtt0 orc) st -> l_agenda st = [] ->
  last_ack (l_snd st) = fsize (lc_cfg lc) /\ nse (l_sink st) = fsize (lc_cfg lc) /\
  sink_prefix (l_sink st) (fsize (lc_cfg lc)).
Proof.
  intros Hok2 Hc Hr Hfs Hreach Hq.
  destruct (loop_last_ack_le_prefix_le_next_seq lc cw ss rtt0 orc st (ok2_ok _ Hok2) Hc Hr Hreach) as [[A B] P].
  destruct (reach_C lc cw ss rtt0 orc st Hok2 Hc Hr Hreach) as [_ [Cs _]].
  pose proof (sc_buf _ _ Cs) as [B1 B2]. specialize (B2 Hfs).
  destruct (Z_lt_ge_dec (last_ack (l_snd st)) (fsize (lc_cfg lc))) as [Hlt|Hge].
  - exfalso. eapply loop_not_quiescent_while_unfinished; eauto.
  - assert (E1 : last_ack (l_snd st) = fsize (lc_cfg lc)) by lia.
    assert (E2 : nse (l_sink st) = fsize (lc_cfg lc)) by lia.
    split; [exact E1|]. split; [exact E2|]. rewrite <- E2. exact P.
Qed.

(* ================================================================================================ *)
(* What is NOT proved (stated for the record; props/c16.py lists both under `partial`) *)

(* liveness: with finitely many drops the loop becomes quiescent (and is then complete by
   loop_quiescent_complete).  Proved: safety half only. *)
Definition reliable_delivery_statement : Prop :=
  forall lc cw ss rtt0 orc, lc_ok2 lc -> (zq (mss (lc_cfg lc)) <= cw)%Q -> (0 < rtt0)%Q -> fsize (lc_cfg lc) <> 0 ->
  exists fuel st T, (T <= lc_tmax lc)%Q -> lrun fuel lc (linit cw ss rtt0 orc) = LQuiescent st.

(* no drops and 2*delay below every armed timeout: no segment id is offered to the data path twice *)
Definition lossfree_no_retransmit_statement : Prop :=
  forall lc cw ss rtt0 orc fuel, lc_ok2 lc -> (zq (mss (lc_cfg lc)) <= cw)%Q -> (0 < rtt0)%Q ->
  lc_drop_data lc = [] -> lc_drop_ack lc = [] ->
  let st := lfinal (lrun fuel lc (linit cw ss rtt0 orc)) in
  (forall e, In e (l_slog st) -> forall id r, In (id, r) (timers (sl_post e)) -> (2 * lc_delay lc < r)%Q) ->
  NoDup (map dl_id (l_d1 st)).

(* the proved part of the second: a segment is transmitted again only by its own timer's expiry or by
   a duplicate ACK counted third or later (fast retransmit); everything else transmits new data only *)
Theorem retransmission_needs_expiry_or_third_dup fx c s e s' o id z :
  0 <= dupack s -> step fx c s e = Ok s' o -> In (Tx id z) o ->
  e = EWake \/ e = EExpire id \/
  (exists pid sample orc, e = EAck id pid sample orc /\ id = last_ack s /\ 3 <= dupack s + 1).
Proof.
  intros Hd H Hin. destruct e as [ackno pid sample orc|id0| |]; cbn [step] in H; [| | |left; reflexivity].
  - right; right. apply on_ack_shape in H; [|exact Hd]. destruct H as (_ & _ & _ & _ & _ & [D|Nw]).
    + destruct D as (Ea & _ & Ed & _ & _ & _ & _ & _ & _ & _ & [->|(-> & _ & H3)]); [destruct Hin|].
      destruct Hin as [E|[]]. injection E as <- _. exists pid, sample, orc. repeat split; auto. lia.
    + destruct Nw as (_ & _ & _ & _ & _ & -> & _). apply in_map_iff in Hin as (? & ? & _). discriminate.
  - right; left. apply on_timer_shape in H as (_ & _ & [->|(-> & _)]).
    + destruct Hin as [E|[]]; discriminate.
    + destruct Hin as [E|[E|[]]]; [injection E as <- _; reflexivity|discriminate].
  - apply on_storecb_shape in H as (-> & _). destruct Hin.
Qed.

Lemma current_is_repaired : current = repaired.
Proof. reflexivity. Qed.
