(* C16 liveness, continued.  Part 10: the packets in flight as one pipeline with delivery deadlines,
   the status of each armed retransmission timer, and the potential that bounds the number of
   timer expiries.
   An ACK created at ct reaches the sender by ct + d.  The data wire serves one packet at a time and
   each service takes at most d, whatever retransmissions do to the packet's stamps: the packet
   held by the wire leaves by [base], the j-th queued one by base + (j+1) d; its ACK arrives d later.
   These deadlines never increase.  With X = last_ack:
     X-item    a data copy of segment X, or an ACK numbered above X (its arrival ends the epoch);
     witness   of timer i: a data copy of i, or an ACK triggered by a copy of i;
     P(i)      timer i's Timeout is due after the deadline of a witness of i;
     L(i)      timer i's Timeout is due after the deadline of an X-item.
   A P or L timer cannot fire before that item is consumed (or dropped). *)
From Coq Require Import ZArith QArith Qabs Qround Qminmax List Bool Lia Lqa Arith.
From ONL Require Import Tcp.Sink Tcp.SinkProofs Tcp.Sender Tcp.SenderProofs Tcp.Loop Tcp.LoopProofs Tcp.LoopLive
  Tcp.LoopLossfree Tcp.LoopLive2 Tcp.LoopLive2T.
Import ListNotations.
Open Scope Z_scope.

Inductive item := IA (a pid : Z) | ID (id : Z).

Section Pipe.
Variable lc : lcfg.
Local Notation d := (lc_delay lc).
Hypothesis Hd : (0 <= d)%Q.

Definition hA1te (t : Q) (e : aev) : list (item * Q) :=
  match e with AWireGetA k p _ ct | AWireOutA k p _ ct => [(IA k p, (ct + d)%Q)] | _ => [] end.
Definition hA1 (a : aentry) : list (item * Q) := hA1te (ae_time a) (ae_ev a).
Definition heldA_items (ag : list aentry) : list (item * Q) := flat_map hA1 ag.
Definition qA_items (w : wireA) : list (item * Q) := map (fun r => (IA (a_no r) (a_pid r), (a_ct r + d)%Q)) (wa_items w).

(* the packet held by the data wire and the bound on the instant it leaves *)
Definition hD1te (t : Q) (e : aev) : list (Z * Q) :=
  match e with AWireOutD id => [(id, t)] | AWireGetD id => [(id, (t + d)%Q)] | _ => [] end.
Definition hD1 (a : aentry) : list (Z * Q) := hD1te (ae_time a) (ae_ev a).
Definition hD (ag : list aentry) : list (Z * Q) := flat_map hD1 ag.
Definition base (now : Q) (ag : list aentry) : Q := match hD ag with (_, t) :: _ => t | [] => now end.
Definition heldD_items (ag : list aentry) : list (item * Q) := map (fun x => (ID (fst x), (snd x + d)%Q)) (hD ag).
Fixpoint qD_items (b : Q) (l : list Z) : list (item * Q) :=
  match l with [] => [] | id :: t => (ID id, (b + d + d)%Q) :: qD_items (b + d)%Q t end.

Definition pipe (st : lstate) : list (item * Q) :=
  heldA_items (l_agenda st) ++ qA_items (l_wa st) ++ heldD_items (l_agenda st) ++
  qD_items (base (l_now st) (l_agenda st)) (wd_items (l_wd st)).

(* [x'] is at least as good as [x]: same packet (or its ACK), deadline not later *)
Definition better (x x' : item * Q) : Prop := fst x' = fst x /\ (snd x' <= snd x)%Q.

Lemma qD_mono b b' l x : (b' <= b)%Q -> In x (qD_items b l) -> exists x', In x' (qD_items b' l) /\ better x x'.
Proof.
  revert b b'. induction l as [|id t IH]; intros b b' Hb; cbn [qD_items In]; [tauto|].
  intros [<-|H].
  - eexists. split; [left; reflexivity|]. split; cbn [fst snd]; [reflexivity|lra].
  - destruct (IH (b + d)%Q (b' + d)%Q ltac:(lra) H) as (x' & A & B). exists x'. split; [right; exact A|exact B].
Qed.

Lemma qD_lo b l x : In x (qD_items b l) -> (b <= snd x)%Q.
Proof.
  revert b. induction l as [|id t IH]; intros b; cbn [qD_items In]; [tauto|].
  intros [<-|H]; [cbn [snd]; lra|]. specialize (IH _ H). lra.
Qed.

Definition nlen {A : Type} (l : list A) : Q := inject_Z (Z.of_nat (length l)).

Lemma nlen_cons {A : Type} (x : A) l : (nlen (x :: l) == nlen l + 1)%Q.
Proof. unfold nlen. cbn [length]. rewrite Nat2Z.inj_succ. unfold Z.succ. rewrite inject_Z_plus. reflexivity. Qed.

Lemma nlen_nonneg {A : Type} (l : list A) : (0 <= nlen l)%Q.
Proof. unfold nlen. change 0%Q with (inject_Z 0). rewrite <- Zle_Qle. apply Nat2Z.is_nonneg. Qed.

Lemma nlen_app {A : Type} (a b : list A) : (nlen (a ++ b) == nlen a + nlen b)%Q.
Proof. unfold nlen. rewrite app_length, Nat2Z.inj_add, inject_Z_plus. reflexivity. Qed.

Lemma qD_hi b l x : In x (qD_items b l) -> (snd x <= b + nlen l * d + d)%Q.
Proof.
  revert b. induction l as [|id t IH]; intros b; cbn [qD_items In]; [tauto|].
  pose proof (nlen_nonneg t) as Hn. rewrite nlen_cons.
  intros [<-|H]; [cbn [snd]; nra|]. specialize (IH _ H). nra.
Qed.

Lemma qD_app b l k : qD_items b (l ++ k) = qD_items b l ++ qD_items (fold_left (fun q _ => (q + d)%Q) l b) k.
Proof. revert b. induction l as [|id t IH]; intros b; cbn [app qD_items fold_left]; [reflexivity|]. rewrite IH. reflexivity. Qed.

Lemma fold_add b (l : list Z) : (fold_left (fun q _ => (q + d)%Q) l b == b + nlen l * d)%Q.
Proof.
  revert b. induction l as [|id t IH]; intros b; cbn [fold_left]; [unfold nlen; cbn [length Z.of_nat]; change (inject_Z 0) with 0%Q; lra|].
  rewrite IH, nlen_cons. lra.
Qed.

Lemma hD_cons a l : hD (a :: l) = hD1 a ++ hD l.
Proof. reflexivity. Qed.

Lemma hD_nil_count ag : hD ag = [] <-> acount is_holdD ag = O.
Proof.
  induction ag as [|a l IH]; [split; reflexivity|]. rewrite hD_cons, acount_cons. unfold hD1, hD1te, is_holdD.
  destruct (ae_ev a); cbn [dataid_of app b2n]; rewrite ?Nat.add_0_l; try exact IH; split; try discriminate; lia.
Qed.

Lemma In_hD ag id t : In (id, t) (hD ag) <->
  exists b, In b ag /\ ((ae_ev b = AWireOutD id /\ t = ae_time b) \/ (ae_ev b = AWireGetD id /\ t = (ae_time b + d)%Q)).
Proof.
  unfold hD. rewrite in_flat_map. split.
  - intros (b & Hb & Hx). exists b. split; [exact Hb|]. unfold hD1, hD1te in Hx.
    destruct (ae_ev b); cbn [In] in Hx; try contradiction; destruct Hx as [E|[]]; injection E as <- <-; auto.
  - intros (b & Hb & [[E ->]|[E ->]]); exists b; (split; [exact Hb|]); unfold hD1, hD1te; rewrite E; left; reflexivity.
Qed.

Lemma In_heldA ag it td : In (it, td) (heldA_items ag) <->
  exists b k p tm ct, In b ag /\ (ae_ev b = AWireGetA k p tm ct \/ ae_ev b = AWireOutA k p tm ct) /\ it = IA k p /\ td = (ct + d)%Q.
Proof.
  unfold heldA_items. rewrite in_flat_map. split.
  - intros (b & Hb & Hx). unfold hA1, hA1te in Hx.
    destruct (ae_ev b) eqn:E; cbn [In] in Hx; try contradiction; destruct Hx as [Ex|[]]; injection Ex as <- <-;
      exists b, ackno, pid, tm, ct; auto.
  - intros (b & k & p & tm & ct & Hb & [E|E] & -> & ->); exists b; (split; [exact Hb|]); unfold hA1, hA1te; rewrite E; left; reflexivity.
Qed.

(* every deadline is at or after the instant of the next agenda entry: the clock cannot pass a deadline *)
Lemma pipe_lo st a rest x :
  LInvW lc st -> l_agenda st = a :: rest -> (forall b, In b (l_agenda st) -> (ae_time a <= ae_time b)%Q) ->
  In x (pipe st) -> (ae_time a <= snd x)%Q.
Proof.
  intros [W0 Wp We0 WDs WAs Wst0 Wlen0] E Hall Hx. pose proof We0 as We. rewrite Forall_forall in We. destruct x as [it td]. cbn [snd].
  unfold pipe in Hx. apply in_app_or in Hx as [Hx|Hx]; [|apply in_app_or in Hx as [Hx|Hx]; [|apply in_app_or in Hx as [Hx|Hx]]].
  - apply In_heldA in Hx as (b & k & p & tm & ct & Hb & Hev & _ & ->).
    pose proof (Hall b Hb) as T1. pose proof (We b Hb) as T2. destruct Hev as [Ev|Ev]; rewrite Ev in T2; cbn [entry_w] in T2; lra.
  - unfold qA_items in Hx. apply in_map_iff in Hx as (r & Er & Hr). injection Er as _ <-.
    exact (head_time_acks lc _ _ _ _ r WAs We0 Hall Hr).
  - unfold heldD_items in Hx. apply in_map_iff in Hx as ([id t] & Er & Hr). injection Er as _ <-. cbn [snd].
    apply In_hD in Hr as (b & Hb & [[Ev ->]|[Ev ->]]); pose proof (Hall b Hb); lra.
  - assert (Hne : wd_items (l_wd st) <> []) by (intros En; rewrite En in Hx; destruct Hx).
    apply qD_lo in Hx. cbn [snd] in Hx.
    assert (Hb : (ae_time a <= base (l_now st) (l_agenda st))%Q); [|lra].
    unfold base. destruct (hD (l_agenda st)) as [|[id t] l] eqn:Eh.
    + apply hD_nil_count in Eh. destruct (sum_pos_ex _ _ _ (wd_wait _ _ WDs Eh Hne)) as (b & B1 & B2).
      pose proof (Hall b B1) as T1. pose proof (We b B1) as T2.
      destruct (ae_ev b) as [| | | |[]|[]| | | |]; cbn [is_putD is_initD entry_w] in *; destruct B2; try discriminate; lra.
    + assert (Hin : In (id, t) (hD (l_agenda st))) by (rewrite Eh; left; reflexivity).
      apply In_hD in Hin as (b & Hb & [[Ev ->]|[Ev ->]]); pose proof (Hall b Hb); lra.
Qed.

Lemma hD_fin_hi now ag id t :
  Forall (fun b => entry_w lc now (ae_time b) (ae_ev b)) ag -> In (id, t) (hD ag) -> (t <= now + d)%Q.
Proof.
  intros We H. rewrite Forall_forall in We. apply In_hD in H as (b & Hb & [[Ev ->]|[Ev ->]]);
    pose proof (We b Hb) as T; rewrite Ev in T; cbn [entry_w] in T; lra.
Qed.

Lemma base_hi now ag :
  Forall (fun b => entry_w lc now (ae_time b) (ae_ev b)) ag -> (base now ag <= now + d)%Q.
Proof.
  intros We. unfold base. destruct (hD ag) as [|[id t] l] eqn:Eh; [lra|].
  apply (hD_fin_hi now ag id t We). rewrite Eh. left. reflexivity.
Qed.

(* and no deadline is further away than (queue length + 2) propagation delays *)
Lemma pipe_hi st x :
  LInvW lc st -> In x (pipe st) -> (snd x <= l_now st + (nlen (wd_items (l_wd st)) + 2) * d)%Q.
Proof.
  intros [W0 Wp We0 WDs WAs Wst0 Wlen0] Hx. pose proof We0 as We. rewrite Forall_forall in We. destruct x as [it td]. cbn [snd].
  pose proof (nlen_nonneg (wd_items (l_wd st))) as Hn.
  unfold pipe in Hx. apply in_app_or in Hx as [Hx|Hx]; [|apply in_app_or in Hx as [Hx|Hx]; [|apply in_app_or in Hx as [Hx|Hx]]].
  - apply In_heldA in Hx as (b & k & p & tm & ct & Hb & Hev & _ & ->).
    pose proof (We b Hb) as T2. destruct Hev as [Ev|Ev]; rewrite Ev in T2; cbn [entry_w] in T2; nra.
  - unfold qA_items in Hx. apply in_map_iff in Hx as (r & Er & Hr). injection Er as _ <-.
    pose proof (wa_acks _ _ _ _ WAs) as Ha. rewrite Forall_forall in Ha. destruct (Ha r Hr). nra.
  - unfold heldD_items in Hx. apply in_map_iff in Hx as ([id t] & Er & Hr). injection Er as _ <-. cbn [snd].
    pose proof (hD_fin_hi _ _ _ _ We0 Hr). nra.
  - apply qD_hi in Hx. cbn [snd] in Hx. pose proof (base_hi _ _ We0). nra.
Qed.

(* ---- projections of the agenda through AddsT ---- *)
Lemma insert_split (e : aentry) l : exists l1 l2, l = l1 ++ l2 /\ ainsert e l = l1 ++ e :: l2.
Proof.
  induction l as [|x t IH]; cbn [ainsert].
  - exists [], []. split; reflexivity.
  - destruct (ae_before e x).
    + exists [], (x :: t). split; reflexivity.
    + destruct IH as (l1 & l2 & -> & E). exists (x :: l1), l2. split; [reflexivity|]. rewrite E. reflexivity.
Qed.

Section Proj.
Context {X : Type} (f : Q -> aev -> list X).
Definition fm (ag : list aentry) : list X := flat_map (fun a => f (ae_time a) (ae_ev a)) ag.

Lemma fm_AddsT_nil rest ag' news :
  AddsT rest ag' news -> (forall n, In n news -> f (fst n) (snd n) = []) -> fm ag' = fm rest.
Proof.
  induction 1 as [|ag ag' news t p k e H IH]; intros Hn; [reflexivity|].
  destruct (insert_split (mkae t p k e) ag') as (l1 & l2 & E1 & E2). rewrite E2.
  rewrite <- IH by (intros n Hin; apply Hn; apply in_or_app; left; exact Hin). rewrite E1.
  unfold fm. rewrite !flat_map_app. cbn [flat_map ae_time ae_ev].
  pose proof (Hn (t, e) ltac:(apply in_or_app; right; left; reflexivity)) as Hx. cbn [fst snd] in Hx. rewrite Hx. reflexivity.
Qed.

Lemma fm_AddsT_In rest ag' news x :
  AddsT rest ag' news -> (In x (fm ag') <-> In x (fm rest) \/ exists n, In n news /\ In x (f (fst n) (snd n))).
Proof.
  induction 1 as [|ag ag' news t p k e H IH].
  - split; [auto|]. intros [H|(n & [] & _)]. exact H.
  - destruct (insert_split (mkae t p k e) ag') as (l1 & l2 & E1 & E2). rewrite E2.
    assert (E3 : In x (fm (l1 ++ mkae t p k e :: l2)) <-> In x (fm ag') \/ In x (f t e)).
    { rewrite E1. unfold fm. rewrite !flat_map_app, !in_app_iff. cbn [flat_map ae_time ae_ev]. rewrite in_app_iff. tauto. }
    rewrite E3, IH. split.
    + intros [[A|(n & A & B)]|A]; [left; exact A|right; exists n; split; [apply in_or_app; left; exact A|exact B]|].
      right. exists (t, e). split; [apply in_or_app; right; left; reflexivity|exact A].
    + intros [A|(n & A & B)]; [left; left; exact A|]. apply in_app_or in A as [A|[<-|[]]]; [left; right; eauto|right; exact B].
Qed.

End Proj.

Lemma hD_AddsT_nil rest ag' news :
  AddsT rest ag' news -> (forall n, In n news -> is_holdD (snd n) = false) -> hD ag' = hD rest.
Proof.
  intros HA Hn. apply (fm_AddsT_nil hD1te _ _ _ HA). intros n Hin. specialize (Hn n Hin).
  unfold hD1te. destruct (snd n); try reflexivity; discriminate.
Qed.

Lemma heldA_AddsT_nil rest ag' news :
  AddsT rest ag' news -> (forall n, In n news -> is_holdA (snd n) = false) -> heldA_items ag' = heldA_items rest.
Proof.
  intros HA Hn. apply (fm_AddsT_nil hA1te _ _ _ HA). intros n Hin. specialize (Hn n Hin).
  unfold hA1te. destruct (snd n); try reflexivity; discriminate.
Qed.

Lemma hD_len ag : length (hD ag) = acount is_holdD ag.
Proof.
  induction ag as [|a l IH]; [reflexivity|]. rewrite hD_cons, acount_cons, app_length, IH. unfold hD1, hD1te, is_holdD.
  destruct (ae_ev a); reflexivity.
Qed.

Lemma base_of_in now ag id t : (acount is_holdD ag <= 1)%nat -> In (id, t) (hD ag) -> base now ag = t.
Proof.
  intros Hc Hin. rewrite <- hD_len in Hc. unfold base. destruct (hD ag) as [|[i u] [|y l]]; cbn [length] in Hc; [destruct Hin| |lia].
  destruct Hin as [E|[]]. injection E as _ <-. reflexivity.
Qed.

Lemma base_nil now ag : acount is_holdD ag = O -> base now ag = now.
Proof. intros H. apply hD_nil_count in H. unfold base. rewrite H. reflexivity. Qed.

(* ---- the Timeout events of the retransmission timers ---- *)
Definition fire1 (t : Q) (e : aev) : list (Z * Q) := match e with ATimerFire j => [(j, t)] | _ => [] end.
Definition fires (ag : list aentry) : list (Z * Q) := fm fire1 ag.

Lemma In_fires ag j t : In (j, t) (fires ag) <-> exists b, In b ag /\ ae_ev b = ATimerFire j /\ ae_time b = t.
Proof.
  unfold fires, fm. rewrite in_flat_map. split.
  - intros (b & Hb & Hx). exists b. split; [exact Hb|]. unfold fire1 in Hx. destruct (ae_ev b); cbn [In] in Hx; try contradiction.
    destruct Hx as [E|[]]. injection E as <- <-. auto.
  - intros (b & Hb & E & <-). exists b. split; [exact Hb|]. unfold fire1. rewrite E. left. reflexivity.
Qed.
End Pipe.

(* ================================================================================================ *)
(* statuses and the potential *)
Section Status.
Variable lc : lcfg.
Local Notation d := (lc_delay lc).

Definition isX (X : Z) (it : item) : bool := match it with ID id => id =? X | IA k _ => X <? k end.
Definition isW (i : Z) (it : item) : bool := match it with ID id => id =? i | IA _ p => p =? i end.

Definition hasW (pp : list (item * Q)) (i : Z) (D : Q) : bool := existsb (fun x => isW i (fst x) && Qltb (snd x) D) pp.
Definition hasX (pp : list (item * Q)) (X : Z) (D : Q) : bool := existsb (fun x => isX X (fst x) && Qltb (snd x) D) pp.

Definition statP (st : lstate) (i : Z) : bool :=
  existsb (fun f => (fst f =? i) && hasW (pipe lc st) i (snd f)) (fires (l_agenda st)).
Definition statL (st : lstate) (i : Z) : bool :=
  existsb (fun f => (fst f =? i) && hasX (pipe lc st) (last_ack (l_snd st)) (snd f)) (fires (l_agenda st)).
Definition zmode (st : lstate) : bool := existsb (fun x => isX (last_ack (l_snd st)) (fst x)) (pipe lc st).

Definition cntnot (f : Z -> bool) (ks : list Z) : Z := Z.of_nat (length (filter (fun i => negb (f i)) ks)).

Lemma cntnot_nonneg f ks : 0 <= cntnot f ks.
Proof. unfold cntnot. lia. Qed.
Lemma cntnot_le_len f ks : cntnot f ks <= Z.of_nat (length ks).
Proof.
  unfold cntnot. assert ((length (filter (fun i => negb (f i)) ks) <= length ks)%nat); [|lia].
  induction ks as [|k l IH]; cbn [filter length]; [lia|]. destruct (negb (f k)); cbn [length]; lia.
Qed.
Lemma cntnot_app f a b : cntnot f (a ++ b) = cntnot f a + cntnot f b.
Proof. unfold cntnot. rewrite filter_app, app_length. lia. Qed.

Lemma cntnot_mono f g ks : (forall i, In i ks -> f i = true -> g i = true) -> cntnot g ks <= cntnot f ks.
Proof.
  intros H. unfold cntnot. induction ks as [|k l IH]; cbn [filter]; [lia|].
  assert (IH' : (length (filter (fun i => negb (g i)) l) <= length (filter (fun i => negb (f i)) l))%nat).
  { assert (forall i, In i l -> f i = true -> g i = true) by (intros i Hi; apply H; right; exact Hi). specialize (IH H0). lia. }
  destruct (f k) eqn:Ef; cbn [negb].
  - rewrite (H k (or_introl eq_refl) Ef). cbn [negb]. lia.
  - destruct (g k); cbn [negb length]; lia.
Qed.

(* one key may lose its status *)
Lemma cntnot_mono_but f g ks i0 : NoDup ks ->
  (forall i, In i ks -> i <> i0 -> f i = true -> g i = true) -> cntnot g ks <= cntnot f ks + 1.
Proof.
  intros Hnd H. unfold cntnot. induction Hnd as [|k l Hk Hl IH]; cbn [filter]; [lia|].
  destruct (Z.eq_dec k i0) as [->|Hne].
  - assert (M : cntnot g l <= cntnot f l).
    { apply cntnot_mono. intros i Hi. apply H; [right; exact Hi|]. intros ->. contradiction. }
    unfold cntnot in M. destruct (f i0); destruct (g i0); cbn [negb length]; lia.
  - assert (IH' : (length (filter (fun i => negb (g i)) l) <= length (filter (fun i => negb (f i)) l) + 1)%nat).
    { assert (forall i, In i l -> i <> i0 -> f i = true -> g i = true) by (intros i Hi; apply H; right; exact Hi). specialize (IH H0). lia. }
    destruct (f k) eqn:Ef; cbn [negb].
    + rewrite (H k (or_introl eq_refl) Hne Ef). cbn [negb]. lia.
    + destruct (g k); cbn [negb length]; lia.
Qed.

(* one key gains its status, the others keep theirs *)
Lemma cntnot_gain f g ks i0 :
  In i0 ks -> f i0 = false -> g i0 = true -> (forall i, In i ks -> f i = true -> g i = true) -> cntnot g ks + 1 <= cntnot f ks.
Proof.
  intros Hin Hf Hg H. unfold cntnot. induction ks as [|k l IH]; [destruct Hin|]. cbn [filter].
  destruct Hin as [->|Hin].
  - rewrite Hf, Hg. cbn [negb length].
    assert (M : cntnot g l <= cntnot f l) by (apply cntnot_mono; intros i Hi; apply H; right; exact Hi). unfold cntnot in M. lia.
  - assert (IH' : (length (filter (fun i => negb (g i)) l) + 1 <= length (filter (fun i => negb (f i)) l))%nat).
    { assert (forall i, In i l -> f i = true -> g i = true) by (intros i Hi; apply H; right; exact Hi). specialize (IH Hin H0). lia. }
    destruct (f k) eqn:Ef; cbn [negb].
    + rewrite (H k (or_introl eq_refl) Ef). cbn [negb]. lia.
    + destruct (g k); cbn [negb length]; lia.
Qed.

(* ---- statuses survive as long as the items and the Timeout events survive ---- *)
Definition Rx (X : Z) (it it' : item) : Prop :=
  (forall i, isW i it = true -> isW i it' = true) /\ (isX X it = true -> isX X it' = true).

Lemma Rx_refl X it : Rx X it it.
Proof. split; auto. Qed.

Definition Pres (X : Z) (pp pp' : list (item * Q)) (exc : item * Q -> Prop) : Prop :=
  forall x, In x pp -> exc x \/ exists x', In x' pp' /\ Rx X (fst x) (fst x') /\ (snd x' <= snd x)%Q.

Lemma hasW_mono X pp pp' exc i D :
  Pres X pp pp' exc -> (forall x, exc x -> isW i (fst x) = false) -> hasW pp i D = true -> hasW pp' i D = true.
Proof.
  intros HP He H. unfold hasW in *. apply existsb_exists in H as (x & Hx & Hc). apply andb_true_iff in Hc as [C1 C2].
  destruct (HP x Hx) as [Hex|(x' & Hx' & [R1 _] & Hle)]; [rewrite (He x Hex) in C1; discriminate|].
  apply existsb_exists. exists x'. split; [exact Hx'|]. apply andb_true_iff. split; [apply R1; exact C1|].
  apply Qltb_true in C2. apply Qltb_true. lra.
Qed.

Lemma hasX_mono X pp pp' exc D :
  Pres X pp pp' exc -> (forall x, exc x -> isX X (fst x) = false) -> hasX pp X D = true -> hasX pp' X D = true.
Proof.
  intros HP He H. unfold hasX in *. apply existsb_exists in H as (x & Hx & Hc). apply andb_true_iff in Hc as [C1 C2].
  destruct (HP x Hx) as [Hex|(x' & Hx' & [_ R2] & Hle)]; [rewrite (He x Hex) in C1; discriminate|].
  apply existsb_exists. exists x'. split; [exact Hx'|]. apply andb_true_iff. split; [apply R2; exact C1|].
  apply Qltb_true in C2. apply Qltb_true. lra.
Qed.

Definition fires_keep (i : Z) (st st' : lstate) : Prop :=
  forall t, In (i, t) (fires (l_agenda st)) -> In (i, t) (fires (l_agenda st')).

Lemma statP_mono st st' exc i :
  Pres (last_ack (l_snd st)) (pipe lc st) (pipe lc st') exc -> (forall x, exc x -> isW i (fst x) = false) ->
  fires_keep i st st' -> statP st i = true -> statP st' i = true.
Proof.
  intros HP He Hf H. unfold statP in *. apply existsb_exists in H as ([j t] & Hx & Hc). cbn [fst snd] in Hc.
  apply andb_true_iff in Hc as [C1 C2]. apply Z.eqb_eq in C1. subst j.
  apply existsb_exists. exists (i, t). split; [apply Hf; exact Hx|]. cbn [fst snd]. rewrite Z.eqb_refl. cbn [andb].
  eapply hasW_mono; eauto.
Qed.

Lemma statL_mono st st' exc i :
  last_ack (l_snd st') = last_ack (l_snd st) ->
  Pres (last_ack (l_snd st)) (pipe lc st) (pipe lc st') exc -> (forall x, exc x -> isX (last_ack (l_snd st)) (fst x) = false) ->
  fires_keep i st st' -> statL st i = true -> statL st' i = true.
Proof.
  intros HX HP He Hf H. unfold statL in *. rewrite HX. apply existsb_exists in H as ([j t] & Hx & Hc). cbn [fst snd] in Hc.
  apply andb_true_iff in Hc as [C1 C2]. apply Z.eqb_eq in C1. subst j.
  apply existsb_exists. exists (i, t). split; [apply Hf; exact Hx|]. cbn [fst snd]. rewrite Z.eqb_refl. cbn [andb].
  eapply hasX_mono; eauto.
Qed.

Lemma zmode_mono st st' exc :
  last_ack (l_snd st') = last_ack (l_snd st) ->
  Pres (last_ack (l_snd st)) (pipe lc st) (pipe lc st') exc -> (forall x, exc x -> isX (last_ack (l_snd st)) (fst x) = false) ->
  zmode st = true -> zmode st' = true.
Proof.
  intros HX HP He H. unfold zmode in *. rewrite HX. apply existsb_exists in H as (x & Hx & C1).
  destruct (HP x Hx) as [Hex|(x' & Hx' & [_ R2] & _)]; [rewrite (He x Hex) in C1; discriminate|].
  apply existsb_exists. exists x'. split; [exact Hx'|apply R2; exact C1].
Qed.
End Status.

(* ================================================================================================ *)
(* what an agenda step does to the two halves of the pipeline *)
Section Parts.
Variable lc : lcfg.
Local Notation d := (lc_delay lc).
Hypothesis Hd : (0 <= d)%Q.

Definition DPl (now : Q) (ag : list aentry) (items : list Z) : list (item * Q) :=
  heldD_items lc ag ++ qD_items lc (base lc now ag) items.
Definition APl (ag : list aentry) (w : wireA) : list (item * Q) := heldA_items lc ag ++ qA_items lc w.

Lemma pipe_parts st : pipe lc st = APl (l_agenda st) (l_wa st) ++ DPl (l_now st) (l_agenda st) (wd_items (l_wd st)).
Proof. unfold pipe, APl, DPl. rewrite <- app_assoc. reflexivity. Qed.

Lemma hD_nothold a l : is_holdD (ae_ev a) = false -> hD lc (a :: l) = hD lc l.
Proof. intros H. rewrite hD_cons. unfold hD1, hD1te. destruct (ae_ev a); try reflexivity; discriminate. Qed.

Lemma heldA_cons a l : heldA_items lc (a :: l) = hA1 lc a ++ heldA_items lc l.
Proof. reflexivity. Qed.

Lemma heldA_nothold a l : is_holdA (ae_ev a) = false -> heldA_items lc (a :: l) = heldA_items lc l.
Proof. intros H. unfold heldA_items. cbn [flat_map]. unfold hA1, hA1te. destruct (ae_ev a); try reflexivity; discriminate. Qed.

Lemma better_refl x : better x x.
Proof. split; [reflexivity|apply Qle_refl]. Qed.

Lemma qD_prefix b l k x : In x (qD_items lc b l) -> In x (qD_items lc b (l ++ k)).
Proof. intros H. rewrite qD_app. apply in_or_app. left. exact H. Qed.

(* the data wire is not involved (or only receives new segments) *)
Lemma DP_same now tau a rest ag' news items kp x :
  is_holdD (ae_ev a) = false -> AddsT rest ag' news -> (forall n, In n news -> is_holdD (snd n) = false) ->
  (acount is_holdD (a :: rest) = O -> items <> [] -> (tau <= now)%Q) ->
  In x (DPl now (a :: rest) items) -> exists x', In x' (DPl tau ag' (items ++ kp)) /\ better x x'.
Proof.
  intros Ha HA Hn Ht Hx. unfold DPl in *.
  assert (Eh : hD lc ag' = hD lc (a :: rest)) by (rewrite (hD_AddsT_nil lc _ _ _ HA Hn), hD_nothold; auto).
  assert (Ehi : heldD_items lc ag' = heldD_items lc (a :: rest)) by (unfold heldD_items; rewrite Eh; reflexivity).
  apply in_app_or in Hx as [Hx|Hx].
  - exists x. split; [apply in_or_app; left; rewrite Ehi; exact Hx|apply better_refl].
  - assert (Hne : items <> []) by (intros En; rewrite En in Hx; destruct Hx).
    assert (Hb : (base lc tau ag' <= base lc now (a :: rest))%Q).
    { unfold base. rewrite Eh. destruct (hD lc (a :: rest)) as [|[i t] l] eqn:E; [|apply Qle_refl].
      apply Ht; [apply (proj1 (hD_nil_count lc _)); exact E|exact Hne]. }
    destruct (qD_mono lc _ _ _ x Hb Hx) as (x' & A & B). exists x'. split; [apply in_or_app; right; apply qD_prefix; exact A|exact B].
Qed.

(* the held packet starts its propagation delay: it leaves no later than assumed *)
Lemma DP_wait now tau a rest ag' id t' items x :
  ae_ev a = AWireGetD id -> ae_time a = tau -> AddsT rest ag' [(t', AWireOutD id)] -> (t' <= tau + d)%Q ->
  acount is_holdD rest = O ->
  In x (DPl now (a :: rest) items) -> exists x', In x' (DPl tau ag' items) /\ better x x'.
Proof.
  intros Ea Et HA Ht Hc Hx. unfold DPl in *.
  assert (E0 : hD lc (a :: rest) = [(id, (tau + d)%Q)]).
  { rewrite hD_cons. rewrite (proj2 (hD_nil_count lc _) Hc), app_nil_r. unfold hD1, hD1te. rewrite Ea, Et. reflexivity. }
  assert (Hin : In (id, t') (hD lc ag')).
  { apply (fm_AddsT_In (hD1te lc) _ _ _ (id, t') HA). right. exists (t', AWireOutD id). split; [left; reflexivity|left; reflexivity]. }
  assert (Hc' : (acount is_holdD ag' <= 1)%nat) by (rewrite (AddsT_acount _ _ _ _ HA), Hc; cbn; lia).
  assert (Eh : hD lc ag' = [(id, t')]).
  { rewrite <- (hD_len lc) in Hc'. destruct (hD lc ag') as [|y [|z l]]; cbn [length] in Hc'; [destruct Hin| |lia].
    destruct Hin as [->|[]]. reflexivity. }
  unfold heldD_items, base in *. rewrite E0 in Hx. rewrite Eh. cbn [map fst snd] in *.
  apply in_app_or in Hx as [[<-|[]]|Hx].
  - eexists. split; [left; reflexivity|]. split; cbn [fst snd]; [reflexivity|lra].
  - destruct (qD_mono lc _ _ _ x Ht Hx) as (x' & A & B). exists x'. split; [right; exact A|exact B].
Qed.

(* the wire's process takes the next packet out of its store *)
Lemma DP_get tau b0 rest ag' n0 w x :
  acount is_holdD rest = O -> AddsT rest ag' (n0 ++ fst (getD_eff tau w)) -> (forall n, In n n0 -> is_holdD (snd n) = false) ->
  (tau <= b0)%Q ->
  In x (qD_items lc b0 (wd_items w)) -> exists x', In x' (DPl tau ag' (wd_items (snd (getD_eff tau w)))) /\ better x x'.
Proof.
  intros Hc HA Hn Hb Hx. unfold DPl, getD_eff in *. destruct (wd_items w) as [|y l] eqn:Ei; [destruct Hx|]. cbn [fst snd wd_items] in *.
  assert (Hin : In (y, (nq tau + d)%Q) (hD lc ag')).
  { apply (fm_AddsT_In (hD1te lc) _ _ _ (y, (nq tau + d)%Q) HA). right. exists (nq tau, AWireGetD y).
    split; [apply in_or_app; right; left; reflexivity|left; reflexivity]. }
  assert (Hc' : (acount is_holdD ag' <= 1)%nat).
  { rewrite (AddsT_acount _ _ _ _ HA), Hc, ncount_app, ncount_cons. cbn [snd is_holdD dataid_of b2n ncount filter length].
    assert (ncount is_holdD n0 = O); [|lia]. unfold ncount. apply length_zero_iff_nil, filter_none. intros n Hin'. apply Hn, Hin'. }
  assert (Eh : hD lc ag' = [(y, (nq tau + d)%Q)]).
  { rewrite <- (hD_len lc) in Hc'. destruct (hD lc ag') as [|z [|z' l']]; cbn [length] in Hc'; [destruct Hin| |lia].
    destruct Hin as [->|[]]. reflexivity. }
  unfold heldD_items, base. rewrite Eh. cbn [map fst snd]. cbn [qD_items] in Hx. pose proof (nq_eq tau) as Hq.
  destruct Hx as [<-|Hx].
  - eexists. split; [left; reflexivity|]. split; cbn [fst snd]; [reflexivity|lra].
  - assert (Hb' : (nq tau + d <= b0 + d)%Q) by lra.
    destruct (qD_mono lc _ _ _ x Hb' Hx) as (x' & A & B). exists x'. split; [right; exact A|exact B].
Qed.

(* ---- ACK wire ---- *)
Lemma heldA_nil_count ag : acount is_holdA ag = O -> heldA_items lc ag = [].
Proof.
  induction ag as [|a l IH]; [reflexivity|]. rewrite acount_cons. intros H.
  rewrite heldA_nothold; [apply IH; lia|]. destruct (is_holdA (ae_ev a)); [cbn [b2n] in H; lia|reflexivity].
Qed.

Lemma AP_same a rest ag' news (w w' : wireA) l x :
  is_holdA (ae_ev a) = false -> AddsT rest ag' news -> (forall n, In n news -> is_holdA (snd n) = false) ->
  wa_items w' = wa_items w ++ l ->
  In x (APl (a :: rest) w) -> In x (APl ag' w').
Proof.
  intros Ha HA Hn Hw Hx. unfold APl in *. rewrite (heldA_AddsT_nil lc _ _ _ HA Hn). rewrite heldA_nothold in Hx by exact Ha.
  apply in_app_or in Hx as [Hx|Hx]; apply in_or_app; [left; exact Hx|right].
  unfold qA_items in *. rewrite Hw, map_app. apply in_or_app. left. exact Hx.
Qed.

Lemma AP_wait a rest ag' k p tm ct t' w x :
  ae_ev a = AWireGetA k p tm ct -> AddsT rest ag' [(t', AWireOutA k p tm ct)] ->
  In x (APl (a :: rest) w) -> In x (APl ag' w).
Proof.
  intros Ea HA Hx. unfold APl in *. apply in_app_or in Hx as [Hx|Hx]; apply in_or_app; [left|right; exact Hx].
  unfold heldA_items in *. cbn [flat_map] in Hx. apply in_app_or in Hx as [Hx|Hx].
  - unfold hA1, hA1te in Hx. rewrite Ea in Hx. destruct Hx as [<-|[]].
    apply (fm_AddsT_In (hA1te lc) _ _ _ _ HA). right. exists (t', AWireOutA k p tm ct). split; [left; reflexivity|left; reflexivity].
  - apply (fm_AddsT_In (hA1te lc) _ _ _ _ HA). left. exact Hx.
Qed.

Lemma AP_get tau rest ag' n0 w x :
  AddsT rest ag' (n0 ++ fst (getA_eff tau w)) ->
  In x (qA_items lc w) -> In x (APl ag' (snd (getA_eff tau w))).
Proof.
  intros HA Hx. unfold APl, getA_eff, qA_items in *. destruct (wa_items w) as [|y l] eqn:Ei; [destruct Hx|]. cbn [fst snd wa_items map] in *.
  destruct Hx as [<-|Hx]; apply in_or_app; [left|right; exact Hx].
  apply (fm_AddsT_In (hA1te lc) _ _ _ _ HA). right. eexists. split; [apply in_or_app; right; left; reflexivity|]. left. reflexivity.
Qed.

(* a waiting data wire with packets in its store is being woken in the current instant *)
Lemma head_le_now_D st a rest :
  LInvW lc st -> l_agenda st = a :: rest -> (forall b, In b (l_agenda st) -> (ae_time a <= ae_time b)%Q) ->
  acount is_holdD (l_agenda st) = O -> wd_items (l_wd st) <> [] -> (ae_time a <= l_now st)%Q.
Proof.
  intros [W0 Wp We WDs WAs Wst0 Wlen0] E Hall Hc Hne. rewrite Forall_forall in We.
  destruct (sum_pos_ex _ _ _ (wd_wait _ _ WDs Hc Hne)) as (b & B1 & B2).
  pose proof (Hall b B1) as T1. pose proof (We b B1) as T2.
  destruct (ae_ev b) as [| | | |[]|[]| | | |]; cbn [is_putD is_initD entry_w] in *; destruct B2; try discriminate; lra.
Qed.

Lemma Tr_adds st a rest st' : Tr lc st a rest st' -> exists news, AddsT rest (l_agenda st') news.
Proof.
  intros [e isack s' o nw kp k nwa Hev Hstep Ho Hnow Hsnd Hsink Hn2 Hslog Hn1 Hwd Hif HA' Hkp Hkeep Hpkt
         | id r Hev Hfind Hk Hwd Hwa HA' | Hev Hk Hwd Hwa Hag | Hev Hk Hwa Hwd HA' | Hev Hk Hwd Hwa HA'
         | id Hev Hq Hk Hwd Hwa HA' | ackno pid tm ct Hev Hq Hk Hwd Hwa HA'
         | id tm ct Hev Hp Hnow Hsnd Hpkt Hn1 Hslog Hsink Hn2 Hwd Hif]; eauto.
  - exists []. rewrite Hag. constructor.
  - destruct (droppedA lc (l_n2 st)); destruct Hif as [_ H]; eauto.
Qed.

Lemma fires_cons a l j t : In (j, t) (fires (a :: l)) <-> (ae_ev a = ATimerFire j /\ ae_time a = t) \/ In (j, t) (fires l).
Proof.
  unfold fires, fm. cbn [flat_map]. rewrite in_app_iff. unfold fire1 at 1. split.
  - intros [H|H]; [left|right; exact H]. destruct (ae_ev a); cbn [In] in H; try contradiction. destruct H as [E|[]]. injection E as <- <-. auto.
  - intros [[E <-]|H]; [left; rewrite E; left; reflexivity|right; exact H].
Qed.

(* the Timeout events of the other timers stay on the agenda *)
Lemma fires_keep_step st a rest st' i :
  l_agenda st = a :: rest -> Tr lc st a rest st' -> ae_ev a <> ATimerFire i -> fires_keep i st st'.
Proof.
  intros E HT Hne t Hin. destruct (Tr_adds _ _ _ _ HT) as (news & HA). rewrite E in Hin.
  apply fires_cons in Hin as [[Ea _]|Hin]; [contradiction|].
  apply (fm_AddsT_In fire1 _ _ _ _ HA). left. exact Hin.
Qed.

Lemma ctlD_rest a rest w :
  WD (a :: rest) w ->
  (is_initD (ae_ev a) = true \/ is_holdD (ae_ev a) = true \/ (is_putD (ae_ev a) = true /\ wd_waiting w = true)) ->
  acount is_holdD rest = O.
Proof.
  intros [cD _] H. repeat rewrite acount_cons in cD. destruct H as [R|[R|[_ R]]]; rewrite R in cD; cbn [b2n] in cD; lia.
Qed.

Lemma ctlA_rest now a rest w :
  WA lc now (a :: rest) w ->
  (is_initA (ae_ev a) = true \/ is_holdA (ae_ev a) = true \/ (is_putA (ae_ev a) = true /\ wa_waiting w = true)) ->
  acount is_holdA rest = O.
Proof.
  intros [cA _ _ _ _] H. repeat rewrite acount_cons in cA. destruct H as [R|[R|[_ R]]]; rewrite R in cA; cbn [b2n] in cA; lia.
Qed.

Lemma sender_news_nohold tau o n1 nw kp k s s' e n :
  oeff lc tau n1 o = (nw, kp, k) -> In n (nw ++ extra_news tau s s' e) -> is_holdD (snd n) = false /\ is_holdA (snd n) = false.
Proof.
  intros Ho Hn. destruct (oeff_kinds lc tau o n1 nw kp k Ho) as [Hk _]. apply in_app_or in Hn as [Hn|Hn].
  - rewrite Forall_forall in Hk. destruct (Hk n Hn) as [->|[(id & ->)|(id & r & ->)]]; split; reflexivity.
  - apply extra_news_kind in Hn as [->| ->]; split; reflexivity.
Qed.

Lemma getD_news_nohold tau w n : In n (fst (getD_eff tau w)) -> is_holdA (snd n) = false.
Proof. unfold getD_eff. destruct (wd_items w); cbn [fst]; [intros []|]. intros [<-|[]]. reflexivity. Qed.
Lemma getA_news_nohold tau w n : In n (fst (getA_eff tau w)) -> is_holdD (snd n) = false.
Proof. unfold getA_eff. destruct (wa_items w); cbn [fst]; [intros []|]. intros [<-|[]]. reflexivity. Qed.

Definition consumed (st : lstate) (a : aentry) (x : item * Q) : Prop :=
  (exists e, ev_sender lc st (ae_time a) (ae_ev a) e true) /\ In x (hA1 lc a).

(* EVERY ITEM IN FLIGHT SURVIVES an agenda step that does not drop an ACK, with a deadline that is not
   later -- except the ACK handed to the sender *)
Lemma step_Pres st a rest st' :
  0 < mss (lc_cfg lc) -> LInvB lc st None -> LInvW lc st -> l_agenda st = a :: rest ->
  (l_now st <= ae_time a)%Q -> (forall b, In b (l_agenda st) -> (ae_time a <= ae_time b)%Q) ->
  Tr lc st a rest st' -> (droppedA lc (l_n2 st) = false \/ l_n2 st' = l_n2 st) ->
  Pres (last_ack (l_snd st)) (pipe lc st) (pipe lc st') (consumed st a).
Proof.
  intros Hm HB HW E Hn Hall HT Hnd. pose proof HW as [W0 Wp We WDs WAs Wst0 Wlen0]. rewrite E in We, WDs, WAs.
  set (X := last_ack (l_snd st)).
  assert (ToP : forall x x', In x' (pipe lc st') -> better x x' -> consumed st a x \/ exists x', In x' (pipe lc st') /\ Rx X (fst x) (fst x') /\ (snd x' <= snd x)%Q).
  { intros x x' Hin [B1 B2]. right. exists x'. split; [exact Hin|]. split; [rewrite B1; apply Rx_refl|exact B2]. }
  assert (InA : forall x', In x' (APl (l_agenda st') (l_wa st')) -> In x' (pipe lc st')) by (intros x' H; rewrite pipe_parts; apply in_or_app; left; exact H).
  assert (InD : forall x', In x' (DPl (l_now st') (l_agenda st') (wd_items (l_wd st'))) -> In x' (pipe lc st')) by (intros x' H; rewrite pipe_parts; apply in_or_app; right; exact H).
  assert (HleD : acount is_holdD (a :: rest) = O -> wd_items (l_wd st) <> [] -> (ae_time a <= l_now st)%Q).
  { intros Hc Hne. apply (head_le_now_D st a rest HW E Hall); [rewrite E; exact Hc|exact Hne]. }
  intros x Hx. rewrite pipe_parts, E in Hx.
  destruct HT as [e isack s' o nw kp k nwa Hev Hstep Ho Hnow Hsnd Hsink Hn2 Hslog Hn1 Hwd Hif HA' Hkp Hkeep Hpkt
                 | id r Hev Hfind Hk Hwd Hwa HA' | Hev Hk Hwd Hwa Hag | Hev Hk Hwa Hwd HA' | Hev Hk Hwd Hwa HA'
                 | id Hev Hq Hk Hwd Hwa HA' | ackno pid tm ct Hev Hq Hk Hwd Hwa HA'
                 | id tm ct Hev Hp Hnow Hsnd Hpkt Hn1 Hslog Hsink Hn2 Hwd Hif].
  - (* sender *)
    destruct (ev_sender_roles _ _ _ _ _ _ Hev) as (R1 & R2 & R3 & R4 & R5 & R6).
    assert (NH : forall n, In n ((nw ++ extra_news (ae_time a) (l_snd st) s' e) ++ nwa) -> is_holdD (snd n) = false).
    { intros n Hin. apply in_app_or in Hin as [Hin|Hin]; [eapply sender_news_nohold; eauto|].
      destruct isack; destruct Hif as [-> _]; [eapply getA_news_nohold; eauto|destruct Hin]. }
    apply in_app_or in Hx as [Hx|Hx].
    + destruct isack; destruct Hif as [-> Hwa].
      * unfold APl in Hx. apply in_app_or in Hx as [Hx|Hx].
        -- rewrite heldA_cons in Hx. apply in_app_or in Hx as [Hx|Hx]; [left; split; [eauto|exact Hx]|].
           pose proof (ctlA_rest _ _ _ _ WAs (or_intror (or_introl R6))) as Hc. rewrite (heldA_nil_count _ Hc) in Hx. destruct Hx.
        -- eapply ToP; [apply InA; rewrite Hwa; eapply AP_get; eauto|apply better_refl].
      * eapply ToP; [apply InA; eapply (AP_same a rest _ _ (l_wa st) (l_wa st') []); eauto|apply better_refl].
        -- intros n Hin. rewrite app_nil_r in Hin. eapply sender_news_nohold; eauto.
        -- rewrite Hwa, app_nil_r. reflexivity.
    + destruct (DP_same (l_now st) (ae_time a) a rest _ _ (wd_items (l_wd st)) kp x R1 HA' NH HleD Hx) as (x' & A & B).
      eapply ToP; [apply InD; rewrite Hnow, Hwd; exact A|exact B].
  - (* Timer Initialize *)
    destruct Hk as [k1 k2 k3 k4 k5 k6 k7]. unfold popped in *; lproj.
    apply in_app_or in Hx as [Hx|Hx].
    + eapply ToP; [apply InA; eapply (AP_same a rest _ _ (l_wa st) (l_wa st') []); eauto|apply better_refl].
      * rewrite Hev. reflexivity.
      * intros n [<-|[]]. reflexivity.
      * rewrite Hwa, app_nil_r. reflexivity.
    + assert (Ra : is_holdD (ae_ev a) = false) by (rewrite Hev; reflexivity).
      assert (NH : forall n, In n [(nq (ae_time a + r), ATimerFire id)] -> is_holdD (snd n) = false) by (intros n [<-|[]]; reflexivity).
      destruct (DP_same (l_now st) (ae_time a) a rest _ _ (wd_items (l_wd st)) [] x Ra HA' NH HleD Hx) as (x' & A & B).
      eapply ToP; [apply InD; rewrite k1, Hwd; rewrite app_nil_r in A; exact A|exact B].
  - (* nothing *)
    destruct Hk as [k1 k2 k3 k4 k5 k6 k7]. unfold popped in *; lproj.
    assert (HA' : AddsT rest (l_agenda st') []) by (rewrite Hag; constructor).
    assert (Ra : is_holdD (ae_ev a) = false /\ is_holdA (ae_ev a) = false).
    { destruct (ae_ev a) as [| | | | |[]| | | |]; try contradiction; split; reflexivity. }
    destruct Ra as [Ra1 Ra2].
    apply in_app_or in Hx as [Hx|Hx].
    + eapply ToP; [apply InA; eapply (AP_same a rest _ _ (l_wa st) (l_wa st') []); eauto|apply better_refl].
      * intros n [].
      * rewrite Hwa, app_nil_r. reflexivity.
    + assert (NH : forall n, In n (@nil (Q * aev)) -> is_holdD (snd n) = false) by (intros n []).
      destruct (DP_same (l_now st) (ae_time a) a rest _ _ (wd_items (l_wd st)) [] x Ra1 HA' NH HleD Hx) as (x' & A & B).
      eapply ToP; [apply InD; rewrite k1, Hwd; rewrite app_nil_r in A; exact A|exact B].
  - (* data wire get *)
    destruct Hk as [k1 k2 k3 k4 k5 k6 k7]. unfold popped in *; lproj.
    assert (Ra : is_holdD (ae_ev a) = false /\ is_holdA (ae_ev a) = false) by (destruct Hev as [->|[-> _]]; split; reflexivity).
    destruct Ra as [Ra1 Ra2].
    assert (Hc : acount is_holdD rest = O).
    { apply (ctlD_rest a rest _ WDs). destruct Hev as [->|[-> Hw]]; [left; reflexivity|right; right; split; [reflexivity|exact Hw]]. }
    apply in_app_or in Hx as [Hx|Hx].
    + eapply ToP; [apply InA; eapply (AP_same a rest _ _ (l_wa st) (l_wa st') []); eauto|apply better_refl].
      * intros n Hin. eapply getD_news_nohold; eauto.
      * rewrite Hwa, app_nil_r. reflexivity.
    + unfold DPl in Hx. apply in_app_or in Hx as [Hx|Hx].
      * exfalso. unfold heldD_items in Hx. rewrite hD_nothold in Hx by exact Ra1.
        rewrite (proj2 (hD_nil_count lc _) Hc) in Hx. destruct Hx.
      * assert (Hc2 : acount is_holdD (a :: rest) = O) by (rewrite acount_cons, Ra1; cbn [b2n]; lia).
        rewrite (base_nil lc _ _ Hc2) in Hx.
        assert (Hne : wd_items (l_wd st) <> []) by (intros En; rewrite En in Hx; destruct Hx).
        destruct (DP_get (ae_time a) (l_now st) rest _ [] (l_wd st) x Hc HA' ltac:(intros n []) (HleD Hc2 Hne) Hx) as (x' & A & B).
        eapply ToP; [apply InD; rewrite k1, Hwd; exact A|exact B].
  - (* ACK wire get *)
    destruct Hk as [k1 k2 k3 k4 k5 k6 k7]. unfold popped in *; lproj.
    assert (Ra : is_holdD (ae_ev a) = false /\ is_holdA (ae_ev a) = false) by (destruct Hev as [->|[-> _]]; split; reflexivity).
    destruct Ra as [Ra1 Ra2].
    assert (Hc : acount is_holdA rest = O).
    { apply (ctlA_rest _ a rest _ WAs). destruct Hev as [->|[-> Hw]]; [left; reflexivity|right; right; split; [reflexivity|exact Hw]]. }
    apply in_app_or in Hx as [Hx|Hx].
    + unfold APl in Hx. rewrite heldA_nothold in Hx by exact Ra2. rewrite (heldA_nil_count _ Hc) in Hx. cbn [app] in Hx.
      eapply ToP; [apply InA; rewrite Hwa; eapply (AP_get (ae_time a) rest _ []); eauto|apply better_refl].
    + assert (NH : forall n, In n (fst (getA_eff (ae_time a) (l_wa st))) -> is_holdD (snd n) = false) by (intros n Hin; eapply getA_news_nohold; eauto).
      destruct (DP_same (l_now st) (ae_time a) a rest _ _ (wd_items (l_wd st)) [] x Ra1 HA' NH HleD Hx) as (x' & A & B).
      eapply ToP; [apply InD; rewrite k1, Hwd; rewrite app_nil_r in A; exact A|exact B].
  - (* data wait *)
    destruct Hk as [k1 k2 k3 k4 k5 k6 k7]. unfold popped in *; lproj.
    assert (Hc : acount is_holdD rest = O) by (apply (ctlD_rest a rest _ WDs); right; left; rewrite Hev; reflexivity).
    apply in_app_or in Hx as [Hx|Hx].
    + eapply ToP; [apply InA; eapply (AP_same a rest _ _ (l_wa st) (l_wa st') []); eauto|apply better_refl].
      * rewrite Hev. reflexivity.
      * intros n [<-|[]]. reflexivity.
      * rewrite Hwa, app_nil_r. reflexivity.
    + assert (Ht : (nq (ae_time a + (d - (ae_time a - wd_entered (l_wd st)))) <= ae_time a + d)%Q).
      { rewrite nq_eq. destruct Wst0 as [Hc' _]. lra. }
      destruct (DP_wait (l_now st) (ae_time a) a rest _ id _ (wd_items (l_wd st)) x Hev eq_refl HA' Ht Hc Hx) as (x' & A & B).
      eapply ToP; [apply InD; rewrite k1, Hwd; exact A|exact B].
  - (* ACK wait *)
    destruct Hk as [k1 k2 k3 k4 k5 k6 k7]. unfold popped in *; lproj.
    apply in_app_or in Hx as [Hx|Hx].
    + eapply ToP; [apply InA; rewrite Hwa; eapply AP_wait; eauto|apply better_refl].
    + assert (Ra : is_holdD (ae_ev a) = false) by (rewrite Hev; reflexivity).
      assert (NH : forall n, In n [(nq (ae_time a + (d - (ae_time a - ct))), AWireOutA ackno pid tm ct)] -> is_holdD (snd n) = false) by (intros n [<-|[]]; reflexivity).
      destruct (DP_same (l_now st) (ae_time a) a rest _ _ (wd_items (l_wd st)) [] x Ra HA' NH HleD Hx) as (x' & A & B).
      eapply ToP; [apply InD; rewrite k1, Hwd; rewrite app_nil_r in A; exact A|exact B].
  - (* delivery at the sink *)
    assert (Hdr : droppedA lc (l_n2 st) = false) by (destruct Hnd as [H|H]; [exact H|rewrite Hn2 in H; lia]).
    rewrite Hdr in Hif. destruct Hif as [Hwa HA'].
    assert (Ra : is_holdD (ae_ev a) = true /\ is_holdA (ae_ev a) = false) by (destruct Hev as [->|[-> _]]; split; reflexivity).
    destruct Ra as [Ra1 Ra2].
    assert (Hc : acount is_holdD rest = O) by (apply (ctlD_rest a rest _ WDs); right; left; exact Ra1).
    assert (NHA : forall n, In n ((nq (ae_time a), AWirePutCb true) :: fst (getD_eff (ae_time a) (l_wd st))) -> is_holdA (snd n) = false).
    { intros n [<-|Hin]; [reflexivity|eapply getD_news_nohold; eauto]. }
    apply in_app_or in Hx as [Hx|Hx].
    + eapply ToP; [apply InA; eapply (AP_same a rest _ _ (l_wa st) (l_wa st') _); eauto|apply better_refl].
      rewrite Hwa. reflexivity.
    + unfold DPl in Hx.
      assert (Eh : exists fin, hD lc (a :: rest) = [(id, fin)] /\ (ae_time a <= fin)%Q).
      { rewrite hD_cons, (proj2 (hD_nil_count lc _) Hc), app_nil_r. unfold hD1, hD1te.
        destruct Hev as [->|[-> _]]; eexists; (split; [reflexivity|lra]). }
      destruct Eh as (fin & Eh & Hfin).
      unfold heldD_items, base in Hx. rewrite Eh in Hx. cbn [map fst snd] in Hx.
      apply in_app_or in Hx as [[<-|[]]|Hx].
      * (* the delivered copy becomes its ACK *)
        right. exists (IA (nse (l_sink st')) id, (ae_time a + d)%Q). split; [|split].
        -- apply InA. unfold APl. apply in_or_app. right. unfold qA_items. rewrite Hwa. cbn [wa_items]. rewrite map_app.
           apply in_or_app. right. left. reflexivity.
        -- cbn [fst]. split; [intros i Hi; exact Hi|]. cbn [isX]. intros Hi. apply Z.eqb_eq in Hi. apply Z.ltb_lt.
           assert (Hseg : 0 <= id).
           { destruct (lb_evd _ _ _ HB (ae_ev a) id) as [A _]; [right; exists a; split; [rewrite E; left; reflexivity|reflexivity]|destruct Hev as [->|[-> _]]; reflexivity|exact A]. }
           destruct (sink_nse_after lc st None id Hm HB Hseg) as (_ & _ & M3). cbv zeta in M3. rewrite <- Hsink in M3.
           pose proof (lb_la _ _ _ HB). subst id. fold X in M3. specialize (M3 ltac:(unfold X; lia)). unfold X in *. lia.
        -- cbn [snd]. lra.
      * destruct (DP_get (ae_time a) fin rest _ [(nq (ae_time a), AWirePutCb true)] (l_wd st) x Hc HA' ltac:(intros n [<-|[]]; reflexivity) Hfin Hx) as (x' & A & B).
        eapply ToP; [apply InD; rewrite Hnow, Hwd; exact A|exact B].
Qed.
End Parts.
