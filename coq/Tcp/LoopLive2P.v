(* C16 liveness, continued.  Part 10: the packets in flight as one pipeline with delivery deadlines,
   the status of each armed retransmission timer, and the potential that bounds the number of
   timer expiries.
   An ACK created at ct reaches the sender by ct + d.  The data wire serves one packet at a time and
   each service takes at most d, whatever retransmissions do to the packet's stamps: the packet
   held by the wire leaves by [base], the j-th queued one by base + (j+1) d; its ACK arrives d later.
   These deadlines never increase.  With X = last_ack:
     X-item    a data copy of segment X, or an ACK numbered above X (its arrival ends the epoch);
     witness   of timer i: a data copy of i, or an ACK triggered by a copy of i;
     P(i)      timer i's Timeout is due after the deadline of a witness of i;
     L(i)      timer i's Timeout is due after the deadline of an X-item.
   A P or L timer cannot fire before that item is consumed (or dropped). *)
From Coq Require Import ZArith QArith Qabs Qround Qminmax List Bool Lia Lqa Arith.
From ONL Require Import Tcp.Sink Tcp.SinkProofs Tcp.Sender Tcp.SenderProofs Tcp.Loop Tcp.LoopProofs Tcp.LoopLive
  Tcp.LoopLossfree Tcp.LoopLive2 Tcp.LoopLive2T.
Import ListNotations.
Open Scope Z_scope.

Inductive item := IA (a pid : Z) | ID (id : Z).

Section Pipe.
Variable lc : lcfg.
Local Notation d := (lc_delay lc).
Hypothesis Hd : (0 <= d)%Q.

Definition hA1te (t : Q) (e : aev) : list (item * Q) :=
  match e with AWireGetA k p _ ct | AWireOutA k p _ ct => [(IA k p, (ct + d)%Q)] | _ => [] end.
Definition hA1 (a : aentry) : list (item * Q) := hA1te (ae_time a) (ae_ev a).
Definition heldA_items (ag : list aentry) : list (item * Q) := flat_map hA1 ag.
Definition qA_items (w : wireA) : list (item * Q) := map (fun r => (IA (a_no r) (a_pid r), (a_ct r + d)%Q)) (wa_items w).

(* the packet held by the data wire and the bound on the instant it leaves *)
Definition hD1te (t : Q) (e : aev) : list (Z * Q) :=
  match e with AWireOutD id => [(id, t)] | AWireGetD id => [(id, (t + d)%Q)] | _ => [] end.
Definition hD1 (a : aentry) : list (Z * Q) := hD1te (ae_time a) (ae_ev a).
Definition hD (ag : list aentry) : list (Z * Q) := flat_map hD1 ag.
Definition base (now : Q) (ag : list aentry) : Q := match hD ag with (_, t) :: _ => t | [] => now end.
Definition heldD_items (ag : list aentry) : list (item * Q) := map (fun x => (ID (fst x), (snd x + d)%Q)) (hD ag).
Fixpoint qD_items (b : Q) (l : list Z) : list (item * Q) :=
  match l with [] => [] | id :: t => (ID id, (b + d + d)%Q) :: qD_items (b + d)%Q t end.

Definition pipe (st : lstate) : list (item * Q) :=
  heldA_items (l_agenda st) ++ qA_items (l_wa st) ++ heldD_items (l_agenda st) ++
  qD_items (base (l_now st) (l_agenda st)) (wd_items (l_wd st)).

(* [x'] is at least as good as [x]: same packet (or its ACK), deadline not later *)
Definition better (x x' : item * Q) : Prop := fst x' = fst x /\ (snd x' <= snd x)%Q.

Lemma qD_mono b b' l x : (b' <= b)%Q -> In x (qD_items b l) -> exists x', In x' (qD_items b' l) /\ better x x'.
Proof.
  revert b b'. induction l as [|id t IH]; intros b b' Hb; cbn [qD_items In]; [tauto|].
  intros [<-|H].
  - eexists. split; [left; reflexivity|]. split; cbn [fst snd]; [reflexivity|lra].
  - destruct (IH (b + d)%Q (b' + d)%Q ltac:(lra) H) as (x' & A & B). exists x'. split; [right; exact A|exact B].
Qed.

Lemma qD_lo b l x : In x (qD_items b l) -> (b <= snd x)%Q.
Proof.
  revert b. induction l as [|id t IH]; intros b; cbn [qD_items In]; [tauto|].
  intros [<-|H]; [cbn [snd]; lra|]. specialize (IH _ H). lra.
Qed.

Definition nlen {A : Type} (l : list A) : Q := inject_Z (Z.of_nat (length l)).

Lemma nlen_cons {A : Type} (x : A) l : (nlen (x :: l) == nlen l + 1)%Q.
Proof. unfold nlen. cbn [length]. rewrite Nat2Z.inj_succ. unfold Z.succ. rewrite inject_Z_plus. reflexivity. Qed.

Lemma nlen_nonneg {A : Type} (l : list A) : (0 <= nlen l)%Q.
Proof. unfold nlen. change 0%Q with (inject_Z 0). rewrite <- Zle_Qle. apply Nat2Z.is_nonneg. Qed.

Lemma nlen_app {A : Type} (a b : list A) : (nlen (a ++ b) == nlen a + nlen b)%Q.
Proof. unfold nlen. rewrite app_length, Nat2Z.inj_add, inject_Z_plus. reflexivity. Qed.

Lemma qD_hi b l x : In x (qD_items b l) -> (snd x <= b + nlen l * d + d)%Q.
Proof.
  revert b. induction l as [|id t IH]; intros b; cbn [qD_items In]; [tauto|].
  pose proof (nlen_nonneg t) as Hn. rewrite nlen_cons.
  intros [<-|H]; [cbn [snd]; nra|]. specialize (IH _ H). nra.
Qed.

Lemma qD_app b l k : qD_items b (l ++ k) = qD_items b l ++ qD_items (fold_left (fun q _ => (q + d)%Q) l b) k.
Proof. revert b. induction l as [|id t IH]; intros b; cbn [app qD_items fold_left]; [reflexivity|]. rewrite IH. reflexivity. Qed.

Lemma fold_add b (l : list Z) : (fold_left (fun q _ => (q + d)%Q) l b == b + nlen l * d)%Q.
Proof.
  revert b. induction l as [|id t IH]; intros b; cbn [fold_left]; [unfold nlen; cbn [length Z.of_nat]; change (inject_Z 0) with 0%Q; lra|].
  rewrite IH, nlen_cons. lra.
Qed.

Lemma hD_cons a l : hD (a :: l) = hD1 a ++ hD l.
Proof. reflexivity. Qed.

Lemma hD_nil_count ag : hD ag = [] <-> acount is_holdD ag = O.
Proof.
  induction ag as [|a l IH]; [split; reflexivity|]. rewrite hD_cons, acount_cons. unfold hD1, hD1te, is_holdD.
  destruct (ae_ev a); cbn [dataid_of app b2n]; rewrite ?Nat.add_0_l; try exact IH; split; try discriminate; lia.
Qed.

Lemma In_hD ag id t : In (id, t) (hD ag) <->
  exists b, In b ag /\ ((ae_ev b = AWireOutD id /\ t = ae_time b) \/ (ae_ev b = AWireGetD id /\ t = (ae_time b + d)%Q)).
Proof.
  unfold hD. rewrite in_flat_map. split.
  - intros (b & Hb & Hx). exists b. split; [exact Hb|]. unfold hD1, hD1te in Hx.
    destruct (ae_ev b); cbn [In] in Hx; try contradiction; destruct Hx as [E|[]]; injection E as <- <-; auto.
  - intros (b & Hb & [[E ->]|[E ->]]); exists b; (split; [exact Hb|]); unfold hD1, hD1te; rewrite E; left; reflexivity.
Qed.

Lemma In_heldA ag it td : In (it, td) (heldA_items ag) <->
  exists b k p tm ct, In b ag /\ (ae_ev b = AWireGetA k p tm ct \/ ae_ev b = AWireOutA k p tm ct) /\ it = IA k p /\ td = (ct + d)%Q.
Proof.
  unfold heldA_items. rewrite in_flat_map. split.
  - intros (b & Hb & Hx). unfold hA1, hA1te in Hx.
    destruct (ae_ev b) eqn:E; cbn [In] in Hx; try contradiction; destruct Hx as [Ex|[]]; injection Ex as <- <-;
      exists b, ackno, pid, tm, ct; auto.
  - intros (b & k & p & tm & ct & Hb & [E|E] & -> & ->); exists b; (split; [exact Hb|]); unfold hA1, hA1te; rewrite E; left; reflexivity.
Qed.

(* every deadline is at or after the instant of the next agenda entry: the clock cannot pass a deadline *)
Lemma pipe_lo st a rest x :
  LInvW lc st -> l_agenda st = a :: rest -> (forall b, In b (l_agenda st) -> (ae_time a <= ae_time b)%Q) ->
  In x (pipe st) -> (ae_time a <= snd x)%Q.
Proof.
  intros [W0 Wp We0 WDs WAs] E Hall Hx. pose proof We0 as We. rewrite Forall_forall in We. destruct x as [it td]. cbn [snd].
  unfold pipe in Hx. apply in_app_or in Hx as [Hx|Hx]; [|apply in_app_or in Hx as [Hx|Hx]; [|apply in_app_or in Hx as [Hx|Hx]]].
  - apply In_heldA in Hx as (b & k & p & tm & ct & Hb & Hev & _ & ->).
    pose proof (Hall b Hb) as T1. pose proof (We b Hb) as T2. destruct Hev as [Ev|Ev]; rewrite Ev in T2; cbn [entry_w] in T2; lra.
  - unfold qA_items in Hx. apply in_map_iff in Hx as (r & Er & Hr). injection Er as _ <-.
    exact (head_time_acks lc _ _ _ _ r WAs We0 Hall Hr).
  - unfold heldD_items in Hx. apply in_map_iff in Hx as ([id t] & Er & Hr). injection Er as _ <-. cbn [snd].
    apply In_hD in Hr as (b & Hb & [[Ev ->]|[Ev ->]]); pose proof (Hall b Hb); lra.
  - assert (Hne : wd_items (l_wd st) <> []) by (intros En; rewrite En in Hx; destruct Hx).
    apply qD_lo in Hx. cbn [snd] in Hx.
    assert (Hb : (ae_time a <= base (l_now st) (l_agenda st))%Q); [|lra].
    unfold base. destruct (hD (l_agenda st)) as [|[id t] l] eqn:Eh.
    + apply hD_nil_count in Eh. destruct (sum_pos_ex _ _ _ (wd_wait _ _ WDs Eh Hne)) as (b & B1 & B2).
      pose proof (Hall b B1) as T1. pose proof (We b B1) as T2.
      destruct (ae_ev b) as [| | | |[]|[]| | | |]; cbn [is_putD is_initD entry_w] in *; destruct B2; try discriminate; lra.
    + assert (Hin : In (id, t) (hD (l_agenda st))) by (rewrite Eh; left; reflexivity).
      apply In_hD in Hin as (b & Hb & [[Ev ->]|[Ev ->]]); pose proof (Hall b Hb); lra.
Qed.

Lemma hD_fin_hi now ag id t :
  Forall (fun b => entry_w lc now (ae_time b) (ae_ev b)) ag -> In (id, t) (hD ag) -> (t <= now + d)%Q.
Proof.
  intros We H. rewrite Forall_forall in We. apply In_hD in H as (b & Hb & [[Ev ->]|[Ev ->]]);
    pose proof (We b Hb) as T; rewrite Ev in T; cbn [entry_w] in T; lra.
Qed.

Lemma base_hi now ag :
  Forall (fun b => entry_w lc now (ae_time b) (ae_ev b)) ag -> (base now ag <= now + d)%Q.
Proof.
  intros We. unfold base. destruct (hD ag) as [|[id t] l] eqn:Eh; [lra|].
  apply (hD_fin_hi now ag id t We). rewrite Eh. left. reflexivity.
Qed.

(* and no deadline is further away than (queue length + 2) propagation delays *)
Lemma pipe_hi st x :
  LInvW lc st -> In x (pipe st) -> (snd x <= l_now st + (nlen (wd_items (l_wd st)) + 2) * d)%Q.
Proof.
  intros [W0 Wp We0 WDs WAs] Hx. pose proof We0 as We. rewrite Forall_forall in We. destruct x as [it td]. cbn [snd].
  pose proof (nlen_nonneg (wd_items (l_wd st))) as Hn.
  unfold pipe in Hx. apply in_app_or in Hx as [Hx|Hx]; [|apply in_app_or in Hx as [Hx|Hx]; [|apply in_app_or in Hx as [Hx|Hx]]].
  - apply In_heldA in Hx as (b & k & p & tm & ct & Hb & Hev & _ & ->).
    pose proof (We b Hb) as T2. destruct Hev as [Ev|Ev]; rewrite Ev in T2; cbn [entry_w] in T2; nra.
  - unfold qA_items in Hx. apply in_map_iff in Hx as (r & Er & Hr). injection Er as _ <-.
    pose proof (wa_acks _ _ _ _ WAs) as Ha. rewrite Forall_forall in Ha. destruct (Ha r Hr). nra.
  - unfold heldD_items in Hx. apply in_map_iff in Hx as ([id t] & Er & Hr). injection Er as _ <-. cbn [snd].
    pose proof (hD_fin_hi _ _ _ _ We0 Hr). nra.
  - apply qD_hi in Hx. cbn [snd] in Hx. pose proof (base_hi _ _ We0). nra.
Qed.

(* ---- projections of the agenda through AddsT ---- *)
Lemma insert_split (e : aentry) l : exists l1 l2, l = l1 ++ l2 /\ ainsert e l = l1 ++ e :: l2.
Proof.
  induction l as [|x t IH]; cbn [ainsert].
  - exists [], []. split; reflexivity.
  - destruct (ae_before e x).
    + exists [], (x :: t). split; reflexivity.
    + destruct IH as (l1 & l2 & -> & E). exists (x :: l1), l2. split; [reflexivity|]. rewrite E. reflexivity.
Qed.

Section Proj.
Context {X : Type} (f : Q -> aev -> list X).
Definition fm (ag : list aentry) : list X := flat_map (fun a => f (ae_time a) (ae_ev a)) ag.

Lemma fm_AddsT_nil rest ag' news :
  AddsT rest ag' news -> (forall n, In n news -> f (fst n) (snd n) = []) -> fm ag' = fm rest.
Proof.
  induction 1 as [|ag ag' news t p k e H IH]; intros Hn; [reflexivity|].
  destruct (insert_split (mkae t p k e) ag') as (l1 & l2 & E1 & E2). rewrite E2.
  rewrite <- IH by (intros n Hin; apply Hn; apply in_or_app; left; exact Hin). rewrite E1.
  unfold fm. rewrite !flat_map_app. cbn [flat_map ae_time ae_ev].
  pose proof (Hn (t, e) ltac:(apply in_or_app; right; left; reflexivity)) as Hx. cbn [fst snd] in Hx. rewrite Hx. reflexivity.
Qed.

Lemma fm_AddsT_In rest ag' news x :
  AddsT rest ag' news -> (In x (fm ag') <-> In x (fm rest) \/ exists n, In n news /\ In x (f (fst n) (snd n))).
Proof.
  induction 1 as [|ag ag' news t p k e H IH].
  - split; [auto|]. intros [H|(n & [] & _)]. exact H.
  - destruct (insert_split (mkae t p k e) ag') as (l1 & l2 & E1 & E2). rewrite E2.
    assert (E3 : In x (fm (l1 ++ mkae t p k e :: l2)) <-> In x (fm ag') \/ In x (f t e)).
    { rewrite E1. unfold fm. rewrite !flat_map_app, !in_app_iff. cbn [flat_map ae_time ae_ev]. rewrite in_app_iff. tauto. }
    rewrite E3, IH. split.
    + intros [[A|(n & A & B)]|A]; [left; exact A|right; exists n; split; [apply in_or_app; left; exact A|exact B]|].
      right. exists (t, e). split; [apply in_or_app; right; left; reflexivity|exact A].
    + intros [A|(n & A & B)]; [left; left; exact A|]. apply in_app_or in A as [A|[<-|[]]]; [left; right; eauto|right; exact B].
Qed.

End Proj.

Lemma hD_AddsT_nil rest ag' news :
  AddsT rest ag' news -> (forall n, In n news -> is_holdD (snd n) = false) -> hD ag' = hD rest.
Proof.
  intros HA Hn. apply (fm_AddsT_nil hD1te _ _ _ HA). intros n Hin. specialize (Hn n Hin).
  unfold hD1te. destruct (snd n); try reflexivity; discriminate.
Qed.

Lemma heldA_AddsT_nil rest ag' news :
  AddsT rest ag' news -> (forall n, In n news -> is_holdA (snd n) = false) -> heldA_items ag' = heldA_items rest.
Proof.
  intros HA Hn. apply (fm_AddsT_nil hA1te _ _ _ HA). intros n Hin. specialize (Hn n Hin).
  unfold hA1te. destruct (snd n); try reflexivity; discriminate.
Qed.

Lemma hD_len ag : length (hD ag) = acount is_holdD ag.
Proof.
  induction ag as [|a l IH]; [reflexivity|]. rewrite hD_cons, acount_cons, app_length, IH. unfold hD1, hD1te, is_holdD.
  destruct (ae_ev a); reflexivity.
Qed.

Lemma base_of_in now ag id t : (acount is_holdD ag <= 1)%nat -> In (id, t) (hD ag) -> base now ag = t.
Proof.
  intros Hc Hin. rewrite <- hD_len in Hc. unfold base. destruct (hD ag) as [|[i u] [|y l]]; cbn [length] in Hc; [destruct Hin| |lia].
  destruct Hin as [E|[]]. injection E as _ <-. reflexivity.
Qed.

Lemma base_nil now ag : acount is_holdD ag = O -> base now ag = now.
Proof. intros H. apply hD_nil_count in H. unfold base. rewrite H. reflexivity. Qed.

(* ---- the Timeout events of the retransmission timers ---- *)
Definition fire1 (t : Q) (e : aev) : list (Z * Q) := match e with ATimerFire j => [(j, t)] | _ => [] end.
Definition fires (ag : list aentry) : list (Z * Q) := fm fire1 ag.

Lemma In_fires ag j t : In (j, t) (fires ag) <-> exists b, In b ag /\ ae_ev b = ATimerFire j /\ ae_time b = t.
Proof.
  unfold fires, fm. rewrite in_flat_map. split.
  - intros (b & Hb & Hx). exists b. split; [exact Hb|]. unfold fire1 in Hx. destruct (ae_ev b); cbn [In] in Hx; try contradiction.
    destruct Hx as [E|[]]. injection E as <- <-. auto.
  - intros (b & Hb & E & <-). exists b. split; [exact Hb|]. unfold fire1. rewrite E. left. reflexivity.
Qed.
End Pipe.

(* ================================================================================================ *)
(* statuses and the potential *)
Section Status.
Variable lc : lcfg.
Local Notation d := (lc_delay lc).

Definition isX (X : Z) (it : item) : bool := match it with ID id => id =? X | IA k _ => X <? k end.
Definition isW (i : Z) (it : item) : bool := match it with ID id => id =? i | IA _ p => p =? i end.

Definition hasW (pp : list (item * Q)) (i : Z) (D : Q) : bool := existsb (fun x => isW i (fst x) && Qltb (snd x) D) pp.
Definition hasX (pp : list (item * Q)) (X : Z) (D : Q) : bool := existsb (fun x => isX X (fst x) && Qltb (snd x) D) pp.

Definition statP (st : lstate) (i : Z) : bool :=
  existsb (fun f => (fst f =? i) && hasW (pipe lc st) i (snd f)) (fires (l_agenda st)).
Definition statL (st : lstate) (i : Z) : bool :=
  existsb (fun f => (fst f =? i) && hasX (pipe lc st) (last_ack (l_snd st)) (snd f)) (fires (l_agenda st)).
Definition zmode (st : lstate) : bool := existsb (fun x => isX (last_ack (l_snd st)) (fst x)) (pipe lc st).

Definition cntnot (f : Z -> bool) (ks : list Z) : Z := Z.of_nat (length (filter (fun i => negb (f i)) ks)).

Lemma cntnot_nonneg f ks : 0 <= cntnot f ks.
Proof. unfold cntnot. lia. Qed.
Lemma cntnot_le_len f ks : cntnot f ks <= Z.of_nat (length ks).
Proof.
  unfold cntnot. assert ((length (filter (fun i => negb (f i)) ks) <= length ks)%nat); [|lia].
  induction ks as [|k l IH]; cbn [filter length]; [lia|]. destruct (negb (f k)); cbn [length]; lia.
Qed.
Lemma cntnot_app f a b : cntnot f (a ++ b) = cntnot f a + cntnot f b.
Proof. unfold cntnot. rewrite filter_app, app_length. lia. Qed.

Lemma cntnot_mono f g ks : (forall i, In i ks -> f i = true -> g i = true) -> cntnot g ks <= cntnot f ks.
Proof.
  intros H. unfold cntnot. induction ks as [|k l IH]; cbn [filter]; [lia|].
  assert (IH' : (length (filter (fun i => negb (g i)) l) <= length (filter (fun i => negb (f i)) l))%nat).
  { assert (forall i, In i l -> f i = true -> g i = true) by (intros i Hi; apply H; right; exact Hi). specialize (IH H0). lia. }
  destruct (f k) eqn:Ef; cbn [negb].
  - rewrite (H k (or_introl eq_refl) Ef). cbn [negb]. lia.
  - destruct (g k); cbn [negb length]; lia.
Qed.

(* one key may lose its status *)
Lemma cntnot_mono_but f g ks i0 : NoDup ks ->
  (forall i, In i ks -> i <> i0 -> f i = true -> g i = true) -> cntnot g ks <= cntnot f ks + 1.
Proof.
  intros Hnd H. unfold cntnot. induction Hnd as [|k l Hk Hl IH]; cbn [filter]; [lia|].
  destruct (Z.eq_dec k i0) as [->|Hne].
  - assert (M : cntnot g l <= cntnot f l).
    { apply cntnot_mono. intros i Hi. apply H; [right; exact Hi|]. intros ->. contradiction. }
    unfold cntnot in M. destruct (f i0); destruct (g i0); cbn [negb length]; lia.
  - assert (IH' : (length (filter (fun i => negb (g i)) l) <= length (filter (fun i => negb (f i)) l) + 1)%nat).
    { assert (forall i, In i l -> i <> i0 -> f i = true -> g i = true) by (intros i Hi; apply H; right; exact Hi). specialize (IH H0). lia. }
    destruct (f k) eqn:Ef; cbn [negb].
    + rewrite (H k (or_introl eq_refl) Hne Ef). cbn [negb]. lia.
    + destruct (g k); cbn [negb length]; lia.
Qed.

(* one key gains its status, the others keep theirs *)
Lemma cntnot_gain f g ks i0 :
  In i0 ks -> f i0 = false -> g i0 = true -> (forall i, In i ks -> f i = true -> g i = true) -> cntnot g ks + 1 <= cntnot f ks.
Proof.
  intros Hin Hf Hg H. unfold cntnot. induction ks as [|k l IH]; [destruct Hin|]. cbn [filter].
  destruct Hin as [->|Hin].
  - rewrite Hf, Hg. cbn [negb length].
    assert (M : cntnot g l <= cntnot f l) by (apply cntnot_mono; intros i Hi; apply H; right; exact Hi). unfold cntnot in M. lia.
  - assert (IH' : (length (filter (fun i => negb (g i)) l) + 1 <= length (filter (fun i => negb (f i)) l))%nat).
    { assert (forall i, In i l -> f i = true -> g i = true) by (intros i Hi; apply H; right; exact Hi). specialize (IH Hin H0). lia. }
    destruct (f k) eqn:Ef; cbn [negb].
    + rewrite (H k (or_introl eq_refl) Ef). cbn [negb]. lia.
    + destruct (g k); cbn [negb length]; lia.
Qed.
End Status.
