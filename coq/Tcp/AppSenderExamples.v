(* Concrete runs of the sender with an application process (witnesses for Props/C17_Examples.v). *)
From Coq Require Import ZArith QArith List Bool.
From ONL Require Import Tcp.Sender Tcp.AppSender.
Import ListNotations.
Open Scope Z_scope.

Fixpoint aruns (fx : fixes) (fuel : nat) (ac : acfg) (s : sender) (a : app) (evs : list aevent) : option (sender * app * list out) :=
  match evs with
  | [] => Some (s, a, [])
  | e :: t =>
      match astep fx fuel ac s a e with
      | AOk s' a' o => match aruns fx fuel ac s' a' t with Some (s2, a2, o2) => Some (s2, a2, o ++ o2) | None => None end
      | _ => None
      end
  end.

Definition fxA : fixes := mkfx true true true.

(* (1) application-limited: one MSS per second, RTO 3/4 s, window 4 MSS, no ACKs *)
Definition acA : acfg := mkacfg (mkcfg 512 0 Reno) 0 None (Some ([1; 1; 1]%Q, 4096 # 1)) None.
Definition sA0 : sender := init (2048 # 1) (65535 # 1) (3 # 8).
Definition evA : list aevent := [AWake 0; AAppWake 1; AEv (EExpire 0); AAppWake (2 # 1)].
Definition stA (k : nat) : sender * app * list out :=
  match aruns fxA 100 acA sA0 app0 (firstn k evA) with Some r => r | None => (sA0, app0, []) end.
Definition sA (k : nat) : sender := fst (fst (stA k)).
Definition aA (k : nat) : app := snd (fst (stA k)).

(* (2) a flow of 2.5 MSS, bulk (no arrival_dist / size_dist) *)
Definition acP : acfg := mkacfg (mkcfg 512 1280 Reno) 0 None None None.
Definition stP : sender * app * list out :=
  match aruns fxA 100 acP sA0 app0 [AWake 0] with Some r => r | None => (sA0, app0, []) end.
Definition sP : sender := fst (fst stP).
Definition aP : app := snd (fst stP).

(* (3) writes of 1024, 1536 and 2048 bytes, 1/4 s apart *)
Definition acW : acfg := mkacfg (mkcfg 512 0 Reno) 0 None (Some ([0; 1 # 4; 1 # 4]%Q, 4096 # 1)) (Some ([1024; 1536; 2048], 512)).
Definition sW0 : sender := init (8192 # 1) (65535 # 1) (3 # 8).
Definition evW : list aevent := [AWake 0; AAppWake (1 # 4); AAppWake (1 # 2)].
Definition stW (k : nat) : sender * app * list out :=
  match aruns fxA 100 acW sW0 app0 (firstn k evW) with Some r => r | None => (sW0, app0, []) end.
Definition sW (k : nat) : sender := fst (fst (stW k)).
Definition aW (k : nat) : app := snd (fst (stW k)).

(* (4) a write of 1024 bytes, then one of 100: 100 buffered bytes are less than a segment *)
Definition acT : acfg := mkacfg (mkcfg 512 0 Reno) 0 None (Some ([0; 1 # 4]%Q, 4096 # 1)) (Some ([1024; 100], 512)).
Definition stT : sender * app * list out :=
  match aruns fxA 100 acT sW0 app0 [AWake 0; AAppWake (1 # 4)] with Some r => r | None => (sW0, app0, []) end.
Definition sT : sender := fst (fst stT).
Definition aT : app := snd (fst stT).
