(* The loss-free loop (C16 lossfree_no_retransmit, and termination of the loss-free loop).
   No drops, delay d >= 0, initial RTT estimate rtt0 with d < rtt0 (so the first RTO 2*rtt0 exceeds
   the round-trip time 2d) and rtt0 <> 2d (so the estimator never lands exactly on srtt = 2d,
   rttvar = 0, where RTO = RTT and the timer wins the same-instant race against the ACK).
   Invariant: segments [S,N) are in the data wire in order, the ACKs of [A,S) in the ACK wire in
   order, each segment x is delivered exactly at s_x + d and acknowledged exactly at s_x + 2d
   (s_x its one send instant), its timer is due at s_x + r_x with r_x > 2d and is stopped first. *)
From Coq Require Import ZArith QArith Qabs Qround Qminmax List Bool Lia Lqa Arith.
From ONL Require Import Tcp.Sink Tcp.SinkProofs Tcp.Sender Tcp.SenderProofs Tcp.Loop Tcp.LoopProofs Tcp.LoopLive.
Import ListNotations.
Open Scope Z_scope.

(* ---- in-order arrival at the sink ---- *)
Definition sink_upto (S : Z) : sink := {| buf := if S =? 0 then [] else [(0, S)]; nse := S |}.

Lemma sink_in_order S m : 0 <= S -> 0 < m -> sink_step true (sink_upto S) (S, m) = sink_upto (S + m).
Proof.
  intros HS Hm. unfold sink_step, sink_upto, packet_arrived. cbn [buf fst snd].
  assert (E : (S + m =? 0) = false) by (apply Z.eqb_neq; lia). rewrite E.
  destruct (S =? 0) eqn:E0.
  - apply Z.eqb_eq in E0. subst S. cbn [insert_sorted merge merge_from ack_choice]. cbn. reflexivity.
  - apply Z.eqb_neq in E0. cbn [insert_sorted]. unfold range_leb. cbn [fst snd].
    replace (0 <? S) with true by (symmetry; apply Z.ltb_lt; lia). cbn [orb].
    cbn [merge merge_from fst snd]. rewrite Z.leb_refl. cbn [merge_from fst snd ack_choice].
    rewrite Z.max_r by lia. cbn. reflexivity.
Qed.

(* ---- the events in play: the entry being processed (if any) and the agenda ---- *)
Definition evl (st : lstate) (ev : option aev) : list aev :=
  (match ev with Some e => [e] | None => [] end) ++ map ae_ev (l_agenda st).

Definition dids (e : aev) : list Z := match dataid_of e with Some i => [i] | None => [] end.
Definition apids (e : aev) : list Z :=
  match e with AWireGetA _ p _ _ | AWireOutA _ p _ _ => [p] | _ => [] end.

Definition heldD (st : lstate) (ev : option aev) : list Z := flat_map dids (evl st ev).
Definition heldA (st : lstate) (ev : option aev) : list Z := flat_map apids (evl st ev).
Definition Dp (st : lstate) (ev : option aev) : list Z := heldD st ev ++ wd_items (l_wd st).
Definition Ap (st : lstate) (ev : option aev) : list Z := heldA st ev ++ map a_pid (wa_items (l_wa st)).

Definition cnt (p : aev -> bool) (st : lstate) (ev : option aev) : nat := length (filter p (evl st ev)).
Definition is_initD (e : aev) : bool := match e with AWireInit false => true | _ => false end.
Definition is_holdD (e : aev) : bool := match dataid_of e with Some _ => true | None => false end.
Definition is_putD (e : aev) : bool := match e with AWirePutCb false => true | _ => false end.
Definition is_putA (e : aev) : bool := match e with AWirePutCb true => true | _ => false end.

(* the one send instant of segment x: packet.time = packet.current_time = s *)
Definition sent_at (st : lstate) (x : Z) (s : Q) : Prop := pkt_get x (l_pkt st) = Some (s, s).

Section LF.
Variable lc : lcfg.
Local Notation m := (mss (lc_cfg lc)).
Local Notation d := (lc_delay lc).

(* what an agenda entry due at t must satisfy *)
Definition entry_ok (st : lstate) (t : Q) (e : aev) : Prop :=
  match e with
  | AWireGetD x => exists s, sent_at st x s /\ (t <= s + d)%Q /\ wd_entered (l_wd st) = s
  | AWireOutD x => exists s, sent_at st x s /\ (t == s + d)%Q
  | AWireGetA a p tm ct => sent_at st p tm /\ a = p + m /\ (ct == tm + d)%Q /\ (t <= tm + (2 # 1) * d)%Q
  | AWireOutA a p tm ct => sent_at st p tm /\ a = p + m /\ (ct == tm + d)%Q /\ (t == tm + (2 # 1) * d)%Q
  | AWirePutCb _ | AWireInit _ => (t <= l_now st)%Q
  | ATimerInit id => id < next_seq (l_snd st) /\ forall r, In (id, r) (timers (l_snd st)) -> exists s, sent_at st id s /\ (t == s)%Q
  | ATimerFire id => id < next_seq (l_snd st) /\ forall r, In (id, r) (timers (l_snd st)) -> exists s, sent_at st id s /\ (t == s + r)%Q
  | _ => True
  end.

Definition ack_ok (st : lstate) (r : ackrec) : Prop :=
  sent_at st (a_pid r) (a_time r) /\ a_no r = a_pid r + m /\ (a_ct r == a_time r + d)%Q.

Record LF (st : lstate) (ev : option aev) : Prop := {
  lf_la : 0 <= last_ack (l_snd st);
  lf_dup : dupack (l_snd st) = 0;
  lf_rto : ((2 # 1) * d < rto (l_snd st))%Q;
  lf_srtt : ~ (srtt (l_snd st) == (2 # 1) * d)%Q;
  lf_sink : l_sink st = sink_upto (nse (l_sink st));
  (* timers: exactly the unacknowledged sent segments, each armed beyond the round trip *)
  lf_timers : exists nT : nat, keys (timers (l_snd st)) = seg_ids m (last_ack (l_snd st)) nT /\
                               last_ack (l_snd st) + Z.of_nat nT * m = next_seq (l_snd st);
  lf_armed : Forall (fun p => ((2 # 1) * d < snd p)%Q) (timers (l_snd st));
  (* pipelines *)
  lf_Dp : exists nD : nat, Dp st ev = seg_ids m (nse (l_sink st)) nD /\ nse (l_sink st) + Z.of_nat nD * m = next_seq (l_snd st);
  lf_Ap : exists nA : nat, Ap st ev = seg_ids m (last_ack (l_snd st)) nA /\ last_ack (l_snd st) + Z.of_nat nA * m = nse (l_sink st);
  lf_D_due : forall x, In x (Dp st ev) -> exists s, sent_at st x s /\ (l_now st <= s + d)%Q;
  lf_A_due : forall x, In x (Ap st ev) -> exists s, sent_at st x s /\ (l_now st <= s + (2 # 1) * d)%Q;
  lf_order : forall x y sx sy, last_ack (l_snd st) <= x -> x <= y -> sent_at st x sx -> sent_at st y sy -> (sx <= sy)%Q;
  (* wire control *)
  lf_ctlD : (cnt is_holdD st ev + cnt is_initD st ev + b2n (wd_waiting (l_wd st)))%nat = 1%nat;
  lf_ctlA : (cnt is_holdA st ev + cnt is_initA st ev + b2n (wa_waiting (l_wa st)))%nat = 1%nat;
  lf_waitD : cnt is_holdD st ev = O -> wd_items (l_wd st) <> [] -> (0 < cnt is_putD st ev + cnt is_initD st ev)%nat;
  lf_waitA : cnt is_holdA st ev = O -> wa_items (l_wa st) <> [] -> (0 < cnt is_putA st ev + cnt is_initA st ev)%nat;
  (* entries and queued ACKs *)
  lf_entries : Forall (fun a => entry_ok st (ae_time a) (ae_ev a)) (l_agenda st);
  lf_acks : Forall (ack_ok st) (wa_items (l_wa st));
  (* the transmission log: every segment once, in order *)
  lf_log : exists nN : nat, map dl_id (rev (l_d1 st)) = seg_ids m 0 nN /\ Z.of_nat nN * m = next_seq (l_snd st) /\ l_n1 st = nN;
  lf_dom : forall y s, sent_at st y s -> y < next_seq (l_snd st);
  (* every queued entry carries the send instant of its segment (nothing is sent twice) *)
  lf_stamps : Forall2 (fun x s => sent_at st x s) (wd_items (l_wd st)) (wd_stamps (l_wd st))
}.

End LF.

(* ---- events under scheduling ---- *)
Lemma map_ev_insert e l : exists l1 l2, l = l1 ++ l2 /\ ainsert e l = l1 ++ e :: l2.
Proof.
  induction l as [|x t IH]; cbn [ainsert].
  - exists [], []. split; reflexivity.
  - destruct (ae_before e x).
    + exists [], (x :: t). split; reflexivity.
    + destruct IH as (l1 & l2 & -> & E). exists (x :: l1), l2. split; [reflexivity|]. rewrite E. reflexivity.
Qed.

Lemma evl_sched st t p e ev : exists l1 l2, evl st ev = l1 ++ l2 /\ evl (sched st t p e) ev = l1 ++ e :: l2.
Proof.
  unfold evl, sched; lproj. destruct (map_ev_insert (mkae (nq t) p (l_seq st) e) (l_agenda st)) as (l1 & l2 & E1 & E2).
  rewrite E2. rewrite E1. rewrite !map_app. cbn [map ae_ev].
  exists ((match ev with Some e0 => [e0] | None => [] end) ++ map ae_ev l1), (map ae_ev l2).
  rewrite <- !app_assoc. split; reflexivity.
Qed.

Lemma cnt_sched p st t q e ev : cnt p (sched st t q e) ev = (b2n (p e) + cnt p st ev)%nat.
Proof.
  unfold cnt. destruct (evl_sched st t q e ev) as (l1 & l2 & -> & ->).
  rewrite !filter_app, !app_length. cbn [filter]. destruct (p e); cbn [length b2n]; lia.
Qed.

Lemma proj_sched_nil {X : Type} (f : aev -> list X) st t p e ev :
  f e = [] -> flat_map f (evl (sched st t p e) ev) = flat_map f (evl st ev).
Proof.
  intros Hf. destruct (evl_sched st t p e ev) as (l1 & l2 & -> & ->).
  rewrite !flat_map_app. cbn [flat_map]. rewrite Hf. reflexivity.
Qed.

Lemma flat_map_nil_app {X Y : Type} (f : X -> list Y) l1 l2 : flat_map f (l1 ++ l2) = [] -> flat_map f l1 = [] /\ flat_map f l2 = [].
Proof. rewrite flat_map_app. apply app_eq_nil. Qed.

Lemma proj_sched_single {X : Type} (f : aev -> list X) st t p e ev :
  flat_map f (evl st ev) = [] -> flat_map f (evl (sched st t p e) ev) = f e.
Proof.
  destruct (evl_sched st t p e ev) as (l1 & l2 & -> & ->). intros H.
  apply flat_map_nil_app in H as [H1 H2]. rewrite flat_map_app. cbn [flat_map]. rewrite H1, H2, app_nil_r. reflexivity.
Qed.

Lemma In_evl_sched st t p e ev x : In x (evl (sched st t p e) ev) <-> x = e \/ In x (evl st ev).
Proof.
  destruct (evl_sched st t p e ev) as (l1 & l2 & -> & ->). rewrite !in_app_iff. cbn [In]. intuition.
Qed.

(* counting and projecting *)
Lemma cnt_zero_forall p st ev : cnt p st ev = O -> forall x, In x (evl st ev) -> p x = false.
Proof.
  unfold cnt. induction (evl st ev) as [|y l IH]; cbn [filter]; intros H x Hx; [destruct Hx|].
  destruct (p y) eqn:E; [cbn [length] in H; lia|]. destruct Hx as [<-|Hx]; auto.
Qed.

Lemma cnt_pos_exists p st ev : (0 < cnt p st ev)%nat -> exists x, In x (evl st ev) /\ p x = true.
Proof.
  unfold cnt. induction (evl st ev) as [|y l IH]; cbn [filter length]; [lia|].
  destruct (p y) eqn:E; [intros _; exists y; split; [left; reflexivity|exact E]|].
  intros H. destruct (IH H) as (x & Hx & Ex). exists x. split; [right; exact Hx|exact Ex].
Qed.

Lemma heldD_len st ev : length (heldD st ev) = cnt is_holdD st ev.
Proof.
  unfold heldD, cnt. induction (evl st ev) as [|y l IH]; cbn [flat_map filter]; [reflexivity|].
  rewrite app_length, IH. unfold dids, is_holdD. destruct (dataid_of y); cbn [length]; lia.
Qed.

Lemma heldA_len st ev : length (heldA st ev) = cnt is_holdA st ev.
Proof.
  unfold heldA, cnt. induction (evl st ev) as [|y l IH]; cbn [flat_map filter]; [reflexivity|].
  rewrite app_length, IH. unfold apids, is_holdA. destruct y; cbn [ackno_of length]; lia.
Qed.

Lemma heldD_In st ev x : In x (heldD st ev) <-> exists e, In e (evl st ev) /\ dataid_of e = Some x.
Proof.
  unfold heldD. rewrite in_flat_map. split.
  - intros (e & He & Hx). exists e. split; [exact He|]. unfold dids in Hx. destruct (dataid_of e); [destruct Hx as [->|[]]; reflexivity|destruct Hx].
  - intros (e & He & Hx). exists e. split; [exact He|]. unfold dids. rewrite Hx. left. reflexivity.
Qed.

Lemma heldA_In st ev x : In x (heldA st ev) <-> exists e, In e (evl st ev) /\ apids e = [x].
Proof.
  unfold heldA. rewrite in_flat_map. split.
  - intros (e & He & Hx). exists e. split; [exact He|]. destruct e; cbn [apids] in *; try destruct Hx; try (destruct H; fail); subst; try reflexivity; destruct H.
  - intros (e & He & Hx). exists e. split; [exact He|]. rewrite Hx. left. reflexivity.
Qed.

Section LFproofs.
Variable lc : lcfg.
Local Notation m := (mss (lc_cfg lc)).
Local Notation d := (lc_delay lc).
Hypothesis Hok2 : lc_ok2 lc.
Hypothesis Hnd : lc_drop_data lc = [].
Hypothesis Hna : lc_drop_ack lc = [].

Lemma Hm_pos : 0 < m.
Proof. apply Hok2. Qed.
Lemma Hd_nonneg : (0 <= d)%Q.
Proof. apply Hok2. Qed.

Lemma entry_ok_now st st' t e :
  l_pkt st' = l_pkt st -> l_snd st' = l_snd st -> wd_entered (l_wd st') = wd_entered (l_wd st) -> (l_now st <= l_now st')%Q ->
  entry_ok lc st t e -> entry_ok lc st' t e.
Proof.
  intros Hp Hs Hw Hn. unfold entry_ok, sent_at. rewrite Hp, Hs, Hw. destruct e; auto; intros H; lra.
Qed.

Lemma evl_In_agenda st e : In e (evl st None) <-> exists a, In a (l_agenda st) /\ ae_ev a = e.
Proof. unfold evl. cbn [app]. rewrite in_map_iff. split; intros (a & A & B); exists a; auto. Qed.

Lemma seg_ids_head mm id n x l : seg_ids mm id n = x :: l -> x = id /\ l = seg_ids mm (id + mm) (Nat.pred n).
Proof. destruct n as [|n]; cbn [seg_ids]; [discriminate|]. intros H; injection H as <- <-. auto. Qed.

Lemma seg_ids_ge mm id n x : 0 < mm -> In x (seg_ids mm id n) -> id <= x.
Proof. intros Hmm H. apply seg_ids_In in H as (k & _ & ->). nia. Qed.

(* taking the next entry off the agenda *)
Lemma pop_LF st a rest :
  LInvA lc st None -> LF lc st None -> l_agenda st = a :: rest ->
  LF lc (popped st a rest) (Some (ae_ev a)) /\ entry_ok lc (popped st a rest) (ae_time a) (ae_ev a).
Proof.
  intros HA L E. pose proof Hm_pos as Hm. pose proof Hd_nonneg as Hd.
  destruct HA as [_ _ _ [Ts Tf _ _ _ _ _]]. rewrite E in Ts, Tf. cbn [asorted] in Ts. destruct Ts as [Tmin _].
  assert (Hna' : (l_now st <= ae_time a)%Q) by (inversion Tf; assumption).
  assert (Eevl : evl (popped st a rest) (Some (ae_ev a)) = evl st None) by (unfold evl, popped; lproj; rewrite E; reflexivity).
  assert (Hent : forall a', In a' (l_agenda st) -> entry_ok lc st (ae_time a') (ae_ev a')).
  { pose proof (lf_entries _ _ _ L) as F. rewrite Forall_forall in F. exact F. }
  assert (Hmin : forall a', In a' (l_agenda st) -> (ae_time a <= ae_time a')%Q).
  { intros a' Hin. rewrite E in Hin. destruct Hin as [<-|Hin]; [apply Qle_refl|]. rewrite Forall_forall in Tmin. apply Tmin, Hin. }
  (* the popped instant does not pass the due time of anything in the wires *)
  assert (DueD : forall x, In x (Dp st None) -> exists s, sent_at st x s /\ (ae_time a <= s + d)%Q).
  { intros x Hx. destruct (lf_D_due _ _ _ L x Hx) as (s & Hs & Hle). exists s. split; [exact Hs|].
    destruct (lf_Dp _ _ _ L) as (nD & EDp & _). destruct (lf_Ap _ _ _ L) as (nA & _ & ELA).
    destruct (cnt is_holdD st None) as [|c] eqn:Ec.
    - (* nothing held: a pending put callback / initialisation is due now *)
      assert (Hh : heldD st None = []) by (apply length_zero_iff_nil; rewrite heldD_len; exact Ec).
      unfold Dp in Hx. rewrite Hh in Hx. cbn [app] in Hx.
      assert (Hne : wd_items (l_wd st) <> []) by (intros Z; rewrite Z in Hx; destruct Hx).
      pose proof (lf_waitD _ _ _ L Ec Hne) as Hw.
      assert (Hex : exists e, In e (evl st None) /\ (is_putD e = true \/ is_initD e = true)).
      { destruct (cnt is_putD st None) eqn:E1.
        - destruct (cnt_pos_exists is_initD st None ltac:(lia)) as (e & He & Hi). eauto.
        - destruct (cnt_pos_exists is_putD st None ltac:(lia)) as (e & He & Hi). eauto. }
      destruct Hex as (e & He & Hk). apply evl_In_agenda in He as (a' & Hin & <-).
      pose proof (Hent a' Hin) as Ok. pose proof (Hmin a' Hin) as Hm'.
      assert (ae_time a' <= l_now st)%Q.
      { destruct (ae_ev a'); cbn in Hk; destruct Hk as [Hk|Hk]; try discriminate; exact Ok. }
      lra.
    - (* the held packet is the first of the pipeline and everything behind it was sent later *)
      assert (Hlen : length (heldD st None) = S c) by (rewrite heldD_len; exact Ec).
      destruct (heldD st None) as [|x0 l0] eqn:Eh; [discriminate|].
      assert (Hx0 : In x0 (heldD st None)) by (rewrite Eh; left; reflexivity).
      apply heldD_In in Hx0 as (e & He & Hd0). apply evl_In_agenda in He as (a' & Hin & <-).
      pose proof (Hent a' Hin) as Ok. pose proof (Hmin a' Hin) as Hm'.
      unfold Dp in EDp. rewrite Eh in EDp. cbn [app] in EDp. symmetry in EDp. apply seg_ids_head in EDp as [Ex0 _].
      assert (Hxge : x0 <= x).
      { destruct (lf_Dp _ _ _ L) as (nD' & EDp' & _). rewrite EDp' in Hx. apply seg_ids_ge in Hx; [lia|exact Hm]. }
      assert (Hs0 : exists s0, sent_at st x0 s0 /\ (ae_time a' <= s0 + d)%Q).
      { destruct (ae_ev a'); cbn [dataid_of] in Hd0; try discriminate; injection Hd0 as ->; cbn [entry_ok] in Ok;
          [destruct Ok as (s0 & S0 & T0 & _)|destruct Ok as (s0 & S0 & T0)]; exists s0; split; auto; lra. }
      destruct Hs0 as (s0 & S0 & T0).
      assert (s0 <= s)%Q by (apply (lf_order _ _ _ L x0 x s0 s); auto; fold m in ELA; nia).
      lra. }
  assert (DueA : forall x, In x (Ap st None) -> exists s, sent_at st x s /\ (ae_time a <= s + (2 # 1) * d)%Q).
  { intros x Hx. destruct (lf_A_due _ _ _ L x Hx) as (s & Hs & Hle). exists s. split; [exact Hs|].
    destruct (lf_Ap _ _ _ L) as (nA & EAp & ELA).
    destruct (cnt is_holdA st None) as [|c] eqn:Ec.
    - assert (Hh : heldA st None = []) by (apply length_zero_iff_nil; rewrite heldA_len; exact Ec).
      unfold Ap in Hx. rewrite Hh in Hx. cbn [app] in Hx.
      assert (Hne : wa_items (l_wa st) <> []) by (intros Z; rewrite Z in Hx; destruct Hx).
      pose proof (lf_waitA _ _ _ L Ec Hne) as Hw.
      assert (Hex : exists e, In e (evl st None) /\ (is_putA e = true \/ is_initA e = true)).
      { destruct (cnt is_putA st None) eqn:E1.
        - destruct (cnt_pos_exists is_initA st None ltac:(lia)) as (e & He & Hi). eauto.
        - destruct (cnt_pos_exists is_putA st None ltac:(lia)) as (e & He & Hi). eauto. }
      destruct Hex as (e & He & Hk). apply evl_In_agenda in He as (a' & Hin & <-).
      pose proof (Hent a' Hin) as Ok. pose proof (Hmin a' Hin) as Hm'.
      assert (ae_time a' <= l_now st)%Q.
      { destruct (ae_ev a') as [| | | |w|w| | | |]; cbn in Hk; destruct Hk as [Hk|Hk]; try discriminate; exact Ok. }
      lra.
    - assert (Hlen : length (heldA st None) = S c) by (rewrite heldA_len; exact Ec).
      destruct (heldA st None) as [|x0 l0] eqn:Eh; [discriminate|].
      assert (Hx0 : In x0 (heldA st None)) by (rewrite Eh; left; reflexivity).
      apply heldA_In in Hx0 as (e & He & Hd0). apply evl_In_agenda in He as (a' & Hin & <-).
      pose proof (Hent a' Hin) as Ok. pose proof (Hmin a' Hin) as Hm'.
      unfold Ap in EAp. rewrite Eh in EAp. cbn [app] in EAp. symmetry in EAp. apply seg_ids_head in EAp as [Ex0 _].
      assert (Hxge : x0 <= x).
      { destruct (lf_Ap _ _ _ L) as (nA' & EAp' & _). rewrite EAp' in Hx. apply seg_ids_ge in Hx; [lia|exact Hm]. }
      assert (Hs0 : exists s0, sent_at st x0 s0 /\ (ae_time a' <= s0 + (2 # 1) * d)%Q).
      { destruct (ae_ev a'); cbn [apids] in Hd0; try discriminate; injection Hd0 as ->; cbn [entry_ok] in Ok.
        - destruct Ok as (S0 & _ & _ & T0). eexists; split; [exact S0|lra].
        - destruct Ok as (S0 & _ & _ & T0). eexists; split; [exact S0|lra]. }
      destruct Hs0 as (s0 & S0 & T0).
      assert (s0 <= s)%Q by (apply (lf_order _ _ _ L x0 x s0 s); auto; lia).
      lra. }
  split.
  - destruct L as [L0 L1 L2 L3 L4 L5 L6 L7 L8 L9 L10 L11 L12 L13 L14 L15 L16 L17 L18 L19 L20].
    constructor; unfold Dp, Ap, heldD, heldA, cnt in *; rewrite ?Eevl; unfold popped; lproj; auto.
    + apply Forall_forall. intros a' Hin. eapply (entry_ok_now st); try reflexivity; [exact Hna'|].
      apply Hent. rewrite E. right. exact Hin.
  - eapply (entry_ok_now st); try reflexivity; [exact Hna'|]. apply Hent. rewrite E. left. reflexivity.
Qed.

(* ---- exact bookkeeping of what is added to the agenda ---- *)
Inductive AddsT : list aentry -> list aentry -> list (Q * aev) -> Prop :=
| addsT_nil ag : AddsT ag ag []
| addsT_cons ag ag' news t p k e : AddsT ag ag' news -> AddsT ag (ainsert (mkae t p k e) ag') (news ++ [(t, e)]).

Lemma AddsT_trans b c n2 : AddsT b c n2 -> forall a n1, AddsT a b n1 -> AddsT a c (n1 ++ n2).
Proof.
  induction 1 as [|ag ag' news t p k e H IH]; intros a n1 H1; [rewrite app_nil_r; exact H1|].
  rewrite app_assoc. constructor. apply IH. exact H1.
Qed.

Lemma AddsT_sched st t p e : AddsT (l_agenda st) (l_agenda (sched st t p e)) [(nq t, e)].
Proof. unfold sched; lproj. apply (addsT_cons _ _ [] (nq t) p (l_seq st) e). constructor. Qed.

Lemma AddsT_Forall (P : Q -> aev -> Prop) ag ag' news :
  AddsT ag ag' news -> Forall (fun a => P (ae_time a) (ae_ev a)) ag -> Forall (fun x => P (fst x) (snd x)) news ->
  Forall (fun a => P (ae_time a) (ae_ev a)) ag'.
Proof.
  induction 1 as [|ag ag' news t p k e H IH]; intros Ha Hn; [exact Ha|].
  apply Forall_app in Hn as [Hn1 Hn2]. inversion Hn2 as [|? ? Hte _]; subst. cbn [fst snd] in Hte.
  apply Forall_forall. intros a Hin. apply ainsert_In in Hin as [->|Hin]; [exact Hte|].
  specialize (IH Ha Hn1). rewrite Forall_forall in IH. apply IH, Hin.
Qed.

Lemma AddsT_cnt (p : aev -> bool) ag ag' news : AddsT ag ag' news -> forall pre : list aev,
  length (filter p (pre ++ map ae_ev ag')) = (length (filter p (map snd news)) + length (filter p (pre ++ map ae_ev ag)))%nat.
Proof.
  induction 1 as [|ag ag' news t q k e H IH]; intros pre; [reflexivity|].
  destruct (map_ev_insert (mkae t q k e) ag') as (l1 & l2 & E1 & E2). rewrite E2. specialize (IH pre). rewrite E1 in IH.
  rewrite !map_app, !filter_app, !app_length in *. cbn [map ae_ev snd filter] in *. destruct (p e); cbn [length]; lia.
Qed.

Lemma AddsT_proj_nil {X : Type} (f : aev -> list X) ag ag' news : AddsT ag ag' news ->
  Forall (fun x => f (snd x) = []) news -> forall pre : list aev,
  flat_map f (pre ++ map ae_ev ag') = flat_map f (pre ++ map ae_ev ag).
Proof.
  induction 1 as [|ag ag' news t q k e H IH]; intros Hn pre; [reflexivity|].
  apply Forall_app in Hn as [Hn1 Hn2]. inversion Hn2 as [|? ? He _]; subst. cbn [snd] in He.
  destruct (map_ev_insert (mkae t q k e) ag') as (l1 & l2 & E1 & E2). rewrite E2. specialize (IH Hn1 pre). rewrite E1 in IH.
  rewrite <- IH. rewrite !map_app, !flat_map_app. cbn [map ae_ev flat_map]. rewrite He. reflexivity.
Qed.

Lemma AddsT_In ag ag' news : AddsT ag ag' news -> forall (pre : list aev) x,
  In x (pre ++ map ae_ev ag') <-> In x (map snd news) \/ In x (pre ++ map ae_ev ag).
Proof.
  induction 1 as [|ag ag' news t q k e H IH]; intros pre x; [cbn [map In]; tauto|].
  destruct (map_ev_insert (mkae t q k e) ag') as (l1 & l2 & E1 & E2). rewrite E2. specialize (IH pre x). rewrite E1 in IH.
  rewrite !map_app, !in_app_iff in *. cbn [map ae_ev snd In] in *. tauto.
Qed.

(* ---- the outputs of a sender event when nothing is dropped ---- *)
Definition tx_ids (o : list out) : list Z := flat_map (fun x => match x with Tx i _ => [i] | _ => [] end) o.
Definition out_news (now : Q) (o : list out) : list (Q * aev) :=
  flat_map (fun x => match x with
                     | Tx _ _ => [(nq now, AWirePutCb false)]
                     | TStart id _ => [(nq now, ATimerInit id)]
                     | TStop _ => []
                     | TRestart id r => [(nq (now + r), ATimerFire id)]
                     end) o.
Fixpoint pkt_sets (now : Q) (ids : list Z) (pk : list (Z * (Q * Q))) : list (Z * (Q * Q)) :=
  match ids with [] => pk | i :: t => pkt_sets now t (pkt_set i (now, now) pk) end.

Record same_rest (st st' : lstate) : Prop := {
  sr_now : l_now st' = l_now st; sr_snd : l_snd st' = l_snd st; sr_sink : l_sink st' = l_sink st;
  sr_wa : l_wa st' = l_wa st; sr_n2 : l_n2 st' = l_n2 st
}.

(* the data wire's store after the segments [ids] entered it at [t] *)
Definition wd_app (w : wireD) (ids : list Z) (t : Q) : wireD :=
  mkwd (wd_items w ++ ids) (wd_stamps w ++ map (fun _ => t) ids) (wd_entered w) (wd_waiting w).

Lemma do_outs_exact : forall o st,
  let st' := do_outs lc st o in
  same_rest st st' /\
  AddsT (l_agenda st) (l_agenda st') (out_news (l_now st) o) /\
  l_wd st' = wd_app (l_wd st) (tx_ids o) (l_now st) /\
  l_pkt st' = pkt_sets (l_now st) (tx_ids o) (l_pkt st) /\
  l_n1 st' = (l_n1 st + length (tx_ids o))%nat /\
  map dl_id (rev (l_d1 st')) = map dl_id (rev (l_d1 st)) ++ tx_ids o.
Proof.
  induction o as [|x o IH]; intros st; cbn [do_outs tx_ids out_news flat_map pkt_sets].
  - split; [constructor; reflexivity|]. split; [constructor|]. unfold wd_app. cbn [map]. rewrite !app_nil_r, Nat.add_0_r.
    split; [destruct (l_wd st); reflexivity|]. auto.
  - destruct x as [id z|id r|id|id r].
    + (* Tx *)
      set (st1 := tx_data lc st id).
      assert (T : same_rest st st1 /\ AddsT (l_agenda st) (l_agenda st1) [(nq (l_now st), AWirePutCb false)] /\
                  l_wd st1 = wd_app (l_wd st) [id] (l_now st) /\
                  l_pkt st1 = pkt_set id (l_now st, l_now st) (l_pkt st) /\ l_n1 st1 = S (l_n1 st) /\
                  l_d1 st1 = mkdlog (l_n1 st) id 0 (l_now st) false :: l_d1 st).
      { subst st1. unfold tx_data. rewrite Hnd. cbn [existsb]. lproj.
        split; [constructor; reflexivity|]. split; [|auto].
        apply (addsT_cons _ _ [] (nq (l_now st)) 1%nat (l_seq st) (AWirePutCb false)). constructor. }
      destruct T as (S1 & A1 & W1 & P1 & N1 & D1).
      destruct (IH st1) as (S2 & A2 & W2 & P2 & N2 & D2). fold (do_outs lc st1 o) in *.
      destruct S1 as [a1 a2 a3 a4 a5], S2 as [b1 b2 b3 b4 b5]. rewrite a1 in *.
      split; [constructor; congruence|]. split; [eapply (AddsT_trans _ _ _ A2 _ _ A1)|].
      split; [rewrite W2, W1; unfold wd_app; cbn [wd_items wd_stamps wd_entered wd_waiting map]; rewrite <- !app_assoc; reflexivity|].
      split; [rewrite P2, P1; reflexivity|]. unfold tx_ids in *. split; [rewrite N2, N1; cbn [length app]; lia|].
      rewrite D2, D1. cbn [rev]. rewrite map_app. cbn [map dl_id app]. rewrite <- app_assoc. reflexivity.
    + set (st1 := sched st (l_now st) 0 (ATimerInit id)).
      destruct (IH st1) as (S2 & A2 & W2 & P2 & N2 & D2). fold (do_outs lc st1 o) in *.
      change (l_now st1) with (l_now st) in *. destruct S2 as [b1 b2 b3 b4 b5].
      split; [constructor; assumption|]. split; [eapply (AddsT_trans _ _ _ A2 _ _ (AddsT_sched st _ _ _))|]. auto.
    + apply IH.
    + set (st1 := sched st (l_now st + r)%Q 1 (ATimerFire id)).
      destruct (IH st1) as (S2 & A2 & W2 & P2 & N2 & D2). fold (do_outs lc st1 o) in *.
      change (l_now st1) with (l_now st) in *. destruct S2 as [b1 b2 b3 b4 b5].
      split; [constructor; assumption|]. split; [eapply (AddsT_trans _ _ _ A2 _ _ (AddsT_sched st _ _ _))|]. auto.
Qed.

(* ---- the processed entry vs. the agenda ---- *)
Lemma cnt_some p st e : cnt p st (Some e) = (b2n (p e) + cnt p st None)%nat.
Proof. unfold cnt, evl. cbn [app filter]. destruct (p e); cbn [length b2n]; lia. Qed.
Lemma heldD_some st e : heldD st (Some e) = dids e ++ heldD st None.
Proof. reflexivity. Qed.
Lemma heldA_some st e : heldA st (Some e) = apids e ++ heldA st None.
Proof. reflexivity. Qed.
Lemma cnt_sched_none p st t q e : cnt p (sched st t q e) None = (b2n (p e) + cnt p st None)%nat.
Proof. apply cnt_sched. Qed.

Lemma heldD_nil_cnt st ev : cnt is_holdD st ev = O -> heldD st ev = [].
Proof. intros H. apply length_zero_iff_nil. rewrite heldD_len. exact H. Qed.
Lemma heldA_nil_cnt st ev : cnt is_holdA st ev = O -> heldA st ev = [].
Proof. intros H. apply length_zero_iff_nil. rewrite heldA_len. exact H. Qed.

(* states that differ only in fields LF does not read *)
Definition lf_eq (st st' : lstate) : Prop :=
  l_now st' = l_now st /\ l_snd st' = l_snd st /\ l_sink st' = l_sink st /\ l_pkt st' = l_pkt st /\
  l_wd st' = l_wd st /\ l_wa st' = l_wa st /\ l_agenda st' = l_agenda st /\ l_d1 st' = l_d1 st /\ l_n1 st' = l_n1 st.

Lemma LF_eq st st' ev : lf_eq st st' -> LF lc st ev -> LF lc st' ev.
Proof.
  intros (E1 & E2 & E3 & E4 & E5 & E6 & E7 & E8 & E9) L.
  assert (Ev : forall ev0, evl st' ev0 = evl st ev0) by (intros; unfold evl; rewrite E7; reflexivity).
  destruct L as [L0 L1 L2 L3 L4 L5 L6 L7 L8 L9 L10 L11 L12 L13 L14 L15 L16 L17 L18 L19 L20].
  constructor; unfold Dp, Ap, heldD, heldA, cnt, entry_ok, ack_ok, sent_at in *;
    rewrite ?Ev, ?E1, ?E2, ?E3, ?E4, ?E5, ?E6, ?E7, ?E8, ?E9; auto.
Qed.

Lemma entry_ok_ext st st' t e :
  l_pkt st' = l_pkt st -> l_snd st' = l_snd st -> wd_entered (l_wd st') = wd_entered (l_wd st) -> l_now st' = l_now st ->
  entry_ok lc st t e -> entry_ok lc st' t e.
Proof. intros A B W C. apply entry_ok_now; auto. rewrite C. apply Qle_refl. Qed.

(* an entry that is not a granted data packet does not read the wire's local variable *)
Lemma entry_ok_noget st st' t e :
  l_pkt st' = l_pkt st -> l_snd st' = l_snd st -> l_now st' = l_now st -> is_holdD e = false \/ (exists x, e = AWireOutD x) ->
  entry_ok lc st t e -> entry_ok lc st' t e.
Proof.
  intros A B C Hh. unfold entry_ok, sent_at. rewrite A, B, C. destruct e; auto. destruct Hh as [Hh|(x & Hx)]; discriminate.
Qed.

Lemma Forall_entry_ext st st' l :
  l_pkt st' = l_pkt st -> l_snd st' = l_snd st -> wd_entered (l_wd st') = wd_entered (l_wd st) -> l_now st' = l_now st ->
  Forall (fun a => entry_ok lc st (ae_time a) (ae_ev a)) l -> Forall (fun a => entry_ok lc st' (ae_time a) (ae_ev a)) l.
Proof. intros A B W C. apply Forall_impl. intros a. apply entry_ok_ext; auto. Qed.

Lemma Forall_insert (P : aentry -> Prop) e l : P e -> Forall P l -> Forall P (ainsert e l).
Proof.
  intros He Hl. apply Forall_forall. intros a Ha. apply ainsert_In in Ha as [->|Ha]; [exact He|].
  rewrite Forall_forall in Hl. auto.
Qed.

Lemma sent_at_fun st x s s' : sent_at st x s -> sent_at st x s' -> s = s'.
Proof. unfold sent_at. intros A B. rewrite A in B. injection B as <-. reflexivity. Qed.

(* the data wire's process asks its store for the next packet *)
Lemma wd_get_LF st ev :
  (ev = AWireInit false \/ (ev = AWirePutCb false /\ wd_waiting (l_wd st) = true)) ->
  LF lc st (Some ev) -> LF lc (wd_get st) None.
Proof.
  intros Hev L.
  assert (Hd : dids ev = [] /\ apids ev = [] /\ is_holdD ev = false /\ is_holdA ev = false /\ is_initA ev = false /\ is_putA ev = false)
    by (destruct Hev as [->|[-> _]]; repeat split).
  destruct Hd as (Hd1 & Hd2 & Hd3 & Hd4 & Hd5 & Hd6).
  destruct L as [L0 L1 L2 L3 L4 L5 L6 L7 L8 L9 L10 L11 L12 L13 L14 L15 L16 L17 L18 L19 L20].
  rewrite !cnt_some in *. rewrite Hd3 in L12. rewrite Hd4, Hd5 in L13. rewrite Hd4 in L15. rewrite Hd5, Hd6 in L15. rewrite Hd3 in L14.
  cbn [b2n Nat.add] in *.
  assert (Hc : cnt is_holdD st None = O /\ cnt is_initD st None = O).
  { destruct Hev as [->|[-> Hw]]; cbn [is_initD b2n] in L12; [|rewrite Hw in L12; cbn [b2n] in L12]; lia. }
  destruct Hc as [Hc1 Hc2].
  assert (HhD : heldD st None = []) by (apply heldD_nil_cnt; exact Hc1).
  unfold Dp, Ap in *. rewrite heldD_some, Hd1 in *. rewrite heldA_some, Hd2 in *. rewrite HhD in *. cbn [app] in *.
  unfold wd_get. destruct (wd_items (l_wd st)) as [|x rest] eqn:E.
  - (* nothing queued: wait *)
    constructor; unfold Dp, Ap, heldD, heldA, cnt, evl, entry_ok, ack_ok, sent_at in *; lproj; rewrite ?E, ?HhD, ?Hc1, ?Hc2; cbn [app] in *; auto.
    intros _ Hne. contradiction.
  - (* hand the first queued packet to the process: its StoreGet event *)
    assert (Hx : exists s, sent_at st x s /\ (l_now st <= s + d)%Q) by (apply L9; left; reflexivity).
    inversion L20 as [|? s0 ? srest Hs0 Hrest Ei Es]; subst.
    set (st1 := set_wd st (mkwd rest srest s0 false)).
    assert (Ev1 : forall ev0, evl st1 ev0 = evl st ev0) by reflexivity.
    cbn [hd tl].
    constructor; lproj; auto.
    + unfold Dp. unfold heldD. rewrite (proj_sched_single dids st1); [|rewrite Ev1; exact HhD]. cbn [dids dataid_of]. lproj. exact L7.
    + unfold Ap, heldA. rewrite (proj_sched_nil apids st1) by reflexivity. rewrite Ev1. lproj. exact L8.
    + intros y Hy. unfold Dp, heldD in Hy. rewrite (proj_sched_single dids st1) in Hy; [|rewrite Ev1; exact HhD].
      cbn [dids dataid_of] in Hy. lproj. apply L9. exact Hy.
    + intros y Hy. unfold Ap, heldA in Hy. rewrite (proj_sched_nil apids st1) in Hy by reflexivity. rewrite Ev1 in Hy. lproj. apply L10. exact Hy.
    + rewrite !cnt_sched_none. unfold cnt. rewrite !Ev1. fold (cnt is_holdD st None) (cnt is_initD st None).
      rewrite Hc1, Hc2. reflexivity.
    + rewrite !cnt_sched_none. unfold cnt. rewrite !Ev1. fold (cnt is_holdA st None) (cnt is_initA st None). exact L13.
    + rewrite cnt_sched_none. cbn [is_holdD dataid_of b2n]. discriminate.
    + rewrite !cnt_sched_none. unfold cnt. rewrite !Ev1. fold (cnt is_holdA st None) (cnt is_initA st None) (cnt is_putA st None).
      cbn [is_holdA ackno_of is_putA is_initA b2n Nat.add]. exact L15.
    + apply Forall_insert; [cbn [ae_time ae_ev entry_ok]|].
      * destruct Hx as (s & Hs & Hle). exists s. split; [exact Hs|]. split; [rewrite nq_eq; exact Hle|]. lproj.
        eapply sent_at_fun; eauto.
      * apply Forall_forall. intros a0 Ha0. rewrite Forall_forall in L16.
        apply (entry_ok_noget st); try reflexivity; [|apply L16, Ha0]. left.
        apply (cnt_zero_forall is_holdD st None Hc1). unfold evl. cbn [app]. apply in_map. exact Ha0.
Qed.


Lemma wa_get_LF st ev :
  (ev = AWireInit true \/ (ev = AWirePutCb true /\ wa_waiting (l_wa st) = true)) ->
  LF lc st (Some ev) -> LF lc (wa_get st) None.
Proof.
  intros Hev L.
  assert (Hd : dids ev = [] /\ apids ev = [] /\ is_holdD ev = false /\ is_holdA ev = false /\ is_initD ev = false /\ is_putD ev = false)
    by (destruct Hev as [->|[-> _]]; repeat split).
  destruct Hd as (Hd1 & Hd2 & Hd3 & Hd4 & Hd5 & Hd6).
  destruct L as [L0 L1 L2 L3 L4 L5 L6 L7 L8 L9 L10 L11 L12 L13 L14 L15 L16 L17 L18 L19 L20].
  rewrite !cnt_some in *. rewrite Hd3, Hd5 in L12. rewrite Hd4 in L13. rewrite Hd3, Hd5, Hd6 in L14. rewrite Hd4 in L15.
  cbn [b2n Nat.add] in *.
  assert (Hc : cnt is_holdA st None = O /\ cnt is_initA st None = O).
  { destruct Hev as [->|[-> Hw]]; cbn [is_initA b2n] in L13; [|rewrite Hw in L13; cbn [b2n] in L13]; lia. }
  destruct Hc as [Hc1 Hc2].
  assert (HhA : heldA st None = []) by (apply heldA_nil_cnt; exact Hc1).
  unfold Dp, Ap in *. rewrite heldD_some, Hd1 in *. rewrite heldA_some, Hd2 in *. rewrite HhA in *. cbn [app] in *.
  unfold wa_get. destruct (wa_items (l_wa st)) as [|x rest] eqn:E.
  - constructor; unfold Dp, Ap, heldD, heldA, cnt, evl, entry_ok, ack_ok, sent_at in *; lproj; rewrite ?E, ?HhA, ?Hc1, ?Hc2; cbn [app map] in *; auto.
    intros _ Hne. contradiction.
  - cbn [map] in *.
    assert (Hx : exists s, sent_at st (a_pid x) s /\ (l_now st <= s + (2 # 1) * d)%Q) by (apply L10; left; reflexivity).
    inversion L17 as [|? ? Hax Hrest]; subst.
    set (st1 := set_wa st (mkwa rest false)).
    assert (Ev1 : forall ev0, evl st1 ev0 = evl st ev0) by reflexivity.
    constructor; lproj; auto.
    + unfold Dp, heldD. rewrite (proj_sched_nil dids st1) by reflexivity. rewrite Ev1. lproj. exact L7.
    + unfold Ap. unfold heldA. rewrite (proj_sched_single apids st1); [|rewrite Ev1; exact HhA]. cbn [apids]. lproj. exact L8.
    + intros y Hy. unfold Dp, heldD in Hy. rewrite (proj_sched_nil dids st1) in Hy by reflexivity. rewrite Ev1 in Hy. lproj. apply L9. exact Hy.
    + intros y Hy. unfold Ap, heldA in Hy. rewrite (proj_sched_single apids st1) in Hy; [|rewrite Ev1; exact HhA].
      cbn [apids] in Hy. lproj. apply L10. exact Hy.
    + rewrite !cnt_sched_none. unfold cnt. rewrite !Ev1. fold (cnt is_holdD st None) (cnt is_initD st None). exact L12.
    + rewrite !cnt_sched_none. unfold cnt. rewrite !Ev1. fold (cnt is_holdA st None) (cnt is_initA st None).
      rewrite Hc1, Hc2. reflexivity.
    + rewrite !cnt_sched_none. unfold cnt. rewrite !Ev1. fold (cnt is_holdD st None) (cnt is_initD st None) (cnt is_putD st None).
      cbn [is_holdD dataid_of is_putD is_initD b2n Nat.add]. exact L14.
    + rewrite cnt_sched_none. cbn [is_holdA ackno_of b2n]. discriminate.
    + apply Forall_insert; [cbn [ae_time ae_ev entry_ok]|exact L16].
      destruct Hax as (A1 & A2 & A3). destruct Hx as (s & Hs & Hle).
      pose proof (sent_at_fun _ _ _ _ A1 Hs) as <-.
      split; [exact A1|]. split; [exact A2|]. split; [exact A3|]. rewrite nq_eq. exact Hle.
Qed.

Lemma seg_ids_snoc mm id n : seg_ids mm id n ++ [id + Z.of_nat n * mm] = seg_ids mm id (S n).
Proof. replace (S n) with (n + 1)%nat by lia. rewrite seg_ids_app. cbn [seg_ids]. reflexivity. Qed.

Local Opaque sink_step.
(* the data wire hands segment x to the sink: it is the next in-order segment, the sink acknowledges x + MSS *)
Lemma deliver_data_LF st ev x st' :
  (ev = AWireGetD x \/ ev = AWireOutD x) ->
  (forall s, sent_at st x s -> (l_now st == s + d)%Q) ->
  LF lc st (Some ev) -> deliver_data lc st x = inl st' -> LF lc st' (Some (AWireInit false)).
Proof.
  intros Hev Hnow L H. pose proof Hm_pos as Hm. pose proof Hd_nonneg as Hdn.
  assert (Hd : dids ev = [x] /\ apids ev = [] /\ is_holdD ev = true /\ is_holdA ev = false /\ is_initD ev = false /\
               is_initA ev = false /\ is_putD ev = false /\ is_putA ev = false)
    by (destruct Hev as [->| ->]; repeat split).
  destruct Hd as (Hd1 & Hd2 & Hd3 & Hd4 & Hd5 & Hd6 & Hd7 & Hd8).
  destruct L as [L0 L1 L2 L3 L4 L5 L6 L7 L8 L9 L10 L11 L12 L13 L14 L15 L16 L17 L18 L19 L20].
  rewrite !cnt_some in *. rewrite Hd3, Hd5 in L12. rewrite Hd4, Hd6 in L13. rewrite Hd4, Hd6, Hd8 in L15. clear L14.
  cbn [b2n Nat.add] in *.
  assert (Hc : cnt is_holdD st None = O /\ cnt is_initD st None = O /\ wd_waiting (l_wd st) = false).
  { destruct (wd_waiting (l_wd st)); cbn [b2n] in L12; repeat split; lia. }
  destruct Hc as (Hc1 & Hc2 & Hc3).
  assert (HhD : heldD st None = []) by (apply heldD_nil_cnt; exact Hc1).
  unfold Dp, Ap in *. rewrite heldD_some, Hd1 in *. rewrite heldA_some, Hd2 in *. rewrite HhD in *. cbn [app] in *.
  destruct L7 as (nD & EDp & ENs). destruct L8 as (nA & EAp & ELa).
  symmetry in EDp. pose proof (seg_ids_head _ _ _ _ _ EDp) as [Ex Eitems].
  destruct nD as [|nD]; [discriminate|]. cbn [Nat.pred] in Eitems.
  destruct (L9 x (or_introl eq_refl)) as (s & Hs & _). pose proof (Hnow s Hs) as Hns.
  unfold deliver_data in H. unfold sent_at in Hs. rewrite Hs in H. rewrite Hna in H. cbn [existsb] in H. injection H as <-.
  set (S0 := nse (l_sink st)) in *.
  assert (HS0 : 0 <= S0) by lia.
  assert (Esk : sink_step true (l_sink st) (x, m) = sink_upto (S0 + m)).
  { rewrite L4. fold S0. rewrite Ex. apply sink_in_order; lia. }
  rewrite Esk. cbn [nse sink_upto].
  set (st1 := set_wa _ _).
  assert (Ev1 : forall ev0, evl st1 ev0 = evl st ev0) by reflexivity.
  assert (P1 : l_now st1 = l_now st) by reflexivity.
  assert (P2 : l_snd st1 = l_snd st) by reflexivity.
  assert (P3 : l_sink st1 = sink_upto (S0 + m)) by reflexivity.
  assert (P4 : l_pkt st1 = l_pkt st) by reflexivity.
  assert (P5 : l_wd st1 = l_wd st) by reflexivity.
  assert (P6 : l_wa st1 = mkwa (wa_items (l_wa st) ++ [mkack (S0 + m) x s (l_now st)]) (wa_waiting (l_wa st))) by reflexivity.
  assert (P7 : l_d1 st1 = l_d1 st /\ l_n1 st1 = l_n1 st) by (split; reflexivity).
  assert (P8 : l_agenda st1 = l_agenda st) by reflexivity.
  clearbody st1. destruct P7 as [P7 P7'].
  constructor; lproj; unfold sent_at; lproj; rewrite ?P1, ?P2, ?P3, ?P4, ?P5, ?P6, ?P7, ?P7'; cbn [nse sink_upto wa_items wa_waiting]; auto.
  - (* Dp *) exists nD. unfold Dp, heldD. rewrite (proj_sched_nil dids st1) by reflexivity. rewrite Ev1.
    change (flat_map dids (evl st (Some (AWireInit false)))) with (heldD st None). rewrite HhD. lproj. rewrite P5.
    split; [rewrite Eitems; reflexivity|]. lia.
  - (* Ap *) exists (S nA). unfold Ap, heldA. rewrite (proj_sched_nil apids st1) by reflexivity. rewrite Ev1.
    change (flat_map apids (evl st (Some (AWireInit false)))) with (heldA st None). lproj. rewrite P6. cbn [wa_items].
    rewrite map_app, app_assoc, EAp. cbn [map a_pid]. rewrite Ex. fold S0. rewrite <- ELa. rewrite seg_ids_snoc. split; [reflexivity|lia].
  - intros y Hy. unfold Dp, heldD in Hy. rewrite (proj_sched_nil dids st1) in Hy by reflexivity. rewrite Ev1 in Hy.
    change (flat_map dids (evl st (Some (AWireInit false)))) with (heldD st None) in Hy. rewrite HhD in Hy. lproj. rewrite P5 in Hy.
    apply L9. right. exact Hy.
  - intros y Hy. unfold Ap, heldA in Hy. rewrite (proj_sched_nil apids st1) in Hy by reflexivity. rewrite Ev1 in Hy.
    change (flat_map apids (evl st (Some (AWireInit false)))) with (heldA st None) in Hy. lproj. rewrite P6 in Hy. cbn [wa_items] in Hy.
    rewrite map_app, app_assoc in Hy. apply in_app_or in Hy as [Hy|[<-|[]]]; [apply L10; exact Hy|].
    cbn [a_pid]. exists s. split; [exact Hs|]. lra.
  - rewrite !cnt_sched. rewrite !cnt_some. unfold cnt. rewrite !Ev1. fold (cnt is_holdD st None) (cnt is_initD st None).
    rewrite Hc1, Hc2, Hc3. reflexivity.
  - rewrite !cnt_sched. rewrite !cnt_some. unfold cnt. rewrite !Ev1. fold (cnt is_holdA st None) (cnt is_initA st None).
    cbn [is_holdA ackno_of is_initA b2n Nat.add]. exact L13.
  - intros _ _. rewrite !cnt_sched, !cnt_some. cbn [is_initD b2n]. lia.
  - intros _ _. rewrite !cnt_sched, !cnt_some. cbn [is_putA b2n]. lia.
  - rewrite P8. apply Forall_insert; [cbn [ae_time ae_ev entry_ok]; lproj; rewrite P1, nq_eq; apply Qle_refl|].
    eapply Forall_entry_ext; [| | | |exact L16]; lproj; auto. rewrite P5. reflexivity.
  - apply Forall_app. split; [eapply Forall_impl; [|exact L17]; intros r; unfold ack_ok, sent_at; lproj; rewrite P4; auto|].
    constructor; [|constructor].
    unfold ack_ok, sent_at. cbn [a_pid a_time a_no a_ct]. lproj. rewrite P4. split; [exact Hs|]. split; [lia|exact Hns].
Qed.

(* ---- one sender event, exactly (nothing dropped) ---- *)
Definition extra_news (now : Q) (s s' : sender) (e : event) : list (Q * aev) :=
  (if (pend s <? pend s')%nat then [(nq now, ASenderCb)] else []) ++
  (if wake s' && negb (match e with EWake => false | _ => wake s end) then [(nq now, ASenderWake)] else []).

Lemma sender_event_exact st e st' s' o :
  step (lc_fx lc) (lc_cfg lc) (l_snd st) e = Ok s' o -> sender_event lc st e = inl st' ->
  l_now st' = l_now st /\ l_snd st' = norm_sender s' /\ l_sink st' = l_sink st /\ l_wa st' = l_wa st /\
  AddsT (l_agenda st) (l_agenda st') (out_news (l_now st) o ++ extra_news (l_now st) (l_snd st) s' e) /\
  l_wd st' = wd_app (l_wd st) (tx_ids o) (l_now st) /\
  l_pkt st' = pkt_sets (l_now st) (tx_ids o) (l_pkt st) /\
  l_n1 st' = (l_n1 st + length (tx_ids o))%nat /\
  map dl_id (rev (l_d1 st')) = map dl_id (rev (l_d1 st)) ++ tx_ids o.
Proof.
  intros Hstep H. unfold sender_event in H. rewrite Hstep in H. injection H as <-.
  set (st0 := set_snd st (norm_sender s')).
  destruct (do_outs_exact o st0) as ([a1 a2 a3 a4 a5] & A & W & P & N & D).
  set (st1 := do_outs lc st0 o) in *.
  change (l_now st0) with (l_now st) in *. change (l_agenda st0) with (l_agenda st) in *.
  change (l_wd st0) with (l_wd st) in *. change (l_pkt st0) with (l_pkt st) in *.
  change (l_n1 st0) with (l_n1 st) in *. change (l_d1 st0) with (l_d1 st) in *.
  change (l_snd st0) with (norm_sender s') in *. change (l_sink st0) with (l_sink st) in *. change (l_wa st0) with (l_wa st) in *.
  change (pend (norm_sender s')) with (pend s'). change (wake (norm_sender s')) with (wake s').
  unfold extra_news.
  set (c1 := (pend (l_snd st) <? pend s')%nat). set (c2 := wake s' && negb _).
  clearbody st1.
  destruct c1, c2; lproj; rewrite ?a1 in *; repeat split; auto.
  - rewrite app_assoc. constructor. constructor. exact A.
  - rewrite app_nil_r. constructor. exact A.
  - cbn [app]. constructor. exact A.
  - cbn [app]. rewrite app_nil_r. exact A.
Qed.

Lemma tx_ids_segs mm id n r : tx_ids (segs mm id n r) = seg_ids mm id n.
Proof. revert id. induction n as [|n IH]; intros id; cbn [segs tx_ids flat_map seg_ids app]; [reflexivity|]. f_equal. apply IH. Qed.

Lemma pkt_sets_get now ids : forall pk x,
  pkt_get x (pkt_sets now ids pk) = if mem x ids then Some (now, now) else pkt_get x pk.
Proof.
  induction ids as [|i t IH]; intros pk x; cbn [pkt_sets mem existsb]; [reflexivity|].
  rewrite IH. fold (mem x t). destruct (mem x t); [rewrite orb_true_r; reflexivity|]. rewrite orb_false_r.
  rewrite pkt_get_set. reflexivity.
Qed.

Lemma cnt_AddsT p st st' ev news :
  AddsT (l_agenda st) (l_agenda st') news -> cnt p st' ev = (length (filter p (map snd news)) + cnt p st ev)%nat.
Proof. intros H. unfold cnt, evl. apply (AddsT_cnt p _ _ _ H). Qed.

Lemma heldD_AddsT st st' ev news :
  AddsT (l_agenda st) (l_agenda st') news -> Forall (fun x => dids (snd x) = []) news -> heldD st' ev = heldD st ev.
Proof. intros H F. unfold heldD, evl. apply (AddsT_proj_nil dids _ _ _ H F). Qed.

Lemma heldA_AddsT st st' ev news :
  AddsT (l_agenda st) (l_agenda st') news -> Forall (fun x => apids (snd x) = []) news -> heldA st' ev = heldA st ev.
Proof. intros H F. unfold heldA, evl. apply (AddsT_proj_nil apids _ _ _ H F). Qed.

(* entries a sender event can add *)
Definition quiet (e : aev) : Prop :=
  dids e = [] /\ apids e = [] /\ is_holdD e = false /\ is_holdA e = false /\ is_initD e = false /\ is_initA e = false /\ is_putA e = false.

Lemma out_news_quiet now o : Forall (fun x => quiet (snd x)) (out_news now o).
Proof.
  induction o as [|x o IH]; cbn [out_news flat_map]; [constructor|].
  apply Forall_app. split; [|exact IH]. destruct x; repeat constructor.
Qed.

Lemma extra_news_quiet now s s' e : Forall (fun x => quiet (snd x)) (extra_news now s s' e).
Proof.
  unfold extra_news. apply Forall_app. split.
  - destruct (_ <? _)%nat; repeat constructor.
  - destruct (_ && _); repeat constructor.
Qed.

Lemma quiet_counts (p : aev -> bool) (news : list (Q * aev)) :
  Forall (fun x => quiet (snd x)) news -> (forall e, quiet e -> p e = false) -> length (filter p (map snd news)) = O.
Proof.
  intros F Hp. induction F as [|x l Hx Hl IH]; cbn [map filter]; [reflexivity|]. rewrite (Hp _ Hx). exact IH.
Qed.

Lemma In_norm_timers id r t : In (id, r) (map (fun p : Z * Q => (fst p, nq (snd p))) t) -> exists r0, In (id, r0) t /\ r = nq r0.
Proof. intros H. apply in_map_iff in H as ([i r0] & E & Hin). cbn [fst snd] in E. injection E as <- <-. eauto. Qed.

Lemma Forall2_imp {A B : Type} (P R : A -> B -> Prop) la lb : (forall a b, P a b -> R a b) -> Forall2 P la lb -> Forall2 R la lb.
Proof. intros H. induction 1; constructor; auto. Qed.

(* a sender event that acknowledges nothing: it may send n >= 0 new segments (resumption) *)
Lemma LF_send st ev st' s' n :
  dids ev = [] -> apids ev = [] -> is_holdD ev = false -> is_holdA ev = false -> is_initD ev = false -> is_initA ev = false ->
  is_putD ev = false -> is_putA ev = false ->
  pkt_le (l_now st) (l_pkt st) ->
  LF lc st (Some ev) ->
  (* what sender_event_exact gives, for outputs segs m ns n (rto s) *)
  l_now st' = l_now st -> l_snd st' = norm_sender s' -> l_sink st' = l_sink st -> l_wa st' = l_wa st ->
  (exists news, AddsT (l_agenda st) (l_agenda st') news /\ Forall (fun x => quiet (snd x)) news /\
                (forall x, In x news -> snd x = AWirePutCb false \/ snd x = ASenderCb \/ snd x = ASenderWake \/
                                       exists id, snd x = ATimerInit id /\ In id (seg_ids m (next_seq (l_snd st)) n)) /\
                (forall x, In x news -> (fst x == l_now st)%Q) /\
                ((0 < n)%nat -> In (AWirePutCb false) (map snd news))) ->
  l_wd st' = wd_app (l_wd st) (seg_ids m (next_seq (l_snd st)) n) (l_now st) ->
  l_pkt st' = pkt_sets (l_now st) (seg_ids m (next_seq (l_snd st)) n) (l_pkt st) ->
  l_n1 st' = (l_n1 st + n)%nat ->
  map dl_id (rev (l_d1 st')) = map dl_id (rev (l_d1 st)) ++ seg_ids m (next_seq (l_snd st)) n ->
  (* the sender *)
  last_ack s' = last_ack (l_snd st) -> dupack s' = dupack (l_snd st) -> rto s' = rto (l_snd st) -> srtt s' = srtt (l_snd st) ->
  next_seq s' = next_seq (l_snd st) + Z.of_nat n * m ->
  timers s' = timers (l_snd st) ++ map (fun i => (i, rto (l_snd st))) (seg_ids m (next_seq (l_snd st)) n) ->
  LF lc st' None.
Proof.
  intros Hd1 Hd2 Hd3 Hd4 Hd5 Hd6 Hd7 Hd8 Hple L Pn Ps Pk Pwa (news & HA & HQ & HK & HT & HP) Pwd Ppk Pn1 Pd1 Sla Sdup Srto Ssrtt Sns Stm.
  pose proof Hm_pos as Hm. pose proof Hd_nonneg as Hdn.
  destruct L as [L0 L1 L2 L3 L4 L5 L6 L7 L8 L9 L10 L11 L12 L13 L14 L15 L16 L17 L18 L19 L20].
  set (ids := seg_ids m (next_seq (l_snd st)) n) in *.
  rewrite !cnt_some in *. rewrite Hd3, Hd5 in L12. rewrite Hd4, Hd6 in L13. rewrite Hd3, Hd5, Hd7 in L14. rewrite Hd4, Hd6, Hd8 in L15.
  cbn [b2n Nat.add] in *. unfold Dp, Ap in *. rewrite heldD_some, Hd1 in *. rewrite heldA_some, Hd2 in *. cbn [app] in *.
  assert (Hnew_ge : forall y, In y ids -> next_seq (l_snd st) <= y /\ y < next_seq (l_snd st) + Z.of_nat n * m).
  { intros y Hy. apply seg_ids_In in Hy as (k & Hk & ->). nia. }
  assert (Hold : forall y sy, sent_at st y sy -> sent_at st' y sy).
  { intros y sy Hy. unfold sent_at in *. rewrite Ppk, pkt_sets_get. destruct (mem y ids) eqn:E; [|exact Hy].
    apply mem_In in E. apply Hnew_ge in E. pose proof (L19 y sy Hy).  lia. }
  assert (Hnew : forall y, In y ids -> sent_at st' y (l_now st)).
  { intros y Hy. unfold sent_at. rewrite Ppk, pkt_sets_get. apply mem_In in Hy. rewrite Hy. reflexivity. }
  assert (Hcases : forall y sy, sent_at st' y sy -> (In y ids /\ sy = l_now st) \/ (~ In y ids /\ sent_at st y sy)).
  { intros y sy Hy. unfold sent_at in *. rewrite Ppk, pkt_sets_get in Hy. destruct (mem y ids) eqn:E.
    - left. apply mem_In in E. split; [exact E|]. injection Hy as <-. reflexivity.
    - right. split; [|exact Hy]. intros Hin. apply mem_In in Hin. congruence. }
  assert (HQd : Forall (fun x => dids (snd x) = []) news) by (eapply Forall_impl; [|exact HQ]; intros x Hx; apply Hx).
  assert (HQa : Forall (fun x => apids (snd x) = []) news) by (eapply Forall_impl; [|exact HQ]; intros x Hx; apply Hx).
  assert (Cq : forall p, (forall e, quiet e -> p e = false) -> cnt p st' None = cnt p st None).
  { intros p Hp. rewrite (cnt_AddsT p st st' None news HA), (quiet_counts p news HQ Hp). reflexivity. }
  assert (Cge : forall p, (cnt p st None <= cnt p st' None)%nat) by (intros p; rewrite (cnt_AddsT p st st' None news HA); lia).
  destruct L5 as (nT & ET & ETn). destruct L7 as (nD & ED & EDn). destruct L8 as (nA & EA & EAn). destruct L18 as (nN & EN & ENn & ENc).
  constructor; rewrite ?Pn, ?Ps, ?Pk, ?Pwa; cbn [last_ack dupack rto srtt next_seq timers norm_sender]; rewrite ?Sla, ?Sdup, ?Srto, ?Ssrtt, ?Sns; auto.
  - rewrite nq_eq. exact L2.
  - rewrite nq_eq. exact L3.
  - exists (nT + n)%nat. rewrite keys_norm, Stm, keys_app, keys_map_pair, ET, seg_ids_app. rewrite ETn. fold ids.
    split; [reflexivity|]. lia.
  - rewrite Stm. apply Forall_forall. intros p Hp. apply in_map_iff in Hp as (q & <- & Hq). cbn [snd]. rewrite nq_eq.
    apply in_app_or in Hq as [Hq|Hq]; [rewrite Forall_forall in L6; apply L6, Hq|].
    apply in_map_iff in Hq as (i & <- & _). cbn [snd]. exact L2.
  - exists (nD + n)%nat. unfold Dp. rewrite (heldD_AddsT st st' None news HA HQd), Pwd. unfold wd_app. cbn [wd_items].
    rewrite app_assoc, ED, seg_ids_app. rewrite EDn. fold ids. split; [reflexivity|]. lia.
  - exists nA. unfold Ap. rewrite (heldA_AddsT st st' None news HA HQa), Pwa. split; [exact EA|exact EAn].
  - intros y Hy. unfold Dp in Hy. rewrite (heldD_AddsT st st' None news HA HQd), Pwd in Hy. unfold wd_app in Hy. cbn [wd_items] in Hy.
    rewrite app_assoc in Hy. apply in_app_or in Hy as [Hy|Hy].
    + destruct (L9 y Hy) as (sy & A & B). exists sy. split; [apply Hold; exact A|exact B].
    + exists (l_now st). split; [apply Hnew; exact Hy|lra].
  - intros y Hy. unfold Ap in Hy. rewrite (heldA_AddsT st st' None news HA HQa), Pwa in Hy.
    destruct (L10 y Hy) as (sy & A & B). exists sy. split; [apply Hold; exact A|exact B].
  - intros x y sx sy Hla Hxy Hx Hy. destruct (Hcases x sx Hx) as [[Hxi ->]|[Hxn Hxo]]; destruct (Hcases y sy Hy) as [[Hyi ->]|[Hyn Hyo]].
    + apply Qle_refl.
    + apply Hnew_ge in Hxi. pose proof (L19 y sy Hyo).  lia.
    + apply (Hple x sx sx). exact Hxo.
    + eapply L11; eauto.
  - rewrite (Cq is_holdD), (Cq is_initD), Pwd; [exact L12| |]; intros e He; apply He.
  - rewrite (Cq is_holdA), (Cq is_initA); [exact L13| |]; intros e He; apply He.
  - rewrite (Cq is_holdD), (Cq is_initD), Pwd; [| |]; try (intros e He; apply He). unfold wd_app. cbn [wd_items]. intros Hh Hne.
    destruct n as [|n'].
    + cbn [seg_ids] in *. subst ids. rewrite app_nil_r in Hne. pose proof (L14 Hh Hne). pose proof (Cge is_putD). lia.
    + assert (Hp : In (AWirePutCb false) (map snd news)) by (apply HP; lia).
      rewrite (cnt_AddsT is_putD st st' None news HA).
      assert (0 < length (filter is_putD (map snd news)))%nat.
      { clear -Hp. induction (map snd news) as [|e l IH]; [destruct Hp|]. cbn [filter]. destruct Hp as [->|Hp]; [cbn; lia|].
        destruct (is_putD e); cbn [length]; [lia|auto]. }
      lia.
  - rewrite (Cq is_holdA), (Cq is_initA); [| |]; try (intros e He; apply He). intros Hh Hne.
    pose proof (L15 Hh Hne). pose proof (Cge is_putA). lia.
  - (* entries *)
    apply (AddsT_Forall (fun t e => entry_ok lc st' t e) _ _ _ HA).
    + eapply Forall_impl; [|exact L16]. intros a Ha. unfold entry_ok in *. rewrite Pn, Ps.
      cbn [next_seq timers norm_sender]. rewrite Sns, Stm.
      destruct (ae_ev a) as [| |id|id|w|w|x|x|ak p tm ct|ak p tm ct]; auto.
      * destruct Ha as [Hlt Hr]. split; [nia|]. intros r Hin. apply In_norm_timers in Hin as (r0 & Hin & ->).
        apply in_app_or in Hin as [Hin|Hin].
        -- destruct (Hr r0 Hin) as (s0 & A & B). exists s0. split; [apply Hold; exact A|exact B].
        -- apply in_map_iff in Hin as (i & E & Hi). injection E as -> _. apply Hnew_ge in Hi. lia.
      * destruct Ha as [Hlt Hr]. split; [nia|]. intros r Hin. apply In_norm_timers in Hin as (r0 & Hin & ->).
        apply in_app_or in Hin as [Hin|Hin].
        -- destruct (Hr r0 Hin) as (s0 & A & B). exists s0. split; [apply Hold; exact A|rewrite nq_eq; exact B].
        -- apply in_map_iff in Hin as (i & E & Hi). injection E as -> _. apply Hnew_ge in Hi. lia.
      * destruct Ha as (s0 & A & B & C). exists s0. split; [apply Hold; exact A|]. split; [exact B|]. rewrite Pwd. exact C.
      * destruct Ha as (s0 & A & B). exists s0. split; [apply Hold; exact A|exact B].
      * destruct Ha as (A & B). split; [apply Hold; exact A|exact B].
      * destruct Ha as (A & B). split; [apply Hold; exact A|exact B].
    + apply Forall_forall. intros x Hx. pose proof (HT x Hx) as Ht.
      destruct (HK x Hx) as [E|[E|[E|(id & E & Hid)]]]; rewrite E; cbn [entry_ok]; auto.
      * rewrite Pn. lra.
      * rewrite Ps. cbn [next_seq timers norm_sender]. rewrite Sns. split; [apply Hnew_ge in Hid; lia|].
        intros r _. exists (l_now st). split; [apply Hnew; exact Hid|exact Ht].
  - eapply Forall_impl; [|exact L17]. intros r (A & B & C). split; [apply Hold; exact A|]. split; assumption.
  - exists (nN + n)%nat. rewrite Pd1, EN, seg_ids_app. replace (0 + Z.of_nat nN * m) with (next_seq (l_snd st)) by lia. fold ids.
    split; [reflexivity|]. split; [lia|]. rewrite Pn1, ENc. reflexivity.
  - intros y sy Hy. destruct (Hcases y sy Hy) as [[Hyi _]|[_ Hyo]]; [apply Hnew_ge in Hyi; lia|].
    pose proof (L19 y sy Hyo).  lia.
  - rewrite Pwd. unfold wd_app. cbn [wd_items wd_stamps]. apply Forall2_app.
    + eapply Forall2_imp; [|exact L20]. intros y sy. apply Hold.
    + clear -Hnew. induction ids as [|y l IH]; cbn [map]; constructor; [apply Hnew; left; reflexivity|].
      apply IH. intros z Hz. apply Hnew. right. exact Hz.
Qed.

Lemma seg_ids_len mm id n : length (seg_ids mm id n) = n.
Proof. revert id. induction n as [|n IH]; intros id; cbn [seg_ids length]; [reflexivity|]. rewrite IH. reflexivity. Qed.

Lemma out_news_segs now mm id n r x :
  In x (out_news now (segs mm id n r)) ->
  fst x = nq now /\ (snd x = AWirePutCb false \/ exists i, snd x = ATimerInit i /\ In i (seg_ids mm id n)).
Proof.
  revert id. induction n as [|n IH]; intros id; cbn [segs out_news flat_map seg_ids app In]; [tauto|].
  intros [<-|[<-|H]].
  - split; [reflexivity|left; reflexivity].
  - split; [reflexivity|right; exists id; split; [reflexivity|left; reflexivity]].
  - destruct (IH _ H) as (A & [B|(i & B & C)]); split; auto. right. exists i. split; [exact B|right; exact C].
Qed.

Lemma out_news_segs_put now mm id n r : (0 < n)%nat -> In (AWirePutCb false) (map snd (out_news now (segs mm id n r))).
Proof. destruct n as [|n]; [lia|]. intros _. cbn [segs out_news flat_map app map snd]. left. reflexivity. Qed.

Lemma extra_news_in now s s' e x : In x (extra_news now s s' e) -> fst x = nq now /\ (snd x = ASenderCb \/ snd x = ASenderWake).
Proof.
  unfold extra_news. intros H. apply in_app_or in H as [H|H].
  - destruct (_ <? _)%nat; [destruct H as [<-|[]]; auto|destruct H].
  - destruct (_ && _); [destruct H as [<-|[]]; auto|destruct H].
Qed.

Lemma sender_event_step st e st' : sender_event lc st e = inl st' -> exists s' o, step repaired (lc_cfg lc) (l_snd st) e = Ok s' o.
Proof.
  unfold sender_event. rewrite (ok_fx _ (ok2_ok _ Hok2)). destruct (step repaired (lc_cfg lc) (l_snd st) e) as [s' o|x]; [eauto|discriminate].
Qed.

(* the sender process resumes; or a StorePut callback of its store is processed *)
Lemma LF_wake_or_cb st e ev st' :
  (e = EWake /\ ev = ASenderWake) \/ (e = EStoreCb /\ ev = ASenderCb) ->
  LInvA lc st (Some ev) -> LF lc st (Some ev) -> sender_event lc st e = inl st' -> LF lc st' None.
Proof.
  intros Hk HA L H. pose proof Hm_pos as Hm.
  destruct (sender_event_step _ _ _ H) as (s' & o & Hstep).
  pose proof Hstep as Hstep'. rewrite <- (ok_fx _ (ok2_ok _ Hok2)) in Hstep'.
  destruct (sender_event_exact st e st' s' o Hstep' H) as (P1 & P2 & P3 & P4 & PA & PW & PP & PN & PD).
  assert (Hsh : exists n : nat, o = segs m (next_seq (l_snd st)) n (rto (l_snd st)) /\
            last_ack s' = last_ack (l_snd st) /\ dupack s' = dupack (l_snd st) /\ rto s' = rto (l_snd st) /\ srtt s' = srtt (l_snd st) /\
            next_seq s' = next_seq (l_snd st) + Z.of_nat n * m /\
            timers s' = timers (l_snd st) ++ map (fun i => (i, rto (l_snd st))) (seg_ids m (next_seq (l_snd st)) n)).
  { destruct Hk as [[-> ->]|[-> ->]]; cbn [step] in Hstep.
    - apply send_guard in Hstep; [|exact Hm]. destruct Hstep as (n & Ho & Hns & Ht & _ & _ & Hla & Hdu & _ & _ & Hsr & _ & Hr & _). proj.
      exists n. cbn [app] in Ho. auto 10.
    - apply on_storecb_shape in Hstep as (-> & p & _ & [(_ & _ & ->)|(_ & ->)]); exists O; proj; cbn [segs seg_ids map Z.of_nat];
        rewrite app_nil_r, Z.add_0_r; auto 10. }
  destruct Hsh as (n & -> & Sla & Sdu & Srt & Ssr & Sns & Stm).
  rewrite tx_ids_segs in *.
  assert (Hev : dids ev = [] /\ apids ev = [] /\ is_holdD ev = false /\ is_holdA ev = false /\ is_initD ev = false /\ is_initA ev = false /\
                is_putD ev = false /\ is_putA ev = false) by (destruct Hk as [[_ ->]|[_ ->]]; repeat split).
  destruct Hev as (E1 & E2 & E3 & E4 & E5 & E6 & E7 & E8).
  eapply (LF_send st ev st' s' n); eauto.
  - apply HA.
  - eexists. split; [exact PA|]. split; [apply Forall_app; split; [apply out_news_quiet|apply extra_news_quiet]|].
    split; [|split].
    + intros x Hx. apply in_app_or in Hx as [Hx|Hx].
      * destruct (out_news_segs _ _ _ _ _ _ Hx) as (_ & [B|(i & B & C)]); [left; exact B|right; right; right; eauto].
      * destruct (extra_news_in _ _ _ _ _ Hx) as (_ & [B|B]); auto.
    + intros x Hx. apply in_app_or in Hx as [Hx|Hx].
      * destruct (out_news_segs _ _ _ _ _ _ Hx) as (A & _). rewrite A. apply nq_eq.
      * destruct (extra_news_in _ _ _ _ _ Hx) as (A & _). rewrite A. apply nq_eq.
    + intros Hn. rewrite map_app. apply in_or_app. left. apply out_news_segs_put. exact Hn.
  - rewrite PN. rewrite seg_ids_len. reflexivity.
Qed.

Lemma filter_none {X : Type} (f : X -> bool) l : (forall x, In x l -> f x = false) -> filter f l = [].
Proof. induction l as [|x l IH]; intros H; cbn [filter]; [reflexivity|]. rewrite (H x (or_introl eq_refl)). apply IH. intros y Hy. apply H. right. exact Hy. Qed.

Lemma filter_all_true' {X : Type} (f : X -> bool) l : (forall x, In x l -> f x = true) -> filter f l = l.
Proof. induction l as [|x l IH]; intros H; cbn [filter]; [reflexivity|]. rewrite (H x (or_introl eq_refl)). f_equal. apply IH. intros y Hy. apply H. right. exact Hy. Qed.

(* the cumulative ACK a = A + MSS stops exactly the timer of segment A, the first in the table *)
Lemma timers_ack_head (t : list (Z * Q)) A nT a :
  keys t = seg_ids m A (S nT) -> a = A + m ->
  map fst (filter (fun p => fst p + m <=? a) t) = [A] /\
  filter (fun p => negb (mem (fst p) [A])) t = tl t /\ keys (tl t) = seg_ids m (A + m) nT /\
  exists r0, t = (A, r0) :: tl t.
Proof.
  intros Hk Ha. pose proof Hm_pos as Hm. destruct t as [|[k0 r0] rest]; [discriminate|].
  cbn [keys map fst seg_ids] in Hk. injection Hk as -> Hrest. fold (keys rest) in Hrest. cbn [tl].
  assert (Hge : forall p, In p rest -> A + m <= fst p).
  { intros p Hp. assert (In (fst p) (keys rest)) by (unfold keys; apply in_map; exact Hp). rewrite Hrest in H.
    apply seg_ids_ge in H; [lia|exact Hm]. }
  split; [|split; [|split; [exact Hrest|eauto]]].
  - cbn [filter fst]. replace (A + m <=? a) with true by (symmetry; apply Z.leb_le; lia). cbn [map fst].
    rewrite filter_none; [reflexivity|]. intros p Hp. apply Z.leb_gt. specialize (Hge p Hp). lia.
  - cbn [filter fst mem existsb]. rewrite Z.eqb_refl. cbn [orb negb].
    apply filter_all_true'. intros p Hp. specialize (Hge p Hp). cbn [mem existsb]. rewrite orb_false_r.
    apply negb_true_iff, Z.eqb_neq. lia.
Qed.

(* the ACK wire hands the ACK of the first unacknowledged segment to the sender *)
Lemma LF_ack st ev a p tm ct st' :
  (ev = AWireGetA a p tm ct \/ ev = AWireOutA a p tm ct) ->
  sent_at st p tm -> a = p + m -> (l_now st == tm + (2 # 1) * d)%Q ->
  LInvA lc st (Some ev) -> LF lc st (Some ev) ->
  deliver_ack lc st a p tm = inl st' -> LF lc st' (Some (AWireInit true)).
Proof.
  intros Hev Hsent Ha Hnow HA L H. pose proof Hm_pos as Hm. pose proof Hd_nonneg as Hdn.
  unfold deliver_ack in H.
  set (st0 := mkls _ _ _ _ _ _ _ _ _ _ (tl (l_oracle st)) _ _ _) in H.
  set (sample := nq (l_now st - tm)) in H. set (orc := hd 0%Q (l_oracle st)) in H.
  assert (L0' : LF lc st0 (Some ev)) by (apply (LF_eq st); [repeat split|exact L]).
  assert (Q0 : l_now st0 = l_now st /\ l_snd st0 = l_snd st /\ l_pkt st0 = l_pkt st) by (repeat split).
  destruct Q0 as (Q1 & Q2 & Q3).
  assert (Hple : pkt_le (l_now st0) (l_pkt st0)) by (rewrite Q1, Q3; apply HA).
  assert (Isr : (0 <= rttvar (l_snd st))%Q) by apply (la_sinv _ _ _ HA).
  assert (Idup : 0 <= dupack (l_snd st)) by apply (si_win _ _ (la_sinv _ _ _ HA)).
  clearbody st0. clear L.
  destruct (sender_event_step _ _ _ H) as (s' & o & Hstep).
  pose proof Hstep as Hstep'. rewrite <- (ok_fx _ (ok2_ok _ Hok2)) in Hstep'.
  destruct (sender_event_exact st0 _ st' s' o Hstep' H) as (P1 & P2 & P3 & P4 & PA & PW & PP & PN & PD).
  rewrite Q2 in *. rewrite Q1 in *.
  assert (Hd : dids ev = [] /\ apids ev = [p] /\ is_holdD ev = false /\ is_holdA ev = true /\ is_initD ev = false /\
               is_initA ev = false /\ is_putD ev = false /\ is_putA ev = false) by (destruct Hev as [->| ->]; repeat split).
  destruct Hd as (Hd1 & Hd2 & Hd3 & Hd4 & Hd5 & Hd6 & Hd7 & Hd8).
  destruct L0' as [L0 L1 L2 L3 L4 L5 L6 L7 L8 L9 L10 L11 L12 L13 L14 L15 L16 L17 L18 L19 L20].
  rewrite Q2 in *. rewrite ?Q1 in *.
  rewrite !cnt_some in *. rewrite Hd3, Hd5 in L12. rewrite Hd4, Hd6 in L13. rewrite Hd3, Hd5, Hd7 in L14. clear L15.
  cbn [b2n Nat.add] in *.
  assert (Hc : cnt is_holdA st0 None = O /\ cnt is_initA st0 None = O /\ wa_waiting (l_wa st0) = false).
  { destruct (wa_waiting (l_wa st0)); cbn [b2n] in L13; repeat split; lia. }
  destruct Hc as (Hc1 & Hc2 & Hc3).
  assert (HhA : heldA st0 None = []) by (apply heldA_nil_cnt; exact Hc1).
  unfold Dp, Ap in *. rewrite heldD_some, Hd1 in *. rewrite heldA_some, Hd2 in *. rewrite HhA in *. cbn [app] in *.
  destruct L5 as (nT & ET & ETn). destruct L7 as (nD & ED & EDn). destruct L8 as (nA & EA & EAn).
  symmetry in EA. pose proof (seg_ids_head _ _ _ _ _ EA) as [Ep Eitems].
  destruct nA as [|nA]; [discriminate|]. cbn [Nat.pred] in Eitems.
  set (A := last_ack (l_snd st)) in *.
  destruct nT as [|nT]; [exfalso; nia|].
  destruct (timers_ack_head (timers (l_snd st)) A nT a ET ltac:(lia)) as (Hids & Hfil & Hkeys & (r0 & Htm)).
  (* the sender's step: a new ACK *)
  cbn [step] in Hstep. apply on_ack_shape in Hstep; [|exact Idup].
  destruct Hstep as (Sns & _ & Swk & _ & _ & [D|Nw]); [destruct D as (D & _); lia|].
  destruct Nw as (_ & Sla & Sdu & Stm & _ & So & Ssr & Srv & Srt & _ & Spd).
  assert (Ea : a = A + m) by lia. rewrite Ea in Sla.
  unfold acked_ids, repaired in Stm, So; proj. rewrite Hids in Stm, So. rewrite Hfil in Stm.
  rewrite So in *. cbn [map tx_ids flat_map out_news app] in *. unfold wd_app in PW. cbn [map] in PW. rewrite !app_nil_r in PW.
  assert (Hsample : (sample == (2 # 1) * d)%Q) by (unfold sample; rewrite nq_eq; lra).
  assert (Hextra : extra_news (l_now st) (l_snd st) s' (EAck a p sample orc) = [(nq (l_now st), ASenderCb)]).
  { unfold extra_news. rewrite Spd, Swk. replace (pend (l_snd st) <? S (pend (l_snd st)))%nat with true by (symmetry; apply Nat.ltb_lt; lia).
    destruct (wake (l_snd st)); reflexivity. }
  rewrite Hextra in PA.
  assert (HQ : Forall (fun x => quiet (snd x)) [(nq (l_now st), ASenderCb)]) by (repeat constructor).
  assert (HQd : Forall (fun x : Q * aev => dids (snd x) = []) [(nq (l_now st), ASenderCb)]) by (repeat constructor).
  assert (HQa : Forall (fun x : Q * aev => apids (snd x) = []) [(nq (l_now st), ASenderCb)]) by (repeat constructor).
  assert (Cq : forall q ev0, q ASenderCb = false -> cnt q st' ev0 = cnt q st0 ev0).
  { intros q ev0 Hq. rewrite (cnt_AddsT q st0 st' ev0 _ PA). cbn [map snd filter]. rewrite Hq. reflexivity. }
  assert (Esame : forall y sy, sent_at st' y sy <-> sent_at st0 y sy) by (intros; unfold sent_at; rewrite PP; reflexivity).
  set (e := (sample - srtt (l_snd st))%Q) in *.
  assert (He : ~ (e == 0)%Q) by (unfold e; intro Z; apply L3; lra).
  assert (Hab1 : (e <= Qabs e)%Q) by apply Qle_Qabs.
  assert (Hab2 : (- e <= Qabs e)%Q) by (rewrite <- Qabs_opp; apply Qle_Qabs).
  constructor; rewrite ?P1, ?P2, ?P3, ?P4; cbn [last_ack dupack rto srtt next_seq timers norm_sender]; rewrite ?Sla, ?Sdu, ?Sns; auto.
  - lia.
  - rewrite nq_eq, Srt, Ssr, Srv. fold e.
    destruct (Q_dec e 0) as [[Hneg|Hpos]|Hz]; [| |contradiction]; unfold e in *; lra.
  - rewrite nq_eq, Ssr. fold e. intro Z. apply He. unfold e in *. lra.
  - exists nT. rewrite keys_norm, Stm, Hkeys. split; [reflexivity|]. fold A in ETn. lia.
  - rewrite Stm. apply Forall_forall. intros q Hq. apply in_map_iff in Hq as (q0 & <- & Hq0). cbn [snd]. rewrite nq_eq.
    rewrite Forall_forall in L6. apply L6. rewrite Htm. right. exact Hq0.
  - exists nD. unfold Dp. rewrite (heldD_AddsT st0 st' _ _ PA HQd).
    change (heldD st0 (Some (AWireInit true))) with (heldD st0 None). rewrite PW. lproj.
    split; [exact ED|exact EDn].
  - exists nA. unfold Ap. rewrite (heldA_AddsT st0 st' _ _ PA HQa), P4.
    change (heldA st0 (Some (AWireInit true))) with (heldA st0 None). rewrite HhA. cbn [app]. rewrite Eitems. fold A.
    split; [reflexivity|]. fold A in EAn. lia.
  - intros y Hy. unfold Dp in Hy. rewrite (heldD_AddsT st0 st' _ _ PA HQd) in Hy.
    change (heldD st0 (Some (AWireInit true))) with (heldD st0 None) in Hy. rewrite PW in Hy. lproj.
    destruct (L9 y Hy) as (sy & A1 & A2). exists sy. split; [apply Esame; exact A1|exact A2].
  - intros y Hy. unfold Ap in Hy. rewrite (heldA_AddsT st0 st' _ _ PA HQa), P4 in Hy.
    change (heldA st0 (Some (AWireInit true))) with (heldA st0 None) in Hy. rewrite HhA in Hy. cbn [app] in Hy.
    destruct (L10 y (or_intror Hy)) as (sy & A1 & A2). exists sy. split; [apply Esame; exact A1|exact A2].
  - intros x y sx sy Hla Hxy Hx Hy. apply Esame in Hx. apply Esame in Hy. eapply L11; eauto. fold A. lia.
  - rewrite !cnt_some. rewrite (Cq is_holdD), (Cq is_initD) by reflexivity. rewrite PW. lproj. cbn [is_holdD is_initD dataid_of b2n Nat.add].
    exact L12.
  - rewrite !cnt_some. rewrite (Cq is_holdA), (Cq is_initA) by reflexivity. rewrite Hc1, Hc2, Hc3. reflexivity.
  - rewrite !cnt_some. rewrite (Cq is_holdD), (Cq is_initD), (Cq is_putD) by reflexivity. rewrite PW. lproj. cbn [is_holdD is_initD is_putD dataid_of b2n Nat.add].
    exact L14.
  - intros _ _. rewrite !cnt_some. cbn [is_initA b2n]. lia.
  - apply (AddsT_Forall (fun t e0 => entry_ok lc st' t e0) _ _ _ PA); [|repeat constructor].
    eapply Forall_impl; [|exact L16]. intros a0 Ha0. unfold entry_ok, sent_at in *. rewrite P1, P2, PP, PW. rewrite ?Q1, ?Q2 in Ha0.
    cbn [next_seq timers norm_sender wd_entered]. rewrite Sns, Stm.
    destruct (ae_ev a0) as [| |id|id|w|w|x|x|ak pp tm' ct'|ak pp tm' ct']; auto.
    + destruct Ha0 as [Hlt Hr]. split; [exact Hlt|]. intros r Hin. apply In_norm_timers in Hin as (r1 & Hin & ->).
      apply (Hr r1). rewrite Htm. right. exact Hin.
    + destruct Ha0 as [Hlt Hr]. split; [exact Hlt|]. intros r Hin. apply In_norm_timers in Hin as (r1 & Hin & ->).
      destruct (Hr r1) as (s0 & B1 & B2); [rewrite Htm; right; exact Hin|]. exists s0. split; [exact B1|rewrite nq_eq; exact B2].
  - eapply Forall_impl; [|exact L17]. intros r (B1 & B2 & B3). split; [apply Esame; exact B1|]. split; assumption.
  - destruct L18 as (nN & EN & ENn & ENc). exists nN. rewrite PD, app_nil_r, PN. cbn [length]. rewrite Nat.add_0_r. auto.
  - intros y sy Hy. apply Esame in Hy. eapply L19; eauto.
  - rewrite PW. cbn [wd_items wd_stamps]. eapply Forall2_imp; [|exact L20]. intros y sy Hy. apply Esame. exact Hy.
Qed.

(* ---- the remaining agenda entries ---- *)
Lemma LF_drop st e :
  dids e = [] -> apids e = [] -> is_holdD e = false -> is_holdA e = false -> is_initD e = false -> is_initA e = false ->
  (is_putD e = false \/ wd_waiting (l_wd st) = false) -> (is_putA e = false \/ wa_waiting (l_wa st) = false) ->
  LF lc st (Some e) -> LF lc st None.
Proof.
  intros Hd1 Hd2 Hd3 Hd4 Hd5 Hd6 Hd7 Hd8 L.
  destruct L as [L0 L1 L2 L3 L4 L5 L6 L7 L8 L9 L10 L11 L12 L13 L14 L15 L16 L17 L18 L19 L20].
  rewrite !cnt_some in *. rewrite Hd3, Hd5 in L12. rewrite Hd4, Hd6 in L13. rewrite Hd3, Hd5 in L14. rewrite Hd4, Hd6 in L15.
  cbn [b2n Nat.add] in *. unfold Dp, Ap in *. rewrite heldD_some, Hd1 in *. rewrite heldA_some, Hd2 in *. cbn [app] in *.
  constructor; auto.
  - intros Hh Hne. specialize (L14 Hh Hne). destruct Hd7 as [Hp|Hw]; [rewrite Hp in L14; cbn [b2n] in L14; lia|].
    rewrite Hh, Hw in L12. cbn [b2n] in L12. lia.
  - intros Hh Hne. specialize (L15 Hh Hne). destruct Hd8 as [Hp|Hw]; [rewrite Hp in L15; cbn [b2n] in L15; lia|].
    rewrite Hh, Hw in L13. cbn [b2n] in L13. lia.
Qed.

(* scheduling an entry that carries no packet and is no wire initialisation *)
Lemma LF_sched_quiet st t p e :
  quiet e -> entry_ok lc st (nq t) e -> LF lc st None -> LF lc (sched st t p e) None.
Proof.
  intros (Q1 & Q2 & Q3 & Q4 & Q5 & Q6 & Q7) He L.
  destruct L as [L0 L1 L2 L3 L4 L5 L6 L7 L8 L9 L10 L11 L12 L13 L14 L15 L16 L17 L18 L19 L20].
  constructor; lproj; auto; unfold Dp, Ap, heldD, heldA in *; rewrite ?(proj_sched_nil dids st) by exact Q1;
    rewrite ?(proj_sched_nil apids st) by exact Q2; rewrite ?cnt_sched_none, ?Q3, ?Q4, ?Q5, ?Q6, ?Q7; cbn [b2n Nat.add]; lproj; auto.
  - intros Hh Hne. specialize (L14 Hh Hne). lia.
  - apply Forall_insert; [exact He|exact L16].
Qed.

Lemma keys_NoDup_fun (t : list (Z * Q)) id r r' : NoDup (keys t) -> In (id, r) t -> In (id, r') t -> r = r'.
Proof.
  induction t as [|[k x] t IH]; cbn [keys map fst In]; [tauto|]. intros Hn [E|H] [E'|H'].
  - congruence.
  - injection E as -> ->. inversion Hn as [|? ? Hk _]; subst. exfalso. apply Hk. change id with (fst (id, r')). apply in_map. exact H'.
  - injection E' as -> ->. inversion Hn as [|? ? Hk _]; subst. exfalso. apply Hk. change id with (fst (id, r)). apply in_map. exact H.
  - inversion Hn; subst. apply IH; auto.
Qed.

(* the packet of the processed entry stays in the wire until its propagation delay is over *)
Lemma LF_move_D st x s :
  sent_at st x s -> LF lc st (Some (AWireGetD x)) ->
  LF lc (sched st (l_now st + (d - (l_now st - s)))%Q 1 (AWireOutD x)) None.
Proof.
  intros Hs L. destruct L as [L0 L1 L2 L3 L4 L5 L6 L7 L8 L9 L10 L11 L12 L13 L14 L15 L16 L17 L18 L19 L20].
  rewrite !cnt_some in *. cbn [is_holdD is_initD is_holdA is_initA is_putD is_putA dataid_of ackno_of b2n Nat.add] in *.
  assert (Hc : cnt is_holdD st None = O) by lia.
  assert (HhD : heldD st None = []) by (apply heldD_nil_cnt; exact Hc).
  unfold Dp, Ap in *. rewrite heldD_some, heldA_some in *. cbn [dids apids dataid_of app] in *. rewrite HhD in *. cbn [app] in *.
  constructor; lproj; auto; unfold Dp, Ap, heldD, heldA.
  - rewrite (proj_sched_single dids st) by exact HhD. cbn [dids dataid_of app]. lproj. exact L7.
  - rewrite (proj_sched_nil apids st) by reflexivity. lproj. exact L8.
  - rewrite (proj_sched_single dids st) by exact HhD. cbn [dids dataid_of app]. lproj. exact L9.
  - rewrite (proj_sched_nil apids st) by reflexivity. lproj. exact L10.
  - rewrite !cnt_sched_none. cbn [is_holdD is_initD dataid_of b2n]. lia.
  - rewrite !cnt_sched_none. cbn [is_holdA is_initA ackno_of b2n Nat.add]. exact L13.
  - rewrite !cnt_sched_none. cbn [is_holdD dataid_of b2n]. discriminate.
  - rewrite !cnt_sched_none. cbn [is_holdA is_initA is_putA ackno_of b2n Nat.add]. exact L15.
  - apply Forall_insert; [|exact L16]. cbn [ae_time ae_ev entry_ok]. exists s. split; [exact Hs|]. rewrite nq_eq. ring.
Qed.

Lemma LF_move_A st a p tm ct :
  (ct == tm + d)%Q -> sent_at st p tm -> a = p + m -> LF lc st (Some (AWireGetA a p tm ct)) ->
  LF lc (sched st (l_now st + (d - (l_now st - ct)))%Q 1 (AWireOutA a p tm ct)) None.
Proof.
  intros Hct Hs Ha L. destruct L as [L0 L1 L2 L3 L4 L5 L6 L7 L8 L9 L10 L11 L12 L13 L14 L15 L16 L17 L18 L19 L20].
  rewrite !cnt_some in *. cbn [is_holdD is_initD is_holdA is_initA is_putD is_putA dataid_of ackno_of b2n Nat.add] in *.
  assert (Hc : cnt is_holdA st None = O) by lia.
  assert (HhA : heldA st None = []) by (apply heldA_nil_cnt; exact Hc).
  unfold Dp, Ap in *. rewrite heldD_some, heldA_some in *. cbn [dids apids dataid_of app] in *. rewrite HhA in *. cbn [app] in *.
  constructor; lproj; auto; unfold Dp, Ap, heldD, heldA.
  - rewrite (proj_sched_nil dids st) by reflexivity. lproj. exact L7.
  - rewrite (proj_sched_single apids st) by exact HhA. cbn [apids app]. lproj. exact L8.
  - rewrite (proj_sched_nil dids st) by reflexivity. lproj. exact L9.
  - rewrite (proj_sched_single apids st) by exact HhA. cbn [apids app]. lproj. exact L10.
  - rewrite !cnt_sched_none. cbn [is_holdD is_initD dataid_of b2n Nat.add]. exact L12.
  - rewrite !cnt_sched_none. cbn [is_holdA is_initA ackno_of b2n]. lia.
  - rewrite !cnt_sched_none. cbn [is_holdD is_initD is_putD dataid_of b2n Nat.add]. exact L14.
  - rewrite !cnt_sched_none. cbn [is_holdA ackno_of b2n]. discriminate.
  - apply Forall_insert; [|exact L16]. cbn [ae_time ae_ev entry_ok]. split; [exact Hs|]. split; [exact Ha|]. split; [exact Hct|].
    rewrite nq_eq. lra.
Qed.

(* an armed timer is never due: its segment (or the ACK of it) is still travelling and not overdue *)
Lemma LF_no_expiry st id :
  LF lc st (Some (ATimerFire id)) -> entry_ok lc st (l_now st) (ATimerFire id) ->
  has_timer id (timers (l_snd st)) = true -> False.
Proof.
  intros L He Ht. pose proof Hm_pos as Hm. pose proof Hd_nonneg as Hdn.
  apply has_timer_In in Ht. pose proof Ht as Hk. unfold keys in Ht. apply in_map_iff in Ht as ([k r] & E & Hin). cbn [fst] in E. subst k.
  destruct He as [_ He]. destruct (He r Hin) as (s & Hs & Hnow).
  pose proof (lf_armed _ _ _ L) as F. rewrite Forall_forall in F. pose proof (F _ Hin) as Hr. cbn [snd] in Hr.
  destruct (lf_timers _ _ _ L) as (nT & ET & ETn). destruct (lf_Dp _ _ _ L) as (nD & ED & EDn). destruct (lf_Ap _ _ _ L) as (nA & EA & EAn).
  rewrite ET in Hk. apply seg_ids_In in Hk as (k & Hkl & Hkid).
  destruct (Z_lt_ge_dec id (nse (l_sink st))) as [Hlt|Hge].
  - assert (Hin' : In id (Ap st (Some (ATimerFire id)))).
    { rewrite EA, Hkid. apply seg_ids_has. nia. }
    destruct (lf_A_due _ _ _ L id Hin') as (s' & Hs' & Hle). pose proof (sent_at_fun _ _ _ _ Hs Hs') as <-. lra.
  - assert (Hin' : In id (Dp st (Some (ATimerFire id)))).
    { rewrite ED. replace id with (nse (l_sink st) + Z.of_nat (k - nA) * m) by nia. apply seg_ids_has. nia. }
    destruct (lf_D_due _ _ _ L id Hin') as (s' & Hs' & Hle). pose proof (sent_at_fun _ _ _ _ Hs Hs') as <-. lra.
Qed.

Lemma handle_LF st ev st' :
  LInvA lc st (Some ev) -> LF lc st (Some ev) -> entry_ok lc st (l_now st) ev ->
  handle lc st ev = inl st' -> LF lc st' None.
Proof.
  intros HA L He H. pose proof Hm_pos as Hm. pose proof Hd_nonneg as Hdn.
  destruct ev as [| |id|id|w|w|x|x|a p tm ct|a p tm ct]; cbn [handle] in H.
  - eapply (LF_wake_or_cb st EWake ASenderWake); eauto.
  - eapply (LF_wake_or_cb st EStoreCb ASenderCb); eauto.
  - assert (L0 : LF lc st None) by (eapply LF_drop; [..|exact L]; auto).
    destruct (find (fun q => fst q =? id) (timers (l_snd st))) as [[k r]|] eqn:Ef; injection H as <-; [|exact L0].
    apply find_some in Ef as [Hin Hk]. cbn [fst] in Hk. apply Z.eqb_eq in Hk. subst k.
    apply LF_sched_quiet; [repeat split| |exact L0].
    destruct He as [Hlt Hs]. cbn [entry_ok]. split; [exact Hlt|]. intros r' Hin'.
    assert (Hnd' : NoDup (keys (timers (l_snd st)))).
    { destruct HA as [Is _ _ _]. rewrite (si_keys _ _ Is). apply Is. }
    pose proof (keys_NoDup_fun _ _ _ _ Hnd' Hin Hin') as <-.
    destruct (Hs r Hin) as (s & A1 & A2). exists s. split; [exact A1|]. rewrite nq_eq. lra.
  - destruct (has_timer id (timers (l_snd st))) eqn:Eh.
    + exfalso. eapply LF_no_expiry; eauto.
    + injection H as <-. eapply LF_drop; [..|exact L]; auto.
  - destruct w; injection H as <-; [apply (wa_get_LF st (AWireInit true))|apply (wd_get_LF st (AWireInit false))]; auto.
  - destruct w.
    + destruct (wa_waiting (l_wa st)) eqn:Ew; injection H as <-.
      * apply (wa_get_LF st (AWirePutCb true)); auto.
      * eapply LF_drop; [..|exact L]; auto.
    + destruct (wd_waiting (l_wd st)) eqn:Ew; injection H as <-.
      * apply (wd_get_LF st (AWirePutCb false)); auto.
      * eapply LF_drop; [..|exact L]; auto.
  - destruct He as (s & Hs & Hle & Hent). pose proof Hs as Hs'. unfold sent_at in Hs'. rewrite Hs', Hent in H.
    destruct (Qltb (l_now st - s) d) eqn:Eq.
    + injection H as <-. apply LF_move_D; auto.
    + apply Qltb_false in Eq.
      destruct (deliver_data lc st x) as [st1|] eqn:D; cbn [bind] in H; [|discriminate]. injection H as <-.
      apply (wd_get_LF st1 (AWireInit false)); [auto|].
      eapply (deliver_data_LF st (AWireGetD x)); eauto.
      intros s0 Hs0. pose proof (sent_at_fun _ _ _ _ Hs Hs0) as <-. lra.
  - destruct He as (s & Hs & Heq).
    destruct (deliver_data lc st x) as [st1|] eqn:D; cbn [bind] in H; [|discriminate]. injection H as <-.
    apply (wd_get_LF st1 (AWireInit false)); [auto|].
    eapply (deliver_data_LF st (AWireOutD x)); eauto.
    intros s0 Hs0. pose proof (sent_at_fun _ _ _ _ Hs Hs0) as <-. exact Heq.
  - destruct He as (Hs & Ha & Hct & Hle).
    destruct (Qltb (l_now st - ct) d) eqn:Eq.
    + injection H as <-. apply LF_move_A; auto.
    + apply Qltb_false in Eq.
      destruct (deliver_ack lc st a p tm) as [st1|] eqn:D; cbn [bind] in H; [|discriminate]. injection H as <-.
      apply (wa_get_LF st1 (AWireInit true)); [auto|].
      eapply (LF_ack st (AWireGetA a p tm ct)); eauto. lra.
  - destruct He as (Hs & Ha & Hct & Heq).
    destruct (deliver_ack lc st a p tm) as [st1|] eqn:D; cbn [bind] in H; [|discriminate]. injection H as <-.
    apply (wa_get_LF st1 (AWireInit true)); [auto|].
    eapply (LF_ack st (AWireOutA a p tm ct)); eauto.
Qed.

(* ---- all reachable states ---- *)
Variables cw ss rtt0 : Q.
Variable orc : list Q.
Hypothesis Hcw : (zq m <= cw)%Q.
Hypothesis Hrtt : (d < rtt0)%Q.
Hypothesis Hrtt2 : ~ (rtt0 == (2 # 1) * d)%Q.

Lemma rtt0_pos : (0 < rtt0)%Q.
Proof. pose proof Hd_nonneg. lra. Qed.

Lemma linit_LF : LF lc (linit cw ss rtt0 orc) None.
Proof.
  pose proof Hd_nonneg as Hdn.
  constructor; unfold linit, init; lproj; proj; unfold Dp, Ap, heldD, heldA, cnt, evl; lproj; cbn [map ae_ev app flat_map dids apids dataid_of filter length
     is_holdD is_initD is_holdA is_initA is_putD is_putA ackno_of b2n Nat.add].
  - lia.
  - reflexivity.
  - lra.
  - exact Hrtt2.
  - reflexivity.
  - exists O. split; [reflexivity|lia].
  - constructor.
  - exists O. split; [reflexivity|]. cbn. lia.
  - exists O. split; [reflexivity|]. cbn. lia.
  - intros x [].
  - intros x [].
  - intros x y sx sy _ _ H. discriminate.
  - reflexivity.
  - reflexivity.
  - intros _ H. contradiction.
  - intros _ H. contradiction.
  - repeat constructor; cbn [entry_ok ae_time ae_ev]; lproj; apply Qle_refl.
  - constructor.
  - exists O. repeat split.
  - intros y s H. discriminate.
  - constructor.
Qed.

Lemma reach_LF st : lreach lc (linit cw ss rtt0 orc) st -> LF lc st None.
Proof.
  induction 1 as [|st st' Hreach IH Hstep]; [apply linit_LF|].
  assert (HA : LInvA lc st None) by (eapply reach_A; eauto; [apply Hok2|apply rtt0_pos]).
  unfold lstep in Hstep. destruct (l_agenda st) as [|a rest] eqn:E; [discriminate|]. injection Hstep as Hstep.
  fold (popped st a rest) in Hstep.
  destruct (pop_LF st a rest HA IH E) as [L1 L2].
  destruct (pop_A lc st a rest HA E) as (P1 & _).
  eapply handle_LF; eauto.
Qed.

(* LOSS-FREE, RTT BELOW THE RTO: every segment is handed to the data path exactly once, in order *)
Theorem lossfree_transmissions st :
  lreach lc (linit cw ss rtt0 orc) st ->
  exists nN : nat, map dl_id (rev (l_d1 st)) = seg_ids m 0 nN /\ Z.of_nat nN * m = next_seq (l_snd st) /\ l_n1 st = nN.
Proof. intros H. apply (lf_log _ _ _ (reach_LF st H)). Qed.

Theorem lossfree_no_retransmit st :
  lreach lc (linit cw ss rtt0 orc) st -> NoDup (map dl_id (l_d1 st)).
Proof.
  intros H. destruct (lossfree_transmissions st H) as (nN & E & _).
  assert (N : NoDup (map dl_id (rev (l_d1 st)))) by (rewrite E; apply seg_ids_NoDup; apply Hm_pos).
  rewrite map_rev in N. apply NoDup_rev in N. rewrite rev_involutive in N. exact N.
Qed.

(* and no timer ever expires armed, no duplicate ACK is ever counted *)
Theorem lossfree_no_dupack st : lreach lc (linit cw ss rtt0 orc) st -> dupack (l_snd st) = 0.
Proof. intros H. apply (lf_dup _ _ _ (reach_LF st H)). Qed.

(* TERMINATION OF THE LOSS-FREE LOOP with an explicit bound *)
Theorem lossfree_steps_bounded k st :
  fsize (lc_cfg lc) <> 0 -> lsteps lc k (linit cw ss rtt0 orc) st -> Z.of_nat k <= 3 + 11 * fsize (lc_cfg lc).
Proof.
  intros Hfs H. pose proof Hm_pos as Hm.
  pose proof (loop_work_bounded lc cw ss rtt0 orc k st Hok2 Hcw rtt0_pos Hfs H) as Hw.
  pose proof (lsteps_reach _ _ _ _ H) as Hr.
  destruct (lossfree_transmissions st Hr) as (nN & _ & En & Ec).
  destruct (reach_C lc cw ss rtt0 orc st Hok2 Hcw rtt0_pos Hr) as [_ [Cs _]].
  destruct (sc_buf _ _ Cs) as [B1 B2]. specialize (B2 Hfs). rewrite Ec in Hw. nia.
Qed.

Theorem lossfree_terminates fuel :
  fsize (lc_cfg lc) <> 0 -> 3 + 11 * fsize (lc_cfg lc) < Z.of_nat fuel ->
  match lrun fuel lc (linit cw ss rtt0 orc) with
  | LQuiescent st => last_ack (l_snd st) = fsize (lc_cfg lc) /\ nse (l_sink st) = fsize (lc_cfg lc) /\
                     sink_prefix (l_sink st) (fsize (lc_cfg lc)) /\ NoDup (map dl_id (l_d1 st))
  | LStopped st => exists a rest, l_agenda st = a :: rest /\ (lc_tmax lc <= ae_time a)%Q
  | LFuel _ | LRaised _ _ => False
  end.
Proof.
  intros Hfs Hfuel.
  destruct (lrun fuel lc (linit cw ss rtt0 orc)) as [st|st|st|st e] eqn:E.
  - assert (Hr : lreach lc (linit cw ss rtt0 orc) st).
    { pose proof (lrun_reach lc (linit cw ss rtt0 orc) fuel _ (reach_init _ _)) as R. rewrite E in R. exact R. }
    assert (Hq : l_agenda st = []).
    { clear -E. revert E. generalize (linit cw ss rtt0 orc). induction fuel as [|f IH]; intros s0; cbn [lrun]; [discriminate|].
      destruct (l_agenda s0) as [|a rest] eqn:Ea; [intros H; injection H as <-; exact Ea|].
      destruct (Qle_bool _ _); [discriminate|]. destruct (lstep lc s0) as [[s1|e]|] eqn:Es; try discriminate.
      - apply IH.
      - unfold lstep in Es. rewrite Ea in Es. discriminate. }
    destruct (loop_quiescent_complete lc cw ss rtt0 orc st Hok2 Hcw rtt0_pos Hfs Hr Hq) as (A & B & C).
    split; [exact A|]. split; [exact B|]. split; [exact C|]. apply lossfree_no_retransmit. exact Hr.
  - clear -E. revert E. generalize (linit cw ss rtt0 orc). induction fuel as [|f IH]; intros s0; cbn [lrun]; [discriminate|].
    destruct (l_agenda s0) as [|a rest] eqn:Ea; [discriminate|].
    destruct (Qle_bool (lc_tmax lc) (ae_time a)) eqn:Eq.
    + intros H; injection H as <-. exists a, rest. split; [exact Ea|apply Qle_bool_iff; exact Eq].
    + destruct (lstep lc s0) as [[s1|e]|] eqn:Es; try discriminate. apply IH.
  - apply lrun_fuel_steps in E. apply lossfree_steps_bounded in E; [lia|exact Hfs].
  - eapply loop_never_raises; eauto; [apply Hok2|apply rtt0_pos].
Qed.

End LFproofs.

(* non-vacuity: 4 segments, delay 1/4, rtt_estimate 1: the hypotheses hold and the run completes *)
Definition lc_example : lcfg := mklcfg repaired (mkcfg 512 2048 Reno) (1 # 4) [] [] (1000 # 1).
Example lossfree_example :
  lc_ok2 lc_example /\ (lc_delay lc_example < 1)%Q /\ ~ (1 == (2 # 1) * lc_delay lc_example)%Q /\
  exists st, lrun 200 lc_example (linit (1024 # 1) (65535 # 1) 1 []) = LQuiescent st /\
             last_ack (l_snd st) = 2048 /\ map dl_id (rev (l_d1 st)) = [0; 512; 1024; 1536].
Proof.
  split; [|split; [|split]].
  - constructor; [constructor; cbn; [reflexivity|lia|discriminate]|]. exists 4. cbn. lia.
  - cbn. reflexivity.
  - cbn. intros H. discriminate H.
  - eexists. split; [vm_compute; reflexivity|]. split; reflexivity.
Qed.
