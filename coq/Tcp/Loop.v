(* Closed loop: the sender of Tcp/Sender.v and the sink of Tcp/Sink.v joined by two Wires
   (onl/netdev/wire.py, constant delay) and two droppers (finite sets of dropped transmission
   indices), on a small agenda ordered like the kernel's: (time, priority, insertion number).
   Executable; no proofs here.

   What is kept from the real objects because it decides the order of events:
   - Store hand-offs take two agenda hops (the StorePut event's callback grants a waiting get; the
     granted StoreGet event resumes the consumer), for the sender's cwnd_avaialbe and for both wires;
   - a Timer is a process: its Initialize event (urgent) schedules the Timeout; when the Timeout is
     processed the callback runs unless the timer was stopped, and a restart() from the callback
     schedules the next Timeout after everything the callback scheduled;
   - retransmissions re-send THE SAME Packet object: packet.time (and packet.current_time) of a copy
     still inside the wire are overwritten ([l_pkt] maps a segment id to the fields of its object);
     the wire's store holds (entry instant, packet) pairs (fix: commit in onl/netdev/wire.py), so each
     traversal is timed by its own entry instant: [wd_stamps] runs parallel to [wd_items], and
     [wd_entered] is the local variable `entered` of the wire's process (the entry it last took);
     ACK packets are fresh objects and are carried by value. *)
From Coq Require Import ZArith QArith Qabs Qround Qminmax List Bool.
From ONL Require Import Tcp.Sink Tcp.Sender.
Import ListNotations.
Open Scope Z_scope.

Inductive aev :=
| ASenderWake                (* Initialize / granted StoreGet of the sender process *)
| ASenderCb                  (* a StorePut event of cwnd_avaialbe *)
| ATimerInit (id : Z)        (* Initialize of the Timer process of segment id *)
| ATimerFire (id : Z)        (* the Timeout the Timer process of segment id sleeps on *)
| AWireInit (w : bool)       (* false = data wire, true = ACK wire *)
| AWirePutCb (w : bool)      (* a StorePut event of the wire's store *)
| AWireGetD (id : Z)         (* data wire: granted StoreGet carrying the packet of segment id *)
| AWireOutD (id : Z)         (* data wire: end of the propagation delay *)
| AWireGetA (ackno pid : Z) (tm ct : Q)   (* ACK wire: the ACK packet by value (ack, packet_id, time, current_time) *)
| AWireOutA (ackno pid : Z) (tm ct : Q).

Record aentry := mkae { ae_time : Q; ae_prio : nat; ae_seq : nat; ae_ev : aev }.

Definition ae_before (a b : aentry) : bool :=
  Qltb (ae_time a) (ae_time b) ||
  (Qeq_bool (ae_time a) (ae_time b) &&
   ((ae_prio a <? ae_prio b)%nat || ((ae_prio a =? ae_prio b)%nat && (ae_seq a <? ae_seq b)%nat))).

Fixpoint ainsert (e : aentry) (l : list aentry) : list aentry :=
  match l with
  | [] => [e]
  | x :: t => if ae_before e x then e :: x :: t else x :: ainsert e t
  end.

Record ackrec := mkack { a_no : Z; a_pid : Z; a_time : Q; a_ct : Q }.

Record wireD := mkwd { wd_items : list Z; wd_stamps : list Q; wd_entered : Q; wd_waiting : bool }.
Record wireA := mkwa { wa_items : list ackrec; wa_waiting : bool }.

Record lcfg := mklcfg {
  lc_fx : fixes; lc_cfg : config; lc_delay : Q;
  lc_drop_data : list nat; lc_drop_ack : list nat;
  lc_tmax : Q
}.

(* what the correspondence compares *)
Record slog := mkslog { sl_time : Q; sl_ev : event; sl_tx : list (Z * Z); sl_post : sender }.
Record dlog := mkdlog { dl_idx : nat; dl_id : Z; dl_ack : Z; dl_time : Q; dl_dropped : bool }.

Record lstate := mkls {
  l_now : Q; l_seq : nat; l_agenda : list aentry;
  l_snd : sender; l_sink : sink;
  l_pkt : list (Z * (Q * Q));        (* id -> (packet.time, packet.current_time) of the one Packet object of segment id *)
  l_wd : wireD; l_wa : wireA;
  l_n1 : nat; l_n2 : nat;            (* packets seen by the droppers *)
  l_oracle : list Q;                 (* TCPCubic.cnt after each ACK, as computed by the real code (oracle, see Sender.v) *)
  l_slog : list slog; l_d1 : list dlog; l_d2 : list dlog   (* reversed logs *)
}.

Inductive lerr :=
| LSender (e : err)          (* the sender raised *)
| LNoPacket (id : Z).        (* model-level: a segment id without a Packet object *)

Definition nq (q : Q) : Q := Qred q.

Definition norm_sender (s : sender) : sender :=
  mkst (next_seq s) (send_buffer s) (last_ack s) (dupack s) (nq (cwnd s)) (nq (ssthresh s)) (nq (srtt s)) (nq (rttvar s))
       (nq (rto s)) (cwnd_cnt s) (nq (cnt s)) (map (fun p => (fst p, nq (snd p))) (timers s)) (sent s)
       (tokens s) (pend s) (waiting s) (wake s) (finished s).

Definition sched (st : lstate) (t : Q) (prio : nat) (e : aev) : lstate :=
  mkls (l_now st) (S (l_seq st)) (ainsert (mkae (nq t) prio (l_seq st) e) (l_agenda st))
       (l_snd st) (l_sink st) (l_pkt st) (l_wd st) (l_wa st) (l_n1 st) (l_n2 st) (l_oracle st)
       (l_slog st) (l_d1 st) (l_d2 st).

Fixpoint pkt_get (id : Z) (m : list (Z * (Q * Q))) : option (Q * Q) :=
  match m with [] => None | (k, v) :: t => if k =? id then Some v else pkt_get id t end.
Fixpoint pkt_set (id : Z) (v : Q * Q) (m : list (Z * (Q * Q))) : list (Z * (Q * Q)) :=
  match m with [] => [(id, v)] | (k, x) :: t => if k =? id then (k, v) :: t else (k, x) :: pkt_set id v t end.

Definition set_snd (st : lstate) (s : sender) : lstate :=
  mkls (l_now st) (l_seq st) (l_agenda st) s (l_sink st) (l_pkt st) (l_wd st) (l_wa st) (l_n1 st) (l_n2 st)
       (l_oracle st) (l_slog st) (l_d1 st) (l_d2 st).
Definition set_pkt (st : lstate) (m : list (Z * (Q * Q))) : lstate :=
  mkls (l_now st) (l_seq st) (l_agenda st) (l_snd st) (l_sink st) m (l_wd st) (l_wa st) (l_n1 st) (l_n2 st)
       (l_oracle st) (l_slog st) (l_d1 st) (l_d2 st).
Definition set_wd (st : lstate) (w : wireD) : lstate :=
  mkls (l_now st) (l_seq st) (l_agenda st) (l_snd st) (l_sink st) (l_pkt st) w (l_wa st) (l_n1 st) (l_n2 st)
       (l_oracle st) (l_slog st) (l_d1 st) (l_d2 st).
Definition set_wa (st : lstate) (w : wireA) : lstate :=
  mkls (l_now st) (l_seq st) (l_agenda st) (l_snd st) (l_sink st) (l_pkt st) (l_wd st) w (l_n1 st) (l_n2 st)
       (l_oracle st) (l_slog st) (l_d1 st) (l_d2 st).

(* ---- data path: sender.out = dropper 1 -> wire 1 ---- *)

(* out.put(packet) of segment id: the packet's time was just set to now by the sender *)
Definition tx_data (lc : lcfg) (st : lstate) (id : Z) : lstate :=
  let idx := l_n1 st in
  let dropped := existsb (Nat.eqb idx) (lc_drop_data lc) in
  let ct := match pkt_get id (l_pkt st) with Some (_, c) => c | None => 0%Q end in   (* a new Packet has current_time 0 *)
  let st1 := mkls (l_now st) (l_seq st) (l_agenda st) (l_snd st) (l_sink st)
                  (pkt_set id (l_now st, if dropped then ct else l_now st) (l_pkt st))   (* Wire.put: packet.current_time = now *)
                  (l_wd st) (l_wa st) (S idx) (l_n2 st) (l_oracle st) (l_slog st)
                  (mkdlog idx id 0 (l_now st) dropped :: l_d1 st) (l_d2 st) in
  if dropped then st1
  else sched (set_wd st1 (mkwd (wd_items (l_wd st1) ++ [id]) (wd_stamps (l_wd st1) ++ [l_now st]) (wd_entered (l_wd st1))
                               (wd_waiting (l_wd st1)))) (l_now st) 1 (AWirePutCb false).

(* the outputs of one sender event, in order *)
Fixpoint do_outs (lc : lcfg) (st : lstate) (o : list out) : lstate :=
  match o with
  | [] => st
  | Tx id _ :: t => do_outs lc (tx_data lc st id) t
  | TStart id _ :: t => do_outs lc (sched st (l_now st) 0 (ATimerInit id)) t
  | TStop _ :: t => do_outs lc st t
  | TRestart id r :: t => do_outs lc (sched st (l_now st + r)%Q 1 (ATimerFire id)) t
  end.

(* one event of the sender inside the loop *)
Definition sender_event (lc : lcfg) (st : lstate) (e : event) : lstate + lerr :=
  let s := l_snd st in
  match step (lc_fx lc) (lc_cfg lc) s e with
  | Raise x => inr (LSender x)
  | Ok s' o =>
      let s' := norm_sender s' in
      let st1 := do_outs lc (set_snd st s') o in
      (* cwnd_avaialbe.put(True): its StorePut event *)
      let st2 := if (pend s <? pend s')%nat then sched st1 (l_now st) 1 ASenderCb else st1 in
      (* a get granted (by the StorePut callback, or at once inside get()): its StoreGet event *)
      let st3 := if wake s' && negb (match e with EWake => false | _ => wake s end) then sched st2 (l_now st) 1 ASenderWake else st2 in
      inl (mkls (l_now st3) (l_seq st3) (l_agenda st3) (l_snd st3) (l_sink st3) (l_pkt st3) (l_wd st3) (l_wa st3)
                (l_n1 st3) (l_n2 st3) (l_oracle st3)
                (mkslog (l_now st) e (txs o) s' :: l_slog st3) (l_d1 st3) (l_d2 st3))
  end.

(* ---- wires ---- *)

(* store.get() of the data wire's process *)
Definition wd_get (st : lstate) : lstate :=
  match wd_items (l_wd st) with
  | x :: rest => sched (set_wd st (mkwd rest (tl (wd_stamps (l_wd st))) (hd 0%Q (wd_stamps (l_wd st))) false)) (l_now st) 1 (AWireGetD x)
  | [] => set_wd st (mkwd [] (wd_stamps (l_wd st)) (wd_entered (l_wd st)) true)
  end.
Definition wa_get (st : lstate) : lstate :=
  match wa_items (l_wa st) with
  | x :: rest => sched (set_wa st (mkwa rest false)) (l_now st) 1 (AWireGetA (a_no x) (a_pid x) (a_time x) (a_ct x))
  | [] => set_wa st (mkwa [] true)
  end.

(* sink.put(packet of segment id) and the way back: dropper 2 -> wire 2 *)
Definition deliver_data (lc : lcfg) (st : lstate) (id : Z) : lstate + lerr :=
  match pkt_get id (l_pkt st) with
  | None => inr (LNoPacket id)
  | Some (tm, _) =>
      let sk := sink_step true (l_sink st) (id, mss (lc_cfg lc)) in
      let idx := l_n2 st in
      let dropped := existsb (Nat.eqb idx) (lc_drop_ack lc) in
      let st1 := mkls (l_now st) (l_seq st) (l_agenda st) (l_snd st) sk (l_pkt st) (l_wd st) (l_wa st)
                      (l_n1 st) (S idx) (l_oracle st) (l_slog st) (l_d1 st)
                      (mkdlog idx id (nse sk) (l_now st) dropped :: l_d2 st) in
      if dropped then inl st1
      else inl (sched (set_wa st1 (mkwa (wa_items (l_wa st1) ++ [mkack (nse sk) id tm (l_now st)]) (wa_waiting (l_wa st1))))
                      (l_now st) 1 (AWirePutCb true))
  end.

(* wire2.out.put(ack) = sender.put(ack) *)
Definition deliver_ack (lc : lcfg) (st : lstate) (ackno pid : Z) (tm : Q) : lstate + lerr :=
  let o := hd 0%Q (l_oracle st) in
  let st1 := mkls (l_now st) (l_seq st) (l_agenda st) (l_snd st) (l_sink st) (l_pkt st) (l_wd st) (l_wa st)
                  (l_n1 st) (l_n2 st) (tl (l_oracle st)) (l_slog st) (l_d1 st) (l_d2 st) in
  sender_event lc st1 (EAck ackno pid (nq (l_now st - tm)) o).

Definition bind (x : lstate + lerr) (f : lstate -> lstate + lerr) : lstate + lerr :=
  match x with inl s => f s | inr e => inr e end.

(* one agenda entry *)
Definition handle (lc : lcfg) (st : lstate) (e : aev) : lstate + lerr :=
  let d := lc_delay lc in
  match e with
  | ASenderWake => sender_event lc st EWake
  | ASenderCb => sender_event lc st EStoreCb
  | ATimerInit id =>
      (* Timer.run: while env.now < expire_time: yield timeout(expire_time - now) *)
      match find (fun p => fst p =? id) (timers (l_snd st)) with
      | Some (_, r) => inl (sched st (l_now st + r)%Q 1 (ATimerFire id))
      | None => inl st
      end
  | ATimerFire id =>
      (* if not self.stopped: callback;  a stopped timer is no longer in self.timers *)
      if has_timer id (timers (l_snd st)) then sender_event lc st (EExpire id) else inl st
  | AWireInit false => inl (wd_get st)
  | AWireInit true => inl (wa_get st)
  | AWirePutCb false =>
      if wd_waiting (l_wd st) then inl (wd_get st) else inl st
  | AWirePutCb true =>
      if wa_waiting (l_wa st) then inl (wa_get st) else inl st
  | AWireGetD id =>
      match pkt_get id (l_pkt st) with
      | None => inr (LNoPacket id)
      | Some _ =>
          (* entered, packet = yield self.store.get(): queued_time = now - entered *)
          let queued := (l_now st - wd_entered (l_wd st))%Q in
          if Qltb queued d then inl (sched st (l_now st + (d - queued))%Q 1 (AWireOutD id))
          else bind (deliver_data lc st id) (fun st' => inl (wd_get st'))
      end
  | AWireOutD id => bind (deliver_data lc st id) (fun st' => inl (wd_get st'))
  | AWireGetA ackno pid tm ct =>
      let queued := (l_now st - ct)%Q in
      if Qltb queued d then inl (sched st (l_now st + (d - queued))%Q 1 (AWireOutA ackno pid tm ct))
      else bind (deliver_ack lc st ackno pid tm) (fun st' => inl (wa_get st'))
  | AWireOutA ackno pid tm ct => bind (deliver_ack lc st ackno pid tm) (fun st' => inl (wa_get st'))
  end.

Inductive lres :=
| LQuiescent (st : lstate)          (* the agenda is empty *)
| LStopped (st : lstate)            (* the next entry is due at or after t_max (env.run(until=t_max) returned) *)
| LFuel (st : lstate)
| LRaised (st : lstate) (e : lerr). (* state before the failing entry *)

Definition lstep (lc : lcfg) (st : lstate) : option (lstate + lerr) :=
  match l_agenda st with
  | [] => None
  | a :: rest =>
      Some (handle lc (mkls (ae_time a) (l_seq st) rest (l_snd st) (l_sink st) (l_pkt st) (l_wd st) (l_wa st)
                            (l_n1 st) (l_n2 st) (l_oracle st) (l_slog st) (l_d1 st) (l_d2 st)) (ae_ev a))
  end.

Fixpoint lrun (fuel : nat) (lc : lcfg) (st : lstate) : lres :=
  match fuel with
  | O => LFuel st
  | S f =>
      match l_agenda st with
      | [] => LQuiescent st
      | a :: _ =>
          if Qle_bool (lc_tmax lc) (ae_time a) then LStopped st
          else match lstep lc st with
               | None => LQuiescent st
               | Some (inl st') => lrun f lc st'
               | Some (inr e) => LRaised st e
               end
      end
  end.

(* the harness creates wire1, wire2, then the sender: three Initialize events at time 0 *)
Definition linit (cw ss rtt0 : Q) (oracle : list Q) : lstate :=
  mkls 0 3 [mkae 0 0 0 (AWireInit false); mkae 0 0 1 (AWireInit true); mkae 0 0 2 ASenderWake]
       (init cw ss rtt0) sink0 [] (mkwd [] [] 0 false) (mkwa [] false) O O oracle [] [] [].

Definition lfinal (r : lres) : lstate :=
  match r with LQuiescent s | LStopped s | LFuel s | LRaised s _ => s end.

(* ------------------------------------------------------------------------------------------------ *)
(* correspondence *)

Definition event_eqb (a b : event) : bool :=
  match a, b with
  | EAck x p s o, EAck y q t u => (x =? y) && (p =? q) && Qeq_bool s t && Qeq_bool o u
  | EExpire x, EExpire y => x =? y
  | EStoreCb, EStoreCb | EWake, EWake => true
  | _, _ => false
  end.

Definition slog_agree (m o : slog) : bool :=
  Qeq_bool (sl_time m) (sl_time o) && event_eqb (sl_ev m) (sl_ev o) && listZZ_eq (sl_tx m) (sl_tx o) &&
  state_close (sl_post m) (sl_post o).

Definition dlog_agree (m o : dlog) : bool :=
  Nat.eqb (dl_idx m) (dl_idx o) && (dl_id m =? dl_id o) && (dl_ack m =? dl_ack o) &&
  Qeq_bool (dl_time m) (dl_time o) && Bool.eqb (dl_dropped m) (dl_dropped o).

Fixpoint all2 {A : Type} (f : A -> A -> bool) (a b : list A) : bool :=
  match a, b with
  | [], [] => true
  | x :: a', y :: b' => f x y && all2 f a' b'
  | _, _ => false
  end.

Fixpoint first_diff {A : Type} (f : A -> A -> bool) (a b : list A) (k : nat) : option nat :=
  match a, b with
  | [], [] => None
  | x :: a', y :: b' => if f x y then first_diff f a' b' (S k) else Some k
  | _, _ => Some k
  end.

(* what the real run ended with: 0 quiescent, 1 stopped at t_max, 2 raised KeyError etc. *)
Definition end_agree (r : lres) (obs_end : Z) (obs_err : option err) : bool :=
  match r, obs_end with
  | LQuiescent _, 0 => true
  | LStopped _, 1 => true
  | LRaised _ (LSender e), 2 => match obs_err with Some e' => err_eqb e e' | None => false end
  | _, _ => false
  end.

Definition rangesZ_eq := listZZ_eq.

Definition loop_agree (r : lres) (osl : list slog) (od1 od2 : list dlog) (obs_end : Z) (obs_err : option err)
           (obuf : list (Z * Z)) : bool :=
  let st := lfinal r in
  end_agree r obs_end obs_err &&
  all2 dlog_agree (rev (l_d1 st)) od1 && all2 dlog_agree (rev (l_d2 st)) od2 &&
  (match obs_end with
   | 2 => all2 slog_agree (rev (l_slog st)) (removelast osl)     (* the raising event has no model post-state *)
   | _ => all2 slog_agree (rev (l_slog st)) osl
   end) &&
  rangesZ_eq (buf (l_sink st)) obuf.
