(* Witness terms for the non-vacuity statements of Props/C16_Examples.v: concrete configurations and
   executions of the closed loop (Tcp/Loop.v) and of the sender alone (Tcp/Sender.v) on which the
   hypotheses of the C16 theorems hold together, and the small tool that turns a computed run into the
   inductive [lsteps]/[lreach] the theorems are stated with. *)
From Coq Require Import ZArith QArith List.
From ONL Require Import Tcp.Sink Tcp.Sender Tcp.SenderProofs Tcp.Loop Tcp.LoopProofs Tcp.LoopLive.
From ONL Require Export Tcp.SenderExamples.
Import ListNotations.
Open Scope Z_scope.

(* k agenda steps, computed; None when the agenda runs empty or a step raises before k steps are done *)
Fixpoint lstepsf (k : nat) (lc : lcfg) (st : lstate) : option lstate :=
  match k with
  | O => Some st
  | S k' => match lstepsf k' lc st with
            | Some st1 => match lstep lc st1 with Some (inl st2) => Some st2 | _ => None end
            | None => None
            end
  end.

Lemma lstepsf_lsteps lc : forall k st st', lstepsf k lc st = Some st' -> lsteps lc k st st'.
Proof.
  induction k as [|k IH]; intros st st' H; cbn [lstepsf] in H.
  - injection H as <-. constructor.
  - destruct (lstepsf k lc st) as [st1|] eqn:E1; [|discriminate].
    destruct (lstep lc st1) as [[st2|e]|] eqn:E2; try discriminate.
    injection H as <-. econstructor; [apply IH; exact E1|exact E2].
Qed.

Lemma lstepsf_reach lc k st st' : lstepsf k lc st = Some st' -> lreach lc st st'.
Proof. intros H. eapply lsteps_reach. apply lstepsf_lsteps. exact H. Qed.

(* ---- the sink alone: corpus/C16/sink-dup-after-merge.json and sink-first-missing.json combined and extended:
   first segment missing at first, reordering, a duplicate after a merge, a gap closed late ---- *)
Definition segsW : list (Z * Z) := [(512, 512); (1024, 512); (0, 512); (512, 512); (2048, 512); (1536, 512)].

(* the sender alone: cS, sS0, hS2, hS, hSbad, sender_after are in Tcp/SenderExamples.v (shared with C17) *)

(* ---- the closed loop with losses: 8 segments of 512 bytes, window 4 MSS, one-way delay 1/4, rtt_estimate 1/2;
   data transmissions 1 and 6 (segment 512, twice) and ACK transmission 2 are dropped.
   The run: 120 agenda steps, 22 data transmissions, 20 ACKs, 7 timer expiries, a fast retransmit (dupack up to 7),
   quiescent at t = 17 with last_ack = 4096. ---- *)
Definition lcW : lcfg := mklcfg repaired (mkcfg 512 4096 Reno) (1 # 4) [1; 6]%nat [2]%nat (1048576 # 1).
Definition stW0 : lstate := linit (2048 # 1) (65535 # 1) (1 # 2) [].
Definition stW (k : nat) : lstate := match lstepsf k lcW stW0 with Some s => s | None => stW0 end.

(* ---- the same flow over a loss-free path: delay 1/4 < rtt_estimate 1 <> 2 * 1/4 ---- *)
Definition lcF : lcfg := mklcfg repaired (mkcfg 512 4096 Reno) (1 # 4) [] [] (1048576 # 1).
Definition stF0 : lstate := linit (2048 # 1) (65535 # 1) (1 # 1) [].
Definition stF (k : nat) : lstate := match lstepsf k lcF stF0 with Some s => s | None => stF0 end.
