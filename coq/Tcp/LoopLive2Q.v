(* C16 liveness, continued.  Part 11: the potential that bounds the number of timer expiries.
     lgz(rto)   doublings still needed until rto >= Theta (an expiry below Theta is paid by its doubling);
     epoch part with X = last_ack: while no X-item is in flight, every armed timer without a
                witness (and every segment not yet sent) counts, plus the two duplicate ACKs that may
                still arrive before fast retransmit; once an X-item is in flight, every timer that
                is not locked behind it counts;
     Total    = that + PsiMax * (bytes not yet acknowledged + drop indices not yet consumed).
   Every agenda step keeps Total, every timer expiry lowers it by at least one. *)
From Coq Require Import ZArith QArith Qabs Qround Qminmax List Bool Lia Lqa Arith.
From ONL Require Import Tcp.Sink Tcp.SinkProofs Tcp.Sender Tcp.SenderProofs Tcp.Loop Tcp.LoopProofs Tcp.LoopLive
  Tcp.LoopLossfree Tcp.LoopLive2 Tcp.LoopLive2T Tcp.LoopLive2P.
Import ListNotations.
Open Scope Z_scope.

(* ---- doublings needed to reach Theta ---- *)
Section Lg.
Variable Theta : Q.
Definition lgz (r : Q) : Z := Z.log2_up (Qceiling (Theta / r)).

Lemma lgz_nonneg r : 0 <= lgz r.
Proof. apply Z.log2_up_nonneg. Qed.

Lemma lgz_eq r r' : (r == r')%Q -> lgz r = lgz r'.
Proof. intros H. unfold lgz. rewrite H. reflexivity. Qed.

Lemma Qceiling_le_Z x z : (x <= inject_Z z)%Q -> Qceiling x <= z.
Proof.
  intros H. pose proof (Qceiling_lt x) as L. assert (inject_Z (Qceiling x - 1) < inject_Z z)%Q by lra.
  rewrite <- Zlt_Qlt in H0. lia.
Qed.

Lemma lgz_le r k : (0 < r)%Q -> 0 <= k -> (Theta <= r * inject_Z (2 ^ k))%Q -> lgz r <= k.
Proof.
  intros Hr Hk H. unfold lgz.
  assert (Hx : (Theta / r <= inject_Z (2 ^ k))%Q).
  { apply Qle_shift_div_r; [exact Hr|]. lra. }
  apply Qceiling_le_Z in Hx.
  destruct (Z_le_gt_dec (Qceiling (Theta / r)) 0) as [H0|H0].
  - rewrite Z.log2_up_nonpos by exact H0. exact Hk.
  - apply Z.log2_up_le_pow2; [lia|exact Hx].
Qed.

Lemma lgz_spec r : (0 < r)%Q -> (Theta <= r * inject_Z (2 ^ lgz r))%Q.
Proof.
  intros Hr. unfold lgz. set (c := Qceiling (Theta / r)).
  assert (Hc : (Theta / r <= inject_Z c)%Q) by apply Qle_ceiling.
  assert (Hp : c <= 2 ^ Z.log2_up c).
  { destruct (Z_le_gt_dec c 0) as [H0|H0].
    - rewrite Z.log2_up_nonpos by exact H0. rewrite Z.pow_0_r. lia.
    - apply Z.log2_up_le_pow2; lia. }
  assert (Hq : (inject_Z c <= inject_Z (2 ^ Z.log2_up c))%Q) by (rewrite <- Zle_Qle; exact Hp).
  assert (Ht : (Theta == (Theta / r) * r)%Q) by (field; lra).
  rewrite Ht. nra.
Qed.

(* below Theta, a doubling saves one *)
Lemma lgz_double r : (0 < r)%Q -> (r < Theta)%Q -> lgz (r * (2 # 1)) <= lgz r - 1.
Proof.
  intros Hr Hlt. pose proof (lgz_spec r Hr) as Hs. pose proof (lgz_nonneg r) as H0.
  remember (lgz r) as k eqn:Ek.
  assert (H1 : 1 <= k).
  { destruct (Z_le_gt_dec 1 k) as [H|H]; [exact H|]. exfalso. assert (k = 0) by lia. subst k. rewrite H1 in Hs.
    rewrite Z.pow_0_r in Hs. change (inject_Z 1) with 1%Q in Hs. lra. }
  apply lgz_le; [lra|lia|].
  replace k with (k - 1 + 1) in Hs by lia. rewrite Z.pow_add_r in Hs by lia. rewrite inject_Z_mult in Hs.
  change (inject_Z (2 ^ 1)) with (2 # 1)%Q in Hs. lra.
Qed.

Lemma lgz_mono r r' : (0 < r)%Q -> (r <= r')%Q -> lgz r' <= lgz r.
Proof.
  intros Hr Hle. apply lgz_le; [lra|apply lgz_nonneg|]. pose proof (lgz_spec r Hr) as Hs.
  assert (0 <= inject_Z (2 ^ lgz r))%Q.
  { change 0%Q with (inject_Z 0). rewrite <- Zle_Qle. apply Z.pow_nonneg. lia. }
  nra.
Qed.

Lemma lgz_zero r : (0 < r)%Q -> (Theta <= r)%Q -> lgz r = 0.
Proof.
  intros Hr H. apply Z.le_antisymm; [|apply lgz_nonneg]. apply lgz_le; [exact Hr|lia|].
  rewrite Z.pow_0_r. change (inject_Z 1) with 1%Q. lra.
Qed.
End Lg.

(* ---- drop indices not yet consumed ---- *)
Definition dropsAfter (n : nat) (l : list nat) : nat := length (filter (fun k => (n <=? k)%nat) l).

Lemma dropsAfter_mono n n' l : (n <= n')%nat -> (dropsAfter n' l <= dropsAfter n l)%nat.
Proof.
  intros H. unfold dropsAfter. induction l as [|k l IH]; cbn [filter]; [lia|].
  destruct (n' <=? k)%nat eqn:E1; destruct (n <=? k)%nat eqn:E2; cbn [length]; try lia.
  apply Nat.leb_le in E1. apply Nat.leb_gt in E2. lia.
Qed.

Lemma dropsAfter_S n l : existsb (Nat.eqb n) l = true -> (dropsAfter (S n) l < dropsAfter n l)%nat.
Proof.
  unfold dropsAfter. induction l as [|k l IH]; cbn [existsb filter]; [discriminate|].
  intros H. apply orb_true_iff in H as [H|H].
  - apply Nat.eqb_eq in H. subst k. rewrite Nat.leb_refl. replace (S n <=? n)%nat with false by (symmetry; apply Nat.leb_gt; lia).
    cbn [length]. pose proof (dropsAfter_mono n (S n) l ltac:(lia)) as M. unfold dropsAfter in M. lia.
  - specialize (IH H). destruct (S n <=? k)%nat eqn:E1; destruct (n <=? k)%nat eqn:E2; cbn [length]; try lia.
    apply Nat.leb_le in E1. apply Nat.leb_gt in E2. lia.
Qed.

(* the ids a sender event hands to the data path *)
Lemma oeff_nodrop lc tau : forall o n1 nw kp k, oeff lc tau n1 o = (nw, kp, k) ->
  (dropsAfter (n1 + k) (lc_drop_data lc) < dropsAfter n1 (lc_drop_data lc))%nat \/ kp = tx_ids o.
Proof.
  induction o as [|x o IH]; intros n1 nw kp k; cbn [oeff tx_ids flat_map].
  - intros E; injection E as <- <- <-. right. reflexivity.
  - destruct x as [id z|id r|id|id r]; cbn [app].
    + destruct (oeff lc tau (S n1) o) as [[nw1 kp1] k1] eqn:E1. destruct (IH _ _ _ _ E1) as [A|A].
      * intros E. left. assert (k = S k1) by (destruct (droppedD lc n1); injection E as _ _ <-; reflexivity). subst k.
        replace (n1 + S k1)%nat with (S n1 + k1)%nat by lia.
        pose proof (dropsAfter_mono n1 (S n1) (lc_drop_data lc) ltac:(lia)). lia.
      * destruct (droppedD lc n1) eqn:Ed; intros E; injection E as <- <- <-.
        -- left. replace (n1 + S k1)%nat with (S n1 + k1)%nat by lia.
           pose proof (dropsAfter_S n1 (lc_drop_data lc) Ed). pose proof (dropsAfter_mono (S n1) (S n1 + k1) (lc_drop_data lc) ltac:(lia)). lia.
        -- right. rewrite A. reflexivity.
    + destruct (oeff lc tau n1 o) as [[nw1 kp1] k1] eqn:E1. intros E; injection E as <- <- <-. eapply IH; eauto.
    + apply IH.
    + destruct (oeff lc tau n1 o) as [[nw1 kp1] k1] eqn:E1. intros E; injection E as <- <- <-. eapply IH; eauto.
Qed.

Lemma acount_ge1 p l b : In b l -> p (ae_ev b) = true -> (1 <= acount p l)%nat.
Proof.
  intros Hb Hp. unfold acount. apply in_split in Hb as (l1 & l2 & ->). rewrite filter_app, app_length. cbn [filter]. rewrite Hp. cbn [length]. lia.
Qed.

(* ---- at most as many armed timers as bytes sent ---- *)
Lemma NoDup_range_length (l : list Z) n : NoDup l -> Forall (fun x => 0 <= x < n) l -> Z.of_nat (length l) <= Z.max 0 n.
Proof.
  intros Hnd Hr.
  assert (Hinc : incl (map Z.to_nat l) (seq 0 (Z.to_nat n))).
  { intros k Hk. apply in_map_iff in Hk as (x & <- & Hx). rewrite Forall_forall in Hr. specialize (Hr x Hx). apply in_seq. lia. }
  assert (Hnd' : NoDup (map Z.to_nat l)).
  { clear Hinc. induction Hnd as [|x l Hx Hl IH]; cbn [map]; constructor.
    - intros Hin. apply in_map_iff in Hin as (y & Ey & Hy). inversion Hr as [|? ? Hx0 Hr']; subst. rewrite Forall_forall in Hr'.
      specialize (Hr' y Hy). assert (y = x) by lia. subst y. contradiction.
    - apply IH. inversion Hr; assumption. }
  pose proof (NoDup_incl_length Hnd' Hinc) as H. rewrite map_length, seq_length in H. lia.
Qed.

(* ---- assumed here, proved in LoopLive2U: one kernel event per armed timer; ids unacknowledged ---- *)
Definition is_timer (id : Z) (e : aev) : bool :=
  match e with ATimerInit j | ATimerFire j => j =? id | _ => false end.

Record LInvU (lc : lcfg) (st : lstate) : Prop := {
  u_uniq : forall id, In id (keys (timers (l_snd st))) -> acount (is_timer id) (l_agenda st) = 1%nat;
  u_la_sent : last_ack (l_snd st) < next_seq (l_snd st) -> In (last_ack (l_snd st)) (sent (l_snd st));
  u_all_acked : last_ack (l_snd st) = next_seq (l_snd st) -> timers (l_snd st) = []
}.

Section Pot3.
Variable lc : lcfg.
Variable Theta : Q.
Variable LG : Z.
Local Notation d := (lc_delay lc).
Local Notation SZ := (fsize (lc_cfg lc)).
Local Notation m := (mss (lc_cfg lc)).

Definition unsent (s : sender) : Z := SZ - next_seq s.
Definition dupt (s : sender) : Z := 2 - Z.min (dupack s) 2.

Definition Psi (st : lstate) : Z :=
  let s := l_snd st in
  let ks := keys (timers s) in
  lgz Theta (rto s) +
  (if zmode lc st then cntnot (statL lc st) ks + unsent s
   else SZ + cntnot (statP lc st) ks + unsent s + dupt s).

Definition PsiMax : Z := LG + 3 * SZ + 3.
Definition dropsRem (st : lstate) : Z :=
  Z.of_nat (dropsAfter (l_n1 st) (lc_drop_data lc) + dropsAfter (l_n2 st) (lc_drop_ack lc)).
Definition Total (st : lstate) : Z := Psi st + PsiMax * ((SZ - last_ack (l_snd st)) + dropsRem st).

(* what the step lemma needs of a state *)
Record Good (st : lstate) : Prop := {
  g_A : LInvA lc st None;
  g_B : LInvB lc st None;
  g_W : LInvW lc st;
  g_U : LInvU lc st;
  g_ns : next_seq (l_snd st) <= SZ;
  g_la : 0 <= last_ack (l_snd st);
  g_lg : lgz Theta (rto (l_snd st)) <= LG;
  g_q : ((nlen (wd_items (l_wd st)) + 3) * d <= Theta)%Q
}.

Lemma good_keys_len st : 0 < m -> Good st -> Z.of_nat (length (keys (timers (l_snd st)))) <= next_seq (l_snd st).
Proof.
  intros Hm G. pose proof (la_sinv _ _ _ (g_A _ G)) as I. pose proof (g_B _ G) as HB.
  rewrite (si_keys _ _ I).
  pose proof (NoDup_range_length (sent (l_snd st)) (next_seq (l_snd st)) (si_nodup _ _ I)) as H.
  assert (Hr : Forall (fun x => 0 <= x < next_seq (l_snd st)) (sent (l_snd st))).
  { eapply Forall_impl; [|exact (lb_sent _ _ _ HB)]. intros i [A B]. lia. }
  specialize (H Hr). pose proof (lb_ns _ _ _ HB). lia.
Qed.

Lemma Psi_z_le st : 0 < m -> Good st -> zmode lc st = true -> Psi st <= lgz Theta (rto (l_snd st)) + SZ.
Proof.
  intros Hm G Hz. unfold Psi. rewrite Hz. pose proof (good_keys_len st Hm G) as Hk.
  pose proof (cntnot_le_len (statL lc st) (keys (timers (l_snd st)))). unfold unsent. lia.
Qed.

Lemma Psi_nz_ge st : Good st -> zmode lc st = false ->
  lgz Theta (rto (l_snd st)) + SZ + cntnot (statP lc st) (keys (timers (l_snd st))) <= Psi st.
Proof.
  intros G Hz. unfold Psi. rewrite Hz. pose proof (g_ns _ G). unfold unsent, dupt.
  assert (0 <= dupack (l_snd st)) by apply (si_win _ _ (la_sinv _ _ _ (g_A _ G))). lia.
Qed.

Lemma Psi_bounds st : 0 < m -> Good st -> 0 <= Psi st <= PsiMax - 1.
Proof.
  intros Hm G. pose proof (good_keys_len st Hm G) as Hk. pose proof (g_ns _ G) as Hns. pose proof (lb_ns _ _ _ (g_B _ G)) as H0.
  pose proof (lgz_nonneg Theta (rto (l_snd st))) as Hl. pose proof (g_lg _ G) as Hl2.
  assert (Hdp : 0 <= dupack (l_snd st)) by apply (si_win _ _ (la_sinv _ _ _ (g_A _ G))).
  unfold Psi, PsiMax, unsent, dupt. set (ks := keys (timers (l_snd st))) in *.
  pose proof (cntnot_le_len (statL lc st) ks). pose proof (cntnot_le_len (statP lc st) ks).
  pose proof (cntnot_nonneg (statL lc st) ks). pose proof (cntnot_nonneg (statP lc st) ks).
  destruct (zmode lc st); lia.
Qed.

(* a new ACK or a consumed drop index pays for a whole epoch *)
Lemma Total_phase st st' :
  0 < m -> Good st -> Good st' ->
  last_ack (l_snd st) <= last_ack (l_snd st') -> dropsRem st' <= dropsRem st ->
  (last_ack (l_snd st) < last_ack (l_snd st') \/ dropsRem st' < dropsRem st) ->
  Total st' + 1 <= Total st.
Proof.
  intros Hm G G' Hla Hdr Hph. pose proof (Psi_bounds st Hm G). pose proof (Psi_bounds st' Hm G').
  assert (0 <= PsiMax) by lia. unfold Total. nia.
Qed.

Lemma cntnot_pos f ks i : In i ks -> f i = false -> 1 <= cntnot f ks.
Proof.
  intros Hin Hf. unfold cntnot. apply in_split in Hin as (l1 & l2 & ->). rewrite filter_app, app_length. cbn [filter]. rewrite Hf.
  cbn [negb length]. lia.
Qed.

Hypothesis Hd : (0 <= d)%Q.

(* ---- a timer with a witness or behind an X-item cannot fire ---- *)
Lemma hall_of_A st a rest : LInvA lc st None -> l_agenda st = a :: rest ->
  (l_now st <= ae_time a)%Q /\ forall b, In b (l_agenda st) -> (ae_time a <= ae_time b)%Q.
Proof.
  intros HA E. destruct (la_T _ _ _ HA) as [Ts Tf _ _ _ _ _]. rewrite E in Ts, Tf. split; [inversion Tf; assumption|].
  intros b Hb. rewrite E in Hb. destruct Hb as [<-|Hb]; [apply Qle_refl|eapply asorted_head; eauto].
Qed.

Lemma nofire st a rest id :
  Good st -> l_agenda st = a :: rest -> ae_ev a = ATimerFire id -> In id (keys (timers (l_snd st))) ->
  statP lc st id = false /\ statL lc st id = false.
Proof.
  intros G E Ea Hk. destruct (hall_of_A st a rest (g_A _ G) E) as [Hn Hall].
  assert (Only : forall t, In (id, t) (fires (l_agenda st)) -> t = ae_time a).
  { intros t Hin. rewrite E in Hin. apply fires_cons in Hin as [[_ Ht]|Hin]; [symmetry; exact Ht|]. exfalso.
    apply In_fires in Hin as (b & Hb & Eb & _).
    pose proof (u_uniq _ _ (g_U _ G) id Hk) as Hu. rewrite E, acount_cons in Hu.
    assert (1 <= acount (is_timer id) rest)%nat by (eapply acount_ge1; [exact Hb|rewrite Eb; cbn; apply Z.eqb_refl]).
    rewrite Ea in Hu. cbn [is_timer] in Hu. rewrite Z.eqb_refl in Hu. cbn [b2n] in Hu. lia. }
  assert (NoItem : forall x, In x (pipe lc st) -> Qltb (snd x) (ae_time a) = false).
  { intros x Hx. apply Qltb_false. eapply pipe_lo; eauto. apply (g_W _ G). }
  split.
  - destruct (statP lc st id) eqn:Es; [|reflexivity]. exfalso. unfold statP in Es.
    apply existsb_exists in Es as ([j t] & Hin & Hc). cbn [fst snd] in Hc. apply andb_true_iff in Hc as [C1 C2]. apply Z.eqb_eq in C1. subst j.
    rewrite (Only t Hin) in C2. unfold hasW in C2. apply existsb_exists in C2 as (x & Hx & Hc). apply andb_true_iff in Hc as [_ Hc].
    rewrite (NoItem x Hx) in Hc. discriminate.
  - destruct (statL lc st id) eqn:Es; [|reflexivity]. exfalso. unfold statL in Es.
    apply existsb_exists in Es as ([j t] & Hin & Hc). cbn [fst snd] in Hc. apply andb_true_iff in Hc as [C1 C2]. apply Z.eqb_eq in C1. subst j.
    rewrite (Only t Hin) in C2. unfold hasX in C2. apply existsb_exists in C2 as (x & Hx & Hc). apply andb_true_iff in Hc as [_ Hc].
    rewrite (NoItem x Hx) in Hc. discriminate.
Qed.

(* ---- everything in flight is due before a deadline that is far enough ---- *)
Lemma all_before st D x :
  Good st -> (l_now st + (nlen (wd_items (l_wd st)) + 2) * d < D)%Q -> In x (pipe lc st) -> Qltb (snd x) D = true.
Proof. intros G HD Hx. apply Qltb_true. pose proof (pipe_hi lc Hd st x (g_W _ G) Hx). lra. Qed.

Lemma tail_in b items id : exists td, In (ID id, td) (qD_items lc b (items ++ [id])).
Proof. rewrite qD_app. cbn [qD_items]. eexists. apply in_or_app. right. left. reflexivity. Qed.

Lemma new_item_in st id items : wd_items (l_wd st) = items ++ [id] -> exists td, In (ID id, td) (pipe lc st).
Proof.
  intros E. destruct (tail_in (base lc (l_now st) (l_agenda st)) items id) as (td & H). exists td.
  unfold pipe. rewrite E. apply in_or_app; right. apply in_or_app; right. apply in_or_app; right. exact H.
Qed.

Lemma new_fire_in rest ag' news t id : AddsT rest ag' news -> In (t, ATimerFire id) news -> In (id, t) (fires ag').
Proof.
  intros HA Hin. apply (fm_AddsT_In fire1 _ _ _ _ HA). right. exists (t, ATimerFire id). split; [exact Hin|left; reflexivity].
Qed.

Lemma statP_intro st i D x : In (i, D) (fires (l_agenda st)) -> In x (pipe lc st) -> isW i (fst x) = true -> Qltb (snd x) D = true ->
  statP lc st i = true.
Proof.
  intros Hf Hx Hw Hlt. unfold statP. apply existsb_exists. exists (i, D). split; [exact Hf|]. cbn [fst snd]. rewrite Z.eqb_refl. cbn [andb].
  unfold hasW. apply existsb_exists. exists x. split; [exact Hx|]. rewrite Hw, Hlt. reflexivity.
Qed.

Lemma statL_intro st i D x : In (i, D) (fires (l_agenda st)) -> In x (pipe lc st) -> isX (last_ack (l_snd st)) (fst x) = true -> Qltb (snd x) D = true ->
  statL lc st i = true.
Proof.
  intros Hf Hx Hw Hlt. unfold statL. apply existsb_exists. exists (i, D). split; [exact Hf|]. cbn [fst snd]. rewrite Z.eqb_refl. cbn [andb].
  unfold hasX. apply existsb_exists. exists x. split; [exact Hx|]. rewrite Hw, Hlt. reflexivity.
Qed.

Lemma zmode_intro st x : In x (pipe lc st) -> isX (last_ack (l_snd st)) (fst x) = true -> zmode lc st = true.
Proof. intros Hx Hw. unfold zmode. apply existsb_exists. exists x. split; assumption. Qed.

Lemma zmode_elim st : zmode lc st = true -> exists x, In x (pipe lc st) /\ isX (last_ack (l_snd st)) (fst x) = true.
Proof. unfold zmode. intros H. apply existsb_exists in H. exact H. Qed.

Hypothesis Hm : 0 < m.

(* comparing the potential before and after a step within an epoch *)
Lemma Psi_cmp st st' (c cl cz cf : Z) :
  Good st -> Good st' ->
  lgz Theta (rto (l_snd st')) + cl <= lgz Theta (rto (l_snd st)) ->
  (zmode lc st = true -> zmode lc st' = true) ->
  (zmode lc st = true ->
   cntnot (statL lc st') (keys (timers (l_snd st'))) + unsent (l_snd st') + cz <=
   cntnot (statL lc st) (keys (timers (l_snd st))) + unsent (l_snd st)) ->
  (zmode lc st' = false ->
   cntnot (statP lc st') (keys (timers (l_snd st'))) + unsent (l_snd st') + dupt (l_snd st') + cz <=
   cntnot (statP lc st) (keys (timers (l_snd st))) + unsent (l_snd st) + dupt (l_snd st)) ->
  (zmode lc st = false -> zmode lc st' = true -> cf <= cntnot (statP lc st) (keys (timers (l_snd st)))) ->
  c <= cl + cz -> c <= cl + cf -> Psi st' + c <= Psi st.
Proof.
  intros G G' Hl Hz HL HP HF C1 C2.
  destruct (zmode lc st) eqn:Ez; destruct (zmode lc st') eqn:Ez'.
  - specialize (HL eq_refl). unfold Psi. rewrite Ez, Ez'. lia.
  - specialize (Hz eq_refl). discriminate.
  - pose proof (Psi_z_le st' Hm G' Ez'). pose proof (Psi_nz_ge st G Ez). specialize (HF eq_refl eq_refl). lia.
  - specialize (HP eq_refl). unfold Psi. rewrite Ez, Ez'. lia.
Qed.

(* a step that leaves the sender alone *)
Lemma Psi_quiet st st' :
  Good st -> Good st' -> l_snd st' = l_snd st ->
  (forall i, In i (keys (timers (l_snd st))) -> statP lc st i = true -> statP lc st' i = true) ->
  (forall i, In i (keys (timers (l_snd st))) -> statL lc st i = true -> statL lc st' i = true) ->
  (zmode lc st = true -> zmode lc st' = true) -> Psi st' <= Psi st.
Proof.
  intros G G' Es HP HL Hz. assert (Psi st' + 0 <= Psi st); [|lia].
  apply (Psi_cmp st st' 0 0 0 0 G G'); rewrite ?Es; try lia; try exact Hz.
  - intros _. pose proof (cntnot_mono _ _ _ HL). lia.
  - intros _. pose proof (cntnot_mono _ _ _ HP). lia.
  - intros _ _. apply cntnot_nonneg.
Qed.

(* statuses through one agenda step that delivers no ACK to the dropper's victims *)
Lemma stat_mono_step st a rest st' :
  Good st -> l_agenda st = a :: rest -> Tr lc st a rest st' ->
  last_ack (l_snd st') = last_ack (l_snd st) -> (droppedA lc (l_n2 st) = false \/ l_n2 st' = l_n2 st) ->
  (forall i, ae_ev a <> ATimerFire i -> (forall x, consumed lc st a x -> isW i (fst x) = false) ->
             statP lc st i = true -> statP lc st' i = true) /\
  (forall i, ae_ev a <> ATimerFire i -> (forall x, consumed lc st a x -> isX (last_ack (l_snd st)) (fst x) = false) ->
             statL lc st i = true -> statL lc st' i = true) /\
  ((forall x, consumed lc st a x -> isX (last_ack (l_snd st)) (fst x) = false) -> zmode lc st = true -> zmode lc st' = true).
Proof.
  intros G E HT HX Hnd. destruct (hall_of_A st a rest (g_A _ G) E) as [Hn Hall].
  pose proof (step_Pres lc Hd st a rest st' Hm (g_B _ G) (g_W _ G) E Hn Hall HT Hnd) as HP.
  split; [|split].
  - intros i Hne Hex Hs. eapply statP_mono; eauto. eapply fires_keep_step; eauto.
  - intros i Hne Hex Hs. eapply statL_mono; eauto. eapply fires_keep_step; eauto.
  - intros Hex Hs. eapply zmode_mono; eauto.
Qed.

Lemma not_consumed st a x : (forall e, ~ ev_sender lc st (ae_time a) (ae_ev a) e true) -> ~ consumed lc st a x.
Proof. intros H [(e & He) _]. exact (H e He). Qed.

(* a step that is not a sender event *)
Lemma Psi_step_quiet st a rest st' :
  Good st -> Good st' -> l_agenda st = a :: rest -> Tr lc st a rest st' -> l_snd st' = l_snd st ->
  (droppedA lc (l_n2 st) = false \/ l_n2 st' = l_n2 st) ->
  (forall e, ~ ev_sender lc st (ae_time a) (ae_ev a) e true) ->
  (forall i, In i (keys (timers (l_snd st))) -> ae_ev a <> ATimerFire i) ->
  Psi st' <= Psi st.
Proof.
  intros G G' E HT Es Hnd Hns Hnf.
  destruct (stat_mono_step st a rest st' G E HT ltac:(rewrite Es; reflexivity) Hnd) as (MP & ML & MZ).
  apply Psi_quiet; auto.
  - intros i Hi. apply MP; [apply Hnf; exact Hi|]. intros x Hx. exfalso. eapply not_consumed; eauto.
  - intros i Hi. apply ML; [apply Hnf; exact Hi|]. intros x Hx. exfalso. eapply not_consumed; eauto.
  - apply MZ. intros x Hx. exfalso. eapply not_consumed; eauto.
Qed.

(* ---- sender events ---- *)
Lemma no_consume_plain st a : (ae_ev a = ASenderWake \/ ae_ev a = ASenderCb \/ exists id, ae_ev a = ATimerFire id) ->
  forall e, ~ ev_sender lc st (ae_time a) (ae_ev a) e true.
Proof. intros H e He. inversion He; subst; destruct H as [H|[H|(id & H)]]; congruence. Qed.

Lemma lgz_norm s' : lgz Theta (rto (norm_sender s')) = lgz Theta (rto s').
Proof. apply lgz_eq. unfold norm_sender; proj. apply nq_eq. Qed.

Lemma seg_ids_length mm id n : length (seg_ids mm id n) = n.
Proof. revert id. induction n as [|n IH]; intros id; cbn [seg_ids length]; [reflexivity|]. rewrite IH. reflexivity. Qed.

Lemma Psi_wake st a rest st' s' o :
  Good st -> Good st' -> l_agenda st = a :: rest -> Tr lc st a rest st' ->
  ae_ev a = ASenderWake -> step repaired (lc_cfg lc) (l_snd st) EWake = Ok s' o -> l_snd st' = norm_sender s' ->
  l_n2 st' = l_n2 st -> Psi st' <= Psi st.
Proof.
  intros G G' E HT Ea Hstep Hsnd Hn2. cbn [step] in Hstep.
  apply send_guard in Hstep; [|exact Hm]. destruct Hstep as (n & _ & Hns & Ht & _ & _ & Hla & Hdup & _ & _ & _ & _ & Hrto & _). proj.
  assert (HX : last_ack (l_snd st') = last_ack (l_snd st)) by (rewrite Hsnd; exact Hla).
  destruct (stat_mono_step st a rest st' G E HT HX (or_intror Hn2)) as (MP & ML & MZ).
  assert (NC : forall x, ~ consumed lc st a x) by (intros x; apply not_consumed; apply no_consume_plain; auto).
  assert (NF : forall i, ae_ev a <> ATimerFire i) by (intros i; rewrite Ea; discriminate).
  assert (Ek : keys (timers (l_snd st')) = keys (timers (l_snd st)) ++ seg_ids m (next_seq (l_snd st)) n).
  { rewrite Hsnd. change (timers (norm_sender s')) with (map (fun p : Z * Q => (fst p, nq (snd p))) (timers s')).
    rewrite keys_norm, Ht, keys_app, keys_map_pair. reflexivity. }
  assert (Eu : unsent (l_snd st') + Z.of_nat n <= unsent (l_snd st)).
  { unfold unsent. rewrite Hsnd. change (next_seq (norm_sender s')) with (next_seq s'). rewrite Hns. nia. }
  assert (Ed : dupt (l_snd st') = dupt (l_snd st)) by (unfold dupt; rewrite Hsnd; change (dupack (norm_sender s')) with (dupack s'); rewrite Hdup; reflexivity).
  assert (Hnew : forall f, cntnot f (seg_ids m (next_seq (l_snd st)) n) <= Z.of_nat n).
  { intros f. pose proof (cntnot_le_len f (seg_ids m (next_seq (l_snd st)) n)). rewrite seg_ids_length in H. exact H. }
  assert (Psi st' + 0 <= Psi st); [|lia].
  apply (Psi_cmp st st' 0 0 0 0 G G'); try lia.
  - rewrite Hsnd, lgz_norm, Hrto. lia.
  - apply MZ. intros x Hx. destruct (NC x Hx).
  - intros _. rewrite Ek, cntnot_app. pose proof (Hnew (statL lc st')).
    assert (cntnot (statL lc st') (keys (timers (l_snd st))) <= cntnot (statL lc st) (keys (timers (l_snd st)))).
    { apply cntnot_mono. intros i _. apply ML; [apply NF|]. intros x Hx. destruct (NC x Hx). }
    lia.
  - intros _. rewrite Ek, cntnot_app, Ed. pose proof (Hnew (statP lc st')).
    assert (cntnot (statP lc st') (keys (timers (l_snd st))) <= cntnot (statP lc st) (keys (timers (l_snd st)))).
    { apply cntnot_mono. intros i _. apply MP; [apply NF|]. intros x Hx. destruct (NC x Hx). }
    lia.
  - intros _ _. apply cntnot_nonneg.
Qed.

Lemma Psi_cb st a rest st' s' o :
  Good st -> Good st' -> l_agenda st = a :: rest -> Tr lc st a rest st' ->
  ae_ev a = ASenderCb -> step repaired (lc_cfg lc) (l_snd st) EStoreCb = Ok s' o -> l_snd st' = norm_sender s' ->
  l_n2 st' = l_n2 st -> Psi st' <= Psi st.
Proof.
  intros G G' E HT Ea Hstep Hsnd Hn2. cbn [step] in Hstep.
  assert (F : timers s' = timers (l_snd st) /\ next_seq s' = next_seq (l_snd st) /\ last_ack s' = last_ack (l_snd st) /\
              dupack s' = dupack (l_snd st) /\ rto s' = rto (l_snd st)).
  { apply on_storecb_shape in Hstep as (_ & p & _ & [(_ & _ & ->)|(_ & ->)]); proj; repeat split; reflexivity. }
  destruct F as (Ft & Fn & Fl & Fd & Fr).
  assert (HX : last_ack (l_snd st') = last_ack (l_snd st)) by (rewrite Hsnd; exact Fl).
  destruct (stat_mono_step st a rest st' G E HT HX (or_intror Hn2)) as (MP & ML & MZ).
  assert (NC : forall x, ~ consumed lc st a x) by (intros x; apply not_consumed; apply no_consume_plain; auto).
  assert (NF : forall i, ae_ev a <> ATimerFire i) by (intros i; rewrite Ea; discriminate).
  assert (Ek : keys (timers (l_snd st')) = keys (timers (l_snd st))).
  { rewrite Hsnd. change (timers (norm_sender s')) with (map (fun p : Z * Q => (fst p, nq (snd p))) (timers s')). rewrite keys_norm, Ft. reflexivity. }
  assert (Eu : unsent (l_snd st') = unsent (l_snd st)) by (unfold unsent; rewrite Hsnd; change (next_seq (norm_sender s')) with (next_seq s'); rewrite Fn; reflexivity).
  assert (Ed : dupt (l_snd st') = dupt (l_snd st)) by (unfold dupt; rewrite Hsnd; change (dupack (norm_sender s')) with (dupack s'); rewrite Fd; reflexivity).
  assert (Psi st' + 0 <= Psi st); [|lia].
  apply (Psi_cmp st st' 0 0 0 0 G G'); try lia.
  - rewrite Hsnd, lgz_norm, Fr. lia.
  - apply MZ. intros x Hx. destruct (NC x Hx).
  - intros _. rewrite Ek, Eu.
    assert (cntnot (statL lc st') (keys (timers (l_snd st))) <= cntnot (statL lc st) (keys (timers (l_snd st)))); [|lia].
    apply cntnot_mono. intros i _. apply ML; [apply NF|]. intros x Hx. destruct (NC x Hx).
  - intros _. rewrite Ek, Eu, Ed.
    assert (cntnot (statP lc st') (keys (timers (l_snd st))) <= cntnot (statP lc st) (keys (timers (l_snd st)))); [|lia].
    apply cntnot_mono. intros i _. apply MP; [apply NF|]. intros x Hx. destruct (NC x Hx).
  - intros _ _. apply cntnot_nonneg.
Qed.

(* a timer expiry pays one: by its doubling below Theta, by gaining a witness (or the lock) above *)
Lemma Psi_expire st a rest st' id s' o nw kp k news :
  Good st -> Good st' -> l_agenda st = a :: rest -> Tr lc st a rest st' ->
  ae_ev a = ATimerFire id -> has_timer id (timers (l_snd st)) = true ->
  step repaired (lc_cfg lc) (l_snd st) (EExpire id) = Ok s' o -> oeff lc (ae_time a) (l_n1 st) o = (nw, kp, k) -> kp = tx_ids o ->
  l_snd st' = norm_sender s' -> l_now st' = ae_time a -> l_n2 st' = l_n2 st ->
  l_wd st' = wd_app (l_wd st) kp (ae_time a) ->
  AddsT rest (l_agenda st') news -> (forall n, In n nw -> In n news) ->
  Psi st' + 1 <= Psi st.
Proof.
  intros G G' E HT Ea Hht Hstep Ho Hkp Hsnd Hnow Hn2 Hwd HA' Hsub.
  pose proof (la_sinv _ _ _ (g_A _ G)) as I. set (s := l_snd st) in *.
  assert (Hk : In id (keys (timers s))) by (apply has_timer_In; exact Hht).
  assert (Hs : in_sent id (sent s) = true) by (apply in_sent_In; rewrite <- (si_keys _ _ I); exact Hk).
  cbn [step] in Hstep. unfold on_timer in Hstep. rewrite Hht in Hstep. cbn [negb] in Hstep. unfold resend in Hstep. proj. rewrite Hs in Hstep.
  injection Hstep as <- <-. cbn [app tx_ids flat_map] in Hkp. subst kp.
  set (r' := (rto s * (2 # 1))%Q) in *.
  assert (HinF : In (nq (ae_time a + r'), ATimerFire id) news).
  { apply Hsub. cbn [oeff] in Ho. destruct (droppedD lc (l_n1 st)); inversion Ho; subst nw; try (left; reflexivity); right; left; reflexivity. }
  pose proof (si_rto _ _ I) as Hrto.
  assert (HX : last_ack (l_snd st') = last_ack s) by (rewrite Hsnd; reflexivity).
  destruct (stat_mono_step st a rest st' G E HT HX (or_intror Hn2)) as (MP & ML & MZ).
  assert (NC : forall x, ~ consumed lc st a x) by (intros x; apply not_consumed; apply no_consume_plain; right; right; eauto).
  destruct (nofire st a rest id G E Ea Hk) as [NP NL].
  assert (Ek : keys (timers (l_snd st')) = keys (timers s)).
  { rewrite Hsnd. unfold norm_sender; proj. rewrite keys_norm, keys_rearm. reflexivity. }
  assert (Eu : unsent (l_snd st') = unsent s) by (rewrite Hsnd; reflexivity).
  assert (Ed : dupt (l_snd st') = dupt s) by (rewrite Hsnd; reflexivity).
  assert (Er : lgz Theta (rto (l_snd st')) = lgz Theta r') by (rewrite Hsnd, lgz_norm; reflexivity).
  assert (MonoP : forall i, In i (keys (timers s)) -> statP lc st i = true -> statP lc st' i = true).
  { intros i _ Hi. apply MP; [rewrite Ea; intros Eq; injection Eq as <-; congruence| |exact Hi]. intros x Hx. destruct (NC x Hx). }
  assert (MonoL : forall i, In i (keys (timers s)) -> statL lc st i = true -> statL lc st' i = true).
  { intros i _ Hi. apply ML; [rewrite Ea; intros Eq; injection Eq as <-; congruence| |exact Hi]. intros x Hx. destruct (NC x Hx). }
  assert (MonoZ : zmode lc st = true -> zmode lc st' = true) by (apply MZ; intros x Hx; destruct (NC x Hx)).
  destruct (Qlt_le_dec (rto s) Theta) as [Hlow|Hhigh].
  - (* below Theta: the doubling pays *)
    apply (Psi_cmp st st' 1 1 0 0 G G'); try lia.
    + rewrite Er. pose proof (lgz_double Theta (rto s) Hrto Hlow). fold r' in H. fold s. lia.
    + exact MonoZ.
    + intros _. rewrite Ek, Eu. pose proof (cntnot_mono _ _ _ MonoL). fold s. lia.
    + intros _. rewrite Ek, Eu, Ed. pose proof (cntnot_mono _ _ _ MonoP). fold s. lia.
    + intros _ _. apply cntnot_nonneg.
  - (* at or above Theta: the re-armed timer is due after everything in flight *)
    assert (Hitems : wd_items (l_wd st') = wd_items (l_wd st) ++ [id]) by (rewrite Hwd; reflexivity).
    destruct (new_item_in st' id _ Hitems) as (td & Hx0).
    pose proof (new_fire_in _ _ _ _ _ HA' HinF) as Hf0.
    assert (HD : (l_now st' + (nlen (wd_items (l_wd st')) + 2) * d < nq (ae_time a + r'))%Q).
    { rewrite Hnow, Hitems, nlen_app, nq_eq.
      assert (E1 : (nlen [id] == 1)%Q) by reflexivity. rewrite E1.
      pose proof (g_q _ G) as Hq. unfold r'.
      assert (E2 : ((nlen (wd_items (l_wd st)) + 1 + 2) * d == (nlen (wd_items (l_wd st)) + 3) * d)%Q) by ring.
      rewrite E2. lra. }
    assert (GP : statP lc st' id = true).
    { eapply statP_intro; [exact Hf0|exact Hx0|cbn; apply Z.eqb_refl|eapply all_before; eauto]. }
    assert (GL : zmode lc st' = true -> statL lc st' id = true).
    { intros Hz. destruct (zmode_elim st' Hz) as (x & Hx & Hxx). eapply statL_intro; [exact Hf0|exact Hx|exact Hxx|eapply all_before; eauto]. }
    apply (Psi_cmp st st' 1 0 1 1 G G'); try lia.
    + rewrite Er. pose proof (lgz_mono Theta (rto s) r' Hrto ltac:(unfold r'; lra)). fold s. lia.
    + exact MonoZ.
    + intros Hz. rewrite Ek, Eu. pose proof (cntnot_gain _ _ _ id Hk NL (GL (MonoZ Hz)) MonoL). fold s. lia.
    + intros _. rewrite Ek, Eu, Ed. pose proof (cntnot_gain _ _ _ id Hk NP GP MonoP). fold s. lia.
    + intros _ _. apply (cntnot_pos _ _ id Hk NP).
Qed.

(* a duplicate ACK: it may take a timer's witness away; the first two are paid by the duplicate
   counter, from the third on the segment at last_ack is retransmitted and an X-item is in flight *)
Lemma Psi_dupack st a rest st' k p sample orc s' o nw kp kk :
  Good st -> Good st' -> l_agenda st = a :: rest -> Tr lc st a rest st' ->
  ev_sender lc st (ae_time a) (ae_ev a) (EAck k p sample orc) true ->
  step repaired (lc_cfg lc) (l_snd st) (EAck k p sample orc) = Ok s' o -> last_ack s' = last_ack (l_snd st) ->
  oeff lc (ae_time a) (l_n1 st) o = (nw, kp, kk) -> kp = tx_ids o ->
  l_snd st' = norm_sender s' -> l_n2 st' = l_n2 st ->
  l_wd st' = wd_app (l_wd st) kp (ae_time a) ->
  Psi st' <= Psi st.
Proof.
  intros G G' E HT Hev Hstep HXs Ho Hkp Hsnd Hn2 Hwd.
  pose proof (la_sinv _ _ _ (g_A _ G)) as I. set (s := l_snd st) in *.
  assert (Hdp : 0 <= dupack s) by apply (si_win _ _ I).
  pose proof Hstep as Hstep0. cbn [step] in Hstep.
  apply on_ack_shape in Hstep; [|exact Hdp]. destruct Hstep as (Fn & _ & _ & _ & _ & [D|Nw]);
    [|destruct Nw as (Hne & Hl & _); congruence].
  destruct D as (Ek & _ & Fd & Ft & Fs & _ & _ & Fr & _ & _ & Fo). subst k.
  set (X := last_ack s) in *.
  assert (HX : last_ack (l_snd st') = X) by (rewrite Hsnd; exact HXs).
  destruct (stat_mono_step st a rest st' G E HT HX (or_intror Hn2)) as (MP & ML & MZ).
  assert (Hcons : forall x, consumed lc st a x -> fst x = IA X p).
  { intros x [_ Hx]. unfold hA1, hA1te in Hx. destruct (ae_ev a) eqn:Eev; inversion Hev; subst; destruct Hx as [<-|[]]; reflexivity. }
  assert (NX : forall x, consumed lc st a x -> isX X (fst x) = false).
  { intros x Hx. rewrite (Hcons x Hx). cbn [isX]. apply Z.ltb_irrefl. }
  assert (NF : forall i, ae_ev a <> ATimerFire i) by (intros i Hi; rewrite Hi in Hev; inversion Hev).
  assert (EkS : keys (timers (l_snd st')) = keys (timers s)).
  { rewrite Hsnd. change (timers (norm_sender s')) with (map (fun q : Z * Q => (fst q, nq (snd q))) (timers s')). rewrite keys_norm, Ft. reflexivity. }
  assert (Eu : unsent (l_snd st') = unsent s) by (unfold unsent; rewrite Hsnd; change (next_seq (norm_sender s')) with (next_seq s'); rewrite Fn; reflexivity).
  assert (Edp : dupack (l_snd st') = dupack s + 1) by (rewrite Hsnd; exact Fd).
  assert (MonoL : forall i, In i (keys (timers s)) -> statL lc st i = true -> statL lc st' i = true).
  { intros i _ Hi. apply ML; [apply NF|exact NX|exact Hi]. }
  assert (MonoP : forall i, In i (keys (timers s)) -> i <> p -> statP lc st i = true -> statP lc st' i = true).
  { intros i _ Hip Hi. apply MP; [apply NF| |exact Hi]. intros x Hx. rewrite (Hcons x Hx). cbn [isW]. apply Z.eqb_neq. congruence. }
  assert (Hnd : NoDup (keys (timers s))) by (rewrite (si_keys _ _ I); apply (si_nodup _ _ I)).
  assert (Psi st' + 0 <= Psi st); [|lia].
  apply (Psi_cmp st st' 0 0 0 0 G G'); try lia.
  - rewrite Hsnd, lgz_norm, Fr. fold s. lia.
  - apply MZ. exact NX.
  - intros _. rewrite EkS, Eu. pose proof (cntnot_mono _ _ _ MonoL). fold s. lia.
  - intros Hz'. rewrite EkS, Eu. fold s.
    pose proof (cntnot_mono_but (statP lc st) (statP lc st') _ p Hnd MonoP) as Hc1.
    unfold dupt. rewrite Edp.
    destruct (Z_le_gt_dec (dupack s + 1) 2) as [Hsmall|Hbig]; [lia|].
    (* third duplicate or later *)
    destruct (Z_lt_ge_dec X (next_seq s)) as [Hout|Hall].
    + exfalso. pose proof (u_la_sent _ _ (g_U _ G) Hout) as Hin. fold s in Hin. fold X in Hin. apply in_sent_In in Hin.
      assert (Eo : o = [Tx X m]).
      { cbn [step] in Hstep0. unfold X in Hstep0, Hin. destruct (Z.eq_dec (dupack s) 2) as [E2|E2].
        - rewrite (fast_retransmit_rule repaired (lc_cfg lc) s p sample orc E2 Hin) in Hstep0. injection Hstep0 as _ <-. reflexivity.
        - assert (Hcw : (0 <= cwnd s)%Q).
          { destruct (si_win _ _ I) as (Hc & _). assert (0 < zq m)%Q by (apply (zq_lt 0); exact Hm). lra. }
          rewrite (more_dupacks_rule repaired (lc_cfg lc) s p sample orc ltac:(lia) Hcw Hm Hin) in Hstep0. injection Hstep0 as _ <-. reflexivity. }
      rewrite Eo in Hkp. cbn [tx_ids flat_map app] in Hkp. subst kp.
      destruct (new_item_in st' X (wd_items (l_wd st)) ltac:(rewrite Hwd; reflexivity)) as (td & Hx0).
      assert (zmode lc st' = true); [|congruence].
      eapply zmode_intro; [exact Hx0|]. rewrite HX. cbn [fst isX]. apply Z.eqb_refl.
    + assert (Hnse : X <= next_seq s).
      { pose proof (lb_la _ _ _ (g_B _ G)). pose proof (LInvB_nse_le lc st None Hm (g_B _ G)). unfold X, s. lia. }
      assert (Et : timers s = []) by (apply (u_all_acked _ _ (g_U _ G)); fold s; fold X; lia).
      rewrite Et. unfold keys, cntnot. cbn [map filter length Z.of_nat]. lia.
  - intros _ _. apply cntnot_nonneg.
Qed.

(* ---- one agenda step ---- *)
Lemma nexp_cons st st' x : l_slog st' = x :: l_slog st -> nexp st' = ((if is_expire (sl_ev x) then 1 else 0) + nexp st)%nat.
Proof. intros E. unfold nexp. rewrite E. cbn [filter]. destruct (is_expire (sl_ev x)); reflexivity. Qed.

Lemma nexp_same st st' : l_slog st' = l_slog st -> nexp st' = nexp st.
Proof. intros E. unfold nexp. rewrite E. reflexivity. Qed.

(* EVERY AGENDA STEP KEEPS Total; EVERY TIMER EXPIRY LOWERS IT BY ONE *)
Lemma Total_step st a rest st' :
  Good st -> Good st' -> l_agenda st = a :: rest -> Tr lc st a rest st' ->
  last_ack (l_snd st) <= last_ack (l_snd st') ->
  Total st' + Z.of_nat (nexp st') <= Total st + Z.of_nat (nexp st).
Proof.
  intros G G' E HT Hla.
  (* counters *)
  assert (Cn : (l_n1 st <= l_n1 st')%nat /\ (l_n2 st <= l_n2 st')%nat /\ (nexp st' <= S (nexp st))%nat).
  { destruct HT as [e isack s' o nw kp k nwa Hev Hstep Ho Hnow Hsnd Hsink Hn2 Hslog Hn1 Hwd Hif HA' Hkp Hkeep Hpkt
                   | id r Hev Hfind Hk Hwd Hwa HA' | Hev Hk Hwd Hwa Hag | Hev Hk Hwa Hwd HA' | Hev Hk Hwd Hwa HA'
                   | id Hev Hq Hk Hwd Hwa HA' | ackno pid tm ct Hev Hq Hk Hwd Hwa HA'
                   | id tm ct Hev Hp Hnow Hsnd Hpkt Hn1 Hslog Hsink Hn2 Hwd Hif];
      try (destruct Hk as [k1 k2 k3 k4 k5 k6 k7]; unfold popped in *; lproj; rewrite (nexp_same _ _ k7); lia).
    - rewrite (nexp_cons _ _ _ Hslog). destruct (is_expire _); lia.
    - rewrite (nexp_same _ _ Hslog). lia. }
  destruct Cn as (Cn1 & Cn2 & Cne).
  pose proof (dropsAfter_mono _ _ (lc_drop_data lc) Cn1) as D1. pose proof (dropsAfter_mono _ _ (lc_drop_ack lc) Cn2) as D2.
  assert (Hdr : dropsRem st' <= dropsRem st) by (unfold dropsRem; lia).
  destruct (Z_lt_ge_dec (last_ack (l_snd st)) (last_ack (l_snd st'))) as [Hnew|Hsame].
  { pose proof (Total_phase st st' Hm G G' Hla Hdr (or_introl Hnew)). lia. }
  destruct (Z_lt_ge_dec (dropsRem st') (dropsRem st)) as [Hdrop|Hnodrop].
  { pose proof (Total_phase st st' Hm G G' Hla Hdr (or_intror Hdrop)). lia. }
  assert (HX : last_ack (l_snd st') = last_ack (l_snd st)) by lia.
  assert (E1 : dropsAfter (l_n1 st') (lc_drop_data lc) = dropsAfter (l_n1 st) (lc_drop_data lc)) by (unfold dropsRem in *; lia).
  assert (E2 : dropsAfter (l_n2 st') (lc_drop_ack lc) = dropsAfter (l_n2 st) (lc_drop_ack lc)) by (unfold dropsRem in *; lia).
  assert (Ed : dropsRem st' = dropsRem st) by (unfold dropsRem; rewrite E1, E2; reflexivity).
  assert (Hnd : droppedA lc (l_n2 st) = false \/ l_n2 st' = l_n2 st).
  { destruct (Nat.eq_dec (l_n2 st') (l_n2 st)) as [En|En]; [right; exact En|left].
    destruct (droppedA lc (l_n2 st)) eqn:Edr; [|reflexivity]. exfalso.
    pose proof (dropsAfter_S _ _ Edr). pose proof (dropsAfter_mono (S (l_n2 st)) (l_n2 st') (lc_drop_ack lc) ltac:(lia)). lia. }
  assert (Goal2 : Psi st' + Z.of_nat (nexp st') <= Psi st + Z.of_nat (nexp st)); [|unfold Total; rewrite HX, Ed; lia].
  assert (Quiet : l_snd st' = l_snd st -> l_slog st' = l_slog st ->
                  (forall e, ~ ev_sender lc st (ae_time a) (ae_ev a) e true) ->
                  (forall i, In i (keys (timers (l_snd st))) -> ae_ev a <> ATimerFire i) ->
                  Psi st' + Z.of_nat (nexp st') <= Psi st + Z.of_nat (nexp st)).
  { intros Es El Hns Hnf. rewrite (nexp_same _ _ El). pose proof (Psi_step_quiet st a rest st' G G' E HT Es Hnd Hns Hnf). lia. }
  pose proof HT as HT0.
  destruct HT as [e isack s' o nw kp k nwa Hev Hstep Ho Hnow Hsnd Hsink Hn2 Hslog Hn1 Hwd Hif HA' Hkp Hkeep Hpkt
                 | id r Hev Hfind Hk Hwd Hwa HA' | Hev Hk Hwd Hwa Hag | Hev Hk Hwa Hwd HA' | Hev Hk Hwd Hwa HA'
                 | id Hev Hq Hk Hwd Hwa HA' | ackno pid tm ct Hev Hq Hk Hwd Hwa HA'
                 | id tm ct Hev Hp Hnow Hsnd Hpkt Hn1 Hslog Hsink Hn2 Hwd Hif].
  - (* sender *)
    rewrite (nexp_cons _ _ _ Hslog). cbn [sl_ev].
    assert (Hkp2 : kp = tx_ids o).
    { destruct (oeff_nodrop lc _ _ _ _ _ _ Ho) as [Hlt|Hk2]; [|exact Hk2]. exfalso. rewrite <- Hn1 in Hlt. lia. }
    assert (HXs : last_ack s' = last_ack (l_snd st)) by (rewrite Hsnd in HX; exact HX).
    inversion Hev as [Ea Ee Ei|Ea Ee Ei|id Hht Ea Ee Ei|k0 p tm ct Hq Ea Ee Ei|k0 p tm ct Ea Ee Ei]; subst e isack; cbn [is_expire].
    + pose proof (Psi_wake st a rest st' s' o G G' E HT0 (eq_sym Ea) Hstep Hsnd Hn2). lia.
    + pose proof (Psi_cb st a rest st' s' o G G' E HT0 (eq_sym Ea) Hstep Hsnd Hn2). lia.
    + pose proof (Psi_expire st a rest st' id s' o nw kp k _ G G' E HT0 (eq_sym Ea) Hht Hstep Ho Hkp2 Hsnd Hnow Hn2 Hwd HA'
                  ltac:(intros n Hin; apply in_or_app; left; apply in_or_app; left; exact Hin)). lia.
    + pose proof (Psi_dupack st a rest st' _ _ _ _ s' o nw kp k G G' E HT0 Hev Hstep HXs Ho Hkp2 Hsnd Hn2 Hwd). lia.
    + pose proof (Psi_dupack st a rest st' _ _ _ _ s' o nw kp k G G' E HT0 Hev Hstep HXs Ho Hkp2 Hsnd Hn2 Hwd). lia.
  - destruct Hk as [k1 k2 k3 k4 k5 k6 k7]. unfold popped in *; lproj. apply Quiet; auto.
    + intros e He. rewrite Hev in He. inversion He.
    + intros i _. rewrite Hev. discriminate.
  - destruct Hk as [k1 k2 k3 k4 k5 k6 k7]. unfold popped in *; lproj. apply Quiet; auto.
    + intros e He. destruct (ae_ev a) as [| | | | |[]| | | |]; try contradiction; inversion He; subst; congruence.
    + intros i Hi Ea. rewrite Ea in Hev. apply has_timer_In in Hi. congruence.
  - destruct Hk as [k1 k2 k3 k4 k5 k6 k7]. unfold popped in *; lproj. apply Quiet; auto.
    + intros e He. destruct Hev as [Ea|[Ea _]]; rewrite Ea in He; inversion He.
    + intros i _. destruct Hev as [Ea|[Ea _]]; rewrite Ea; discriminate.
  - destruct Hk as [k1 k2 k3 k4 k5 k6 k7]. unfold popped in *; lproj. apply Quiet; auto.
    + intros e He. destruct Hev as [Ea|[Ea _]]; rewrite Ea in He; inversion He.
    + intros i _. destruct Hev as [Ea|[Ea _]]; rewrite Ea; discriminate.
  - destruct Hk as [k1 k2 k3 k4 k5 k6 k7]. unfold popped in *; lproj. apply Quiet; auto.
    + intros e He. rewrite Hev in He. inversion He.
    + intros i _. rewrite Hev. discriminate.
  - destruct Hk as [k1 k2 k3 k4 k5 k6 k7]. unfold popped in *; lproj. apply Quiet; auto.
    + intros e He. rewrite Hev in He. inversion He; subst. congruence.
    + intros i _. rewrite Hev. discriminate.
  - apply Quiet; auto.
    + intros e He. destruct Hev as [Ea|[Ea _]]; rewrite Ea in He; inversion He.
    + intros i _. destruct Hev as [Ea|[Ea _]]; rewrite Ea; discriminate.
Qed.
End Pot3.
