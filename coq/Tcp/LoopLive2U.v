(* C16 liveness, continued.  Part 12: the bookkeeping invariant LInvV behind LInvU:
   every armed timer has exactly one kernel event (its Initialize or its Timeout) on the agenda and
   no event exists for a segment not yet sent; segment ids, ACK numbers and last_ack are multiples
   of MSS; every segment still in sent_packets ends above last_ack.  Hence: the segment starting at
   last_ack is in flight whenever last_ack < next_seq, and no timer is armed when last_ack = next_seq. *)
From Coq Require Import ZArith QArith Qabs Qround Qminmax List Bool Lia Lqa Arith.
From ONL Require Import Tcp.Sink Tcp.SinkProofs Tcp.Sender Tcp.SenderProofs Tcp.Loop Tcp.LoopProofs Tcp.LoopLive
  Tcp.LoopLossfree Tcp.LoopLive2 Tcp.LoopLive2T Tcp.LoopLive2P Tcp.LoopLive2Q.
Import ListNotations.
Open Scope Z_scope.

Definition timer_id (e : aev) : option Z := match e with ATimerInit j | ATimerFire j => Some j | _ => None end.

(* timer outputs of a sender event for segment j *)
Definition tcount (j : Z) (o : list out) : nat :=
  length (filter (fun x => match x with TStart i _ | TRestart i _ => i =? j | _ => false end) o).

Lemma oeff_tcount lc tau j : forall o n1 nw kp k, oeff lc tau n1 o = (nw, kp, k) -> ncount (is_timer j) nw = tcount j o.
Proof.
  induction o as [|x o IH]; intros n1 nw kp k; cbn [oeff].
  - intros E; injection E as <- <- <-. reflexivity.
  - unfold tcount in *. destruct x as [id z|id r|id|id r]; cbn [filter].
    + destruct (oeff lc tau (S n1) o) as [[nw1 kp1] k1] eqn:E1. specialize (IH _ _ _ _ E1).
      destruct (droppedD lc n1); intros E; injection E as <- <- <-; [exact IH|]. rewrite ncount_cons. cbn [snd is_timer b2n]. exact IH.
    + destruct (oeff lc tau n1 o) as [[nw1 kp1] k1] eqn:E1. specialize (IH _ _ _ _ E1). intros E; injection E as <- <- <-.
      rewrite ncount_cons. cbn [snd is_timer]. destruct (id =? j); cbn [b2n length]; lia.
    + apply IH.
    + destruct (oeff lc tau n1 o) as [[nw1 kp1] k1] eqn:E1. specialize (IH _ _ _ _ E1). intros E; injection E as <- <- <-.
      rewrite ncount_cons. cbn [snd is_timer]. destruct (id =? j); cbn [b2n length]; lia.
Qed.

Lemma extra_news_notimer tau s s' e j : ncount (is_timer j) (extra_news tau s s' e) = O.
Proof.
  unfold ncount. apply length_zero_iff_nil, filter_none. intros x Hx. apply extra_news_kind in Hx as [->| ->]; reflexivity.
Qed.

Lemma tcount_segs mm id n r j : 0 < mm -> tcount j (segs mm id n r) = if existsb (Z.eqb j) (seg_ids mm id n) then 1%nat else 0%nat.
Proof.
  intros Hm. revert id. induction n as [|n IH]; intros id; [reflexivity|]. cbn [segs seg_ids existsb]. unfold tcount in *. cbn [filter].
  specialize (IH (id + mm)). rewrite (Z.eqb_sym j id). destruct (id =? j) eqn:E; cbn [orb length]; [|exact IH].
  rewrite IH. apply Z.eqb_eq in E. subst j. destruct (existsb (Z.eqb id) (seg_ids mm (id + mm) n)) eqn:E2; [|reflexivity]. exfalso.
  apply existsb_exists in E2 as (x & Hx & Ex). apply Z.eqb_eq in Ex. subst x. apply seg_ids_In in Hx as (k & _ & Hk). nia.
Qed.

Lemma tcount_stops j ids : tcount j (map TStop ids) = O.
Proof. induction ids as [|i t IH]; [reflexivity|]. unfold tcount in *. cbn [map filter]. exact IH. Qed.

Lemma existsb_eqb_In j l : existsb (Z.eqb j) l = true <-> In j l.
Proof. rewrite existsb_exists. split; [intros (x & Hx & E); apply Z.eqb_eq in E; subst; exact Hx|intros H; exists j; split; [exact H|apply Z.eqb_refl]]. Qed.

(* the timer table and the timer outputs of one sender transition *)
Lemma step_timers c s e s' o :
  0 < mss c -> SInv c s -> step repaired c s e = Ok s' o ->
  next_seq s <= next_seq s' /\
  (forall j, (1 <= tcount j o)%nat -> j < next_seq s') /\
  forall j, In j (keys (timers s')) ->
    (In j (keys (timers s)) /\ tcount j o = match e with EExpire i => if i =? j then 1%nat else 0%nat | _ => 0%nat end) \/
    (~ In j (keys (timers s)) /\ next_seq s <= j /\ tcount j o = 1%nat /\ e = EWake).
Proof.
  intros Hm I H. pose proof (si_below _ _ I) as Hb. rewrite <- (si_keys _ _ I) in Hb. rewrite Forall_forall in Hb.
  destruct e as [ackno pid sample orc|id| |]; cbn [step] in H.
  - apply on_ack_shape in H; [|apply I]. destruct H as (N & _ & _ & _ & _ & [D|Nw]).
    + destruct D as (_ & _ & _ & T & _ & _ & _ & _ & _ & _ & Hout). rewrite N, T.
      assert (Z0 : forall j, tcount j o = O) by (intros j; destruct Hout as [->|(-> & _)]; reflexivity).
      split; [lia|]. split; [intros j Hj; rewrite Z0 in Hj; lia|]. intros j Hj. left. split; [exact Hj|apply Z0].
    + destruct Nw as (_ & _ & _ & T & _ & Hout & _). rewrite N.
      split; [lia|]. split; [intros j Hj; rewrite Hout, tcount_stops in Hj; lia|]. intros j Hj. left. rewrite Hout, tcount_stops. split; [|reflexivity].
      rewrite T in Hj. apply (In_keys_filter (fun x => negb (mem x (acked_ids repaired c s ackno pid)))) in Hj. apply Hj.
  - apply on_timer_shape in H as (Hin & -> & Hout). proj.
    assert (Z0 : forall j, tcount j o = if id =? j then 1%nat else 0%nat).
    { intros j. destruct Hout as [->|(-> & _)]; unfold tcount; cbn [filter]; destruct (id =? j); reflexivity. }
    split; [lia|]. split.
    + intros j Hj. rewrite Z0 in Hj. destruct (id =? j) eqn:E; [|lia]. apply Z.eqb_eq in E. subst j. apply Hb, Hin.
    + intros j Hj. left. rewrite keys_rearm in Hj. split; [exact Hj|apply Z0].
  - apply on_storecb_shape in H as (-> & p & _ & [(_ & _ & ->)|(_ & ->)]); proj;
      (split; [lia|]); (split; [intros j Hj; cbn in Hj; lia|]); intros j Hj; left; split; auto.
  - apply send_guard in H; [|exact Hm]. destruct H as (n & -> & Hns & Ht & _). proj. cbn [app].
    split; [nia|]. split.
    + intros j Hj. rewrite tcount_segs in Hj by exact Hm. destruct (existsb (Z.eqb j) _) eqn:E; [|lia].
      apply existsb_eqb_In in E. apply seg_ids_In in E as (k & Hk & ->). rewrite Hns. nia.
    + intros j Hj. rewrite Ht, keys_app, keys_map_pair in Hj. rewrite tcount_segs by exact Hm.
      apply in_app_or in Hj as [Hj|Hj].
      * left. split; [exact Hj|]. destruct (existsb (Z.eqb j) _) eqn:E; [|reflexivity]. exfalso.
        apply existsb_eqb_In in E. apply seg_ids_In in E as (k & Hk & Ek). specialize (Hb j Hj). nia.
      * right. pose proof Hj as Hj2. apply seg_ids_In in Hj2 as (k & Hk & Ek).
        split; [intros Hin; specialize (Hb j Hin); nia|]. split; [nia|]. split; [|reflexivity].
        apply existsb_eqb_In in Hj. rewrite Hj. reflexivity.
Qed.

Record LInvTm (lc : lcfg) (st : lstate) : Prop := {
  tm_uniq : forall id, In id (keys (timers (l_snd st))) -> acount (is_timer id) (l_agenda st) = 1%nat;
  tm_fresh : forall b j, In b (l_agenda st) -> timer_id (ae_ev b) = Some j -> j < next_seq (l_snd st)
}.

Lemma is_timer_id j e : is_timer j e = true -> timer_id e = Some j.
Proof. destruct e; cbn; try discriminate; intros H; apply Z.eqb_eq in H; subst; reflexivity. Qed.

Lemma timer_id_is j e : timer_id e = Some j -> is_timer j e = true.
Proof. destruct e; cbn; try discriminate; intros H; injection H as ->; apply Z.eqb_refl. Qed.

Lemma ncount_nil_pred p news : (forall x, In x news -> p (snd x) = false) -> ncount p news = O.
Proof. intros H. unfold ncount. apply length_zero_iff_nil, filter_none. exact H. Qed.

Lemma getA_news_notimer tau w x : In x (fst (getA_eff tau w)) -> timer_id (snd x) = None.
Proof. unfold getA_eff. destruct (wa_items w); cbn [fst]; [intros []|]. intros [<-|[]]. reflexivity. Qed.
Lemma getD_news_notimer tau w x : In x (fst (getD_eff tau w)) -> timer_id (snd x) = None.
Proof. unfold getD_eff. destruct (wd_items w); cbn [fst]; [intros []|]. intros [<-|[]]. reflexivity. Qed.

Lemma not_timer_pred j e : timer_id e = None -> is_timer j e = false.
Proof. destruct e; cbn; try discriminate; reflexivity. Qed.

(* a step whose entry and whose new entries are not timer events, and that leaves the sender alone *)
Lemma Tm_plain lc st a rest st' news :
  LInvTm lc st -> l_agenda st = a :: rest -> l_snd st' = l_snd st -> AddsT rest (l_agenda st') news ->
  (forall id, In id (keys (timers (l_snd st))) -> ncount (is_timer id) news = b2n (is_timer id (ae_ev a))) ->
  (forall x j, In x news -> timer_id (snd x) = Some j -> timer_id (ae_ev a) = Some j) ->
  LInvTm lc st'.
Proof.
  intros [U F] E Es HA Hc Hn. constructor; rewrite Es.
  - intros id Hid. rewrite (AddsT_acount _ _ _ _ HA), (Hc id Hid). specialize (U id Hid). rewrite E, acount_cons in U. exact U.
  - intros b j Hb Hj. destruct (AddsT_In_iff _ _ _ HA b Hb) as [Hold|Hnew].
    + apply (F b j); [rewrite E; right; exact Hold|exact Hj].
    + apply (F a j); [rewrite E; left; reflexivity|]. apply (Hn _ _ Hnew). exact Hj.
Qed.

Lemma nw_timer_tcount lc tau o n1 nw kp k x j :
  oeff lc tau n1 o = (nw, kp, k) -> In x nw -> timer_id (snd x) = Some j -> (1 <= tcount j o)%nat.
Proof.
  intros Ho Hx Hj. rewrite <- (oeff_tcount lc tau j o n1 nw kp k Ho). eapply ncount_ge1; [exact Hx|apply timer_id_is; exact Hj].
Qed.

Lemma LInvTm_step lc st a rest st' :
  0 < mss (lc_cfg lc) -> LInvA lc st None -> LInvTm lc st -> l_agenda st = a :: rest -> Tr lc st a rest st' -> LInvTm lc st'.
Proof.
  intros Hm HA HT0 E HT. pose proof HT0 as [U F]. pose proof (la_sinv _ _ _ HA) as I.
  destruct HT as [e isack s' o nw kp k nwa Hev Hstep Ho Hnow Hsnd Hsink Hn2 Hslog Hn1 Hwd Hif HA' Hkp Hkeep Hpkt
                 | id r Hev Hfind Hk Hwd Hwa HA' | Hev Hk Hwd Hwa Hag | Hev Hk Hwa Hwd HA' | Hev Hk Hwd Hwa HA'
                 | id tm ct Hev Hp Hq Hk Hwd Hwa HA' | ackno pid tm ct Hev Hq Hk Hwd Hwa HA'
                 | id tm ct Hev Hp Hnow Hsnd Hpkt Hn1 Hslog Hsink Hn2 Hwd Hif].
  - (* sender *)
    destruct (step_timers _ _ _ _ _ Hm I Hstep) as (Hns & Hnew & Hkeys).
    assert (Ek : keys (timers (l_snd st')) = keys (timers s')).
    { rewrite Hsnd. change (timers (norm_sender s')) with (map (fun q : Z * Q => (fst q, nq (snd q))) (timers s')). apply keys_norm. }
    assert (En : next_seq (l_snd st') = next_seq s') by (rewrite Hsnd; reflexivity).
    assert (Cnt : forall j, ncount (is_timer j) ((nw ++ extra_news (ae_time a) (l_snd st) s' e) ++ nwa) = tcount j o).
    { intros j. rewrite !ncount_app, (oeff_tcount lc _ j _ _ _ _ _ Ho), extra_news_notimer.
      assert (ncount (is_timer j) nwa = O); [|lia]. apply ncount_nil_pred. intros x Hx. apply not_timer_pred.
      destruct isack; destruct Hif as [-> _]; [eapply getA_news_notimer; eauto|destruct Hx]. }
    constructor.
    + intros j Hj. rewrite Ek in Hj. rewrite (AddsT_acount _ _ _ _ HA'), Cnt.
      destruct (Hkeys j Hj) as [[Hold Ht]|(Hnot & Hge & Ht & _)].
      * specialize (U j Hold). rewrite E, acount_cons in U. rewrite Ht.
        destruct (ae_ev a) eqn:Ea; inversion Hev; subst; cbn [is_timer b2n] in U; try lia.
        destruct (id =? j); cbn [b2n] in U; lia.
      * rewrite Ht. assert (acount (is_timer j) rest = O); [|lia].
        destruct (acount (is_timer j) rest) eqn:Ec; [reflexivity|]. exfalso.
        destruct (acount_pos (is_timer j) rest ltac:(lia)) as (b & Hb & Hbt).
        pose proof (F b j ltac:(rewrite E; right; exact Hb) (is_timer_id _ _ Hbt)). lia.
    + intros b j Hb Hj. rewrite En. destruct (AddsT_In_iff _ _ _ HA' b Hb) as [Hold|Hnw].
      * pose proof (F b j ltac:(rewrite E; right; exact Hold) Hj). lia.
      * apply Hnew. apply in_app_or in Hnw as [Hnw|Hnw]; [apply in_app_or in Hnw as [Hnw|Hnw]|].
        -- eapply nw_timer_tcount; eauto.
        -- exfalso. apply extra_news_kind in Hnw as [Ex|Ex]; injection Ex as _ Ex; rewrite Ex in Hj; discriminate.
        -- exfalso. destruct isack; destruct Hif as [-> _]; [|destruct Hnw].
           pose proof (getA_news_notimer _ _ _ Hnw) as Hx. cbn [snd] in Hx. congruence.
  - destruct Hk as [k1 k2 k3 k4 k5 k6 k7]. unfold popped in *; lproj.
    eapply Tm_plain; eauto.
    + intros j _. rewrite ncount_cons. cbn [snd ncount filter length]. rewrite Hev. cbn [is_timer]. lia.
    + intros x j [<-|[]] Hj. cbn [snd timer_id] in Hj. rewrite Hev. exact Hj.
  - destruct Hk as [k1 k2 k3 k4 k5 k6 k7]. unfold popped in *; lproj.
    eapply (Tm_plain lc st a rest st' []); eauto; [rewrite Hag; constructor| |intros x j []].
    intros j Hj. cbn. destruct (is_timer j (ae_ev a)) eqn:Et; [|reflexivity]. exfalso.
    apply is_timer_id in Et. apply has_timer_In in Hj.
    destruct (ae_ev a) as [| |i|i|w|w| | | |]; cbn [timer_id] in Et; try discriminate; injection Et as ->; congruence.
  - destruct Hk as [k1 k2 k3 k4 k5 k6 k7]. unfold popped in *; lproj.
    eapply Tm_plain; eauto.
    + intros j _. rewrite ncount_nil_pred by (intros x Hx; apply not_timer_pred; eapply getD_news_notimer; eauto).
      destruct Hev as [->|[-> _]]; reflexivity.
    + intros x j Hx Hj. rewrite (getD_news_notimer _ _ _ Hx) in Hj. discriminate.
  - destruct Hk as [k1 k2 k3 k4 k5 k6 k7]. unfold popped in *; lproj.
    eapply Tm_plain; eauto.
    + intros j _. rewrite ncount_nil_pred by (intros x Hx; apply not_timer_pred; eapply getA_news_notimer; eauto).
      destruct Hev as [->|[-> _]]; reflexivity.
    + intros x j Hx Hj. rewrite (getA_news_notimer _ _ _ Hx) in Hj. discriminate.
  - destruct Hk as [k1 k2 k3 k4 k5 k6 k7]. unfold popped in *; lproj.
    eapply Tm_plain; eauto.
    + intros j _. rewrite Hev. reflexivity.
    + intros x j [<-|[]] Hj. discriminate.
  - destruct Hk as [k1 k2 k3 k4 k5 k6 k7]. unfold popped in *; lproj.
    eapply Tm_plain; eauto.
    + intros j _. rewrite Hev. reflexivity.
    + intros x j [<-|[]] Hj. discriminate.
  - assert (Hnt : timer_id (ae_ev a) = None) by (destruct Hev as [->|[-> _]]; reflexivity).
    destruct (droppedA lc (l_n2 st)); destruct Hif as [_ HA'].
    + eapply Tm_plain; eauto.
      * intros j _. rewrite ncount_nil_pred by (intros x Hx; apply not_timer_pred; eapply getD_news_notimer; eauto).
        rewrite (not_timer_pred j _ Hnt). reflexivity.
      * intros x j Hx Hj. rewrite (getD_news_notimer _ _ _ Hx) in Hj. discriminate.
    + eapply Tm_plain; eauto.
      * intros j _. rewrite ncount_cons. cbn [snd is_timer b2n].
        rewrite ncount_nil_pred by (intros x Hx; apply not_timer_pred; eapply getD_news_notimer; eauto).
        rewrite (not_timer_pred j _ Hnt). reflexivity.
      * intros x j [<-|Hx] Hj; [discriminate|]. rewrite (getD_news_notimer _ _ _ Hx) in Hj. discriminate.
Qed.
